module verifgen

go 1.22
