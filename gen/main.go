// gen — a small Go→Lean translator for the *pure arithmetic* functions of canine-chain that the Lean
// model relies on (proof-window arithmetic, storage prices, name prices, the emission step).
//
//	gen <repo-root> > lean/Canine/Generated/PureFns.lean
//
// For each function of the table below the body is translated statement by statement into a Lean
// definition over `Int` (Go int64, unbounded: overflow is outside these functions' contract), `Dec`
// (sdk.Dec with its exact rounding, Canine/Basic/Dec.lean), `Bool` and `String`:
//
//	x := e / var x T = e / x = e      let x := ⟦e⟧
//	if c { A } else { B } ; rest      if ⟦c⟧ then ⟦A; rest⟧ else ⟦B; rest⟧       (continuation copied)
//	switch { case c: A ... }          the same, as an if-chain;  switch t { case v: }  compares t = v
//	return e  /  return e, nil        the value (wrapped in `some` for Option-valued functions)
//	return _, err                     none
//	a.Quo(b)                          ← Dec.quo? a b   (none = the division-by-zero panic), hoisted
//	f.Field, k.GetParams(ctx).Field,  a parameter of the definition; the list of these "inputs" is
//	k.GetJklPrice(ctx), len(s)        emitted next to the definition and compared by the tie theorems
//
// Anything outside this subset makes the translator fail loudly (exit 1): a function that stops being
// pure arithmetic is reported, never silently skipped.
package main

import (
	"bytes"
	"crypto/sha256"
	"encoding/hex"
	"fmt"
	"go/ast"
	"go/parser"
	"go/printer"
	"go/token"
	"math/big"
	"os"
	"path/filepath"
	"sort"
	"strings"
)

type spec struct {
	file, name string
	upTo       string // "prefix mode": translate the leading assignments up to and including the one to this variable and return it
}

var table = []spec{
	{"x/storage/types/file.go", "getRoundedWindow", ""},
	{"x/storage/types/file.go", "ProvenLastBlock", ""},
	{"x/storage/types/file.go", "ProvenThisBlock", ""},
	{"x/storage/types/file.go", "IsYoung", ""},
	{"x/storage/keeper/utils.go", "GetStorageCostKbsWithPrice", ""},
	{"x/storage/keeper/utils.go", "GetStorageCost", ""},
	{"x/rns/keeper/utils.go", "GetCostOfName", ""},
	{"x/jklmint/utils/mint.go", "GetMintForBlock", ""},
	{"x/jklmint/keeper/mint.go", "mintStaker", "stakerCoinValue"},
	{"x/jklmint/keeper/mint.go", "mintDevGrants", "devGrantTokenAmount"},
	{"x/jklmint/keeper/mint.go", "mintStorageProviderStipend", "provTokens"},
}

// slice mode: the chain of assignments a variable depends on, anywhere in the function body (loops and
// closures included); everything outside the arithmetic subset becomes an input
type sliceSpec struct {
	file, fn, target string
}

var slices = []sliceSpec{
	{"x/storage/keeper/rewards.go", "pullTokensFromGauges", "amt64"},
	{"x/storage/keeper/rewards.go", "rewardAllProviders", "tokensValueOwed"},
	{"x/storage/keeper/msg_server_buy_storage.go", "BuyStorage", "storageProviderCut"},
	{"x/storage/keeper/msg_server_buy_storage.go", "BuyStorage", "polCut"},
	{"x/storage/keeper/msg_server_buy_storage.go", "BuyStorage", "refCut"},
	{"x/storage/keeper/msg_server_post_file.go", "PostFile", "days"},
	{"x/storage/keeper/msg_server_post_file.go", "PostFile", "storageProviderCut"},
	{"x/jklmint/keeper/mint.go", "BlockMint", "bpy"},
	{"x/storage/keeper/msg_server_buy_storage.go", "BuyStorage", "hours"},
	{"x/storage/keeper/msg_server_buy_storage.go", "UpgradeStorage", "proratedDurationInHour"},
	{"x/storage/keeper/msg_server_buy_storage.go", "UpgradeStorage", "currentGbs"},
	{"x/storage/keeper/msg_server_buy_storage.go", "UpgradeStorage", "price"},
}

type tr struct {
	fset    *token.FileSet
	fn      *ast.FuncDecl
	recv    string            // receiver identifier
	inputs  []string          // external inputs in order of first use (Go source text)
	inName  map[string]string // Go text -> Lean parameter name
	inType  map[string]string
	params  [][2]string // declared parameters (name, leanType)
	option  bool        // Option-valued
	tmp     int
	known   map[string]bool // other translated functions (callable)
	retBool bool
	structs map[string]bool   // parameters of struct type: `p.Field` is an input
	lenient bool              // slice mode: expressions outside the subset become inputs
	vtype   map[string]string // slice mode: Lean type of the variables bound so far
	bound   map[string]bool
}

func (t *tr) src(n ast.Node) string {
	var b bytes.Buffer
	printer.Fprint(&b, t.fset, n)
	return b.String()
}

func fail(format string, a ...interface{}) {
	fmt.Fprintf(os.Stderr, "gen: "+format+"\n", a...)
	os.Exit(1)
}

func sanitize(s string) string {
	var b strings.Builder
	for _, r := range s {
		switch {
		case r >= 'a' && r <= 'z', r >= 'A' && r <= 'Z', r >= '0' && r <= '9':
			b.WriteRune(r)
		case r == '.':
			b.WriteRune('_')
		}
	}
	return b.String()
}

func (t *tr) input(text, typ string) string {
	if n, ok := t.inName[text]; ok {
		return n
	}
	n := "in_" + sanitize(text)
	t.inName[text] = n
	t.inType[text] = typ
	t.inputs = append(t.inputs, text)
	return n
}

// decimal literal of sdk.MustNewDecFromStr -> raw 18-decimal integer
func decRaw(lit string) string {
	neg := strings.HasPrefix(lit, "-")
	lit = strings.TrimPrefix(lit, "-")
	parts := strings.SplitN(lit, ".", 2)
	frac := ""
	if len(parts) == 2 {
		frac = parts[1]
	}
	if len(frac) > 18 {
		fail("decimal literal %q has more than 18 places", lit)
	}
	digits := parts[0] + frac + strings.Repeat("0", 18-len(frac))
	v, ok := new(big.Int).SetString(digits, 10)
	if !ok {
		fail("bad decimal literal %q", lit)
	}
	if neg {
		v.Neg(v)
	}
	return v.String()
}

type pre struct{ name, expr string }

// expr translates an expression; Quo calls are hoisted into *pres.
func (t *tr) expr(e ast.Expr, pres *[]pre) string {
	switch x := e.(type) {
	case *ast.ParenExpr:
		return "(" + t.expr(x.X, pres) + ")"
	case *ast.BasicLit:
		switch x.Kind {
		case token.INT:
			return strings.ReplaceAll(x.Value, "_", "")
		case token.STRING:
			return x.Value
		}
		fail("%s: literal %s", t.fn.Name.Name, x.Value)
	case *ast.Ident:
		switch x.Name {
		case "true", "false":
			return x.Name
		}
		if t.lenient && !t.bound[x.Name] {
			return t.input(x.Name, t.typ(x))
		}
		return x.Name
	case *ast.UnaryExpr:
		if x.Op == token.SUB {
			return "(-" + t.expr(x.X, pres) + ")"
		}
		if x.Op == token.NOT {
			return "(!" + t.expr(x.X, pres) + ")"
		}
	case *ast.BinaryExpr:
		a, b := t.expr(x.X, pres), t.expr(x.Y, pres)
		switch x.Op {
		case token.ADD:
			return "(" + a + " + " + b + ")"
		case token.SUB:
			return "(" + a + " - " + b + ")"
		case token.MUL:
			return "(" + a + " * " + b + ")"
		case token.QUO:
			return "(Int.tdiv " + a + " " + b + ")"
		case token.REM:
			return "(Int.tmod " + a + " " + b + ")"
		case token.LSS:
			return "(decide (" + a + " < " + b + "))"
		case token.LEQ:
			return "(decide (" + a + " ≤ " + b + "))"
		case token.GTR:
			return "(decide (" + a + " > " + b + "))"
		case token.GEQ:
			return "(decide (" + a + " ≥ " + b + "))"
		case token.EQL:
			return "(decide (" + a + " = " + b + "))"
		case token.NEQ:
			return "(decide (" + a + " ≠ " + b + "))"
		case token.LAND:
			return "(" + a + " && " + b + ")"
		case token.LOR:
			return "(" + a + " || " + b + ")"
		}
	case *ast.SelectorExpr:
		// receiver field, or params field
		if id, ok := x.X.(*ast.Ident); ok && id.Name == t.recv && t.recv != "" {
			return t.input(t.src(x), "Int")
		}
		if call, ok := x.X.(*ast.CallExpr); ok && strings.HasSuffix(t.src(call.Fun), ".GetParams") {
			return t.input(t.src(x), "Int")
		}
		if id, ok := x.X.(*ast.Ident); ok && t.structs[id.Name] {
			return t.input(t.src(x), "Int")
		}
	case *ast.CallExpr:
		fun := t.src(x.Fun)
		switch fun {
		case "sdk.NewDec", "int64ToDec", "sdk.NewDecFromInt":
			return "(Dec.ofInt " + t.expr(x.Args[0], pres) + ")"
		case "sdk.MustNewDecFromStr":
			lit, ok := x.Args[0].(*ast.BasicLit)
			if !ok {
				fail("%s: MustNewDecFromStr of a non-literal", t.fn.Name.Name)
			}
			return "(Dec.mk " + decRaw(strings.Trim(lit.Value, "\"")) + ")"
		case "len":
			return "(Int.ofNat " + t.expr(x.Args[0], pres) + ".utf8ByteSize)"
		case "int64", "int":
			return t.expr(x.Args[0], pres)
		case "GetCost":
			return "(" + t.input("GetCost("+t.src(x.Args[0])+")", "Int") + ")"
		}
		if strings.HasSuffix(fun, ".GetJklPrice") {
			return t.input(t.src(x), "Dec")
		}
		if id, ok := x.Fun.(*ast.Ident); ok && t.known[id.Name] {
			args := []string{}
			for _, a := range x.Args {
				args = append(args, t.expr(a, pres))
			}
			return "(" + id.Name + "__call " + strings.Join(args, " ") + ")"
		}
		if sel, ok := x.Fun.(*ast.SelectorExpr); ok {
			intRecv := t.lenient && t.typ(sel.X) == "Int"
			known := map[string]bool{"Mul": true, "Add": true, "Sub": true, "QuoInt64": true, "MulInt64": true, "TruncateInt": true, "TruncateInt64": true, "Quo": true, "ToDec": true}
			if t.lenient && !known[sel.Sel.Name] {
				return t.input(t.src(e), t.typ(e))
			}
			recv := t.expr(sel.X, pres)
			arg := func(i int) string { return t.expr(x.Args[i], pres) }
			if intRecv {
				switch sel.Sel.Name {
				case "Sub":
					return "(" + recv + " - " + arg(0) + ")"
				case "Add":
					return "(" + recv + " + " + arg(0) + ")"
				case "Mul":
					return "(" + recv + " * " + arg(0) + ")"
				case "ToDec":
					return "(Dec.ofInt " + recv + ")"
				}
				fail("%s: method %s on an integer", t.fn.Name.Name, sel.Sel.Name)
			}
			switch sel.Sel.Name {
			case "Mul":
				return "(Dec.mul " + recv + " " + arg(0) + ")"
			case "Add":
				return "(Dec.add " + recv + " " + arg(0) + ")"
			case "Sub":
				return "(Dec.sub " + recv + " " + arg(0) + ")"
			case "QuoInt64":
				return "(Dec.quoInt " + recv + " " + arg(0) + ")"
			case "MulInt64":
				return "(Dec.mulInt " + recv + " " + arg(0) + ")"
			case "TruncateInt", "TruncateInt64":
				return "(Dec.trunc " + recv + ")"
			case "Quo":
				t.option = true
				t.tmp++
				n := fmt.Sprintf("q%d", t.tmp)
				*pres = append(*pres, pre{n, "Dec.quo? " + recv + " " + arg(0)})
				return n
			}
			// method of the receiver translated elsewhere (f.ProvenLastBlock etc. are not called here)
		}
	}
	if t.lenient {
		return t.input(t.src(e), t.typ(e))
	}
	fail("%s: unsupported expression %s", t.fn.Name.Name, t.src(e))
	return ""
}

// typ infers the Lean type of a Go expression syntactically (slice mode).
func (t *tr) typ(e ast.Expr) string {
	switch x := e.(type) {
	case *ast.ParenExpr:
		return t.typ(x.X)
	case *ast.BasicLit:
		if x.Kind == token.STRING {
			return "String"
		}
		return "Int"
	case *ast.Ident:
		if ty, ok := t.vtype[x.Name]; ok {
			return ty
		}
		return "Int"
	case *ast.BinaryExpr:
		switch x.Op {
		case token.LSS, token.LEQ, token.GTR, token.GEQ, token.EQL, token.NEQ, token.LAND, token.LOR:
			return "Bool"
		}
		return "Int"
	case *ast.CallExpr:
		fun := t.src(x.Fun)
		switch fun {
		case "sdk.NewDec", "sdk.NewDecFromInt", "sdk.MustNewDecFromStr", "int64ToDec":
			return "Dec"
		}
		if sel, ok := x.Fun.(*ast.SelectorExpr); ok {
			switch sel.Sel.Name {
			case "Mul", "Add", "Sub", "Quo":
				return t.typ(sel.X)
			case "QuoInt64", "MulInt64", "ToDec":
				return "Dec"
			case "TruncateInt", "TruncateInt64", "UnixMicro", "AmountOf", "Int64":
				return "Int"
			}
		}
		return "Int"
	}
	return "Int"
}

func indent(n int) string { return strings.Repeat("  ", n) }

func (t *tr) emitPres(pres []pre, ind int, out *strings.Builder) {
	for _, p := range pres {
		fmt.Fprintf(out, "%slet %s ← %s\n", indent(ind), p.name, p.expr)
	}
}

func (t *tr) ret(v string) string {
	if t.option {
		return "some " + v
	}
	return v
}

// stmts translates a statement list followed by the continuation `rest`.
func (t *tr) stmts(list []ast.Stmt, rest []ast.Stmt, ind int, out *strings.Builder) {
	all := append(append([]ast.Stmt{}, list...), rest...)
	if len(all) == 0 {
		fail("%s: control reaches the end without a return", t.fn.Name.Name)
	}
	s, tail := all[0], all[1:]
	switch x := s.(type) {
	case *ast.AssignStmt:
		if len(x.Lhs) != 1 || len(x.Rhs) != 1 {
			fail("%s: multi-assignment %s", t.fn.Name.Name, t.src(x))
		}
		var pres []pre
		v := t.expr(x.Rhs[0], &pres)
		t.emitPres(pres, ind, out)
		fmt.Fprintf(out, "%slet %s := %s\n", indent(ind), t.src(x.Lhs[0]), v)
		t.stmts(tail, nil, ind, out)
	case *ast.DeclStmt:
		gd := x.Decl.(*ast.GenDecl)
		for _, sp := range gd.Specs {
			vs := sp.(*ast.ValueSpec)
			for i, n := range vs.Names {
				if len(vs.Values) > i {
					var pres []pre
					v := t.expr(vs.Values[i], &pres)
					t.emitPres(pres, ind, out)
					fmt.Fprintf(out, "%slet %s := %s\n", indent(ind), n.Name, v)
				} else if t.src(vs.Type) == "int64" {
					fmt.Fprintf(out, "%slet %s : Int := 0\n", indent(ind), n.Name)
				} // a Dec declared without value is always assigned before use
			}
		}
		t.stmts(tail, nil, ind, out)
	case *ast.ReturnStmt:
		switch len(x.Results) {
		case 1:
			var pres []pre
			v := t.expr(x.Results[0], &pres)
			t.emitPres(pres, ind, out)
			if t.retBool && !strings.HasPrefix(v, "(decide") && v != "true" && v != "false" {
				// already Bool
			}
			fmt.Fprintf(out, "%s%s\n", indent(ind), t.ret(v))
		case 2:
			if t.src(x.Results[1]) == "nil" {
				var pres []pre
				v := t.expr(x.Results[0], &pres)
				t.emitPres(pres, ind, out)
				fmt.Fprintf(out, "%ssome %s\n", indent(ind), v)
			} else {
				fmt.Fprintf(out, "%snone\n", indent(ind))
			}
		default:
			fail("%s: return %s", t.fn.Name.Name, t.src(x))
		}
	case *ast.IfStmt:
		if x.Init != nil {
			fail("%s: if with init", t.fn.Name.Name)
		}
		var pres []pre
		c := t.expr(x.Cond, &pres)
		t.emitPres(pres, ind, out)
		fmt.Fprintf(out, "%sif %s then%s\n", indent(ind), c, t.doKw())
		t.stmts(x.Body.List, tail, ind+1, out)
		fmt.Fprintf(out, "%selse%s\n", indent(ind), t.doKw())
		switch e := x.Else.(type) {
		case nil:
			t.stmts(nil, tail, ind+1, out)
		case *ast.BlockStmt:
			t.stmts(e.List, tail, ind+1, out)
		case *ast.IfStmt:
			t.stmts([]ast.Stmt{e}, tail, ind+1, out)
		}
	case *ast.SwitchStmt:
		if x.Init != nil {
			fail("%s: switch with init", t.fn.Name.Name)
		}
		var tag string
		if x.Tag != nil {
			var pres []pre
			tag = t.expr(x.Tag, &pres)
			t.emitPres(pres, ind, out)
		}
		var cases []*ast.CaseClause
		var def *ast.CaseClause
		for _, c := range x.Body.List {
			cc := c.(*ast.CaseClause)
			if cc.List == nil {
				def = cc
			} else {
				cases = append(cases, cc)
			}
		}
		t.switchChain(tag, cases, def, tail, ind, out)
	default:
		fail("%s: unsupported statement %s", t.fn.Name.Name, t.src(s))
	}
}

func (t *tr) doKw() string {
	if t.option {
		return " do"
	}
	return ""
}

func (t *tr) switchChain(tag string, cases []*ast.CaseClause, def *ast.CaseClause, tail []ast.Stmt, ind int, out *strings.Builder) {
	if len(cases) == 0 {
		if def != nil {
			t.stmts(def.Body, tail, ind, out)
		} else {
			t.stmts(nil, tail, ind, out)
		}
		return
	}
	c := cases[0]
	var conds []string
	for _, e := range c.List {
		var pres []pre
		v := t.expr(e, &pres)
		if len(pres) > 0 {
			fail("%s: division inside a case condition", t.fn.Name.Name)
		}
		if tag != "" {
			v = "(decide (" + tag + " = " + v + "))"
		}
		conds = append(conds, v)
	}
	fmt.Fprintf(out, "%sif %s then%s\n", indent(ind), strings.Join(conds, " || "), t.doKw())
	t.stmts(c.Body, tail, ind+1, out)
	fmt.Fprintf(out, "%selse%s\n", indent(ind), t.doKw())
	t.switchChain(tag, cases[1:], def, tail, ind+1, out)
}

func leanType(goType string) string {
	switch goType {
	case "int64", "int":
		return "Int"
	case "string":
		return "String"
	case "sdk.Dec":
		return "Dec"
	case "bool":
		return "Bool"
	case "sdk.Int":
		return "Int"
	}
	return ""
}

func main() {
	if len(os.Args) < 2 {
		fail("usage: gen <repo-root>")
	}
	root := os.Args[1]
	known := map[string]bool{}
	for _, s := range table {
		known[s.name] = true
	}
	var out strings.Builder
	out.WriteString("/- GENERATED by gen/main.go from /repo's working tree (bin/facts): the pure arithmetic functions the\n" +
		"model relies on, translated statement by statement.  `…_inputs` lists, in order, the Go expressions\n" +
		"that became the leading parameters of each definition.  Regenerated on every run; the committed\n" +
		"copy only lets a fresh checkout build.  The tie theorems (Props/C02, C04, C13, C16) state that\n" +
		"each definition equals the hand-written model function the property theorems are about. -/\n" +
		"import Canine.Basic.Dec\nnamespace Canine.Generated.Pure\nopen Canine\n\n")
	fset := token.NewFileSet()
	files := map[string]*ast.File{}
	sigs := map[string]string{} // name -> "__call" wrapper info (inputs are passed through by name)
	for _, s := range table {
		f := files[s.file]
		if f == nil {
			var err error
			f, err = parser.ParseFile(fset, filepath.Join(root, s.file), nil, 0)
			if err != nil {
				fail("%v", err)
			}
			files[s.file] = f
		}
		var fn *ast.FuncDecl
		for _, d := range f.Decls {
			if fd, ok := d.(*ast.FuncDecl); ok && fd.Name.Name == s.name {
				fn = fd
			}
		}
		if fn == nil {
			fail("function %s not found in %s", s.name, s.file)
		}
		t := &tr{fset: fset, fn: fn, inName: map[string]string{}, inType: map[string]string{}, known: known, structs: map[string]bool{}}
		if fn.Recv != nil && len(fn.Recv.List) == 1 && len(fn.Recv.List[0].Names) == 1 {
			t.recv = fn.Recv.List[0].Names[0].Name
		}
		for _, p := range fn.Type.Params.List {
			ty := leanType(t.src(p.Type))
			for _, n := range p.Names {
				if t.src(p.Type) == "sdk.Context" {
					continue
				}
				if ty == "" {
					if s.upTo != "" { // prefix mode: a struct parameter contributes inputs `p.Field`
						t.structs[n.Name] = true
						continue
					}
					fail("%s: parameter %s of type %s", s.name, n.Name, t.src(p.Type))
				}
				t.params = append(t.params, [2]string{n.Name, ty})
			}
		}
		res := fn.Type.Results.List
		retTy := leanType(t.src(res[0].Type))
		bodyList := fn.Body.List
		if s.upTo != "" {
			// the leading assignments up to the one to s.upTo, then `return s.upTo`
			var pre []ast.Stmt
			found := false
			for _, st := range fn.Body.List {
				as, ok := st.(*ast.AssignStmt)
				if !ok || len(as.Lhs) != 1 {
					break
				}
				pre = append(pre, st)
				if t.src(as.Lhs[0]) == s.upTo {
					found = true
					break
				}
			}
			if !found {
				fail("%s: no leading assignment to %s", s.name, s.upTo)
			}
			bodyList = append(pre, &ast.ReturnStmt{Results: []ast.Expr{ast.NewIdent(s.upTo)}})
			retTy = "Int"
		} else {
			if retTy == "" {
				fail("%s: result type %s", s.name, t.src(res[0].Type))
			}
			if len(res) == 2 {
				t.option = true
			}
		}
		t.retBool = retTy == "Bool"
		// first pass to discover Quo (Option) — translate into a scratch buffer
		var scratch strings.Builder
		t.stmts(bodyList, nil, 1, &scratch)
		opt := t.option
		// second pass with the final mode
		t2 := &tr{fset: fset, fn: fn, recv: t.recv, inName: map[string]string{}, inType: map[string]string{}, known: known, params: t.params, option: opt, retBool: t.retBool, structs: t.structs}
		var body strings.Builder
		t2.stmts(bodyList, nil, 1, &body)
		bodyS := body.String()
		// calls to other translated functions: pass their inputs through (they must be inputs here too)
		for name := range known {
			if strings.Contains(bodyS, name+"__call") {
				bodyS = strings.ReplaceAll(bodyS, name+"__call", name+sigs[name])
			}
		}
		var ps []string
		var inQ []string
		for _, in := range t2.inputs {
			ps = append(ps, fmt.Sprintf("(%s : %s)", t2.inName[in], t2.inType[in]))
			inQ = append(inQ, fmt.Sprintf("%q", in))
		}
		for _, p := range t2.params {
			ps = append(ps, fmt.Sprintf("(%s : %s)", p[0], p[1]))
		}
		if opt {
			retTy = "Option " + retTy
		}
		fmt.Fprintf(&out, "/-- `%s` (%s) -/\ndef %s_inputs : List String := [%s]\n", s.name, s.file, s.name, strings.Join(inQ, ", "))
		kw := ""
		if opt {
			kw = " do"
		}
		fmt.Fprintf(&out, "def %s %s : %s :=%s\n%s\n", s.name, strings.Join(ps, " "), retTy, kw, bodyS)
		if len(t2.inputs) > 0 {
			var names []string
			for _, in := range t2.inputs {
				names = append(names, t2.inName[in])
			}
			sort.Strings(names)
			sigs[s.name] = " " + strings.Join(func() []string {
				var o []string
				for _, in := range t2.inputs {
					o = append(o, t2.inName[in])
				}
				return o
			}(), " ")
		} else {
			sigs[s.name] = ""
		}
	}

	for _, sp := range slices {
		f := files[sp.file]
		if f == nil {
			var err error
			f, err = parser.ParseFile(fset, filepath.Join(root, sp.file), nil, 0)
			if err != nil {
				fail("%v", err)
			}
			files[sp.file] = f
		}
		var fn *ast.FuncDecl
		for _, d := range f.Decls {
			if fd, ok := d.(*ast.FuncDecl); ok && fd.Name.Name == sp.fn {
				fn = fd
			}
		}
		if fn == nil {
			fail("function %s not found in %s", sp.fn, sp.file)
		}
		// every single-variable assignment of the body, by name (a variable assigned twice is ambiguous)
		defs := map[string]ast.Expr{}
		count := map[string]int{}
		first := map[string]ast.Expr{}
		ast.Inspect(fn.Body, func(n ast.Node) bool {
			switch as := n.(type) {
			case *ast.AssignStmt:
				for i, l := range as.Lhs {
					id, ok := l.(*ast.Ident)
					if !ok || id.Name == "_" {
						continue
					}
					if len(as.Lhs) == 1 && len(as.Rhs) == 1 && (as.Tok == token.DEFINE || as.Tok == token.ASSIGN) {
						if count[id.Name] == 0 {
							first[id.Name] = as.Rhs[0]
						}
						defs[id.Name] = as.Rhs[0]
						count[id.Name]++
					} else {
						// `x += e`, `a, b := f()`: x is written in a way the slice does not follow
						if count[id.Name] == 0 && len(as.Rhs) > i {
							first[id.Name] = as.Rhs[i]
						}
						if defs[id.Name] == nil && len(as.Rhs) > 0 {
							defs[id.Name] = as.Rhs[0]
						}
						count[id.Name] += 2
					}
				}
			case *ast.DeclStmt:
				if gd, ok := as.Decl.(*ast.GenDecl); ok {
					for _, spc := range gd.Specs {
						if vs, ok := spc.(*ast.ValueSpec); ok && len(vs.Names) == 1 && len(vs.Values) == 1 {
							nm := vs.Names[0].Name
							if count[nm] == 0 {
								first[nm] = vs.Values[0]
							}
							defs[nm] = vs.Values[0]
							count[nm]++
						}
					}
				}
			case *ast.IncDecStmt:
				if id, ok := as.X.(*ast.Ident); ok {
					count[id.Name] += 2 // `x++` / `x--`: not a single assignment any more
				}
			case *ast.RangeStmt:
				for _, e := range []ast.Expr{as.Key, as.Value} {
					if id, ok := e.(*ast.Ident); ok && id.Name != "_" {
						count[id.Name] += 2 // loop variables are inputs
						if defs[id.Name] == nil {
							defs[id.Name] = id
							first[id.Name] = id
						}
					}
				}
			}
			return true
		})
		if defs[sp.target] == nil {
			fail("%s: no assignment to %s", sp.fn, sp.target)
		}
		t := &tr{fset: fset, fn: fn, inName: map[string]string{}, inType: map[string]string{}, known: map[string]bool{}, structs: map[string]bool{},
			lenient: true, vtype: map[string]string{}, bound: map[string]bool{}}
		var lets []string
		var order []string
		visiting := map[string]bool{}
		var need func(name string)
		need = func(name string) {
			if t.bound[name] || visiting[name] {
				return
			}
			rhs, ok := defs[name]
			if !ok || name == "err" {
				return
			}
			if count[name] > 1 {
				if name == sp.target {
					fail("%s: %s is assigned %d times", sp.fn, name, count[name])
				}
				t.vtype[name] = t.typ(first[name]) // typed by its first assignment
				return                             // a variable assigned on several paths is an input of the slice
			}
			visiting[name] = true
			ast.Inspect(rhs, func(n ast.Node) bool {
				if id, ok := n.(*ast.Ident); ok {
					if _, isDef := defs[id.Name]; isDef && id.Name != name {
						// only variables used as values (not the `x` of `x.Method`… which is a value too) — all of them
						need(id.Name)
					}
				}
				return true
			})
			var pres []pre
			code := t.expr(rhs, &pres)
			for _, p := range pres {
				lets = append(lets, fmt.Sprintf("  let %s ← %s", p.name, p.expr))
			}
			t.vtype[name] = t.typ(rhs)
			t.bound[name] = true
			lets = append(lets, fmt.Sprintf("  let %s := %s", name, code))
			order = append(order, name)
		}
		need(sp.target)
		// keep only the bindings the target transitively uses (a variable that only occurs inside an
		// expression that became an input is not needed)
		isWord := func(code, w string) bool {
			for i := 0; i+len(w) <= len(code); i++ {
				if code[i:i+len(w)] == w {
					before := i == 0 || !(code[i-1] == '_' || code[i-1] >= '0' && code[i-1] <= '9' || code[i-1] >= 'a' && code[i-1] <= 'z' || code[i-1] >= 'A' && code[i-1] <= 'Z')
					j := i + len(w)
					after := j == len(code) || !(code[j] == '_' || code[j] >= '0' && code[j] <= '9' || code[j] >= 'a' && code[j] <= 'z' || code[j] >= 'A' && code[j] <= 'Z')
					if before && after {
						return true
					}
				}
			}
			return false
		}
		keep := make([]bool, len(lets))
		live := " " + sp.target + " "
		for i := len(lets) - 1; i >= 0; i-- {
			parts := strings.SplitN(strings.TrimPrefix(lets[i], "  let "), " ", 3) // name, :=/←, code
			if isWord(live, parts[0]) {
				keep[i] = true
				live += " " + parts[2] + " "
			}
		}
		var kept []string
		for i, l := range lets {
			if keep[i] {
				kept = append(kept, l)
			}
		}
		lets = kept
		var ps, inQ []string
		for _, in := range t.inputs {
			if !isWord(live, t.inName[in]) {
				continue
			}
			ps = append(ps, fmt.Sprintf("(%s : %s)", t.inName[in], t.inType[in]))
			inQ = append(inQ, fmt.Sprintf("%q", in))
		}
		retTy := t.vtype[sp.target]
		kw, retv := "", sp.target
		if t.option {
			retTy, kw, retv = "Option "+retTy, " do", "some "+sp.target
		}
		name := sp.fn + "_" + sp.target
		fmt.Fprintf(&out, "/-- the value of `%s` in `%s` (%s), as a function of what it is computed from -/\ndef %s_inputs : List String := [%s]\n", sp.target, sp.fn, sp.file, name, strings.Join(inQ, ", "))
		fmt.Fprintf(&out, "def %s %s : %s :=%s\n%s\n  %s\n\n", name, strings.Join(ps, " "), retTy, kw, strings.Join(lets, "\n"), retv)
	}
	out.WriteString("end Canine.Generated.Pure\n")
	fmt.Print(out.String())
	if len(os.Args) > 2 {
		writeKeyFacts(root, os.Args[2])
	}
}

// writeKeyFacts: every function of the store-key files (x/*/types/key*.go, keys.go) with the SHA-256
// of its printed declaration (comments dropped, gofmt layout).  The injectivity and prefix theorems
// about store keys (C09, C10, C15, C17, C18) are about exactly these constructors; the obligations
// `Cxx_store_keys_as_modelled` compare this table with the one the model was written against.
func writeKeyFacts(root, outPath string) {
	matches, _ := filepath.Glob(filepath.Join(root, "x", "*", "types", "key*.go"))
	sort.Strings(matches)
	fset := token.NewFileSet()
	var rows []string
	perMod := map[string][]string{}
	var mods []string
	var doc strings.Builder
	for _, path := range matches {
		if strings.HasSuffix(path, "_test.go") {
			continue
		}
		f, err := parser.ParseFile(fset, path, nil, 0) // comments dropped
		if err != nil {
			fail("%v", err)
		}
		rel := strings.TrimPrefix(path, root+"/")
		for _, d := range f.Decls {
			fd, ok := d.(*ast.FuncDecl)
			if !ok {
				// constant and variable blocks (store prefixes, module and account names) — one fingerprint per block
				if gd, isGen := d.(*ast.GenDecl); isGen && (gd.Tok == token.CONST || gd.Tok == token.VAR) {
					var b bytes.Buffer
					printer.Fprint(&b, fset, gd)
					sum := sha256.Sum256(b.Bytes())
					first := "?"
					if len(gd.Specs) > 0 {
						if vs, ok := gd.Specs[0].(*ast.ValueSpec); ok && len(vs.Names) > 0 {
							first = vs.Names[0].Name
						}
					}
					row := fmt.Sprintf("  (%q, %q)", rel+":"+gd.Tok.String()+" "+first+"…", hex.EncodeToString(sum[:8]))
					rows = append(rows, row)
					mod := strings.Split(rel, "/")[1]
					if perMod[mod] == nil {
						mods = append(mods, mod)
					}
					perMod[mod] = append(perMod[mod], row)
					fmt.Fprintf(&doc, "-- %s:%s block\n", rel, gd.Tok.String())
					for _, l := range strings.Split(b.String(), "\n") {
						fmt.Fprintf(&doc, "--   %s\n", l)
					}
				}
				continue
			}
			var b bytes.Buffer
			printer.Fprint(&b, fset, fd)
			sum := sha256.Sum256(b.Bytes())
			row := fmt.Sprintf("  (%q, %q)", rel+":"+fd.Name.Name, hex.EncodeToString(sum[:8]))
			rows = append(rows, row)
			mod := strings.Split(rel, "/")[1]
			if perMod[mod] == nil {
				mods = append(mods, mod)
			}
			perMod[mod] = append(perMod[mod], row)
			fmt.Fprintf(&doc, "-- %s:%s\n", rel, fd.Name.Name)
			for _, l := range strings.Split(b.String(), "\n") {
				fmt.Fprintf(&doc, "--   %s\n", l)
			}
		}
	}
	var o strings.Builder
	o.WriteString("/- GENERATED by gen/main.go (bin/facts): the store-key constructors of the custom modules, each with a\n" +
		"fingerprint (first 8 bytes of SHA-256) of its printed declaration.  Regenerated on every run. -/\n" +
		"namespace Canine.Generated\n\ndef keyFns : List (String × String) := [\n")
	o.WriteString(strings.Join(rows, ",\n"))
	o.WriteString("]\n\n")
	for _, m := range mods {
		fmt.Fprintf(&o, "def keyFns_%s : List (String × String) := [\n%s]\n\n", m, strings.Join(perMod[m], ",\n"))
	}
	// parameter tables: which store key is bound to which field, with which validator
	pfiles, _ := filepath.Glob(filepath.Join(root, "x", "*", "types", "params.go"))
	sort.Strings(pfiles)
	for _, path := range pfiles {
		f, err := parser.ParseFile(fset, path, nil, 0)
		if err != nil {
			fail("%v", err)
		}
		mod := strings.Split(strings.TrimPrefix(path, root+"/"), "/")[1]
		var prow []string
		ast.Inspect(f, func(n ast.Node) bool {
			c, ok := n.(*ast.CallExpr)
			if !ok {
				return true
			}
			var fb bytes.Buffer
			printer.Fprint(&fb, fset, c.Fun)
			if strings.HasSuffix(fb.String(), "NewParamSetPair") && len(c.Args) == 3 {
				var a [3]string
				for i := range a {
					var b bytes.Buffer
					printer.Fprint(&b, fset, c.Args[i])
					a[i] = b.String()
				}
				prow = append(prow, fmt.Sprintf("  (%q, %q, %q)", a[0], a[1], a[2]))
			}
			return true
		})
		fmt.Fprintf(&o, "def paramPairs_%s : List (String × String × String) := [\n%s]\n\n", mod, strings.Join(prow, ",\n"))
	}
	// helper copies: functions that exist twice (a client-side copy and the one the harness evaluates against the
	// model on every path record) must be the same code, or comparing one says nothing about the other
	clones := [][4]string{
		{"x/filetree/client/cli/utils.go", "merkleHelper", "x/filetree/types/test_helpers.go", "MerkleHelper"},
		{"x/filetree/keeper/access.go", "MakeOwnerAddress", "x/filetree/types/test_helpers.go", "MakeOwnerAddress"},
	}
	normBody := func(file, fn string) string {
		f, err := parser.ParseFile(fset, filepath.Join(root, file), nil, 0)
		if err != nil {
			fail("%v", err)
		}
		for _, d := range f.Decls {
			if fd, ok := d.(*ast.FuncDecl); ok && fd.Name.Name == fn && fd.Recv == nil && fd.Body != nil {
				var b bytes.Buffer
				printer.Fprint(&b, fset, fd.Type)
				printer.Fprint(&b, fset, fd.Body)
				t := b.String()
				for _, q := range []string{"filetypes.", "types."} { // the package qualifier of the sibling package
					t = strings.ReplaceAll(t, q, "")
				}
				return strings.Join(strings.Fields(t), " ")
			}
		}
		fail("helper %s not found in %s", fn, file)
		return ""
	}
	var crow []string
	for _, c := range clones {
		crow = append(crow, fmt.Sprintf("  (%q, %q, %v)", c[0]+":"+c[1], c[2]+":"+c[3], normBody(c[0], c[1]) == normBody(c[2], c[3])))
	}
	fmt.Fprintf(&o, "/-- copies of one helper: (copy, the one compared with the model, same code modulo the package qualifier) -/\ndef helperClones : List (String × String × Bool) := [\n%s]\n\n", strings.Join(crow, ",\n"))
	o.WriteString("/- the declarations the fingerprints were taken from:\n")
	o.WriteString(strings.ReplaceAll(doc.String(), "-/", "- /"))
	o.WriteString("-/\n\nend Canine.Generated\n")
	if err := os.WriteFile(outPath, []byte(o.String()), 0o644); err != nil {
		fail("%v", err)
	}
}
