/- Go `int64` arithmetic where a property depends on it: wrap-around and truncated division. -/
namespace Canine
namespace I64
def minV : Int := -9223372036854775808
def maxV : Int := 9223372036854775807
def inRange (x : Int) : Bool := decide (minV ≤ x) && decide (x ≤ maxV)
/-- two's-complement wrap of an unbounded integer into int64 -/
def wrap (x : Int) : Int := (x + 9223372036854775808) % 18446744073709551616 - 9223372036854775808
def mul (a b : Int) : Int := wrap (a * b)
def add (a b : Int) : Int := wrap (a + b)
def sub (a b : Int) : Int := wrap (a - b)
/-- Go `/` and `%` truncate toward zero -/
def div (a b : Int) : Int := Int.tdiv a b
def mod (a b : Int) : Int := Int.tmod a b

theorem wrap_id {x : Int} (h1 : minV ≤ x) (h2 : x ≤ maxV) : wrap x = x := by
  unfold wrap minV maxV at *; omega
end I64
end Canine
