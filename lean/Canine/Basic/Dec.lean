/-
Exact model of cosmos-sdk v0.45 `sdk.Dec` (types/decimal.go): an integer scaled by 10^18.
`Mul`/`Quo` round half-to-even on the absolute value (`chopPrecisionAndRound`), `QuoInt64` and
`Truncate*` truncate toward zero (`big.Int.Quo`), `Quo` by zero panics (modelled as `Option`).
The 315-bit overflow panics of the SDK are out of range for every value the models feed in
(stated as side conditions where relevant). Core Lean only.
-/
namespace Canine

def precision : Int := 1000000000000000000
def fivePrecision : Int := 500000000000000000

/-- `chopPrecisionAndRound` on a non-negative argument. -/
def chopRoundNat (x : Int) : Int :=
  let q := x / precision
  let r := x % precision
  if r = 0 then q
  else if r < fivePrecision then q
  else if r > fivePrecision then q + 1
  else if q % 2 = 0 then q else q + 1

def chopRound (x : Int) : Int := if x < 0 then - chopRoundNat (-x) else chopRoundNat x

/-- `chopPrecisionAndTruncate`: truncation toward zero. -/
def chopTrunc (x : Int) : Int := Int.tdiv x precision

structure Dec where
  raw : Int
  deriving DecidableEq, Repr

namespace Dec
def ofInt (i : Int) : Dec := ⟨i * precision⟩
def add (a b : Dec) : Dec := ⟨a.raw + b.raw⟩
def sub (a b : Dec) : Dec := ⟨a.raw - b.raw⟩
def mul (a b : Dec) : Dec := ⟨chopRound (a.raw * b.raw)⟩
def mulInt (a : Dec) (i : Int) : Dec := ⟨a.raw * i⟩
def quoInt (a : Dec) (i : Int) : Dec := ⟨Int.tdiv a.raw i⟩
/-- `Quo`; `none` models the division-by-zero panic of `big.Int.Quo`. -/
def quo? (a b : Dec) : Option Dec :=
  if b.raw = 0 then none else some ⟨chopRound (Int.tdiv (a.raw * precision * precision) b.raw)⟩
def trunc (a : Dec) : Int := chopTrunc a.raw
def one : Dec := ofInt 1
def zero : Dec := ⟨0⟩
end Dec

end Canine
