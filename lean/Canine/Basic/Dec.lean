/-
Exact model of cosmos-sdk v0.45 `sdk.Dec` (types/decimal.go): an integer scaled by 10^18.
`Mul`/`Quo` round half-to-even on the absolute value (`chopPrecisionAndRound`), `QuoInt64` and
`Truncate*` truncate toward zero (`big.Int.Quo`), `Quo` by zero panics (modelled as `Option`).
The 315-bit overflow panics of the SDK are out of range for every value the models feed in
(stated as side conditions where relevant). Core Lean only.
-/
namespace Canine

def precision : Int := 1000000000000000000
def fivePrecision : Int := 500000000000000000

/-- `chopPrecisionAndRound` on a non-negative argument. -/
def chopRoundNat (x : Int) : Int :=
  let q := x / precision
  let r := x % precision
  if r = 0 then q
  else if r < fivePrecision then q
  else if r > fivePrecision then q + 1
  else if q % 2 = 0 then q else q + 1

def chopRound (x : Int) : Int := if x < 0 then - chopRoundNat (-x) else chopRoundNat x

/-- `big.Int.Quo` (truncated division) written with floor division on non-negative operands so
that `omega` can reason about it; `tdiv_eq` shows it is `Int.tdiv`. -/
def tdiv (a b : Int) : Int :=
  if 0 ≤ a then (if 0 ≤ b then a / b else -(a / (-b)))
  else (if 0 ≤ b then -((-a) / b) else (-a) / (-b))

theorem tdiv_eq (a b : Int) : tdiv a b = Int.tdiv a b := by
  unfold tdiv
  by_cases ha : 0 ≤ a <;> by_cases hb : 0 ≤ b <;> simp only [ha, hb, if_true, if_false]
  · exact (Int.tdiv_eq_ediv_of_nonneg ha).symm
  · have : b = -(-b) := by omega
    rw [this, Int.tdiv_neg, Int.tdiv_eq_ediv_of_nonneg ha]; simp
  · have : a = -(-a) := by omega
    rw [this, Int.neg_tdiv, Int.tdiv_eq_ediv_of_nonneg (by omega)]; simp
  · have h1 : a = -(-a) := by omega
    have h2 : b = -(-b) := by omega
    rw [h1, h2, Int.neg_tdiv, Int.tdiv_neg, Int.tdiv_eq_ediv_of_nonneg (by omega)]; simp

/-- `chopPrecisionAndTruncate`: truncation toward zero. -/
def chopTrunc (x : Int) : Int := tdiv x precision

structure Dec where
  raw : Int
  deriving DecidableEq, Repr

namespace Dec
def ofInt (i : Int) : Dec := ⟨i * precision⟩
def add (a b : Dec) : Dec := ⟨a.raw + b.raw⟩
def sub (a b : Dec) : Dec := ⟨a.raw - b.raw⟩
def mul (a b : Dec) : Dec := ⟨chopRound (a.raw * b.raw)⟩
def mulInt (a : Dec) (i : Int) : Dec := ⟨a.raw * i⟩
def quoInt (a : Dec) (i : Int) : Dec := ⟨tdiv a.raw i⟩
/-- `Quo`; `none` models the division-by-zero panic of `big.Int.Quo`. -/
def quo? (a b : Dec) : Option Dec :=
  if b.raw = 0 then none else some ⟨chopRound (tdiv (a.raw * precision * precision) b.raw)⟩
def trunc (a : Dec) : Int := chopTrunc a.raw
def one : Dec := ofInt 1
def zero : Dec := ⟨0⟩
end Dec

end Canine
