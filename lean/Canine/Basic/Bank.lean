/-
Ledger model of the cosmos-sdk bank keeper as the custom modules use it.

Balances are a map (address, denom) ↦ amount.  `send` fails, changing nothing, when a coin is not
strictly positive (`Coins.IsValid`) or the sender's balance of some denomination is insufficient,
and otherwise moves exactly the coins.  `sendToAcc` additionally refuses blocked recipients, as
`SendCoinsFromModuleToAccount` does.  Core Lean only.
-/
import Canine.Basic.Map
namespace Canine

abbrev Coin := String × Int
abbrev Coins := List Coin
abbrev Bank := AMap (String × String) Int

namespace Bank

def bal (b : Bank) (a d : String) : Int := (AMap.get b (a, d)).getD 0

def credit (b : Bank) (a d : String) (x : Int) : Bank := AMap.set b (a, d) (bal b a d + x)

def sendCoin (b : Bank) (src dst d : String) (x : Int) : Option Bank :=
  if x ≤ 0 then none
  else if bal b src d < x then none
  else some (credit (credit b src d (-x)) dst d x)

def send (b : Bank) (src dst : String) : Coins → Option Bank
  | [] => some b
  | (d, x) :: cs => (sendCoin b src dst d x).bind (fun b' => send b' src dst cs)

/-- `sdk.NewCoins(c)` for a single coin: a zero coin disappears, a negative one panics. -/
def newCoins (d : String) (x : Int) : Option Coins :=
  if x < 0 then none else if x = 0 then some [] else some [(d, x)]

theorem bal_credit_self (b : Bank) (a d : String) (x : Int) :
    bal (credit b a d x) a d = bal b a d + x := by
  simp [bal, credit]

theorem bal_credit_other (b : Bank) (a d a2 d2 : String) (x : Int) (h : (a, d) ≠ (a2, d2)) :
    bal (credit b a d x) a2 d2 = bal b a2 d2 := by
  simp [bal, credit, AMap.get_set_other _ _ _ _ h]

theorem bal_credit (b : Bank) (a d a2 d2 : String) (x : Int) :
    bal (credit b a d x) a2 d2 = if (a, d) = (a2, d2) then bal b a d + x else bal b a2 d2 := by
  by_cases h : (a, d) = (a2, d2)
  · cases h; simp [bal_credit_self]
  · simp [h, bal_credit_other _ _ _ _ _ _ h]

/-- What a successful single-coin transfer does to every balance. -/
theorem bal_sendCoin {b b' : Bank} {src dst d : String} {x : Int}
    (h : sendCoin b src dst d x = some b') (a d2 : String) :
    bal b' a d2 = bal b a d2
      + (if (dst, d) = (a, d2) then x else 0) - (if (src, d) = (a, d2) then x else 0) := by
  unfold sendCoin at h
  split at h; · simp at h
  split at h; · simp at h
  simp at h; subst h
  rw [bal_credit]
  by_cases h1 : (dst, d) = (a, d2)
  · cases h1
    rw [bal_credit]
    by_cases h2 : (src, d) = (dst, d)
    · cases h2; simp; omega
    · simp [h2]
  · simp only [h1, if_false]
    rw [bal_credit]
    by_cases h2 : (src, d) = (a, d2)
    · cases h2; simp; omega
    · simp [h2]

theorem sendCoin_pos {b b' : Bank} {src dst d : String} {x : Int}
    (h : sendCoin b src dst d x = some b') : 0 < x ∧ x ≤ bal b src d := by
  unfold sendCoin at h
  split at h; · simp at h
  split at h; · simp at h
  omega

/-- Total of one denomination over a list of accounts. -/
def total (b : Bank) (accts : List String) (d : String) : Int :=
  (accts.map (fun a => bal b a d)).sum

end Bank
end Canine
