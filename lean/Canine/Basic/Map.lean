/-
Association-list maps used for every store in the models.

`AMap K V` is a plain `List (K × V)`.  `set` replaces in place (or appends), `erase` removes every
binding of the key, so the key/value lemmas below need no well-formedness hypothesis; the lemmas
about sums need `Nodup` keys, which is an explicit, separately proved invariant (`WF`).
Core Lean only (the driver executable links this file).
-/
namespace Canine

/-- a guard inside a handler: continue iff the condition holds, otherwise the handler fails -/
def req (c : Prop) [Decidable c] : Option Unit := if c then some () else none

@[simp] theorem req_eq_some (c : Prop) [Decidable c] (u : Unit) : req c = some u ↔ c := by
  unfold req; split <;> simp [*]

abbrev AMap (K V : Type) := List (K × V)

namespace AMap
variable {K V : Type} [DecidableEq K]

def get : AMap K V → K → Option V
  | [], _ => none
  | (k', v) :: t, k => if k' = k then some v else get t k

def contains (m : AMap K V) (k : K) : Bool := (get m k).isSome

def set : AMap K V → K → V → AMap K V
  | [], k, v => [(k, v)]
  | (k', v') :: t, k, v => if k' = k then (k, v) :: t else (k', v') :: set t k v

def erase : AMap K V → K → AMap K V
  | [], _ => []
  | (k', v') :: t, k => if k' = k then erase t k else (k', v') :: erase t k

def keys (m : AMap K V) : List K := m.map (·.1)
def vals (m : AMap K V) : List V := m.map (·.2)

def WF (m : AMap K V) : Prop := (keys m).Nodup

@[simp] theorem get_nil (k : K) : get ([] : AMap K V) k = none := rfl

@[simp] theorem get_set_self (m : AMap K V) (k : K) (v : V) : get (set m k v) k = some v := by
  induction m with
  | nil => simp [set, get]
  | cons p t ih =>
    obtain ⟨k', v'⟩ := p
    by_cases h : k' = k <;> simp [set, get, h, ih]

theorem get_set_other (m : AMap K V) (k k2 : K) (v : V) (h : k ≠ k2) :
    get (set m k v) k2 = get m k2 := by
  induction m with
  | nil => simp [set, get, h]
  | cons p t ih =>
    obtain ⟨k', v'⟩ := p
    by_cases h1 : k' = k
    · subst h1; simp [set, get, h]
    · by_cases h2 : k' = k2
      · subst h2; simp [set, get, h1]
      · simp [set, get, h1, h2, ih]

theorem get_set (m : AMap K V) (k k2 : K) (v : V) :
    get (set m k v) k2 = if k = k2 then some v else get m k2 := by
  by_cases h : k = k2
  · subst h; simp
  · simp [h, get_set_other m k k2 v h]

@[simp] theorem get_erase_self (m : AMap K V) (k : K) : get (erase m k) k = none := by
  induction m with
  | nil => rfl
  | cons p t ih =>
    obtain ⟨k', v'⟩ := p
    by_cases h : k' = k <;> simp [erase, get, h, ih]

theorem get_erase_other (m : AMap K V) (k k2 : K) (h : k ≠ k2) :
    get (erase m k) k2 = get m k2 := by
  induction m with
  | nil => rfl
  | cons p t ih =>
    obtain ⟨k', v'⟩ := p
    by_cases h1 : k' = k
    · subst h1; simp [erase, get, h, ih]
    · by_cases h2 : k' = k2
      · subst h2; simp [erase, get, h1]
      · simp [erase, get, h1, h2, ih]

theorem get_erase (m : AMap K V) (k k2 : K) :
    get (erase m k) k2 = if k = k2 then none else get m k2 := by
  by_cases h : k = k2
  · subst h; simp
  · simp [h, get_erase_other m k k2 h]

theorem mem_keys_of_get {m : AMap K V} {k : K} {v : V} (h : get m k = some v) : k ∈ keys m := by
  induction m with
  | nil => simp [get] at h
  | cons p t ih =>
    obtain ⟨k', v'⟩ := p
    by_cases h1 : k' = k
    · subst h1; simp [keys]
    · simp [get, h1] at h
      have := ih h
      simp [keys] at this ⊢
      exact Or.inr this

theorem get_none_of_not_mem {m : AMap K V} {k : K} (h : k ∉ keys m) : get m k = none := by
  induction m with
  | nil => rfl
  | cons p t ih =>
    obtain ⟨k', v'⟩ := p
    simp [keys] at h
    have h1 : k' ≠ k := fun e => h.1 e.symm
    simp [get, h1]
    apply ih
    simp [keys]; exact h.2

theorem get_isSome_of_mem {m : AMap K V} {k : K} (h : k ∈ keys m) : (get m k).isSome := by
  induction m with
  | nil => simp [keys] at h
  | cons p t ih =>
    obtain ⟨k', v'⟩ := p
    by_cases h1 : k' = k
    · simp [get, h1]
    · simp [get, h1]
      apply ih
      simp [keys] at h ⊢
      rcases h with h | h
      · exact absurd h.symm h1
      · exact h

theorem mem_of_get {m : AMap K V} {k : K} {v : V} (h : get m k = some v) : (k, v) ∈ m := by
  induction m with
  | nil => simp [get] at h
  | cons p t ih =>
    obtain ⟨k', v'⟩ := p
    by_cases h1 : k' = k
    · subst h1; simp [get] at h; simp [h]
    · simp [get, h1] at h; exact List.mem_cons_of_mem _ (ih h)

theorem get_of_mem_wf {m : AMap K V} {k : K} {v : V} (hwf : WF m) (h : (k, v) ∈ m) :
    get m k = some v := by
  induction m with
  | nil => simp at h
  | cons p t ih =>
    obtain ⟨k', v'⟩ := p
    simp [WF, keys] at hwf
    rcases List.mem_cons.mp h with h | h
    · cases h; simp [get]
    · have hk : k' ≠ k := by
        intro e; subst e
        exact hwf.1 v h
      simp [get, hk]
      exact ih (by simpa [WF, keys] using hwf.2) h

theorem keys_erase_subset (m : AMap K V) (k x : K) (h : x ∈ keys (erase m k)) : x ∈ keys m := by
  induction m with
  | nil => simp [erase, keys] at h
  | cons p t ih =>
    obtain ⟨k', v'⟩ := p
    by_cases h1 : k' = k
    · simp only [erase, h1, if_true] at h
      exact List.mem_cons_of_mem _ (ih h)
    · simp only [erase, h1, if_false, keys, List.map_cons, List.mem_cons] at h ⊢
      rcases h with h | h
      · exact Or.inl h
      · exact Or.inr (ih h)

theorem wf_erase {m : AMap K V} (k : K) (h : WF m) : WF (erase m k) := by
  induction m with
  | nil => simpa [erase] using h
  | cons p t ih =>
    obtain ⟨k', v'⟩ := p
    simp only [WF, keys, List.map_cons, List.nodup_cons] at h
    by_cases h1 : k' = k
    · simp only [erase, h1, if_true]; exact ih h.2
    · simp only [erase, h1, if_false, WF, keys, List.map_cons, List.nodup_cons]
      refine ⟨?_, ih h.2⟩
      intro hm
      exact h.1 (keys_erase_subset t k k' hm)

theorem keys_set (m : AMap K V) (k : K) (v : V) :
    keys (set m k v) = if k ∈ keys m then keys m else keys m ++ [k] := by
  induction m with
  | nil => simp [set, keys]
  | cons p t ih =>
    obtain ⟨k', v'⟩ := p
    by_cases h1 : k' = k
    · subst h1; simp [set, keys]
    · have h1' : ¬ k = k' := fun e => h1 e.symm
      simp only [set, h1, if_false, keys, List.map_cons, List.mem_cons, h1', false_or] at ih ⊢
      rw [ih]; split <;> rename_i hh <;> simp [hh]

theorem wf_set {m : AMap K V} (k : K) (v : V) (h : WF m) : WF (set m k v) := by
  unfold WF at *
  rw [keys_set]
  split
  · exact h
  · rename_i hk
    rw [List.nodup_append]
    refine ⟨h, by simp, ?_⟩
    intro a ha b hb
    simp at hb; subst hb
    intro e; subst e; exact hk ha

end AMap

/-- Sum of an integer-valued projection over the bindings of a map. -/
def AMap.sumBy {K V : Type} (f : V → Int) : AMap K V → Int
  | [] => 0
  | (_, v) :: t => f v + AMap.sumBy f t

namespace AMap
variable {K V : Type} [DecidableEq K]

theorem sumBy_erase (f : V → Int) {m : AMap K V} (k : K) (h : WF m) :
    sumBy f (erase m k) = sumBy f m - ((get m k).map f).getD 0 := by
  induction m with
  | nil => simp [erase, sumBy, get]
  | cons p t ih =>
    obtain ⟨k', v'⟩ := p
    simp only [WF, keys, List.map_cons, List.nodup_cons] at h
    by_cases h1 : k' = k
    · subst h1
      have : get t k' = none := get_none_of_not_mem h.1
      simp only [erase, if_true, get, sumBy, Option.map_some, Option.getD_some]
      rw [ih h.2, this]; simp; omega
    · simp only [erase, h1, if_false, get, sumBy]
      rw [ih h.2]; omega

theorem sumBy_set (f : V → Int) {m : AMap K V} (k : K) (v : V) (h : WF m) :
    sumBy f (set m k v) = sumBy f m - ((get m k).map f).getD 0 + f v := by
  induction m with
  | nil => simp [set, sumBy, get]
  | cons p t ih =>
    obtain ⟨k', v'⟩ := p
    simp only [WF, keys, List.map_cons, List.nodup_cons] at h
    by_cases h1 : k' = k
    · subst h1
      simp only [set, if_true, get, sumBy, Option.map_some, Option.getD_some]; omega
    · simp only [set, h1, if_false, get, sumBy]
      rw [ih h.2]; omega

end AMap
end Canine
