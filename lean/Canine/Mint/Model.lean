/-
Executable model of x/jklmint `BlockMint` (after the "fix:" that floors the emission at zero).
Accounts are the five the module touches: total supply of the mint denomination, the stakers'
pool (fee collector, swept by distribution later in the same BeginBlock — observed together),
the developer-grants account, the storage-stipend account and the mint module account itself.
Each ratio send can fail for lack of funds (ratios summing above 100), in which case BlockMint
logs and returns without recording the block, exactly as the code does.  Core Lean only.
-/
import Canine.Basic.Dec
namespace Canine.Mint

structure Params where
  tokensPerBlock : Int
  mintDecrease : Int
  stakerRatio : Int
  devGrantsRatio : Int
  providerRatio : Int
  deriving DecidableEq, Repr, Inhabited

structure State where
  last : Option Int     -- MintedBlock(height-1).Minted when that record exists
  supply : Int
  stakers : Int         -- fee collector + distribution module
  dev : Int
  stipend : Int
  modBal : Int          -- jklmint module account
  deriving DecidableEq, Repr, Inhabited

def blocksPerYear : Int := 5256000

/-- `utils.GetMintForBlock` : truncate(prev − decrease/blocksPerYear), floored at 0 -/
def nextMint (prev dec : Int) : Int :=
  let eps := (Dec.quo? (Dec.ofInt dec) (Dec.ofInt blocksPerYear)).getD Dec.zero
  let r := Dec.trunc (Dec.sub (Dec.ofInt prev) eps)
  if r < 0 then 0 else r

/-- ratio/100 · m truncated: `NewDec(ratio).QuoInt64(100).MulInt64(m).TruncateInt64()` -/
def share (ratio m : Int) : Int := Dec.trunc (Dec.mulInt (Dec.quoInt (Dec.ofInt ratio) 100) m)

/-- one `BlockMint`; returns the new state and the amount minted -/
def blockMint (p : Params) (s : State) : State × Int :=
  let prev := s.last.getD p.tokensPerBlock
  let m := nextMint prev p.mintDecrease
  -- sdk.NewInt64Coin(denom, m) : m ≥ 0 after the fix; MintCoins adds to supply and module
  let s1 := { s with supply := s.supply + m, modBal := s.modBal + m, last := none }
  let a := share p.stakerRatio m
  if a < 0 ∨ s1.modBal < a then (s1, m) else
  let s2 := { s1 with modBal := s1.modBal - a, stakers := s1.stakers + a }
  let b := share p.devGrantsRatio m
  if b < 0 ∨ s2.modBal < b then (s2, m) else
  let s3 := { s2 with modBal := s2.modBal - b, dev := s2.dev + b }
  let c := share p.providerRatio m
  if c < 0 ∨ s3.modBal < c then (s3, m) else
  ({ s3 with modBal := s3.modBal - c, stipend := s3.stipend + c, last := some m }, m)

def validParams (p : Params) : Prop :=
  0 ≤ p.tokensPerBlock ∧ 0 ≤ p.mintDecrease ∧ 0 ≤ p.stakerRatio ∧ 0 ≤ p.devGrantsRatio ∧
  0 ≤ p.providerRatio ∧ p.stakerRatio + p.devGrantsRatio + p.providerRatio ≤ 100

/-- a run of consecutive blocks under fixed parameters; returns the emissions in order -/
def runBlocks (p : Params) : Nat → State → State × List Int
  | 0, s => (s, [])
  | n + 1, s =>
    let (s1, m) := blockMint p s
    let (s2, ms) := runBlocks p n s1
    (s2, m :: ms)

/-- a run of consecutive blocks where governance may change the parameters between blocks -/
def runBlocksP : List Params → State → State × List Int
  | [], s => (s, [])
  | p :: ps, s =>
    let (s1, m) := blockMint p s
    let (s2, ms) := runBlocksP ps s1
    (s2, m :: ms)

end Canine.Mint
