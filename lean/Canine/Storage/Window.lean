/-
x/storage/types/file.go and the challenge selection of file_deal.go as pure functions (Go `%`
and `/` are truncated).  Core Lean only.
-/
import Canine.Basic.Int64
namespace Canine.Storage

/-- `getRoundedWindow` -/
def roundedWindow (h start window : Int) : Int :=
  let k := h - start
  k - Int.tmod k window + start

/-- `ProvenLastBlock` -/
def provenLastBlock (h start window lastProven : Int) : Bool :=
  decide (lastProven ≥ roundedWindow h start window - window)

/-- `ProvenThisBlock` -/
def provenThisBlock (h start window lastProven : Int) : Bool :=
  decide (lastProven ≥ roundedWindow h start window)

/-- `IsYoung` -/
def isYoung (h start window : Int) : Bool := decide (start + window ≥ h)

/-- the number of candidate chunks of `ResetChunkWithProof`: size/chunk, minus one when exact -/
def pieces (fileSize chunkSize : Int) : Int :=
  let p := Int.tdiv fileSize chunkSize
  if Int.tmod fileSize chunkSize = 0 then p - 1 else p

/-- the next challenge: 0 unless there is more than one piece, then the drawn value `r`
(the chain draws `r` with `Int63n(pieces)`, i.e. `0 ≤ r < pieces`) -/
def nextChunk (fileSize chunkSize r : Int) : Int :=
  if pieces fileSize chunkSize > 0 then r else 0

/-- number of chunks `BuildTree` cuts a file of `fileSize` bytes into: ⌈size / chunk⌉ -/
def chunkCount (fileSize chunkSize : Int) : Int :=
  Int.tdiv fileSize chunkSize + (if Int.tmod fileSize chunkSize = 0 then 0 else 1)

end Canine.Storage
