/-
Message handlers of x/storage as they are written after the "fix:" commits (PostProof registers
a prover only after its proof verified; VerifyProof checks the leaf index; PostFile validates
sizes and replaces a same-key file; RemoveFile returns the footprint; the referrer is paid the
referral share; NewGauge adds to an existing gauge with the same id).

Baseapp commits a handler's writes iff it returns a nil error.  PostProof, Attest and the two
form requests report failure *inside the response* with a nil error, so whatever they wrote
before "failing" is committed: those handlers return the state together with a success flag.
Inputs the model does not compute are oracle inputs recorded by the harness: `rns.Resolve`
results, the JKL price, `json.Valid(note)`, the result of the chain's proof verification
(`verified`, separately tied to the Merkle model), the drawn next challenge, the shuffled
provider list of a form, and the id/account of a gauge about to be created.  Core Lean only.
-/
import Canine.Storage.Types
import Canine.Storage.Window
import Canine.Storage.Price
namespace Canine.Storage

def gb : Int := 1000000000
def timeMonthNs : Int := 2592000000000000        -- 30 days
def dayNs : Int := 86400000000000
def hourMs : Int := 3600000
/-- 10000-01-01T00:00:00Z in Unix nanoseconds: gogoproto refuses to encode later instants -/
def protoMaxNs : Int := 253402300800 * 1000000000

/-- `sdk.Coins.Add` for the single-denomination coin lists the module builds -/
def addCoins : Coins → Coins → Coins
  | [], b => b
  | a, [] => a
  | [(d1, x)], [(d2, y)] => if d1 = d2 then [(d1, x + y)] else if d1 < d2 then [(d1, x), (d2, y)] else [(d2, y), (d1, x)]
  | a, b => a ++ b

/-- `NewGauge` (with the id and escrow account the chain derives from height, end and coins):
a deposit into an existing id is added to the recorded amount -/
def newGauge' (s : State) (now : Int) (id acc : String) (coins : Coins) (endT : Int) : State :=
  let merged : Coins :=
    match AMap.get s.gauges id with
    | some g => addCoins g.coins coins
    | none => coins
  let g : Gauge := { id := id, startT := now, endT := endT, coins := merged, account := acc }
  { s with gauges := AMap.set s.gauges id g }

/-- `MsgPostFile` -/
def postFile (s : State) (h now : Int) (creator merkle : String) (fileSize maxProofs expires proofType : Int)
    (note : String) (noteValid : Bool) (jklPrice : Dec) (gaugeId gaugeAcc : String) : Option State := do
  req (noteValid = true)
  req (1 ≤ fileSize ∧ 1 ≤ maxProofs ∧ fileSize ≤ Int.tdiv I64.maxV maxProofs)
  let key : FKey := (merkle, creator, h)
  let file : File :=
    { merkle := merkle, owner := creator, start := h, expires := expires, fileSize := fileSize,
      proofInterval := s.params.proofWindow, proofType := proofType, proofs := [], maxProofs := maxProofs, note := note }
  let s1 := setFile (removeFile s key) file
  let total := fileSize * maxProofs
  if expires > 0 then do
    let kbs := if Int.tdiv total 1000 < 1024 then 1024 else Int.tdiv total 1000
    let seconds := I64.mul (expires - h) 6
    let hours := Int.tdiv (Int.tdiv seconds 60) 60
    let days := Int.tdiv hours 24
    -- the new gauge ends at `now + days` (calendar days, `AddDate`); storing a time at or after
    -- 10000-01-01 makes the protobuf timestamp codec panic, which fails the transaction
    req (0 < days ∧ now + days * dayNs < protoMaxNs)
    let cost ← storageCostKbs s.params.pricePerTbPerMonth kbs hours jklPrice
    req (0 ≤ cost)                                      -- sdk.NewCoin panics on a negative amount
    let spr := Dec.sub (Dec.sub Dec.one (Dec.quoInt (Dec.ofInt s.params.referralCommission) 100))
                 (Dec.quoInt (Dec.ofInt s.params.polRatio) 100)
    let spc := Dec.trunc (Dec.mul (Dec.ofInt cost) spr)
    let spcTokens ← Bank.newCoins "ujkl" spc
    let toPay ← Bank.newCoins "ujkl" cost
    let s2 := newGauge' s1 now gaugeId gaugeAcc spcTokens (now + days * dayNs)
    let b1 ← Bank.send s2.bank creator s2.moduleAcc toPay
    let b2 ← sendFromModule { s2 with bank := b1 } s2.moduleAcc gaugeAcc spcTokens
    some { s2 with bank := b2 }
  else do
    let pi ← AMap.get s1.payinfo creator
    req (pi.endT ≥ now)
    let used := pi.spaceUsed + total
    req (used ≤ pi.spaceAvailable)
    some { s1 with payinfo := AMap.set s1.payinfo pi.address { pi with spaceUsed := used } }

/-- `MsgDeleteFile`: never fails -/
def deleteFile (s : State) (creator merkle : String) (start : Int) : State :=
  removeFile s (merkle, creator, start)

/-- `UpgradeStorage` -/
def upgradeCost (s : State) (now bytes durationNs storageCostNew : Int) (pi : PayInfo) (jklPrice : Dec) : Option Int := do
  let prorated := timeSub pi.endT now
  let proratedHours := Dec.trunc ((Dec.quo? (Dec.ofInt (Int.tdiv prorated 1000000)) (Dec.ofInt hourMs)).getD Dec.zero)
  let oldCost ← storageCost s.params.pricePerTbPerMonth (Int.tdiv pi.spaceAvailable gb) proratedHours jklPrice
  req (0 < durationNs - Int.tmod durationNs timeMonthNs)
  req (bytes ≥ pi.spaceUsed)
  let price := storageCostNew - oldCost
  req (0 < price)
  some price

/-- `MsgBuyStorage`.  `referral` = `rns.Resolve(msg.Referral)` (none on error). -/
def buyStorage (s : State) (now : Int) (creator forAddress : String) (durationDays bytes : Int)
    (denom : String) (referral : Option String) (jklPrice : Dec) (gaugeId gaugeAcc : String) : Option State := do
  req (0 < durationDays)                                -- ValidateBasic
  let durationNs := I64.mul durationDays dayNs
  req (durationNs ≥ timeMonthNs)
  let gbs := Int.tdiv bytes gb
  req (0 < gbs)
  req (denom = "ujkl")
  let durMs := Int.tdiv durationNs 1000000
  let hours := Dec.trunc ((Dec.quo? (Dec.ofInt durMs) (Dec.ofInt hourMs)).getD Dec.zero)
  let storageCostNew ← storageCost s.params.pricePerTbPerMonth gbs hours jklPrice
  req (0 ≤ storageCostNew)
  let (toPay0, spaceUsed) ←
    match AMap.get s.payinfo forAddress with
    | some pi =>
      if pi.spaceUsed > bytes then none
      else if pi.endT > now then
        (upgradeCost s now bytes durationNs storageCostNew pi jklPrice).map (fun p => (p, pi.spaceUsed))
      else some (storageCostNew, pi.spaceUsed)
    | none => some (storageCostNew, 0)
  let referred := match referral with
    | some r => decide (r ≠ creator)
    | none => false
  let pol0 := Dec.quoInt (Dec.ofInt s.params.polRatio) 100
  let long := decide (durMs > 365 * 24 * hourMs)
  let toPay := if referred then Dec.trunc (Dec.mul (Dec.ofInt toPay0) (if long then dec0_95 else dec0_90)) else toPay0
  let discount : Dec := if referred then (if long then Dec.quoInt (Dec.ofInt 5) 100 else Dec.quoInt (Dec.ofInt 10) 100) else Dec.zero
  let pol := if referred then Dec.sub pol0 (if long then dec0_05 else dec0_1) else pol0
  req (0 ≤ toPay)
  let payCoins ← Bank.newCoins denom toPay
  let b1 ← Bank.send s.bank creator s.moduleAcc payCoins
  let spi : PayInfo := { startT := now, endT := now + durationNs, spaceAvailable := bytes, spaceUsed := spaceUsed, address := forAddress }
  let s1 := { s with bank := b1, payinfo := AMap.set s.payinfo forAddress spi }
  let refDec := Dec.quoInt (Dec.ofInt s.params.referralCommission) 100
  let spr := Dec.sub (Dec.sub (Dec.sub Dec.one refDec) pol) discount
  let spcTokens ← Bank.newCoins denom (Dec.trunc (Dec.mul (Dec.ofInt toPay) spr))
  let s2 := newGauge' s1 now gaugeId gaugeAcc spcTokens spi.endT
  let b2 ← sendFromModule s2 s2.moduleAcc gaugeAcc spcTokens
  let polTokens ← Bank.newCoins denom (Dec.trunc (Dec.mul (Dec.ofInt toPay) pol))
  let b3 ← sendFromModule { s2 with bank := b2 } s2.moduleAcc s2.polAcc polTokens
  let refTokens ← Bank.newCoins denom (Dec.trunc (Dec.mul (Dec.ofInt toPay) refDec))
  let b4 ←
    match referral with
    | some r => if referred then sendFromModule { s2 with bank := b3 } s2.moduleAcc r refTokens
                else Bank.send b3 s2.moduleAcc s2.feeAcc refTokens
    | none => Bank.send b3 s2.moduleAcc s2.feeAcc refTokens
  some { s2 with bank := b4 }

/-- `MsgInitProvider` (`ipValid` = `url.ParseRequestURI(msg.Ip)` succeeded, from ValidateBasic) -/
def initProvider (s : State) (creator ip keybase : String) (totalSpace : Int) (ipValid : Bool) : Option State := do
  req (ipValid = true)
  req (AMap.contains s.providers creator = false)
  req (0 ≤ s.params.collateralPrice)                  -- sdk.NewInt64Coin panics on a negative amount
  let coins ← Bank.newCoins "ujkl" s.params.collateralPrice
  let b1 ← Bank.send s.bank (acctOf s creator) s.collateralAcc coins
  some { s with bank := b1,
                collateral := AMap.set s.collateral creator s.params.collateralPrice,
                providers := AMap.set s.providers creator
                  { address := creator, ip := ip, totalspace := toString totalSpace, burned := some 0,
                    creator := creator, keybase := keybase, claimers := [] } }

/-- `MsgShutdownProvider` -/
def shutdownProvider (s : State) (creator : String) : Option State := do
  req (AMap.contains s.providers creator = true)
  match AMap.get s.collateral creator with
  | some amt =>
    req (0 ≤ amt)
    let coins ← Bank.newCoins "ujkl" amt
    let b1 ← sendFromModule s s.collateralAcc (acctOf s creator) coins
    some { s with bank := b1, collateral := AMap.erase s.collateral creator,
                  providers := AMap.erase s.providers creator }
  | none => some { s with providers := AMap.erase s.providers creator }

/-- outcome of a handler that reports failure inside its response: the committed state and the flag -/
structure Reported where
  state : State
  success : Bool

/-- `MsgPostProof`.  `verified` = the chain's `VerifyProof` on the submitted item and path against
the file's root for the *stored* challenge; `nextChallenge` = the value `ResetChunkWithProof`
drew.  After the fix nothing is written unless the proof verified. -/
def postProof (s : State) (h : Int) (creator merkle owner : String) (start toProve : Int)
    (verified : Bool) (nextChallenge : Int) : Reported :=
  match AMap.get s.files (merkle, owner, start) with
  | none => ⟨s, false⟩
  | some f =>
    let pk : PKey := (creator, f.key)
    let listed := f.proofs.contains pk
    let existing : Option Proof :=
      if listed then AMap.get s.proofs pk else none
    let full := decide (f.proofs.length = f.maxProofs)
    -- full and not listed, or listed but the record is missing: error
    if (full && !listed) || (listed && existing.isNone) then ⟨s, false⟩ else
    let proof : Proof := existing.getD
      { prover := creator, merkle := f.merkle, owner := f.owner, start := f.start, lastProven := h, chunkToProve := 0 }
    if toProve ≠ proof.chunkToProve then ⟨s, false⟩ else
    if !verified then ⟨s, false⟩ else
    let proof' := { proof with lastProven := h, chunkToProve := nextChunk f.fileSize s.params.chunkSize nextChallenge }
    if listed then ⟨{ s with proofs := AMap.set s.proofs pk proof' }, true⟩
    else
      -- AddProver: refuses when the list is at (or beyond) MaxProofs
      if f.proofs.length ≥ f.maxProofs then ⟨s, false⟩ else
      let f' := { f with proofs := f.proofs ++ [pk] }
      ⟨{ setFile s f' with proofs := AMap.set s.proofs pk proof' }, true⟩

/-- the form-request handlers: `chosen` = the first `AttestFormSize` addresses of the chain's
height-seeded shuffle of the eligible providers (oracle input; `eligibleCount` = how many were eligible) -/
def requestForm (forms : AMap PKey Form) (s : State) (prover merkle owner : String) (start : Int)
    (eligibleCount : Int) (chosen : List String) : Option (AMap PKey Form) := do
  let f ← AMap.get s.files (merkle, owner, start)
  let pk : PKey := (prover, f.key)
  req (f.proofs.contains pk = true ∧ (AMap.get s.proofs pk).isSome = true)
  req (AMap.contains forms pk = false)
  req (AMap.contains s.providers prover = true)
  req (eligibleCount ≥ s.params.attestFormSize)
  req (0 ≤ s.params.attestFormSize)                      -- `make` panics on a negative length
  some (AMap.set forms pk
    { prover := prover, merkle := merkle, owner := owner, start := start,
      attestations := chosen.map (fun a => (a, false)) })

/-- mark the signer's entries complete; returns the new list, whether the signer was listed, and
the number of complete entries -/
def signForm (atts : List (String × Bool)) (signer : String) : List (String × Bool) × Bool × Int :=
  let atts' := atts.map (fun p => if p.1 = signer then (p.1, true) else p)
  (atts', atts.any (fun p => p.1 = signer), (atts'.filter (·.2)).length)

/-- `Keeper.Attest` (the message handler swallows its error, so failure commits nothing new) -/
def attest (s : State) (h : Int) (creator prover merkle owner : String) (start : Int) : State :=
  let pk : PKey := (prover, (merkle, owner, start))
  match AMap.get s.attests pk with
  | none => s
  | some form =>
    let (atts', listed, count) := signForm form.attestations creator
    if !listed then s else
    if count < s.params.attestMinToPass then
      { s with attests := AMap.set s.attests pk { form with attestations := atts' } }
    else
      match AMap.get s.files (form.merkle, form.owner, form.start) with
      | none => s
      | some f =>
        let fpk : PKey := (form.prover, f.key)
        if !f.proofs.contains fpk then s else
        match AMap.get s.proofs fpk with
        | none => s
        | some p =>
          { s with proofs := AMap.set s.proofs fpk { p with lastProven := h },
                   attests := AMap.erase s.attests pk }

/-- `RemoveProverWithKey` + `Save` -/
def removeProver (s : State) (f : File) (pk : PKey) : State × File :=
  if f.proofs.contains pk then
    let f' := { f with proofs := f.proofs.filter (· ≠ pk) }
    ({ setFile s f' with proofs := AMap.erase s.proofs pk }, f')
  else (s, f)

/-- `MsgReport` (errors are returned, so a failed report changes nothing) -/
def report (s : State) (creator prover merkle owner : String) (start : Int) : Option State := do
  let pk : PKey := (prover, (merkle, owner, start))
  let form ← AMap.get s.reports pk
  let (atts', listed, count) := signForm form.attestations creator
  req (listed = true)
  if count < s.params.attestMinToPass then
    some { s with reports := AMap.set s.reports pk { form with attestations := atts' } }
  else do
    let f ← AMap.get s.files (merkle, owner, start)
    let s1 := { s with reports := AMap.erase s.reports pk }
    some (removeProver s1 f (prover, f.key)).1

end Canine.Storage
