/-
State of the x/storage model.  Stores are keyed by the *decoded* key (the harness parses the raw
keys "%x/%s/%d/", "%s/%x/%d/", "%s/%s/%x/%d/" and flags any key that is not of that shape);
both file indexes are kept, as in the code.  Times are Unix nanoseconds.  Core Lean only.
-/
import Canine.Basic.Bank
import Canine.Basic.Dec
import Canine.Basic.Int64
namespace Canine.Storage

/-- (merkle hex, owner, start) -/
abbrev FKey := String × String × Int
/-- (prover, file key) -/
abbrev PKey := String × FKey

structure File where
  merkle : String
  owner : String
  start : Int
  expires : Int
  fileSize : Int
  proofInterval : Int
  proofType : Int
  proofs : List PKey
  maxProofs : Int
  note : String
  deriving DecidableEq, Repr, Inhabited

def File.key (f : File) : FKey := (f.merkle, f.owner, f.start)

structure Proof where
  prover : String
  merkle : String
  owner : String
  start : Int
  lastProven : Int
  chunkToProve : Int
  deriving DecidableEq, Repr, Inhabited

structure Provider where
  address : String
  ip : String
  totalspace : String
  burned : Option Int        -- `strconv.ParseInt(BurnedContracts)`; none = unparsable
  creator : String
  keybase : String
  claimers : List String
  deriving DecidableEq, Repr, Inhabited

structure PayInfo where
  startT : Int
  endT : Int
  spaceAvailable : Int
  spaceUsed : Int
  address : String
  deriving DecidableEq, Repr, Inhabited

structure Gauge where
  id : String
  startT : Int
  endT : Int
  coins : Coins
  account : String          -- the gauge's escrow account (a function of the id)
  deriving DecidableEq, Repr, Inhabited

structure Form where
  prover : String
  merkle : String
  owner : String
  start : Int
  attestations : List (String × Bool)
  deriving DecidableEq, Repr, Inhabited

structure Params where
  proofWindow : Int
  checkWindow : Int
  chunkSize : Int
  pricePerTbPerMonth : Int
  collateralPrice : Int
  attestFormSize : Int
  attestMinToPass : Int
  referralCommission : Int
  polRatio : Int
  deriving DecidableEq, Repr, Inhabited

structure State where
  files : AMap FKey File          -- FilesByMerkle (primary)
  files2 : AMap FKey File         -- FilesByOwner (secondary)
  proofs : AMap PKey Proof
  providers : AMap String Provider
  payinfo : AMap String PayInfo
  collateral : AMap String Int
  gauges : AMap String Gauge
  attests : AMap PKey Form
  reports : AMap PKey Form
  bank : Bank
  params : Params
  moduleAcc : String
  collateralAcc : String
  polAcc : String
  feeAcc : String
  blocked : List String
  /-- the chain's canonicalisation of the address strings in play (`AccAddressFromBech32(x).String()`,
  recorded by the harness): provider and collateral records are keyed by the signer string as sent,
  tokens move between the accounts those strings denote -/
  canon : AMap String String := []
  deriving DecidableEq, Repr, Inhabited

/-- the account an address string denotes (itself when the table has no entry) -/
def acctOf (s : State) (a : String) : String := (AMap.get s.canon a).getD a

def setFile (s : State) (f : File) : State :=
  { s with files := AMap.set s.files f.key f, files2 := AMap.set s.files2 f.key f }

/-- `RemoveFile`: proofs of the listed provers, both index entries, and (plan-paid files) the
footprint goes back to the owner's plan, floored at zero. -/
def removeFile (s : State) (k : FKey) : State :=
  match AMap.get s.files k with
  | none => s
  | some f =>
    let proofs' := f.proofs.foldl (fun m pk => AMap.erase m pk) s.proofs
    let payinfo' :=
      if f.expires ≤ 0 then
        match AMap.get s.payinfo f.owner with
        | some pi =>
          let u := pi.spaceUsed - f.fileSize * f.maxProofs
          AMap.set s.payinfo pi.address { pi with spaceUsed := if u < 0 then 0 else u }
        | none => s.payinfo
      else s.payinfo
    { s with proofs := proofs', payinfo := payinfo',
             files := AMap.erase s.files k, files2 := AMap.erase s.files2 k }

def sendFromModule (s : State) (src dst : String) (c : Coins) : Option Bank :=
  if s.blocked.contains dst then none else Bank.send s.bank src dst c

end Canine.Storage
