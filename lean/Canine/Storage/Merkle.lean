/-
The Merkle tree of x/storage as the code builds and checks it:

* `utils.BuildTree` / `merkletree.NewTree` (wealdtech/go-merkletree v2, unsalted, unsorted): the
  leaf nodes are `H(data_i)`; they are padded with all-zero nodes up to the next power of two;
  `nodes[i] = H(nodes[2i] ‖ nodes[2i+1])`; the root is `nodes[1]` (a single leaf is its own root).
* `GenerateProof`: the siblings from the leaf level upwards, and the leaf index.
* `generateProofHash`/`VerifyProofUsing`: start from `H(data)`, take `index + 2^len(hashes)`,
  at each step use its parity to decide the side and halve it; accept iff the result is the root.
* chain side (`UnifiedFile.VerifyProof`, after the fix): data = SHA-256 of the ASCII text
  `decimal(chunk index) ‖ lower-case hex(item)`, and the proof's index must equal the challenge.

`H` (SHA3-512 in the chain) and `S` (SHA-256) are parameters.  Core Lean only.
-/
namespace Canine.Storage.Merkle

abbrev Bytes := List UInt8

section
variable (H : Bytes → Bytes)

def h2 (a b : Bytes) : Bytes := H (a ++ b)

/-- one level up: hash adjacent pairs -/
def pairUp : List Bytes → List Bytes
  | a :: b :: rest => h2 H a b :: pairUp rest
  | _ => []

/-- smallest `d` with `n ≤ 2^d` (`⌈log₂ n⌉` for `n ≥ 1`) -/
def depthFor (n : Nat) : Nat :=
  if n ≤ 1 then 0 else Nat.log2 (n - 1) + 1

def zeroNode (hashLen : Nat) : Bytes := List.replicate hashLen 0

/-- the leaf level: hashed data padded with zero nodes to `2^depth` -/
def leafLevel (hashLen : Nat) (data : List Bytes) : List Bytes :=
  data.map H ++ List.replicate (2 ^ depthFor data.length - data.length) (zeroNode hashLen)

/-- root of a level of `2^d` nodes -/
def rootD : Nat → List Bytes → Bytes
  | 0, l => l.getD 0 []
  | d + 1, l => rootD d (pairUp H l)

def root (hashLen : Nat) (data : List Bytes) : Bytes :=
  rootD H (depthFor data.length) (leafLevel H hashLen data)

/-- siblings of node `i`, bottom-up, in a level of `2^d` nodes -/
def pathD : Nat → List Bytes → Nat → List Bytes
  | 0, _, _ => []
  | d + 1, l, i => l.getD (if i % 2 = 0 then i + 1 else i - 1) [] :: pathD d (pairUp H l) (i / 2)

/-- `GenerateProof(data_i, 0).Hashes` -/
def genProof (hashLen : Nat) (data : List Bytes) (i : Nat) : List Bytes :=
  pathD H (depthFor data.length) (leafLevel H hashLen data) i

/-- the loop of `generateProofHash` -/
def foldIdx (cur : Bytes) (idx : Nat) : List Bytes → Bytes
  | [] => cur
  | s :: rest => foldIdx (if idx % 2 = 0 then h2 H cur s else h2 H s cur) (idx / 2) rest

/-- `generateProofHash(data, false, proof)` -/
def proofHash (data : Bytes) (index : Nat) (hashes : List Bytes) : Bytes :=
  foldIdx H (H data) (index + 2 ^ hashes.length) hashes

/-- `VerifyProofUsing(data, false, proof, [root])` -/
def verify (rt data : Bytes) (index : Nat) (hashes : List Bytes) : Bool :=
  proofHash H data index hashes = rt

end

/-! ### chain side: the leaf pre-image -/

def hexDigit (n : UInt8) : UInt8 := if n < 10 then 48 + n else 87 + n

/-- lower-case hex text of a byte string (`%x`) -/
def hexBytes : Bytes → Bytes
  | [] => []
  | b :: rest => hexDigit (b >>> 4) :: hexDigit (b &&& 15) :: hexBytes rest

/-- decimal text of a natural number (`%d`) -/
def decBytes (n : Nat) : Bytes := (toString n).toUTF8.toList

/-- `fmt.Sprintf("%d%x", index, item)` -/
def leafPre (index : Nat) (item : Bytes) : Bytes := decBytes index ++ hexBytes item

/-- the data element the tree is built over / verified against, for chunk `index` -/
def leafData (S : Bytes → Bytes) (index : Nat) (item : Bytes) : Bytes := S (leafPre index item)

/-- `BuildTree`'s root over the chunks of a file -/
def fileRoot (H S : Bytes → Bytes) (hashLen : Nat) (chunks : List Bytes) : Bytes :=
  root H hashLen (chunks.mapIdx (fun i c => leafData S i c))

/-- `UnifiedFile.VerifyProof` after the fix: the proof's index is the challenged chunk -/
def verifyProof (H S : Bytes → Bytes) (merkle : Bytes) (challenge : Nat) (item : Bytes)
    (proofIndex : Nat) (hashes : List Bytes) : Bool :=
  decide (proofIndex = challenge) && verify H merkle (leafData S challenge item) proofIndex hashes

/-- `VerifyProof` before the fix (regression witness): the index was not compared -/
def verifyProofUnfixed (H S : Bytes → Bytes) (merkle : Bytes) (challenge : Nat) (item : Bytes)
    (proofIndex : Nat) (hashes : List Bytes) : Bool :=
  verify H merkle (leafData S challenge item) proofIndex hashes

end Canine.Storage.Merkle
