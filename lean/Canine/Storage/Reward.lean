/-
The storage BeginBlocker: `RunRewardBlock` → `ManageRewards` → `manageProof` per listed prover,
`pullTokensFromGauges`, `rewardAllProviders`.  Every primitive that can panic in the Go code is
explicit: the result is `Except String State`, and C05 is the theorem that it is always `.ok`
on states satisfying the invariant that validation establishes.  Core Lean only.
-/
import Canine.Storage.Handlers
namespace Canine.Storage

/-- `burnContract` -/
def burnContract (s : State) (provider : String) : State :=
  match AMap.get s.providers provider with
  | none => s
  | some p =>
    match p.burned with
    | none => s                                         -- unparsable counter: logged, unchanged
    | some b => { s with providers := AMap.set s.providers provider { p with burned := some (b + 1) } }

/-- size credited this block, per prover address -/
abbrev Tracker := AMap String Int

def credit (t : Tracker) (prover : String) (size : Int) : Tracker :=
  AMap.set t prover ((AMap.get t prover).getD 0 + size)

/-- `manageProof` for one listed proof key of `file` (the current, possibly already shrunk, file) -/
def manageProof (s : State) (h : Int) (t : Tracker) (file : File) (pk : PKey) : State × Tracker × File :=
  let young := isYoung h file.start file.proofInterval
  match AMap.get s.proofs pk with
  | none =>
    if !young then
      let (s', f') := removeProver s file pk
      (s', t, f')
    else
      -- young file, no record: the zero-valued proof (LastProven 0, Prover "") is used
      (s, credit t "" file.fileSize, file)
  | some p =>
    let proven := provenLastBlock h file.start file.proofInterval p.lastProven
    if !proven && !young then
      let (s', f') := removeProver s file pk
      (burnContract s' pk.1, t, f')
    else (s, credit t p.prover file.fileSize, file)

/-- one file of `ManageRewards`: drop it if it has no provers and is old, then manage every proof
key of the list *as it was when the file was read* (the loop ranges over a copy) -/
def manageFile (s : State) (h : Int) (t : Tracker) (file : File) : State × Tracker :=
  let s1 :=
    if file.proofs.isEmpty && !(isYoung h file.start file.proofInterval) then removeFile s file.key else s
  let (s2, t2, _) := file.proofs.foldl (fun (acc : State × Tracker × File) pk => manageProof acc.1 h acc.2.1 acc.2.2 pk) (s1, t, file)
  (s2, t2)

/-- release from one gauge at block time `now`; `Except` = a panic -/
def pullGauge (s : State) (now : Int) (released : Coins) (g : Gauge) : Except String (State × Coins) :=
  if g.endT < now then .ok ({ s with gauges := AMap.erase s.gauges g.id }, released)
  else if g.endT ≤ g.startT then .ok ({ s with gauges := AMap.erase s.gauges g.id }, released)
  else
    let balances := s.bank.filter (fun p => p.1.1 = g.account ∧ p.2 ≠ 0)
    if balances.isEmpty then .ok ({ s with gauges := AMap.erase s.gauges g.id }, released)
    else
      -- whole microseconds of the instants themselves (`UnixMicro`), no `time.Duration` saturation
      let totalUs := Int.tdiv g.endT 1000 - Int.tdiv g.startT 1000
      let leftUs := Int.tdiv g.endT 1000 - Int.tdiv now 1000
      match Dec.quo? (Dec.ofInt leftUs) (Dec.ofInt totalUs) with
      | none => .error "division by zero (gauge shorter than a microsecond)"
      | some q =>
        let ratio := Dec.sub Dec.one q
        g.coins.foldlM (fun (acc : State × Coins) coin =>
          let (st, rel) := acc
          let (denom, amount) := coin
          let bal := Bank.bal st.bank g.account denom
          let would := Dec.mul ratio (Dec.ofInt amount)
          let amt := Dec.trunc (Dec.sub would (Dec.ofInt (amount - bal)))
          if !(I64.inRange amt) then .error "Int64() out of bound"
          else if amt = 0 then .ok (st, rel)
          else if amt < 0 then .error s!"negative coin amount: {amt}"
          else
            let rel' := addCoinTo rel denom amt
            match Bank.send st.bank g.account st.moduleAcc [(denom, amt)] with
            | some b => .ok ({ st with bank := b }, rel')
            | none => .ok (st, rel'))
          (s, released)
where
  /-- `Coins.Add` of one coin -/
  addCoinTo (cs : Coins) (d : String) (x : Int) : Coins :=
    if cs.any (fun c => c.1 = d) then cs.map (fun c => if c.1 = d then (c.1, c.2 + x) else c)
    else cs ++ [(d, x)]

/-- `pullTokensFromGauges` over the gauges in store order -/
def pullGauges (s : State) (now : Int) : Except String (State × Coins) :=
  s.gauges.foldlM (fun (acc : State × Coins) kv => pullGauge acc.1 now acc.2 kv.2) (s, [])

/-- pay one prover its share of every released coin -/
def payProver (s : State) (total : Int) (coins : Coins) (prover : String) (worth : Int) : Except String State :=
  match Dec.quo? (Dec.ofInt worth) (Dec.ofInt total) with
  | none => .error "division by zero"
  | some share =>
    if prover = "" then .ok s                           -- not a bech32 address: skipped
    else
      coins.foldlM (fun (st : State) coin =>
        let owed := Dec.trunc (Dec.mul share (Dec.ofInt coin.2))
        if owed < 0 then .error s!"negative coin amount: {owed}"
        else
          match (Bank.newCoins coin.1 owed).bind (fun c => sendFromModule st st.moduleAcc prover c) with
          | some b => .ok { st with bank := b }
          | none => .ok st) s

/-- sort of the tracker's keys (`providerList`) -/
def sortedProvers (t : Tracker) : List (String × Int) := t.mergeSort (fun a b => a.1 ≤ b.1)

/-- `ManageRewards` -/
def manageRewards (s : State) (h now : Int) : Except String State := do
  let total := (s.files.map (fun kv => kv.2.fileSize * (kv.2.proofs.length : Int))).sum
  let (s1, tracker) := s.files.foldl (fun (acc : State × Tracker) kv => manageFile acc.1 h acc.2 kv.2) (s, [])
  let (s2, coins) ← pullGauges s1 now
  (sortedProvers tracker).foldlM (fun st pw => payProver st total coins pw.1 pw.2) s2

/-- the storage BeginBlocker -/
def beginBlock (s : State) (h now : Int) : Except String State :=
  if s.params.checkWindow = 0 then .error "integer divide by zero"
  else if Int.tmod h s.params.checkWindow > 0 then .ok s
  else manageRewards s h now

end Canine.Storage
