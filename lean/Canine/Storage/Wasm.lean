/-
wasmbinding.PerformPostFile: a contract may post storage files only in its own name.
-/
import Canine.Storage.Model
namespace Canine.Storage

/-- the guard in front of the storage handler: creator must be the calling contract -/
def wasmPostFile (s : State) (h now : Int) (contract : String) (op : Op) : Option State :=
  match op with
  | .postFile c .. => if c = contract then step s h now op else none
  | _ => none

end Canine.Storage
