/-
The x/storage state machine: one `Op` per message (plus the block boundary) and `step`.
`h` is the block height, `now` the block time in Unix nanoseconds.
-/
import Canine.Storage.Reward
namespace Canine.Storage

inductive Op where
  | postFile (creator merkle : String) (fileSize maxProofs expires proofType : Int) (note : String)
      (noteValid : Bool) (jklPrice : Int) (gaugeId gaugeAcc : String)
  | deleteFile (creator merkle : String) (start : Int)
  | buyStorage (creator forAddress : String) (durationDays bytes : Int) (denom : String)
      (referral : Option String) (jklPrice : Int) (gaugeId gaugeAcc : String)
  | initProvider (creator ip keybase : String) (totalSpace : Int) (ipValid : Bool)
  | shutdownProvider (creator : String)
  | setProviderIP (creator ip : String) (ipValid : Bool)
  | setProviderKeybase (creator keybase : String)
  | setProviderTotalSpace (creator : String) (space : Int)
  | addClaimer (creator claimer : String)
  | removeClaimer (creator claimer : String)
  | postProof (creator merkle owner : String) (start toProve : Int) (verified : Bool) (nextChallenge : Int)
  | requestAttest (creator merkle owner : String) (start eligibleCount : Int) (chosen : List String)
  | attest (creator prover merkle owner : String) (start : Int)
  | requestReport (creator prover merkle owner : String) (start eligibleCount : Int) (chosen : List String)
  | report (creator prover merkle owner : String) (start : Int)
  deriving DecidableEq, Repr, Inhabited

def Op.creator : Op → String
  | .postFile c .. | .deleteFile c .. | .buyStorage c .. | .initProvider c .. | .shutdownProvider c
  | .setProviderIP c .. | .setProviderKeybase c .. | .setProviderTotalSpace c .. | .addClaimer c ..
  | .removeClaimer c .. | .postProof c .. | .requestAttest c .. | .attest c .. | .requestReport c ..
  | .report c .. => c

def updProvider (s : State) (creator : String) (f : Provider → Option Provider) : Option State := do
  let p ← AMap.get s.providers creator
  let p' ← f p
  some { s with providers := AMap.set s.providers creator p' }

/-- A delivered message; `none` = the handler returned an error (nothing is committed). -/
def step (s : State) (h now : Int) : Op → Option State
  | .postFile c m fs mp ex pt note nv jp gid gacc => postFile s h now c m fs mp ex pt note nv ⟨jp⟩ gid gacc
  | .deleteFile c m st => some (deleteFile s c m st)
  | .buyStorage c fa dd b dn ref jp gid gacc => buyStorage s now c fa dd b dn ref ⟨jp⟩ gid gacc
  | .initProvider c ip kb ts iv => initProvider s c ip kb ts iv
  | .shutdownProvider c => shutdownProvider s c
  | .setProviderIP c ip iv => if iv then updProvider s c (fun p => some { p with ip := ip }) else none
  | .setProviderKeybase c kb => updProvider s c (fun p => some { p with keybase := kb })
  | .setProviderTotalSpace c sp => updProvider s c (fun p => some { p with totalspace := toString sp })
  | .addClaimer c cl => updProvider s c (fun p => if p.claimers.contains cl then none else some { p with claimers := p.claimers ++ [cl] })
  | .removeClaimer c cl => updProvider s c (fun p => if p.claimers.contains cl then some { p with claimers := p.claimers.filter (· ≠ cl) } else none)
  | .postProof c m o st tp v nc => some (postProof s h c m o st tp v nc).state
  | .requestAttest c m o st ec ch =>
      -- a failed request reports inside the response: the (unchanged) state is committed
      some (match requestForm s.attests s c m o st ec ch with
            | some forms => { s with attests := forms }
            | none => s)
  | .attest c p m o st => some (attest s h c p m o st)
  | .requestReport _ p m o st ec ch =>
      some (match requestForm s.reports s p m o st ec ch with
            | some forms => { s with reports := forms }
            | none => s)
  | .report c p m o st => report s c p m o st

def stepT (s : State) (h now : Int) (op : Op) : State := (step s h now op).getD s

/-- whether the response of a response-reporting handler says success -/
def reportedSuccess (s : State) (h : Int) : Op → Option Bool
  | .postProof c m o st tp v nc => some (postProof s h c m o st tp v nc).success
  | .requestAttest c m o st ec ch => some (requestForm s.attests s c m o st ec ch).isSome
  | .requestReport _ p m o st ec ch => some (requestForm s.reports s p m o st ec ch).isSome
  | _ => none

end Canine.Storage
