/-
Storage pricing (`GetStorageCost`, `GetStorageCostKbsWithPrice`) with the exact `sdk.Dec`
arithmetic of the code.  The JKL price (oracle feed or the 0.20 default) is an input.
`none` = the code panics (division by a zero price), which fails the transaction.
-/
import Canine.Basic.Dec
namespace Canine.Storage

open Dec in
/-- `sdk.MustNewDecFromStr` for the literals the code uses -/
def dec12_5 : Dec := ⟨12500000000000000000⟩
def dec10_42 : Dec := ⟨10420000000000000000⟩
def dec11_67 : Dec := ⟨11670000000000000000⟩
def dec0_95 : Dec := ⟨950000000000000000⟩
def dec0_90 : Dec := ⟨900000000000000000⟩
def dec0_05 : Dec := ⟨50000000000000000⟩
def dec0_1 : Dec := ⟨100000000000000000⟩

/-- `GetStorageCost(gbs, hours)` -/
def storageCost (pricePerTbMonth gbs hours : Int) (jklPrice : Dec) : Option Int := do
  let base := Dec.ofInt pricePerTbMonth
  let yearly := Dec.mul base (Dec.quoInt dec12_5 15)
  let final ←
    if hours < 365 * 24 then
      (if gbs ≥ 20000 then some (Dec.mul base (Dec.quoInt dec12_5 15))
       else if gbs ≥ 5000 then some (Dec.mul base (Dec.quoInt (Dec.ofInt 14) 15))
       else some base)
    else
      (if gbs ≥ 20000 then (Dec.quo? dec10_42 dec12_5).map (Dec.mul yearly)
       else if gbs ≥ 5000 then (Dec.quo? dec11_67 dec12_5).map (Dec.mul yearly)
       else some yearly)
  let perGbHour := Dec.quoInt (Dec.quoInt (Dec.quoInt final 3) 1000) 720
  let total := Dec.mulInt (Dec.mulInt perGbHour gbs) hours
  let jkl ← Dec.quo? total jklPrice
  some (Dec.trunc (Dec.mulInt jkl 1000000))

/-- `GetStorageCostKbs(kbs, hours)` -/
def storageCostKbs (pricePerTbMonth kbs hours : Int) (jklPrice : Dec) : Option Int := do
  let perKbHour := Dec.quoInt (Dec.quoInt (Dec.quoInt (Dec.quoInt (Dec.quoInt (Dec.ofInt pricePerTbMonth) 3) 1000) 1000) 1000) 720
  let total := Dec.mulInt (Dec.mulInt perKbHour kbs) hours
  let jkl ← Dec.quo? total jklPrice
  some (Dec.trunc (Dec.mulInt jkl 1000000))

/-- `time.Time.Sub`: the difference of two instants saturates at ±(2^63−1) ns -/
def timeSub (a b : Int) : Int :=
  let d := a - b
  if d > 9223372036854775807 then 9223372036854775807
  else if d < -9223372036854775808 then -9223372036854775808 else d

end Canine.Storage
