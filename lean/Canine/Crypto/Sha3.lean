/-
SHA3-512 (FIPS 202, Keccak-f[1600]) in core Lean, for the *executable* side only (the Merkle tree
of x/storage hashes with sha3.New512).  No theorem depends on this file.
-/
namespace Canine.Crypto

def keccakRC : Array UInt64 := #[
  0x0000000000000001, 0x0000000000008082, 0x800000000000808A, 0x8000000080008000,
  0x000000000000808B, 0x0000000080000001, 0x8000000080008081, 0x8000000000008009,
  0x000000000000008A, 0x0000000000000088, 0x0000000080008009, 0x000000008000000A,
  0x000000008000808B, 0x800000000000008B, 0x8000000000008089, 0x8000000000008003,
  0x8000000000008002, 0x8000000000000080, 0x000000000000800A, 0x800000008000000A,
  0x8000000080008081, 0x8000000000008080, 0x0000000080000001, 0x8000000080008008]

def keccakRot : Array UInt64 := #[
  0, 1, 62, 28, 27,
  36, 44, 6, 55, 20,
  3, 10, 43, 25, 39,
  41, 45, 15, 21, 8,
  18, 2, 61, 56, 14]

@[inline] def rotl64 (x : UInt64) (n : UInt64) : UInt64 :=
  if n == 0 then x else (x <<< n) ||| (x >>> (64 - n))

/-- state index: lane (x, y) at x + 5*y -/
def keccakF (st : Array UInt64) : Array UInt64 := Id.run do
  let mut a := st
  for round in [0:24] do
    -- theta
    let mut c : Array UInt64 := Array.replicate 5 0
    for x in [0:5] do
      c := c.set! x (a[x]! ^^^ a[x+5]! ^^^ a[x+10]! ^^^ a[x+15]! ^^^ a[x+20]!)
    for x in [0:5] do
      let d := c[(x+4)%5]! ^^^ rotl64 c[(x+1)%5]! 1
      for y in [0:5] do
        a := a.set! (x + 5*y) (a[x + 5*y]! ^^^ d)
    -- rho and pi
    let mut b : Array UInt64 := Array.replicate 25 0
    for x in [0:5] do
      for y in [0:5] do
        let nx := y
        let ny := (2*x + 3*y) % 5
        b := b.set! (nx + 5*ny) (rotl64 a[x + 5*y]! keccakRot[x + 5*y]!)
    -- chi
    for x in [0:5] do
      for y in [0:5] do
        a := a.set! (x + 5*y) (b[x + 5*y]! ^^^ ((~~~ b[(x+1)%5 + 5*y]!) &&& b[(x+2)%5 + 5*y]!))
    -- iota
    a := a.set! 0 (a[0]! ^^^ keccakRC[round]!)
  return a

def sha3_512 (msg : ByteArray) : ByteArray := Id.run do
  let rate := 72
  -- pad10*1 with domain 0x06
  let mut p := msg.push 0x06
  while p.size % rate != 0 do
    p := p.push 0
  p := p.set! (p.size - 1) (p.get! (p.size - 1) ||| 0x80)
  let mut st : Array UInt64 := Array.replicate 25 0
  for blk in [0:p.size / rate] do
    for i in [0:rate/8] do
      let mut lane : UInt64 := 0
      for j in [0:8] do
        lane := lane ||| ((p.get! (blk*rate + 8*i + j)).toUInt64 <<< (UInt64.ofNat (8*j)))
      st := st.set! i (st[i]! ^^^ lane)
    st := keccakF st
  let mut out := ByteArray.empty
  for i in [0:8] do
    for j in [0:8] do
      out := out.push (st[i]! >>> (UInt64.ofNat (8*j))).toUInt8
  return out

end Canine.Crypto
