/-
Executable model of x/notifications after the two "fix:" commits (listings skip block entries that
share the prefix; CreateNotification refuses to overwrite).  One store holds both record kinds, as
in the code.  A raw key "a/b/c" is modelled by its '/'-separated segments (addresses are bech32
and contain no '/'; the harness splits the raw key) so that the prefix scan `to/` and the
`IsNotificationKey` filter (at least two '/') are in the model: the pre-fix phantom-notification
defect is expressible (`inboxUnfixed`).  Core Lean only.
-/
import Canine.Basic.Map
namespace Canine.Notif

inductive Seg where
  | s (v : String)
  | n (v : Int)
  deriving DecidableEq, Repr, Inhabited

structure Notif where
  to : String
  sender : String
  time : Int
  contents : String
  priv : String
  deriving DecidableEq, Repr, Inhabited

inductive Entry where
  | notif (n : Notif)
  | block (owner blocked : String)
  | other (raw : String)          -- undecodable bytes (never written by the handlers)
  deriving DecidableEq, Repr, Inhabited

abbrev Key := List Seg

structure State where
  store : AMap Key Entry
  deriving DecidableEq, Repr, Inhabited

def notifKey (to sender : String) (time : Int) : Key := [.s to, .s sender, .n time]
def blockKey (owner addr : String) : Key := [.s owner, .s addr]

inductive Op where
  /-- `resolved` = `rns.Resolve(msg.To)` (oracle), `jsonOk` = `json.Valid(contents)` (oracle) -/
  | create (creator toRaw : String) (resolved : Option String) (contents priv : String) (jsonOk : Bool)
  /-- `sender` = msg.From split on '/' -/
  | delete (creator : String) (senderSegs : List String) (time : Int)
  /-- each target with its `rns.Resolve` result -/
  | block (creator : String) (targets : List (String × Option String))
  deriving DecidableEq, Repr, Inhabited

def isBlocked (s : State) (owner sender : String) : Bool := AMap.contains s.store (blockKey owner sender)

def create (s : State) (now : Int) (creator : String) (resolved : Option String)
    (contents priv : String) (jsonOk : Bool) : Option State := do
  req (jsonOk = true)
  let to ← resolved
  req (isBlocked s to creator = false)
  req (AMap.contains s.store (notifKey to creator now) = false)
  let n : Notif := { to := to, sender := creator, time := now, contents := contents, priv := priv }
  some { s with store := AMap.set s.store (notifKey to creator now) (Entry.notif n) }

def delete (s : State) (creator : String) (senderSegs : List String) (time : Int) : State :=
  { s with store := AMap.erase s.store ([Seg.s creator] ++ senderSegs.map Seg.s ++ [Seg.n time]) }

def blockAll (s : State) (creator : String) : List (String × Option String) → Option State
  | [] => some s
  | (_, none) :: _ => none
  | (_, some addr) :: rest =>
    blockAll { s with store := AMap.set s.store (blockKey creator addr) (Entry.block creator addr) } creator rest

def step (s : State) (now : Int) : Op → Option State
  | .create c _ r ct p j => create s now c r ct p j
  | .delete c f t => some (delete s c f t)
  | .block c ts => blockAll s c ts

def stepT (s : State) (now : Int) (op : Op) : State := (step s now op).getD s

/-- `IsNotificationKey`: at least two '/' = at least three segments -/
def isNotificationKey (k : Key) : Bool := decide (3 ≤ k.length)

/-- what the chain decodes a stored value to when it reads it as a Notification -/
def asNotif : Entry → Notif
  | .notif n => n
  | .block o b => { to := o, sender := b, time := 0, contents := "", priv := "" }  -- same proto field numbers
  | .other _ => default

/-- `GetAllNotificationsByAddress`: prefix scan `addr/`, keeping notification-shaped keys -/
def inbox (s : State) (addr : String) : List Notif :=
  (s.store.filter (fun p => p.1.head? = some (.s addr) && isNotificationKey p.1 && decide (2 ≤ p.1.length))).map
    (fun p => asNotif p.2)

/-- the pre-fix listing: no key-shape filter (regression witness) -/
def inboxUnfixed (s : State) (addr : String) : List Notif :=
  (s.store.filter (fun p => p.1.head? = some (.s addr) && decide (2 ≤ p.1.length))).map (fun p => asNotif p.2)

/-- `GetAllNotifications` (also what genesis export uses) -/
def allNotifications (s : State) : List Notif :=
  (s.store.filter (fun p => isNotificationKey p.1)).map (fun p => asNotif p.2)

end Canine.Notif
