/-
C14 — Attestations and reports act only on a quorum of the providers named on the form: a
signature counts only for the signer's own entry, an outsider's signature does nothing, repeating
a signature does nothing, the effect (refreshing the prover's `lastProven` / removing the prover)
happens only when at least `attestMinToPass` distinct named providers have signed, and a consumed
form is gone.  Forms name exactly the providers selected for them, never the prover itself.
-/
import Canine.Proofs.StorageE
import Canine.Props.C17
namespace Canine.Storage

/-! ### 1. What a signature does to a form -/

/-- `signForm`: the signer is "listed" iff it is named; exactly the signer's entries become
complete, everything else (length, names, order, other flags) is untouched; the count is the
number of complete entries afterwards. -/
theorem C14_signForm_spec (atts : List (String × Bool)) (signer : String)
    (atts' : List (String × Bool)) (listed : Bool) (count : Int)
    (h : signForm atts signer = (atts', listed, count)) :
    (listed = true ↔ ∃ p ∈ atts, p.1 = signer) ∧
    atts'.length = atts.length ∧
    atts'.map (·.1) = atts.map (·.1) ∧
    (∀ (i : Nat) (hi : i < atts.length) (hi' : i < atts'.length),
        (atts[i].1 = signer → atts'[i] = (signer, true)) ∧
        (atts[i].1 ≠ signer → atts'[i] = atts[i])) ∧
    count = ((atts'.filter (·.2)).length : Int) := by
  rw [signForm_eq] at h
  simp only [Prod.mk.injEq] at h
  obtain ⟨rfl, rfl, rfl⟩ := h
  refine ⟨any_named atts signer, signed_length atts signer, signed_names atts signer, ?_, rfl⟩
  intro i hi hi'
  rw [signed_getElem atts signer i hi']
  constructor
  · intro e; rw [if_pos e, e]
  · intro e; rw [if_neg e]

/-! ### 3. A signature by somebody not named on the form does nothing -/

theorem C14_foreign_signature_no_effect (s : State) (h : Int) (c prover m o : String) (st : Int)
    (hforeign : ∀ f, AMap.get s.attests (prover, (m, o, st)) = some f → ¬ ∃ p ∈ f.attestations, p.1 = c) :
    attest s h c prover m o st = s := by
  rw [attest_eq]
  split
  · rfl
  · rename_i form hg
    have := hforeign form hg
    rw [← any_named] at this
    rw [if_neg this]

theorem C14_foreign_report_no_effect (s : State) (c prover m o : String) (st : Int)
    (hforeign : ∀ f, AMap.get s.reports (prover, (m, o, st)) = some f → ¬ ∃ p ∈ f.attestations, p.1 = c) :
    report s c prover m o st = none := by
  rw [report_eq]
  split
  · rfl
  · rename_i form hg
    have := hforeign form hg
    rw [← any_named] at this
    rw [if_neg this]

/-! ### 6. Who is on a form -/

/-- A successful form request: the file exists, the prover is on its list with an existing
record and is a registered provider, no form was open for that (prover, file), enough providers
were eligible; the new form names exactly `chosen`, in that order, every entry incomplete, and
nothing else in the form store changes. -/
theorem C14_form_members (forms forms' : AMap PKey Form) (s : State) (prover m o : String) (st : Int)
    (eligibleCount : Int) (chosen : List String)
    (hreq : requestForm forms s prover m o st eligibleCount chosen = some forms') :
    ∃ f, AMap.get s.files (m, o, st) = some f ∧
      (prover, f.key) ∈ f.proofs ∧ (∃ p, AMap.get s.proofs (prover, f.key) = some p) ∧
      (∃ pv, AMap.get s.providers prover = some pv) ∧
      AMap.get forms (prover, f.key) = none ∧
      s.params.attestFormSize ≤ eligibleCount ∧
      (∃ form, AMap.get forms' (prover, f.key) = some form ∧
        form.prover = prover ∧ (form.merkle, form.owner, form.start) = (m, o, st) ∧
        form.attestations.map (·.1) = chosen ∧
        (∀ p ∈ form.attestations, p.2 = false) ∧
        form.attestations.length = chosen.length) ∧
      (∀ k, k ≠ (prover, f.key) → AMap.get forms' k = AMap.get forms k) := by
  simp only [requestForm, bind, Option.bind_eq_some_iff, req_eq_some] at hreq
  obtain ⟨f, hf, _, ⟨hl, hp⟩, _, hnone, _, hprov, _, hec, _, -, hs⟩ := hreq
  simp only [Option.some.injEq] at hs; subst hs
  refine ⟨f, hf, by simpa using hl, ?_, ?_, ?_, hec, ?_, ?_⟩
  · cases hg : AMap.get s.proofs (prover, f.key) with
    | none => simp [hg] at hp
    | some p => exact ⟨p, rfl⟩
  · simp only [AMap.contains] at hprov
    cases hg : AMap.get s.providers prover with
    | none => simp [hg] at hprov
    | some p => exact ⟨p, rfl⟩
  · simp only [AMap.contains] at hnone
    cases hg : AMap.get forms (prover, f.key) with
    | none => rfl
    | some p => simp [hg] at hnone
  · refine ⟨_, AMap.get_set_self _ _ _, rfl, rfl, ?_, ?_, by simp⟩
    · simp [List.map_map, Function.comp_def]
    · intro p hp; simp only [List.mem_map] at hp; obtain ⟨a, _, rfl⟩ := hp; rfl
  · intro k hk
    exact AMap.get_set_other _ _ _ _ (fun e => hk e.symm)

/-- on states satisfying the C17 invariant the form sits under the requested key -/
theorem C14_form_key (s : State) (hinv : IndexInv s) (m o : String) (st : Int) (f : File)
    (hf : AMap.get s.files (m, o, st) = some f) : f.key = (m, o, st) := (hinv.ok _ _ hf).1

/-- forms created from a duplicate-free selection have distinct names -/
theorem C14_form_members_distinct (forms forms' : AMap PKey Form) (s : State) (prover m o : String)
    (st : Int) (eligibleCount : Int) (chosen : List String) (hch : chosen.Nodup)
    (hreq : requestForm forms s prover m o st eligibleCount chosen = some forms')
    (hforms : ∀ key f, AMap.get forms key = some f → (f.attestations.map (·.1)).Nodup) :
    ∀ key f, AMap.get forms' key = some f → (f.attestations.map (·.1)).Nodup := by
  obtain ⟨f0, -, -, -, -, -, -, ⟨form, hg, -, -, hn, -, -⟩, hother⟩ :=
    C14_form_members forms forms' s prover m o st eligibleCount chosen hreq
  intro key f hf
  by_cases hk : key = (prover, f0.key)
  · subst hk; rw [hg] at hf; simp only [Option.some.injEq] at hf; subst hf; rw [hn]; exact hch
  · rw [hother key hk] at hf; exact hforms key f hf

/-! #### the eligibility contract of the provider selection -/

/-- The providers a form may name, for a prover whose registered address is `proverIp`
(`hostOf` = the URL-host parser, returning (domain, tld)): providers in store order that have at
least one proof record, whose ip parses, and whose (domain, tld) differs from the prover's own
(the empty pair when the prover's ip does not parse). -/
def eligible (hostOf : String → Option (String × String)) (s : State) (proverIp : String) : List String :=
  let filt := (hostOf proverIp).getD ("", "")
  (s.providers.filter (fun kv =>
      (AMap.keys s.proofs).any (fun pk => pk.1 = kv.1) &&
      (match hostOf kv.2.ip with
       | some dt => decide (dt ≠ filt)
       | none => false))).map (·.1)

theorem mem_eligible {hostOf : String → Option (String × String)} {s : State} {proverIp a : String} :
    a ∈ eligible hostOf s proverIp ↔
      ∃ pv, (a, pv) ∈ s.providers ∧ (∃ pk ∈ AMap.keys s.proofs, pk.1 = a) ∧
        ∃ dt, hostOf pv.ip = some dt ∧ dt ≠ (hostOf proverIp).getD ("", "") := by
  simp only [eligible, List.mem_map, List.mem_filter, Bool.and_eq_true, List.any_eq_true, decide_eq_true_eq]
  constructor
  · rintro ⟨⟨a', pv⟩, ⟨hm, hrec, hhost⟩, rfl⟩
    refine ⟨pv, hm, hrec, ?_⟩
    simp only at hhost
    cases hh : hostOf pv.ip with
    | none => simp [hh] at hhost
    | some dt => simp only [hh, decide_eq_true_eq] at hhost; exact ⟨dt, rfl, hhost⟩
  · rintro ⟨pv, hm, hrec, dt, hh, hne⟩
    refine ⟨(a, pv), ⟨hm, hrec, ?_⟩, rfl⟩
    simp only [hh, decide_eq_true_eq]; exact hne

/-- **A form never names its own prover**: the prover's own provider record is read by the same
parser — either its ip does not parse (skipped) or it yields exactly the filter pair (skipped). -/
theorem C14_form_never_names_its_prover (hostOf : String → Option (String × String)) (s : State)
    (prover : String) (pv : Provider) (hwf : AMap.WF s.providers)
    (hp : AMap.get s.providers prover = some pv) :
    prover ∉ eligible hostOf s pv.ip := by
  intro h
  obtain ⟨pv', hm, -, dt, hh, hne⟩ := mem_eligible.mp h
  have := AMap.get_of_mem_wf hwf hm
  rw [hp] at this; simp only [Option.some.injEq] at this; subst this
  rw [hh] at hne; exact hne rfl

/-- every eligible provider is registered and holds at least one proof record -/
theorem C14_eligible_are_registered_and_active (hostOf : String → Option (String × String)) (s : State)
    (proverIp a : String) (h : a ∈ eligible hostOf s proverIp) :
    a ∈ AMap.keys s.providers ∧ (∃ pk p, AMap.get s.proofs pk = some p ∧ pk.1 = a) ∧
      ∃ pv dt, (a, pv) ∈ s.providers ∧ hostOf pv.ip = some dt ∧ dt ≠ (hostOf proverIp).getD ("", "") := by
  obtain ⟨pv, hm, ⟨pk, hpk, e⟩, dt, hh, hne⟩ := mem_eligible.mp h
  refine ⟨?_, ?_, pv, dt, hm, hh, hne⟩
  · simp only [AMap.keys, List.mem_map]; exact ⟨(a, pv), hm, rfl⟩
  · obtain ⟨p, hp⟩ := AMap.get_some_of_mem_keys hpk
    exact ⟨pk, p, hp, e⟩

/-- two providers behind the same (domain, tld) as the prover are never eligible either -/
theorem C14_same_host_never_eligible (hostOf : String → Option (String × String)) (s : State)
    (proverIp a : String) (pv : Provider) (hwf : AMap.WF s.providers)
    (hp : AMap.get s.providers a = some pv) (hsame : hostOf pv.ip = hostOf proverIp) :
    a ∉ eligible hostOf s proverIp := by
  intro h
  obtain ⟨pv', hm, -, dt, hh, hne⟩ := mem_eligible.mp h
  have := AMap.get_of_mem_wf hwf hm
  rw [hp] at this; simp only [Option.some.injEq] at this; subst this
  rw [← hsame, hh] at hne; exact hne rfl

/-- the eligible list has no duplicates when the provider store is well-formed -/
theorem C14_eligible_nodup (hostOf : String → Option (String × String)) (s : State) (proverIp : String)
    (hwf : AMap.WF s.providers) : (eligible hostOf s proverIp).Nodup := by
  unfold eligible
  exact List.Nodup.sublist (List.Sublist.map _ List.filter_sublist) hwf


/-! ### 2. The effect needs a quorum of distinct named providers -/

/-- at least `n` distinct providers named on the form are complete in `atts` -/
def QuorumOfDistinct (atts : List (String × Bool)) (n : Int) : Prop :=
  ∃ L : List String, L.Nodup ∧ (∀ a ∈ L, (a, true) ∈ atts) ∧ n ≤ (L.length : Int)

/-- with distinct names, the handler's count *is* the number of distinct complete providers -/
theorem quorum_of_count {atts : List (String × Bool)} {n : Int} (hnd : (atts.map (·.1)).Nodup)
    (h : n ≤ completeCount atts) : QuorumOfDistinct atts n :=
  ⟨completeNames atts, completeNames_nodup hnd, fun _ ha => mem_completeNames.mp ha,
    by rw [completeNames_length]; exact h⟩

theorem length_le_of_nodup_subset {α : Type} [DecidableEq α] :
    ∀ (L M : List α), L.Nodup → (∀ a ∈ L, a ∈ M) → L.length ≤ M.length
  | [], _, _, _ => Nat.zero_le _
  | a :: t, M, hnd, hsub => by
    have ha : a ∈ M := hsub a (by simp)
    simp only [List.nodup_cons] at hnd
    have ih := length_le_of_nodup_subset t (M.erase a) hnd.2 (by
      intro b hb
      have hne : b ≠ a := fun e => hnd.1 (e ▸ hb)
      exact (List.mem_erase_of_ne hne).mpr (hsub b (List.mem_cons_of_mem _ hb)))
    rw [List.length_erase_of_mem ha] at ih
    have hpos : 0 < M.length := List.length_pos_of_mem ha
    simp only [List.length_cons]; omega

/-- …and conversely a quorum of distinct complete names forces the count (no Nodup needed) -/
theorem count_of_quorum {atts : List (String × Bool)} {n : Int} (h : QuorumOfDistinct atts n) :
    n ≤ completeCount atts := by
  obtain ⟨L, hnd, hall, hlen⟩ := h
  have := length_le_of_nodup_subset L (completeNames atts) hnd
    (fun a ha => mem_completeNames.mpr (hall a ha))
  rw [← completeNames_length]; omega

/-- **Attest acts only on a quorum.**  If an `attest` message changed any proof record (in
particular refreshed a `lastProven`) or made the form disappear, then the form existed, the signer
is named on it, and after its signature at least `attestMinToPass` entries are complete — which,
the names on a form being distinct, means at least that many *distinct named providers*. -/
theorem C14_effect_requires_quorum (s : State) (h : Int) (c prover m o : String) (st : Int)
    (heff : (attest s h c prover m o st).proofs ≠ s.proofs ∨
      ((AMap.get s.attests (prover, (m, o, st))).isSome = true ∧
        AMap.get (attest s h c prover m o st).attests (prover, (m, o, st)) = none)) :
    ∃ f, AMap.get s.attests (prover, (m, o, st)) = some f ∧
      (∃ p ∈ f.attestations, p.1 = c) ∧
      s.params.attestMinToPass ≤ completeCount (signed f.attestations c) ∧
      ((f.attestations.map (·.1)).Nodup →
        QuorumOfDistinct (signed f.attestations c) s.params.attestMinToPass) := by
  rcases attest_cases s h c prover m o st with ⟨e, -⟩ | ⟨form, hg, hl, hq, e⟩ | ⟨form, f, p, hg, hl, hq, -, -, -, e⟩
  · rw [e] at heff
    rcases heff with h1 | ⟨h1, h2⟩
    · exact absurd rfl h1
    · rw [h2] at h1; simp at h1
  · rw [e] at heff
    rcases heff with h1 | ⟨h1, h2⟩
    · exact absurd rfl h1
    · simp only [AMap.get_set_self] at h2; simp at h2
  · refine ⟨form, hg, (any_named _ _).mp hl, by omega, ?_⟩
    intro hnd
    exact quorum_of_count (by rw [signed_names]; exact hnd) (by omega)

/-- the exact effect when the quorum is reached: only the record of the form's prover for that
file changes, and only in `lastProven` -/
theorem C14_attest_effect_is_only_lastProven (s : State) (h : Int) (c prover m o : String) (st : Int)
    (pk : PKey) : 
    AMap.get (attest s h c prover m o st).proofs pk = AMap.get s.proofs pk ∨
    ∃ p, AMap.get s.proofs pk = some p ∧
      AMap.get (attest s h c prover m o st).proofs pk = some { p with lastProven := h } ∧
      ∃ form f, AMap.get s.attests (prover, (m, o, st)) = some form ∧
        AMap.get s.files (form.merkle, form.owner, form.start) = some f ∧ pk = (form.prover, f.key) := by
  rcases attest_cases s h c prover m o st with ⟨e, -⟩ | ⟨form, hg, hl, hq, e⟩ | ⟨form, f, p, hg, hl, hq, hf, hm, hp, e⟩
  · left; rw [e]
  · left; rw [e]
  · rw [e]
    by_cases hk : (form.prover, f.key) = pk
    · right; subst hk
      exact ⟨p, hp, AMap.get_set_self _ _ _, form, f, hg, hf, rfl⟩
    · left; exact AMap.get_set_other _ _ _ _ hk

/-- **Only the signer's own entries flip.**  Across one `attest` message signed by `c`, on every
form that survives: names and order are unchanged, complete entries stay complete, and an entry
that turns from incomplete to complete is named `c` and sits on the form the message addresses. -/
theorem C14_only_own_entry_flips (s : State) (h : Int) (c prover m o : String) (st : Int)
    (key : PKey) (f f' : Form) (hf : AMap.get s.attests key = some f)
    (hf' : AMap.get (attest s h c prover m o st).attests key = some f') :
    f'.attestations.map (·.1) = f.attestations.map (·.1) ∧
    (f'.prover, f'.merkle, f'.owner, f'.start) = (f.prover, f.merkle, f.owner, f.start) ∧
    (key ≠ (prover, (m, o, st)) → f' = f) ∧
    ∀ (i : Nat) (hi : i < f.attestations.length) (hi' : i < f'.attestations.length),
      f'.attestations[i].1 = f.attestations[i].1 ∧
      (f.attestations[i].2 = true → f'.attestations[i].2 = true) ∧
      (f.attestations[i].2 = false → f'.attestations[i].2 = true →
        f.attestations[i].1 = c ∧ key = (prover, (m, o, st))) := by
  have same : ∀ g : Form, g = f → g.attestations.map (·.1) = f.attestations.map (·.1) ∧
      (g.prover, g.merkle, g.owner, g.start) = (f.prover, f.merkle, f.owner, f.start) ∧
      (key ≠ (prover, (m, o, st)) → g = f) ∧
      ∀ (i : Nat) (hi : i < f.attestations.length) (hi' : i < g.attestations.length),
        g.attestations[i].1 = f.attestations[i].1 ∧
        (f.attestations[i].2 = true → g.attestations[i].2 = true) ∧
        (f.attestations[i].2 = false → g.attestations[i].2 = true →
          f.attestations[i].1 = c ∧ key = (prover, (m, o, st))) := by
    intro g e; subst e
    refine ⟨rfl, rfl, fun _ => rfl, ?_⟩
    intro i hi _
    refine ⟨rfl, fun x => x, ?_⟩
    intro h1 h2; rw [h1] at h2; simp at h2
  rcases attest_cases s h c prover m o st with ⟨e, -⟩ | ⟨form, hg, hl, hq, e⟩ | ⟨form, f0, p, hg, hl, hq, -, -, -, e⟩
  · rw [e, hf] at hf'; simp only [Option.some.injEq] at hf'; exact same f' hf'.symm
  · rw [e] at hf'
    simp only [AMap.get_set] at hf'
    split at hf'
    · rename_i hk
      subst hk
      rw [hg] at hf; simp only [Option.some.injEq] at hf hf'; subst hf; subst hf'
      refine ⟨signed_names _ _, rfl, fun hne => absurd rfl hne, ?_⟩
      intro i hi hi'
      simp only [signed_getElem form.attestations c i hi']
      by_cases hc : form.attestations[i].1 = c
      · simp only [hc, if_true]
        exact ⟨trivial, fun _ => trivial, fun _ _ => ⟨trivial, trivial⟩⟩
      · simp only [hc, if_false]
        refine ⟨trivial, fun x => x, ?_⟩
        intro h1 h2; rw [h1] at h2; simp at h2
    · rw [hf] at hf'; simp only [Option.some.injEq] at hf'; exact same f' hf'.symm
  · rw [e] at hf'
    simp only [AMap.get_erase] at hf'
    split at hf'
    · simp at hf'
    · rw [hf] at hf'; simp only [Option.some.injEq] at hf'; exact same f' hf'.symm


/-- a `report` succeeds only for a signer named on an existing form -/
theorem C14_report_success_requires_named (s s' : State) (c prover m o : String) (st : Int)
    (hrep : report s c prover m o st = some s') :
    ∃ f, AMap.get s.reports (prover, (m, o, st)) = some f ∧ ∃ p ∈ f.attestations, p.1 = c := by
  obtain ⟨form, hg, hl, -⟩ := report_cases hrep
  exact ⟨form, hg, (any_named _ _).mp hl⟩

/-- **Report acts only on a quorum.**  If a `report` message touched a file, a proof record (it
removes the prover from the file's list and erases its record) or consumed the form, then the form
existed, the signer is named on it, and after its signature at least `attestMinToPass` entries —
distinct named providers — are complete. -/
theorem C14_report_requires_quorum (s s' : State) (c prover m o : String) (st : Int)
    (hrep : report s c prover m o st = some s')
    (heff : s'.files ≠ s.files ∨ s'.files2 ≠ s.files2 ∨ s'.proofs ≠ s.proofs ∨
      AMap.get s'.reports (prover, (m, o, st)) = none) :
    ∃ f, AMap.get s.reports (prover, (m, o, st)) = some f ∧
      (∃ p ∈ f.attestations, p.1 = c) ∧
      s.params.attestMinToPass ≤ completeCount (signed f.attestations c) ∧
      ((f.attestations.map (·.1)).Nodup →
        QuorumOfDistinct (signed f.attestations c) s.params.attestMinToPass) := by
  obtain ⟨form, hg, hl, ⟨hq, e⟩ | ⟨hq, f, hf, e⟩⟩ := report_cases hrep
  · subst e
    rcases heff with h1 | h1 | h1 | h1
    · exact absurd rfl h1
    · exact absurd rfl h1
    · exact absurd rfl h1
    · simp only [AMap.get_set_self] at h1; simp at h1
  · refine ⟨form, hg, (any_named _ _).mp hl, by omega, ?_⟩
    intro hnd
    exact quorum_of_count (by rw [signed_names]; exact hnd) (by omega)

/-- what a report that reached the quorum does: the form is consumed, the prover leaves the list
of the addressed file and its record is erased; below the quorum only the form changes -/
theorem C14_report_effect (s s' : State) (c prover m o : String) (st : Int)
    (hrep : report s c prover m o st = some s') :
    (s'.files = s.files ∧ s'.files2 = s.files2 ∧ s'.proofs = s.proofs ∧
      ∃ form, AMap.get s.reports (prover, (m, o, st)) = some form ∧
        s'.reports = AMap.set s.reports (prover, (m, o, st)) { form with attestations := signed form.attestations c }) ∨
    (s'.reports = AMap.erase s.reports (prover, (m, o, st)) ∧
      ∃ f, AMap.get s.files (m, o, st) = some f ∧
        s' = (removeProver { s with reports := AMap.erase s.reports (prover, (m, o, st)) } f (prover, f.key)).1) := by
  obtain ⟨form, hg, hl, ⟨hq, e⟩ | ⟨hq, f, hf, e⟩⟩ := report_cases hrep
  · left; subst e; exact ⟨rfl, rfl, rfl, form, hg, rfl⟩
  · right; subst e
    exact ⟨(removeProver_reports _ f _).1, f, hf, rfl⟩

/-- only the signer's own entries flip on report forms too -/
theorem C14_report_only_own_entry_flips (s s' : State) (c prover m o : String) (st : Int)
    (hrep : report s c prover m o st = some s')
    (key : PKey) (f f' : Form) (hf : AMap.get s.reports key = some f)
    (hf' : AMap.get s'.reports key = some f') :
    f'.attestations.map (·.1) = f.attestations.map (·.1) ∧
    (f'.prover, f'.merkle, f'.owner, f'.start) = (f.prover, f.merkle, f.owner, f.start) ∧
    (key ≠ (prover, (m, o, st)) → f' = f) ∧
    ∀ (i : Nat) (hi : i < f.attestations.length) (hi' : i < f'.attestations.length),
      f'.attestations[i].1 = f.attestations[i].1 ∧
      (f.attestations[i].2 = true → f'.attestations[i].2 = true) ∧
      (f.attestations[i].2 = false → f'.attestations[i].2 = true →
        f.attestations[i].1 = c ∧ key = (prover, (m, o, st))) := by
  have same : ∀ g : Form, g = f → g.attestations.map (·.1) = f.attestations.map (·.1) ∧
      (g.prover, g.merkle, g.owner, g.start) = (f.prover, f.merkle, f.owner, f.start) ∧
      (key ≠ (prover, (m, o, st)) → g = f) ∧
      ∀ (i : Nat) (hi : i < f.attestations.length) (hi' : i < g.attestations.length),
        g.attestations[i].1 = f.attestations[i].1 ∧
        (f.attestations[i].2 = true → g.attestations[i].2 = true) ∧
        (f.attestations[i].2 = false → g.attestations[i].2 = true →
          f.attestations[i].1 = c ∧ key = (prover, (m, o, st))) := by
    intro g e; subst e
    refine ⟨rfl, rfl, fun _ => rfl, ?_⟩
    intro i hi _
    refine ⟨rfl, fun x => x, ?_⟩
    intro h1 h2; rw [h1] at h2; simp at h2
  obtain ⟨form, hg, hl, ⟨hq, e⟩ | ⟨hq, f0, hf0, e⟩⟩ := report_cases hrep
  · subst e
    simp only [AMap.get_set] at hf'
    split at hf'
    · rename_i hk
      subst hk
      rw [hg] at hf; simp only [Option.some.injEq] at hf hf'; subst hf; subst hf'
      refine ⟨signed_names _ _, rfl, fun hne => absurd rfl hne, ?_⟩
      intro i hi hi'
      simp only [signed_getElem form.attestations c i hi']
      by_cases hc : form.attestations[i].1 = c
      · simp only [hc, if_true]
        exact ⟨trivial, fun _ => trivial, fun _ _ => ⟨trivial, trivial⟩⟩
      · simp only [hc, if_false]
        refine ⟨trivial, fun x => x, ?_⟩
        intro h1 h2; rw [h1] at h2; simp at h2
    · rw [hf] at hf'; simp only [Option.some.injEq] at hf'; exact same f' hf'.symm
  · subst e
    rw [(removeProver_reports _ f0 _).1] at hf'
    simp only [AMap.get_erase] at hf'
    split at hf'
    · simp at hf'
    · rw [hf] at hf'; simp only [Option.some.injEq] at hf'; exact same f' hf'.symm

/-! ### 4. Repeating a signature changes nothing -/

/-- `attest` is idempotent in the signer: whatever the first signature did (nothing, marking the
entry, or consuming the form), the same signer signing again — at any later height — leaves the
state exactly as it was after the first. -/
theorem C14_repeated_signature_idempotent (s : State) (h h' : Int) (c prover m o : String) (st : Int) :
    attest (attest s h c prover m o st) h' c prover m o st = attest s h c prover m o st := by
  rcases attest_cases s h c prover m o st with
    ⟨e, hn | ⟨form, hg, hl | ⟨hq, hf | ⟨f, hf, hm | hp⟩⟩⟩⟩ | ⟨form, hg, hl, hq, e⟩ | ⟨form, f, p, hg, hl, hq, hf, hm, hp, e⟩
  · rw [e, attest_eq, hn]
  · rw [e, attest_eq, hg]; simp only [hl, Bool.false_eq_true, if_false]
  · rw [e, attest_eq, hg]; simp only [hq, hf, if_false]; split <;> rfl
  · rw [e, attest_eq, hg]; simp only [hq, hf, hm, if_false]; split <;> rfl
  · rw [e, attest_eq, hg]; simp only [hq, hf, hp, if_false]; split <;> (try split) <;> rfl
  · rw [e, attest_eq]
    simp only [AMap.get_set_self, any_signed, signed_signed, hl, hq, if_true, AMap.set_set]
  · rw [e, attest_eq]
    simp only [AMap.get_erase_self]

/-- in particular, below the quorum the count does not move when the same signer signs again -/
theorem C14_repeated_signature_count_unchanged (atts : List (String × Bool)) (c : String) :
    completeCount (signed (signed atts c) c) = completeCount (signed atts c) := by
  rw [signed_signed]

/-- a repeated report signature below the quorum (the form is still there) changes nothing -/
theorem C14_repeated_report_idempotent (s s1 : State) (c prover m o : String) (st : Int)
    (hrep : report s c prover m o st = some s1)
    (hkept : AMap.get s1.reports (prover, (m, o, st)) ≠ none) :
    report s1 c prover m o st = some s1 := by
  obtain ⟨form, hg, hl, ⟨hq, e⟩ | ⟨hq, f, hf, e⟩⟩ := report_cases hrep
  · subst e
    rw [report_eq]
    simp only [AMap.get_set_self, any_signed, signed_signed, hl, hq, if_true, AMap.set_set]
  · subst e
    rw [(removeProver_reports _ f _).1] at hkept
    simp only [AMap.get_erase_self] at hkept
    exact absurd rfl hkept

/-! ### 5. A consumed form is gone -/

/-- When the quorum is reached (and the file, the listing and the record exist) the prover's
`lastProven` is refreshed to the current height, no other record changes, the form is deleted —
and from then on nobody's signature for that (prover, file) has any effect. -/
theorem C14_consumed_form_gone (s : State) (h : Int) (c prover m o : String) (st : Int)
    (form : Form) (f : File) (p : Proof)
    (hg : AMap.get s.attests (prover, (m, o, st)) = some form)
    (hl : ∃ x ∈ form.attestations, x.1 = c)
    (hq : s.params.attestMinToPass ≤ completeCount (signed form.attestations c))
    (hf : AMap.get s.files (form.merkle, form.owner, form.start) = some f)
    (hm : (form.prover, f.key) ∈ f.proofs)
    (hp : AMap.get s.proofs (form.prover, f.key) = some p) :
    AMap.get (attest s h c prover m o st).attests (prover, (m, o, st)) = none ∧
    AMap.get (attest s h c prover m o st).proofs (form.prover, f.key) = some { p with lastProven := h } ∧
    (∀ k, k ≠ (form.prover, f.key) →
      AMap.get (attest s h c prover m o st).proofs k = AMap.get s.proofs k) ∧
    (attest s h c prover m o st).files = s.files ∧
    ∀ (h' : Int) (c' : String),
      attest (attest s h c prover m o st) h' c' prover m o st = attest s h c prover m o st := by
  have hl' := (any_named _ _).mpr hl
  have hq' : ¬ completeCount (signed form.attestations c) < s.params.attestMinToPass := by omega
  have e : attest s h c prover m o st =
      { s with proofs := AMap.set s.proofs (form.prover, f.key) { p with lastProven := h },
               attests := AMap.erase s.attests (prover, (m, o, st)) } := by
    rw [attest_eq, hg]; simp only [hl', hq', hf, hm, hp, if_true, if_false]
  rw [e]
  refine ⟨AMap.get_erase_self _ _, AMap.get_set_self _ _ _, ?_, rfl, ?_⟩
  · intro k hk; exact AMap.get_set_other _ _ _ _ (fun e => hk e.symm)
  · intro h' c'
    rw [attest_eq]; simp only [AMap.get_erase_self]

/-- the same for reports: after the quorum the form is gone and every further report on it fails -/
theorem C14_consumed_report_gone (s s' : State) (c prover m o : String) (st : Int)
    (hrep : report s c prover m o st = some s')
    (form : Form) (hg : AMap.get s.reports (prover, (m, o, st)) = some form)
    (hq : s.params.attestMinToPass ≤ completeCount (signed form.attestations c)) :
    AMap.get s'.reports (prover, (m, o, st)) = none ∧
    ∀ c', report s' c' prover m o st = none := by
  obtain ⟨form', hg', hl, ⟨hq', e⟩ | ⟨hq', f, hf, e⟩⟩ := report_cases hrep
  · rw [hg] at hg'; simp only [Option.some.injEq] at hg'; subst hg'; omega
  · subst e
    have : AMap.get (removeProver { s with reports := AMap.erase s.reports (prover, (m, o, st)) } f (prover, f.key)).1.reports
        (prover, (m, o, st)) = none := by
      rw [(removeProver_reports _ f _).1]; exact AMap.get_erase_self _ _
    refine ⟨this, ?_⟩
    intro c'
    rw [report_eq, this]


/-! ### The form invariant along histories -/

/-- the names on every open form are pairwise distinct -/
structure FormsInv (s : State) : Prop where
  attests : ∀ key f, AMap.get s.attests key = some f → (f.attestations.map (·.1)).Nodup
  reports : ∀ key f, AMap.get s.reports key = some f → (f.attestations.map (·.1)).Nodup

/-- the oracle input of a form request (the chain's shuffled selection) has no duplicates -/
def Op.chosenNodup : Op → Prop
  | .requestAttest _ _ _ _ _ ch => ch.Nodup
  | .requestReport _ _ _ _ _ _ ch => ch.Nodup
  | _ => True

def Op.isFormOp : Op → Bool
  | .requestAttest .. | .attest .. | .requestReport .. | .report .. => true
  | _ => false

/-- every other message leaves both form stores (and the parameters) alone -/
theorem sameForms_step_other {s s' : State} {h now : Int} {op : Op} (hop : op.isFormOp = false)
    (hstep : step s h now op = some s') : SameForms s s' := by
  cases op with
  | postFile c m fs mp ex pt note nv jp gid gacc => exact sameForms_postFile hstep
  | deleteFile c m st =>
    simp only [step, deleteFile, Option.some.injEq] at hstep; subst hstep
    exact sameForms_removeFile _ _
  | buyStorage c fa dd b dn ref jp gid gacc => exact (sameIdx_buyStorage hstep).forms
  | initProvider c ip kb ts iv => exact (sameIdx_initProvider hstep).forms
  | shutdownProvider c => exact (sameIdx_shutdownProvider hstep).forms
  | setProviderIP c ip iv =>
    simp only [step] at hstep
    split at hstep
    · exact (sameIdx_updProvider hstep).forms
    · simp at hstep
  | setProviderKeybase c kb => exact (sameIdx_updProvider hstep).forms
  | setProviderTotalSpace c sp => exact (sameIdx_updProvider hstep).forms
  | addClaimer c cl => exact (sameIdx_updProvider hstep).forms
  | removeClaimer c cl => exact (sameIdx_updProvider hstep).forms
  | postProof c m o st tp v nc =>
    simp only [step, Option.some.injEq] at hstep; subst hstep
    exact sameForms_postProof _ _ _ _ _ _ _ _ _
  | requestAttest c m o st ec ch => simp [Op.isFormOp] at hop
  | attest c p m o st => simp [Op.isFormOp] at hop
  | requestReport c p m o st ec ch => simp [Op.isFormOp] at hop
  | report c p m o st => simp [Op.isFormOp] at hop

theorem FormsInv.ofSame {s s' : State} (h : FormsInv s) (e : SameForms s s') : FormsInv s' :=
  ⟨by rw [e.attests]; exact h.attests, by rw [e.reports]; exact h.reports⟩

theorem attest_reports (s : State) (h : Int) (c pr m o : String) (st : Int) :
    (attest s h c pr m o st).reports = s.reports ∧ (attest s h c pr m o st).params = s.params := by
  rcases attest_cases s h c pr m o st with ⟨e, -⟩ | ⟨form, -, -, -, e⟩ | ⟨form, f, p, -, -, -, -, -, -, e⟩ <;>
    rw [e] <;> exact ⟨rfl, rfl⟩

theorem report_attests {s s' : State} {c pr m o : String} {st : Int}
    (hrep : report s c pr m o st = some s') : s'.attests = s.attests ∧ s'.params = s.params := by
  obtain ⟨form, -, -, ⟨-, e⟩ | ⟨-, f, -, e⟩⟩ := report_cases hrep
  · subst e; exact ⟨rfl, rfl⟩
  · subst e; exact ⟨(removeProver_reports _ f _).2.1, (removeProver_reports _ f _).2.2⟩

/-- signing keeps the names distinct; consuming a form keeps the others -/
theorem C14_FormsInv_step (s s' : State) (h now : Int) (op : Op)
    (hstep : step s h now op = some s') (hch : op.chosenNodup) (hinv : FormsInv s) : FormsInv s' := by
  cases hop : op.isFormOp with
  | false => exact hinv.ofSame (sameForms_step_other hop hstep)
  | true =>
    cases op with
    | requestAttest c m o st ec ch =>
      simp only [step, Option.some.injEq] at hstep; subst hstep
      split
      · rename_i forms hreq
        exact ⟨C14_form_members_distinct _ _ _ _ _ _ _ _ _ hch hreq hinv.attests, hinv.reports⟩
      · exact hinv
    | requestReport c p m o st ec ch =>
      simp only [step, Option.some.injEq] at hstep; subst hstep
      split
      · rename_i forms hreq
        exact ⟨hinv.attests, C14_form_members_distinct _ _ _ _ _ _ _ _ _ hch hreq hinv.reports⟩
      · exact hinv
    | attest c p m o st =>
      simp only [step, Option.some.injEq] at hstep; subst hstep
      refine ⟨?_, by rw [(attest_reports _ _ _ _ _ _ _).1]; exact hinv.reports⟩
      intro key f' hf'
      rcases attest_cases s h c p m o st with ⟨e, -⟩ | ⟨form, hg, -, -, e⟩ | ⟨form, f, pr, hg, -, -, -, -, -, e⟩
      · rw [e] at hf'; exact hinv.attests key f' hf'
      · rw [e] at hf'
        simp only [AMap.get_set] at hf'
        split at hf'
        · simp only [Option.some.injEq] at hf'; subst hf'
          show ((signed form.attestations c).map (·.1)).Nodup
          rw [signed_names]; exact hinv.attests _ _ hg
        · exact hinv.attests key f' hf'
      · rw [e] at hf'
        simp only [AMap.get_erase] at hf'
        split at hf'
        · simp at hf'
        · exact hinv.attests key f' hf'
    | report c p m o st =>
      simp only [step] at hstep
      refine ⟨by rw [(report_attests hstep).1]; exact hinv.attests, ?_⟩
      intro key f' hf'
      obtain ⟨form, hg, -, ⟨-, e⟩ | ⟨-, f, -, e⟩⟩ := report_cases hstep
      · subst e
        simp only [AMap.get_set] at hf'
        split at hf'
        · simp only [Option.some.injEq] at hf'; subst hf'
          show ((signed form.attestations c).map (·.1)).Nodup
          rw [signed_names]; exact hinv.reports _ _ hg
        · exact hinv.reports key f' hf'
      · subst e
        rw [(removeProver_reports _ f _).1] at hf'
        simp only [AMap.get_erase] at hf'
        split at hf'
        · simp at hf'
        · exact hinv.reports key f' hf'
    | _ => simp [Op.isFormOp] at hop

def Ev.chosenNodup : Ev → Prop
  | .msg _ _ op => op.chosenNodup
  | .block _ _ => True

theorem C14_FormsInv_event (s : State) (ev : Ev) (hch : ev.chosenNodup) (hinv : FormsInv s) :
    FormsInv (applyEv s ev) := by
  cases ev with
  | msg h now op =>
    simp only [applyEv]
    cases hs : step s h now op with
    | none => exact hinv
    | some s' => exact C14_FormsInv_step s s' h now op hs hch hinv
  | block h now =>
    simp only [applyEv]
    cases hs : beginBlock s h now with
    | error e => exact hinv
    | ok s' => exact hinv.ofSame (sameForms_beginBlock hs)

/-- **Along every history** (messages and reward blocks) starting without forms, as long as the
selections handed to the form requests are duplicate-free, every open form has distinct names —
so the handler's count is the number of distinct named providers that signed. -/
theorem C14_FormsInv_along_histories (evs : List Ev) (s0 : State)
    (h0 : s0.attests = [] ∧ s0.reports = []) (hch : ∀ ev ∈ evs, ev.chosenNodup) :
    FormsInv (runEvs s0 evs) := by
  have : ∀ (evs : List Ev) (s : State), (∀ ev ∈ evs, ev.chosenNodup) → FormsInv s → FormsInv (runEvs s evs) := by
    intro evs
    induction evs with
    | nil => intro s _ h; exact h
    | cons ev t ih =>
      intro s hc h
      exact ih _ (fun e he => hc e (List.mem_cons_of_mem _ he)) (C14_FormsInv_event s ev (hc ev (by simp)) h)
  apply this evs s0 hch
  constructor
  · intro key f hf; rw [h0.1] at hf; simp at hf
  · intro key f hf; rw [h0.2] at hf; simp at hf

/-- the `eligible` list is duplicate-free, so any prefix of any permutation of it (what the chain
hands to `requestForm`) satisfies `chosenNodup` -/
theorem C14_selection_from_eligible_nodup (hostOf : String → Option (String × String)) (s : State)
    (proverIp : String) (hwf : AMap.WF s.providers) (chosen shuffled : List String)
    (hperm : shuffled.Perm (eligible hostOf s proverIp)) (hpre : chosen <+: shuffled) : chosen.Nodup :=
  ((hperm.nodup_iff).mpr (C14_eligible_nodup hostOf s proverIp hwf)).sublist hpre.sublist


/-! ### Every complete entry was set by its own provider's signature (history form) -/

theorem mem_signed_true {atts : List (String × Bool)} {c a : String}
    (h : (a, true) ∈ signed atts c) : (a, true) ∈ atts ∨ a = c := by
  simp only [signed, List.mem_map] at h
  obtain ⟨p, hp, e⟩ := h
  by_cases hc : p.1 = c
  · rw [if_pos hc] at e
    right; rw [← hc]; exact (congrArg Prod.fst e).symm
  · rw [if_neg hc] at e
    left; rw [← e]; exact hp

/-- the history contains an `attest` message signed by `a` for the form key -/
def SignedAttest (evs : List Ev) (a : String) (key : PKey) : Prop :=
  ∃ h now, Ev.msg h now (.attest a key.1 key.2.1 key.2.2.1 key.2.2.2) ∈ evs

/-- the history contains a `report` message signed by `a` for the form key -/
def SignedReport (evs : List Ev) (a : String) (key : PKey) : Prop :=
  ∃ h now, Ev.msg h now (.report a key.1 key.2.1 key.2.2.1 key.2.2.2) ∈ evs

/-- every complete entry of every open form is backed by a signature message of that provider -/
structure Provenance (evs : List Ev) (s : State) : Prop where
  attests : ∀ key f a, AMap.get s.attests key = some f → (a, true) ∈ f.attestations →
    SignedAttest evs a key
  reports : ∀ key f a, AMap.get s.reports key = some f → (a, true) ∈ f.attestations →
    SignedReport evs a key

theorem Provenance.mono {evs evs' : List Ev} {s : State} (h : Provenance evs s)
    (hsub : ∀ e ∈ evs, e ∈ evs') : Provenance evs' s :=
  ⟨fun key f a hf ha => by
      obtain ⟨h1, n1, hm⟩ := h.attests key f a hf ha; exact ⟨h1, n1, hsub _ hm⟩,
   fun key f a hf ha => by
      obtain ⟨h1, n1, hm⟩ := h.reports key f a hf ha; exact ⟨h1, n1, hsub _ hm⟩⟩

theorem Provenance.ofSame {evs : List Ev} {s s' : State} (h : Provenance evs s) (e : SameForms s s') :
    Provenance evs s' :=
  ⟨by rw [e.attests]; exact h.attests, by rw [e.reports]; exact h.reports⟩

theorem provenance_requestForm {forms forms' : AMap PKey Form} {s : State} {prover m o : String}
    {st ec : Int} {ch : List String} (hreq : requestForm forms s prover m o st ec ch = some forms')
    {P : String → PKey → Prop}
    (h : ∀ key f a, AMap.get forms key = some f → (a, true) ∈ f.attestations → P a key) :
    ∀ key f a, AMap.get forms' key = some f → (a, true) ∈ f.attestations → P a key := by
  obtain ⟨f0, -, -, -, -, -, -, ⟨form, hg, -, -, -, hfalse, -⟩, hother⟩ :=
    C14_form_members forms forms' s prover m o st ec ch hreq
  intro key f a hf ha
  by_cases hk : key = (prover, f0.key)
  · subst hk; rw [hg] at hf; simp only [Option.some.injEq] at hf; subst hf
    have := hfalse _ ha; simp at this
  · rw [hother key hk] at hf; exact h key f a hf ha

theorem provenance_event (pre : List Ev) (s : State) (ev : Ev) (hp : Provenance pre s) :
    Provenance (pre ++ [ev]) (applyEv s ev) := by
  have hp' : Provenance (pre ++ [ev]) s := hp.mono (fun e he => List.mem_append_left _ he)
  cases ev with
  | block h now =>
    simp only [applyEv]
    cases hs : beginBlock s h now with
    | error e => exact hp'
    | ok s' => exact hp'.ofSame (sameForms_beginBlock hs)
  | msg h now op =>
    simp only [applyEv]
    cases hs : step s h now op with
    | none => exact hp'
    | some s' =>
      simp only [Option.getD_some]
      cases hop : op.isFormOp with
      | false => exact hp'.ofSame (sameForms_step_other hop hs)
      | true =>
        cases op with
        | requestAttest c m o st ec ch =>
          simp only [step, Option.some.injEq] at hs; subst hs
          split
          · rename_i forms hreq
            exact ⟨provenance_requestForm hreq hp'.attests, hp'.reports⟩
          · exact hp'
        | requestReport c p m o st ec ch =>
          simp only [step, Option.some.injEq] at hs; subst hs
          split
          · rename_i forms hreq
            exact ⟨hp'.attests, provenance_requestForm hreq hp'.reports⟩
          · exact hp'
        | attest c p m o st =>
          simp only [step, Option.some.injEq] at hs; subst hs
          refine ⟨?_, by rw [(attest_reports _ _ _ _ _ _ _).1]; exact hp'.reports⟩
          intro key f' a hf' ha
          rcases attest_cases s h c p m o st with ⟨e, -⟩ | ⟨form, hg, -, -, e⟩ | ⟨form, f, pr, hg, -, -, -, -, -, e⟩
          · rw [e] at hf'; exact hp'.attests key f' a hf' ha
          · rw [e] at hf'
            simp only [AMap.get_set] at hf'
            split at hf'
            · rename_i hk
              simp only [Option.some.injEq] at hf'; subst hf'; subst hk
              rcases mem_signed_true ha with h1 | h1
              · exact hp'.attests _ _ a hg h1
              · subst h1; exact ⟨h, now, by simp⟩
            · exact hp'.attests key f' a hf' ha
          · rw [e] at hf'
            simp only [AMap.get_erase] at hf'
            split at hf'
            · simp at hf'
            · exact hp'.attests key f' a hf' ha
        | report c p m o st =>
          simp only [step] at hs
          refine ⟨by rw [(report_attests hs).1]; exact hp'.attests, ?_⟩
          intro key f' a hf' ha
          obtain ⟨form, hg, -, ⟨-, e⟩ | ⟨-, f, -, e⟩⟩ := report_cases hs
          · subst e
            simp only [AMap.get_set] at hf'
            split at hf'
            · rename_i hk
              simp only [Option.some.injEq] at hf'; subst hf'; subst hk
              rcases mem_signed_true ha with h1 | h1
              · exact hp'.reports _ _ a hg h1
              · subst h1; exact ⟨h, now, by simp⟩
            · exact hp'.reports key f' a hf' ha
          · subst e
            rw [(removeProver_reports _ f _).1] at hf'
            simp only [AMap.get_erase] at hf'
            split at hf'
            · simp at hf'
            · exact hp'.reports key f' a hf' ha
        | _ => simp [Op.isFormOp] at hop

/-- **Every complete entry was set by its own provider's signature.**  Along any history of
messages and reward blocks from a state without forms: whenever an open attestation form shows
provider `a` as complete, the history contains an `attest` message *signed by `a`* for exactly
that (prover, file); likewise for report forms.  Nobody can complete somebody else's entry, and
no block-time code path completes any. -/
theorem C14_complete_entries_were_signed (evs : List Ev) (s0 : State)
    (h0 : s0.attests = [] ∧ s0.reports = []) :
    (∀ key f a, AMap.get (runEvs s0 evs).attests key = some f → (a, true) ∈ f.attestations →
      SignedAttest evs a key) ∧
    (∀ key f a, AMap.get (runEvs s0 evs).reports key = some f → (a, true) ∈ f.attestations →
      SignedReport evs a key) := by
  have : ∀ (evs pre : List Ev) (s : State), Provenance pre s → Provenance (pre ++ evs) (runEvs s evs) := by
    intro evs
    induction evs with
    | nil => intro pre s h; simpa [runEvs] using h
    | cons ev t ih =>
      intro pre s h
      have := ih (pre ++ [ev]) _ (provenance_event pre s ev h)
      simpa [runEvs, List.append_assoc] using this
  have h1 := this evs [] s0
    ⟨fun key f a hf _ => by rw [h0.1] at hf; simp at hf, fun key f a hf _ => by rw [h0.2] at hf; simp at hf⟩
  simp only [List.nil_append] at h1
  exact ⟨h1.attests, h1.reports⟩


/-! ### Forms sit under the key they describe, so a signature only ever touches the addressed prover -/

/-- every open form describes the (prover, file) it is stored under -/
structure FormsKeyed (s : State) : Prop where
  attests : ∀ key f, AMap.get s.attests key = some f →
    f.prover = key.1 ∧ (f.merkle, f.owner, f.start) = key.2
  reports : ∀ key f, AMap.get s.reports key = some f →
    f.prover = key.1 ∧ (f.merkle, f.owner, f.start) = key.2

theorem FormsKeyed.ofSame {s s' : State} (h : FormsKeyed s) (e : SameForms s s') : FormsKeyed s' :=
  ⟨by rw [e.attests]; exact h.attests, by rw [e.reports]; exact h.reports⟩

theorem keyed_requestForm {forms forms' : AMap PKey Form} {s : State} {prover m o : String}
    {st ec : Int} {ch : List String} (hinv : IndexInv s)
    (hreq : requestForm forms s prover m o st ec ch = some forms')
    (h : ∀ key f, AMap.get forms key = some f → f.prover = key.1 ∧ (f.merkle, f.owner, f.start) = key.2) :
    ∀ key f, AMap.get forms' key = some f → f.prover = key.1 ∧ (f.merkle, f.owner, f.start) = key.2 := by
  obtain ⟨f0, hf0, -, -, -, -, -, ⟨form, hg, hpr, htr, -, -, -⟩, hother⟩ :=
    C14_form_members forms forms' s prover m o st ec ch hreq
  have hk0 : f0.key = (m, o, st) := (hinv.ok _ _ hf0).1
  intro key f hf
  by_cases hk : key = (prover, f0.key)
  · subst hk; rw [hg] at hf; simp only [Option.some.injEq] at hf; subst hf
    exact ⟨hpr, by rw [htr, hk0]⟩
  · rw [hother key hk] at hf; exact h key f hf

theorem C14_FormsKeyed_step (s s' : State) (h now : Int) (op : Op)
    (hstep : step s h now op = some s') (hidx : IndexInv s) (hinv : FormsKeyed s) : FormsKeyed s' := by
  cases hop : op.isFormOp with
  | false => exact hinv.ofSame (sameForms_step_other hop hstep)
  | true =>
    cases op with
    | requestAttest c m o st ec ch =>
      simp only [step, Option.some.injEq] at hstep; subst hstep
      split
      · rename_i forms hreq
        exact ⟨keyed_requestForm hidx hreq hinv.attests, hinv.reports⟩
      · exact hinv
    | requestReport c p m o st ec ch =>
      simp only [step, Option.some.injEq] at hstep; subst hstep
      split
      · rename_i forms hreq
        exact ⟨hinv.attests, keyed_requestForm hidx hreq hinv.reports⟩
      · exact hinv
    | attest c p m o st =>
      simp only [step, Option.some.injEq] at hstep; subst hstep
      refine ⟨?_, by rw [(attest_reports _ _ _ _ _ _ _).1]; exact hinv.reports⟩
      intro key f' hf'
      rcases attest_cases s h c p m o st with ⟨e, -⟩ | ⟨form, hg, -, -, e⟩ | ⟨form, f, pr, hg, -, -, -, -, -, e⟩
      · rw [e] at hf'; exact hinv.attests key f' hf'
      · rw [e] at hf'
        simp only [AMap.get_set] at hf'
        split at hf'
        · rename_i hk
          simp only [Option.some.injEq] at hf'; subst hf'; subst hk
          exact hinv.attests _ form hg
        · exact hinv.attests key f' hf'
      · rw [e] at hf'
        simp only [AMap.get_erase] at hf'
        split at hf'
        · simp at hf'
        · exact hinv.attests key f' hf'
    | report c p m o st =>
      simp only [step] at hstep
      refine ⟨by rw [(report_attests hstep).1]; exact hinv.attests, ?_⟩
      intro key f' hf'
      obtain ⟨form, hg, -, ⟨-, e⟩ | ⟨-, f, -, e⟩⟩ := report_cases hstep
      · subst e
        simp only [AMap.get_set] at hf'
        split at hf'
        · rename_i hk
          simp only [Option.some.injEq] at hf'; subst hf'; subst hk
          exact hinv.reports _ form hg
        · exact hinv.reports key f' hf'
      · subst e
        rw [(removeProver_reports _ f _).1] at hf'
        simp only [AMap.get_erase] at hf'
        split at hf'
        · simp at hf'
        · exact hinv.reports key f' hf'
    | _ => simp [Op.isFormOp] at hop

/-- along every history from the empty state both the index invariant and "forms sit under their
own key" hold -/
theorem C14_FormsKeyed_along_histories (evs : List Ev) (s0 : State) (hidx : emptyIdx s0)
    (h0 : s0.attests = [] ∧ s0.reports = []) :
    IndexInv (runEvs s0 evs) ∧ FormsKeyed (runEvs s0 evs) := by
  have : ∀ (evs : List Ev) (s : State), IndexInv s ∧ FormsKeyed s →
      IndexInv (runEvs s evs) ∧ FormsKeyed (runEvs s evs) := by
    intro evs
    induction evs with
    | nil => intro s h; exact h
    | cons ev t ih =>
      intro s ⟨hi, hk⟩
      apply ih
      refine ⟨C17_event_preserves s ev hi, ?_⟩
      cases ev with
      | msg h now op =>
        simp only [applyEv]
        cases hs : step s h now op with
        | none => exact hk
        | some s' => exact C14_FormsKeyed_step s s' h now op hs hi hk
      | block h now =>
        simp only [applyEv]
        cases hs : beginBlock s h now with
        | error e => exact hk
        | ok s' => exact hk.ofSame (sameForms_beginBlock hs)
  apply this evs s0
  refine ⟨indexInv_empty hidx, ?_, ?_⟩
  · intro key f hf; rw [h0.1] at hf; simp at hf
  · intro key f hf; rw [h0.2] at hf; simp at hf

/-- **An attestation touches only the prover it addresses.**  On a reachable state (index
invariant + forms under their own key) an `attest` message for `(prover, merkle, owner, start)`
leaves every proof record other than that prover's record for that file unchanged; and if that
record changes, only its `lastProven` does, the quorum having been reached
(`C14_effect_requires_quorum`). -/
theorem C14_attest_touches_only_addressed_prover (s : State) (hidx : IndexInv s) (hk : FormsKeyed s)
    (h : Int) (c prover m o : String) (st : Int) (pk : PKey) (hne : pk ≠ (prover, (m, o, st))) :
    AMap.get (attest s h c prover m o st).proofs pk = AMap.get s.proofs pk := by
  rcases C14_attest_effect_is_only_lastProven s h c prover m o st pk with e | ⟨p, -, -, form, f, hg, hf, e⟩
  · exact e
  · exfalso
    obtain ⟨e1, e2⟩ := hk.attests _ _ hg
    have hkf : f.key = (form.merkle, form.owner, form.start) := (hidx.ok _ _ hf).1
    apply hne
    rw [e, e1, hkf, e2]

/-- the same for reports: only the addressed prover can be removed, and only from the addressed file -/
theorem C14_report_touches_only_addressed_prover (s s' : State) (hidx : IndexInv s)
    (c prover m o : String) (st : Int) (hrep : report s c prover m o st = some s') :
    (∀ k, k ≠ (m, o, st) → AMap.get s'.files k = AMap.get s.files k) ∧
    (∀ pk, pk ≠ (prover, (m, o, st)) → AMap.get s'.proofs pk = AMap.get s.proofs pk) ∧
    (∀ f', AMap.get s'.files (m, o, st) = some f' → ∃ f, AMap.get s.files (m, o, st) = some f ∧
        ∀ x ∈ f.proofs, x ≠ (prover, (m, o, st)) → x ∈ f'.proofs) := by
  obtain ⟨form, hg, -, ⟨-, e⟩ | ⟨-, f, hf, e⟩⟩ := report_cases hrep
  · subst e
    exact ⟨fun _ _ => rfl, fun _ _ => rfl, fun f' hf' => ⟨f', hf', fun x hx _ => hx⟩⟩
  · have hkf : f.key = (m, o, st) := (hidx.ok _ _ hf).1
    subst e
    unfold removeProver
    split
    · refine ⟨?_, ?_, ?_⟩
      · intro k hk'
        simp only [setFile, AMap.get_set]
        rw [if_neg]
        show ¬ f.key = k
        rw [hkf]; exact fun e => hk' e.symm
      · intro pk hpk
        apply AMap.get_erase_other
        rw [hkf]; exact fun e => hpk e.symm
      · intro f' hf'
        refine ⟨f, hf, ?_⟩
        intro x hx hxne
        simp only [setFile, AMap.get_set] at hf'
        rw [if_pos (show File.key { f with proofs := f.proofs.filter (· ≠ (prover, f.key)) } = (m, o, st) from hkf)] at hf'
        simp only [Option.some.injEq] at hf'; subst hf'
        simp only [List.mem_filter, decide_eq_true_eq]
        exact ⟨hx, by rw [hkf]; exact hxne⟩
    · exact ⟨fun _ _ => rfl, fun _ _ => rfl, fun f' hf' => ⟨f', hf', fun x hx _ => hx⟩⟩

/-- why distinct names matter: with a duplicated name a single signer would fill two entries, so
the raw count (2) would overstate the number of distinct providers (1) -/
example : completeCount (signed [("a", false), ("a", false)] "a") = 2 := by decide
example : ¬ QuorumOfDistinct (signed [("a", false), ("a", false)] "a") 2 := by
  rintro ⟨L, hnd, hall, hlen⟩
  have : L.length ≤ ["a"].length := length_le_of_nodup_subset L ["a"] hnd (by
    intro x hx
    have := hall x hx
    simp [signed] at this
    simp [this])
  simp at this; omega

/-! ### Non-vacuity -/
namespace C14Ex

def params : Params :=
  { proofWindow := 50, checkWindow := 100, chunkSize := 1024, pricePerTbPerMonth := 8,
    collateralPrice := 1000, attestFormSize := 3, attestMinToPass := 2, referralCommission := 25,
    polRatio := 40 }

def key : FKey := ("aa", "owner", 7)
def pk : PKey := ("p1", key)

def file : File :=
  { merkle := "aa", owner := "owner", start := 7, expires := 0, fileSize := 100, proofInterval := 50,
    proofType := 0, proofs := [pk], maxProofs := 3, note := "{}" }

def prov (a ip : String) : Provider :=
  { address := a, ip := ip, totalspace := "1000", burned := some 0, creator := a, keybase := "", claimers := [] }

/-- one file proven by `p1`; providers p1, a, b, c (a, b, c hold records elsewhere) -/
def base : State :=
  { files := [(key, file)], files2 := [(key, file)],
    proofs := [(pk, { prover := "p1", merkle := "aa", owner := "owner", start := 7, lastProven := 8, chunkToProve := 0 }),
               (("a", ("bb", "o2", 3)), { prover := "a", merkle := "bb", owner := "o2", start := 3, lastProven := 8, chunkToProve := 0 }),
               (("b", ("bb", "o2", 3)), { prover := "b", merkle := "bb", owner := "o2", start := 3, lastProven := 8, chunkToProve := 0 }),
               (("c", ("bb", "o2", 3)), { prover := "c", merkle := "bb", owner := "o2", start := 3, lastProven := 8, chunkToProve := 0 })],
    providers := [("p1", prov "p1" "https://one.example.com"), ("a", prov "a" "https://node.alpha.org"),
                  ("b", prov "b" "https://node.beta.net"), ("c", prov "c" "https://node.gamma.io"),
                  ("d", prov "d" "https://two.example.com"), ("e", prov "e" "not a url")],
    payinfo := [], collateral := [], gauges := [], attests := [], reports := [],
    bank := [], params := params, moduleAcc := "storage", collateralAcc := "collateral",
    polAcc := "pol", feeAcc := "fee", blocked := [] }

/-- the request creates the 3-name form (attestations and reports alike) -/
def s0 : State := (step base 20 0 (.requestAttest "p1" "aa" "owner" 7 3 ["a", "b", "c"])).getD base
def r0 : State := (step base 20 0 (.requestReport "x" "p1" "aa" "owner" 7 3 ["a", "b", "c"])).getD base

example : AMap.get s0.attests pk =
    some { prover := "p1", merkle := "aa", owner := "owner", start := 7,
           attestations := [("a", false), ("b", false), ("c", false)] } := by decide

/-- the hypotheses of `C14_form_members` hold for it -/
example : (requestForm base.attests base "p1" "aa" "owner" 7 3 ["a", "b", "c"]).isSome = true := by decide

def s1 : State := attest s0 21 "a" "p1" "aa" "owner" 7
def s2 : State := attest s1 22 "b" "p1" "aa" "owner" 7

/-- first signature: the form stays (one complete entry), `lastProven` is untouched -/
example : AMap.get s1.attests pk =
    some { prover := "p1", merkle := "aa", owner := "owner", start := 7,
           attestations := [("a", true), ("b", false), ("c", false)] } := by decide
example : (AMap.get s1.proofs pk).map (·.lastProven) = some 8 := by decide

/-- second signature, by another named provider: quorum — `lastProven` refreshed, form deleted -/
example : AMap.get s2.attests pk = none := by decide
example : (AMap.get s2.proofs pk).map (·.lastProven) = some 22 := by decide

/-- so the hypothesis of `C14_effect_requires_quorum` is satisfiable (second signature) … -/
example : (attest s1 22 "b" "p1" "aa" "owner" 7).proofs ≠ s1.proofs := by decide
/-- … and its conclusion is not trivially true: the first signature is below the quorum -/
example : ¬ (s0.params.attestMinToPass ≤ completeCount (signed [("a", false), ("b", false), ("c", false)] "a")) := by
  decide

/-- an outsider's signature changes nothing, neither before nor after the first signature -/
example : attest s0 21 "z" "p1" "aa" "owner" 7 = s0 := by decide
example : attest s1 22 "z" "p1" "aa" "owner" 7 = s1 := by decide
/-- the same signer again: nothing -/
example : attest s1 22 "a" "p1" "aa" "owner" 7 = s1 := by decide
/-- the form is consumed: a third named provider's signature has no effect any more -/
example : attest s2 23 "c" "p1" "aa" "owner" 7 = s2 := by decide

/-- reports: first signature keeps prover and form, the second removes the prover and its record;
an outsider's report fails; after consumption every report fails -/
def r1 : State := (report r0 "a" "p1" "aa" "owner" 7).getD r0
def r2 : State := (report r1 "b" "p1" "aa" "owner" 7).getD r1
example : (report r0 "a" "p1" "aa" "owner" 7).isSome = true := by decide
example : (AMap.get r1.files key).map (·.proofs) = some [pk] := by decide
example : (report r1 "b" "p1" "aa" "owner" 7).isSome = true := by decide
example : (AMap.get r2.files key).map (·.proofs) = some [] ∧ AMap.get r2.proofs pk = none ∧
    AMap.get r2.reports pk = none := by decide
example : report r0 "z" "p1" "aa" "owner" 7 = none := by decide
example : report r1 "a" "p1" "aa" "owner" 7 = some r1 := by decide
example : report r2 "c" "p1" "aa" "owner" 7 = none := by decide

/-- a toy host parser (a table is enough here): "https://x.DOMAIN.TLD" ↦ (DOMAIN, TLD) -/
def hostOf (ip : String) : Option (String × String) :=
  if ip = "https://one.example.com" then some ("example", "com")
  else if ip = "https://two.example.com" then some ("example", "com")
  else if ip = "https://node.alpha.org" then some ("alpha", "org")
  else if ip = "https://node.beta.net" then some ("beta", "net")
  else if ip = "https://node.gamma.io" then some ("gamma", "io")
  else none

/-- eligible for p1 (one.example.com): a, b, c — not p1 itself, not d (same domain), not e
(unparsable), although d and e are registered -/
example : eligible hostOf { base with proofs := base.proofs ++ [(("d", ("bb", "o2", 3)), default), (("e", ("bb", "o2", 3)), default)] }
    "https://one.example.com" = ["a", "b", "c"] := by decide

/-- hypotheses of `C14_form_never_names_its_prover` -/
example : AMap.WF base.providers ∧ (AMap.get base.providers "p1").isSome = true := by
  unfold AMap.WF; decide

example : FormsInv s1 := by
  have e1 : s1.attests = [(pk, { prover := "p1", merkle := "aa", owner := "owner", start := 7, attestations := [("a", true), ("b", false), ("c", false)] })] := by
    decide
  have e2 : s1.reports = [] := by decide
  constructor
  · intro k f hf
    rw [e1] at hf
    simp only [AMap.get] at hf
    split at hf
    · simp only [Option.some.injEq] at hf; subst hf; decide
    · simp at hf
  · intro k f hf
    rw [e2] at hf; simp at hf

end C14Ex

end Canine.Storage
