/-
C20 — Hashed file-tree paths keep the parent/child relation; trailing slash is neutral.
For every hash function `H` and every path — no bound on the number or length of segments.
-/
import Canine.Filetree.Path
import Canine.Generated.KeyFacts
namespace Canine.Filetree

theorem splitOnSlash_ne_nil (s : Str) : splitOnSlash s ≠ [] := by
  induction s with
  | nil => simp [splitOnSlash]
  | cons c cs ih =>
    simp only [splitOnSlash]
    split
    · simp
    · split <;> simp

/-- splitting a '/'-free string gives that single segment -/
theorem splitOnSlash_noslash (s : Str) (h : '/' ∉ s) : splitOnSlash s = [s] := by
  induction s with
  | nil => rfl
  | cons c cs ih =>
    have hc : c ≠ '/' := fun e => h (by simp [e])
    have hcs : '/' ∉ cs := fun e => h (by simp [e])
    simp [splitOnSlash, hc, ih hcs]

/-- `Split(a ‖ "/" ‖ b) = Split(a) ++ Split(b)` -/
theorem splitOnSlash_append (a b : Str) :
    splitOnSlash (a ++ '/' :: b) = splitOnSlash a ++ splitOnSlash b := by
  induction a with
  | nil => simp [splitOnSlash]
  | cons c cs ih =>
    simp only [List.cons_append, splitOnSlash]
    split
    · simp [ih]
    · rw [ih]
      cases hs : splitOnSlash cs with
      | nil => exact absurd hs (splitOnSlash_ne_nil cs)
      | cons h t => simp

/-- splitting the joined segments gives the segments back (segments are '/'-free) -/
theorem splitOnSlash_joinSlash : ∀ (segs : List Str), segs ≠ [] → (∀ s ∈ segs, '/' ∉ s) →
    splitOnSlash (joinSlash segs) = segs
  | [], h, _ => absurd rfl h
  | [s], _, hs => by simpa [joinSlash] using splitOnSlash_noslash s (hs s (by simp))
  | s :: t :: rest, _, hs => by
    simp only [joinSlash]
    rw [splitOnSlash_append, splitOnSlash_noslash s (hs s (by simp)),
      splitOnSlash_joinSlash (t :: rest) (by simp) (fun x hx => hs x (List.mem_cons_of_mem _ hx))]
    simp

theorem joinSlash_snoc : ∀ (init : List Str) (l : Str), init ≠ [] →
    joinSlash (init ++ [l]) = joinSlash init ++ '/' :: l
  | [], _, h => absurd rfl h
  | [s], l, _ => by simp [joinSlash]
  | s :: t :: rest, l, _ => by
    have ih := joinSlash_snoc (t :: rest) l (by simp)
    show s ++ '/' :: joinSlash ((t :: rest) ++ [l]) = (s ++ '/' :: joinSlash (t :: rest)) ++ '/' :: l
    rw [ih]; simp

theorem getLast?_ne_slash (x l : Str) (hl : l ≠ []) (hs : '/' ∉ l) : (x ++ l).getLast? ≠ some '/' := by
  rw [List.getLast?_append]
  cases h : l.getLast? with
  | none => simp [List.getLast?_eq_none_iff] at h; exact absurd h hl
  | some c =>
    simp only [Option.some_or]
    intro e
    simp only [Option.some.injEq] at e
    subst e
    exact hs (List.mem_of_getLast? h)

theorem trimSlash_id (s : Str) (h : s.getLast? ≠ some '/') : trimSlash s = s := by
  simp [trimSlash, h]

theorem trimSlash_snoc (s : Str) : trimSlash (s ++ ['/']) = s := by
  simp [trimSlash]

/-- **MerklePath is the fold over the segments.**  For every segment list whose segments are
'/'-free and whose last segment is non-empty, the address of the '/'-joined path is the fold
`total := H(total ‖ H(segment))` starting from the empty string. -/
theorem C20_merklePath_eq_fold (H : Str → Str) (init : List Str) (l : Str)
    (hi : ∀ s ∈ init, '/' ∉ s) (hl : '/' ∉ l) (hne : l ≠ []) :
    merklePath H (joinSlash (init ++ [l])) = foldSegs H (init ++ [l]) := by
  unfold merklePath
  have hlast : (joinSlash (init ++ [l])).getLast? ≠ some '/' := by
    by_cases h0 : init = []
    · subst h0
      simpa [joinSlash] using getLast?_ne_slash [] l hne hl
    · rw [joinSlash_snoc init l h0]
      have := getLast?_ne_slash (joinSlash init ++ ['/']) l hne hl
      simpa using this
  rw [trimSlash_id _ hlast, splitOnSlash_joinSlash (init ++ [l]) (by simp)]
  intro s hs
  rcases List.mem_append.mp hs with h | h
  · exact hi s h
  · simp at h; subst h; exact hl

/-- the one path outside that domain which is still well defined: the empty path is the single
empty segment -/
theorem C20_merklePath_empty (H : Str → Str) : merklePath H [] = foldSegs H [[]] := by
  simp [merklePath, trimSlash, splitOnSlash]

/-- **Parent/child.**  The address of `parent/child` is the parent's address combined with the
hash of the child segment (`AddToMerkle`), for every parent string not ending in '/' and every
non-empty '/'-free child name. -/
theorem C20_child_address (H : Str → Str) (p c : Str) (hp : p.getLast? ≠ some '/')
    (hc : '/' ∉ c) (hne : c ≠ []) :
    merklePath H (p ++ '/' :: c) = addToMerkle H (merklePath H p) (H c) := by
  unfold merklePath addToMerkle
  have h1 : (p ++ '/' :: c).getLast? ≠ some '/' := by
    have := getLast?_ne_slash (p ++ ['/']) c hne hc
    simpa using this
  rw [trimSlash_id _ h1, trimSlash_id _ hp, splitOnSlash_append, splitOnSlash_noslash c hc]
  simp [foldSegs, List.foldl_append]

/-- **The client-side derivation agrees.**  For a plain path of at least two '/'-free segments whose
last two segments are non-empty, the pair `MerkleHelper` derives — parent address and child hash —
recombines (`AddToMerkle`, which is what `PostFile` computes and returns) to the address of the
path itself; one trailing '/' makes no difference.  (Outside this domain the helper is *not*
faithful on the unchanged tree: `a//b` is given the address of `a/b`, because the parent string
`a/` loses its empty last segment to the trailing-slash rule — see DESIGN.md.) -/
theorem C20_helper_recombines_to_path_address (H : Str → Str) (init : List Str) (m l : Str)
    (hi : ∀ s ∈ init, '/' ∉ s) (hm : '/' ∉ m) (hmne : m ≠ []) (hl : '/' ∉ l) (hne : l ≠ []) :
    let path := joinSlash (init ++ [m] ++ [l])
    addToMerkle H (merkleHelper H path).1 (merkleHelper H path).2 = merklePath H path ∧
    merkleHelper H (path ++ ['/']) = merkleHelper H path := by
  intro path
  have hseg : ∀ s ∈ init ++ [m], '/' ∉ s := by
    intro s hs
    rcases List.mem_append.mp hs with h | h
    · exact hi s h
    · simp at h; subst h; exact hm
  have hall : ∀ s ∈ init ++ [m] ++ [l], '/' ∉ s := by
    intro s hs
    rcases List.mem_append.mp hs with h | h
    · exact hseg s h
    · simp at h; subst h; exact hl
  have hlast : path.getLast? ≠ some '/' := by
    show (joinSlash (init ++ [m] ++ [l])).getLast? ≠ some '/'
    rw [joinSlash_snoc (init ++ [m]) l (by simp)]
    have := getLast?_ne_slash (joinSlash (init ++ [m]) ++ ['/']) l hne hl
    simpa using this
  have hchunks : splitOnSlash (trimSlash path) = init ++ [m] ++ [l] := by
    rw [trimSlash_id _ hlast]
    exact splitOnSlash_joinSlash _ (by simp) hall
  have hhelper : merkleHelper H path = (foldSegs H (init ++ [m]), H l) := by
    unfold merkleHelper
    simp only [hchunks, List.dropLast_concat, List.getLastD_concat]
    rw [C20_merklePath_eq_fold H init m hi hm hmne]
  refine ⟨?_, ?_⟩
  · rw [hhelper]
    show addToMerkle H (foldSegs H (init ++ [m])) (H l) = merklePath H path
    have := C20_merklePath_eq_fold H (init ++ [m]) l hseg hl hne
    rw [this]
    simp [addToMerkle, foldSegs, List.foldl_append]
  · unfold merkleHelper
    rw [trimSlash_snoc, trimSlash_id _ hlast]

/-- … and for a path whose last segment is *empty* (written with the extra slash, `…/m//`): the
helper keeps the empty child and recombines to that path's own address, distinct by construction
from the address of `…/m` (`C20_distinct_segments_distinct_addresses`). -/
theorem C20_helper_recombines_with_empty_last_segment (H : Str → Str) (init : List Str) (m : Str)
    (hi : ∀ s ∈ init, '/' ∉ s) (hm : '/' ∉ m) (hmne : m ≠ []) :
    let path := joinSlash (init ++ [m] ++ [[]]) ++ ['/']
    addToMerkle H (merkleHelper H path).1 (merkleHelper H path).2 = merklePath H path := by
  intro path
  have hall : ∀ s ∈ init ++ [m] ++ [[]], '/' ∉ s := by
    intro s hs
    rcases List.mem_append.mp hs with h | h
    · rcases List.mem_append.mp h with h | h
      · exact hi s h
      · simp at h; subst h; exact hm
    · simp at h; subst h; simp
  have hchunks : splitOnSlash (trimSlash path) = init ++ [m] ++ [[]] := by
    show splitOnSlash (trimSlash (joinSlash (init ++ [m] ++ [[]]) ++ ['/'])) = _
    rw [trimSlash_snoc]
    exact splitOnSlash_joinSlash _ (by simp) hall
  unfold merkleHelper merklePath
  simp only [hchunks, List.dropLast_concat, List.getLastD_concat]
  have := C20_merklePath_eq_fold H init m hi hm hmne
  unfold merklePath at this
  rw [this]
  simp [addToMerkle, foldSegs, List.foldl_append]

/-- **Trailing slash.**  One trailing '/' does not change the address. -/
theorem C20_trailing_slash_neutral (H : Str → Str) (p : Str) (hp : p.getLast? ≠ some '/') :
    merklePath H (p ++ ['/']) = merklePath H p := by
  unfold merklePath
  rw [trimSlash_snoc, trimSlash_id _ hp]

theorem foldSegs_snoc (H : Str → Str) (segs : List Str) (c : Str) :
    foldSegs H (segs ++ [c]) = H (foldSegs H segs ++ H c) := by
  simp [foldSegs, List.foldl_append]

theorem foldSegs_length (H : Str → Str) (hlen : ∀ x, (H x).length = 64) :
    ∀ segs : List Str, (foldSegs H segs).length = if segs = [] then 0 else 64 := by
  intro segs
  rcases List.eq_nil_or_concat segs with h | ⟨init, c, h⟩
  · subst h; simp [foldSegs]
  · subst h
    rw [List.concat_eq_append, foldSegs_snoc, hlen]; simp

/-- **Distinct segment sequences give distinct addresses** — in collision-extraction form: if two
different segment lists have the same address, the proof hands back two *different* inputs on
which the hash agrees.  The only fact used about `H` is that its output has a fixed length (64
hex characters), which holds of hex(SHA-256). -/
theorem C20_distinct_segments_distinct_addresses (H : Str → Str) (hlen : ∀ x, (H x).length = 64) :
    ∀ (s1 s2 : List Str), s1 ≠ s2 → foldSegs H s1 = foldSegs H s2 → ∃ x y, x ≠ y ∧ H x = H y := by
  intro s1 s2
  generalize hn : s1.length = n
  induction n generalizing s1 s2 with
  | zero =>
    intro hne heq
    have : s1 = [] := List.length_eq_zero_iff.mp hn
    subst this
    exfalso
    have h1 := foldSegs_length H hlen ([] : List Str)
    have h2 := foldSegs_length H hlen s2
    rw [heq] at h1
    have : s2 ≠ [] := fun e => hne e.symm
    rw [if_pos rfl] at h1
    rw [if_neg this] at h2
    omega
  | succ n ih =>
    intro hne heq
    rcases List.eq_nil_or_concat s1 with h | ⟨i1, c1, h⟩
    · subst h; simp at hn
    subst h
    rw [List.concat_eq_append] at hn hne heq
    rcases List.eq_nil_or_concat s2 with h | ⟨i2, c2, h⟩
    · subst h
      exfalso
      have h1 := foldSegs_length H hlen (i1 ++ [c1])
      have h2 := foldSegs_length H hlen ([] : List Str)
      rw [heq] at h1
      rw [if_neg (by simp)] at h1
      rw [if_pos rfl] at h2
      omega
    · subst h
      rw [List.concat_eq_append] at hne heq
      rw [foldSegs_snoc, foldSegs_snoc] at heq
      by_cases hpre : foldSegs H i1 ++ H c1 = foldSegs H i2 ++ H c2
      · -- equal pre-images: split them at the fixed-width suffix
        have hlens : (foldSegs H i1).length = (foldSegs H i2).length := by
          have := congrArg List.length hpre
          simp [hlen] at this
          omega
        have hsplit := List.append_inj hpre hlens
        by_cases hi : i1 = i2
        · subst hi
          have hc : c1 ≠ c2 := fun e => hne (by rw [e])
          exact ⟨c1, c2, hc, hsplit.2⟩
        · exact ih i1 i2 (by simpa using hn) hi hsplit.1
      · exact ⟨_, _, hpre, heq⟩

/-- non-vacuity / a worked instance with a toy hash: ["a","b"] folds as AddToMerkle says -/
example : foldSegs (fun x => 'h' :: x) [['a'], ['b']] = ['h','h','h','a','h','b'] := by decide

/-- the helper outside its domain, for every hash function: the plain path `a//b` (segments
`a`, ``, `b`) is given the address of `a/b` -/
example (H : Str → Str) :
    addToMerkle H (merkleHelper H "a//b".toList).1 (merkleHelper H "a//b".toList).2
      = merklePath H "a/b".toList := by
  simp [merkleHelper, merklePath, addToMerkle, trimSlash, splitOnSlash, joinSlash, foldSegs]

/-- **C20, the client-side copies (regenerated fact).**  The client helper that `canined tx filetree post-file`
uses to turn a plain path into `HashParent` / `HashChild` (`x/filetree/client/cli/utils.go: merkleHelper`) is the
same code, modulo the package qualifier, as the helper the harness evaluates against the model on every path
record (`types.MerkleHelper`), and so are the two copies of `MakeOwnerAddress`: what
`C20_helper_recombines_to_path_address` and the differential evaluation establish for one copy holds for the
other.  The table is recomputed from the source on every run (`gen/main.go`). -/
theorem C20_client_helper_copies_are_the_compared_ones :
    Generated.helperClones.all (fun c => c.2.2) = true ∧ Generated.helperClones.length = 2 := by decide

end Canine.Filetree
