/-
C04 — Storage payments are charged exactly and split without misdirecting tokens.

A plan purchase (`buyStorage`) and a one-time file payment (`postFile` with `expires > 0`) debit the
payer exactly the computed price, fund the new provider gauge with exactly the amount the gauge
records, pay the protocol-liquidity account and the referrer (or, without a distinct referrer, the
stakers' fee pool) their governance-set percentages rounded down, leave the non-negative remainder
in the module account and touch no other balance; a failed message changes nothing.
-/
import Canine.Proofs.StorageC
import Canine.Generated.PureFns
import Canine.Generated.KeyFacts
namespace Canine.Storage
open Bank

/-! ## 1. a failed message commits nothing -/

/-- every message: an error return leaves the whole state (in particular every balance) as it was -/
theorem C04_failed_message_changes_nothing (s : State) (h now : Int) (op : Op)
    (hf : step s h now op = none) : stepT s h now op = s := by
  simp [stepT, hf]

/-- the two paying messages, spelled out -/
theorem C04_failed_purchase_debits_nothing (s : State) (h now : Int) :
    (∀ c fa dd b dn ref jp gid gacc, buyStorage s now c fa dd b dn ref ⟨jp⟩ gid gacc = none →
      stepT s h now (.buyStorage c fa dd b dn ref jp gid gacc) = s) ∧
    (∀ c m fs mp ex pt note nv jp gid gacc, postFile s h now c m fs mp ex pt note nv ⟨jp⟩ gid gacc = none →
      stepT s h now (.postFile c m fs mp ex pt note nv jp gid gacc) = s) :=
  ⟨fun _ _ _ _ _ _ _ _ _ hf => C04_failed_message_changes_nothing s h now _ hf,
   fun _ _ _ _ _ _ _ _ _ _ _ hf => C04_failed_message_changes_nothing s h now _ hf⟩

/-! ## 2. the accounting of a successful purchase -/

/-- the price a purchase charges: the storage (or upgrade) cost of `buyBase`, times 0.90 / 0.95
truncated when a distinct referrer is named (`chargedOf`); 0 when the price stage fails -/
def buyCharge (s : State) (now : Int) (creator fa : String) (days bytes : Int) (denom : String)
    (referral : Option String) (jp : Dec) : Int :=
  chargedOf creator referral days (((buyBase s now fa days bytes denom jp).map (·.1)).getD 0)

theorem buyCharge_of_base {s : State} {now : Int} {creator fa : String} {days bytes : Int} {denom : String}
    {referral : Option String} {jp : Dec} {tp0 su : Int}
    (hb : buyBase s now fa days bytes denom jp = some (tp0, su)) :
    buyCharge s now creator fa days bytes denom referral jp = chargedOf creator referral days tp0 := by
  simp [buyCharge, hb]

/-- the price of a first purchase (no plan yet) is `GetStorageCost` of the size and duration -/
theorem C04_price_of_first_purchase (s : State) (now : Int) (creator fa : String) (days bytes : Int) (denom : String)
    (referral : Option String) (jp : Dec) (tp0 su : Int) (hnew : AMap.get s.payinfo fa = none)
    (hb : buyBase s now fa days bytes denom jp = some (tp0, su)) :
    storageCost s.params.pricePerTbPerMonth (Int.tdiv bytes gb)
      (Dec.trunc ((Dec.quo? (Dec.ofInt (Int.tdiv (I64.mul days dayNs) 1000000)) (Dec.ofInt hourMs)).getD Dec.zero)) jp
      = some tp0 ∧ su = 0 ∧
    buyCharge s now creator fa days bytes denom referral jp =
      (if buyReferred creator referral then
        Dec.trunc (Dec.mul (Dec.ofInt tp0) (if buyLong days then dec0_95 else dec0_90)) else tp0) := by
  rw [buyCharge_of_base hb]
  simp only [buyBase, bind, Option.bind_eq_some_iff, req_eq_some, hnew] at hb
  obtain ⟨_, _, _, _, _, _, _, _, c, hc, _, _, hs⟩ := hb
  simp only [Option.some.injEq, Prod.mk.injEq] at hs
  obtain ⟨rfl, rfl⟩ := hs
  exact ⟨hc, rfl, rfl⟩

/-- **Every balance after a successful purchase**, with no assumption on the accounts involved:
in the purchase denomination the payer loses the price `T`, the gauge account gains `spc`, the
liquidity account `polCut`, the referral target (`refTarget`: the distinct named referrer, otherwise
the fee pool) `refCut`, the module account the remainder; no other denomination moves.  The three
shares are non-negative and their recipients are not blocked. -/
theorem C04_buy_balances {s s' : State} {now : Int} {creator fa : String} {days bytes : Int} {denom : String}
    {referral : Option String} {jp : Dec} {gid gacc : String}
    (h : buyStorage s now creator fa days bytes denom referral jp gid gacc = some s') :
    let T := buyCharge s now creator fa days bytes denom referral jp
    let spc := spcOf s.params creator referral days T
    let polCut := polCutOf s.params creator referral days T
    let refCut := refCutOf s.params T
    let refT := refTarget s creator referral
    denom = "ujkl" ∧ 0 ≤ T ∧ 0 ≤ spc ∧ 0 ≤ polCut ∧ 0 ≤ refCut ∧
    gacc ∉ s.blocked ∧ s.polAcc ∉ s.blocked ∧ (buyReferred creator referral = true → refT ∉ s.blocked) ∧
    ∀ a d, bal s'.bank a d = bal s.bank a d +
      (if denom = d then
        (if s.moduleAcc = a then T - spc - polCut - refCut else 0) - (if creator = a then T else 0)
        + (if gacc = a then spc else 0) + (if s.polAcc = a then polCut else 0)
        + (if refT = a then refCut else 0)
       else 0) := by
  obtain ⟨tp0, su, hb, hp⟩ := buyStorage_spec h
  obtain ⟨b1, b2, b3, hT, hspc, hpol, href, h1, h2, n2, h3, n3, h4, n4, -⟩ := buyPay_spec hp
  intro T spc polCut refCut refT
  have eT : T = chargedOf creator referral days tp0 := buyCharge_of_base hb
  refine ⟨(buyBase_denom hb).1, by rw [eT]; exact hT, by simp only [spc, eT]; exact hspc,
    by simp only [polCut, eT]; exact hpol, by simp only [refCut, eT]; exact href, n2, n3, n4, ?_⟩
  intro a d
  have q1 := bal_send h1 a d
  have q2 := bal_send h2 a d
  have q3 := bal_send h3 a d
  have q4 := bal_send h4 a d
  simp only [amt_coinsOf] at q1 q2 q3 q4
  rw [q4, q3, q2, q1]
  simp only [spc, polCut, refCut, refT, eT]
  by_cases e0 : denom = d <;> by_cases e1 : s.moduleAcc = a <;> by_cases e2 : creator = a <;>
    by_cases e3 : gacc = a <;> by_cases e4 : s.polAcc = a <;>
    by_cases e5 : refTarget s creator referral = a <;>
    simp only [e0, e1, e2, e3, e4, e5, if_true, if_false] <;> omega

/-- the accounts a purchase involves: payer, module, gauge, liquidity, fee pool and, when one is
named and differs from the payer, the referrer -/
def buyAccounts (s : State) (creator gacc : String) (referral : Option String) : List String :=
  creator :: s.moduleAcc :: gacc :: s.polAcc :: s.feeAcc ::
    (match referral with
     | some r => if r ≠ creator then [r] else []
     | none => [])

/-- amount of denomination `d` recorded by gauge `id` (0 when there is no such gauge) -/
def recorded (gs : AMap String Gauge) (id d : String) : Int :=
  ((AMap.get gs id).map (fun g => amt d g.coins)).getD 0

theorem amt_append (d : String) : ∀ (a b : Coins), amt d (a ++ b) = amt d a + amt d b
  | [], b => by simp [amt]
  | (d', x) :: a, b => by
    have := amt_append d a b
    simp only [List.cons_append, amt, this]; omega

theorem amt_addCoins (d : String) (a b : Coins) : amt d (addCoins a b) = amt d a + amt d b := by
  unfold addCoins
  split
  · simp [amt]
  · simp [amt]
  · rename_i d1 x d2 y
    split
    · rename_i e; subst e; simp only [amt]; split <;> omega
    · split <;> simp only [amt] <;> omega
  · exact amt_append d a b

/-- **The gauge is funded with exactly what it records.**  After a successful purchase the gauge
`gid` exists, names `gacc` as its account, its coins are the previous coins of that id plus the
provider share (`addCoins`, or just the share for a new id) — so its recorded amount grew by
exactly `spc` — and (when the gauge account is none of the other accounts) the gauge account's
balance grew by exactly the same `spc`.  No other gauge changes. -/
theorem C04_gauge_funded_as_recorded {s s' : State} {now : Int} {creator fa : String} {days bytes : Int}
    {denom : String} {referral : Option String} {jp : Dec} {gid gacc : String}
    (h : buyStorage s now creator fa days bytes denom referral jp gid gacc = some s') :
    let T := buyCharge s now creator fa days bytes denom referral jp
    let spc := spcOf s.params creator referral days T
    (∃ g, AMap.get s'.gauges gid = some g ∧ g.id = gid ∧ g.account = gacc ∧ g.startT = now ∧
      g.endT = now + I64.mul days dayNs ∧
      g.coins = (match AMap.get s.gauges gid with
                 | some old => addCoins old.coins (coinsOf denom spc)
                 | none => coinsOf denom spc)) ∧
    recorded s'.gauges gid denom = recorded s.gauges gid denom + spc ∧
    (∀ id, id ≠ gid → AMap.get s'.gauges id = AMap.get s.gauges id) ∧
    (gacc ≠ creator → gacc ≠ s.moduleAcc → gacc ≠ s.polAcc → gacc ≠ refTarget s creator referral →
      bal s'.bank gacc denom = bal s.bank gacc denom + spc) := by
  obtain ⟨tp0, su, hb, hp⟩ := buyStorage_spec h
  obtain ⟨b1, b2, b3, -, -, -, -, -, -, -, -, -, -, -, hs⟩ := buyPay_spec hp
  intro T spc
  have eT : T = chargedOf creator referral days tp0 := buyCharge_of_base hb
  have hg : s'.gauges = gaugesAfter s.gauges now gid gacc (coinsOf denom spc) (now + I64.mul days dayNs) := by
    rw [hs]; simp only [spc, eT]
  refine ⟨?_, ?_, ?_, ?_⟩
  · rw [hg]; unfold gaugesAfter
    exact ⟨_, AMap.get_set_self _ _ _, rfl, rfl, rfl, rfl, rfl⟩
  · rw [hg]; unfold gaugesAfter recorded
    rw [AMap.get_set_self]
    cases AMap.get s.gauges gid with
    | none => simp [amt_coinsOf]
    | some old => simp [amt_addCoins, amt_coinsOf]
  · intro id hne
    rw [hg]; unfold gaugesAfter
    exact AMap.get_set_other _ _ _ _ (Ne.symm hne)
  · intro g1 g2 g3 g4
    have hb' := (C04_buy_balances h).2.2.2.2.2.2.2.2 gacc denom
    simp only [if_true, Ne.symm g1, Ne.symm g2, Ne.symm g3, Ne.symm g4, if_false] at hb'
    rw [hb']; simp only [spc, T]; omega

/-- reading the general balance formula when the five accounts are pairwise distinct -/
theorem split_of_distinct {b b' : Bank} {denom c m g p t : String} {T x y z : Int}
    (hbal : ∀ a d, bal b' a d = bal b a d +
      (if denom = d then
        (if m = a then T - x - y - z else 0) - (if c = a then T else 0)
        + (if g = a then x else 0) + (if p = a then y else 0) + (if t = a then z else 0)
       else 0))
    (hnd : [c, m, g, p, t].Nodup) :
    bal b' c denom = bal b c denom - T ∧ bal b' g denom = bal b g denom + x ∧
    bal b' p denom = bal b p denom + y ∧ bal b' t denom = bal b t denom + z ∧
    bal b' m denom = bal b m denom + (T - x - y - z) ∧
    ∀ a d, a ∉ [c, m, g, p, t] ∨ d ≠ denom → bal b' a d = bal b a d := by
  simp only [List.nodup_cons, List.mem_cons, List.not_mem_nil, or_false, not_or, List.nodup_nil,
    and_true, not_false_eq_true] at hnd
  obtain ⟨⟨c1, c2, c3, c4⟩, ⟨m1, m2, m3⟩, ⟨g1, g2⟩, p1⟩ := hnd
  refine ⟨?_, ?_, ?_, ?_, ?_, ?_⟩
  · have := hbal c denom
    simp only [if_true, Ne.symm c1, Ne.symm c2, Ne.symm c3, Ne.symm c4, if_false] at this
    rw [this]; omega
  · have := hbal g denom
    simp only [if_true, c2, m1, Ne.symm g1, Ne.symm g2, if_false] at this
    rw [this]; omega
  · have := hbal p denom
    simp only [if_true, c3, m2, g1, Ne.symm p1, if_false] at this
    rw [this]; omega
  · have := hbal t denom
    simp only [if_true, c4, m3, g2, p1, if_false] at this
    rw [this]; omega
  · have := hbal m denom
    simp only [if_true, c1, Ne.symm m1, Ne.symm m2, Ne.symm m3, if_false] at this
    rw [this]; omega
  · intro a d hor
    have := hbal a d
    rcases hor with hn | hn
    · simp only [List.mem_cons, List.not_mem_nil, or_false, not_or] at hn
      obtain ⟨a1, a2, a3, a4, a5⟩ := hn
      simp only [Ne.symm a1, Ne.symm a2, Ne.symm a3, Ne.symm a4, Ne.symm a5, if_false] at this
      rw [this]; split <;> omega
    · simp only [Ne.symm hn, if_false] at this; rw [this]; omega

/-- distinctness of `buyAccounts` in terms of the referral target -/
theorem buyAccounts_nodup {s : State} {creator gacc : String} {referral : Option String}
    (hd : (buyAccounts s creator gacc referral).Nodup) :
    [creator, s.moduleAcc, gacc, s.polAcc, refTarget s creator referral].Nodup ∧
    (∀ a, a ∈ buyAccounts s creator gacc referral ↔
      a ∈ [creator, s.moduleAcc, gacc, s.polAcc, refTarget s creator referral] ∨ a = s.feeAcc) ∧
    (buyReferred creator referral = true →
      s.feeAcc ∉ [creator, s.moduleAcc, gacc, s.polAcc, refTarget s creator referral]) ∧
    (buyReferred creator referral = false → refTarget s creator referral = s.feeAcc) := by
  cases referral with
  | none =>
    simp only [buyAccounts, refTarget, buyReferred] at hd ⊢
    simp only [List.nodup_cons, List.mem_cons, List.not_mem_nil, or_false, not_or, List.nodup_nil,
      and_true, not_false_eq_true] at hd ⊢
    refine ⟨hd, fun a => by simp only [or_assoc, or_self], by simp, by simp⟩
  | some r =>
    by_cases hr : r = creator
    · subst hr
      simp only [buyAccounts, refTarget, buyReferred, ne_eq, not_true_eq_false, if_false, decide_false] at hd ⊢
      simp only [List.nodup_cons, List.mem_cons, List.not_mem_nil, or_false, not_or, List.nodup_nil,
        and_true, not_false_eq_true] at hd ⊢
      refine ⟨hd, fun a => by simp only [or_assoc, or_self], by simp, by simp⟩
    · simp only [buyAccounts, refTarget, buyReferred, ne_eq, hr, not_false_eq_true, if_true, decide_true] at hd ⊢
      simp only [List.nodup_cons, List.mem_cons, List.not_mem_nil, or_false, not_or, List.nodup_nil,
        and_true, not_false_eq_true] at hd ⊢
      obtain ⟨⟨c1, c2, c3, c4, c5⟩, ⟨m1, m2, m3, m4⟩, ⟨g1, g2, g3⟩, ⟨p1, p2⟩, f1⟩ := hd
      refine ⟨⟨⟨c1, c2, c3, c5⟩, ⟨m1, m2, m4⟩, ⟨g1, g3⟩, p2⟩, ?_,
        fun _ => ⟨Ne.symm c4, Ne.symm m3, Ne.symm g2, Ne.symm p1, f1⟩, by simp⟩
      intro a
      constructor
      · rintro (h | h | h | h | h | h) <;> simp [h]
      · rintro ((h | h | h | h | h) | h) <;> simp [h]

/-- **Accounting of a successful purchase** when the accounts involved (`buyAccounts`) are pairwise
distinct — a configuration fact: module, liquidity and fee-pool accounts are fixed module accounts,
the gauge account is derived from a fresh gauge id, and nobody holds their keys.
The payer is debited exactly the price; gauge, liquidity account and referral target are credited
exactly their shares; with a distinct referrer the fee pool gets nothing, otherwise the fee pool is
the referral target; the module account keeps exactly the remainder; every other account, and every
other denomination of every account, is unchanged. -/
theorem C04_buy_accounting {s s' : State} {now : Int} {creator fa : String} {days bytes : Int} {denom : String}
    {referral : Option String} {jp : Dec} {gid gacc : String}
    (h : buyStorage s now creator fa days bytes denom referral jp gid gacc = some s')
    (hd : (buyAccounts s creator gacc referral).Nodup) :
    ∃ toPay spc polCut refCut : Int,
      toPay = buyCharge s now creator fa days bytes denom referral jp ∧
      spc = Dec.trunc (Dec.mul (Dec.ofInt toPay) (buySpr s.params (buyReferred creator referral) (buyLong days))) ∧
      polCut = Dec.trunc (Dec.mul (Dec.ofInt toPay) (buyPol s.params (buyReferred creator referral) (buyLong days))) ∧
      refCut = Dec.trunc (Dec.mul (Dec.ofInt toPay) (Dec.quoInt (Dec.ofInt s.params.referralCommission) 100)) ∧
      denom = "ujkl" ∧ 0 ≤ toPay ∧ 0 ≤ spc ∧ 0 ≤ polCut ∧ 0 ≤ refCut ∧
      bal s'.bank creator denom = bal s.bank creator denom - toPay ∧
      bal s'.bank gacc denom = bal s.bank gacc denom + spc ∧
      recorded s'.gauges gid denom = recorded s.gauges gid denom + spc ∧
      (∃ g, AMap.get s'.gauges gid = some g ∧ g.account = gacc) ∧
      bal s'.bank s.polAcc denom = bal s.bank s.polAcc denom + polCut ∧
      (∀ r, referral = some r → r ≠ creator →
        bal s'.bank r denom = bal s.bank r denom + refCut ∧
        bal s'.bank s.feeAcc denom = bal s.bank s.feeAcc denom) ∧
      ((∀ r, referral = some r → r = creator) →
        bal s'.bank s.feeAcc denom = bal s.bank s.feeAcc denom + refCut) ∧
      bal s'.bank s.moduleAcc denom = bal s.bank s.moduleAcc denom + (toPay - spc - polCut - refCut) ∧
      (∀ a d, a ∉ buyAccounts s creator gacc referral ∨ d ≠ denom → bal s'.bank a d = bal s.bank a d) := by
  have hB := C04_buy_balances h
  have hG := C04_gauge_funded_as_recorded h
  simp only at hB hG
  obtain ⟨hden, hT, hspc, hpol, href, -, -, -, hbal⟩ := hB
  obtain ⟨⟨g, hg1, -, hg2, -⟩, hrec, -, -⟩ := hG
  obtain ⟨hnd, hmem, hfee, hnoref⟩ := buyAccounts_nodup hd
  obtain ⟨e1, e2, e3, e4, e5, e6⟩ := split_of_distinct hbal hnd
  refine ⟨_, _, _, _, rfl, rfl, rfl, rfl, hden, hT, hspc, hpol, href, ?_, ?_, hrec, ⟨g, hg1, hg2⟩, ?_, ?_, ?_, ?_, ?_⟩
  · exact e1
  · exact e2
  · exact e3
  · intro r hr hne
    subst hr
    have hrf : buyReferred creator (some r) = true := by simp [buyReferred, hne]
    have ht : refTarget s creator (some r) = r := by simp [refTarget, hne]
    rw [ht] at e4
    exact ⟨e4, e6 _ _ (Or.inl (hfee hrf))⟩
  · intro hall
    have hrf : buyReferred creator referral = false := by
      cases referral with
      | none => rfl
      | some r => simp [buyReferred, hall r rfl]
    rw [hnoref hrf] at e4
    exact e4
  · exact e5
  · intro a d hor
    apply e6
    rcases hor with hn | hn
    · exact Or.inl (fun hm => hn ((hmem a).2 (Or.inl hm)))
    · exact Or.inr hn

/-- the payer is debited exactly the price (needs only: the payer is none of the recipients) -/
theorem C04_buy_debits_price {s s' : State} {now : Int} {creator fa : String} {days bytes : Int} {denom : String}
    {referral : Option String} {jp : Dec} {gid gacc : String}
    (h : buyStorage s now creator fa days bytes denom referral jp gid gacc = some s')
    (h1 : creator ≠ s.moduleAcc) (h2 : creator ≠ gacc) (h3 : creator ≠ s.polAcc)
    (h4 : creator ≠ refTarget s creator referral) :
    bal s'.bank creator denom = bal s.bank creator denom - buyCharge s now creator fa days bytes denom referral jp := by
  have := (C04_buy_balances h).2.2.2.2.2.2.2.2 creator denom
  simp only [if_true, Ne.symm h1, Ne.symm h2, Ne.symm h3, Ne.symm h4, if_false] at this
  rw [this]; omega

/-- liquidity account and referral target are credited exactly their shares (needs only: each is
none of the other accounts involved) -/
theorem C04_pol_and_ref_shares {s s' : State} {now : Int} {creator fa : String} {days bytes : Int} {denom : String}
    {referral : Option String} {jp : Dec} {gid gacc : String}
    (h : buyStorage s now creator fa days bytes denom referral jp gid gacc = some s') :
    let T := buyCharge s now creator fa days bytes denom referral jp
    (s.polAcc ≠ s.moduleAcc → s.polAcc ≠ creator → s.polAcc ≠ gacc → s.polAcc ≠ refTarget s creator referral →
      bal s'.bank s.polAcc denom = bal s.bank s.polAcc denom + polCutOf s.params creator referral days T) ∧
    (refTarget s creator referral ≠ s.moduleAcc → refTarget s creator referral ≠ creator →
      refTarget s creator referral ≠ gacc → refTarget s creator referral ≠ s.polAcc →
      bal s'.bank (refTarget s creator referral) denom =
        bal s.bank (refTarget s creator referral) denom + refCutOf s.params T) := by
  have hb := (C04_buy_balances h).2.2.2.2.2.2.2.2
  refine ⟨fun h1 h2 h3 h4 => ?_, fun h1 h2 h3 h4 => ?_⟩
  · have := hb s.polAcc denom
    simp only [if_true, Ne.symm h1, Ne.symm h2, Ne.symm h3, Ne.symm h4, if_false] at this
    rw [this]; omega
  · have := hb (refTarget s creator referral) denom
    simp only [if_true, Ne.symm h1, Ne.symm h2, Ne.symm h3, Ne.symm h4, if_false] at this
    rw [this]; omega

/-- no assumption at all: an account that is not payer, module, gauge, liquidity account or
referral target keeps every balance, and no account's other denominations move -/
theorem C04_only_named_accounts_change {s s' : State} {now : Int} {creator fa : String} {days bytes : Int}
    {denom : String} {referral : Option String} {jp : Dec} {gid gacc : String}
    (h : buyStorage s now creator fa days bytes denom referral jp gid gacc = some s') (a d : String)
    (hor : a ∉ [creator, s.moduleAcc, gacc, s.polAcc, refTarget s creator referral] ∨ d ≠ denom) :
    bal s'.bank a d = bal s.bank a d := by
  have := (C04_buy_balances h).2.2.2.2.2.2.2.2 a d
  rcases hor with hn | hn
  · simp only [List.mem_cons, List.not_mem_nil, or_false, not_or] at hn
    obtain ⟨a1, a2, a3, a4, a5⟩ := hn
    simp only [Ne.symm a1, Ne.symm a2, Ne.symm a3, Ne.symm a4, Ne.symm a5, if_false] at this
    rw [this]; split <;> omega
  · simp only [Ne.symm hn, if_false] at this; rw [this]; omega

/-! ## 3. the shares are the governance-set percentages, rounded down -/

/-- closed forms of the three shares of a price `T ≥ 0`: the referral share is `⌊T·ref/100⌋`; the
provider (gauge) share is `⌊T·(100 − ref − pol)/100⌋` whether or not the purchase is referred; the
liquidity share is `⌊T·(pol − k)/100⌋` where `k = discountPts` is 0 without a distinct referrer,
10 for a referred purchase of at most a year and 5 for a longer one.  (Side conditions: the
percentages involved are non-negative — `pol ≥ k`, `ref + pol ≤ 100`.) -/
theorem C04_shares_closed_form (p : Params) (creator : String) (referral : Option String) (days T : Int)
    (hT : 0 ≤ T) (hr : 0 ≤ p.referralCommission)
    (hp : discountPts (buyReferred creator referral) (buyLong days) ≤ p.polRatio)
    (hs : p.referralCommission + p.polRatio ≤ 100) :
    refCutOf p T = T * p.referralCommission / 100 ∧
    polCutOf p creator referral days T =
      T * (p.polRatio - discountPts (buyReferred creator referral) (buyLong days)) / 100 ∧
    spcOf p creator referral days T = T * (100 - p.referralCommission - p.polRatio) / 100 :=
  ⟨trunc_mul_pct T _ _ (refDecOf_raw p) hT hr,
   trunc_mul_pct T _ _ (buyPol_raw p _ _) hT (by omega),
   trunc_mul_pct T _ _ (buySpr_raw p _ _) hT (by omega)⟩

/-- the liquidity share in the three cases, as the property states it -/
theorem C04_pol_share_cases (p : Params) (creator : String) (referral : Option String) (days T : Int)
    (hT : 0 ≤ T) :
    (buyReferred creator referral = false → 0 ≤ p.polRatio →
      polCutOf p creator referral days T = T * p.polRatio / 100) ∧
    (buyReferred creator referral = true → buyLong days = false → 10 ≤ p.polRatio →
      polCutOf p creator referral days T = T * (p.polRatio - 10) / 100) ∧
    (buyReferred creator referral = true → buyLong days = true → 5 ≤ p.polRatio →
      polCutOf p creator referral days T = T * (p.polRatio - 5) / 100) := by
  refine ⟨fun h1 h2 => ?_, fun h1 h2 h3 => ?_, fun h1 h2 h3 => ?_⟩
  · have := trunc_mul_pct T _ _ (buyPol_raw p (buyReferred creator referral) (buyLong days)) hT
      (by simp [discountPts, h1]; exact h2)
    simpa [polCutOf, discountPts, h1] using this
  · have := trunc_mul_pct T _ _ (buyPol_raw p (buyReferred creator referral) (buyLong days)) hT
      (by simp [discountPts, h1, h2]; omega)
    simpa [polCutOf, discountPts, h1, h2] using this
  · have := trunc_mul_pct T _ _ (buyPol_raw p (buyReferred creator referral) (buyLong days)) hT
      (by simp [discountPts, h1, h2]; omega)
    simpa [polCutOf, discountPts, h1, h2] using this

/-- **Within one base unit.** Each share `⌊T·pct/100⌋` differs from the exact percentage `T·pct/100`
by less than one unit: `100·share ≤ T·pct < 100·share + 100`. -/
theorem C04_shares_within_one_unit (p : Params) (creator : String) (referral : Option String) (days T : Int)
    (hT : 0 ≤ T) (hr : 0 ≤ p.referralCommission)
    (hp : discountPts (buyReferred creator referral) (buyLong days) ≤ p.polRatio)
    (hs : p.referralCommission + p.polRatio ≤ 100) :
    (100 * refCutOf p T ≤ T * p.referralCommission ∧ T * p.referralCommission < 100 * refCutOf p T + 100) ∧
    (100 * polCutOf p creator referral days T
        ≤ T * (p.polRatio - discountPts (buyReferred creator referral) (buyLong days)) ∧
      T * (p.polRatio - discountPts (buyReferred creator referral) (buyLong days))
        < 100 * polCutOf p creator referral days T + 100) ∧
    (100 * spcOf p creator referral days T ≤ T * (100 - p.referralCommission - p.polRatio) ∧
      T * (100 - p.referralCommission - p.polRatio) < 100 * spcOf p creator referral days T + 100) := by
  obtain ⟨e1, e2, e3⟩ := C04_shares_closed_form p creator referral days T hT hr hp hs
  rw [e1, e2, e3]
  generalize T * p.referralCommission = x
  generalize T * (p.polRatio - discountPts (buyReferred creator referral) (buyLong days)) = y
  generalize T * (100 - p.referralCommission - p.polRatio) = z
  omega

/-! ## 4. the credits never exceed the debit -/

/-- Under valid parameters (percentages non-negative, `ref + pol ≤ 100`, and the liquidity
percentage at least the referral discount taken out of it) the three shares are non-negative and
together at most the price: the module account keeps a non-negative remainder.  (The three
percentages add up to `100 − k`, `k = discountPts`: on a referred purchase the module account keeps
`k` percent of the already discounted price besides the rounding residue — see the example at the
end of the file, where it keeps 3602 of 35999.) -/
theorem C04_credits_le_debit (p : Params) (creator : String) (referral : Option String) (days T : Int)
    (hT : 0 ≤ T) (hr : 0 ≤ p.referralCommission)
    (hp : discountPts (buyReferred creator referral) (buyLong days) ≤ p.polRatio)
    (hs : p.referralCommission + p.polRatio ≤ 100) :
    0 ≤ spcOf p creator referral days T ∧ 0 ≤ polCutOf p creator referral days T ∧ 0 ≤ refCutOf p T ∧
    spcOf p creator referral days T + polCutOf p creator referral days T + refCutOf p T ≤ T ∧
    0 ≤ T - spcOf p creator referral days T - polCutOf p creator referral days T - refCutOf p T := by
  obtain ⟨e1, e2, e3⟩ := C04_shares_closed_form p creator referral days T hT hr hp hs
  rw [e1, e2, e3]
  have hk : 0 ≤ discountPts (buyReferred creator referral) (buyLong days) := by
    unfold discountPts
    cases buyReferred creator referral <;> cases buyLong days <;> simp
  generalize discountPts (buyReferred creator referral) (buyLong days) = k at *
  have n1 : 0 ≤ T * p.referralCommission := Int.mul_nonneg hT hr
  have n2 : 0 ≤ T * (p.polRatio - k) := Int.mul_nonneg hT (by omega)
  have n3 : 0 ≤ T * (100 - p.referralCommission - p.polRatio) := Int.mul_nonneg hT (by omega)
  have hsum : T * (100 - p.referralCommission - p.polRatio) + T * (p.polRatio - k) + T * p.referralCommission
      = T * (100 - k) := by
    rw [← Int.mul_add, ← Int.mul_add]; congr 1; omega
  have hle : T * (100 - k) ≤ T * 100 := Int.mul_le_mul_of_nonneg_left (by omega) hT
  generalize T * p.referralCommission = x at *
  generalize T * (p.polRatio - k) = y at *
  generalize T * (100 - p.referralCommission - p.polRatio) = z at *
  generalize T * (100 - k) = w at *
  omega

/-- a referred purchase under a liquidity percentage below the referral discount: the liquidity
share is negative as soon as it reaches one unit in size -/
theorem polCut_negative (p : Params) (creator : String) (referral : Option String) (days T : Int)
    (hT : 0 ≤ T) (hp : p.polRatio ≤ discountPts (buyReferred creator referral) (buyLong days))
    (hbig : 100 ≤ T * (discountPts (buyReferred creator referral) (buyLong days) - p.polRatio)) :
    polCutOf p creator referral days T < 0 := by
  unfold polCutOf
  rw [trunc_mul_pct_neg T _ _ (buyPol_raw p _ _) hT (by omega)]
  have : -(p.polRatio - discountPts (buyReferred creator referral) (buyLong days)) =
      discountPts (buyReferred creator referral) (buyLong days) - p.polRatio := by omega
  rw [this]
  generalize T * (discountPts (buyReferred creator referral) (buyLong days) - p.polRatio) = y at *
  omega

/-- **A negative liquidity share fails the purchase** (`sdk.NewCoins` panics on a negative amount),
e.g. a referred purchase while `polRatio < 10`: nothing is debited. -/
theorem C04_negative_pol_share_fails (s : State) (now : Int) (creator fa : String) (days bytes : Int)
    (denom : String) (referral : Option String) (jp : Dec) (gid gacc : String)
    (hneg : polCutOf s.params creator referral days
      (buyCharge s now creator fa days bytes denom referral jp) < 0) :
    buyStorage s now creator fa days bytes denom referral jp gid gacc = none := by
  cases h : buyStorage s now creator fa days bytes denom referral jp gid gacc with
  | none => rfl
  | some s' =>
    have := (C04_buy_balances h).2.2.2.1
    omega

/-- in parameter terms: a referred purchase while `polRatio` is below the discount (10, or 5 for
more than a year) fails as soon as the price reaches `100/(k − polRatio)` units -/
theorem C04_low_pol_referred_purchase_fails (s : State) (now : Int) (creator fa : String) (days bytes : Int)
    (denom : String) (referral : Option String) (jp : Dec) (gid gacc : String)
    (hT : 0 ≤ buyCharge s now creator fa days bytes denom referral jp)
    (hp : s.params.polRatio ≤ discountPts (buyReferred creator referral) (buyLong days))
    (hbig : 100 ≤ buyCharge s now creator fa days bytes denom referral jp *
      (discountPts (buyReferred creator referral) (buyLong days) - s.params.polRatio)) :
    buyStorage s now creator fa days bytes denom referral jp gid gacc = none :=
  C04_negative_pol_share_fails s now creator fa days bytes denom referral jp gid gacc
    (polCut_negative s.params creator referral days _ hT hp hbig)

/-! ## 5. supply is conserved -/

/-- A successful purchase only moves tokens among the payer, the module account, the gauge account,
the liquidity account and the referral target: the total over any duplicate-free set of accounts
containing them is unchanged, for every denomination. -/
theorem C04_supply_unchanged {s s' : State} {now : Int} {creator fa : String} {days bytes : Int}
    {denom : String} {referral : Option String} {jp : Dec} {gid gacc : String}
    (h : buyStorage s now creator fa days bytes denom referral jp gid gacc = some s')
    (accts : List String) (hnd : accts.Nodup)
    (h1 : creator ∈ accts) (h2 : s.moduleAcc ∈ accts) (h3 : gacc ∈ accts) (h4 : s.polAcc ∈ accts)
    (h5 : refTarget s creator referral ∈ accts) (d : String) :
    total s'.bank accts d = total s.bank accts d := by
  obtain ⟨tp0, su, hb, hp⟩ := buyStorage_spec h
  obtain ⟨b1, b2, b3, -, -, -, -, q1, q2, -, q3, -, q4, -, -⟩ := buyPay_spec hp
  have t1 := total_send q1 accts hnd d
  have t2 := total_send q2 accts hnd d
  have t3 := total_send q3 accts hnd d
  have t4 := total_send q4 accts hnd d
  simp only [h1, h2, h3, h4, h5, if_true] at t1 t2 t3 t4
  omega

/-- each single transfer conserves the sum of the two accounts involved -/
theorem C04_transfer_conserves {src dst : String} {cs : Coins} {b b' : Bank}
    (h : send b src dst cs = some b') (hne : src ≠ dst) (d : String) :
    bal b' src d + bal b' dst d = bal b src d + bal b dst d := by
  have h1 := bal_send h src d
  have h2 := bal_send h dst d
  simp only [Ne.symm hne, hne, if_true, if_false] at h1 h2
  omega

/-! ## 6. the one-time file payment -/

/-- price of a pay-once file: `GetStorageCostKbs` of its footprint and lifetime (0 if it panics) -/
def postCost (s : State) (h : Int) (fs mp ex : Int) (jp : Dec) : Int :=
  (storageCostKbs s.params.pricePerTbPerMonth (postKbs fs mp) (postHours h ex) jp).getD 0

/-- provider share of that price -/
def postSpc (s : State) (cost : Int) : Int := Dec.trunc (Dec.mul (Dec.ofInt cost) (postSpr s.params))

/-- A pay-once post only succeeds when the gauge it creates ends before 10000-01-01 (later instants
cannot be stored: the timestamp codec panics and the transaction fails).  Consequently every gauge
end — and every difference of gauge instants in whole microseconds — fits comfortably in int64:
the reward block's `UnixMicro` arithmetic cannot wrap. -/
theorem C04_payonce_gauge_end_representable {s s' : State} {h now : Int} {creator merkle : String}
    {fs mp ex pt : Int} {note : String} {nv : Bool} {jp : Dec} {gid gacc : String}
    (hs : postFile s h now creator merkle fs mp ex pt note nv jp gid gacc = some s') (hex : ex > 0) :
    0 < postDays h ex ∧ now + postDays h ex * dayNs < protoMaxNs ∧
    Int.tdiv (now + postDays h ex * dayNs) 1000 < 2 ^ 62 := by
  simp only [postFile, bind, Option.bind_eq_some_iff, req_eq_some] at hs
  obtain ⟨_, -, _, -, hs⟩ := hs
  simp only [hex, if_true, Option.bind_eq_some_iff, req_eq_some] at hs
  obtain ⟨_, hd, -⟩ := hs
  have h1 : 0 < postDays h ex := hd.1
  have h2 : now + postDays h ex * dayNs < protoMaxNs := hd.2
  refine ⟨h1, h2, ?_⟩
  have h3 : protoMaxNs = 253402300800000000000 := by decide
  rw [h3] at h2
  have : Int.tdiv (now + postDays h ex * dayNs) 1000 ≤ 253402300800000000 := by
    rw [← Canine.tdiv_eq]; unfold Canine.tdiv; split <;> split <;> omega
  have : (2:Int) ^ 62 = 4611686018427387904 := by decide
  omega

/-- **Pay-once `postFile`.**  The payer is debited exactly the cost, the gauge account credited
exactly the provider share `trunc(cost·(1 − ref/100 − pol/100))`, which is also exactly what the
gauge records; the remainder stays in the module account; nothing else moves (general balance
formula, no assumption on the accounts). -/
theorem C04_postFile_payonce_balances {s s' : State} {h now : Int} {creator merkle : String} {fs mp ex pt : Int}
    {note : String} {nv : Bool} {jp : Dec} {gid gacc : String}
    (hs : postFile s h now creator merkle fs mp ex pt note nv jp gid gacc = some s') (hex : ex > 0) :
    let cost := postCost s h fs mp ex jp
    let spc := postSpc s cost
    storageCostKbs s.params.pricePerTbPerMonth (postKbs fs mp) (postHours h ex) jp = some cost ∧
    0 ≤ cost ∧ 0 ≤ spc ∧ gacc ∉ s.blocked ∧
    (∀ a d, bal s'.bank a d = bal s.bank a d +
      (if "ujkl" = d then
        (if s.moduleAcc = a then cost - spc else 0) - (if creator = a then cost else 0)
        + (if gacc = a then spc else 0)
       else 0)) ∧
    (∃ g, AMap.get s'.gauges gid = some g ∧ g.account = gacc ∧
      g.coins = (match AMap.get s.gauges gid with
                 | some old => addCoins old.coins (coinsOf "ujkl" spc)
                 | none => coinsOf "ujkl" spc)) ∧
    recorded s'.gauges gid "ujkl" = recorded s.gauges gid "ujkl" + spc ∧
    (∀ id, id ≠ gid → AMap.get s'.gauges id = AMap.get s.gauges id) := by
  obtain ⟨cost, b1, hcost, hc0, _, hspc, h1, h2, n2, hg, _⟩ := postFile_payonce_spec hs hex
  intro cost' spc
  have ec : cost' = cost := by simp [cost', postCost, hcost]
  have es : spc = Dec.trunc (Dec.mul (Dec.ofInt cost) (postSpr s.params)) := by simp [spc, postSpc, ec]
  rw [ec, es]
  refine ⟨hcost, hc0, hspc, n2, ?_, ?_, ?_, ?_⟩
  · intro a d
    have q1 := bal_send h1 a d
    have q2 := bal_send h2 a d
    simp only [amt_coinsOf] at q1 q2
    rw [q2, q1]
    by_cases e0 : "ujkl" = d <;> by_cases e1 : s.moduleAcc = a <;> by_cases e2 : creator = a <;>
      by_cases e3 : gacc = a <;> simp only [e0, e1, e2, e3, if_true, if_false] <;> omega
  · rw [hg]; unfold gaugesAfter
    exact ⟨_, AMap.get_set_self _ _ _, rfl, rfl⟩
  · rw [hg]; unfold gaugesAfter recorded
    rw [AMap.get_set_self]
    cases AMap.get s.gauges gid with
    | none => simp [amt_coinsOf]
    | some old => simp [amt_addCoins, amt_coinsOf]
  · intro id hne
    rw [hg]; unfold gaugesAfter
    exact AMap.get_set_other _ _ _ _ (Ne.symm hne)

/-- the same for pairwise distinct payer, module and gauge accounts, plus the remainder bound under
valid parameters -/
theorem C04_postFile_payonce_accounting {s s' : State} {h now : Int} {creator merkle : String} {fs mp ex pt : Int}
    {note : String} {nv : Bool} {jp : Dec} {gid gacc : String}
    (hs : postFile s h now creator merkle fs mp ex pt note nv jp gid gacc = some s') (hex : ex > 0)
    (hd : [creator, s.moduleAcc, gacc].Nodup) :
    let cost := postCost s h fs mp ex jp
    let spc := postSpc s cost
    0 ≤ cost ∧ 0 ≤ spc ∧
    bal s'.bank creator "ujkl" = bal s.bank creator "ujkl" - cost ∧
    bal s'.bank gacc "ujkl" = bal s.bank gacc "ujkl" + spc ∧
    recorded s'.gauges gid "ujkl" = recorded s.gauges gid "ujkl" + spc ∧
    bal s'.bank s.moduleAcc "ujkl" = bal s.bank s.moduleAcc "ujkl" + (cost - spc) ∧
    (∀ a d, a ∉ [creator, s.moduleAcc, gacc] ∨ d ≠ "ujkl" → bal s'.bank a d = bal s.bank a d) ∧
    (0 ≤ s.params.referralCommission → 0 ≤ s.params.polRatio →
      s.params.referralCommission + s.params.polRatio ≤ 100 →
      spc = cost * (100 - s.params.referralCommission - s.params.polRatio) / 100 ∧ spc ≤ cost) := by
  have hB := C04_postFile_payonce_balances hs hex
  simp only at hB
  obtain ⟨-, hc0, hspc, -, hbal, -, hrec, -⟩ := hB
  simp only [List.nodup_cons, List.mem_cons, List.not_mem_nil, or_false, not_or, List.nodup_nil,
    and_true, not_false_eq_true] at hd
  obtain ⟨⟨c1, c2⟩, m1⟩ := hd
  refine ⟨hc0, hspc, ?_, ?_, hrec, ?_, ?_, ?_⟩
  · have := hbal creator "ujkl"
    simp only [if_true, Ne.symm c1, Ne.symm c2, if_false] at this
    rw [this]; omega
  · have := hbal gacc "ujkl"
    simp only [if_true, m1, c2, if_false] at this
    rw [this]; omega
  · have := hbal s.moduleAcc "ujkl"
    simp only [if_true, c1, Ne.symm m1, if_false] at this
    rw [this]; omega
  · intro a d hor
    have := hbal a d
    rcases hor with hn | hn
    · simp only [List.mem_cons, List.not_mem_nil, or_false, not_or] at hn
      obtain ⟨a1, a2, a3⟩ := hn
      simp only [Ne.symm a1, Ne.symm a2, Ne.symm a3, if_false] at this
      rw [this]; split <;> omega
    · simp only [Ne.symm hn, if_false] at this; rw [this]; omega
  · intro hr hp hsum
    have e : postSpc s (postCost s h fs mp ex jp) =
        postCost s h fs mp ex jp * (100 - s.params.referralCommission - s.params.polRatio) / 100 :=
      trunc_mul_pct _ _ _ (postSpr_raw s.params) hc0 (by omega)
    refine ⟨e, ?_⟩
    rw [e]
    have n : 0 ≤ postCost s h fs mp ex jp * (s.params.referralCommission + s.params.polRatio) :=
      Int.mul_nonneg hc0 (by omega)
    have hsplit : postCost s h fs mp ex jp * (100 - s.params.referralCommission - s.params.polRatio)
        + postCost s h fs mp ex jp * (s.params.referralCommission + s.params.polRatio)
        = postCost s h fs mp ex jp * 100 := by
      rw [← Int.mul_add]; congr 1; omega
    generalize postCost s h fs mp ex jp * (100 - s.params.referralCommission - s.params.polRatio) = x at *
    generalize postCost s h fs mp ex jp * (s.params.referralCommission + s.params.polRatio) = y at *
    omega

/-- the plan-paid branch (`expires ≤ 0`) moves no tokens at all and creates no gauge -/
theorem C04_postFile_plan_moves_no_tokens {s s' : State} {h now : Int} {creator merkle : String} {fs mp ex pt : Int}
    {note : String} {nv : Bool} {jp : Dec} {gid gacc : String}
    (hs : postFile s h now creator merkle fs mp ex pt note nv jp gid gacc = some s') (hex : ¬ ex > 0) :
    s'.bank = s.bank ∧ s'.gauges = s.gauges :=
  have h := postFile_plan_sameMoney hs hex
  ⟨h.bank, h.gauges⟩


/-! ## 7. regression witness and non-vacuity -/

/-- the pre-fix payment stage: the referrer was sent the *liquidity* tokens -/
def payReferralUnfixed (s : State) (creator : String) (referral : Option String)
    (polTokens refTokens : Coins) : Option Bank :=
  match referral with
  | some r => if buyReferred creator referral then sendFromModule s s.moduleAcc r polTokens
              else Bank.send s.bank s.moduleAcc s.feeAcc refTokens
  | none => Bank.send s.bank s.moduleAcc s.feeAcc refTokens

def buyPayUnfixed (s : State) (now : Int) (creator forAddress : String) (durationDays bytes : Int)
    (denom : String) (referral : Option String) (gaugeId gaugeAcc : String) (toPay0 spaceUsed : Int) : Option State := do
  let referred := buyReferred creator referral
  let long := buyLong durationDays
  let toPay := buyToPay toPay0 referred long
  req (0 ≤ toPay)
  let payCoins ← Bank.newCoins denom toPay
  let b1 ← Bank.send s.bank creator s.moduleAcc payCoins
  let spcTokens ← Bank.newCoins denom (Dec.trunc (Dec.mul (Dec.ofInt toPay) (buySpr s.params referred long)))
  let b2 ← sendFromModule { s with bank := b1 } s.moduleAcc gaugeAcc spcTokens
  let polTokens ← Bank.newCoins denom (Dec.trunc (Dec.mul (Dec.ofInt toPay) (buyPol s.params referred long)))
  let b3 ← sendFromModule { s with bank := b2 } s.moduleAcc s.polAcc polTokens
  let refTokens ← Bank.newCoins denom (Dec.trunc (Dec.mul (Dec.ofInt toPay) (refDecOf s.params)))
  let b4 ← payReferralUnfixed { s with bank := b3 } creator referral polTokens refTokens
  some { s with
    bank := b4,
    payinfo := AMap.set s.payinfo forAddress
      { startT := now, endT := now + I64.mul durationDays dayNs, spaceAvailable := bytes,
        spaceUsed := spaceUsed, address := forAddress },
    gauges := gaugesAfter s.gauges now gaugeId gaugeAcc spcTokens (now + I64.mul durationDays dayNs) }

def buyStorageUnfixed (s : State) (now : Int) (creator fa : String) (days bytes : Int) (denom : String)
    (referral : Option String) (jp : Dec) (gid gacc : String) : Option State :=
  (buyBase s now fa days bytes denom jp).bind
    (fun p => buyPayUnfixed s now creator fa days bytes denom referral gid gacc p.1 p.2)

/-- default parameters: referral commission 25 %, liquidity share 40 % -/
def exParams : Params :=
  { proofWindow := 50, checkWindow := 100, chunkSize := 1024, pricePerTbPerMonth := 8,
    collateralPrice := 10000000000, attestFormSize := 5, attestMinToPass := 3,
    referralCommission := 25, polRatio := 40 }

def exBuy : State :=
  { files := [], files2 := [], proofs := [], providers := [], payinfo := [], collateral := [],
    gauges := [], attests := [], reports := [],
    bank := [(("alice", "ujkl"), 100000000)],
    params := exParams, moduleAcc := "storage", collateralAcc := "coll", polAcc := "pol", feeAcc := "fees",
    blocked := ["coll", "fees", "storage"] }

/-- JKL price 0.20 -/
def exPrice : Dec := ⟨200000000000000000⟩

/-- Non-vacuity: alice buys 3 GB for 30 days naming bob as referrer.  The price is
⌊39999 · 0.90⌋ = 35999; the gauge gets 35 %, the liquidity account 40 − 10 = 30 %, bob 25 %. -/
example : buyCharge exBuy 1000 "alice" "alice" 30 3000000000 "ujkl" (some "bob") exPrice = 35999 := by decide
example : (buyStorage exBuy 1000 "alice" "alice" 30 3000000000 "ujkl" (some "bob") exPrice "g1" "gauge1").map (·.bank)
    = some [(("alice", "ujkl"), 99964001), (("storage", "ujkl"), 3602), (("gauge1", "ujkl"), 12599),
            (("pol", "ujkl"), 10799), (("bob", "ujkl"), 8999)] := by decide
example : (buyAccounts exBuy "alice" "gauge1" (some "bob")).Nodup := by decide
example : (buyStorage exBuy 1000 "alice" "alice" 30 3000000000 "ujkl" (some "bob") exPrice "g1" "gauge1").map (·.gauges)
    = some [("g1", { id := "g1", startT := 1000, endT := 2592000000001000, coins := [("ujkl", 12599)],
                     account := "gauge1" })] := by decide
/-- without a referrer the full price 39999 is charged and the fee pool gets the 25 % -/
example : (buyStorage exBuy 1000 "alice" "alice" 30 3000000000 "ujkl" none exPrice "g1" "gauge1").map (·.bank)
    = some [(("alice", "ujkl"), 99960001), (("storage", "ujkl"), 2), (("gauge1", "ujkl"), 13999),
            (("pol", "ujkl"), 15999), (("fees", "ujkl"), 9999)] := by decide
/-- the shares are the closed forms of `C04_shares_closed_form` -/
example : (35999 * 25 / 100 : Int) = 8999 ∧ (35999 * (40 - 10) / 100 : Int) = 10799 ∧
    (35999 * (100 - 25 - 40) / 100 : Int) = 12599 := by decide

/-- **Regression witness**: with the pre-fix code the referrer receives the 30 % liquidity amount
(10799) instead of its 25 % commission (8999). -/
example : (buyStorageUnfixed exBuy 1000 "alice" "alice" 30 3000000000 "ujkl" (some "bob") exPrice "g1" "gauge1").map
    (fun s => bal s.bank "bob" "ujkl") = some 10799 := by decide
example : (buyStorage exBuy 1000 "alice" "alice" 30 3000000000 "ujkl" (some "bob") exPrice "g1" "gauge1").map
    (fun s => bal s.bank "bob" "ujkl") = some 8999 := by decide

/-- a referred purchase under `polRatio = 5 < 10` fails (negative liquidity share) and debits nothing -/
example : buyStorage { exBuy with params := { exParams with polRatio := 5 } } 1000 "alice" "alice" 30 3000000000
    "ujkl" (some "bob") exPrice "g1" "gauge1" = none := by decide

/-- a pay-once file: 1 MB × 3 copies for about 100 days -/
example : (postFile exBuy 10 1000 "alice" "abcd" 1000000 3 1440010 0 "{}" true exPrice "g2" "gauge2").map (·.bank)
    = some [(("alice", "ujkl"), 99999867), (("storage", "ujkl"), 87), (("gauge2", "ujkl"), 46)] := by decide
example : postCost exBuy 10 1000000 3 1440010 exPrice = 133 ∧ (133 * (100 - 25 - 40) / 100 : Int) = 46 := by decide

/-! ## The price formulas as they stand in the source (regenerated tie) -/

/-- `GetStorageCostKbsWithPrice`, translated from x/storage/keeper/utils.go on every run, is the
model's `storageCostKbs` (its only outside input being the JKL price). -/
theorem C04_generated_kbs_price_is_the_model (pp kbs hours : Int) (jkl : Dec) :
    Generated.Pure.GetStorageCostKbsWithPrice jkl kbs hours pp = storageCostKbs pp kbs hours jkl ∧
    Generated.Pure.GetStorageCostKbsWithPrice_inputs = ["k.GetJklPrice(ctx)"] := by
  refine ⟨?_, rfl⟩
  simp only [Generated.Pure.GetStorageCostKbsWithPrice, storageCostKbs, bind, Option.bind]

/-- `GetStorageCost`, translated from the source on every run, is the model's `storageCost`: the
same tiers (≥ 20 000 GB, ≥ 5 000 GB), the same monthly/yearly switch at 365·24 hours, the same
decimal constants, the same order of truncating divisions. -/
theorem C04_generated_plan_price_is_the_model (pp gbs hours : Int) (jkl : Dec) :
    Generated.Pure.GetStorageCost pp jkl gbs hours = storageCost pp gbs hours jkl ∧
    Generated.Pure.GetStorageCost_inputs = ["k.GetParams(ctx).PricePerTbPerMonth", "k.GetJklPrice(ctx)"] := by
  refine ⟨?_, rfl⟩
  unfold Generated.Pure.GetStorageCost storageCost
  by_cases h1 : hours < 365 * 24 <;> by_cases h2 : gbs ≥ 20000 <;> by_cases h3 : gbs ≥ 5000 <;>
    simp only [h1, h2, h3, decide_true, decide_false, if_true, if_false, bind, Option.bind, dec12_5,
      dec10_42, dec11_67, Option.map, Bool.false_eq_true] <;>
    (try rfl)

/-- The three cuts of a plan purchase — `storageProviderCut`, `polCut`, `refCut`, sliced out of
`BuyStorage` and translated on every run as functions of the amount paid, the referral
percentage, the liquidity share `pol` and the `discount` (both decided on the referred / long
branch) — are the expressions the model's `buyStorage` evaluates and the C04 share theorems are
about: amount × (1 − ref/100 − pol − discount), amount × pol, amount × ref/100, each on exact
decimals, truncated only when turned into coins. -/
theorem C04_generated_plan_cuts_are_the_model (refComm toPay : Int) (pol discount : Dec) :
    Generated.Pure.BuyStorage_storageProviderCut refComm pol discount toPay =
      Dec.mul (Dec.ofInt toPay)
        (Dec.sub (Dec.sub (Dec.sub Dec.one (Dec.quoInt (Dec.ofInt refComm) 100)) pol) discount) ∧
    Generated.Pure.BuyStorage_polCut toPay pol = Dec.mul (Dec.ofInt toPay) pol ∧
    Generated.Pure.BuyStorage_refCut refComm toPay = Dec.mul (Dec.ofInt toPay) (Dec.quoInt (Dec.ofInt refComm) 100) ∧
    Generated.Pure.BuyStorage_storageProviderCut_inputs = ["params.ReferralCommission", "pol", "discount", "toPay.Amount"] ∧
    Generated.Pure.BuyStorage_polCut_inputs = ["toPay.Amount", "pol"] ∧
    Generated.Pure.BuyStorage_refCut_inputs = ["params.ReferralCommission", "toPay.Amount"] :=
  ⟨rfl, rfl, rfl, rfl, rfl, rfl⟩

/-- The paid period and the provider cut of a one-time-payment post, sliced out of `PostFile`:
`days = ((Expires − height)·6 / 60 / 60) / 24` (the model's `postDays`, as long as the product
stays inside int64 — beyond it the model wraps like the chain does) and
`cut = cost × (1 − ref/100 − pol/100)` (the model's `postSpr`). -/
theorem C04_generated_payonce_terms_are_the_model (h ex cost : Int) (p : Params)
    (hr : I64.inRange ((ex - h) * 6) = true) :
    Generated.Pure.PostFile_days ex h = postDays h ex ∧
    Generated.Pure.PostFile_storageProviderCut p.referralCommission p.polRatio cost =
      Dec.mul (Dec.ofInt cost) (postSpr p) ∧
    Generated.Pure.PostFile_days_inputs = ["msg.Expires", "ctx.BlockHeight()"] ∧
    Generated.Pure.PostFile_storageProviderCut_inputs = ["params.ReferralCommission", "params.PolRatio", "toPay.Amount"] := by
  refine ⟨?_, rfl, rfl, rfl⟩
  unfold Generated.Pure.PostFile_days postDays postHours
  have : I64.mul (ex - h) 6 = (ex - h) * 6 := by
    unfold I64.inRange I64.minV I64.maxV at hr
    simp only [Bool.and_eq_true, decide_eq_true_eq] at hr
    unfold I64.mul I64.wrap
    omega
  rw [this]

/-- The duration and upgrade arithmetic of a plan purchase, sliced from `BuyStorage` and
`UpgradeStorage`: the plan length in hours is the millisecond duration divided by 3 600 000 (as a
decimal, truncated where it is used), the remaining time of the running plan likewise, the old
plan's size in whole GB is `SpaceAvailable / gb`, and the upgrade price is the new plan's full
price minus `GetStorageCost(currentGbs, remaining hours)` — the terms of the model's `buyStorage` /
`upgradeCost`. -/
theorem C04_generated_upgrade_terms_are_the_model (ms left avail newCost oldCost : Int) :
    Generated.Pure.BuyStorage_hours ms = Dec.quo? (Dec.ofInt ms) (Dec.ofInt hourMs) ∧
    Generated.Pure.UpgradeStorage_proratedDurationInHour left = Dec.quo? (Dec.ofInt left) (Dec.ofInt hourMs) ∧
    Generated.Pure.UpgradeStorage_currentGbs avail gb = Int.tdiv avail gb ∧
    Generated.Pure.UpgradeStorage_price newCost oldCost = some (newCost - oldCost) ∧
    Generated.Pure.BuyStorage_hours_inputs = ["duration.Milliseconds()"] ∧
    Generated.Pure.UpgradeStorage_proratedDurationInHour_inputs = ["proratedDuration.Milliseconds()"] ∧
    Generated.Pure.UpgradeStorage_currentGbs_inputs = ["payInfo.SpaceAvailable", "gb"] ∧
    Generated.Pure.UpgradeStorage_price_inputs =
      ["storageCost", "k.GetStorageCost(ctx, currentGbs, proratedDurationInHour.TruncateInt64())"] := by
  refine ⟨?_, ?_, rfl, rfl, rfl, rfl, rfl, rfl⟩
  · unfold Generated.Pure.BuyStorage_hours
    simp only [bind, Option.bind]
    have : Dec.ofInt (60 * 60 * 1000) = Dec.ofInt hourMs := by decide
    rw [this]; cases Dec.quo? (Dec.ofInt ms) (Dec.ofInt hourMs) <;> rfl
  · unfold Generated.Pure.UpgradeStorage_proratedDurationInHour
    simp only [bind, Option.bind]
    have : Dec.ofInt (60 * 60 * 1000) = Dec.ofInt hourMs := by decide
    rw [this]; cases Dec.quo? (Dec.ofInt left) (Dec.ofInt hourMs) <;> rfl

/-! ## The parameter table as it stands in the source (regenerated fact) -/

/-- Which store key of the `storage` parameter subspace is bound to which field of `Params`, with
which validator (x/storage/types/params.go, `ParamSetPairs`): a governance change addresses a
parameter *by key*, so the percentages the C04 theorems speak of are the ones governance set only
while `POLRatio` writes `PolRatio`, `Referrals` writes `ReferralCommission`, and so on. -/
def C04_expectedParamPairs : List (String × String × String) := [
  ("KeyDepositAccount", "&p.DepositAccount", "validateDeposit"),
  ("KeyProofWindow", "&p.ProofWindow", "validateProofWindow"),
  ("KeyChunkSize", "&p.ChunkSize", "validateChunkSize"),
  ("KeyMissesToBurn", "&p.MissesToBurn", "validateMissesToBurn"),
  ("KeyPriceFeed", "&p.PriceFeed", "validatePriceFeed"),
  ("KeyMaxContractAgeInBlocks", "&p.MaxContractAgeInBlocks", "validateMaxContractAgeInBlocks"),
  ("KeyPricePerTbPerMonth", "&p.PricePerTbPerMonth", "validatePricePerTbPerMonth"),
  ("KeyAttestFormSize", "&p.AttestFormSize", "validateAttestFormSize"),
  ("KeyAttestMinToPass", "&p.AttestMinToPass", "validateAttestMinToPass"),
  ("KeyCollateralPrice", "&p.CollateralPrice", "validateCollateralPrice"),
  ("KeyCheckWindow", "&p.CheckWindow", "validateCheckWindow"),
  ("KeyPOLRatio", "&p.PolRatio", "validateInt64"),
  ("KeyReferrals", "&p.ReferralCommission", "validateInt64")]

theorem C04_param_keys_as_modelled : Generated.paramPairs_storage = C04_expectedParamPairs := by decide

end Canine.Storage
