/-
C17 — Stored-file indexes and prover lists stay mutually consistent: the by-content and by-owner
listings contain exactly the same files with identical contents; a file's prover list has no
duplicates and never exceeds the replication limit; every listed prover has a retrievable record
that refers back to that file.  Preserved by every message and by the reward block.
-/
import Canine.Proofs.StorageE
import Canine.Proofs.QueryStorage
import Canine.Generated.KeyFacts
namespace Canine.Storage

/-- The invariant, spelled out (`IndexInv` and `FileOK` are defined in `Canine/Proofs/StorageE.lean`;
this is their verbatim unfolding). -/
theorem C17_IndexInv_iff (s : State) :
    IndexInv s ↔
      (AMap.WF s.files ∧ AMap.WF s.files2 ∧ AMap.WF s.proofs) ∧
      (∀ k, AMap.get s.files k = AMap.get s.files2 k) ∧
      (∀ k f, AMap.get s.files k = some f →
        f.key = k ∧ f.proofs.Nodup ∧ (f.proofs.length : Int) ≤ f.maxProofs ∧
        ∀ pk ∈ f.proofs, pk.2 = k ∧
          ∃ p, AMap.get s.proofs pk = some p ∧ p.prover = pk.1 ∧ (p.merkle, p.owner, p.start) = k) := by
  constructor
  · intro ⟨a, b, c, d, e⟩; exact ⟨⟨a, b, c⟩, d, e⟩
  · intro ⟨⟨a, b, c⟩, d, e⟩; exact ⟨a, b, c, d, e⟩

/-- **Every message preserves the invariant.** -/
theorem C17_invariant_preserved_by_messages (s s' : State) (h now : Int) (op : Op)
    (hstep : step s h now op = some s') (hinv : IndexInv s) : IndexInv s' := by
  cases op with
  | postFile c m fs mp ex pt note nv jp gid gacc => exact indexInv_postFile hstep hinv
  | deleteFile c m st =>
    simp only [step, deleteFile, Option.some.injEq] at hstep; subst hstep
    exact indexInv_removeFile _ hinv
  | buyStorage c fa dd b dn ref jp gid gacc => exact hinv.ofSame (sameIdx_buyStorage hstep)
  | initProvider c ip kb ts iv => exact hinv.ofSame (sameIdx_initProvider hstep)
  | shutdownProvider c => exact hinv.ofSame (sameIdx_shutdownProvider hstep)
  | setProviderIP c ip iv =>
    simp only [step] at hstep
    split at hstep
    · exact hinv.ofSame (sameIdx_updProvider hstep)
    · simp at hstep
  | setProviderKeybase c kb => exact hinv.ofSame (sameIdx_updProvider hstep)
  | setProviderTotalSpace c sp => exact hinv.ofSame (sameIdx_updProvider hstep)
  | addClaimer c cl => exact hinv.ofSame (sameIdx_updProvider hstep)
  | removeClaimer c cl => exact hinv.ofSame (sameIdx_updProvider hstep)
  | postProof c m o st tp v nc =>
    simp only [step, Option.some.injEq] at hstep; subst hstep
    exact indexInv_postProof _ _ _ _ _ _ _ _ _ hinv
  | requestAttest c m o st ec ch =>
    simp only [step, Option.some.injEq] at hstep; subst hstep
    split
    · exact hinv.frame rfl rfl rfl
    · exact hinv
  | attest c p m o st =>
    simp only [step, Option.some.injEq] at hstep; subst hstep
    exact indexInv_attest _ _ _ _ _ _ _ hinv
  | requestReport c p m o st ec ch =>
    simp only [step, Option.some.injEq] at hstep; subst hstep
    split
    · exact hinv.frame rfl rfl rfl
    · exact hinv
  | report c p m o st => exact indexInv_report hstep hinv


/-- **The reward block preserves the invariant** (the whole BeginBlocker: dropping empty old files,
removing failing provers and burning their contracts, releasing gauges, paying provers). -/
theorem C17_invariant_preserved_by_reward_block (s s' : State) (h now : Int)
    (hblock : beginBlock s h now = .ok s') (hinv : IndexInv s) : IndexInv s' :=
  indexInv_beginBlock hblock hinv

/-- one event of a history preserves the invariant -/
theorem C17_event_preserves (s : State) (ev : Ev) (hinv : IndexInv s) : IndexInv (applyEv s ev) := by
  cases ev with
  | msg h now op =>
    simp only [applyEv]
    cases hs : step s h now op with
    | none => exact hinv
    | some s' => exact C17_invariant_preserved_by_messages s s' h now op hs hinv
  | block h now =>
    simp only [applyEv]
    cases hs : beginBlock s h now with
    | error e => exact hinv
    | ok s' => exact indexInv_beginBlock hs hinv

/-- **Along every history** of messages and blocks, from any state without files and records
(in particular the empty genesis), the invariant holds. -/
theorem C17_along_histories (evs : List Ev) (s0 : State) (h0 : emptyIdx s0) :
    IndexInv (runEvs s0 evs) := by
  have : ∀ (evs : List Ev) (s : State), IndexInv s → IndexInv (runEvs s evs) := by
    intro evs
    induction evs with
    | nil => intro s h; exact h
    | cons ev t ih => intro s h; exact ih _ (C17_event_preserves s ev h)
  exact this evs s0 (indexInv_empty h0)

/-- … and from any state that already satisfies it. -/
theorem C17_along_histories_from (evs : List Ev) (s : State) (h : IndexInv s) :
    IndexInv (runEvs s evs) := by
  induction evs generalizing s with
  | nil => exact h
  | cons ev t ih => exact ih _ (C17_event_preserves s ev h)

/-! ### Readable corollaries -/

/-- a file is found through the by-content listing iff it is found through the by-owner listing,
and then with identical contents -/
theorem C17_found_by_either_route (s : State) (hinv : IndexInv s) (k : FKey) (f : File) :
    AMap.get s.files k = some f ↔ AMap.get s.files2 k = some f := by
  rw [hinv.same k]

/-- …also as membership of the raw listings (what an iterator over either index sees) -/
theorem C17_listed_by_either_route (s : State) (hinv : IndexInv s) (k : FKey) (f : File) :
    (k, f) ∈ s.files ↔ (k, f) ∈ s.files2 := by
  constructor
  · intro h
    exact AMap.mem_of_get (by rw [← hinv.same k]; exact AMap.get_of_mem_wf hinv.wfFiles h)
  · intro h
    exact AMap.mem_of_get (by rw [hinv.same k]; exact AMap.get_of_mem_wf hinv.wfFiles2 h)

/-- each index lists a file at most once -/
theorem C17_each_file_listed_once (s : State) (hinv : IndexInv s) :
    (s.files.map (·.1)).Nodup ∧ (s.files2.map (·.1)).Nodup := ⟨hinv.wfFiles, hinv.wfFiles2⟩

theorem C17_no_duplicate_provers (s : State) (hinv : IndexInv s) (k : FKey) (f : File)
    (hf : AMap.get s.files k = some f) : f.proofs.Nodup := (hinv.ok k f hf).2.1

theorem C17_never_above_replication_limit (s : State) (hinv : IndexInv s) (k : FKey) (f : File)
    (hf : AMap.get s.files k = some f) : (f.proofs.length : Int) ≤ f.maxProofs := (hinv.ok k f hf).2.2.1

theorem C17_listed_prover_has_backreferencing_record (s : State) (hinv : IndexInv s) (k : FKey) (f : File)
    (hf : AMap.get s.files k = some f) (pk : PKey) (hpk : pk ∈ f.proofs) :
    pk.2 = k ∧ ∃ p, AMap.get s.proofs pk = some p ∧ p.prover = pk.1 ∧
      (p.merkle, p.owner, p.start) = (f.merkle, f.owner, f.start) := by
  obtain ⟨k1, _, _, k4⟩ := hinv.ok k f hf
  obtain ⟨e, p, hp, r1, r2⟩ := k4 pk hpk
  exact ⟨e, p, hp, r1, by rw [r2, ← k1]; rfl⟩

/-- the stored file sits under its own key in both indexes -/
theorem C17_file_stored_under_its_key (s : State) (hinv : IndexInv s) (k : FKey) (f : File)
    (hf : AMap.get s.files k = some f) : (f.merkle, f.owner, f.start) = k := (hinv.ok k f hf).1

/-! ### The raw store keys cannot be aliased -/

/-- `%x/%s/%d/` on character lists -/
def primaryKey (m o d : List Char) : List Char := m ++ '/' :: (o ++ '/' :: (d ++ ['/']))
/-- `%s/%x/%d/` -/
def secondaryKey (o m d : List Char) : List Char := o ++ '/' :: (m ++ '/' :: (d ++ ['/']))

theorem prefix_unique : ∀ (a a' r r' : List Char), '/' ∉ a → '/' ∉ a' →
    a ++ '/' :: r = a' ++ '/' :: r' → a = a' ∧ r = r'
  | [], [], r, r', _, _, h => by simpa using h
  | [], c :: cs, r, r', _, h2, h => by
    simp at h; exact absurd h.1 (fun e => h2 (by rw [← e]; simp))
  | c :: cs, [], r, r', h1, _, h => by
    simp at h; exact absurd h.1 (fun e => h1 (by rw [e]; simp))
  | c :: cs, c' :: cs', r, r', h1, h2, h => by
    simp only [List.cons_append, List.cons.injEq] at h
    have := prefix_unique cs cs' r r' (fun e => h1 (by simp [e])) (fun e => h2 (by simp [e])) h.2
    exact ⟨by rw [h.1, this.1], this.2⟩

theorem three_fields_injective (a b d a' b' d' : List Char) (ha' : '/' ∉ a') (hb' : '/' ∉ b')
    (hd' : '/' ∉ d')
    (h : a ++ '/' :: (b ++ '/' :: (d ++ ['/'])) = a' ++ '/' :: (b' ++ '/' :: (d' ++ ['/']))) :
    a = a' ∧ b = b' ∧ d = d' := by
  have hc := congrArg (List.count '/') h
  simp only [List.count_append, List.count_cons, List.count_nil] at hc
  have z1 : List.count '/' a' = 0 := List.count_eq_zero.mpr ha'
  have z2 : List.count '/' b' = 0 := List.count_eq_zero.mpr hb'
  have z3 : List.count '/' d' = 0 := List.count_eq_zero.mpr hd'
  simp only [z1, z2, z3, beq_self_eq_true, if_true] at hc
  have ha : '/' ∉ a := List.count_eq_zero.mp (by omega)
  have hb : '/' ∉ b := List.count_eq_zero.mp (by omega)
  have hd : '/' ∉ d := List.count_eq_zero.mp (by omega)
  have h1 := prefix_unique a a' _ _ ha ha' h
  have h2 := prefix_unique b b' _ _ hb hb' h1.2
  have h3 := prefix_unique d d' [] [] hd hd' h2.2
  exact ⟨h1.1, h2.1, h3.1⟩

/-- **Primary key injectivity.**  If the components of a stored key are '/'-free (hex text, a
bech32 owner, a decimal number), a key built from *arbitrary* texts equals it only when all three
components are equal: crafted separators cannot make one file answer for another. -/
theorem C17_primaryKey_injective (m o d m' o' d' : List Char) (hm' : '/' ∉ m') (ho' : '/' ∉ o')
    (hd' : '/' ∉ d') (h : primaryKey m o d = primaryKey m' o' d') : m = m' ∧ o = o' ∧ d = d' :=
  three_fields_injective m o d m' o' d' hm' ho' hd' h

theorem C17_secondaryKey_injective (o m d o' m' d' : List Char) (ho' : '/' ∉ o') (hm' : '/' ∉ m')
    (hd' : '/' ∉ d') (h : secondaryKey o m d = secondaryKey o' m' d') : o = o' ∧ m = m' ∧ d = d' :=
  three_fields_injective o m d o' m' d' ho' hm' hd' h

/-- `%d` of an `int64` on character lists -/
def decChars : Int → List Char
  | .ofNat n => Nat.toDigits 10 n
  | .negSucc n => '-' :: Nat.toDigits 10 (n + 1)

theorem decChars_eq_toString (i : Int) : (toString i).toList = decChars i := by
  cases i with
  | ofNat n => simp [decChars, toString, Int.repr, Nat.toList_repr]
  | negSucc n => simp [decChars, toString, Int.repr, Nat.toList_repr]

theorem slash_not_in_digits (n : Nat) : '/' ∉ Nat.toDigits 10 n := by
  intro h
  have := Nat.isDigit_of_mem_toDigits (by decide) (by decide) h
  exact absurd this (by decide)

theorem slash_not_in_decChars (i : Int) : '/' ∉ decChars i := by
  cases i with
  | ofNat n => exact slash_not_in_digits n
  | negSucc n =>
    simp only [decChars, List.mem_cons, not_or]
    exact ⟨by decide, slash_not_in_digits _⟩

theorem toDigits_inj {a b : Nat} (h : Nat.toDigits 10 a = Nat.toDigits 10 b) : a = b := by
  have := congrArg (fun l => Nat.ofDigitChars 10 l 0) h
  simpa [Nat.ofDigitChars_ten_toDigits] using this

theorem decChars_inj {i j : Int} (h : decChars i = decChars j) : i = j := by
  have minus : ∀ (a b : Nat), '-' :: Nat.toDigits 10 a ≠ Nat.toDigits 10 b := by
    intro a b e
    have hm : '-' ∈ Nat.toDigits 10 b := by rw [← e]; simp
    exact absurd (Nat.isDigit_of_mem_toDigits (by decide) (by decide) hm) (by decide)
  cases i with
  | ofNat a =>
    cases j with
    | ofNat b => simp only [decChars] at h; rw [toDigits_inj h]
    | negSucc b => simp only [decChars] at h; exact absurd h.symm (minus _ _)
  | negSucc a =>
    cases j with
    | ofNat b => simp only [decChars] at h; exact absurd h (minus _ _)
    | negSucc b =>
      simp only [decChars, List.cons.injEq, true_and] at h
      have := toDigits_inj h
      rw [show a = b by omega]

/-- With the real `%d` rendering of the start height: two stored primary keys coincide only for
the same (hex, owner, height). -/
theorem C17_primaryKey_injective_int (m o m' o' : List Char) (st st' : Int) (hm' : '/' ∉ m')
    (ho' : '/' ∉ o') (h : primaryKey m o (decChars st) = primaryKey m' o' (decChars st')) :
    m = m' ∧ o = o' ∧ st = st' := by
  obtain ⟨a, b, c⟩ := C17_primaryKey_injective _ _ _ _ _ _ hm' ho' (slash_not_in_decChars st') h
  exact ⟨a, b, decChars_inj c⟩

theorem C17_secondaryKey_injective_int (o m o' m' : List Char) (st st' : Int) (ho' : '/' ∉ o')
    (hm' : '/' ∉ m') (h : secondaryKey o m (decChars st) = secondaryKey o' m' (decChars st')) :
    o = o' ∧ m = m' ∧ st = st' := by
  obtain ⟨a, b, c⟩ := C17_secondaryKey_injective _ _ _ _ _ _ ho' hm' (slash_not_in_decChars st') h
  exact ⟨a, b, decChars_inj c⟩


/-! ### Non-vacuity -/
namespace C17Ex

def exParams : Params :=
  { proofWindow := 50, checkWindow := 100, chunkSize := 1024, pricePerTbPerMonth := 8,
    collateralPrice := 1000, attestFormSize := 3, attestMinToPass := 2, referralCommission := 25,
    polRatio := 40 }

def exKey : FKey := ("aa", "owner", 7)

def exFile : File :=
  { merkle := "aa", owner := "owner", start := 7, expires := 0, fileSize := 100, proofInterval := 50,
    proofType := 0, proofs := [("p1", exKey), ("p2", exKey)], maxProofs := 3, note := "{}" }

def exRecord (prover : String) : Proof :=
  { prover := prover, merkle := "aa", owner := "owner", start := 7, lastProven := 8, chunkToProve := 0 }

/-- one file, two provers, their two records -/
def exState : State :=
  { files := [(exKey, exFile)], files2 := [(exKey, exFile)],
    proofs := [(("p1", exKey), exRecord "p1"), (("p2", exKey), exRecord "p2")],
    providers := [], payinfo := [], collateral := [], gauges := [], attests := [], reports := [],
    bank := [], params := exParams, moduleAcc := "storage", collateralAcc := "collateral",
    polAcc := "pol", feeAcc := "fee", blocked := [] }

example : IndexInv exState := by
  refine ⟨by unfold AMap.WF; decide, by unfold AMap.WF; decide, by unfold AMap.WF; decide, fun _ => rfl, ?_⟩
  intro k f hf
  simp only [exState, AMap.get] at hf
  split at hf
  · rename_i hk
    simp only [Option.some.injEq] at hf
    subst hf; subst hk
    refine ⟨rfl, by decide, by decide, ?_⟩
    intro pk hpk
    simp only [exFile, List.mem_cons, List.not_mem_nil, or_false] at hpk
    rcases hpk with rfl | rfl
    · exact ⟨rfl, exRecord "p1", by decide, rfl, rfl⟩
    · exact ⟨rfl, exRecord "p2", by decide, rfl, rfl⟩
  · simp at hf

/-- the invariant is not trivially true: dropping one record breaks it -/
example : ¬ IndexInv { exState with proofs := [(("p1", exKey), exRecord "p1")] } := by
  intro h
  obtain ⟨_, _, _, k4⟩ := h.ok exKey exFile (by decide)
  obtain ⟨_, p, hp, _⟩ := k4 ("p2", exKey) (by decide)
  have hn : AMap.get ({ exState with proofs := [(("p1", exKey), exRecord "p1")] } : State).proofs ("p2", exKey) = none := by decide
  rw [hn] at hp; simp at hp

/-- a third prover joins with a verified proof (the list grows to the limit 3); a fourth is refused -/
example : ((postProof exState 9 "p3" "aa" "owner" 7 0 true 5).state.files.map (fun kv => kv.2.proofs.length)) = [3] := by
  decide
example : ((postProof (postProof exState 9 "p3" "aa" "owner" 7 0 true 5).state 9 "p4" "aa" "owner" 7 0 true 5).success) = false := by
  decide

/-- a start state without files: only a storage plan for "owner" -/
def h0 : State :=
  { files := [], files2 := [], proofs := [], providers := [],
    payinfo := [("owner", { startT := 0, endT := 1000000, spaceAvailable := 1000000, spaceUsed := 0, address := "owner" })],
    collateral := [], gauges := [], attests := [], reports := [],
    bank := [], params := exParams, moduleAcc := "storage", collateralAcc := "collateral",
    polAcc := "pol", feeAcc := "fee", blocked := [] }

/-- the owner posts a file at height 7, p1 and p2 prove it, p1 proves again (not a new entry),
a block boundary passes -/
def hist : List Ev :=
  [ .msg 7 10 (.postFile "owner" "aa" 100 3 0 0 "{}" true 1 "" ""),
    .msg 8 11 (.postProof "p1" "aa" "owner" 7 0 true 5),
    .msg 9 12 (.postProof "p2" "aa" "owner" 7 0 true 6),
    .msg 9 12 (.postProof "p1" "aa" "owner" 7 5 true 6),
    .block 150 200 ]

example : emptyIdx h0 := ⟨rfl, rfl, rfl⟩
example : (runEvs h0 hist).files.map (fun kv => (kv.1, kv.2.proofs.map (·.1))) = [(("aa", "owner", 7), ["p1", "p2"])] := by
  decide

/-- the reward block's file management on that state: at height 100 both provers proved in the
last window and stay; at height 200 both are stale, are removed from the list and lose their
records (`C17_invariant_preserved_by_reward_block` covers both) -/
example :
    let s := runEvs h0 hist
    (s.files.foldl (fun (acc : State × Tracker) kv => manageFile acc.1 100 acc.2 kv.2) (s, [])).1.files.map
      (fun kv => kv.2.proofs.map (·.1)) = [["p1", "p2"]] := by decide
example :
    let s := runEvs h0 hist
    let s' := (s.files.foldl (fun (acc : State × Tracker) kv => manageFile acc.1 200 acc.2 kv.2) (s, [])).1
    s'.files.map (fun kv => kv.2.proofs.map (·.1)) = [[]] ∧ s'.proofs = [] ∧ s'.files2 = s'.files := by decide

end C17Ex
/-! ## The store keys as they stand in the source (regenerated fact) -/

/-- The index-consistency theorems identify a file by (merkle, owner, start) and a proof by (prover, merkle, owner, start), which is sound only while the primary, secondary and proof keys stay injective encodings of those tuples (`C17_primaryKey_injective`, `C17_secondaryKey_injective`).  Fingerprints of the key constructors of x/storage/types/key*.go as the
model was written against them; `Generated.keyFns_storage` is recomputed from the source on every
run (the declarations are listed in Generated/KeyFacts.lean). -/
def C17_expectedKeys : List (String × String) := [
  ("x/storage/types/key_client_usage.go:var _…", "9f4fce2c5ae85adc"),
  ("x/storage/types/key_client_usage.go:const ClientUsageKeyPrefix…", "5b1d441d06f4cc71"),
  ("x/storage/types/key_client_usage.go:ClientUsageKey", "dc7228a1f094ec09"),
  ("x/storage/types/key_files.go:var _…", "9f4fce2c5ae85adc"),
  ("x/storage/types/key_files.go:const FileSecondaryKeyPrefix…", "c2b8a0b2f787cc2c"),
  ("x/storage/types/key_files.go:FilesPrimaryKey", "84e99d172d986bcc"),
  ("x/storage/types/key_files.go:FilesMerklePrefix", "7144d5ed970c299c"),
  ("x/storage/types/key_files.go:FilesOwnerPrefix", "b5fae699da92120b"),
  ("x/storage/types/key_files.go:FilesSecondaryKey", "8701eb75a36b1a59"),
  ("x/storage/types/key_files.go:ProofKey", "03b9d69bfd1ff699"),
  ("x/storage/types/key_files.go:ProofPrefix", "c8769268c3e52544"),
  ("x/storage/types/key_files.go:LegacyActiveDealsKey", "c4aeb0f020bffe73"),
  ("x/storage/types/key_pay_blocks.go:var _…", "9f4fce2c5ae85adc"),
  ("x/storage/types/key_pay_blocks.go:const PayBlocksKeyPrefix…", "1cab8528a038c882"),
  ("x/storage/types/key_pay_blocks.go:PayBlocksKey", "77839ff6b75370dd"),
  ("x/storage/types/key_payment_info.go:var _…", "9f4fce2c5ae85adc"),
  ("x/storage/types/key_payment_info.go:const StoragePaymentInfoKeyPrefix…", "abad45a51db5951d"),
  ("x/storage/types/key_payment_info.go:StoragePaymentInfoKey", "9176a7b3606c44ef"),
  ("x/storage/types/key_payment_info.go:PaymentGaugeKey", "671fc2de1ec35857"),
  ("x/storage/types/key_providers.go:var _…", "9f4fce2c5ae85adc"),
  ("x/storage/types/key_providers.go:const ProvidersKeyPrefix…", "9d7e274422e734eb"),
  ("x/storage/types/key_providers.go:ActiveProvidersKey", "c7775e72ba0d9346"),
  ("x/storage/types/key_providers.go:ProvidersKey", "dbb47435d90d275b"),
  ("x/storage/types/key_providers.go:AttestationKey", "22260edd874149f9"),
  ("x/storage/types/key_providers.go:ReportKey", "9e44430f7ad376b5"),
  ("x/storage/types/key_providers.go:CollateralKey", "63d6996a6cf1539e"),
  ("x/storage/types/keys.go:const ModuleName…", "05fb6d7b8d5c103c"),
  ("x/storage/types/keys.go:gaugeName", "6c707ddfcf503004"),
  ("x/storage/types/keys.go:GetGaugeAccount", "2648a826edaadd84"),
  ("x/storage/types/keys.go:KeyPrefix", "caccc65e7667915d")]

theorem C17_store_keys_as_modelled : Generated.keyFns_storage = C17_expectedKeys := by decide

/-! ### The listings as clients read them (gRPC query server, `query.Paginate`) -/

open Canine.Query Canine.Storage.Query in
/-- **Every file is found by either route, through the query server.**  On every state satisfying
the index invariant (all reachable states: `C17_along_histories`), whatever page size a client
uses, following `NextKey` through `AllFiles`, through `AllFilesByOwner` for the file's owner and
through `AllFilesByMerkle` for its merkle root each returns the file, with the contents the
by-content index holds.  (`hraw…`: the raw keys of a store are distinct — physically so.) -/
theorem C17_every_file_listed_by_each_route (s : State) (hinv : IndexInv s) (k : FKey) (f : File)
    (limit fuel : Nat) (hk : AMap.get s.files k = some f)
    (hraw1 : (s.files.map (fun kv => fileKeyStr kv.1)).Nodup)
    (hraw2 : (s.files2.map (fun kv => fileKey2Str kv.1)).Nodup)
    (hf1 : s.files.length + 1 ≤ fuel) (hf2 : s.files2.length + 1 ≤ fuel) :
    (∃ l, walk (primaryEntries s) limit false fuel none [] = some l ∧ f ∈ l) ∧
    (∃ l, walk (underPrefix (secondaryEntries s) k.2.1) limit false fuel none [] = some l ∧ f ∈ l) ∧
    (∃ l, walk (underPrefix (primaryEntries s) k.1) limit false fuel none [] = some l ∧ f ∈ l) := by
  have hm1 : (k, f) ∈ s.files := AMap.mem_of_get hk
  have hm2 : (k, f) ∈ s.files2 := AMap.mem_of_get (by rw [← hinv.same k]; exact hk)
  refine ⟨?_, ?_, ?_⟩
  · obtain ⟨l, hl, hmem⟩ := walk_allFiles s limit fuel hraw1 hf1
    exact ⟨l, hl, (hmem f).mpr (List.mem_map.mpr ⟨(k, f), hm1, rfl⟩)⟩
  · obtain ⟨l, hl, hin, _⟩ := walk_allFilesByOwner s k.2.1 limit fuel hraw2 hf2
    exact ⟨l, hl, hin k f hm2 rfl⟩
  · obtain ⟨l, hl, hin, _⟩ := walk_allFilesByMerkle s k.1 limit fuel hraw1 hf1
    exact ⟨l, hl, hin k f hm1 rfl⟩

open Canine.Query Canine.Storage.Query in
/-- … and the listings contain nothing else: what `AllFiles` returns page by page is exactly the
by-content index, so (by `hinv.same`) exactly the by-owner index too. -/
theorem C17_allFiles_lists_exactly_the_index (s : State) (limit fuel : Nat)
    (hraw : (s.files.map (fun kv => fileKeyStr kv.1)).Nodup) (hf : s.files.length + 1 ≤ fuel) :
    ∃ l, walk (primaryEntries s) limit false fuel none [] = some l ∧ ∀ f, f ∈ l ↔ f ∈ s.files.map (·.2) :=
  walk_allFiles s limit fuel hraw hf

open Canine.Query Canine.Storage.Query in
/-- every listed prover's record is retrievable through `ProofsByAddress` of that prover -/
theorem C17_listed_prover_record_listed (s : State) (hinv : IndexInv s) (k : FKey) (f : File) (pk : PKey)
    (limit fuel : Nat) (hk : AMap.get s.files k = some f) (hpk : pk ∈ f.proofs)
    (hraw : (s.proofs.map (fun kv => proofKeyStr kv.1)).Nodup) (hf : s.proofs.length + 1 ≤ fuel) :
    ∃ l p, walk (underPrefix (proofEntries s) pk.1) limit false fuel none [] = some l ∧ p ∈ l ∧
      AMap.get s.proofs pk = some p := by
  obtain ⟨_, _, _, h4⟩ := hinv.ok k f hk
  obtain ⟨_, p, hp, _⟩ := h4 pk hpk
  obtain ⟨l, hl, hin⟩ := walk_proofsByAddress s pk.1 limit fuel hraw hf
  exact ⟨l, p, hl, hin pk p (AMap.mem_of_get hp) rfl, hp⟩

end Canine.Storage
