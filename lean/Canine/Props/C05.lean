/-
C05 — No sequence of valid transactions can make block processing panic.

`beginBlock` (Storage/Reward.lean) returns `Except String State`, every panicking primitive of the
Go code being an explicit `.error` (`Dec.Quo` by zero, negative coin amounts, `TruncateInt64` out of
range, `%` by a zero check window).  Proved here:

* `C05_beginBlock_never_panics` : `NoPanicInv s → GaugesSafe s now → ∃ s', beginBlock s h now = .ok s'`.
  - `NoPanicInv` (check window ≠ 0, every stored file has `fileSize ≥ 1`, `maxProofs ≥ 1`) is what
    validation establishes; it is an invariant of every message and of the block itself
    (`C05_validation_establishes_sizes`, `C05_noPanicInv_along_histories`).
  - `GaugesSafe s now` is an EXPLICIT HYPOTHESIS about the gauges (defined in Proofs/RewardD.lean):
    for every gauge that is live and funded at `now` the duration is not zero microseconds and each
    coin's release `amt` is `≥ 0` and in int64 range; escrow accounts are distinct from the module
    account and from each other, and a gauge lists each denomination once.  It is proved to hold
    whenever every gauge started no later than `now`, lasts ≥ a day and its escrow holds at least
    each recorded amount (`C05_gauges_safe_after_creation`) — in particular right after creation.
    That a gauge which is on schedule stays safe at every later block (the monotonicity of
    `ratio·A` against the amount already withdrawn) is proved per gauge in
    `C12_on_schedule_gauge_is_safe_later` (Props/C12.lean — the helper files of the two modules
    cannot be imported together): with the escrow holding `A − cumulative now1` after a release,
    the amount computed at any later `now2` is `cumulative now2 − cumulative now1`, non-negative
    and within int64, and the division is defined.
  - The hypothesis is DISCHARGED in section (7): `GaugeInv` (Proofs/GaugeInvDef.lean) is a state
    invariant — every gauge has started, lasts ≥ 2 µs, records `[]` or one ujkl amount `A ≥ 0`, and
    while live has withdrawn at most `ratio(t)·A` in the exact `sdk.Dec` arithmetic; escrow accounts
    are `E.accOf id`, not a module account; the ledger is non-negative with supply ≤ MaxInt64.  It
    holds at genesis, implies `GaugesSafe`, and is kept by every message and by the reward block;
    `C05_history_never_panics_unconditional` needs only the benign side conditions `HistOk`
    (monotone block times, no message signed by an escrow account, the id/escrow oracle follows a
    fixed injective scheme and an already stored id was stored at the same block time).
* sizes are unbounded `Int` in the model, matching the repaired code that sums the credited sizes
  in arbitrary precision: `total = Σ fileSize·|proofs| ≥ 1` as soon as somebody is credited.
* the mint BeginBlocker (`Canine.Mint.blockMint`) is a total function; the amounts handed to
  `sdk.NewInt64Coin` are non-negative (`C05_mint_never_panics`).
-/
import Canine.Proofs.RewardD
import Canine.Proofs.GaugeInvStep
namespace Canine.Storage
open Bank

/-- what validation establishes and C05 needs: a non-zero check window (the parameter validator
demands `> 1`) and every stored file has `fileSize ≥ 1`, `maxProofs ≥ 1` (`MsgPostFile` checks) -/
def SizesOk (s : State) : Prop := SizesOkF s.files

def NoPanicInv (s : State) : Prop := s.params.checkWindow ≠ 0 ∧ SizesOk s

/-- **C05 (2a).** -/
theorem C05_reward_payout_never_panics (s : State) (total : Int) (coins : Coins) (prover : String)
    (worth : Int) (ht : 0 < total) (hw : 0 ≤ worth) (hc : ∀ c ∈ coins, 0 ≤ c.2) :
    ∃ s', payProver s total coins prover worth = .ok s' :=
  payProver_ok s total coins prover worth ht hw hc

/-- **C05 (2b).** -/
theorem C05_total_positive_when_someone_credited (s : State) (h : Int) (hs : SizesOk s) :
    let total := (s.files.map (fun kv => kv.2.fileSize * (kv.2.proofs.length : Int))).sum
    let tracker := (s.files.foldl (fun (acc : State × Tracker) kv => manageFile acc.1 h acc.2 kv.2) (s, [])).2
    (tracker ≠ [] → 0 < total) ∧ ∀ pw ∈ tracker, 0 ≤ pw.2 := by
  intro total tracker
  have := manageFiles_tracker h s.files s [] (fun kv hkv => by have := (hs kv hkv).1; omega)
    (fun _ hp => by simp at hp)
  simp only at this
  obtain ⟨t1, t2, _⟩ := this
  refine ⟨?_, t1⟩
  intro hne
  rcases t2 with e | hex
  · exact absurd e hne
  · exact total_pos s.files (fun kv hkv => (hs kv hkv).1) hex

theorem manageRewards_ok (s : State) (h now : Int) (hs : SizesOk s) (hg : GaugesSafe s now) :
    ∃ s', manageRewards s h now = .ok s' := by
  obtain ⟨hpos, hnn⟩ := C05_total_positive_when_someone_credited s h hs
  have hrest := (manageFiles_tracker h s.files s [] (fun kv hkv => by have := (hs kv hkv).1; omega)
    (fun _ hp => by simp at hp)).2.2
  unfold manageRewards
  simp only [bind, Except.bind]
  generalize (s.files.foldl (fun (acc : State × Tracker) kv => manageFile acc.1 h acc.2 kv.2) (s, [])) = r
    at hpos hnn hrest
  obtain ⟨s1, tracker⟩ := r
  simp only at hpos hnn hrest ⊢
  obtain ⟨hb, hgg, hm, _, _⟩ := hrest
  obtain ⟨s2, coins, e, hcoins⟩ := pullGauges_ok s1 now (GaugesSafe.congr hb hgg hm hg)
  simp only [e]
  by_cases hne : tracker = []
  · subst hne
    exact ⟨s2, by simp [sortedProvers, pure, Except.pure]⟩
  · have ht := hpos hne
    have := foldlM_except_ok (fun (l : List (String × Int)) (_ : State) => ∀ pw ∈ l, 0 ≤ pw.2)
      (fun st pw => payProver st
        (s.files.map (fun kv => kv.2.fileSize * (kv.2.proofs.length : Int))).sum coins pw.1 pw.2) ?_ (sortedProvers tracker) s2 ?_
    · obtain ⟨s', e', _⟩ := this; exact ⟨s', e'⟩
    · intro pw rest st hP
      obtain ⟨s', e'⟩ := payProver_ok st _ coins pw.1 pw.2 ht (hP pw (by simp)) hcoins
      exact ⟨s', e', fun q hq => hP q (List.mem_cons_of_mem _ hq)⟩
    · intro pw hpw
      unfold sortedProvers at hpw
      rw [List.mem_mergeSort] at hpw
      exact hnn pw hpw

/-- **C05 (3).**  On a state that validation could have produced, with safe gauges, the storage
BeginBlocker never panics. -/
theorem C05_beginBlock_never_panics (s : State) (h now : Int) (hinv : NoPanicInv s) (hg : GaugesSafe s now) :
    ∃ s', beginBlock s h now = .ok s' := by
  unfold beginBlock
  simp only [hinv.1, if_false]
  split
  · exact ⟨s, rfl⟩
  · exact manageRewards_ok s h now hinv.2 hg

/-! ### (4) validation establishes, and everything preserves, the sizes -/

/-- **C05 (4).**  Every message preserves `NoPanicInv` (the only writer of new files is `postFile`,
which checks `1 ≤ fileSize`, `1 ≤ maxProofs`; `postProof` / `report` rewrite an existing file with
the same sizes; no message touches the parameters), and so does the reward block. -/
theorem C05_validation_establishes_sizes (s s' : State) (h now : Int) (hinv : NoPanicInv s) :
    (∀ op, step s h now op = some s' → NoPanicInv s') ∧
    (beginBlock s h now = .ok s' → NoPanicInv s') := by
  constructor
  · intro op hstep
    obtain ⟨e1, e2⟩ := step_sizes hinv.2 hstep
    exact ⟨by rw [e2]; exact hinv.1, e1⟩
  · intro hb
    obtain ⟨e1, e2⟩ := beginBlock_sizes hinv.2 hb
    exact ⟨by rw [e2]; exact hinv.1, e1⟩

/-- a posted file always has both sizes ≥ 1 and a footprint within int64 -/
theorem C05_postFile_validates (s s' : State) (h now : Int) (c m : String) (fs mp ex pt : Int) (note : String)
    (nv : Bool) (jp : Int) (gid gacc : String)
    (hstep : step s h now (.postFile c m fs mp ex pt note nv jp gid gacc) = some s') :
    1 ≤ fs ∧ 1 ≤ mp ∧ fs ≤ Int.tdiv I64.maxV mp := by
  simp only [step, postFile, bind, Option.bind_eq_some_iff, req_eq_some] at hstep
  obtain ⟨_, _, _, hv, _⟩ := hstep
  exact hv

/-- events of a history, as in C07: a message (a failing one commits nothing) or the block -/
inductive BEv where
  | msg (op : Op)
  | block

/-- run a history; `none` = some BeginBlock panicked -/
def runB (s : State) : List (Int × Int × BEv) → Option State
  | [] => some s
  | (h, now, .msg op) :: rest => runB (stepT s h now op) rest
  | (h, now, .block) :: rest =>
    match beginBlock s h now with
    | .ok s' => runB s' rest
    | .error _ => none

/-- `NoPanicInv` holds along every history from a genesis state with no files and a valid check
window; hence (with the gauge hypothesis at each block) no block of the history panics. -/
theorem C05_noPanicInv_along_histories : ∀ (hist : List (Int × Int × BEv)) (s s' : State),
    NoPanicInv s → runB s hist = some s' → NoPanicInv s'
  | [], s, s', hinv, hr => by simp only [runB, Option.some.injEq] at hr; subst hr; exact hinv
  | (h, now, .msg op) :: rest, s, s', hinv, hr => by
    simp only [runB] at hr
    refine C05_noPanicInv_along_histories rest _ s' ?_ hr
    unfold stepT
    cases hs : step s h now op with
    | none => simpa using hinv
    | some s1 => simpa using (C05_validation_establishes_sizes s s1 h now hinv).1 op hs
  | (h, now, .block) :: rest, s, s', hinv, hr => by
    simp only [runB] at hr
    split at hr
    · rename_i s1 hb
      exact C05_noPanicInv_along_histories rest s1 s' ((C05_validation_establishes_sizes s s1 h now hinv).2 hb) hr
    · simp at hr

/-- the gauge hypothesis at every block of a history -/
def GaugesSafeAlong (s : State) : List (Int × Int × BEv) → Prop
  | [] => True
  | (h, now, .msg op) :: rest => GaugesSafeAlong (stepT s h now op) rest
  | (h, now, .block) :: rest =>
    GaugesSafe s now ∧ ∀ s', beginBlock s h now = .ok s' → GaugesSafeAlong s' rest

/-- **C05, histories.**  From a state satisfying `NoPanicInv` (e.g. genesis), no sequence of
messages and blocks makes a block panic, provided the gauges are safe at each block. -/
theorem C05_history_never_panics : ∀ (hist : List (Int × Int × BEv)) (s : State),
    NoPanicInv s → GaugesSafeAlong s hist → ∃ s', runB s hist = some s'
  | [], s, _, _ => ⟨s, rfl⟩
  | (h, now, .msg op) :: rest, s, hinv, hg => by
    simp only [runB]
    simp only [GaugesSafeAlong] at hg
    refine C05_history_never_panics rest _ ?_ hg
    unfold stepT
    cases hs : step s h now op with
    | none => simpa using hinv
    | some s1 => simpa using (C05_validation_establishes_sizes s s1 h now hinv).1 op hs
  | (h, now, .block) :: rest, s, hinv, hg => by
    simp only [GaugesSafeAlong] at hg
    obtain ⟨s1, hb⟩ := C05_beginBlock_never_panics s h now hinv hg.1
    simp only [runB, hb]
    exact C05_history_never_panics rest s1 ((C05_validation_establishes_sizes s s1 h now hinv).2 hb) (hg.2 s1 hb)

theorem C05_noPanicInv_genesis (s : State) (hF : s.files = []) (hw : 1 < s.params.checkWindow) : NoPanicInv s :=
  ⟨by omega, by unfold SizesOk SizesOkF; rw [hF]; intro kv hkv; simp at hkv⟩

/-! ### (1) the gauge hypothesis holds for funded gauges -/

/-- **C05 (1).**  `GaugesSafe` holds whenever every gauge started no later than `now`, lasts at
least a day, and its escrow account holds at least each recorded (non-negative) amount, below
2^62 — in particular right after creation, when `bal = A` and `startT = now` — given the structural
facts about escrow accounts (derived from the gauge id, never the module account) and
denominations (one entry each). -/
theorem C05_gauges_safe_after_creation (s : State) (now : Int)
    (hacc : ∀ kv ∈ s.gauges, kv.2.account ≠ s.moduleAcc)
    (hdist : s.gauges.Pairwise (fun x y => x.2.account ≠ y.2.account))
    (hden : ∀ kv ∈ s.gauges, (kv.2.coins.map (·.1)).Nodup)
    (hfunded : ∀ kv ∈ s.gauges, kv.2.startT ≤ now ∧ kv.2.endT - kv.2.startT ≥ dayNs ∧
      ∀ c ∈ kv.2.coins, 0 ≤ c.2 ∧ c.2 ≤ bal s.bank kv.2.account c.1 ∧ bal s.bank kv.2.account c.1 < 2 ^ 62) :
    GaugesSafe s now := by
  refine ⟨?_, hacc, hdist, hden⟩
  intro kv hkv
  obtain ⟨h1, h2, h3⟩ := hfunded kv hkv
  exact gaugeSafe_of_funded s.bank now kv.2 h1 (by unfold dayNs at h2; omega) h3

/-- a gauge whose end is not after its start, whose end has passed, or whose escrow is empty is
simply removed: no condition at all is needed for it -/
theorem C05_dead_gauge_is_safe (b : Bank) (now : Int) (g : Gauge)
    (h : g.endT ≤ g.startT ∨ g.endT < now ∨ acctEmpty b g.account = true) : GaugeSafe b now g := by
  intro h1 h2 h3
  rcases h with h | h | h
  · omega
  · omega
  · rw [h] at h3; cases h3

/-! ### (6) regression witnesses -/

def gKey : FKey := ("aa", "alice", 5)
def gFile (size : Int) : File :=
  { merkle := "aa", owner := "alice", start := 5, expires := 200, fileSize := size, proofInterval := 100,
    proofType := 0, proofs := [("prov", gKey)], maxProofs := 3, note := "" }
def gProof : Proof := { prover := "prov", merkle := "aa", owner := "alice", start := 5, lastProven := 5, chunkToProve := 0 }
def gGauge : Gauge := { id := "g1", startT := 0, endT := 86400000000000, coins := [("ujkl", 1000)], account := "esc" }

/-- one file of `size` bytes proven by "prov", one day-long gauge of 1000ujkl fully in escrow -/
def gState (size : Int) : State :=
  { (default : State) with
    params := { (default : Params) with checkWindow := 3, proofWindow := 100 }
    files := [(gKey, gFile size)], files2 := [(gKey, gFile size)]
    proofs := [(("prov", gKey), gProof)]
    gauges := [("g1", gGauge)]
    bank := [(("esc", "ujkl"), 1000)]
    moduleAcc := "mod" }

def gNoon : Int := 43200000000000

theorem gPull (size : Int) : pullGauges (gState size) gNoon =
    .ok ({ gState size with bank := [(("esc", "ujkl"), 500), (("mod", "ujkl"), 500)] }, [("ujkl", 500)]) := by
  rfl

/-- Regression witness (pre-fix state): a stored file of size 0 with one credited prover makes the
reward block divide by zero. -/
theorem C05_zero_size_panics : manageRewards (gState 0) 6 gNoon = .error "division by zero" := by
  have e : ((gState 0).files.foldl (fun (acc : State × Tracker) kv => manageFile acc.1 6 acc.2 kv.2) (gState 0, []))
      = (gState 0, [("prov", 0)]) := by decide
  unfold manageRewards sortedProvers
  simp only [e, bind, Except.bind, gPull, List.mergeSort_singleton, List.foldlM_cons]
  rfl

def bKey : FKey := ("bb", "alice", 5)
/-- the same with a second file of size −5 proven by "evil" (sizes were not validated before the fix) -/
def gStateNeg : State :=
  { gState 10 with
    files := [(gKey, gFile 10), (bKey, { gFile (-5) with merkle := "bb", proofs := [("evil", bKey)] })]
    proofs := [(("prov", gKey), gProof), (("evil", bKey), { gProof with prover := "evil", merkle := "bb" })] }

theorem C05_negative_size_panics : manageRewards gStateNeg 6 gNoon = .error "negative coin amount: -500" := by
  have e : (gStateNeg.files.foldl (fun (acc : State × Tracker) kv => manageFile acc.1 6 acc.2 kv.2) (gStateNeg, []))
      = (gStateNeg, [("prov", 10), ("evil", -5)]) := by decide
  have e2 : pullGauges gStateNeg gNoon =
    .ok ({ gStateNeg with bank := [(("esc", "ujkl"), 500), (("mod", "ujkl"), 500)] }, [("ujkl", 500)]) := rfl
  have e3 : sortedProvers [("prov", 10), ("evil", -5)] = [("evil", -5), ("prov", 10)] := by
    simp [sortedProvers, List.mergeSort, List.MergeSort.Internal.splitInTwo]
  unfold manageRewards
  simp only [e, bind, Except.bind, e2, e3, List.foldlM_cons]
  rfl

/-- the primitives directly: a zero total divides by zero, a negative credited size yields a
negative coin -/
example (s : State) (coins : Coins) (p : String) (w : Int) : payProver s 0 coins p w = .error "division by zero" := by
  simp [payProver, Dec.quo?, Dec.ofInt]
example : payProver (gState 10) 5 [("ujkl", 500)] "evil" (-5) = .error "negative coin amount: -500" := rfl

/-- a funded gauge shorter than a microsecond (impossible through the handlers, which create
gauges of at least a day) is the remaining division by zero -/
example : pullGauge (gState 10) 100 [] { gGauge with endT := 500 }
    = .error "division by zero (gauge shorter than a microsecond)" := rfl

end Canine.Storage

/-! ### (5) the mint BeginBlocker and the (absent) EndBlockers -/
namespace Canine.Mint

/-- **C05 (5).**  `BlockMint`: the emission handed to `sdk.NewInt64Coin` is non-negative whatever
the stored values are (`C13_next_nonneg`: the emission is floored at zero), and with non-negative
ratios (the parameter validator) so are the three shares, which are exactly the floors
`ratio·m/100` (`C13_share_is_floor`); `blockMint` returns exactly that emission.  A failed send is
only logged: `blockMint` is a total function, it has no failing branch. -/
theorem C05_mint_never_panics (p : Params) (s : State)
    (h1 : 0 ≤ p.stakerRatio) (h2 : 0 ≤ p.devGrantsRatio) (h3 : 0 ≤ p.providerRatio) :
    let m := nextMint (s.last.getD p.tokensPerBlock) p.mintDecrease
    0 ≤ m ∧ 0 ≤ share p.stakerRatio m ∧ 0 ≤ share p.devGrantsRatio m ∧ 0 ≤ share p.providerRatio m ∧
    (blockMint p s).2 = m := by
  intro m
  have hm : 0 ≤ m := C13_next_nonneg _ _
  have sh : ∀ r, 0 ≤ r → 0 ≤ share r m := by
    intro r hr
    rw [C13_share_is_floor r m hr hm]
    exact Int.ediv_nonneg (Int.mul_nonneg hr hm) (by omega)
  refine ⟨hm, sh _ h1, sh _ h2, sh _ h3, ?_⟩
  unfold blockMint
  simp only
  split
  · rfl
  · split
    · rfl
    · split <;> rfl

/-- with the validated parameters and a non-negative recorded emission, the emission also never
exceeds the previous one (so it stays within the int64 range it started in) -/
theorem C05_mint_bounded (p : Params) (s : State) (hp : 0 ≤ p.tokensPerBlock) (hd : 0 ≤ p.mintDecrease)
    (hl : ∀ x, s.last = some x → 0 ≤ x) :
    nextMint (s.last.getD p.tokensPerBlock) p.mintDecrease ≤ s.last.getD p.tokensPerBlock := by
  apply C13_next_le_prev _ _ _ hd
  cases hs : s.last with
  | none => simpa using hp
  | some x => simpa using hl x hs

end Canine.Mint

namespace Canine.Storage
open Bank

/-- the custom modules register no EndBlocker: end-of-block processing is the identity -/
def customEndBlock (s : State) : State := s
theorem C05_endBlock_trivial (s : State) : customEndBlock s = s := rfl


/-! ### non-vacuity -/

/-- **Non-vacuity.**  The concrete state `gState 10` (one proven 10-byte file, one funded day-long
gauge, block at noon) satisfies both hypotheses of `C05_beginBlock_never_panics`, runs the full
reward path (height 6 is a multiple of the check window 3), and the prover is paid. -/
example : NoPanicInv (gState 10) ∧ GaugesSafe (gState 10) gNoon := by
  refine ⟨⟨by decide, ?_⟩, ?_⟩
  · intro kv hkv
    simp only [gState, List.mem_singleton] at hkv
    subst hkv; decide
  · apply C05_gauges_safe_after_creation
    · intro kv hkv
      simp only [gState, List.mem_singleton] at hkv
      subst hkv; decide
    · simp [gState]
    · intro kv hkv
      simp only [gState, List.mem_singleton] at hkv
      subst hkv; decide
    · intro kv hkv
      simp only [gState, List.mem_singleton] at hkv
      subst hkv
      refine ⟨by decide, by decide, ?_⟩
      intro c hc
      simp only [gGauge, List.mem_singleton] at hc
      subst hc; decide

example : ∃ s', beginBlock (gState 10) 6 gNoon = .ok s' ∧ bal s'.bank "prov" "ujkl" = 500 := by
  have e : ((gState 10).files.foldl (fun (acc : State × Tracker) kv => manageFile acc.1 6 acc.2 kv.2) (gState 10, []))
      = (gState 10, [("prov", 10)]) := by decide
  refine ⟨{ gState 10 with bank := [(("esc", "ujkl"), 500), (("mod", "ujkl"), 0), (("prov", "ujkl"), 500)] }, ?_, by decide⟩
  unfold beginBlock manageRewards sortedProvers
  simp only [show (gState 10).params.checkWindow ≠ 0 by decide, show ¬ Int.tmod 6 (gState 10).params.checkWindow > 0 by decide,
    if_false, e, bind, Except.bind, gPull, List.mergeSort_singleton, List.foldlM_cons, List.foldlM_nil]
  rfl

end Canine.Storage


/-! ### (7) the gauge hypothesis discharged: `GaugeInv` is an invariant of every history -/
namespace Canine.Storage
open Bank GI

/-- **Side conditions on a history** (nothing about release amounts, ratios or decimals):
* times are non-decreasing along the history and start at `t` (CometBFT BFT time: the time of a
  block is not before the time of its predecessor; every message of a block carries the block time);
* every message satisfies `MsgOk` in the state it is delivered to: it is not signed by the escrow
  account of a stored gauge, and the id / escrow account the chain derived for a new gauge follow the
  fixed injective scheme `E`, avoid the two module accounts, and an id that is already stored was
  stored at this same block time (see `MsgOk`).
Blocks carry no condition besides their time. -/
def HistOk (E : EscrowScheme) (s : State) (t : Int) : List (Int × Int × BEv) → Prop
  | [] => True
  | (h, now, .msg op) :: rest => t ≤ now ∧ MsgOk E s now op ∧ HistOk E (stepT s h now op) now rest
  | (h, now, .block) :: rest => t ≤ now ∧ ∀ s', beginBlock s h now = .ok s' → HistOk E s' now rest

/-- the time of the last event of a history that starts at `t` -/
def lastTime (t : Int) : List (Int × Int × BEv) → Int
  | [] => t
  | (_, now, _) :: rest => lastTime now rest

/-- **C05 (7a).**  The gauge invariant is kept by every message and by the reward block
(`step_gaugeInv`, `beginBlock_gaugeInv`), time passing keeps it (`GaugeInv.advance`), and it implies
the hypothesis `GaugesSafe` of `C05_beginBlock_never_panics` (`GaugeInv.gaugesSafe`). -/
theorem C05_gaugeInv_preserved (E : EscrowScheme) (s s' : State) (h t now : Int) (hinv : NoPanicInv s)
    (hg : GaugeInv E s t) (ht : t ≤ now) :
    GaugesSafe s now ∧
    (∀ op, MsgOk E s now op → GaugeInv E (stepT s h now op) now) ∧
    (beginBlock s h now = .ok s' → GaugeInv E s' now) :=
  ⟨(hg.advance ht).gaugesSafe, fun _ hok => stepT_gaugeInv (hg.advance ht) hok,
   fun hb => beginBlock_gaugeInv hinv.2 (hg.advance ht) hb⟩

/-- **C05, histories, without the gauge hypothesis.**  From a state that satisfies `NoPanicInv` and
the gauge invariant `GaugeInv` at time `t0` — e.g. genesis: no files, no gauges, a ledger in order
(`C05_noPanicInv_genesis`, `C05_gaugeInv_genesis`) — no sequence of messages and blocks satisfying the
side conditions `HistOk` makes a block panic. -/
theorem C05_history_never_panics_unconditional (E : EscrowScheme) :
    ∀ (hist : List (Int × Int × BEv)) (s : State) (t0 : Int),
      NoPanicInv s → GaugeInv E s t0 → HistOk E s t0 hist → ∃ s', runB s hist = some s'
  | [], s, _, _, _, _ => ⟨s, rfl⟩
  | (h, now, .msg op) :: rest, s, t0, hinv, hg, hh => by
    simp only [runB]
    obtain ⟨ht, hok, hrest⟩ := hh
    refine C05_history_never_panics_unconditional E rest _ now ?_ (stepT_gaugeInv (hg.advance ht) hok) hrest
    unfold stepT
    cases hs : step s h now op with
    | none => simpa using hinv
    | some s1 => simpa using (C05_validation_establishes_sizes s s1 h now hinv).1 op hs
  | (h, now, .block) :: rest, s, t0, hinv, hg, hh => by
    obtain ⟨ht, hrest⟩ := hh
    have hg' := hg.advance ht
    obtain ⟨s1, hb⟩ := C05_beginBlock_never_panics s h now hinv hg'.gaugesSafe
    simp only [runB, hb]
    exact C05_history_never_panics_unconditional E rest s1 now
      ((C05_validation_establishes_sizes s s1 h now hinv).2 hb) (beginBlock_gaugeInv hinv.2 hg' hb) (hrest s1 hb)

/-- both invariants hold at the end of every such history -/
theorem C05_invariants_along_histories (E : EscrowScheme) :
    ∀ (hist : List (Int × Int × BEv)) (s s' : State) (t0 : Int),
      NoPanicInv s → GaugeInv E s t0 → HistOk E s t0 hist → runB s hist = some s' →
      NoPanicInv s' ∧ GaugeInv E s' (lastTime t0 hist)
  | [], s, s', _, hinv, hg, _, hr => by
    simp only [runB, Option.some.injEq] at hr; subst hr; exact ⟨hinv, hg⟩
  | (h, now, .msg op) :: rest, s, s', t0, hinv, hg, hh, hr => by
    simp only [runB] at hr
    obtain ⟨ht, hok, hrest⟩ := hh
    refine C05_invariants_along_histories E rest _ s' now ?_ (stepT_gaugeInv (hg.advance ht) hok) hrest hr
    unfold stepT
    cases hs : step s h now op with
    | none => simpa using hinv
    | some s1 => simpa using (C05_validation_establishes_sizes s s1 h now hinv).1 op hs
  | (h, now, .block) :: rest, s, s', t0, hinv, hg, hh, hr => by
    simp only [runB] at hr
    obtain ⟨ht, hrest⟩ := hh
    split at hr
    · rename_i s1 hb
      exact C05_invariants_along_histories E rest s1 s' now
        ((C05_validation_establishes_sizes s s1 h now hinv).2 hb) (beginBlock_gaugeInv hinv.2 (hg.advance ht) hb)
        (hrest s1 hb) hr
    · simp at hr

/-- the gauge invariant at genesis: no gauges, and a ledger with non-negative entries whose total
supply of every denomination fits an int64 (storage messages and blocks only move coins, so the
bound is kept — `BankOk.moves`) -/
theorem C05_gaugeInv_genesis (E : EscrowScheme) (s : State) (t : Int) (hG : s.gauges = [])
    (hnn : ∀ kv ∈ s.bank, 0 ≤ kv.2) (hsup : ∀ d, supply s.bank d ≤ I64.maxV) : GaugeInv E s t :=
  GaugeInv.init E s t hG ⟨hnn, hsup⟩

/-- from genesis: the statement with only benign hypotheses left -/
theorem C05_history_never_panics_from_genesis (E : EscrowScheme) (hist : List (Int × Int × BEv)) (s : State) (t0 : Int)
    (hF : s.files = []) (hw : 1 < s.params.checkWindow) (hG : s.gauges = [])
    (hnn : ∀ kv ∈ s.bank, 0 ≤ kv.2) (hsup : ∀ d, supply s.bank d ≤ I64.maxV) (hh : HistOk E s t0 hist) :
    ∃ s', runB s hist = some s' :=
  C05_history_never_panics_unconditional E hist s t0 (C05_noPanicInv_genesis s hF hw)
    (C05_gaugeInv_genesis E s t0 hG hnn hsup) hh

/-! #### the hypotheses are satisfiable: a purchase, a same-block second purchase merging into the
same gauge, then two reward blocks -/

/-- escrow account of gauge `id`: the id with a prefix -/
def exE : EscrowScheme := ⟨fun id => "esc/" ++ id, fun _ _ h => (String.append_right_inj _).mp h⟩

def exS0 : State :=
  { (default : State) with
    params := { (default : Params) with checkWindow := 3, proofWindow := 100, pricePerTbPerMonth := 8, referralCommission := 25, polRatio := 40 }
    bank := [(("alice", "ujkl"), 1000000000000), (("bob", "ujkl"), 1000000000000)]
    moduleAcc := "mod"
    collateralAcc := "coll"
    polAcc := "pol"
    feeAcc := "fee" }

def exT0 : Int := 1700000000000000000
/-- alice buys 1 TB for 30 days at 0.20 $/JKL; the chain derives gauge id "g1", escrow "esc/g1" -/
def exOp : Op := .buyStorage "alice" "alice" 30 1000000000000 "ujkl" none 200000000000000000 "g1" "esc/g1"
/-- bob buys the same plan in the same block: same height, end and coins, hence the same gauge id -/
def exOp2 : Op := .buyStorage "bob" "bob" 30 1000000000000 "ujkl" none 200000000000000000 "g1" "esc/g1"
def exHist : List (Int × Int × BEv) :=
  [(2, exT0, .msg exOp), (2, exT0, .msg exOp2), (3, exT0 + dayNs, .block), (6, exT0 + 2 * dayNs, .block)]

def exG : Gauge :=
  { id := "g1", startT := exT0, endT := exT0 + 30 * dayNs, coins := [("ujkl", 4666666)], account := "esc/g1" }
/-- the state after the first purchase: 13333333 ujkl paid, 4666666 of them in escrow -/
def exS1 : State :=
  { exS0 with
    bank := [(("alice", "ujkl"), 999986666667), (("bob", "ujkl"), 1000000000000), (("mod", "ujkl"), 1), (("esc/g1", "ujkl"), 4666666),
             (("pol", "ujkl"), 5333333), (("fee", "ujkl"), 3333333)]
    payinfo := [("alice", { startT := exT0, endT := exT0 + 30 * dayNs, spaceAvailable := 1000000000000, spaceUsed := 0, address := "alice" })]
    gauges := [("g1", exG)] }

theorem exStep : stepT exS0 2 exT0 exOp = exS1 := by rfl

/-- **The hypotheses of `C05_history_never_panics_unconditional` hold** for `exS0`, `exHist`. -/
theorem exHyps : NoPanicInv exS0 ∧ GaugeInv exE exS0 exT0 ∧ HistOk exE exS0 exT0 exHist := by
  refine ⟨C05_noPanicInv_genesis exS0 rfl (by decide), C05_gaugeInv_genesis exE exS0 exT0 rfl ?_ ?_, ?_⟩
  · intro kv hkv
    simp only [exS0, List.mem_cons, List.not_mem_nil, or_false] at hkv
    rcases hkv with e | e <;> subst e <;> decide
  · intro d
    simp only [exS0, supply]
    unfold I64.maxV
    split <;> omega
  · simp only [exHist, HistOk, exStep]
    refine ⟨Int.le_refl _, ⟨?_, ?_⟩, Int.le_refl _, ⟨?_, ?_⟩, by unfold dayNs; omega,
      fun _ _ => ⟨by unfold dayNs; omega, fun _ _ => trivial⟩⟩
    · intro kv hkv
      rw [show exS0.gauges = [] from rfl] at hkv; simp at hkv
    · intro gid gacc hop
      simp only [exOp, Op.gaugeOf, Option.some.injEq, Prod.mk.injEq] at hop
      obtain ⟨rfl, rfl⟩ := hop
      refine ⟨rfl, by decide, by decide, ?_⟩
      intro g hg
      rw [show exS0.gauges = [] from rfl] at hg; simp at hg
    · intro kv hkv
      simp only [exS1, List.mem_singleton] at hkv
      subst hkv; decide
    · intro gid gacc hop
      simp only [exOp2, Op.gaugeOf, Option.some.injEq, Prod.mk.injEq] at hop
      obtain ⟨rfl, rfl⟩ := hop
      refine ⟨rfl, by decide, by decide, ?_⟩
      intro g hg
      simp only [exS1, AMap.get, if_true, Option.some.injEq] at hg
      subst hg; rfl

example : ∃ s', runB exS0 exHist = some s' :=
  C05_history_never_panics_unconditional exE exHist exS0 exT0 exHyps.1 exHyps.2.1 exHyps.2.2

/-! the history is not trivial: both purchases succeed, the second merges into the gauge of the
first, and both reward blocks run the release path -/

def exBank (bob md esc : Int) : Bank :=
  [(("alice", "ujkl"), 999986666667), (("bob", "ujkl"), bob), (("mod", "ujkl"), md), (("esc/g1", "ujkl"), esc),
   (("pol", "ujkl"), 10666666), (("fee", "ujkl"), 6666666)]

/-- after bob's purchase: one gauge "g1" recording 9333332 ujkl, all of it in escrow -/
def exS2 : State :=
  { exS1 with
    bank := exBank 999986666667 2 9333332
    payinfo := [("alice", { startT := exT0, endT := exT0 + 30 * dayNs, spaceAvailable := 1000000000000, spaceUsed := 0, address := "alice" }),
                ("bob", { startT := exT0, endT := exT0 + 30 * dayNs, spaceAvailable := 1000000000000, spaceUsed := 0, address := "bob" })]
    gauges := [("g1", { exG with coins := [("ujkl", 9333332)] })] }

theorem exStep2 : stepT exS1 2 exT0 exOp2 = exS2 := by rfl

/-- a reward block on a state without files: the gauges are pulled, nobody is paid -/
theorem beginBlock_no_files (s s' : State) (rel : Coins) (t h : Int) (hw : s.params.checkWindow = 3)
    (hf : s.files = []) (hh : Int.tmod h 3 = 0) (hp : pullGauges s t = .ok (s', rel)) :
    beginBlock s h t = .ok s' := by
  unfold beginBlock manageRewards sortedProvers
  simp only [hw, hf, hh, show ¬ ((3 : Int) = 0) by omega, show ¬ ((0:Int) > 0) by omega, if_false, List.foldl_nil, bind,
    Except.bind, hp, List.mergeSort_nil, List.foldlM_nil, pure, Except.pure]

def exSt (md esc : Int) : State := { exS2 with bank := exBank 999986666667 md esc }

/-- the run, evaluated: the two purchases put 9333332 ujkl into escrow under one gauge; the first
reward block (one day later, height 3) releases 311111, the second (height 6) another 311111 -/
theorem exRun : runB exS0 exHist = some (exSt 622224 8711110) := by
  simp only [exHist, runB, exStep, exStep2]
  have b1 : beginBlock exS2 3 (exT0 + dayNs) = .ok (exSt 311113 9022221) :=
    beginBlock_no_files exS2 _ [("ujkl", 311111)] _ _ rfl rfl (by decide) (by rfl)
  have b2 : beginBlock (exSt 311113 9022221) 6 (exT0 + 2 * dayNs) = .ok (exSt 622224 8711110) :=
    beginBlock_no_files _ _ [("ujkl", 311111)] _ _ rfl rfl (by decide) (by rfl)
  simp only [b1, b2]

/-- the escrow account is debited exactly what the module account receives, and the final state
again satisfies both invariants (`C05_invariants_along_histories`) -/
example : bal (exSt 622224 8711110).bank "esc/g1" "ujkl" = 9333332 - 2 * 311111 ∧
    NoPanicInv (exSt 622224 8711110) ∧ GaugeInv exE (exSt 622224 8711110) (exT0 + 2 * dayNs) :=
  ⟨by decide, C05_invariants_along_histories exE exHist exS0 _ exT0 exHyps.1 exHyps.2.1 exHyps.2.2 exRun⟩

/-! #### the same-block-time condition on a re-used gauge id is needed -/

theorem beginBlock_no_files_error (s : State) (e : String) (t h : Int) (hw : s.params.checkWindow = 3)
    (hf : s.files = []) (hh : Int.tmod h 3 = 0) (hp : pullGauges s t = .error e) :
    beginBlock s h t = .error e := by
  unfold beginBlock manageRewards
  simp only [hw, hf, hh, show ¬ ((3 : Int) = 0) by omega, show ¬ ((0:Int) > 0) by omega, if_false, List.foldl_nil, bind,
    Except.bind, hp]

/-- alice's gauge one day later, after the first reward block released 155555 ujkl -/
def exS1' : State :=
  { exS1 with
    bank := [(("alice", "ujkl"), 999986666667), (("bob", "ujkl"), 1000000000000), (("mod", "ujkl"), 155556), (("esc/g1", "ujkl"), 4511111),
             (("pol", "ujkl"), 5333333), (("fee", "ujkl"), 3333333)] }

/-- **Why `MsgOk.oracle` asks that an already stored id was stored at this block time.**  If the id
oracle returned, one block later, the id of alice's gauge again (for the real chain: a SHA-256
collision between two different heights), bob's deposit would be merged into alice's gauge and
`NewGauge` would restart it at the new block time, although 155555 ujkl have already left escrow; an
hour later the schedule of the restarted gauge is still behind that, and the reward block panics. -/
theorem C05_cross_block_merge_panics :
    runB exS0 [(2, exT0, .msg exOp), (3, exT0 + dayNs, .block)] = some exS1' ∧
    beginBlock (stepT exS1' 4 (exT0 + dayNs) exOp2) 6 (exT0 + dayNs + 3600000000000)
      = .error "negative coin amount: -142592" := by
  constructor
  · simp only [runB, exStep]
    have b1 : beginBlock exS1 3 (exT0 + dayNs) = .ok exS1' :=
      beginBlock_no_files exS1 _ [("ujkl", 155555)] _ _ rfl rfl (by decide) (by rfl)
    simp only [b1]
  · exact beginBlock_no_files_error _ _ _ _ rfl rfl (by decide) (by rfl)


end Canine.Storage
