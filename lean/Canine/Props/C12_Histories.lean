/-
C12 — Payment gauges stream linearly and never release more than the pro-rata deposit:
the statement **along whole executions of the storage model** (messages and reward blocks).

`Props/C12.lean` proves the arithmetic of one gauge for an arbitrary sequence of reward times.  Here
the same bound is a theorem about every state the storage model reaches: the gauge invariant
`GaugeInv` of `Proofs/GaugeInv*.lean` (kept by every message and every reward block,
`C05_invariants_along_histories`) says, gauge by gauge, that what has left the escrow account so far
is at most the elapsed fraction of the gauge's duration applied to the recorded deposit — in the exact
`sdk.Dec` arithmetic of `pullTokensFromGauges` — hence at most its truncation (whole base units) and
at most the deposit; and every stored gauge has started.

This is a supplementary module: the helper family it needs (`Proofs/RewardD`, `GaugeInv*`) cannot be
imported together with the family `Props/C12.lean` uses (`Proofs/StorageB`).
-/
import Canine.Props.C05
import Canine.Proofs.GaugeExactMsg
namespace Canine.Storage
open Bank GI

/-- what has left the escrow of gauge `g` in denomination `d` when `A` is the recorded deposit -/
def withdrawn (b : Bank) (g : Gauge) (d : String) (A : Int) : Int := A - bal b g.account d

/-- **C12, histories (pro-rata bound).**  After any history of messages and reward blocks that
satisfies the side conditions `HistOk` (block times non-decreasing, no message signed by an escrow
account, escrow accounts derived injectively from gauge ids), from any state satisfying the
invariants (e.g. genesis), every stored gauge that has not ended has, per recorded coin:
* started (`startT ≤ now`),
* released at most `trunc(ratio(now) · A)` — the elapsed fraction of its duration in whole
  microseconds applied to the recorded deposit, rounded down — and
* released at most the deposit `A`.
Third-party transfers *into* an escrow account only lower `withdrawn` and are allowed. -/
theorem C12_never_ahead_of_schedule_along_histories (E : EscrowScheme)
    (hist : List (Int × Int × BEv)) (s s' : State) (t0 : Int)
    (hinv : NoPanicInv s) (hg : GaugeInv E s t0) (hh : HistOk E s t0 hist) (hr : runB s hist = some s') :
    ∀ kv ∈ s'.gauges, kv.2.startT ≤ lastTime t0 hist ∧
      (lastTime t0 hist ≤ kv.2.endT → ∀ c ∈ kv.2.coins,
        withdrawn s'.bank kv.2 c.1 c.2 ≤ Dec.trunc (would kv.2.startT kv.2.endT (lastTime t0 hist) c.2) ∧
        withdrawn s'.bank kv.2 c.1 c.2 ≤ c.2) := by
  intro kv hkv
  obtain ⟨_, hg'⟩ := C05_invariants_along_histories E hist s s' t0 hinv hg hh hr
  have hok := hg'.ok kv hkv
  refine ⟨hok.started, ?_⟩
  intro hend c hc
  have hsched := hok.sched hend c hc
  have hA : 0 ≤ c.2 := hok.coins.nonneg c hc
  have hlive : Live kv.2.startT kv.2.endT (lastTime t0 hist) := ⟨hok.started, hend, hok.long⟩
  obtain ⟨w0, w1⟩ := would_range hlive hA
  rw [ofInt_raw] at hsched
  have hp := precision_pos
  unfold withdrawn
  constructor
  · -- x·P ≤ w, 0 ≤ w  ⟹  x ≤ trunc w = w / P
    unfold Dec.trunc chopTrunc
    rw [tdiv_eq, Int.tdiv_eq_ediv_of_nonneg w0]
    exact (Int.le_ediv_iff_mul_le hp).mpr hsched
  · -- x·P ≤ w ≤ A·P ⟹ x ≤ A
    have : (c.2 - bal s'.bank kv.2.account c.1) * precision ≤ c.2 * precision := Int.le_trans hsched w1
    exact Int.le_of_mul_le_mul_right this hp

/-- **C12, histories (nothing before the start).**  A gauge at its own start time has released
nothing: the schedule value at `startT` is zero, so `withdrawn ≤ 0`. -/
theorem C12_nothing_released_at_start (E : EscrowScheme) (s : State) (hg : ∀ kv ∈ s.gauges, GaugeInv E s kv.2.startT) :
    ∀ kv ∈ s.gauges, ∀ c ∈ kv.2.coins, withdrawn s.bank kv.2 c.1 c.2 ≤ 0 := by
  intro kv hkv c hc
  have hok := (hg kv hkv).ok kv hkv
  have hsched := hok.sched (by have := hok.long; omega) c hc
  rw [ofInt_raw, would_start hok.long] at hsched
  have hp := precision_pos
  unfold withdrawn
  have : (c.2 - bal s.bank kv.2.account c.1) * precision ≤ 0 * precision := by simpa using hsched
  exact Int.le_of_mul_le_mul_right this hp

/-- non-vacuity: the concrete two-purchase, two-reward-block history of `Props/C05.lean` satisfies
the hypotheses, and the bound is about its final state -/
example : ∃ s', runB exS0 exHist = some s' ∧
    ∀ kv ∈ s'.gauges, kv.2.startT ≤ lastTime exT0 exHist :=
  ⟨_, exRun, fun kv hkv =>
    (C12_never_ahead_of_schedule_along_histories exE exHist exS0 _ exT0 exHyps.1 exHyps.2.1 exHyps.2.2 exRun kv hkv).1⟩

end Canine.Storage

/-! ## C12 along whole executions: the equality, monotonicity, nothing outside the interval

The bound above is an inequality because anybody may *credit* an escrow account.  Under the hypothesis
that nobody does (`NoCreditAlong`), the strengthened invariant `GaugeExact` of
`Proofs/GaugeExact{Def,Block,Msg}.lean` holds along every history: for every stored gauge there is an
instant `t'` of its life, not after the current time — the time of the last reward block that visited
it, or its start time — with `A − bal = Dec.trunc (would startT endT t' A)` per recorded coin.

**The side condition `NoCreditAlong`** (nothing about amounts, ratios or decimals):
* per message, `NoCredit`: the POL account, the fee account and the referrer a `buyStorage` pays are not
  escrow accounts of stored gauges or of the gauge being created; and the escrow account of a gauge
  that is about to be *created* is not the signer and holds no ujkl yet;
* per reward block, `BlockNoCredit`: none of the provers the block pays is the escrow account of a
  stored gauge.
All other credits of the storage module go to the module account, the collateral account
(`GaugeInv.accNe`), a signer (`MsgOk.signer`), or are the deposit that creates / tops up the gauge.
Each condition is benign: an escrow account is `E.accOf id`, a hash-derived address for which nobody
holds a key, and the chain's id contains the block height, so an id is not re-used once its gauge has
been removed.  Paying such an address on purpose only delays the stream: `A − bal` drops below the
schedule, `C12_never_ahead_of_schedule_along_histories` still holds, and the next reward block releases
the surplus too (`C12_released_equals_schedule_after_reward_block` needs `BlockNoCredit` of that one
block only).

**`would` is the closed form of `Props/C12.lean`.**  `would startT endT now A` is by definition
`Dec.mul (ratioAt startT endT now) (Dec.ofInt A)` with `ratioAt = 1 − Quo(leftUs, totalUs)`,
`leftUs = endT/1000 − now/1000`, `totalUs = endT/1000 − startT/1000` (whole microseconds of the
instants): `Dec.trunc (would …)` is `trunc(ratio·A)`, the `cumulative` of `C12_release_formula`
(`C12_schedule_is_truncated_ratio` below; `Props/C12.lean` cannot be imported here). -/
namespace Canine.Storage
open Bank GI

/-- **No outside credit along a history**: `NoCredit` for every message, `BlockNoCredit` for every
block, each in the state it is applied to. -/
def NoCreditAlong (s : State) : List (Int × Int × BEv) → Prop
  | [] => True
  | (h, now, .msg op) :: rest => NoCredit s op ∧ NoCreditAlong (stepT s h now op) rest
  | (h, now, .block) :: rest => BlockNoCredit s h ∧ ∀ s', beginBlock s h now = .ok s' → NoCreditAlong s' rest

/-- the schedule value is the elapsed fraction (as `pullTokensFromGauges` computes it with `sdk.Dec`)
applied to the deposit, truncated -/
theorem C12_schedule_is_truncated_ratio (startT endT now A : Int)
    (hT : Int.tdiv endT 1000 - Int.tdiv startT 1000 ≠ 0) :
    ∃ q, Dec.quo? (Dec.ofInt (Int.tdiv endT 1000 - Int.tdiv now 1000))
            (Dec.ofInt (Int.tdiv endT 1000 - Int.tdiv startT 1000)) = some q ∧
      Dec.trunc (would startT endT now A) = Dec.trunc (Dec.mul (Dec.sub Dec.one q) (Dec.ofInt A)) := by
  obtain ⟨q, hq, hr⟩ := quo_ratioAt startT endT now hT
  exact ⟨q, hq, by rw [hr]; rfl⟩

/-- **C12, histories: the exact invariant holds along every history** that satisfies `HistOk` and
`NoCreditAlong`, from any state satisfying the invariants. -/
theorem C12_gaugeExact_along_histories (E : EscrowScheme) :
    ∀ (hist : List (Int × Int × BEv)) (s s' : State) (t0 : Int),
      NoPanicInv s → GaugeExact E s t0 → HistOk E s t0 hist → NoCreditAlong s hist → runB s hist = some s' →
      NoPanicInv s' ∧ GaugeExact E s' (lastTime t0 hist)
  | [], s, s', _, hinv, hg, _, _, hr => by
    simp only [runB, Option.some.injEq] at hr; subst hr; exact ⟨hinv, hg⟩
  | (h, now, .msg op) :: rest, s, s', t0, hinv, hg, hh, hn, hr => by
    simp only [runB] at hr
    obtain ⟨ht, hok, hrest⟩ := hh
    obtain ⟨hnc, hnrest⟩ := hn
    refine C12_gaugeExact_along_histories E rest _ s' now ?_ (stepT_gaugeExact (hg.advance ht) hok hnc) hrest hnrest hr
    unfold stepT
    cases hs : step s h now op with
    | none => simpa using hinv
    | some s1 => simpa using (C05_validation_establishes_sizes s s1 h now hinv).1 op hs
  | (h, now, .block) :: rest, s, s', t0, hinv, hg, hh, hn, hr => by
    simp only [runB] at hr
    obtain ⟨ht, hrest⟩ := hh
    obtain ⟨hnc, hnrest⟩ := hn
    split at hr
    · rename_i s1 hb
      exact C12_gaugeExact_along_histories E rest s1 s' now
        ((C05_validation_establishes_sizes s s1 h now hinv).2 hb) (beginBlock_gaugeExact hinv.2 (hg.advance ht) hnc hb)
        (hrest s1 hb) (hnrest s1 hb) hr
    · simp at hr

/-- at genesis (no gauges, a ledger in order) the exact invariant holds -/
theorem C12_gaugeExact_genesis (E : EscrowScheme) (s : State) (t : Int) (hG : s.gauges = [])
    (hnn : ∀ kv ∈ s.bank, 0 ≤ kv.2) (hsup : ∀ d, supply s.bank d ≤ I64.maxV) : GaugeExact E s t :=
  GaugeExact.init E s t hG ⟨hnn, hsup⟩

/-- the side conditions of a history split at any point of it -/
theorem hist_split (E : EscrowScheme) :
    ∀ (pre post : List (Int × Int × BEv)) (s s1 : State) (t0 : Int),
      HistOk E s t0 (pre ++ post) → NoCreditAlong s (pre ++ post) → runB s pre = some s1 →
      HistOk E s t0 pre ∧ NoCreditAlong s pre ∧ HistOk E s1 (lastTime t0 pre) post ∧ NoCreditAlong s1 post
  | [], post, s, s1, t0, hh, hn, hr => by
    simp only [runB, Option.some.injEq] at hr; subst hr
    exact ⟨trivial, trivial, hh, hn⟩
  | (h, now, .msg op) :: pre, post, s, s1, t0, hh, hn, hr => by
    simp only [List.cons_append, HistOk, NoCreditAlong, runB, lastTime] at hh hn hr ⊢
    obtain ⟨a1, a2, a3⟩ := hh
    obtain ⟨b1, b2⟩ := hn
    obtain ⟨i1, i2, i3, i4⟩ := hist_split E pre post _ s1 now a3 b2 hr
    exact ⟨⟨a1, a2, i1⟩, ⟨b1, i2⟩, i3, i4⟩
  | (h, now, .block) :: pre, post, s, s1, t0, hh, hn, hr => by
    simp only [List.cons_append, HistOk, NoCreditAlong, runB, lastTime] at hh hn hr ⊢
    obtain ⟨a1, a2⟩ := hh
    obtain ⟨b1, b2⟩ := hn
    split at hr
    · rename_i s' hb
      obtain ⟨i1, i2, i3, i4⟩ := hist_split E pre post s' s1 now (a2 s' hb) (b2 s' hb) hr
      refine ⟨⟨a1, fun s'' hb'' => ?_⟩, ⟨b1, fun s'' hb'' => ?_⟩, i3, i4⟩
      · rw [hb] at hb''; cases hb''; exact i1
      · rw [hb] at hb''; cases hb''; exact i2
    · simp at hr

/-- **C12: one reward block makes every gauge exact.**  Take a state satisfying the invariants
(`GaugeInv` — the upper bound — suffices: earlier credits to escrow accounts are allowed) and a reward
block at time `now` whose reward path runs (`h` is a multiple of the check window) and whose payouts
credit no escrow account.  Afterwards every stored gauge is live (`startT ≤ now ≤ endT`) and, per
recorded coin, what has left its escrow account is exactly `trunc(ratio(now)·A)`. -/
theorem C12_released_equals_schedule_after_reward_block (E : EscrowScheme) (s s' : State) (h t now : Int)
    (hinv : NoPanicInv s) (hg : GaugeInv E s t) (ht : t ≤ now) (hnc : BlockNoCredit s h)
    (hrun : ¬ Int.tmod h s.params.checkWindow > 0) (hb : beginBlock s h now = .ok s') :
    ∀ kv ∈ s'.gauges, kv.2.startT ≤ now ∧ now ≤ kv.2.endT ∧ ∀ c ∈ kv.2.coins,
      withdrawn s'.bank kv.2 c.1 c.2 = Dec.trunc (would kv.2.startT kv.2.endT now c.2) := by
  have fx := beginBlock_fx hinv.2 (hg.advance ht) hnc hrun hb
  intro kv hkv
  obtain ⟨l1, l2⟩ := fx.live kv hkv
  exact ⟨((hg.advance ht).ok kv (fx.sub kv hkv)).started, l1, l2⟩

/-- **C12, histories: released = schedule at reward blocks.**  For every history satisfying `HistOk` and
`NoCreditAlong`, from a state satisfying the invariants (e.g. genesis), at every block event
`(h, now, block)` of it: the history up to it runs (to `s1`), the block does not panic (giving `s2`),
and if the reward path runs at this height, then immediately afterwards every stored gauge is live and
its cumulative release `A − bal` equals `Dec.trunc (would startT endT now A)` — the elapsed fraction of
its duration, in whole microseconds, applied to the recorded deposit, rounded down — per recorded
coin. -/
theorem C12_released_equals_schedule_at_reward_blocks_along_histories (E : EscrowScheme)
    (pre post : List (Int × Int × BEv)) (h now : Int) (s : State) (t0 : Int)
    (hinv : NoPanicInv s) (hg : GaugeInv E s t0)
    (hh : HistOk E s t0 (pre ++ (h, now, .block) :: post))
    (hn : NoCreditAlong s (pre ++ (h, now, .block) :: post)) :
    ∃ s1 s2, runB s pre = some s1 ∧ beginBlock s1 h now = .ok s2 ∧
      (¬ Int.tmod h s1.params.checkWindow > 0 →
        ∀ kv ∈ s2.gauges, kv.2.startT ≤ now ∧ now ≤ kv.2.endT ∧ ∀ c ∈ kv.2.coins,
          withdrawn s2.bank kv.2 c.1 c.2 = Dec.trunc (would kv.2.startT kv.2.endT now c.2)) := by
  have hpre : HistOk E s t0 pre := by
    obtain ⟨s', hr⟩ := C05_history_never_panics_unconditional E _ s t0 hinv hg hh
    clear hn
    induction pre generalizing s t0 with
    | nil => trivial
    | cons ev pre ih =>
      obtain ⟨h', now', ev'⟩ := ev
      cases ev' with
      | msg op =>
        simp only [List.cons_append, HistOk, runB] at hh hr ⊢
        refine ⟨hh.1, hh.2.1, ih _ now' ?_ (stepT_gaugeInv (hg.advance hh.1) hh.2.1) hh.2.2 hr⟩
        unfold stepT
        cases hs : step s h' now' op with
        | none => simpa using hinv
        | some s1 => simpa using (C05_validation_establishes_sizes s s1 h' now' hinv).1 op hs
      | block =>
        simp only [List.cons_append, HistOk, runB] at hh hr ⊢
        refine ⟨hh.1, fun s1 hb => ?_⟩
        rw [hb] at hr
        exact ih s1 now' ((C05_validation_establishes_sizes s s1 h' now' hinv).2 hb)
          (beginBlock_gaugeInv hinv.2 (hg.advance hh.1) hb) (hh.2 s1 hb) hr
  obtain ⟨s1, hr1⟩ := C05_history_never_panics_unconditional E pre s t0 hinv hg hpre
  obtain ⟨_, _, hh1, hn1⟩ := hist_split E pre _ s s1 t0 hh hn hr1
  obtain ⟨hinv1, hg1⟩ := C05_invariants_along_histories E pre s s1 t0 hinv hg hpre hr1
  obtain ⟨ht, _⟩ := hh1
  obtain ⟨hnc, _⟩ := hn1
  obtain ⟨s2, hb⟩ := C05_beginBlock_never_panics s1 h now hinv1 (hg1.advance ht).gaugesSafe
  exact ⟨s1, s2, hr1, hb, fun hrun =>
    C12_released_equals_schedule_after_reward_block E s1 s2 h _ now hinv1 hg1 ht hnc hrun hb⟩

/-- **C12, histories: nothing is released outside the interval.**  At every block event
`(h, now, block)` of such a history (notation as above):
* no gauge with `startT > now` is stored, before or after the block;
* if the reward path runs, a stored gauge with `endT < now` is removed from the store (no gauge with
  its id is stored afterwards) and **no balance of its escrow account changes**: nothing is released
  from it, and whatever was still in escrow stays there — the model (like the chain) never moves it
  again, since only `pullTokensFromGauges` on a *stored* gauge debits an escrow account. -/
theorem C12_nothing_released_outside_interval_along_histories (E : EscrowScheme)
    (pre post : List (Int × Int × BEv)) (h now : Int) (s : State) (t0 : Int)
    (hinv : NoPanicInv s) (hg : GaugeInv E s t0)
    (hh : HistOk E s t0 (pre ++ (h, now, .block) :: post))
    (hn : NoCreditAlong s (pre ++ (h, now, .block) :: post)) :
    ∃ s1 s2, runB s pre = some s1 ∧ beginBlock s1 h now = .ok s2 ∧
      (∀ kv ∈ s1.gauges, kv.2.startT ≤ now) ∧ (∀ kv ∈ s2.gauges, kv.2.startT ≤ now) ∧
      (¬ Int.tmod h s1.params.checkWindow > 0 → ∀ kv ∈ s1.gauges, kv.2.endT < now →
        AMap.get s2.gauges kv.1 = none ∧ ∀ d, bal s2.bank kv.2.account d = bal s1.bank kv.2.account d) := by
  obtain ⟨s1, s2, hr1, hb, _⟩ :=
    C12_released_equals_schedule_at_reward_blocks_along_histories E pre post h now s t0 hinv hg hh hn
  have hpre : HistOk E s t0 pre ∧ NoCreditAlong s pre ∧ _ ∧ _ := hist_split E pre _ s s1 t0 hh hn hr1
  obtain ⟨hpre, _, hh1, hn1⟩ := hpre
  obtain ⟨hinv1, hg1⟩ := C05_invariants_along_histories E pre s s1 t0 hinv hg hpre hr1
  obtain ⟨ht, _⟩ := hh1
  obtain ⟨hnc, _⟩ := hn1
  have hg1' := hg1.advance ht
  have hg2 := beginBlock_gaugeInv hinv1.2 hg1' hb
  refine ⟨s1, s2, hr1, hb, fun kv hkv => (hg1'.ok kv hkv).started, fun kv hkv => (hg2.ok kv hkv).started, ?_⟩
  intro hrun kv hkv hend
  have fx := beginBlock_fx hinv1.2 hg1' hnc hrun hb
  refine ⟨?_, fx.frozen kv hkv (Or.inl hend)⟩
  cases hget : AMap.get s2.gauges kv.1 with
  | none => rfl
  | some g' =>
    exfalso
    have hm2 := AMap.mem_of_get hget
    have hm1 := fx.sub _ hm2
    have e := wf_unique hg1'.wf hm1 hkv rfl
    have hl := (fx.live _ hm2).1
    rw [e] at hl
    omega

/-- monotonicity, the induction: `R1` is a cumulative release of gauge `k` (started at `T1`) in
denomination `d`, observed no later than time `t`; it stays a lower bound of the cumulative release
of that gauge at every later state -/
theorem released_mono_core (E : EscrowScheme) (k d : String) (T1 R1 : Int) :
    ∀ (mid : List (Int × Int × BEv)) (s s2 : State) (t : Int),
      NoPanicInv s → GaugeExact E s t → HistOk E s t mid → NoCreditAlong s mid → runB s mid = some s2 →
      (t ≤ T1 → R1 ≤ 0) →
      (∀ kv ∈ s.gauges, kv.1 = k → kv.2.startT = T1 → ∀ c ∈ kv.2.coins, c.1 = d →
        R1 ≤ withdrawn s.bank kv.2 c.1 c.2) →
      ∀ kv ∈ s2.gauges, kv.1 = k → kv.2.startT = T1 → ∀ c ∈ kv.2.coins, c.1 = d →
        R1 ≤ withdrawn s2.bank kv.2 c.1 c.2
  | [], s, s2, _, _, _, _, _, hr, _, hm => by
    simp only [runB, Option.some.injEq] at hr; subst hr; exact hm
  | (h, now, .msg op) :: rest, s, s2, t, hinv, hg, hh, hn, hr, hz, hm => by
    simp only [runB] at hr
    obtain ⟨ht, hok, hrest⟩ := hh
    obtain ⟨hnc, hnrest⟩ := hn
    have hg' := hg.advance ht
    have fx := stepT_fx (h := h) hg' hok hnc
    refine released_mono_core E k d T1 R1 rest _ s2 now ?_ (stepT_gaugeExact hg' hok hnc) hrest hnrest hr
      (fun hle => hz (by omega)) ?_
    · unfold stepT
      cases hs : step s h now op with
      | none => simpa using hinv
      | some s1 => simpa using (C05_validation_establishes_sizes s s1 h now hinv).1 op hs
    · intro kv hkv hk hT c hc hd
      rcases fx kv hkv with ⟨hmem, hbal⟩ | ⟨f1, _, f3, _⟩
      · have := hm kv hmem hk hT c hc hd
        unfold withdrawn at this ⊢
        rw [hbal]; exact this
      · unfold withdrawn
        rw [f3 c hc]
        exact hz (by omega)
  | (h, now, .block) :: rest, s, s2, t, hinv, hg, hh, hn, hr, hz, hm => by
    simp only [runB] at hr
    obtain ⟨ht, hrest⟩ := hh
    obtain ⟨hnc, hnrest⟩ := hn
    have hg' := hg.advance ht
    split at hr
    · rename_i s1 hb
      have hmono := beginBlock_released_mono hinv.2 hg' hnc hb
      refine released_mono_core E k d T1 R1 rest s1 s2 now
        ((C05_validation_establishes_sizes s s1 h now hinv).2 hb) (beginBlock_gaugeExact hinv.2 hg' hnc hb)
        (hrest s1 hb) (hnrest s1 hb) hr (fun hle => hz (by omega)) ?_
      intro kv hkv hk hT c hc hd
      obtain ⟨hmem, hle⟩ := hmono kv hkv
      exact Int.le_trans (hm kv hmem hk hT c hc hd) (hle c hc)
    · simp at hr

/-- **C12, histories: the cumulative release never decreases.**  Take two states of a history that
satisfies `HistOk` and `NoCreditAlong` from a state satisfying the invariants: `s1` after `pre`, `s2`
after `pre ++ mid`.  A gauge stored in both — the same id and the same start time, which identifies a
gauge even if the id oracle of the model re-issued the id of a removed gauge later — has, per
denomination, released at `s2` at least what it had released at `s1`.  (A same-block deposit into the
gauge in between changes its recorded amount and end, not this: both sides are then 0.) -/
theorem C12_cumulative_release_nondecreasing_along_histories (E : EscrowScheme)
    (pre mid : List (Int × Int × BEv)) (s s1 s2 : State) (t0 : Int)
    (hinv : NoPanicInv s) (hg : GaugeExact E s t0)
    (hh : HistOk E s t0 (pre ++ mid)) (hn : NoCreditAlong s (pre ++ mid))
    (hr1 : runB s pre = some s1) (hr2 : runB s1 mid = some s2) :
    ∀ kv1 ∈ s1.gauges, ∀ kv2 ∈ s2.gauges, kv1.1 = kv2.1 → kv1.2.startT = kv2.2.startT →
      ∀ c1 ∈ kv1.2.coins, ∀ c2 ∈ kv2.2.coins, c1.1 = c2.1 →
        withdrawn s1.bank kv1.2 c1.1 c1.2 ≤ withdrawn s2.bank kv2.2 c2.1 c2.2 := by
  obtain ⟨hpre, hnpre, hh1, hn1⟩ := hist_split E pre mid s s1 t0 hh hn hr1
  obtain ⟨hinv1, hg1⟩ := C12_gaugeExact_along_histories E pre s s1 t0 hinv hg hpre hnpre hr1
  intro kv1 hkv1 kv2 hkv2 hk hT c1 hc1 c2 hc2 hd
  have hok1 := hg1.inv.ok kv1 hkv1
  refine released_mono_core E kv1.1 c1.1 kv1.2.startT (withdrawn s1.bank kv1.2 c1.1 c1.2) mid s1 s2 _
    hinv1 hg1 hh1 hn1 hr2 ?_ ?_ kv2 hkv2 hk.symm hT.symm c2 hc2 hd.symm
  · intro hle
    obtain ⟨t', a1, a2, _, a4⟩ := (hg1.exact kv1 hkv1).at_
    have : t' = kv1.2.startT := by omega
    subst this
    unfold withdrawn
    rw [a4 c1 hc1, trunc_would_start hok1.long]
    exact Int.le_refl _
  · intro kv hkv hk' _ c hc hd'
    have := wf_unique hg1.inv.wf hkv hkv1 hk'
    subst this
    obtain ⟨e1, e2⟩ := hok1.coins.mem hc
    obtain ⟨e3, e4⟩ := hok1.coins.mem hc1
    have : c = c1 := Prod.ext (by rw [e1, e3]) (by rw [e2, e4])
    subst this
    exact Int.le_refl _

end Canine.Storage

/-! ### non-vacuity: the concrete history of `Props/C05.lean`

`exHist`: alice and bob buy the same plan in the same block (one gauge "g1" recording
4666666 + 4666666 = 9333332 ujkl, all of it in escrow "esc/g1"), then two reward blocks one and two days
later (heights 3 and 6, check window 3).  The hypotheses of the theorems above hold for it, and the
released amounts are exactly 1/30 and 2/30 of the deposit, rounded down. -/
namespace Canine.Storage
open Bank GI

theorem exBlock1 : beginBlock exS2 3 (exT0 + dayNs) = .ok (exSt 311113 9022221) :=
  beginBlock_no_files exS2 _ [("ujkl", 311111)] _ _ rfl rfl (by decide) (by rfl)

theorem exBlock2 : beginBlock (exSt 311113 9022221) 6 (exT0 + 2 * dayNs) = .ok (exSt 622224 8711110) :=
  beginBlock_no_files _ _ [("ujkl", 311111)] _ _ rfl rfl (by decide) (by rfl)

/-- the merged gauge of the example -/
def exG2 : Gauge := { exG with coins := [("ujkl", 9333332)] }

/-- **`NoCreditAlong` holds for the example**: the POL and fee accounts are not "esc/g1", the escrow
account is empty before the first purchase, no prover is paid. -/
theorem exNoCredit : NoCreditAlong exS0 exHist := by
  simp only [exHist, NoCreditAlong, exStep, exStep2]
  have hp : ∀ a, a ∈ ["pol", "fee"] → a ≠ "esc/g1" := by
    intro a ha
    simp only [List.mem_cons, List.not_mem_nil, or_false] at ha
    rcases ha with e | e <;> subst e <;> decide
  refine ⟨⟨?_, ?_⟩, ⟨?_, ?_⟩, ?_, fun s' hb => ⟨?_, fun _ _ => trivial⟩⟩
  · intro a ha
    refine ⟨fun kv hkv => ?_, fun gid gacc hop => ?_⟩
    · rw [show exS0.gauges = [] from rfl] at hkv; simp at hkv
    · simp only [exOp, Op.gaugeOf, Option.some.injEq, Prod.mk.injEq] at hop
      obtain ⟨_, rfl⟩ := hop
      exact hp a ha
  · intro gid gacc hop _
    simp only [exOp, Op.gaugeOf, Option.some.injEq, Prod.mk.injEq] at hop
    obtain ⟨_, rfl⟩ := hop
    exact ⟨by decide, by decide⟩
  · intro a ha
    refine ⟨fun kv hkv => ?_, fun gid gacc hop => ?_⟩
    · simp only [exS1, List.mem_singleton] at hkv
      subst hkv; exact hp a ha
    · simp only [exOp2, Op.gaugeOf, Option.some.injEq, Prod.mk.injEq] at hop
      obtain ⟨_, rfl⟩ := hop
      exact hp a ha
  · intro gid gacc hop hget
    simp only [exOp2, Op.gaugeOf, Option.some.injEq, Prod.mk.injEq] at hop
    obtain ⟨rfl, _⟩ := hop
    simp [exS1, AMap.get] at hget
  · intro pw hpw
    rw [show blockTracker exS2 3 = [] from rfl] at hpw; simp at hpw
  · rw [exBlock1] at hb; cases hb
    intro pw hpw
    rw [show blockTracker (exSt 311113 9022221) 6 = [] from rfl] at hpw; simp at hpw

/-- the exact invariant holds at genesis of the example, hence (by the theorem) at its end -/
example : GaugeExact exE (exSt 622224 8711110) (exT0 + 2 * dayNs) :=
  (C12_gaugeExact_along_histories exE exHist exS0 _ exT0 exHyps.1
    (GaugeExact.init exE exS0 exT0 rfl exHyps.2.1.bank) exHyps.2.2 exNoCredit exRun).2

/-- **after the first reward block** (one day of thirty): the theorem applies — its hypotheses hold,
the reward path runs at height 3 — and says the gauge has released exactly `trunc(ratio·A)`; … -/
example : ∀ kv ∈ (exSt 311113 9022221).gauges, kv.2.startT ≤ exT0 + dayNs ∧ exT0 + dayNs ≤ kv.2.endT ∧
    ∀ c ∈ kv.2.coins, withdrawn (exSt 311113 9022221).bank kv.2 c.1 c.2
      = Dec.trunc (would kv.2.startT kv.2.endT (exT0 + dayNs) c.2) := by
  obtain ⟨s1, s2, h1, h2, h3⟩ := C12_released_equals_schedule_at_reward_blocks_along_histories exE
    [(2, exT0, .msg exOp), (2, exT0, .msg exOp2)] [(6, exT0 + 2 * dayNs, .block)] 3 (exT0 + dayNs) exS0 exT0
    exHyps.1 exHyps.2.1 exHyps.2.2 exNoCredit
  simp only [runB, exStep, exStep2, Option.some.injEq] at h1
  subst h1
  rw [exBlock1] at h2; cases h2
  exact h3 (by decide)

/-- … **the exact amounts**: 311111 = ⌊9333332/30⌋ after the first reward block, 622222 =
⌊2·9333332/30⌋ after the second, both equal to the schedule value `Dec.trunc (would …)`. -/
example :
    (exSt 311113 9022221).gauges = [("g1", exG2)] ∧ (exSt 622224 8711110).gauges = [("g1", exG2)] ∧
    withdrawn (exSt 311113 9022221).bank exG2 "ujkl" 9333332 = 311111 ∧
    Dec.trunc (would exG2.startT exG2.endT (exT0 + dayNs) 9333332) = 311111 ∧
    withdrawn (exSt 622224 8711110).bank exG2 "ujkl" 9333332 = 622222 ∧
    Dec.trunc (would exG2.startT exG2.endT (exT0 + 2 * dayNs) 9333332) = 622222 := by
  refine ⟨rfl, rfl, ?_, ?_, ?_, ?_⟩ <;> decide

/-- monotonicity on the example: between the states after the two purchases, after the first and
after the second reward block (0 ≤ 311111 ≤ 622222), as instances of the theorem -/
example : ∀ c1 ∈ exG2.coins, ∀ c2 ∈ exG2.coins, c1.1 = c2.1 →
    withdrawn (exSt 311113 9022221).bank exG2 c1.1 c1.2 ≤ withdrawn (exSt 622224 8711110).bank exG2 c2.1 c2.2 := by
  have h1 : runB exS0 [(2, exT0, .msg exOp), (2, exT0, .msg exOp2), (3, exT0 + dayNs, .block)]
      = some (exSt 311113 9022221) := by
    simp only [runB, exStep, exStep2, exBlock1]
  have h2 : runB (exSt 311113 9022221) [(6, exT0 + 2 * dayNs, .block)] = some (exSt 622224 8711110) := by
    simp only [runB, exBlock2]
  exact C12_cumulative_release_nondecreasing_along_histories exE
    [(2, exT0, .msg exOp), (2, exT0, .msg exOp2), (3, exT0 + dayNs, .block)] [(6, exT0 + 2 * dayNs, .block)]
    exS0 _ _ exT0 exHyps.1
    (GaugeExact.init exE exS0 exT0 rfl exHyps.2.1.bank) exHyps.2.2 exNoCredit h1 h2
    ("g1", exG2) (by simp [exSt, exS2, exG2]) ("g1", exG2) (by simp [exSt, exS2, exG2]) rfl rfl

end Canine.Storage

/-! ### the side condition is needed, and what it excludes

`NoCredit.fresh` excludes an escrow account that holds coins before its gauge exists.  That is
reachable (anybody can compute the hash-derived address of a gauge that a purchase at a given height
will create and send coins there; in the model: a genesis balance, or a `buyStorage` naming it as
referrer).  It is harmless, and the equality repairs itself at the next reward block — but it is not
an equality meanwhile: -/
namespace Canine.Storage
open Bank GI

/-- `exS0` with 1000 ujkl already sitting on the address that will be gauge g1's escrow account -/
def exS0p : State := { exS0 with bank := exS0.bank ++ [(("esc/g1", "ujkl"), 1000)] }
/-- … after alice's purchase (4666666 deposited, 4667666 in escrow) -/
def exP1 : State :=
  { exS1 with bank := [(("alice", "ujkl"), 999986666667), (("bob", "ujkl"), 1000000000000), (("esc/g1", "ujkl"), 4667666),
                       (("mod", "ujkl"), 1), (("pol", "ujkl"), 5333333), (("fee", "ujkl"), 3333333)] }
/-- … after the reward block one day later -/
def exP2 : State :=
  { exS1 with bank := [(("alice", "ujkl"), 999986666667), (("bob", "ujkl"), 1000000000000), (("esc/g1", "ujkl"), 4511111),
                       (("mod", "ujkl"), 156556), (("pol", "ujkl"), 5333333), (("fee", "ujkl"), 3333333)] }
/-- … after a reward block past the gauge's end (day 31 of 30) -/
def exP3 : State := { exP2 with gauges := [] }

/-- **Why `NoCredit.fresh` is there.**  With a pre-funded escrow address the purchase succeeds, and
`A − bal = −1000` although the schedule value at the start is 0: the equality fails (the bound of
`C12_never_ahead_of_schedule_along_histories` holds).  The next reward block releases
156555 = 155555 + 1000 — the scheduled amount *and the foreign coins* go to the reward pool — and
afterwards `A − bal = 155555 = ⌊4666666/30⌋` again, as `C12_released_equals_schedule_after_reward_block`
says (it needs no hypothesis on earlier credits). -/
theorem C12_prefunded_escrow_is_released_with_the_first_block :
    stepT exS0p 2 exT0 exOp = exP1 ∧ withdrawn exP1.bank exG "ujkl" 4666666 = -1000 ∧
    Dec.trunc (would exG.startT exG.endT exT0 4666666) = 0 ∧
    beginBlock exP1 3 (exT0 + dayNs) = .ok exP2 ∧ withdrawn exP2.bank exG "ujkl" 4666666 = 155555 ∧
    Dec.trunc (would exG.startT exG.endT (exT0 + dayNs) 4666666) = 155555 :=
  ⟨by rfl, by decide, by decide, beginBlock_no_files exP1 _ [("ujkl", 156555)] _ _ rfl rfl (by decide) (by rfl),
   by decide, by decide⟩

/-- **What is not released by the end stays in escrow.**  No reward block happened to fall exactly on
the end of the gauge; the first one after it (day 31) removes the gauge and transfers nothing: the
4511111 ujkl that were still in escrow remain on an account no code path debits again
(`C12_nothing_released_outside_interval_along_histories` is the general statement). -/
theorem C12_remainder_stays_in_escrow_after_removal :
    beginBlock exP2 93 (exT0 + 31 * dayNs) = .ok exP3 ∧ exP3.gauges = [] ∧
    bal exP3.bank "esc/g1" "ujkl" = 4511111 :=
  ⟨beginBlock_no_files exP2 _ [] _ _ rfl rfl (by decide) (by rfl), rfl, by decide⟩

end Canine.Storage
