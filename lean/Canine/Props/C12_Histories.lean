/-
C12 — Payment gauges stream linearly and never release more than the pro-rata deposit:
the statement **along whole executions of the storage model** (messages and reward blocks).

`Props/C12.lean` proves the arithmetic of one gauge for an arbitrary sequence of reward times.  Here
the same bound is a theorem about every state the storage model reaches: the gauge invariant
`GaugeInv` of `Proofs/GaugeInv*.lean` (kept by every message and every reward block,
`C05_invariants_along_histories`) says, gauge by gauge, that what has left the escrow account so far
is at most the elapsed fraction of the gauge's duration applied to the recorded deposit — in the exact
`sdk.Dec` arithmetic of `pullTokensFromGauges` — hence at most its truncation (whole base units) and
at most the deposit; and every stored gauge has started.

This is a supplementary module: the helper family it needs (`Proofs/RewardD`, `GaugeInv*`) cannot be
imported together with the family `Props/C12.lean` uses (`Proofs/StorageB`).
-/
import Canine.Props.C05
namespace Canine.Storage
open Bank GI

/-- what has left the escrow of gauge `g` in denomination `d` when `A` is the recorded deposit -/
def withdrawn (b : Bank) (g : Gauge) (d : String) (A : Int) : Int := A - bal b g.account d

/-- **C12, histories (pro-rata bound).**  After any history of messages and reward blocks that
satisfies the side conditions `HistOk` (block times non-decreasing, no message signed by an escrow
account, escrow accounts derived injectively from gauge ids), from any state satisfying the
invariants (e.g. genesis), every stored gauge that has not ended has, per recorded coin:
* started (`startT ≤ now`),
* released at most `trunc(ratio(now) · A)` — the elapsed fraction of its duration in whole
  microseconds applied to the recorded deposit, rounded down — and
* released at most the deposit `A`.
Third-party transfers *into* an escrow account only lower `withdrawn` and are allowed. -/
theorem C12_never_ahead_of_schedule_along_histories (E : EscrowScheme)
    (hist : List (Int × Int × BEv)) (s s' : State) (t0 : Int)
    (hinv : NoPanicInv s) (hg : GaugeInv E s t0) (hh : HistOk E s t0 hist) (hr : runB s hist = some s') :
    ∀ kv ∈ s'.gauges, kv.2.startT ≤ lastTime t0 hist ∧
      (lastTime t0 hist ≤ kv.2.endT → ∀ c ∈ kv.2.coins,
        withdrawn s'.bank kv.2 c.1 c.2 ≤ Dec.trunc (would kv.2.startT kv.2.endT (lastTime t0 hist) c.2) ∧
        withdrawn s'.bank kv.2 c.1 c.2 ≤ c.2) := by
  intro kv hkv
  obtain ⟨_, hg'⟩ := C05_invariants_along_histories E hist s s' t0 hinv hg hh hr
  have hok := hg'.ok kv hkv
  refine ⟨hok.started, ?_⟩
  intro hend c hc
  have hsched := hok.sched hend c hc
  have hA : 0 ≤ c.2 := hok.coins.nonneg c hc
  have hlive : Live kv.2.startT kv.2.endT (lastTime t0 hist) := ⟨hok.started, hend, hok.long⟩
  obtain ⟨w0, w1⟩ := would_range hlive hA
  rw [ofInt_raw] at hsched
  have hp := precision_pos
  unfold withdrawn
  constructor
  · -- x·P ≤ w, 0 ≤ w  ⟹  x ≤ trunc w = w / P
    unfold Dec.trunc chopTrunc
    rw [tdiv_eq, Int.tdiv_eq_ediv_of_nonneg w0]
    exact (Int.le_ediv_iff_mul_le hp).mpr hsched
  · -- x·P ≤ w ≤ A·P ⟹ x ≤ A
    have : (c.2 - bal s'.bank kv.2.account c.1) * precision ≤ c.2 * precision := Int.le_trans hsched w1
    exact Int.le_of_mul_le_mul_right this hp

/-- **C12, histories (nothing before the start).**  A gauge at its own start time has released
nothing: the schedule value at `startT` is zero, so `withdrawn ≤ 0`. -/
theorem C12_nothing_released_at_start (E : EscrowScheme) (s : State) (hg : ∀ kv ∈ s.gauges, GaugeInv E s kv.2.startT) :
    ∀ kv ∈ s.gauges, ∀ c ∈ kv.2.coins, withdrawn s.bank kv.2 c.1 c.2 ≤ 0 := by
  intro kv hkv c hc
  have hok := (hg kv hkv).ok kv hkv
  have hsched := hok.sched (by have := hok.long; omega) c hc
  rw [ofInt_raw, would_start hok.long] at hsched
  have hp := precision_pos
  unfold withdrawn
  have : (c.2 - bal s.bank kv.2.account c.1) * precision ≤ 0 * precision := by simpa using hsched
  exact Int.le_of_mul_le_mul_right this hp

/-- non-vacuity: the concrete two-purchase, two-reward-block history of `Props/C05.lean` satisfies
the hypotheses, and the bound is about its final state -/
example : ∃ s', runB exS0 exHist = some s' ∧
    ∀ kv ∈ s'.gauges, kv.2.startT ≤ lastTime exT0 exHist :=
  ⟨_, exRun, fun kv hkv =>
    (C12_never_ahead_of_schedule_along_histories exE exHist exS0 _ exT0 exHyps.1 exHyps.2.1 exHyps.2.2 exRun kv hkv).1⟩

end Canine.Storage
