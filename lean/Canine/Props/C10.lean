/-
C10 — File-tree entries change only by their owner or, for posts, the folder's editors.
All theorems hold for every hash function `H` (ownership *is* the chain's predicate
H("o" ‖ address ‖ H(signer)) = entry.owner), every state and every message.
-/
import Canine.Filetree.Model
import Canine.Generated.KeyFacts
namespace Canine.Filetree

variable (H : String → String)

/-- every entry sits under the key built from its own address and owner fields -/
def StoreInv (s : State) : Prop := ∀ k e, AMap.get s.files k = some e → k = (e.address, e.owner)

/-- the store keys a message may write or delete -/
def touched : Op → List (String × String)
  | .postFile _ acc hp hc .. =>
      [(addToMerkleS H hp hc, makeOwnerAddress H (addToMerkleS H hp hc) acc)]
  | .deleteFile _ hp acc => [(hp, makeOwnerAddress H hp acc)]
  | .changeOwner _ a fo no => [(a, makeOwnerAddress H a fo), (a, makeOwnerAddress H a no)]
  | .addViewers _ a fo .. | .removeViewers _ a fo .. | .resetViewers _ a fo
  | .addEditors _ a fo .. | .removeEditors _ a fo .. | .resetEditors _ a fo => [(a, fo)]
  | .provision c .. => [(rootAddress H, makeOwnerAddress H (rootAddress H) (H c))]
  | .postKey .. => []

/-- the entry whose ownership (or, for posts, whose editor list) authorises the message -/
def authKey : Op → Option (String × String)
  | .postFile _ acc hp .. => some (hp, makeOwnerAddress H hp acc)
  | .deleteFile _ hp acc => some (hp, makeOwnerAddress H hp acc)
  | .changeOwner _ a fo _ => some (a, makeOwnerAddress H a fo)
  | .addViewers _ a fo .. | .removeViewers _ a fo .. | .resetViewers _ a fo
  | .addEditors _ a fo .. | .removeEditors _ a fo .. | .resetEditors _ a fo => some (a, fo)
  | .provision .. | .postKey .. => none

def Op.creator : Op → String
  | .postFile c .. | .deleteFile c .. | .changeOwner c .. | .addViewers c .. | .removeViewers c ..
  | .resetViewers c .. | .addEditors c .. | .removeEditors c .. | .resetEditors c ..
  | .provision c .. | .postKey c .. => c

def Op.isPost : Op → Bool
  | .postFile .. => true
  | _ => false

/-- **Authorisation.** A successful delete / change-owner / viewer- or editor-list message found
the named entry and its signer is that entry's owner; a successful post found the parent folder
and its signer has edit access to it.  (Contrapositive: a signer lacking the right fails, and a
failed message leaves the tree unchanged by `stepT`.) -/
theorem C10_success_requires_right (s s' : State) (op : Op) (hstep : step H s op = some s')
    (k : String × String) (hk : authKey H op = some k) :
    ∃ f, AMap.get s.files k = some f ∧
      (if op.isPost then hasEditAccess H f op.creator = some true else isOwner H f op.creator = true) := by
  unfold step at hstep
  split at hstep
  case isFalse => simp at hstep
  cases op with
  | postFile c acc hp hc ct v e vr er tr =>
    simp only [authKey, Option.some.injEq] at hk; subst hk
    simp only [handle, postFile, bind, Option.bind_eq_some_iff, req_eq_some] at hstep
    obtain ⟨parent, hp', ok, hok, _, hok2, _⟩ := hstep
    exact ⟨parent, hp', by simp [Op.isPost, Op.creator, hok, hok2]⟩
  | deleteFile c hp acc =>
    simp only [authKey, Option.some.injEq] at hk; subst hk
    simp only [handle, deleteFile, bind, Option.bind_eq_some_iff, req_eq_some] at hstep
    obtain ⟨f, hf, _, ho, _⟩ := hstep
    exact ⟨f, hf, by simpa [Op.isPost, Op.creator] using ho⟩
  | changeOwner c a fo no =>
    simp only [authKey, Option.some.injEq] at hk; subst hk
    simp only [handle, changeOwner, bind, Option.bind_eq_some_iff, req_eq_some] at hstep
    obtain ⟨f, hf, _, ho, _⟩ := hstep
    exact ⟨f, hf, by simpa [Op.isPost, Op.creator] using ho⟩
  | addViewers c a fo ids keys =>
    simp only [authKey, Option.some.injEq] at hk; subst hk
    simp only [handle, addViewers, bind, Option.bind_eq_some_iff, req_eq_some] at hstep
    obtain ⟨f, hf, _, ho, _⟩ := hstep
    exact ⟨f, hf, by simpa [Op.isPost, Op.creator] using ho⟩
  | removeViewers c a fo ids =>
    simp only [authKey, Option.some.injEq] at hk; subst hk
    simp only [handle, removeViewers, bind, Option.bind_eq_some_iff, req_eq_some] at hstep
    obtain ⟨f, hf, _, ho, _⟩ := hstep
    exact ⟨f, hf, by simpa [Op.isPost, Op.creator] using ho⟩
  | resetViewers c a fo =>
    simp only [authKey, Option.some.injEq] at hk; subst hk
    simp only [handle, resetViewers, bind, Option.bind_eq_some_iff, req_eq_some] at hstep
    obtain ⟨f, hf, _, ho, _⟩ := hstep
    exact ⟨f, hf, by simpa [Op.isPost, Op.creator] using ho⟩
  | addEditors c a fo ids keys =>
    simp only [authKey, Option.some.injEq] at hk; subst hk
    simp only [handle, addEditors, bind, Option.bind_eq_some_iff, req_eq_some] at hstep
    obtain ⟨f, hf, _, ho, _⟩ := hstep
    exact ⟨f, hf, by simpa [Op.isPost, Op.creator] using ho⟩
  | removeEditors c a fo ids =>
    simp only [authKey, Option.some.injEq] at hk; subst hk
    simp only [handle, removeEditors, bind, Option.bind_eq_some_iff, req_eq_some] at hstep
    obtain ⟨f, hf, _, ho, _⟩ := hstep
    exact ⟨f, hf, by simpa [Op.isPost, Op.creator] using ho⟩
  | resetEditors c a fo =>
    simp only [authKey, Option.some.injEq] at hk; subst hk
    simp only [handle, resetEditors, bind, Option.bind_eq_some_iff, req_eq_some] at hstep
    obtain ⟨f, hf, _, ho, _⟩ := hstep
    exact ⟨f, hf, by simpa [Op.isPost, Op.creator] using ho⟩
  | provision c v e vr er tr => simp [authKey] at hk
  | postKey c k' => simp [authKey] at hk

/-- **Frame.** A successful message alters nothing but the named entry (for change-owner: the
entry under its old and under its new owner key; provisioning: the signer's own root). -/
theorem C10_touches_only_named_entry (s s' : State) (op : Op) (hinv : StoreInv s)
    (hstep : step H s op = some s') (k : String × String) (hk : k ∉ touched H op) :
    AMap.get s'.files k = AMap.get s.files k := by
  unfold step at hstep
  split at hstep
  case isFalse => simp at hstep
  cases op with
  | postFile c acc hp hc ct v e vr er tr =>
    simp only [handle, postFile, bind, Option.bind_eq_some_iff, req_eq_some] at hstep
    obtain ⟨parent, hp', ok, hok, _, hok2, hs⟩ := hstep
    simp only [Option.some.injEq] at hs; subst hs
    simp only [touched, List.mem_singleton] at hk
    exact AMap.get_set_other _ _ _ _ (fun e => hk e.symm)
  | deleteFile c hp acc =>
    simp only [handle, deleteFile, bind, Option.bind_eq_some_iff, req_eq_some] at hstep
    obtain ⟨f, hf, _, ho, hs⟩ := hstep
    simp only [Option.some.injEq] at hs; subst hs
    simp only [touched, List.mem_singleton] at hk
    exact AMap.get_erase_other _ _ _ (fun e => hk e.symm)
  | changeOwner c a fo no =>
    simp only [handle, changeOwner, bind, Option.bind_eq_some_iff, req_eq_some] at hstep
    obtain ⟨f, hf, _, ho, _, hnew, hs⟩ := hstep
    simp only [Option.some.injEq] at hs; subst hs
    have hfk := hinv _ _ hf
    simp only [Prod.mk.injEq] at hfk
    simp only [touched, List.mem_cons, List.mem_singleton, List.not_mem_nil, or_false, not_or] at hk
    simp only
    rw [AMap.get_erase_other _ _ _ (fun e => hk.1 e.symm), AMap.get_set_other]
    rw [← hfk.1]; exact fun e => hk.2 e.symm
  | addViewers c a fo ids keys =>
    simp only [handle, addViewers, bind, Option.bind_eq_some_iff, req_eq_some] at hstep
    obtain ⟨f, hf, _, ho, m, hm, _, _, m', hm', hs⟩ := hstep
    simp only [Option.some.injEq] at hs; subst hs
    have hfk := hinv _ _ hf
    simp only [touched, List.mem_singleton] at hk
    exact AMap.get_set_other _ _ _ _ (by rw [← hfk]; exact fun e => hk e.symm)
  | removeViewers c a fo ids =>
    simp only [handle, removeViewers, bind, Option.bind_eq_some_iff, req_eq_some] at hstep
    obtain ⟨f, hf, _, ho, m, hm, hs⟩ := hstep
    simp only [Option.some.injEq] at hs; subst hs
    have hfk := hinv _ _ hf
    simp only [touched, List.mem_singleton] at hk
    exact AMap.get_set_other _ _ _ _ (by rw [← hfk]; exact fun e => hk e.symm)
  | resetViewers c a fo =>
    simp only [handle, resetViewers, bind, Option.bind_eq_some_iff, req_eq_some] at hstep
    obtain ⟨f, hf, _, ho, m, hm, hs⟩ := hstep
    simp only [Option.some.injEq] at hs; subst hs
    have hfk := hinv _ _ hf
    simp only [touched, List.mem_singleton] at hk
    exact AMap.get_set_other _ _ _ _ (by rw [← hfk]; exact fun e => hk e.symm)
  | addEditors c a fo ids keys =>
    simp only [handle, addEditors, bind, Option.bind_eq_some_iff, req_eq_some] at hstep
    obtain ⟨f, hf, _, ho, m, hm, _, _, m', hm', hs⟩ := hstep
    simp only [Option.some.injEq] at hs; subst hs
    have hfk := hinv _ _ hf
    simp only [touched, List.mem_singleton] at hk
    exact AMap.get_set_other _ _ _ _ (by rw [← hfk]; exact fun e => hk e.symm)
  | removeEditors c a fo ids =>
    simp only [handle, removeEditors, bind, Option.bind_eq_some_iff, req_eq_some] at hstep
    obtain ⟨f, hf, _, ho, m, hm, hs⟩ := hstep
    simp only [Option.some.injEq] at hs; subst hs
    have hfk := hinv _ _ hf
    simp only [touched, List.mem_singleton] at hk
    exact AMap.get_set_other _ _ _ _ (by rw [← hfk]; exact fun e => hk e.symm)
  | resetEditors c a fo =>
    simp only [handle, resetEditors, bind, Option.bind_eq_some_iff, req_eq_some] at hstep
    obtain ⟨f, hf, _, ho, m, hm, hs⟩ := hstep
    simp only [Option.some.injEq] at hs; subst hs
    have hfk := hinv _ _ hf
    simp only [touched, List.mem_singleton] at hk
    exact AMap.get_set_other _ _ _ _ (by rw [← hfk]; exact fun e => hk e.symm)
  | provision c v e vr er tr =>
    simp only [handle, Option.some.injEq] at hstep; subst hstep
    simp only [touched, List.mem_singleton] at hk
    exact AMap.get_set_other _ _ _ _ (fun e => hk e.symm)
  | postKey c k' =>
    simp only [handle, Option.some.injEq] at hstep; subst hstep
    rfl

theorem addIds_other : ∀ (ids keys : List String) (m m' : AMap String String),
    addIds m ids keys = some m' → ∀ id, id ∉ ids → AMap.get m' id = AMap.get m id
  | [], _, m, m', h, id, _ => by simp [addIds] at h; subst h; rfl
  | _ :: _, [], m, m', h, _, _ => by simp [addIds] at h
  | i :: is, k :: ks, m, m', h, id, hid => by
    simp only [addIds] at h
    simp only [List.mem_cons, not_or] at hid
    rw [addIds_other is ks _ m' h id hid.2, AMap.get_set_other _ _ _ _ (fun e => hid.1 e.symm)]

theorem removeIds_other : ∀ (ids : List String) (m : AMap String String) (id : String),
    id ∉ ids → AMap.get (removeIds m ids) id = AMap.get m id
  | [], _, _, _ => rfl
  | i :: is, m, id, hid => by
    simp only [List.mem_cons, not_or] at hid
    simp only [removeIds]
    rw [removeIds_other is _ id hid.2, AMap.get_erase_other _ _ _ (fun e => hid.1 e.symm)]

theorem removeIds_removed : ∀ (ids : List String) (m : AMap String String) (id : String),
    id ∈ ids → AMap.get (removeIds m ids) id = none
  | [], _, _, h => by simp at h
  | i :: is, m, id, hid => by
    simp only [removeIds]
    by_cases hin : id ∈ is
    · exact removeIds_removed is _ id hin
    · have : id = i := by simpa [hin] using hid
      subst this
      rw [removeIds_other is _ id hin, AMap.get_erase_self]

/-- **Viewer lists.** What the three viewer messages do to the named entry: everything but the
viewer list is untouched; add/remove change only the named ids (removed ids are gone); a reset
leaves exactly the owner's own viewer id (with the key it had). -/
theorem C10_viewer_messages_change_only_named_ids (s s' : State) (c a fo : String) (op : Op)
    (hinv : StoreInv s) (hstep : step H s op = some s')
    (hop : (∃ ids keys, op = .addViewers c a fo ids keys) ∨ (∃ ids, op = .removeViewers c a fo ids) ∨
           op = .resetViewers c a fo) :
    ∃ f acl', AMap.get s.files (a, fo) = some f ∧
      AMap.get s'.files (a, fo) = some { f with viewers := acl' } ∧
      (∀ ids keys, op = .addViewers c a fo ids keys → ∀ id, id ∉ ids → aclGet acl' id = aclGet f.viewers id) ∧
      (∀ ids, op = .removeViewers c a fo ids →
          (∀ id, id ∉ ids → aclGet acl' id = aclGet f.viewers id) ∧ ∀ id, id ∈ ids → aclGet acl' id = none) ∧
      (op = .resetViewers c a fo →
          acl' = .map [(makeViewerAddress H f.tracking c, (aclGet f.viewers (makeViewerAddress H f.tracking c)).getD "")]) := by
  unfold step at hstep
  split at hstep
  case isFalse => simp at hstep
  rcases hop with ⟨ids, keys, rfl⟩ | ⟨ids, rfl⟩ | rfl
  · simp only [handle, addViewers, bind, Option.bind_eq_some_iff, req_eq_some] at hstep
    obtain ⟨f, hf, _, ho, m, hm, _, hnn, m', hm', hs⟩ := hstep
    simp only [Option.some.injEq] at hs; subst hs
    have hfk := hinv _ _ hf
    refine ⟨f, .map m', hf, ?_, ?_, ?_, ?_⟩
    · simp only; rw [← hfk, AMap.get_set_self]
    · intro ids' keys' e id hid
      simp only [Op.addViewers.injEq] at e
      obtain ⟨_, _, _, rfl, rfl⟩ := e
      have e2 : aclGet f.viewers id = AMap.get m id := by simp only [aclGet, hm, Option.bind_some]
      rw [e2]
      exact addIds_other _ _ _ _ hm' id hid
    · intro ids' e; simp at e
    · intro e; simp at e
  · simp only [handle, removeViewers, bind, Option.bind_eq_some_iff, req_eq_some] at hstep
    obtain ⟨f, hf, _, ho, m, hm, hs⟩ := hstep
    simp only [Option.some.injEq] at hs; subst hs
    have hfk := hinv _ _ hf
    refine ⟨f, aclRemove f.viewers m ids, hf, ?_, ?_, ?_, ?_⟩
    · simp only; rw [← hfk, AMap.get_set_self]
    · intro ids' keys' e; simp at e
    · intro ids' e
      simp only [Op.removeViewers.injEq] at e
      obtain ⟨_, _, _, rfl⟩ := e
      unfold aclRemove
      split
      · rename_i hnull
        simp [aclGet, aclMap, hnull]
      · have e2 : ∀ id, aclGet f.viewers id = AMap.get m id := by
          intro id; simp only [aclGet, hm, Option.bind_some]
        refine ⟨fun id hid => ?_, fun id hid => removeIds_removed _ _ id hid⟩
        rw [e2]; exact removeIds_other _ _ id hid
    · intro e; simp at e
  · simp only [handle, resetViewers, bind, Option.bind_eq_some_iff, req_eq_some] at hstep
    obtain ⟨f, hf, _, ho, m, hm, hs⟩ := hstep
    simp only [Option.some.injEq] at hs; subst hs
    have hfk := hinv _ _ hf
    refine ⟨f, .map [(makeViewerAddress H f.tracking c, (AMap.get m (makeViewerAddress H f.tracking c)).getD "")], hf, ?_, ?_, ?_, ?_⟩
    · simp only; rw [← hfk, AMap.get_set_self]
    · intro ids' keys' e; simp at e
    · intro ids' e; simp at e
    · intro _; simp [aclGet, hm]

/-- **Editor lists.** What the three editor messages do to the named entry: everything but the
editor list is untouched; add/remove change only the named ids (removed ids are gone); a reset
leaves exactly the owner's own editor id (with the key it had). -/
theorem C10_editor_messages_change_only_named_ids (s s' : State) (c a fo : String) (op : Op)
    (hinv : StoreInv s) (hstep : step H s op = some s')
    (hop : (∃ ids keys, op = .addEditors c a fo ids keys) ∨ (∃ ids, op = .removeEditors c a fo ids) ∨
           op = .resetEditors c a fo) :
    ∃ f acl', AMap.get s.files (a, fo) = some f ∧
      AMap.get s'.files (a, fo) = some { f with editors := acl' } ∧
      (∀ ids keys, op = .addEditors c a fo ids keys → ∀ id, id ∉ ids → aclGet acl' id = aclGet f.editors id) ∧
      (∀ ids, op = .removeEditors c a fo ids →
          (∀ id, id ∉ ids → aclGet acl' id = aclGet f.editors id) ∧ ∀ id, id ∈ ids → aclGet acl' id = none) ∧
      (op = .resetEditors c a fo →
          acl' = .map [(makeEditorAddress H f.tracking c, (aclGet f.editors (makeEditorAddress H f.tracking c)).getD "")]) := by
  unfold step at hstep
  split at hstep
  case isFalse => simp at hstep
  rcases hop with ⟨ids, keys, rfl⟩ | ⟨ids, rfl⟩ | rfl
  · simp only [handle, addEditors, bind, Option.bind_eq_some_iff, req_eq_some] at hstep
    obtain ⟨f, hf, _, ho, m, hm, _, hnn, m', hm', hs⟩ := hstep
    simp only [Option.some.injEq] at hs; subst hs
    have hfk := hinv _ _ hf
    refine ⟨f, .map m', hf, ?_, ?_, ?_, ?_⟩
    · simp only; rw [← hfk, AMap.get_set_self]
    · intro ids' keys' e id hid
      simp only [Op.addEditors.injEq] at e
      obtain ⟨_, _, _, rfl, rfl⟩ := e
      have e2 : aclGet f.editors id = AMap.get m id := by simp only [aclGet, hm, Option.bind_some]
      rw [e2]
      exact addIds_other _ _ _ _ hm' id hid
    · intro ids' e; simp at e
    · intro e; simp at e
  · simp only [handle, removeEditors, bind, Option.bind_eq_some_iff, req_eq_some] at hstep
    obtain ⟨f, hf, _, ho, m, hm, hs⟩ := hstep
    simp only [Option.some.injEq] at hs; subst hs
    have hfk := hinv _ _ hf
    refine ⟨f, aclRemove f.editors m ids, hf, ?_, ?_, ?_, ?_⟩
    · simp only; rw [← hfk, AMap.get_set_self]
    · intro ids' keys' e; simp at e
    · intro ids' e
      simp only [Op.removeEditors.injEq] at e
      obtain ⟨_, _, _, rfl⟩ := e
      unfold aclRemove
      split
      · rename_i hnull
        simp [aclGet, aclMap, hnull]
      · have e2 : ∀ id, aclGet f.editors id = AMap.get m id := by
          intro id; simp only [aclGet, hm, Option.bind_some]
        refine ⟨fun id hid => ?_, fun id hid => removeIds_removed _ _ id hid⟩
        rw [e2]; exact removeIds_other _ _ id hid
    · intro e; simp at e
  · simp only [handle, resetEditors, bind, Option.bind_eq_some_iff, req_eq_some] at hstep
    obtain ⟨f, hf, _, ho, m, hm, hs⟩ := hstep
    simp only [Option.some.injEq] at hs; subst hs
    have hfk := hinv _ _ hf
    refine ⟨f, .map [(makeEditorAddress H f.tracking c, (AMap.get m (makeEditorAddress H f.tracking c)).getD "")], hf, ?_, ?_, ?_, ?_⟩
    · simp only; rw [← hfk, AMap.get_set_self]
    · intro ids' keys' e; simp at e
    · intro ids' e; simp at e
    · intro _; simp [aclGet, hm]

/-- **Posting.** A successful post writes the child at `AddToMerkle(parent, child)` (the address it
returns) and the new entry is owned by the same account hash as the folder it was posted under. -/
theorem C10_posted_entry_owned_by_folder_account (s s' : State) (c acc hp hc ct : String)
    (v e : Acl) (vr er tr : String) (hstep : step H s (.postFile c acc hp hc ct v e vr er tr) = some s') :
    ∃ parent, AMap.get s.files (hp, makeOwnerAddress H hp acc) = some parent ∧
      hasEditAccess H parent c = some true ∧
      AMap.get s'.files (addToMerkleS H hp hc, makeOwnerAddress H (addToMerkleS H hp hc) acc) =
        some { address := addToMerkleS H hp hc, owner := makeOwnerAddress H (addToMerkleS H hp hc) acc,
               contents := ct, viewers := v, editors := e, tracking := tr } := by
  unfold step at hstep
  split at hstep
  case isFalse => simp at hstep
  simp only [handle, postFile, bind, Option.bind_eq_some_iff, req_eq_some] at hstep
  obtain ⟨parent, hp', ok, hok, _, hok2, hs⟩ := hstep
  simp only [Option.some.injEq] at hs; subst hs
  exact ⟨parent, hp', by rw [hok, hok2], by simp⟩

/-- **Deleting / giving away.** Delete removes the named entry; change-owner moves the same entry
(contents and lists untouched) to the key of the new owner, which must have been free. -/
theorem C10_delete_removes_named_entry (s s' : State) (c hp acc : String)
    (hstep : step H s (.deleteFile c hp acc) = some s') :
    AMap.get s'.files (hp, makeOwnerAddress H hp acc) = none := by
  unfold step at hstep
  split at hstep
  case isFalse => simp at hstep
  simp only [handle, deleteFile, bind, Option.bind_eq_some_iff, req_eq_some] at hstep
  obtain ⟨f, hf, _, ho, hs⟩ := hstep
  simp only [Option.some.injEq] at hs; subst hs
  simp

theorem C10_change_owner_moves_entry (s s' : State) (c a fo no : String) (hinv : StoreInv s)
    (hstep : step H s (.changeOwner c a fo no) = some s') :
    ∃ f, AMap.get s.files (a, makeOwnerAddress H a fo) = some f ∧
      AMap.get s.files (a, makeOwnerAddress H a no) = none ∧
      AMap.get s'.files (a, makeOwnerAddress H a fo) = none ∧
      AMap.get s'.files (a, makeOwnerAddress H a no) = some { f with owner := makeOwnerAddress H a no } := by
  unfold step at hstep
  split at hstep
  case isFalse => simp at hstep
  simp only [handle, changeOwner, bind, Option.bind_eq_some_iff, req_eq_some] at hstep
  obtain ⟨f, hf, _, ho, _, hnew, hs⟩ := hstep
  simp only [Option.some.injEq] at hs; subst hs
  have hfk := hinv _ _ hf
  simp only [Prod.mk.injEq] at hfk
  have hnone : AMap.get s.files (a, makeOwnerAddress H a no) = none := by
    simp only [AMap.contains] at hnew
    cases h : AMap.get s.files (a, makeOwnerAddress H a no) with
    | none => rfl
    | some x => simp [h] at hnew
  have hne : (a, makeOwnerAddress H a fo) ≠ (a, makeOwnerAddress H a no) := by
    intro e; rw [e] at hf; rw [hf] at hnone; simp at hnone
  refine ⟨f, hf, hnone, by simp, ?_⟩
  simp only
  rw [AMap.get_erase_other _ _ _ hne, ← hfk.1, AMap.get_set_self]

/-- **Provisioning** writes only the signer's own root entry (frame: `C10_touches_only_named_entry`). -/
theorem C10_provision_writes_own_root (s : State) (c : String) (v e : Acl) (tr : String) :
    AMap.get (provision H s c v e tr).files (rootAddress H, makeOwnerAddress H (rootAddress H) (H c)) =
      some { address := rootAddress H, owner := makeOwnerAddress H (rootAddress H) (H c), contents := "",
             viewers := v, editors := e, tracking := tr } := by
  simp [provision]

/-- The store invariant is preserved by every message … -/
theorem C10_step_preserves_storeInv (s s' : State) (op : Op) (hinv : StoreInv s)
    (hstep : step H s op = some s') : StoreInv s' := by
  intro k e hke
  by_cases hk : k ∈ touched H op
  · -- a key the message wrote: the handler built it from the entry's own fields
    unfold step at hstep
    split at hstep
    case isFalse => simp at hstep
    cases op with
    | postFile c acc hp hc ct v ed vr er tr =>
      simp only [handle, postFile, bind, Option.bind_eq_some_iff, req_eq_some] at hstep
      obtain ⟨parent, hp', ok, hok, _, hok2, hs⟩ := hstep
      simp only [Option.some.injEq] at hs; subst hs
      simp only [touched, List.mem_singleton] at hk; subst hk
      simp only [AMap.get_set_self, Option.some.injEq] at hke; subst hke; rfl
    | deleteFile c hp acc =>
      simp only [handle, deleteFile, bind, Option.bind_eq_some_iff, req_eq_some] at hstep
      obtain ⟨f, hf, _, ho, hs⟩ := hstep
      simp only [Option.some.injEq] at hs; subst hs
      simp only [touched, List.mem_singleton] at hk; subst hk
      simp at hke
    | changeOwner c a fo no =>
      simp only [handle, changeOwner, bind, Option.bind_eq_some_iff, req_eq_some] at hstep
      obtain ⟨f, hf, _, ho, _, hnew, hs⟩ := hstep
      simp only [Option.some.injEq] at hs; subst hs
      have hfk := hinv _ _ hf
      simp only [Prod.mk.injEq] at hfk
      simp only at hke
      rw [AMap.get_erase] at hke
      split at hke
      · simp at hke
      · rw [AMap.get_set] at hke
        split at hke
        · rename_i hk2
          simp only [Option.some.injEq] at hke; subst hke
          rw [← hk2]
        · exact hinv _ _ hke
    | addViewers c a fo ids keys =>
      simp only [handle, addViewers, bind, Option.bind_eq_some_iff, req_eq_some] at hstep
      obtain ⟨f, hf, _, ho, m, hm, _, _, m', hm', hs⟩ := hstep
      simp only [Option.some.injEq] at hs; subst hs
      simp only at hke
      rw [AMap.get_set] at hke
      split at hke
      · rename_i hk2; simp only [Option.some.injEq] at hke; subst hke; exact hk2.symm
      · exact hinv _ _ hke
    | removeViewers c a fo ids =>
      simp only [handle, removeViewers, bind, Option.bind_eq_some_iff, req_eq_some] at hstep
      obtain ⟨f, hf, _, ho, m, hm, hs⟩ := hstep
      simp only [Option.some.injEq] at hs; subst hs
      simp only at hke
      rw [AMap.get_set] at hke
      split at hke
      · rename_i hk2; simp only [Option.some.injEq] at hke; subst hke; exact hk2.symm
      · exact hinv _ _ hke
    | resetViewers c a fo =>
      simp only [handle, resetViewers, bind, Option.bind_eq_some_iff, req_eq_some] at hstep
      obtain ⟨f, hf, _, ho, m, hm, hs⟩ := hstep
      simp only [Option.some.injEq] at hs; subst hs
      simp only at hke
      rw [AMap.get_set] at hke
      split at hke
      · rename_i hk2; simp only [Option.some.injEq] at hke; subst hke; exact hk2.symm
      · exact hinv _ _ hke
    | addEditors c a fo ids keys =>
      simp only [handle, addEditors, bind, Option.bind_eq_some_iff, req_eq_some] at hstep
      obtain ⟨f, hf, _, ho, m, hm, _, _, m', hm', hs⟩ := hstep
      simp only [Option.some.injEq] at hs; subst hs
      simp only at hke
      rw [AMap.get_set] at hke
      split at hke
      · rename_i hk2; simp only [Option.some.injEq] at hke; subst hke; exact hk2.symm
      · exact hinv _ _ hke
    | removeEditors c a fo ids =>
      simp only [handle, removeEditors, bind, Option.bind_eq_some_iff, req_eq_some] at hstep
      obtain ⟨f, hf, _, ho, m, hm, hs⟩ := hstep
      simp only [Option.some.injEq] at hs; subst hs
      simp only at hke
      rw [AMap.get_set] at hke
      split at hke
      · rename_i hk2; simp only [Option.some.injEq] at hke; subst hke; exact hk2.symm
      · exact hinv _ _ hke
    | resetEditors c a fo =>
      simp only [handle, resetEditors, bind, Option.bind_eq_some_iff, req_eq_some] at hstep
      obtain ⟨f, hf, _, ho, m, hm, hs⟩ := hstep
      simp only [Option.some.injEq] at hs; subst hs
      simp only at hke
      rw [AMap.get_set] at hke
      split at hke
      · rename_i hk2; simp only [Option.some.injEq] at hke; subst hke; exact hk2.symm
      · exact hinv _ _ hke
    | provision c v ed vr er tr =>
      simp only [handle, Option.some.injEq] at hstep; subst hstep
      simp only [touched, List.mem_singleton] at hk; subst hk
      simp only [provision, AMap.get_set_self, Option.some.injEq] at hke; subst hke; rfl
    | postKey c k' => simp [touched] at hk
  · rw [C10_touches_only_named_entry H s s' op hinv hstep k hk] at hke
    exact hinv _ _ hke

/-- … hence along every history from the empty tree. -/
def run (s : State) : List Op → State
  | [] => s
  | op :: rest => run (stepT H s op) rest

theorem C10_storeInv_along_histories (ops : List Op) : ∀ s, StoreInv s → StoreInv (run H s ops) := by
  induction ops with
  | nil => intro s h; exact h
  | cons op rest ih =>
    intro s h
    simp only [run]
    apply ih
    unfold stepT
    cases hs : step H s op with
    | none => simpa using h
    | some s' => simpa using C10_step_preserves_storeInv H s s' op h hs

theorem C10_storeInv_empty : StoreInv { files := [], pubkeys := [] } := by
  intro k e h; simp at h


/-! ### The raw store key `address ‖ "/" ‖ owner ‖ "/"` cannot be aliased by crafted strings -/

def filesKey (a o : List Char) : List Char := a ++ '/' :: (o ++ ['/'])

theorem prefix_unique : ∀ (a a' r r' : List Char), '/' ∉ a → '/' ∉ a' →
    a ++ '/' :: r = a' ++ '/' :: r' → a = a' ∧ r = r'
  | [], [], r, r', _, _, h => by simpa using h
  | [], c :: cs, r, r', _, h2, h => by
    simp at h; exact absurd h.1 (fun e => h2 (by rw [← e]; simp))
  | c :: cs, [], r, r', h1, _, h => by
    simp at h; exact absurd h.1 (fun e => h1 (by rw [e]; simp))
  | c :: cs, c' :: cs', r, r', h1, h2, h => by
    simp only [List.cons_append, List.cons.injEq] at h
    have := prefix_unique cs cs' r r' (fun e => h1 (by simp [e])) (fun e => h2 (by simp [e])) h.2
    exact ⟨by rw [h.1, this.1], this.2⟩

/-- **Key injectivity.** If the stored components are '/'-free (they are 64-character hex strings),
a lookup key built from *arbitrary* strings equals a stored key only when both components are
equal: crafted separators cannot make one entry answer for another. -/
theorem C10_filesKey_injective (a o a' o' : List Char) (ha' : '/' ∉ a') (ho' : '/' ∉ o')
    (h : filesKey a o = filesKey a' o') : a = a' ∧ o = o' := by
  have hc := congrArg (List.count '/') h
  simp only [filesKey, List.count_append, List.count_cons, List.count_nil] at hc
  have z1 : List.count '/' a' = 0 := List.count_eq_zero.mpr ha'
  have z2 : List.count '/' o' = 0 := List.count_eq_zero.mpr ho'
  simp only [z1, z2, beq_self_eq_true, if_true] at hc
  have ha : '/' ∉ a := List.count_eq_zero.mp (by omega)
  have ho : '/' ∉ o := List.count_eq_zero.mp (by omega)
  have h1 := prefix_unique a a' _ _ ha ha' h
  have h2 := prefix_unique o o' [] [] ho ho' h1.2
  exact ⟨h1.1, h2.1⟩

/-- non-vacuity: with a toy hash, a root is provisioned, its owner posts a child, a stranger cannot -/
def toyH (s : String) : String := "#" ++ s
def rootState : State := provision toyH { files := [], pubkeys := [] } "alice"
  (.map []) (.map [(makeEditorAddress toyH "t1" "alice", "k")]) "t1"
example : (step toyH rootState (.postFile "alice" (toyH "alice") (rootAddress toyH) "c" "x" (.map []) (.map []) "{}" "{}" "t2")).isSome = true := by decide
example : step toyH rootState (.postFile "mallory" (toyH "alice") (rootAddress toyH) "c" "x" (.map []) (.map []) "{}" "{}" "t2") = none := by decide
example : step toyH rootState (.deleteFile "mallory" (rootAddress toyH) (toyH "alice")) = none := by decide
example : (step toyH rootState (.deleteFile "alice" (rootAddress toyH) (toyH "alice"))).isSome = true := by decide

/-! ## The store keys as they stand in the source (regenerated fact) -/

/-- `C10_filesKey_injective` is about this key format: an entry is identified by (address, owner).  Fingerprints of the key constructors of x/filetree/types/key*.go as the
model was written against them; `Generated.keyFns_filetree` is recomputed from the source on every
run (the declarations are listed in Generated/KeyFacts.lean). -/
def C10_expectedKeys : List (String × String) := [
  ("x/filetree/types/key_files.go:var _…", "9f4fce2c5ae85adc"),
  ("x/filetree/types/key_files.go:const FilesKeyPrefix…", "0f4f242d7ed948a5"),
  ("x/filetree/types/key_files.go:FilesKey", "6dd50d273d2b852e"),
  ("x/filetree/types/key_pubkey.go:var _…", "9f4fce2c5ae85adc"),
  ("x/filetree/types/key_pubkey.go:const PubkeyKeyPrefix…", "119e2d46099f5836"),
  ("x/filetree/types/key_pubkey.go:PubkeyKey", "f20db6b451653040"),
  ("x/filetree/types/keys.go:const ModuleName…", "f39a1b37036ddc2e"),
  ("x/filetree/types/keys.go:KeyPrefix", "caccc65e7667915d"),
  ("x/filetree/types/keys.go:const TrackerKey…", "f4db5adcceb09e9b")]

theorem C10_store_keys_as_modelled : Generated.keyFns_filetree = C10_expectedKeys := by decide

end Canine.Filetree
