/-
C16 — Registering a name charges the listed price and yields a live name for the term.
-/
import Canine.Proofs.Rns
import Canine.Query.Rns
import Canine.Generated.PureFns
namespace Canine.Rns
open Bank

/-- The yearly price table: TLD base cost (ibc 50 000 000, jkl 10 000 000 ujkl) times the length
tier 24 / 12 / 6 / 3 / 1 for 1 / 2 / 3 / 4 / ≥5 characters; empty names have no price. -/
theorem C16_price_table (name tld : String) :
    costOfName name tld =
      if name.length = 0 then none
      else some (tldCost tld *
        (if name.length = 1 then 24 else if name.length = 2 then 12 else if name.length = 3 then 6
         else if name.length = 4 then 3 else 1)) := by
  unfold costOfName
  rcases hl : name.length with _ | _ | _ | _ | _ | k <;> simp

theorem C16_tld_costs : tldCost "ibc" = 50000000 ∧ tldCost "jkl" = 10000000 := by decide

/-- A successful registration for `y` years debits the registrant's account `cc` (the account the
signer string `c` denotes, however it is spelled) exactly `y` times the yearly price, all of it
reaches the protocol-liquidity account, nothing stays in the module account and no other
denomination moves. -/
theorem C16_register_charges_exactly (s s' : State) (h : Int) (c raw n dta : String) (y : Int)
    (p : Bool) (hpm : s.polAcc ≠ s.moduleAcc)
    (hstep : step s h (.register c raw n dta y p) = some s') :
    ∃ cc nm tld cost, acct s c = some cc ∧ nameAndTLD n = some (nm, tld) ∧ costOfName nm tld = some cost ∧
      1 ≤ y ∧ y ≤ maxYears ∧
      (cc ≠ s.moduleAcc → cc ≠ s.polAcc →
        bal s'.bank cc "ujkl" = bal s.bank cc "ujkl" - cost * y ∧
        bal s'.bank s.polAcc "ujkl" = bal s.bank s.polAcc "ujkl" + cost * y ∧
        bal s'.bank s.moduleAcc "ujkl" = bal s.bank s.moduleAcc "ujkl") ∧
      (∀ a d, d ≠ "ujkl" → bal s'.bank a d = bal s.bank a d) ∧
      (∀ a, a ≠ cc → a ≠ s.polAcc → a ≠ s.moduleAcc → ∀ d, bal s'.bank a d = bal s.bank a d) := by
  obtain ⟨cc, -, hcc, hstep⟩ := step_some hstep
  simp only [Op.creator] at hcc
  simp only [handle, register, bind, Option.bind_eq_some_iff, req_eq_some] at hstep
  obtain ⟨⟨nm, tld⟩, hnt, cost, hcost, _, hy, ex, hex, b1, hb1, b2, hb2, hs⟩ := hstep
  simp only [Option.some.injEq] at hs
  have hbank : s'.bank = b2 := by subst hs; unfold setPrimaryIf; split <;> rfl
  have key : ∀ a d, bal s'.bank a d = bal s.bank a d
      + (if s.polAcc = a then amt d [("ujkl", cost * y)] else 0)
      - (if cc = a then amt d [("ujkl", cost * y)] else 0) := by
    intro a d
    rw [hbank, sendFromModule_bal hb2 a d, bal_send hb1 a d]
    by_cases e : s.moduleAcc = a <;> simp [e] <;> omega
  refine ⟨cc, nm, tld, cost, hcc, hnt, hcost, hy.1, hy.2, ?_, ?_, ?_⟩
  · intro hcm hcp
    refine ⟨?_, ?_, ?_⟩
    · rw [key]; simp [amt, Ne.symm hcp]
    · rw [key]; simp [amt, hcp]
    · rw [key]; simp [hpm, hcm]
  · intro a d hd; rw [key]; simp [amt, Ne.symm hd]
  · intro a ha hp hm d; rw [key]; simp [Ne.symm ha, Ne.symm hp]

/-- After a successful registration the name record belongs to the registrant's account, under
its canonical address (so that every later owner check recognises the registrant); a fresh or
expired name expires exactly `y` years after the current height, a live name renewed by its owner
exactly `y` years after its previous expiry. -/
theorem C16_register_result (s s' : State) (h : Int) (c raw n dta : String) (y : Int) (p : Bool)
    (hstep : step s h (.register c raw n dta y p) = some s') :
    ∃ cc nm tld w', acct s c = some cc ∧ nameAndTLD n = some (nm, tld) ∧
      AMap.get s'.names (nameKey nm tld) = some w' ∧
      w'.value = cc ∧ w'.data = dta ∧
      (match AMap.get s.names (nameKey nm tld) with
       | some w => if h ≤ w.expires then w.value = cc ∧ w'.expires = w.expires + y * yearBlocks
                   else w'.expires = h + y * yearBlocks
       | none => w'.expires = h + y * yearBlocks) := by
  obtain ⟨cc, -, hcc, hstep⟩ := step_some hstep
  simp only [Op.creator] at hcc
  simp only [handle, register, bind, Option.bind_eq_some_iff, req_eq_some] at hstep
  obtain ⟨⟨nm, tld⟩, hnt, cost, hcost, _, hy, ex, hex, b1, hb1, b2, hb2, hs⟩ := hstep
  simp only [Option.some.injEq] at hs
  have hn : s'.names = AMap.set s.names (nameKey nm tld)
      { name := nm, tld := tld, expires := ex, value := cc, data := dta, locked := 0, subs := [] } := by
    subst hs; unfold setPrimaryIf; split <;> rfl
  refine ⟨cc, nm, tld, _, hcc, hnt, by rw [hn]; exact AMap.get_set_self _ _ _, rfl, rfl, ?_⟩
  simp only [regExpiry] at hex
  cases hg : AMap.get s.names (nameKey nm tld) with
  | none => simp only [hg] at hex ⊢; simp at hex; omega
  | some w =>
    simp only [hg] at hex ⊢
    by_cases hl : h ≤ w.expires
    · simp only [hl, if_true] at hex ⊢
      by_cases ho : w.value = cc
      · simp [ho] at hex; exact ⟨ho, by omega⟩
      · simp [ho] at hex
    · simp only [hl, if_false] at hex ⊢; simp at hex; omega

/-- Consequently the name is unexpired for at least `y` years from the current height. -/
theorem C16_live_for_the_term (s s' : State) (h : Int) (c raw n dta : String) (y : Int) (p : Bool)
    (hstep : step s h (.register c raw n dta y p) = some s') :
    ∃ cc nm tld w', acct s c = some cc ∧ nameAndTLD n = some (nm, tld) ∧
      AMap.get s'.names (nameKey nm tld) = some w' ∧
      w'.value = cc ∧ h + y * yearBlocks ≤ w'.expires := by
  obtain ⟨cc, nm, tld, w', hcc, hnt, hw', hv, -, hex⟩ := C16_register_result s s' h c raw n dta y p hstep
  refine ⟨cc, nm, tld, w', hcc, hnt, hw', hv, ?_⟩
  cases hg : AMap.get s.names (nameKey nm tld) with
  | none => simp only [hg] at hex; omega
  | some w =>
    simp only [hg] at hex
    by_cases hl : h ≤ w.expires
    · simp only [hl, if_true] at hex; omega
    · simp only [hl, if_false] at hex; omega

/-- The owner of a live name, whatever spelling of their address they sign with, can renew it: the
ownership test of a renewal compares the record with the signer's canonical address. -/
theorem C16_owner_renewal_passes_owner_test (s : State) (h : Int) (c : String) (term : Int)
    (key : String) (w : NameRec) (hw : AMap.get s.names key = some w) (hlive : h ≤ w.expires)
    (hown : acct s c = some w.value) :
    ∃ cc, acct s c = some cc ∧ regExpiry s key cc h term = some (term + w.expires) := by
  refine ⟨w.value, hown, ?_⟩
  simp [regExpiry, hw, hlive]

/-- A live name can never be registered by another account than its owner's. -/
theorem C16_live_name_not_registrable_by_others (s : State) (h : Int) (c raw n dta : String)
    (y : Int) (p : Bool) (nm tld : String) (w : NameRec) (hnt : nameAndTLD n = some (nm, tld))
    (hw : AMap.get s.names (nameKey nm tld) = some w) (hlive : h ≤ w.expires)
    (hne : acct s c ≠ some w.value) :
    step s h (.register c raw n dta y p) = none := by
  cases hs : step s h (.register c raw n dta y p) with
  | none => rfl
  | some s' =>
    exfalso
    obtain ⟨cc, -, hcc, hs⟩ := step_some hs
    simp only [Op.creator] at hcc
    simp only [handle, register, bind, Option.bind_eq_some_iff, req_eq_some] at hs
    obtain ⟨⟨nm2, tld2⟩, hnt2, cost, hcost, _, hy, ex, hex, -⟩ := hs
    rw [hnt] at hnt2; cases hnt2
    have : w.value ≠ cc := fun e => hne (by rw [hcc, e])
    simp [regExpiry, hw, hlive, this] at hex

/-- The free name handed out by `Init` is a registration as well: it only ever lands on a name that
is not live (never registered, or expired), so a paid, unexpired name cannot be taken that way, and
every other name record is left as it was. -/
theorem C16_init_never_takes_a_live_name (s s' : State) (h : Int) (c g : String)
    (hstep : step s h (.init c g) = some s') :
    isLive s (nameKey g "jkl") h = false ∧
    ∀ key, key ≠ nameKey g "jkl" → AMap.get s'.names key = AMap.get s.names key := by
  obtain ⟨cc, -, hcc, hstep⟩ := step_some hstep
  simp only [handle, init, bind, Option.bind_eq_some_iff, req_eq_some] at hstep
  obtain ⟨_, -, _, -, _, -, _, hnl, hs⟩ := hstep
  simp only [Option.some.injEq] at hs; subst hs
  refine ⟨by simpa using hnl, fun key hk => ?_⟩
  exact AMap.get_set_other _ _ _ _ (Ne.symm hk)

/-- A failed registration (like every failed message) costs nothing: the state is unchanged. -/
theorem C16_failed_register_costs_nothing (s : State) (h : Int) (op : Op)
    (hfail : step s h op = none) : stepT s h op = s := by
  simp [stepT, hfail]

/-- The pre-fix expiry computation, kept as regression witnesses. -/
def regExpiryUnfixed (s : State) (key creator : String) (h term : Int) : Option Int :=
  match AMap.get s.names key with
  | some w =>
    if w.value = creator then some (w.expires + term)
    else if h < w.expires then none else some term
  | none => some (term + h)

def expiredState : State :=
  { names := [("foo.jkl", { name := "foo", tld := "jkl", expires := 100, value := "bob", data := "{}", locked := 0, subs := [] })],
    forsale := [], bids := [], inits := [], primary := [],
    bank := [(("carol", "ujkl"), 100000000)], blocked := ["rnsmod"], moduleAcc := "rnsmod", polAcc := "pol",
    canon := [("carol", "carol"), ("CAROL", "carol"), ("bob", "bob")] }

/-- unfixed: carol re-registers the expired name at height 5 000 000 for 2 years and it is born expired -/
example : regExpiryUnfixed expiredState "foo.jkl" "carol" 5000000 (2 * yearBlocks) = some 10969060 := by decide
/-- unfixed: at height = Expires a stranger is let through -/
example : (regExpiryUnfixed expiredState "foo.jkl" "carol" 100 yearBlocks).isSome = true := by decide
/-- fixed: the same two situations -/
example : regExpiry expiredState "foo.jkl" "carol" 5000000 (2 * yearBlocks) = some (5000000 + 2 * yearBlocks) := by decide
example : regExpiry expiredState "foo.jkl" "carol" 100 yearBlocks = none := by decide
/-- non-vacuity: a successful registration in a concrete state (handler level; `ValidateBasic`
of this message is `true` by evaluation, see the `#guard` below) -/
example : ((handle expiredState 200 "carol" (.register "CAROL" "foo.jkl" "foo.jkl" "{}" 1 false)).map
    (fun s => (bal s.bank "carol" "ujkl", bal s.bank "pol" "ujkl", (AMap.get s.names "foo.jkl").map (·.expires))))
    = some (40000000, 60000000, some (200 + yearBlocks)) := by decide
#guard validateBasic (.register "carol" "foo.jkl" "foo.jkl" "{}" 1 false)

/-! ## The price table as it stands in the source (regenerated tie) -/

/-- `GetCostOfName`, translated from x/rns/keeper/utils.go on every run, is the model's
`costOfName` for names whose byte length is their character count (names are ASCII: `ValidateBasic`
admits no other), its only outside input being the TLD's base cost. -/
theorem C16_generated_price_table_is_the_model (name tld : String)
    (hascii : name.utf8ByteSize = name.length) :
    Generated.Pure.GetCostOfName (tldCost tld) name tld = costOfName name tld ∧
    Generated.Pure.GetCostOfName_inputs = ["GetCost(tld)"] := by
  refine ⟨?_, rfl⟩
  unfold Generated.Pure.GetCostOfName costOfName
  rw [hascii]
  rcases hl : name.length with _ | _ | _ | _ | _ | k
  · simp
  · simp
  · simp
  · simp
  · simp
  · have a : ¬ ((k:Int) + 1 + 1 + 1 + 1 + 1 = 0) := by omega
    have b : ¬ ((k:Int) + 1 + 1 + 1 + 1 + 1 = 1) := by omega
    have c : ¬ ((k:Int) + 1 + 1 + 1 + 1 + 1 = 2) := by omega
    have d : ¬ ((k:Int) + 1 + 1 + 1 + 1 + 1 = 3) := by omega
    have e : ¬ ((k:Int) + 1 + 1 + 1 + 1 + 1 = 4) := by omega
    simp [a, b, c, d, e]

/-- **Afterwards the name resolves to the registrant — through the query server.**  After a
successful registration of a plain name (`label.tld`, the label without a record part), the `Name`
query for that name returns the record just written: owned by the registrant's canonical address,
with the data given.  (`hplain`: `GetSubdomain` finds no record part in the label.) -/
theorem C16_name_query_resolves_to_registrant (s s' : State) (h : Int) (c raw n dta : String) (y : Int) (p : Bool)
    (hstep : step s h (.register c raw n dta y p) = some s')
    (hplain : ∀ nm tld, nameAndTLD n = some (nm, tld) → Query.getSubdomain nm = ("", nm, false)) :
    ∃ cc w', acct s c = some cc ∧ Query.run s' (.name n n) = .name w' ∧ w'.value = cc ∧ w'.data = dta := by
  obtain ⟨cc, nm, tld, w', hcc, hnt, hget, hv, hd, _⟩ := C16_register_result s s' h c raw n dta y p hstep
  refine ⟨cc, w', hcc, ?_, hv, hd⟩
  have hp := hplain nm tld hnt
  simp only [Query.run, Query.nameQuery, hnt, hp]
  simp only [Bool.false_eq_true, if_false, hget]

end Canine.Rns
