/-
C16 — Registering a name charges the listed price and yields a live name for the term.
-/
import Canine.Proofs.Rns
import Canine.Proofs.RnsRuns
import Canine.Query.Rns
import Canine.Generated.PureFns
namespace Canine.Rns
open Bank

/-- The yearly price table: TLD base cost (ibc 50 000 000, jkl 10 000 000 ujkl) times the length
tier 24 / 12 / 6 / 3 / 1 for 1 / 2 / 3 / 4 / ≥5 characters; empty names have no price. -/
theorem C16_price_table (name tld : String) :
    costOfName name tld =
      if name.length = 0 then none
      else some (tldCost tld *
        (if name.length = 1 then 24 else if name.length = 2 then 12 else if name.length = 3 then 6
         else if name.length = 4 then 3 else 1)) := by
  unfold costOfName
  rcases hl : name.length with _ | _ | _ | _ | _ | k <;> simp

theorem C16_tld_costs : tldCost "ibc" = 50000000 ∧ tldCost "jkl" = 10000000 := by decide

/-- A successful registration for `y` years debits the registrant's account `cc` (the account the
signer string `c` denotes, however it is spelled) exactly `y` times the yearly price, all of it
reaches the protocol-liquidity account, nothing stays in the module account and no other
denomination moves. -/
theorem C16_register_charges_exactly (s s' : State) (h : Int) (c raw n dta : String) (y : Int)
    (p : Bool) (hpm : s.polAcc ≠ s.moduleAcc)
    (hstep : step s h (.register c raw n dta y p) = some s') :
    ∃ cc nm tld cost, acct s c = some cc ∧ nameAndTLD n = some (nm, tld) ∧ costOfName nm tld = some cost ∧
      1 ≤ y ∧ y ≤ maxYears ∧
      (cc ≠ s.moduleAcc → cc ≠ s.polAcc →
        bal s'.bank cc "ujkl" = bal s.bank cc "ujkl" - cost * y ∧
        bal s'.bank s.polAcc "ujkl" = bal s.bank s.polAcc "ujkl" + cost * y ∧
        bal s'.bank s.moduleAcc "ujkl" = bal s.bank s.moduleAcc "ujkl") ∧
      (∀ a d, d ≠ "ujkl" → bal s'.bank a d = bal s.bank a d) ∧
      (∀ a, a ≠ cc → a ≠ s.polAcc → a ≠ s.moduleAcc → ∀ d, bal s'.bank a d = bal s.bank a d) := by
  obtain ⟨cc, -, hcc, hstep⟩ := step_some hstep
  simp only [Op.creator] at hcc
  simp only [handle, register, bind, Option.bind_eq_some_iff, req_eq_some] at hstep
  obtain ⟨⟨nm, tld⟩, hnt, cost, hcost, _, hy, ex, hex, b1, hb1, b2, hb2, hs⟩ := hstep
  simp only [Option.some.injEq] at hs
  have hbank : s'.bank = b2 := by subst hs; unfold setPrimaryIf; split <;> rfl
  have key : ∀ a d, bal s'.bank a d = bal s.bank a d
      + (if s.polAcc = a then amt d [("ujkl", cost * y)] else 0)
      - (if cc = a then amt d [("ujkl", cost * y)] else 0) := by
    intro a d
    rw [hbank, sendFromModule_bal hb2 a d, bal_send hb1 a d]
    by_cases e : s.moduleAcc = a <;> simp [e] <;> omega
  refine ⟨cc, nm, tld, cost, hcc, hnt, hcost, hy.1, hy.2, ?_, ?_, ?_⟩
  · intro hcm hcp
    refine ⟨?_, ?_, ?_⟩
    · rw [key]; simp [amt, Ne.symm hcp]
    · rw [key]; simp [amt, hcp]
    · rw [key]; simp [hpm, hcm]
  · intro a d hd; rw [key]; simp [amt, Ne.symm hd]
  · intro a ha hp hm d; rw [key]; simp [Ne.symm ha, Ne.symm hp]

/-- After a successful registration the name record belongs to the registrant's account, under
its canonical address (so that every later owner check recognises the registrant); a fresh or
expired name expires exactly `y` years after the current height, a live name renewed by its owner
exactly `y` years after its previous expiry. -/
theorem C16_register_result (s s' : State) (h : Int) (c raw n dta : String) (y : Int) (p : Bool)
    (hstep : step s h (.register c raw n dta y p) = some s') :
    ∃ cc nm tld w', acct s c = some cc ∧ nameAndTLD n = some (nm, tld) ∧
      AMap.get s'.names (nameKey nm tld) = some w' ∧
      w'.value = cc ∧ w'.data = dta ∧
      (match AMap.get s.names (nameKey nm tld) with
       | some w => if h ≤ w.expires then w.value = cc ∧ w'.expires = w.expires + y * yearBlocks
                   else w'.expires = h + y * yearBlocks
       | none => w'.expires = h + y * yearBlocks) := by
  obtain ⟨cc, -, hcc, hstep⟩ := step_some hstep
  simp only [Op.creator] at hcc
  simp only [handle, register, bind, Option.bind_eq_some_iff, req_eq_some] at hstep
  obtain ⟨⟨nm, tld⟩, hnt, cost, hcost, _, hy, ex, hex, b1, hb1, b2, hb2, hs⟩ := hstep
  simp only [Option.some.injEq] at hs
  have hn : s'.names = AMap.set s.names (nameKey nm tld)
      { name := nm, tld := tld, expires := ex, value := cc, data := dta, locked := 0, subs := [] } := by
    subst hs; unfold setPrimaryIf; split <;> rfl
  refine ⟨cc, nm, tld, _, hcc, hnt, by rw [hn]; exact AMap.get_set_self _ _ _, rfl, rfl, ?_⟩
  simp only [regExpiry] at hex
  cases hg : AMap.get s.names (nameKey nm tld) with
  | none => simp only [hg] at hex ⊢; simp at hex; omega
  | some w =>
    simp only [hg] at hex ⊢
    by_cases hl : h ≤ w.expires
    · simp only [hl, if_true] at hex ⊢
      by_cases ho : w.value = cc
      · simp [ho] at hex; exact ⟨ho, by omega⟩
      · simp [ho] at hex
    · simp only [hl, if_false] at hex ⊢; simp at hex; omega

/-- Consequently the name is unexpired for at least `y` years from the current height. -/
theorem C16_live_for_the_term (s s' : State) (h : Int) (c raw n dta : String) (y : Int) (p : Bool)
    (hstep : step s h (.register c raw n dta y p) = some s') :
    ∃ cc nm tld w', acct s c = some cc ∧ nameAndTLD n = some (nm, tld) ∧
      AMap.get s'.names (nameKey nm tld) = some w' ∧
      w'.value = cc ∧ h + y * yearBlocks ≤ w'.expires := by
  obtain ⟨cc, nm, tld, w', hcc, hnt, hw', hv, -, hex⟩ := C16_register_result s s' h c raw n dta y p hstep
  refine ⟨cc, nm, tld, w', hcc, hnt, hw', hv, ?_⟩
  cases hg : AMap.get s.names (nameKey nm tld) with
  | none => simp only [hg] at hex; omega
  | some w =>
    simp only [hg] at hex
    by_cases hl : h ≤ w.expires
    · simp only [hl, if_true] at hex; omega
    · simp only [hl, if_false] at hex; omega

/-- The owner of a live name, whatever spelling of their address they sign with, can renew it: the
ownership test of a renewal compares the record with the signer's canonical address. -/
theorem C16_owner_renewal_passes_owner_test (s : State) (h : Int) (c : String) (term : Int)
    (key : String) (w : NameRec) (hw : AMap.get s.names key = some w) (hlive : h ≤ w.expires)
    (hown : acct s c = some w.value) :
    ∃ cc, acct s c = some cc ∧ regExpiry s key cc h term = some (term + w.expires) := by
  refine ⟨w.value, hown, ?_⟩
  simp [regExpiry, hw, hlive]

/-- A live name can never be registered by another account than its owner's. -/
theorem C16_live_name_not_registrable_by_others (s : State) (h : Int) (c raw n dta : String)
    (y : Int) (p : Bool) (nm tld : String) (w : NameRec) (hnt : nameAndTLD n = some (nm, tld))
    (hw : AMap.get s.names (nameKey nm tld) = some w) (hlive : h ≤ w.expires)
    (hne : acct s c ≠ some w.value) :
    step s h (.register c raw n dta y p) = none := by
  cases hs : step s h (.register c raw n dta y p) with
  | none => rfl
  | some s' =>
    exfalso
    obtain ⟨cc, -, hcc, hs⟩ := step_some hs
    simp only [Op.creator] at hcc
    simp only [handle, register, bind, Option.bind_eq_some_iff, req_eq_some] at hs
    obtain ⟨⟨nm2, tld2⟩, hnt2, cost, hcost, _, hy, ex, hex, -⟩ := hs
    rw [hnt] at hnt2; cases hnt2
    have : w.value ≠ cc := fun e => hne (by rw [hcc, e])
    simp [regExpiry, hw, hlive, this] at hex

/-- The free name handed out by `Init` is a registration as well: it only ever lands on a name that
is not live (never registered, or expired), so a paid, unexpired name cannot be taken that way, and
every other name record is left as it was. -/
theorem C16_init_never_takes_a_live_name (s s' : State) (h : Int) (c g : String)
    (hstep : step s h (.init c g) = some s') :
    isLive s (nameKey g "jkl") h = false ∧
    ∀ key, key ≠ nameKey g "jkl" → AMap.get s'.names key = AMap.get s.names key := by
  obtain ⟨cc, -, hcc, hstep⟩ := step_some hstep
  simp only [handle, init, bind, Option.bind_eq_some_iff, req_eq_some] at hstep
  obtain ⟨_, -, _, -, _, -, _, hnl, hs⟩ := hstep
  simp only [Option.some.injEq] at hs; subst hs
  refine ⟨by simpa using hnl, fun key hk => ?_⟩
  exact AMap.get_set_other _ _ _ _ (Ne.symm hk)

/-- A failed registration (like every failed message) costs nothing: the state is unchanged. -/
theorem C16_failed_register_costs_nothing (s : State) (h : Int) (op : Op)
    (hfail : step s h op = none) : stepT s h op = s := by
  simp [stepT, hfail]

/-- The pre-fix expiry computation, kept as regression witnesses. -/
def regExpiryUnfixed (s : State) (key creator : String) (h term : Int) : Option Int :=
  match AMap.get s.names key with
  | some w =>
    if w.value = creator then some (w.expires + term)
    else if h < w.expires then none else some term
  | none => some (term + h)

def expiredState : State :=
  { names := [("foo.jkl", { name := "foo", tld := "jkl", expires := 100, value := "bob", data := "{}", locked := 0, subs := [] })],
    forsale := [], bids := [], inits := [], primary := [],
    bank := [(("carol", "ujkl"), 100000000)], blocked := ["rnsmod"], moduleAcc := "rnsmod", polAcc := "pol",
    canon := [("carol", "carol"), ("CAROL", "carol"), ("bob", "bob")] }

/-- unfixed: carol re-registers the expired name at height 5 000 000 for 2 years and it is born expired -/
example : regExpiryUnfixed expiredState "foo.jkl" "carol" 5000000 (2 * yearBlocks) = some 10969060 := by decide
/-- unfixed: at height = Expires a stranger is let through -/
example : (regExpiryUnfixed expiredState "foo.jkl" "carol" 100 yearBlocks).isSome = true := by decide
/-- fixed: the same two situations -/
example : regExpiry expiredState "foo.jkl" "carol" 5000000 (2 * yearBlocks) = some (5000000 + 2 * yearBlocks) := by decide
example : regExpiry expiredState "foo.jkl" "carol" 100 yearBlocks = none := by decide
/-- non-vacuity: a successful registration in a concrete state (handler level; `ValidateBasic`
of this message is `true` by evaluation, see the `#guard` below) -/
example : ((handle expiredState 200 "carol" (.register "CAROL" "foo.jkl" "foo.jkl" "{}" 1 false)).map
    (fun s => (bal s.bank "carol" "ujkl", bal s.bank "pol" "ujkl", (AMap.get s.names "foo.jkl").map (·.expires))))
    = some (40000000, 60000000, some (200 + yearBlocks)) := by decide
#guard validateBasic (.register "carol" "foo.jkl" "foo.jkl" "{}" 1 false)

/-! ## The price table as it stands in the source (regenerated tie) -/

/-- `GetCostOfName`, translated from x/rns/keeper/utils.go on every run, is the model's
`costOfName` for names whose byte length is their character count (names are ASCII: `ValidateBasic`
admits no other), its only outside input being the TLD's base cost. -/
theorem C16_generated_price_table_is_the_model (name tld : String)
    (hascii : name.utf8ByteSize = name.length) :
    Generated.Pure.GetCostOfName (tldCost tld) name tld = costOfName name tld ∧
    Generated.Pure.GetCostOfName_inputs = ["GetCost(tld)"] := by
  refine ⟨?_, rfl⟩
  unfold Generated.Pure.GetCostOfName costOfName
  rw [hascii]
  rcases hl : name.length with _ | _ | _ | _ | _ | k
  · simp
  · simp
  · simp
  · simp
  · simp
  · have a : ¬ ((k:Int) + 1 + 1 + 1 + 1 + 1 = 0) := by omega
    have b : ¬ ((k:Int) + 1 + 1 + 1 + 1 + 1 = 1) := by omega
    have c : ¬ ((k:Int) + 1 + 1 + 1 + 1 + 1 = 2) := by omega
    have d : ¬ ((k:Int) + 1 + 1 + 1 + 1 + 1 = 3) := by omega
    have e : ¬ ((k:Int) + 1 + 1 + 1 + 1 + 1 = 4) := by omega
    simp [a, b, c, d, e]

/-- **Afterwards the name resolves to the registrant — through the query server.**  After a
successful registration of a plain name (`label.tld`, the label without a record part), the `Name`
query for that name returns the record just written: owned by the registrant's canonical address,
with the data given.  (`hplain`: `GetSubdomain` finds no record part in the label.) -/
theorem C16_name_query_resolves_to_registrant (s s' : State) (h : Int) (c raw n dta : String) (y : Int) (p : Bool)
    (hstep : step s h (.register c raw n dta y p) = some s')
    (hplain : ∀ nm tld, nameAndTLD n = some (nm, tld) → Query.getSubdomain nm = ("", nm, false)) :
    ∃ cc w', acct s c = some cc ∧ Query.run s' (.name n n) = .name w' ∧ w'.value = cc ∧ w'.data = dta := by
  obtain ⟨cc, nm, tld, w', hcc, hnt, hget, hv, hd, _⟩ := C16_register_result s s' h c raw n dta y p hstep
  refine ⟨cc, w', hcc, ?_, hv, hd⟩
  have hp := hplain nm tld hnt
  simp only [Query.run, Query.nameQuery, hnt, hp]
  simp only [Bool.false_eq_true, if_false, hget]

end Canine.Rns

/-! ## C16 over whole executions: the registered term is never shortened

Runs (`run`, `Mono`: heights never go down), positions in a run (`evs = pre ++ (h, op) :: post`),
the ghost of listing origins and the listing invariant are in `Proofs/RnsRuns.lean`. -/
namespace Canine.Rns
open Bank

/-- **No message shortens a live name's term or removes its record** — each of the 13 messages:
if the name is live when the message is delivered (`h ≤ w.expires`, the boundary included), its
record is still there afterwards and `expires` is at least what it was.  (A registration of an
*expired* name replaces the record and dates it from the current height: not covered, and not meant
to be — the name was not live.) -/
theorem C16_live_name_expiry_never_decreases (s s' : State) (h : Int) (op : Op) (key : String) (w : NameRec)
    (hw : AMap.get s.names key = some w) (hlive : h ≤ w.expires) (hstep : step s h op = some s') :
    ∃ w', AMap.get s'.names key = some w' ∧ w.expires ≤ w'.expires :=
  step_live_expiry_mono hw hlive hstep

/-- **Along every run the `expires` field of a name never decreases while the name is live, and a
live name's record is never removed**: at every position of every run, for every name live
immediately before the event, whatever the event and whoever signed it, whether it succeeds or not. -/
theorem C16_expiry_never_decreases_while_live_along_runs
    (s0 : State) (evs pre post : List (Int × Op)) (h : Int) (op : Op)
    (hsplit : evs = pre ++ (h, op) :: post) (key : String) (w : NameRec)
    (hw : AMap.get (run s0 pre).names key = some w) (hlive : h ≤ w.expires) :
    run s0 evs = run (run s0 (pre ++ [(h, op)])) post ∧
    ∃ w', AMap.get (run s0 (pre ++ [(h, op)])).names key = some w' ∧ w.expires ≤ w'.expires := by
  refine ⟨by rw [hsplit, ← run_append]; simp, ?_⟩
  rw [run_snoc]
  exact stepT_live_expiry_mono hw hlive op

/-- Consequently a registered name survives, with at least its term, any run that ends before the
term does: if the last event of the run is delivered at a height `≤ w.expires` (heights never go
down, so every event is), the final state still has a record for the name, expiring no earlier. -/
theorem C16_live_name_survives_until_expiry_along_runs
    (s0 : State) (evs : List (Int × Op)) (hmono : Mono evs) (key : String) (w : NameRec)
    (hw : AMap.get s0.names key = some w)
    (hlast : ∀ e, evs.getLast? = some e → e.1 ≤ w.expires) :
    ∃ w', AMap.get (run s0 evs).names key = some w' ∧ w.expires ≤ w'.expires :=
  run_live_expiry_ge evs s0 key w hw (Int.le_refl _) (hmono.all_le_of_last_le hlast)

/-- **The registered term survives.**  In a run from a state with an idempotent address table and
the listing invariant (e.g. no listings), let a `register` for `y` years signed by `c` succeed at
height `h`, and let the run go on (`post`) up to any height within the term `h + y·5484530`.  With
`a` the account `c` denotes and `key` the name: right after the registration the name is `a`'s and
expires no earlier than `h + y·5484530` (`OwnedFor`), and **at the end of the run it still is** —
registered, owned by the account `a`, expiring no earlier than `h + y·5484530` — **unless** at some
position of `post`, up to which it was, `a` itself gave the name away (`GaveAway`): a successful
transfer or bid acceptance of that name signed by a spelling of `a`, or somebody's successful
purchase through a stored listing that `a` created.  No message of anybody else, no `init`, no
registration attempt, takes the name, deletes it or shortens the term. -/
theorem C16_registered_term_survives_along_runs
    (s0 : State) (g0 : Ghost) (evs pre post : List (Int × Op)) (h : Int) (c raw n dta : String) (y : Int)
    (p : Bool) (s1 : State)
    (hsplit : evs = pre ++ (h, .register c raw n dta y p) :: post) (hmono : Mono evs)
    (hcan : CanonIdem s0) (hinv : ListingInv s0 g0)
    (hreg : step (run s0 pre) h (.register c raw n dta y p) = some s1)
    (hterm : ∀ e, post.getLast? = some e → e.1 ≤ h + y * yearBlocks) :
    ∃ a key, acct s0 c = some a ∧ keyOf n = some key ∧
      OwnedFor s1 key a (h + y * yearBlocks) ∧
      (OwnedFor (run s0 evs) key a (h + y * yearBlocks) ∨
       ∃ mid e rest, post = mid ++ e :: rest ∧
         OwnedFor (run s1 mid) key a (h + y * yearBlocks) ∧
         GaveAway (run s1 mid) (ghostRun s0 g0 (pre ++ (h, .register c raw n dta y p) :: mid)) a key e.1 e.2) := by
  obtain ⟨cc, nm, tld, w', hcc, hnt, hw', hv, hex⟩ := C16_live_for_the_term _ s1 h c raw n dta y p hreg
  rw [acct_run] at hcc
  have hs1 : run s0 (pre ++ [(h, .register c raw n dta y p)]) = s1 := by
    rw [run_snoc]; simp [stepT, hreg]
  have hcan1 : CanonIdem s1 := by rw [← hs1]; exact canonIdem_run hcan _
  have hinv1 : ListingInv s1 (ghostRun s0 g0 (pre ++ [(h, .register c raw n dta y p)])) := by
    have := listingInv_run hinv (pre ++ [(h, .register c raw n dta y p)])
    rwa [hs1] at this
  have hacct1 : ∀ x, acct s1 x = acct s0 x := by intro x; rw [← hs1]; exact acct_run _ _ _
  have hown1 : OwnedFor s1 (nameKey nm tld) cc (h + y * yearBlocks) :=
    ⟨w', hw', by rw [hacct1, hv]; exact hcan _ _ hcc, hex⟩
  have hpost : Mono post := by
    rw [hsplit] at hmono; exact hmono.right.tail
  have hfin : run s0 evs = run s1 post := by
    rw [hsplit, ← hs1, ← run_append]; simp
  refine ⟨cc, nameKey nm tld, hcc, keyOf_of hnt rfl, hown1, ?_⟩
  rcases owned_run post s1 _ hcan1 hinv1 _ _ _ hown1 (hpost.all_le_of_last_le hterm) with hkeep | ⟨mid, e, rest, hsp, hpre, hg⟩
  · left; rw [hfin]; exact hkeep
  · right
    refine ⟨mid, e, rest, hsp, hpre, ?_⟩
    have hgr : ghostRun s0 g0 (pre ++ (h, .register c raw n dta y p) :: mid) =
        ghostRun s1 (ghostRun s0 g0 (pre ++ [(h, .register c raw n dta y p)])) mid := by
      have : pre ++ (h, Op.register c raw n dta y p) :: mid = (pre ++ [(h, .register c raw n dta y p)]) ++ mid := by simp
      rw [this, ghostRun_append, hs1]
    rw [hgr]; exact hg

/-- The same with the proviso as a hypothesis on the messages of `post` themselves (`MayGiveAway`,
read off each message): if none of them is a transfer or bid acceptance of that name signed by a
spelling of `a`, or a purchase of that name, then at the end of the run the name is still
registered, still `a`'s, and expires no earlier than `h + y·5484530`. -/
theorem C16_registered_term_survives_along_runs_unless_given_away
    (s0 : State) (g0 : Ghost) (evs pre post : List (Int × Op)) (h : Int) (c raw n dta : String) (y : Int)
    (p : Bool) (s1 : State)
    (hsplit : evs = pre ++ (h, .register c raw n dta y p) :: post) (hmono : Mono evs)
    (hcan : CanonIdem s0) (hinv : ListingInv s0 g0)
    (hreg : step (run s0 pre) h (.register c raw n dta y p) = some s1)
    (hterm : ∀ e, post.getLast? = some e → e.1 ≤ h + y * yearBlocks)
    (hkeep : ∀ a key, acct s0 c = some a → keyOf n = some key → ∀ e ∈ post, ¬ MayGiveAway s0 a key e.2) :
    ∃ a key w, acct s0 c = some a ∧ keyOf n = some key ∧
      AMap.get (run s0 evs).names key = some w ∧ acct s0 w.value = some a ∧
      h + y * yearBlocks ≤ w.expires := by
  obtain ⟨a, key, ha, hkey, -, hfin | ⟨mid, e, rest, hsp, -, hg⟩⟩ :=
    C16_registered_term_survives_along_runs s0 g0 evs pre post h c raw n dta y p s1 hsplit hmono hcan hinv hreg hterm
  · obtain ⟨w, hw, hwa, hT⟩ := hfin
    exact ⟨a, key, w, ha, hkey, hw, by rw [acct_run] at hwa; exact hwa, hT⟩
  · exfalso
    apply hkeep a key ha hkey e (by rw [hsp]; simp)
    apply hg.may
    intro x
    have hs1 : run s0 (pre ++ [(h, .register c raw n dta y p)]) = s1 := by
      rw [run_snoc]; simp [stepT, hreg]
    rw [acct_run, ← hs1, acct_run]

end Canine.Rns

/-! ### Non-vacuity on a concrete run

(`ValidateBasic` of a `register` runs the name through `String.all`, which the kernel does not
evaluate; its value is established by `simp` — `vb_foobar` — and the handlers are then evaluated
by `decide`, as in the handler-level example above.) -/
namespace Canine.Rns
open Bank

def termState : State :=
  { names := [], forsale := [], bids := [], inits := [], primary := [],
    bank := [(("carol", "ujkl"), 100000000), (("bob", "ujkl"), 100000000)],
    blocked := ["rnsmod"], moduleAcc := "rnsmod", polAcc := "pol",
    canon := [("carol", "carol"), ("CAROL", "carol"), ("bob", "bob")] }

/-- carol (signing as "CAROL") registers foobar.jkl for 2 years at height 200; bob tries `init` on
it, tries to register it, tries to transfer it, and — at the very last height of the term — tries to
update it: all fail; in between carol renews for one year. -/
def termRun : List (Int × Op) :=
  [(200, .register "CAROL" "foobar.jkl" "foobar.jkl" "{}" 2 false),
   (300, .init "bob" "foobar"),
   (300, .register "bob" "foobar.jkl" "foobar.jkl" "mine" 1 true),
   (400, .register "carol" "foobar.jkl" "foobar.jkl" "{}" 1 true),
   (500, .transfer "bob" "foobar.jkl" "foobar.jkl" "bob"),
   (200 + 2 * yearBlocks, .update "bob" "foobar.jkl" "foobar.jkl" "mine")]

theorem vb_foobar (c d : String) (y : Int) (p : Bool) :
    validateBasic (.register c "foobar.jkl" "foobar.jkl" d y p) = true := by
  have : nameAndTLD "foobar.jkl" = some ("foobar", "jkl") := by decide
  simp [validateBasic, this, isValidName]

/-- the state after carol's registration, and after her renewal -/
def termS1 : State := (handle termState 200 "carol" (.register "CAROL" "foobar.jkl" "foobar.jkl" "{}" 2 false)).getD termState
def termS2 : State := (handle termS1 400 "carol" (.register "carol" "foobar.jkl" "foobar.jkl" "{}" 1 true)).getD termS1

theorem termRun_reg : step termState 200 (.register "CAROL" "foobar.jkl" "foobar.jkl" "{}" 2 false) = some termS1 := by
  rw [step_eq_handle (vb_foobar _ _ _ _) rfl (show acct termState "CAROL" = some "carol" by decide)]; decide
theorem termRun_init_fails : step termS1 300 (.init "bob" "foobar") = none := by
  cases hs : step termS1 300 (.init "bob" "foobar") with
  | none => rfl
  | some s' =>
    have h1 := (C16_init_never_takes_a_live_name _ _ _ _ _ hs).1
    have h2 : isLive termS1 (nameKey "foobar" "jkl") 300 = true := by decide
    rw [h2] at h1; cases h1
theorem termRun_bob_reg_fails : step termS1 300 (.register "bob" "foobar.jkl" "foobar.jkl" "mine" 1 true) = none := by
  rw [step_eq_handle (vb_foobar _ _ _ _) rfl (show acct termS1 "bob" = some "bob" by decide)]; decide
theorem termRun_renew : step termS1 400 (.register "carol" "foobar.jkl" "foobar.jkl" "{}" 1 true) = some termS2 := by
  rw [step_eq_handle (vb_foobar _ _ _ _) rfl (show acct termS1 "carol" = some "carol" by decide)]; decide
theorem termRun_transfer_fails : step termS2 500 (.transfer "bob" "foobar.jkl" "foobar.jkl" "bob") = none := by decide
/-- the boundary: the last height of the 2-year term is still inside it -/
theorem termRun_update_fails : step termS2 (200 + 2 * yearBlocks) (.update "bob" "foobar.jkl" "foobar.jkl" "mine") = none := by decide

/-- every one of bob's messages fails; the run ends in the state after carol's renewal -/
theorem termRun_final : run termState termRun = termS2 := by
  simp [termRun, run, stepT, termRun_reg, termRun_init_fails, termRun_bob_reg_fails, termRun_renew,
    termRun_transfer_fails, termRun_update_fails]

example : Mono termRun := by decide
theorem termState_canonIdem : CanonIdem termState := by
  intro x y h
  simp only [acct, termState, AMap.get] at h ⊢
  repeat' split at h
  all_goals first | (simp at h; subst h; decide) | (simp at h)

/-- the theorem instantiated on this run (the registration is its first event): all its hypotheses
are met … -/
example : ∃ a key w, acct termState "CAROL" = some a ∧ keyOf "foobar.jkl" = some key ∧
    AMap.get (run termState termRun).names key = some w ∧ acct termState w.value = some a ∧
    200 + 2 * yearBlocks ≤ w.expires := by
  refine C16_registered_term_survives_along_runs_unless_given_away termState [] termRun [] termRun.tail 200
    "CAROL" "foobar.jkl" "foobar.jkl" "{}" 2 false termS1 rfl (by decide) termState_canonIdem
    (listingInv_of_no_listings _ _ rfl) termRun_reg ?_ ?_
  · intro e he
    have : e = (200 + 2 * yearBlocks, Op.update "bob" "foobar.jkl" "foobar.jkl" "mine") := by
      simpa [termRun] using he.symm
    subst this; decide
  · intro a key ha hkey e he
    have ha' : a = "carol" := by
      have : acct termState "CAROL" = some "carol" := by decide
      rw [this] at ha; exact (Option.some.inj ha).symm
    have hk' : key = "foobar.jkl" := by
      have : keyOf "foobar.jkl" = some "foobar.jkl" := by decide
      rw [this] at hkey; exact (Option.some.inj hkey).symm
    subst ha' hk'
    simp only [termRun, List.tail_cons, List.mem_cons, List.not_mem_nil, or_false] at he
    rcases he with rfl | rfl | rfl | rfl | rfl
    · exact id
    · exact id
    · exact id
    · intro hg; exact absurd hg.1 (by decide)
    · exact id
/-- … and by evaluation: at the end carol's account owns the name, which expires three years after
height 200 (the renewal added exactly a year to the unexpired term) -/
example : (AMap.get (run termState termRun).names "foobar.jkl").map (fun w => (w.value, w.expires))
    = some ("carol", 200 + 3 * yearBlocks) := by rw [termRun_final]; decide
/-- one block after the term of the (unrenewed) name anybody may register it anew — allowed, the
name is not live: the bound on the heights of `post` cannot be dropped -/
example : ((handle termS1 (201 + 2 * yearBlocks) "bob"
      (.register "bob" "foobar.jkl" "foobar.jkl" "mine" 1 true)).bind
    (fun s => (AMap.get s.names "foobar.jkl").map (fun w => (w.value, w.expires))))
    = some ("bob", 201 + 3 * yearBlocks) := by decide

end Canine.Rns
