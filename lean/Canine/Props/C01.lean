/-
C01 — No storage reward or prover status without a valid proof of the challenged chunk.

1. `C01_postProof_rejected_changes_nothing`   a rejected `postProof` writes nothing.
2. `C01_postProof_success_iff` (+ `C01_invalid_proof_rejected`, `C01_wrong_chunk_rejected`(`_newcomer`),
   `C01_unknown_file_rejected`, `C01_full_file_rejects_newcomer`, `C01_listed_without_record_rejected`).
3. `C01_postProof_success_listed` / `_newcomer` (exact resulting state) and the itemised
   `C01_postProof_success_effect`.
4. `C01_prover_added_only_by_verified_proof`, `C01_new_file_has_no_provers`   (every `Op`).
5. `C01_manageFile_never_adds_provers`, `C01_files_loop_never_adds_provers`, `C01_pullGauges_frame`,
   `C01_payProver_frame`, `C01_block_never_adds_provers`, `C01_beginBlock_never_adds_provers`.
6. `C01_lastProven_moves_only_by_valid_proof_or_quorum`   (every `Op`).
7. `C01_only_credited_provers_are_paid`, `C01_only_listed_records_are_credited`,
   `C01_manageProof_credits_record_prover`, `C01_block_pays_only_listed_provers`.
8. Merkle wrappers.
9. Along whole executions (messages, begin-blockers, parameter changes, from any consistent state /
   from genesis): `C01_listed_provers_have_proven_along_histories`,
   `C01_from_genesis_listed_provers_have_proven`, `C01_paid_only_after_valid_proof` — the
   "Consequently no account is ever paid … for a file it has never validly proven" clause.

Hypotheses that had to be added are store-consistency facts (`Consistent` in
`Proofs/StorageA.lean`: no duplicate file keys, a file is stored under its own key, listed proof keys
belong to the file, a record names the prover of its key, a form is stored under the key it names).
They hold in the empty state and are preserved by every message and by the begin-blocker
(`consistent_step`, `consistent_beginBlock`, `consistent_run`); counterexamples at the end of the
file show they cannot be dropped.
-/
import Canine.Proofs.StorageA
import Canine.Proofs.Merkle
namespace Canine.Storage
open Bank

/-! ## 1. A rejected proof writes nothing -/

theorem C01_postProof_rejected_changes_nothing (s : State) (h : Int) (c m o : String) (st tp : Int)
    (v : Bool) (nc : Int) :
    (postProof s h c m o st tp v nc).success = false → (postProof s h c m o st tp v nc).state = s := by
  rw [postProof_eq_spec]; unfold postProofSpec
  split
  · intro _; rfl
  · dsimp only
    split
    · split
      · intro _; rfl
      · split
        · intro h; simp at h
        · intro _; rfl
    · split
      · intro h; simp at h
      · intro _; rfl

/-! ## 2. Exactly when a proof is accepted -/

/-- Acceptance ⇔ the file exists, the sender is either a listed prover with a record whose stored
challenge is the claimed chunk, or a newcomer (claiming chunk 0, the initial challenge) for whom
there is room, and the chain's Merkle verification succeeded.
(`<` on the list length implies the `≠ maxProofs` test of the handler, so that conjunct is dropped.) -/
theorem C01_postProof_success_iff (s : State) (h : Int) (c m o : String) (st tp : Int)
    (v : Bool) (nc : Int) :
    (postProof s h c m o st tp v nc).success = true ↔
      ∃ f, AMap.get s.files (m, o, st) = some f ∧
        (((c, f.key) ∈ f.proofs ∧ ∃ p, AMap.get s.proofs (c, f.key) = some p ∧ tp = p.chunkToProve) ∨
         ((c, f.key) ∉ f.proofs ∧ (f.proofs.length : Int) < f.maxProofs ∧ tp = 0)) ∧
        v = true := by
  rw [postProof_eq_spec]; unfold postProofSpec
  cases hf : AMap.get s.files (m, o, st) with
  | none => simp
  | some f =>
    dsimp only
    by_cases hl : (c, f.key) ∈ f.proofs
    · simp only [hl, if_true]
      cases hp : AMap.get s.proofs (c, f.key) with
      | none =>
        constructor
        · intro h; simp at h
        · rintro ⟨f', hf', (⟨_, p, hp', _⟩ | ⟨hn, _⟩), _⟩
          · cases hf'; simp [hp] at hp'
          · cases hf'; exact absurd hl hn
      | some p =>
        dsimp only
        by_cases hc : tp = p.chunkToProve ∧ v = true
        · rw [if_pos hc]; simp only [true_iff]
          exact ⟨f, rfl, Or.inl ⟨hl, p, hp, hc.1⟩, hc.2⟩
        · rw [if_neg hc]
          constructor
          · intro h; simp at h
          · rintro ⟨f', hf', (⟨_, p', hp', ht⟩ | ⟨hn, _⟩), hv⟩
            · cases hf'; rw [hp] at hp'; cases hp'; exact absurd ⟨ht, hv⟩ hc
            · cases hf'; exact absurd hl hn
    · simp only [hl, if_false]
      by_cases hc : (f.proofs.length : Int) < f.maxProofs ∧ tp = 0 ∧ v = true
      · rw [if_pos hc]; simp only [true_iff]
        exact ⟨f, rfl, Or.inr ⟨hl, hc.1, hc.2.1⟩, hc.2.2⟩
      · rw [if_neg hc]
        constructor
        · intro h; simp at h
        · rintro ⟨f', hf', (⟨hl', _⟩ | ⟨_, h1, h2⟩), hv⟩
          · cases hf'; exact absurd hl' hl
          · cases hf'; exact absurd ⟨h1, h2, hv⟩ hc

/-- a proof that did not verify is never accepted -/
theorem C01_invalid_proof_rejected (s : State) (h : Int) (c m o : String) (st tp : Int) (nc : Int) :
    (postProof s h c m o st tp false nc).success = false := by
  cases hs : (postProof s h c m o st tp false nc).success with
  | false => rfl
  | true =>
    rw [C01_postProof_success_iff] at hs
    obtain ⟨_, _, _, hv⟩ := hs
    cases hv

/-- a listed prover claiming a chunk other than its stored challenge is rejected, even with a
Merkle proof that verifies -/
theorem C01_wrong_chunk_rejected (s : State) (h : Int) (c m o : String) (st tp : Int) (v : Bool)
    (nc : Int) (f : File) (p : Proof) (hf : AMap.get s.files (m, o, st) = some f)
    (hl : (c, f.key) ∈ f.proofs) (hp : AMap.get s.proofs (c, f.key) = some p)
    (hne : tp ≠ p.chunkToProve) :
    (postProof s h c m o st tp v nc).success = false := by
  cases hs : (postProof s h c m o st tp v nc).success with
  | false => rfl
  | true =>
    rw [C01_postProof_success_iff] at hs
    obtain ⟨f', hf', (⟨_, p', hp', ht⟩ | ⟨hn, _⟩), _⟩ := hs
    · rw [hf] at hf'; cases hf'; rw [hp] at hp'; cases hp'; exact absurd ht hne
    · rw [hf] at hf'; cases hf'; exact absurd hl hn

/-- a newcomer must answer the initial challenge, chunk 0 -/
theorem C01_wrong_chunk_rejected_newcomer (s : State) (h : Int) (c m o : String) (st tp : Int)
    (v : Bool) (nc : Int) (f : File) (hf : AMap.get s.files (m, o, st) = some f)
    (hl : (c, f.key) ∉ f.proofs) (hne : tp ≠ 0) :
    (postProof s h c m o st tp v nc).success = false := by
  cases hs : (postProof s h c m o st tp v nc).success with
  | false => rfl
  | true =>
    rw [C01_postProof_success_iff] at hs
    obtain ⟨f', hf', (⟨hl', _⟩ | ⟨_, _, ht⟩), _⟩ := hs
    · rw [hf] at hf'; cases hf'; exact absurd hl' hl
    · exact absurd ht hne

theorem C01_unknown_file_rejected (s : State) (h : Int) (c m o : String) (st tp : Int) (v : Bool)
    (nc : Int) (hf : AMap.get s.files (m, o, st) = none) :
    (postProof s h c m o st tp v nc).success = false := by
  cases hs : (postProof s h c m o st tp v nc).success with
  | false => rfl
  | true =>
    rw [C01_postProof_success_iff] at hs
    obtain ⟨f', hf', _⟩ := hs
    rw [hf] at hf'; cases hf'

/-- a file whose prover list is full (or over-full) accepts no new prover -/
theorem C01_full_file_rejects_newcomer (s : State) (h : Int) (c m o : String) (st tp : Int)
    (v : Bool) (nc : Int) (f : File) (hf : AMap.get s.files (m, o, st) = some f)
    (hl : (c, f.key) ∉ f.proofs) (hfull : f.maxProofs ≤ (f.proofs.length : Int)) :
    (postProof s h c m o st tp v nc).success = false := by
  cases hs : (postProof s h c m o st tp v nc).success with
  | false => rfl
  | true =>
    rw [C01_postProof_success_iff] at hs
    obtain ⟨f', hf', (⟨hl', _⟩ | ⟨_, hlt, _⟩), _⟩ := hs
    · rw [hf] at hf'; cases hf'; exact absurd hl' hl
    · rw [hf] at hf'; cases hf'; omega

/-- a listed prover whose record is missing is rejected (the handler's "contract not found") -/
theorem C01_listed_without_record_rejected (s : State) (h : Int) (c m o : String) (st tp : Int)
    (v : Bool) (nc : Int) (f : File) (hf : AMap.get s.files (m, o, st) = some f)
    (hl : (c, f.key) ∈ f.proofs) (hp : AMap.get s.proofs (c, f.key) = none) :
    (postProof s h c m o st tp v nc).success = false := by
  cases hs : (postProof s h c m o st tp v nc).success with
  | false => rfl
  | true =>
    rw [C01_postProof_success_iff] at hs
    obtain ⟨f', hf', (⟨_, p', hp', _⟩ | ⟨hn, _⟩), _⟩ := hs
    · rw [hf] at hf'; cases hf'; rw [hp] at hp'; cases hp'
    · rw [hf] at hf'; cases hf'; exact absurd hl hn

/-! ## 3. What an accepted proof writes -/

/-- accepted proof of a listed prover: only its own record changes (new `lastProven`, new challenge) -/
theorem C01_postProof_success_listed (s : State) (h : Int) (c m o : String) (st tp : Int)
    (v : Bool) (nc : Int) (f : File) (p : Proof) (hf : AMap.get s.files (m, o, st) = some f)
    (hl : (c, f.key) ∈ f.proofs) (hp : AMap.get s.proofs (c, f.key) = some p)
    (hs : (postProof s h c m o st tp v nc).success = true) :
    (postProof s h c m o st tp v nc).state =
      { s with proofs := (AMap.set s.proofs (c, f.key)
          { p with lastProven := h, chunkToProve := nextChunk f.fileSize s.params.chunkSize nc }) } := by
  rw [postProof_eq_spec] at hs ⊢
  unfold postProofSpec at hs ⊢
  simp only [hf, hl, hp, if_true] at hs ⊢
  split at hs
  · rename_i hc; rw [if_pos hc]; rfl
  · simp at hs

/-- accepted first proof of a newcomer: it is appended to the file's prover list (both indexes),
and a fresh record is created -/
theorem C01_postProof_success_newcomer (s : State) (h : Int) (c m o : String) (st tp : Int)
    (v : Bool) (nc : Int) (f : File) (hf : AMap.get s.files (m, o, st) = some f)
    (hl : (c, f.key) ∉ f.proofs)
    (hs : (postProof s h c m o st tp v nc).success = true) :
    (postProof s h c m o st tp v nc).state =
      { setFile s { f with proofs := f.proofs ++ [(c, f.key)] } with
        proofs := (AMap.set s.proofs (c, f.key)
          { prover := c, merkle := f.merkle, owner := f.owner, start := f.start, lastProven := h,
            chunkToProve := nextChunk f.fileSize s.params.chunkSize nc }) } := by
  rw [postProof_eq_spec] at hs ⊢
  unfold postProofSpec at hs ⊢
  simp only [hf, hl, if_false] at hs ⊢
  split at hs
  · rename_i hc; rw [if_pos hc]; rfl
  · simp at hs

/-- The effect of an accepted proof, item by item.

Two hypotheses had to be ADDED, both store-consistency facts that hold in every reachable state
(`Consistent`, preserved by every step — see `consistent_step` in `Proofs/StorageA.lean`):
* `hk : f.key = (m, o, st)` — the file stored under the key carries that key.  Without it a newcomer
  is appended to a copy written under `f.key`, and the file stored at `(m, o, st)` is unchanged.
* `hrec` — an existing record stored under `(c, _)` names `c` as its prover.  The handler keeps the
  stored `prover` field of an existing record, so without it `prover = c` fails for listed provers.
The unconditional equations are `C01_postProof_success_listed` / `_newcomer` above. -/
theorem C01_postProof_success_effect (s : State) (h : Int) (c m o : String) (st tp : Int)
    (v : Bool) (nc : Int) (f : File) (hf : AMap.get s.files (m, o, st) = some f)
    (hk : f.key = (m, o, st))
    (hrec : ∀ p, AMap.get s.proofs (c, f.key) = some p → p.prover = c)
    (hs : (postProof s h c m o st tp v nc).success = true) :
    let s' := (postProof s h c m o st tp v nc).state
    let pk : PKey := (c, (m, o, st))
    (∃ f', AMap.get s'.files (m, o, st) = some f' ∧ pk ∈ f'.proofs ∧
        f' = { f with proofs := f'.proofs } ∧ (∀ x, x ∈ f'.proofs ↔ x ∈ f.proofs ∨ x = pk)) ∧
    (∃ p', AMap.get s'.proofs pk = some p' ∧ p'.lastProven = h ∧ p'.prover = c ∧
        p'.chunkToProve = nextChunk f.fileSize s.params.chunkSize nc) ∧
    (∀ k, k ≠ (m, o, st) → AMap.get s'.files k = AMap.get s.files k) ∧
    (∀ k, k ≠ (m, o, st) → AMap.get s'.files2 k = AMap.get s.files2 k) ∧
    (∀ k, k ≠ pk → AMap.get s'.proofs k = AMap.get s.proofs k) ∧
    s'.providers = s.providers ∧ s'.payinfo = s.payinfo ∧ s'.collateral = s.collateral ∧
    s'.gauges = s.gauges ∧ s'.attests = s.attests ∧ s'.reports = s.reports ∧ s'.bank = s.bank ∧
    s'.params = s.params ∧ s'.moduleAcc = s.moduleAcc ∧ s'.collateralAcc = s.collateralAcc ∧
    s'.polAcc = s.polAcc ∧ s'.feeAcc = s.feeAcc ∧ s'.blocked = s.blocked := by
  intro s' pk
  by_cases hl : (c, f.key) ∈ f.proofs
  · have hiff := (C01_postProof_success_iff s h c m o st tp v nc).mp hs
    obtain ⟨f0, hf0, hcase, _⟩ := hiff
    rw [hf] at hf0; cases hf0
    rcases hcase with ⟨_, p, hp, _⟩ | ⟨hn, _⟩
    · have hst := C01_postProof_success_listed s h c m o st tp v nc f p hf hl hp hs
      have e : s' = _ := hst
      rw [e]; rw [hk] at hl
      have hg : ∀ r, AMap.get (AMap.set s.proofs (c, f.key) r) pk = some r := by
        intro r; rw [hk]; exact AMap.get_set_self _ _ _
      refine ⟨⟨f, hf, hl, rfl, fun x => ⟨Or.inl, ?_⟩⟩, ⟨_, hg _, rfl, hrec p hp, rfl⟩, fun _ _ => rfl,
        fun _ _ => rfl, ?_, rfl, rfl, rfl, rfl, rfl, rfl, rfl, rfl, rfl, rfl, rfl, rfl, rfl⟩
      · rintro (hx | hx)
        · exact hx
        · rw [hx]; exact hl
      · intro k hne
        show AMap.get (AMap.set s.proofs (c, f.key) _) k = _
        rw [hk]; exact AMap.get_set_other _ _ _ _ (fun e => hne e.symm)
    · exact absurd hl hn
  · have hst := C01_postProof_success_newcomer s h c m o st tp v nc f hf hl hs
    have e : s' = _ := hst
    rw [e]
    have hg : ∀ r, AMap.get (AMap.set s.proofs (c, f.key) r) pk = some r := by
      intro r; rw [hk]; exact AMap.get_set_self _ _ _
    refine ⟨⟨{ f with proofs := f.proofs ++ [(c, f.key)] }, ?_, ?_, rfl, ?_⟩, ⟨_, hg _, rfl, rfl, rfl⟩,
      ?_, ?_, ?_, rfl, rfl, rfl, rfl, rfl, rfl, rfl, rfl, rfl, rfl, rfl, rfl, rfl⟩
    · show AMap.get (AMap.set s.files (File.key _) _) (m, o, st) = _
      have : File.key { f with proofs := f.proofs ++ [(c, f.key)] } = (m, o, st) := hk
      rw [this]; exact AMap.get_set_self _ _ _
    · simp [pk, hk]
    · intro x; simp [pk, hk]
    · intro k hne
      show AMap.get (AMap.set s.files (File.key _) _) k = _
      have : File.key { f with proofs := f.proofs ++ [(c, f.key)] } = (m, o, st) := hk
      rw [this]; exact AMap.get_set_other _ _ _ _ (fun e => hne e.symm)
    · intro k hne
      show AMap.get (AMap.set s.files2 (File.key _) _) k = _
      have : File.key { f with proofs := f.proofs ++ [(c, f.key)] } = (m, o, st) := hk
      rw [this]; exact AMap.get_set_other _ _ _ _ (fun e => hne e.symm)
    · intro k hne
      show AMap.get (AMap.set s.proofs (c, f.key) _) k = _
      rw [hk]; exact AMap.get_set_other _ _ _ _ (fun e => hne e.symm)

/-! ## 4. A prover is added to a file only by its own verified proof -/

/-- Any delivered message that makes `pk` a listed prover of an existing file is a `postProof` sent
by `pk.1` for that very file, claiming chunk 0 (the initial challenge), whose Merkle proof verified.

Hypothesis ADDED: `hkey`, "a file is stored under its own key" (part of `Consistent`, preserved by
every step and by the reward block).  `postProof` and `report` write the modified file back under
`f.key`, not under the key it was read from, so without it a file stored under a foreign key could
be copied — provers included — over another one. -/
theorem C01_prover_added_only_by_verified_proof (s s' : State) (h now : Int) (op : Op)
    (hkey : ∀ k f, AMap.get s.files k = some f → f.key = k)
    (hstep : step s h now op = some s') (k : FKey) (f f' : File) (pk : PKey)
    (hf : AMap.get s.files k = some f) (hf' : AMap.get s'.files k = some f')
    (hin : pk ∈ f'.proofs) (hout : pk ∉ f.proofs) :
    pk.2 = k ∧ ∃ nc, op = .postProof pk.1 k.1 k.2.1 k.2.2 0 true nc := by
  by_cases hop : op.isStoreOp = false
  · rw [(step_sameStore hop hstep).files, hf] at hf'; cases hf'; exact absurd hin hout
  cases op <;> simp only [Op.isStoreOp, not_true_eq_false] at hop <;> simp only [step] at hstep
  case postFile c m fs mp ex pt note nv jp gid gacc =>
    obtain ⟨e1, -⟩ := postFile_frame hstep
    rw [e1, AMap.get_set] at hf'
    split at hf'
    · cases hf'; simp [newFile] at hin
    · rw [removeFile_files_get] at hf'
      split at hf'
      · cases hf'
      · rw [hf] at hf'; cases hf'; exact absurd hin hout
  case deleteFile c m st =>
    simp only [Option.some.injEq] at hstep; subst hstep
    unfold deleteFile at hf'
    rw [removeFile_files_get] at hf'
    split at hf'
    · cases hf'
    · rw [hf] at hf'; cases hf'; exact absurd hin hout
  case postProof c m o st tp v nc =>
    simp only [Option.some.injEq] at hstep; subst hstep
    cases hsucc : (postProof s h c m o st tp v nc).success with
    | false =>
      rw [C01_postProof_rejected_changes_nothing _ _ _ _ _ _ _ _ _ hsucc, hf] at hf'
      cases hf'; exact absurd hin hout
    | true =>
      obtain ⟨f0, hf0, hcase, hv⟩ := (C01_postProof_success_iff s h c m o st tp v nc).mp hsucc
      have hk0 := hkey _ _ hf0
      rcases hcase with ⟨hl, p, hp, _⟩ | ⟨hl, _, htp⟩
      · rw [C01_postProof_success_listed s h c m o st tp v nc f0 p hf0 hl hp hsucc] at hf'
        change AMap.get s.files k = some f' at hf'
        rw [hf] at hf'; cases hf'; exact absurd hin hout
      · rw [C01_postProof_success_newcomer s h c m o st tp v nc f0 hf0 hl hsucc] at hf'
        change AMap.get (AMap.set s.files (File.key _) _) k = some f' at hf'
        have hk1 : File.key { f0 with proofs := f0.proofs ++ [(c, f0.key)] } = (m, o, st) := hk0
        rw [hk1, AMap.get_set] at hf'
        split at hf'
        · rename_i e
          cases hf'
          rw [← e, hf0] at hf; cases hf
          simp only [List.mem_append, List.mem_singleton] at hin
          rcases hin with hin | hin
          · exact absurd hin hout
          · rw [hin, hk0, ← e, htp, hv]
            exact ⟨rfl, nc, rfl⟩
        · rw [hf] at hf'; cases hf'; exact absurd hin hout
  case requestAttest c m o st ec ch =>
    have e1 := (step_requestAttest (h := h) (now := now) (by simpa only [step] using hstep)).1
    rw [e1, hf] at hf'; cases hf'; exact absurd hin hout
  case attest c p m o st =>
    simp only [Option.some.injEq] at hstep; subst hstep
    rw [(attest_cases s h c p m o st).1, hf] at hf'; cases hf'; exact absurd hin hout
  case requestReport c p m o st ec ch =>
    have e1 := (step_requestReport (h := h) (now := now) (c := c) (by simpa only [step] using hstep)).1
    rw [e1, hf] at hf'; cases hf'; exact absurd hin hout
  case report c p m o st =>
    rcases report_cases hstep with ⟨e1, -⟩ | ⟨f0, hf0, e⟩
    · rw [e1, hf] at hf'; cases hf'; exact absurd hin hout
    · have hk0 := hkey _ _ hf0
      obtain ⟨_, _, _, hc⟩ := removeProver_cases
        { s with reports := AMap.erase s.reports (p, (m, o, st)) } f0 (p, f0.key)
      rcases hc with ⟨_, e2⟩ | ⟨_, _, e2, -⟩
      · rw [e, e2] at hf'
        change AMap.get s.files k = some f' at hf'
        rw [hf] at hf'; cases hf'; exact absurd hin hout
      · rw [e, e2] at hf'
        change AMap.get (AMap.set s.files f0.key _) k = some f' at hf'
        rw [AMap.get_set] at hf'
        split at hf'
        · rename_i e3
          cases hf'
          rw [← e3, hk0, hf0] at hf; cases hf
          exact absurd (List.mem_filter.mp hin).1 hout
        · rw [hf] at hf'; cases hf'; exact absurd hin hout

/-- A file that a message creates (there was none under that key) starts with no provers — and the
message is a `postFile` of the key's owner at the current height.  (Same added hypothesis.) -/
theorem C01_new_file_has_no_provers (s s' : State) (h now : Int) (op : Op)
    (hkey : ∀ k f, AMap.get s.files k = some f → f.key = k)
    (hstep : step s h now op = some s') (k : FKey) (f' : File)
    (hf : AMap.get s.files k = none) (hf' : AMap.get s'.files k = some f') :
    f'.proofs = [] ∧ k.2.2 = h ∧
      ∃ fs mp ex pt note nv jp gid gacc, op = .postFile k.2.1 k.1 fs mp ex pt note nv jp gid gacc := by
  by_cases hop : op.isStoreOp = false
  · rw [(step_sameStore hop hstep).files, hf] at hf'; cases hf'
  cases op <;> simp only [Op.isStoreOp, not_true_eq_false] at hop <;> simp only [step] at hstep
  case postFile c m fs mp ex pt note nv jp gid gacc =>
    obtain ⟨e1, -⟩ := postFile_frame hstep
    rw [e1, AMap.get_set] at hf'
    split at hf'
    · rename_i e; cases hf'; subst e
      exact ⟨rfl, rfl, _, _, _, _, _, _, _, _, _, rfl⟩
    · rw [removeFile_files_get] at hf'
      split at hf'
      · cases hf'
      · rw [hf] at hf'; cases hf'
  case deleteFile c m st =>
    simp only [Option.some.injEq] at hstep; subst hstep
    unfold deleteFile at hf'
    rw [removeFile_files_get] at hf'
    split at hf'
    · cases hf'
    · rw [hf] at hf'; cases hf'
  case postProof c m o st tp v nc =>
    simp only [Option.some.injEq] at hstep; subst hstep
    cases hsucc : (postProof s h c m o st tp v nc).success with
    | false =>
      rw [C01_postProof_rejected_changes_nothing _ _ _ _ _ _ _ _ _ hsucc, hf] at hf'
      cases hf'
    | true =>
      obtain ⟨f0, hf0, hcase, hv⟩ := (C01_postProof_success_iff s h c m o st tp v nc).mp hsucc
      have hk0 := hkey _ _ hf0
      rcases hcase with ⟨hl, p, hp, _⟩ | ⟨hl, _, htp⟩
      · rw [C01_postProof_success_listed s h c m o st tp v nc f0 p hf0 hl hp hsucc] at hf'
        change AMap.get s.files k = some f' at hf'
        rw [hf] at hf'; cases hf'
      · rw [C01_postProof_success_newcomer s h c m o st tp v nc f0 hf0 hl hsucc] at hf'
        change AMap.get (AMap.set s.files (File.key _) _) k = some f' at hf'
        have hk1 : File.key { f0 with proofs := f0.proofs ++ [(c, f0.key)] } = (m, o, st) := hk0
        rw [hk1, AMap.get_set] at hf'
        split at hf'
        · rename_i e; rw [← e, hf0] at hf; cases hf
        · rw [hf] at hf'; cases hf'
  case requestAttest c m o st ec ch =>
    have e1 := (step_requestAttest (h := h) (now := now) (by simpa only [step] using hstep)).1
    rw [e1, hf] at hf'; cases hf'
  case attest c p m o st =>
    simp only [Option.some.injEq] at hstep; subst hstep
    rw [(attest_cases s h c p m o st).1, hf] at hf'; cases hf'
  case requestReport c p m o st ec ch =>
    have e1 := (step_requestReport (h := h) (now := now) (c := c) (by simpa only [step] using hstep)).1
    rw [e1, hf] at hf'; cases hf'
  case report c p m o st =>
    rcases report_cases hstep with ⟨e1, -⟩ | ⟨f0, hf0, e⟩
    · rw [e1, hf] at hf'; cases hf'
    · have hk0 := hkey _ _ hf0
      obtain ⟨_, _, _, hc⟩ := removeProver_cases
        { s with reports := AMap.erase s.reports (p, (m, o, st)) } f0 (p, f0.key)
      rcases hc with ⟨_, e2⟩ | ⟨_, _, e2, -⟩
      · rw [e, e2] at hf'
        change AMap.get s.files k = some f' at hf'
        rw [hf] at hf'; cases hf'
      · rw [e, e2] at hf'
        change AMap.get (AMap.set s.files f0.key _) k = some f' at hf'
        rw [AMap.get_set] at hf'
        split at hf'
        · rename_i e3; rw [← e3, hk0, hf0] at hf; cases hf
        · rw [hf] at hf'; cases hf'

/-! ## 5. The reward block never adds a prover (and never creates or edits a proof record) -/

/-- `manageFile`, for a file read from the store: no file is created, every other file is left
alone, and the managed file (if it is not dropped) keeps all its fields and a sub-list of its
provers.

Hypothesis ADDED: `hget`, the `file` handed to `manageFile` is the one stored under its key (which
is how `manageRewards` calls it on a consistent state).  `manageFile` writes the shrunk copy of its
*argument* back under `file.key`, so for an arbitrary argument it would overwrite the stored file. -/
theorem C01_manageFile_never_adds_provers (s : State) (h : Int) (t : Tracker) (file : File)
    (hget : AMap.get s.files file.key = some file) :
    ∀ k f', AMap.get (manageFile s h t file).1.files k = some f' →
      ∃ f, AMap.get s.files k = some f ∧ f' = { f with proofs := f'.proofs } ∧
        f'.proofs.Sublist f.proofs ∧ ∀ pk ∈ f'.proofs, pk ∈ f.proofs := by
  intro k f' hf'
  have out := manageFile_out s h t file hget
  by_cases hk : k = file.key
  · subst hk
    obtain ⟨e, hsub⟩ := out.atKey f' hf'
    exact ⟨file, hget, e, hsub, fun pk hpk => hsub.subset hpk⟩
  · rw [out.others k hk] at hf'
    exact ⟨f', hf', rfl, List.Sublist.refl _, fun _ h => h⟩

/-- neither does it create or modify a proof record -/
theorem C01_manageFile_never_writes_records (s : State) (h : Int) (t : Tracker) (file : File)
    (hget : AMap.get s.files file.key = some file) :
    ∀ pk p, AMap.get (manageFile s h t file).1.proofs pk = some p → AMap.get s.proofs pk = some p :=
  (manageFile_out s h t file hget).proofs

/-- The file loop of `manageRewards`, on a consistent state (`Consistent` is preserved by every
message, `consistent_step`; it is needed because the loop hands `manageFile` the files as they were
read at the start, see `hget` above — with duplicate keys or a file stored under a foreign key the
loop could resurrect provers). -/
theorem C01_files_loop_never_adds_provers (s : State) (h : Int) (hc : Consistent s) :
    ∀ k f', AMap.get (s.files.foldl (fun (acc : State × Tracker) kv =>
        manageFile acc.1 h acc.2 kv.2) (s, [])).1.files k = some f' →
      ∃ f, AMap.get s.files k = some f ∧ f' = { f with proofs := f'.proofs } ∧
        f'.proofs.Sublist f.proofs ∧ ∀ pk ∈ f'.proofs, pk ∈ f.proofs := by
  intro k f' hf'
  obtain ⟨f, hf, e, hsub⟩ := (filesLoop_blockInv s h hc).shrinks k f' hf'
  exact ⟨f, hf, e, hsub, fun pk hpk => hsub.subset hpk⟩

/-- gauge release and payouts do not touch files or proof records -/
theorem C01_pullGauges_frame (s s' : State) (now : Int) (coins : Coins)
    (h : pullGauges s now = .ok (s', coins)) :
    s'.files = s.files ∧ s'.files2 = s.files2 ∧ s'.proofs = s.proofs ∧ s'.providers = s.providers :=
  let r := (pullGauges_rel h).1
  ⟨r.files, r.files2, r.proofs, r.providers⟩

theorem C01_payProver_frame (s s' : State) (total : Int) (coins : Coins) (prover : String)
    (worth : Int) (h : payProver s total coins prover worth = .ok s') :
    s'.files = s.files ∧ s'.files2 = s.files2 ∧ s'.proofs = s.proofs ∧ s'.providers = s.providers :=
  let r := (payProver_rel h).1
  ⟨r.files, r.files2, r.proofs, r.providers⟩

/-- The whole reward block: every file after the block existed before, with the same fields and a
sub-list of its provers; every proof record after the block is a record from before, unchanged
(so the block never moves a `lastProven` either). -/
theorem C01_block_never_adds_provers (s s' : State) (h now : Int) (hc : Consistent s)
    (hs : manageRewards s h now = .ok s') :
    (∀ k f', AMap.get s'.files k = some f' →
      ∃ f, AMap.get s.files k = some f ∧ f' = { f with proofs := f'.proofs } ∧
        f'.proofs.Sublist f.proofs ∧ ∀ pk ∈ f'.proofs, pk ∈ f.proofs) ∧
    (∀ pk p, AMap.get s'.proofs pk = some p → AMap.get s.proofs pk = some p) := by
  obtain ⟨inv, rel, _⟩ := manageRewards_out hc hs
  constructor
  · intro k f' hf'
    rw [rel.files] at hf'
    obtain ⟨f, hf, e, hsub⟩ := inv.shrinks k f' hf'
    exact ⟨f, hf, e, hsub, fun pk hpk => hsub.subset hpk⟩
  · intro pk p hp
    rw [rel.proofs] at hp
    exact inv.proofs pk p hp

theorem C01_beginBlock_never_adds_provers (s s' : State) (h now : Int) (hc : Consistent s)
    (hs : beginBlock s h now = .ok s') :
    (∀ k f', AMap.get s'.files k = some f' →
      ∃ f, AMap.get s.files k = some f ∧ f' = { f with proofs := f'.proofs } ∧
        f'.proofs.Sublist f.proofs ∧ ∀ pk ∈ f'.proofs, pk ∈ f.proofs) ∧
    (∀ pk p, AMap.get s'.proofs pk = some p → AMap.get s.proofs pk = some p) := by
  unfold beginBlock at hs
  split at hs
  · cases hs
  split at hs
  · cases hs
    exact ⟨fun k f' hf' => ⟨f', hf', rfl, List.Sublist.refl _, fun _ h => h⟩, fun _ _ h => h⟩
  · exact C01_block_never_adds_provers s s' h now hc hs

/-! ## 6. `lastProven` moves only by a verified proof or an attestation quorum -/

/-- If a delivered message changes the `lastProven` of an existing proof record, the message is a
`postProof` of that prover for that file whose Merkle proof verified, or an `attest` on the
attestation form of exactly that proof key; in both cases the new value is the current height.

Hypotheses ADDED (both part of `Consistent`, preserved by every step): `hkey` (a file is stored
under its own key) and `hform` (an attestation form is stored under the proof key it names).
`attest` updates the record named by the *contents* of the form and of the file it points to, so
without them the form stored under `pk` could refresh some other record. -/
theorem C01_lastProven_moves_only_by_valid_proof_or_quorum (s s' : State) (h now : Int) (op : Op)
    (hkey : ∀ k f, AMap.get s.files k = some f → f.key = k)
    (hform : ∀ pk fm, AMap.get s.attests pk = some fm →
      (fm.prover, fm.merkle, fm.owner, fm.start) = pk)
    (hstep : step s h now op = some s') (pk : PKey) (p p' : Proof)
    (hp : AMap.get s.proofs pk = some p) (hp' : AMap.get s'.proofs pk = some p')
    (hne : p.lastProven ≠ p'.lastProven) :
    p'.lastProven = h ∧
    ((∃ tp nc, op = .postProof pk.1 pk.2.1 pk.2.2.1 pk.2.2.2 tp true nc ∧
        (postProof s h pk.1 pk.2.1 pk.2.2.1 pk.2.2.2 tp true nc).success = true) ∨
     (∃ c, op = .attest c pk.1 pk.2.1 pk.2.2.1 pk.2.2.2)) := by
  have same : s'.proofs = s.proofs → False := by
    intro e; rw [e, hp] at hp'; cases hp'; exact hne rfl
  by_cases hop : op.isStoreOp = false
  · exact (same (step_sameStore hop hstep).proofs).elim
  cases op <;> simp only [Op.isStoreOp, not_true_eq_false] at hop
  case postFile c m fs mp ex pt note nv jp gid gacc =>
    simp only [step] at hstep
    obtain ⟨_, _, e3, -⟩ := postFile_frame hstep
    rw [e3] at hp'
    have := removeFile_proofs_get _ _ _ _ hp'
    rw [hp] at this; cases this; exact (hne rfl).elim
  case deleteFile c m st =>
    simp only [step, Option.some.injEq] at hstep; subst hstep
    have := removeFile_proofs_get _ _ _ _ hp'
    rw [hp] at this; cases this; exact (hne rfl).elim
  case postProof c m o st tp v nc =>
    simp only [step, Option.some.injEq] at hstep; subst hstep
    cases hsucc : (postProof s h c m o st tp v nc).success with
    | false =>
      rw [C01_postProof_rejected_changes_nothing _ _ _ _ _ _ _ _ _ hsucc] at same
      exact (same rfl).elim
    | true =>
      obtain ⟨f0, hf0, hcase, hv⟩ := (C01_postProof_success_iff s h c m o st tp v nc).mp hsucc
      have hk0 := hkey _ _ hf0
      subst hv
      have fin : ∀ r : Proof, r.lastProven = h →
          AMap.get (AMap.set s.proofs (c, f0.key) r) pk = some p' →
          p'.lastProven = h ∧
          ((∃ tp' nc', Op.postProof c m o st tp true nc =
                .postProof pk.1 pk.2.1 pk.2.2.1 pk.2.2.2 tp' true nc' ∧
              (postProof s h pk.1 pk.2.1 pk.2.2.1 pk.2.2.2 tp' true nc').success = true) ∨
           (∃ c', Op.postProof c m o st tp true nc = .attest c' pk.1 pk.2.1 pk.2.2.1 pk.2.2.2)) := by
        intro r hr hg
        rw [AMap.get_set] at hg
        split at hg
        · rename_i e
          cases hg
          refine ⟨hr, Or.inl ⟨tp, nc, ?_, ?_⟩⟩
          · rw [← e, hk0]
          · rw [← e, hk0]; exact hsucc
        · rw [hp] at hg; cases hg; exact (hne rfl).elim
      rcases hcase with ⟨hl, p0, hp0, _⟩ | ⟨hl, _, _⟩
      · rw [C01_postProof_success_listed s h c m o st tp true nc f0 p0 hf0 hl hp0 hsucc] at hp'
        exact fin _ rfl hp'
      · rw [C01_postProof_success_newcomer s h c m o st tp true nc f0 hf0 hl hsucc] at hp'
        exact fin _ rfl hp'
  case requestAttest c m o st ec ch =>
    exact (same (step_requestAttest hstep).2.2.1).elim
  case attest c pr m o st =>
    simp only [step, Option.some.injEq] at hstep; subst hstep
    obtain ⟨_, _, _, _, hcase⟩ := attest_cases s h c pr m o st
    rcases hcase with ⟨e3, _⟩ | ⟨fm0, f, p0, hfm0, hf, hl, hp0, e3, e4⟩
    · exact (same e3).elim
    · rw [e3, AMap.get_set] at hp'
      split at hp'
      · rename_i e
        cases hp'
        have h1 := hform _ _ hfm0
        have h2 := hkey _ _ hf
        refine ⟨rfl, Or.inr ⟨c, ?_⟩⟩
        rw [← e, h2]
        simp only [Prod.mk.injEq] at h1
        obtain ⟨a1, a2, a3, a4⟩ := h1
        rw [a1, a2, a3, a4]
      · rw [hp] at hp'; cases hp'; exact (hne rfl).elim
  case requestReport c pr m o st ec ch =>
    exact (same (step_requestReport hstep).2.2.1).elim
  case report c pr m o st =>
    simp only [step] at hstep
    rcases report_cases hstep with ⟨_, _, e3, _⟩ | ⟨f0, hf0, e⟩
    · exact (same e3).elim
    · obtain ⟨_, _, _, hc⟩ := removeProver_cases
        { s with reports := AMap.erase s.reports (pr, (m, o, st)) } f0 (pr, f0.key)
      rcases hc with ⟨_, e2⟩ | ⟨_, _, _, _, e2⟩
      · rw [e, e2] at same; exact (same rfl).elim
      · rw [e, e2] at hp'
        change AMap.get (AMap.erase s.proofs _) pk = some p' at hp'
        rw [AMap.get_erase] at hp'
        split at hp'
        · cases hp'
        · rw [hp] at hp'; cases hp'; exact (hne rfl).elim

/-! ## 7. Only credited provers are paid -/

/-- in `payProver` only the `prover` argument can gain (the module account pays) -/
theorem C01_only_credited_provers_are_paid (s s' : State) (total : Int) (coins : Coins)
    (prover : String) (worth : Int) (h : payProver s total coins prover worth = .ok s') :
    ∀ a d, a ≠ prover → bal s'.bank a d ≤ bal s.bank a d :=
  (payProver_rel h).2.2

/-- `manageFile` credits only the `prover` named by an existing record of a listed proof key (or
the empty name, for a young file's listed key without record — and `payProver` skips that one) -/
theorem C01_only_listed_records_are_credited (s : State) (h : Int) (t : Tracker) (file : File)
    (hget : AMap.get s.files file.key = some file) :
    ∀ x ∈ AMap.keys (manageFile s h t file).2, x ∈ AMap.keys t ∨ x = "" ∨
      ∃ pk ∈ file.proofs, ∃ p, AMap.get s.proofs pk = some p ∧ p.prover = x :=
  (manageFile_out s h t file hget).tracker

/-- one `manageProof`: the tracker gains at most the record's prover (or the empty name) -/
theorem C01_manageProof_credits_record_prover (s : State) (h : Int) (t : Tracker) (file : File)
    (pk : PKey) :
    ∀ x ∈ AMap.keys (manageProof s h t file pk).2.1, x ∈ AMap.keys t ∨ x = "" ∨
      ∃ p, AMap.get s.proofs pk = some p ∧ p.prover = x := by
  intro x hx
  rcases manageProof_cases s h t file pk with ⟨_, _, y, e, hy⟩ | ⟨_, _, e, _, _⟩
  · rw [e] at hx
    rcases keys_credit hx with hx | hx
    · exact Or.inl hx
    · subst hx
      rcases hy with hy | hy
      · exact Or.inr (Or.inl hy)
      · exact Or.inr (Or.inr hy)
  · rw [e] at hx; exact Or.inl hx

/-- The whole reward block: an account whose balance of any denomination grew is the module
account (which receives the gauge releases) or the prover named by the record of a proof key listed
in a stored file. -/
theorem C01_block_pays_only_listed_provers (s s' : State) (h now : Int) (hc : Consistent s)
    (hs : manageRewards s h now = .ok s') (a d : String)
    (hgain : bal s.bank a d < bal s'.bank a d) :
    a = s.moduleAcc ∨
    ∃ kv ∈ s.files, ∃ pk ∈ kv.2.proofs, ∃ p, AMap.get s.proofs pk = some p ∧ p.prover = a := by
  obtain ⟨_, _, hb⟩ := manageRewards_out hc hs
  by_cases ha : a = s.moduleAcc
  · exact Or.inl ha
  · by_cases hq : CreditedProver s a
    · exact Or.inr hq
    · have := hb a d ha hq
      omega

/-! ## 8. The Merkle side (re-exported from `Proofs/Merkle.lean`) -/

/-- an accepted proof is a proof of the challenged chunk, or exhibits a hash collision / a
pre-image of the zero node.  (`hc : c < chunks.length` is necessary, see
`Merkle.verifyProof_needs_challenge_bound`; `C02_challenge_designates_chunk` provides it.) -/
theorem C01_accepted_proof_is_for_challenged_chunk (H S : Merkle.Bytes → Merkle.Bytes)
    (hashLen sLen : Nat) (hlen : ∀ x, (H x).length = hashLen) (hslen : ∀ x, (S x).length = sLen)
    (hlt : sLen < hashLen) (chunks : List Merkle.Bytes) (c : Nat) (hc : c < chunks.length)
    (item : Merkle.Bytes) (idx : Nat) (hs : List Merkle.Bytes)
    (hv : Merkle.verifyProof H S (Merkle.fileRoot H S hashLen chunks) c item idx hs = true) :
    (c < chunks.length ∧ item = chunks.getD c [])
    ∨ (∃ x y, x ≠ y ∧ H x = H y) ∨ (∃ x y, x ≠ y ∧ S x = S y)
    ∨ (∃ x, H x = Merkle.zeroNode hashLen) :=
  Merkle.accepted_proof_is_for_challenged_chunk H S hashLen sLen hlen hslen hlt chunks c hc item idx hs hv

/-- regression witness: the verifier before the fix accepted, for the challenge 1, an item and path
belonging to leaf 123 -/
theorem C01_unfixed_verifier_accepts_other_chunk (H S : Merkle.Bytes → Merkle.Bytes) (hashLen : Nat)
    (chunks : List Merkle.Bytes) (h : 123 < chunks.length) :
    Merkle.verifyProofUnfixed H S (Merkle.fileRoot H S hashLen chunks) 1
      (0x23 :: chunks.getD 123 []) 123
      (Merkle.genProof H hashLen (chunks.mapIdx (fun j c => Merkle.leafData S j c)) 123) = true :=
  Merkle.verifyProofUnfixed_accepts_wrong_chunk H S hashLen chunks h

theorem C01_verifier_rejects_wrong_index (H S : Merkle.Bytes → Merkle.Bytes)
    (merkle item : Merkle.Bytes) (c idx : Nat) (hs : List Merkle.Bytes) (hne : idx ≠ c) :
    Merkle.verifyProof H S merkle c item idx hs = false :=
  Merkle.verifyProof_rejects_wrong_index H S merkle item c idx hs hne

/-! ## Non-vacuity: a concrete file, an honest prover, a cheating one -/

def demoParams : Params :=
  { proofWindow := 50, checkWindow := 11, chunkSize := 1024, pricePerTbPerMonth := 8,
    collateralPrice := 1000, attestFormSize := 5, attestMinToPass := 3, referralCommission := 25,
    polRatio := 40 }

/-- a 2500-byte file = 3 chunks of 1024 bytes, room for 3 provers, none yet -/
def demoFile : File :=
  { merkle := "aa", owner := "alice", start := 10, expires := 0, fileSize := 2500,
    proofInterval := 50, proofType := 0, proofs := [], maxProofs := 3, note := "{}" }

def demoState : State :=
  { files := [(("aa", "alice", 10), demoFile)], files2 := [(("aa", "alice", 10), demoFile)],
    proofs := [], providers := [], payinfo := [], collateral := [], gauges := [], attests := [],
    reports := [], bank := [], params := demoParams, moduleAcc := "storage",
    collateralAcc := "collateral", polAcc := "pol", feeAcc := "fee", blocked := [] }

/-- the state after bob's first (verified, chunk 0) proof at height 20; the chain drew 1 -/
def demoState1 : State := (postProof demoState 20 "bob" "aa" "alice" 10 0 true 1).state

example : chunkCount 2500 1024 = 3 := by decide
-- a newcomer's verified proof of chunk 0 is accepted; bob is listed, challenged with chunk 1
example : (postProof demoState 20 "bob" "aa" "alice" 10 0 true 1).success = true := by decide
example : AMap.get demoState1.files ("aa", "alice", 10)
    = some { demoFile with proofs := [("bob", "aa", "alice", 10)] } := by decide
example : AMap.get demoState1.proofs ("bob", "aa", "alice", 10)
    = some { prover := "bob", merkle := "aa", owner := "alice", start := 10, lastProven := 20,
             chunkToProve := 1 } := by decide
-- the same message with a Merkle proof that does not verify: rejected, nothing written
example : (postProof demoState 20 "bob" "aa" "alice" 10 0 false 1).success = false := by decide
example : (postProof demoState 20 "bob" "aa" "alice" 10 0 false 1).state = demoState := by decide
-- bob's next honest proof (of the stored challenge, chunk 1) is accepted and moves `lastProven`
example : (postProof demoState1 60 "bob" "aa" "alice" 10 1 true 0).success = true := by decide
example : ((AMap.get (postProof demoState1 60 "bob" "aa" "alice" 10 1 true 0).state.proofs
    ("bob", "aa", "alice", 10)).map (·.lastProven)) = some 60 := by decide
-- a verified proof of another chunk, an unverified one, a proof for an unknown file: all rejected
example : (postProof demoState1 60 "bob" "aa" "alice" 10 2 true 0).success = false := by decide
example : (postProof demoState1 60 "bob" "aa" "alice" 10 1 false 0).success = false := by decide
example : (postProof demoState1 60 "bob" "aa" "alice" 11 1 true 0).success = false := by decide
example : (postProof demoState1 60 "bob" "aa" "alice" 10 1 false 0).state = demoState1 := by decide

/-- the demo states satisfy the consistency hypothesis of the step/block theorems -/
theorem demoState_consistent : Consistent demoState := by
  refine ⟨by unfold AMap.WF; decide, ?_, ?_, ?_, ?_⟩
  · intro k f hf
    simp only [demoState, AMap.get] at hf
    split at hf
    · rename_i e; cases hf; exact e
    · cases hf
  · intro k f hf
    simp only [demoState, AMap.get] at hf
    split at hf
    · cases hf; intro pk hpk; simp [demoFile] at hpk
    · cases hf
  · intro pk p hp; simp [demoState] at hp
  · intro pk fm hfm; simp [demoState] at hfm

theorem demoState1_consistent : Consistent demoState1 :=
  consistent_step (s := demoState) (h := 20) (now := 0)
    (op := .postProof "bob" "aa" "alice" 10 0 true 1) demoState_consistent rfl

-- the hypotheses of `C01_prover_added_only_by_verified_proof` are satisfiable: this step adds bob
example : step demoState 20 0 (.postProof "bob" "aa" "alice" 10 0 true 1) = some demoState1 ∧
    AMap.get demoState.files ("aa", "alice", 10) = some demoFile ∧
    (∃ f', AMap.get demoState1.files ("aa", "alice", 10) = some f' ∧
      ("bob", "aa", "alice", 10) ∈ f'.proofs) ∧
    ("bob", "aa", "alice", 10) ∉ demoFile.proofs :=
  ⟨rfl, by decide, ⟨{ demoFile with proofs := [("bob", "aa", "alice", 10)] }, by decide, by decide⟩,
    by decide⟩

-- the hypotheses of `C01_lastProven_moves_only_by_valid_proof_or_quorum` are satisfiable
example : ∃ s', step demoState1 60 0 (.postProof "bob" "aa" "alice" 10 1 true 0) = some s' ∧
    ∃ p p', AMap.get demoState1.proofs ("bob", "aa", "alice", 10) = some p ∧
      AMap.get s'.proofs ("bob", "aa", "alice", 10) = some p' ∧ p.lastProven ≠ p'.lastProven :=
  ⟨_, rfl,
    { prover := "bob", merkle := "aa", owner := "alice", start := 10, lastProven := 20, chunkToProve := 1 },
    { prover := "bob", merkle := "aa", owner := "alice", start := 10, lastProven := 60, chunkToProve := 0 },
    by decide, by decide, by decide⟩

/-- Why `hrec` is needed in `C01_postProof_success_effect`: a record stored under bob's key but
naming "zed" keeps naming "zed" after bob's accepted proof (the handler only updates `lastProven`
and the challenge). -/
example :
    let s : State := { demoState1 with proofs := [(("bob", "aa", "alice", 10),
      { prover := "zed", merkle := "aa", owner := "alice", start := 10, lastProven := 20, chunkToProve := 1 })] }
    (postProof s 60 "bob" "aa" "alice" 10 1 true 0).success = true ∧
    (AMap.get (postProof s 60 "bob" "aa" "alice" 10 1 true 0).state.proofs
      ("bob", "aa", "alice", 10)).map (·.prover) = some "zed" := by
  decide

/-- a file stored under eve's key that carries the key of alice's file -/
def evilFile : File := { demoFile with maxProofs := 5 }
def evilState : State :=
  { demoState with files := [(("aa", "alice", 10), demoFile), (("bb", "eve", 10), evilFile)] }

/-- Why `hkey` is needed in `C01_prover_added_only_by_verified_proof`: if the file stored under
`("bb", "eve", 10)` carries the key of alice's file, a `postProof` *for eve's file* makes mallory a
prover of alice's file (the modified copy is written back under the key the file carries). -/
example :
    ∃ s' f', step evilState 20 0 (.postProof "mallory" "bb" "eve" 10 0 true 0) = some s' ∧
      AMap.get evilState.files ("aa", "alice", 10) = some demoFile ∧
      AMap.get s'.files ("aa", "alice", 10) = some f' ∧
      ("mallory", "aa", "alice", 10) ∈ f'.proofs ∧ ("mallory", "aa", "alice", 10) ∉ demoFile.proofs ∧
      ¬ ∃ nc, Op.postProof "mallory" "bb" "eve" 10 0 true 0
          = .postProof "mallory" "aa" "alice" 10 0 true nc := by
  refine ⟨_, { evilFile with proofs := [("mallory", "aa", "alice", 10)] }, rfl, by decide, by decide,
    by decide, by decide, ?_⟩
  rintro ⟨nc, h⟩
  simp at h


/-! ## 9. Along whole executions: prover status and payment presuppose an accepted proof -/

/-- the event "`pk.1` submitted, for the file `pk.2`, a Merkle proof that verified against the
file's root for the chunk it was challenged with (the initial challenge 0 for a newcomer)" -/
def ProvedIn (evs : List Event) (pk : PKey) : Prop :=
  ∃ h now nc, Event.msg h now (.postProof pk.1 pk.2.1 pk.2.2.1 pk.2.2.2 0 true nc) ∈ evs

theorem ProvedIn.cons {evs : List Event} {pk : PKey} (e : Event) (h : ProvedIn evs pk) :
    ProvedIn (e :: evs) pk := by
  obtain ⟨h1, now, nc, hm⟩ := h
  exact ⟨h1, now, nc, List.mem_cons_of_mem _ hm⟩

/-- one event: a proof key listed afterwards was listed before (for the same file key), or the event
is that account's verified proof for that file -/
theorem listed_after_event (s s' : State) (e : Event) (hc : Consistent s)
    (hs : applyEvent s e = some s') (k : FKey) (f' : File) (pk : PKey)
    (hf' : AMap.get s'.files k = some f') (hin : pk ∈ f'.proofs) :
    (∃ f, AMap.get s.files k = some f ∧ pk ∈ f.proofs) ∨ ProvedIn [e] pk := by
  cases e with
  | msg h now op =>
    simp only [applyEvent] at hs
    cases hg : AMap.get s.files k with
    | none =>
      have := (C01_new_file_has_no_provers s s' h now op hc.key hs k f' hg hf').1
      rw [this] at hin; cases hin
    | some f =>
      by_cases hold : pk ∈ f.proofs
      · exact Or.inl ⟨f, rfl, hold⟩
      · obtain ⟨hk, nc, hop⟩ :=
          C01_prover_added_only_by_verified_proof s s' h now op hc.key hs k f f' pk hg hf' hin hold
        right
        refine ⟨h, now, nc, ?_⟩
        subst hop
        obtain ⟨c, m, o, st⟩ := pk
        simp only at hk
        subst hk
        exact List.mem_singleton.mpr rfl
  | block h now =>
    simp only [applyEvent] at hs
    split at hs
    · rename_i s2 hb
      cases hs
      obtain ⟨hfiles, -⟩ := C01_beginBlock_never_adds_provers s s' h now hc hb
      obtain ⟨f, hf, -, -, hsub⟩ := hfiles k f' hf'
      exact Or.inl ⟨f, hf, hsub pk hin⟩
    · cases hs
  | setParams p =>
    simp only [applyEvent, Option.some.injEq] at hs
    subst hs
    exact Or.inl ⟨f', hf', hin⟩

/-- **Prover status presupposes an accepted proof, along every execution.**  Start from any
consistent state (the empty genesis state is one) and run any sequence of delivered messages,
begin-blockers and parameter changes.  Every account listed afterwards as a prover of a stored
file was already listed for that file at the start, or the execution contains a `postProof` by that
very account for that very file whose Merkle proof verified for the challenged chunk. -/
theorem C01_listed_provers_have_proven_along_histories (evs : List Event) :
    ∀ (s s' : State), Consistent s → evs.foldlM applyEvent s = some s' →
      ∀ k f' pk, AMap.get s'.files k = some f' → pk ∈ f'.proofs →
        (∃ f, AMap.get s.files k = some f ∧ pk ∈ f.proofs) ∨ ProvedIn evs pk := by
  induction evs with
  | nil =>
    intro s s' _ h k f' pk hf' hin
    simp only [List.foldlM_nil, pure, Option.some.injEq] at h
    subst h
    exact Or.inl ⟨f', hf', hin⟩
  | cons e evs ih =>
    intro s s' hc h k f' pk hf' hin
    simp only [List.foldlM_cons, bind, Option.bind_eq_some_iff] at h
    obtain ⟨s1, h1, h2⟩ := h
    have hc1 : Consistent s1 := consistent_run [e] s s1 hc (by simp [List.foldlM_cons, h1])
    rcases ih s1 s' hc1 h2 k f' pk hf' hin with ⟨f1, hf1, hin1⟩ | hp
    · rcases listed_after_event s s1 e hc h1 k f1 pk hf1 hin1 with hold | ⟨hh, now, nc, hm⟩
      · exact Or.inl hold
      · right
        refine ⟨hh, now, nc, ?_⟩
        rw [List.mem_singleton] at hm
        rw [hm]; exact List.mem_cons_self
    · exact Or.inr (hp.cons e)

/-- From genesis (no files): every listed prover has proven. -/
theorem C01_from_genesis_listed_provers_have_proven (evs : List Event) (s0 s' : State)
    (hc : Consistent s0) (hempty : s0.files = []) (hrun : evs.foldlM applyEvent s0 = some s')
    (k : FKey) (f' : File) (pk : PKey) (hf' : AMap.get s'.files k = some f') (hin : pk ∈ f'.proofs) :
    ProvedIn evs pk := by
  rcases C01_listed_provers_have_proven_along_histories evs s0 s' hc hrun k f' pk hf' hin with
    ⟨f, hf, -⟩ | hp
  · rw [hempty] at hf; cases hf
  · exact hp

/-- **No reward without a valid proof, along every execution.**  After any execution from genesis,
an account (other than the module account, which collects the gauge releases) whose balance grows
in a reward block has, somewhere in that execution, submitted a verifying proof of the challenged
chunk for a file it is listed on. -/
theorem C01_paid_only_after_valid_proof (evs : List Event) (s0 s s' : State) (h now : Int)
    (hc : Consistent s0) (hempty : s0.files = []) (hrun : evs.foldlM applyEvent s0 = some s)
    (hblock : manageRewards s h now = .ok s') (a d : String) (ha : a ≠ s.moduleAcc)
    (hgain : bal s.bank a d < bal s'.bank a d) :
    ∃ pk, pk.1 = a ∧ ProvedIn evs pk := by
  have hcs : Consistent s := consistent_run evs s0 s hc hrun
  rcases C01_block_pays_only_listed_provers s s' h now hcs hblock a d hgain with hm | ⟨kv, hkv, pk, hpk, p, hp, hpa⟩
  · exact absurd hm ha
  · have hget : AMap.get s.files kv.1 = some kv.2 :=
      (AMap.mem_iff_get_of_wf hcs.wf kv.1 kv.2).mp hkv
    refine ⟨pk, ?_, C01_from_genesis_listed_provers_have_proven evs s0 s hc hempty hrun kv.1 kv.2 pk hget hpk⟩
    rw [← hcs.record pk p hp]; exact hpa

/-- non-vacuity: an execution from the empty state in which bob becomes a prover of alice's file —
and the theorem's witness is his proof event -/
def genesisState : State := { demoState with files := [], files2 := [], proofs := [] }

theorem genesisState_consistent : Consistent genesisState := by
  refine ⟨by unfold AMap.WF; decide, ?_, ?_, ?_, ?_⟩ <;> intro a b h <;> simp [genesisState, demoState] at h

def demoRun : List Event := [.setParams demoParams, .msg 20 0 (.postProof "bob" "aa" "alice" 10 0 true 1)]

/-- the execution runs, bob ends up listed, he was not listed before, and the theorem's conclusion
is witnessed by his proof event -/
example : demoRun.foldlM applyEvent demoState = some demoState1 := rfl
example : ("bob", "aa", "alice", 10) ∈ demoFile.proofs → False := by decide
example : ProvedIn demoRun ("bob", "aa", "alice", 10) := by
  rcases C01_listed_provers_have_proven_along_histories demoRun demoState demoState1 demoState_consistent rfl
    ("aa", "alice", 10) { demoFile with proofs := [("bob", "aa", "alice", 10)] } ("bob", "aa", "alice", 10)
    (by decide) (by decide) with ⟨f, hf, hin⟩ | hp
  · have : f = demoFile := by
      have h2 : AMap.get demoState.files ("aa", "alice", 10) = some demoFile := by decide
      rw [h2] at hf; cases hf; rfl
    subst this
    exact absurd hin (by decide)
  · exact hp

end Canine.Storage
