/-
C18 — An inbox lists exactly the notifications sent to it, not blocked and not deleted.
-/
import Canine.Notif.Model
import Canine.Query.Notif
import Canine.Generated.KeyFacts
namespace Canine.Notif

/-- Shape invariant of the shared store: every record sits under the key built from its own
fields (notifications under to/from/time, block entries under owner/address). -/
def KeyInv (s : State) : Prop :=
  ∀ k e, (k, e) ∈ s.store →
    (∃ n, e = .notif n ∧ k = notifKey n.to n.sender n.time) ∨ (∃ o b, e = .block o b ∧ k = blockKey o b)

def Inv (s : State) : Prop := AMap.WF s.store ∧ KeyInv s

theorem mem_set_iff {K V : Type} [DecidableEq K] (m : AMap K V) (hwf : AMap.WF m) (k : K) (v : V)
    (k2 : K) (v2 : V) :
    (k2, v2) ∈ AMap.set m k v ↔ (k2 = k ∧ v2 = v) ∨ (k2 ≠ k ∧ (k2, v2) ∈ m) := by
  have hwf' := AMap.wf_set k v hwf
  constructor
  · intro h
    have hg := AMap.get_of_mem_wf hwf' h
    rw [AMap.get_set] at hg
    by_cases e : k = k2
    · subst e; simp at hg; left; exact ⟨rfl, hg.symm⟩
    · simp [e] at hg; right; exact ⟨fun x => e x.symm, AMap.mem_of_get hg⟩
  · rintro (⟨rfl, rfl⟩ | ⟨hne, hm⟩)
    · exact AMap.mem_of_get (AMap.get_set_self _ _ _)
    · apply AMap.mem_of_get
      rw [AMap.get_set_other _ _ _ _ (fun x => hne x.symm)]
      exact AMap.get_of_mem_wf hwf hm

theorem mem_erase_iff {K V : Type} [DecidableEq K] (m : AMap K V) (hwf : AMap.WF m) (k : K)
    (k2 : K) (v2 : V) :
    (k2, v2) ∈ AMap.erase m k ↔ k2 ≠ k ∧ (k2, v2) ∈ m := by
  have hwf' := AMap.wf_erase k hwf
  constructor
  · intro h
    have hg := AMap.get_of_mem_wf hwf' h
    rw [AMap.get_erase] at hg
    by_cases e : k = k2
    · simp [e] at hg
    · simp [e] at hg; exact ⟨fun x => e x.symm, AMap.mem_of_get hg⟩
  · rintro ⟨hne, hm⟩
    apply AMap.mem_of_get
    rw [AMap.get_erase_other _ _ _ (fun x => hne x.symm)]
    exact AMap.get_of_mem_wf hwf hm

/-- The listing of an address is exactly the stored notifications addressed to it. -/
theorem C18_inbox_membership (s : State) (hinv : Inv s) (a : String) (n : Notif) :
    n ∈ inbox s a ↔ (notifKey a n.sender n.time, Entry.notif n) ∈ s.store ∧ n.to = a := by
  obtain ⟨_, hk⟩ := hinv
  unfold inbox
  simp only [List.mem_map, List.mem_filter]
  constructor
  · rintro ⟨⟨k, e⟩, ⟨hm, hc⟩, rfl⟩
    rcases hk k e hm with ⟨n', rfl, rfl⟩ | ⟨o, b, rfl, rfl⟩
    · simp [notifKey, isNotificationKey] at hc
      simp only [asNotif]
      subst hc
      exact ⟨hm, rfl⟩
    · simp [blockKey, isNotificationKey] at hc
  · rintro ⟨hm, rfl⟩
    exact ⟨(_, _), ⟨hm, by simp [notifKey, isNotificationKey]⟩, rfl⟩

theorem inv_set_notif (s : State) (hinv : Inv s) (n : Notif) :
    Inv { s with store := AMap.set s.store (notifKey n.to n.sender n.time) (.notif n) } := by
  obtain ⟨wf, hk⟩ := hinv
  refine ⟨AMap.wf_set _ _ wf, ?_⟩
  intro k e hm
  rcases (mem_set_iff _ wf _ _ _ _).mp hm with ⟨rfl, rfl⟩ | ⟨_, hm'⟩
  · left; exact ⟨n, rfl, rfl⟩
  · exact hk k e hm'

theorem inv_set_block (s : State) (hinv : Inv s) (o b : String) :
    Inv { s with store := AMap.set s.store (blockKey o b) (.block o b) } := by
  obtain ⟨wf, hk⟩ := hinv
  refine ⟨AMap.wf_set _ _ wf, ?_⟩
  intro k e hm
  rcases (mem_set_iff _ wf _ _ _ _).mp hm with ⟨rfl, rfl⟩ | ⟨_, hm'⟩
  · right; exact ⟨o, b, rfl, rfl⟩
  · exact hk k e hm'

theorem inv_erase (s : State) (hinv : Inv s) (k : Key) :
    Inv { s with store := AMap.erase s.store k } := by
  obtain ⟨wf, hk⟩ := hinv
  refine ⟨AMap.wf_erase _ wf, ?_⟩
  intro k2 e hm
  exact hk k2 e ((mem_erase_iff _ wf _ _ _).mp hm).2

theorem blockAll_inv (c : String) : ∀ (ts : List (String × Option String)) (s s' : State),
    Inv s → blockAll s c ts = some s' → Inv s'
  | [], s, s', hinv, h => by simp [blockAll] at h; subst h; exact hinv
  | (_, none) :: _, s, s', _, h => by simp [blockAll] at h
  | (_, some addr) :: rest, s, s', hinv, h => by
    simp only [blockAll] at h
    exact blockAll_inv c rest _ s' (inv_set_block s hinv c addr) h

/-- Every message preserves the store invariant. -/
theorem C18_step_preserves_inv (s s' : State) (now : Int) (op : Op) (hinv : Inv s)
    (hstep : step s now op = some s') : Inv s' := by
  cases op with
  | create c raw r ct p j =>
    simp only [step, create, bind, Option.bind_eq_some_iff, req_eq_some] at hstep
    obtain ⟨_, _, to, _, _, _, _, _, hs⟩ := hstep
    simp only [Option.some.injEq] at hs; subst hs
    exact inv_set_notif s hinv { to := to, sender := c, time := now, contents := ct, priv := p }
  | delete c f t =>
    simp only [step, Option.some.injEq] at hstep; subst hstep
    exact inv_erase s hinv _
  | block c ts => exact blockAll_inv c ts s s' hinv hstep

/-- … along every history, starting from the empty store. -/
def run (s : State) : List (Int × Op) → State
  | [] => s
  | (now, op) :: rest => run (stepT s now op) rest

theorem C18_inv_along_histories (ops : List (Int × Op)) : ∀ s, Inv s → Inv (run s ops) := by
  induction ops with
  | nil => intro s h; exact h
  | cons p rest ih =>
    intro s h
    obtain ⟨now, op⟩ := p
    simp only [run]
    apply ih
    unfold stepT
    cases hs : step s now op with
    | none => simpa using h
    | some s' => simpa using C18_step_preserves_inv s s' now op h hs

theorem C18_inv_empty : Inv { store := [] } :=
  ⟨by simp [AMap.WF, AMap.keys], by intro k e h; simp at h⟩

/-- A successful send adds exactly the one notification, with the sender, time and contents
given, to the inbox of the address the target resolved to — and nothing to any other inbox. -/
theorem C18_create_delivers_exactly_one (s s' : State) (now : Int) (c raw : String)
    (r : Option String) (ct p : String) (j : Bool) (hinv : Inv s)
    (hstep : step s now (.create c raw r ct p j) = some s') :
    ∃ to, r = some to ∧ j = true ∧ isBlocked s to c = false ∧
      (∀ n, n ∈ inbox s to → ¬ (n.sender = c ∧ n.time = now)) ∧
      ∀ a n, n ∈ inbox s' a ↔
        n ∈ inbox s a ∨ (a = to ∧ n = { to := to, sender := c, time := now, contents := ct, priv := p }) := by
  have hinv' := C18_step_preserves_inv s s' now _ hinv hstep
  simp only [step, create, bind, Option.bind_eq_some_iff, req_eq_some] at hstep
  obtain ⟨_, hj, to, hr, _, hb, _, hex, hs⟩ := hstep
  simp only [Option.some.injEq] at hs; subst hs
  subst hr
  refine ⟨to, rfl, hj, hb, ?_, ?_⟩
  · intro n hn ⟨h1, h2⟩
    rw [C18_inbox_membership s hinv] at hn
    subst h1; subst h2
    have := AMap.get_of_mem_wf hinv.1 hn.1
    simp [AMap.contains, this] at hex
  · intro a n
    rw [C18_inbox_membership _ hinv', C18_inbox_membership s hinv]
    simp only
    rw [mem_set_iff _ hinv.1]
    constructor
    · rintro ⟨(⟨hk, hv⟩ | ⟨_, hm⟩), hto⟩
      · right
        simp only [Entry.notif.injEq] at hv
        simp only [notifKey, List.cons.injEq, Seg.s.injEq] at hk
        exact ⟨hk.1, hv⟩
      · left; exact ⟨hm, hto⟩
    · rintro (⟨hm, hto⟩ | ⟨rfl, rfl⟩)
      · refine ⟨?_, hto⟩
        by_cases hk : notifKey a n.sender n.time = notifKey to c now
        · exfalso
          have := AMap.get_of_mem_wf hinv.1 hm
          rw [hk] at this
          simp [AMap.contains, this] at hex
        · right; exact ⟨hk, hm⟩
      · exact ⟨Or.inl ⟨rfl, rfl⟩, rfl⟩

/-- A sender blocked by the recipient at send time cannot deliver. -/
theorem C18_blocked_sender_cannot_deliver (s : State) (now : Int) (c raw to ct p : String) (j : Bool)
    (hb : isBlocked s to c = true) : step s now (.create c raw (some to) ct p j) = none := by
  cases hs : step s now (.create c raw (some to) ct p j) with
  | none => rfl
  | some s' =>
    simp only [step, create, bind, Option.bind_eq_some_iff, req_eq_some] at hs
    obtain ⟨_, _, to', hr, _, hb', _⟩ := hs
    simp only [Option.some.injEq] at hr; subst hr
    rw [hb] at hb'; cases hb'

/-- Deleting touches only the signer's own inbox, and there only the entry with the given sender
and time. -/
theorem C18_delete_only_own_entry (s : State) (now : Int) (c : String) (segs : List String) (t : Int)
    (hinv : Inv s) (a : String) (n : Notif) :
    n ∈ inbox (stepT s now (.delete c segs t)) a ↔
      n ∈ inbox s a ∧ ¬ (a = c ∧ segs = [n.sender] ∧ n.time = t) := by
  have hs : step s now (.delete c segs t) = some (delete s c segs t) := rfl
  have hinv' := C18_step_preserves_inv s _ now _ hinv hs
  simp only [stepT, hs, Option.getD_some]
  rw [C18_inbox_membership _ hinv', C18_inbox_membership s hinv]
  simp only [delete]
  rw [mem_erase_iff _ hinv.1]
  constructor
  · rintro ⟨⟨hne, hm⟩, hto⟩
    refine ⟨⟨hm, hto⟩, ?_⟩
    rintro ⟨rfl, rfl, rfl⟩
    exact hne (by simp [notifKey])
  · rintro ⟨⟨hm, hto⟩, hno⟩
    refine ⟨⟨?_, hm⟩, hto⟩
    intro hk
    apply hno
    simp only [notifKey, List.cons_append, List.nil_append, List.cons.injEq, Seg.s.injEq] at hk
    obtain ⟨h1, h2⟩ := hk
    refine ⟨h1, ?_⟩
    match segs, h2 with
    | [], h2 => simp at h2
    | [x], h2 => simp at h2; exact ⟨by rw [h2.1], h2.2⟩
    | x :: y :: rest, h2 => simp at h2

theorem blockAll_inbox (c : String) : ∀ (ts : List (String × Option String)) (s s' : State),
    Inv s → blockAll s c ts = some s' → ∀ a n, n ∈ inbox s' a ↔ n ∈ inbox s a
  | [], s, s', _, h => by simp [blockAll] at h; subst h; intro a n; rfl
  | (_, none) :: _, s, s', _, h => by simp [blockAll] at h
  | (_, some addr) :: rest, s, s', hinv, h => by
    simp only [blockAll] at h
    intro a n
    have hinv1 := inv_set_block s hinv c addr
    rw [blockAll_inbox c rest _ s' hinv1 h a n, C18_inbox_membership _ hinv1, C18_inbox_membership s hinv]
    simp only
    rw [mem_set_iff _ hinv.1]
    constructor
    · rintro ⟨(⟨hk, _⟩ | ⟨_, hm⟩), hto⟩
      · simp [notifKey, blockKey] at hk
      · exact ⟨hm, hto⟩
    · rintro ⟨hm, hto⟩
      exact ⟨Or.inr ⟨by simp [notifKey, blockKey], hm⟩, hto⟩

/-- Blocking never makes an entry appear in (or disappear from) any inbox. -/
theorem C18_block_changes_no_inbox (s s' : State) (now : Int) (c : String)
    (ts : List (String × Option String)) (hinv : Inv s) (hstep : step s now (.block c ts) = some s') :
    ∀ a n, n ∈ inbox s' a ↔ n ∈ inbox s a :=
  blockAll_inbox c ts s s' hinv hstep

/-- Regression witness for the repaired defect: without the key-shape filter a block entry is
listed as a phantom notification (time 0) in the blocker's inbox; with it the inbox is empty. -/
def blockedState : State := { store := [(blockKey "alice" "bob", .block "alice" "bob")] }
example : inboxUnfixed blockedState "alice" = [{ to := "alice", sender := "bob", time := 0, contents := "", priv := "" }] := by decide
example : inbox blockedState "alice" = [] := by decide
/-- non-vacuity: the invariant holds of that state and a send from carol succeeds while bob's fails -/
example : Inv blockedState := by
  refine ⟨by simp [AMap.WF, AMap.keys, blockedState], ?_⟩
  intro k e h
  simp [blockedState] at h
  right; exact ⟨"alice", "bob", h.2, h.1⟩
example : (step blockedState 7 (.create "carol" "alice" (some "alice") "{}" "" true)).isSome = true := by decide
example : step blockedState 7 (.create "bob" "alice" (some "alice") "{}" "" true) = none := by decide

/-! ## The store keys as they stand in the source (regenerated fact) -/

/-- The inbox theorems tell notification entries (`to/from/time`) from block entries (`owner/blocked`) by the shape of their keys under the shared prefix.  Fingerprints of the key constructors of x/notifications/types/key*.go as the
model was written against them; `Generated.keyFns_notifications` is recomputed from the source on every
run (the declarations are listed in Generated/KeyFacts.lean). -/
def C18_expectedKeys : List (String × String) := [
  ("x/notifications/types/key_notifications.go:var _…", "9f4fce2c5ae85adc"),
  ("x/notifications/types/key_notifications.go:const NotificationsKeyPrefix…", "f955c359fa031f3b"),
  ("x/notifications/types/key_notifications.go:NotificationsKey", "7ea6422a0221239d"),
  ("x/notifications/types/key_notifications.go:BlockKey", "1ae5b03dec6f8eae"),
  ("x/notifications/types/key_notifications.go:IsNotificationKey", "8c06cab11b0d19b9"),
  ("x/notifications/types/keys.go:const ModuleName…", "7ed3769dc4c890d8"),
  ("x/notifications/types/keys.go:KeyPrefix", "caccc65e7667915d")]

theorem C18_store_keys_as_modelled : Generated.keyFns_notifications = C18_expectedKeys := by decide

/-! ### The inbox as clients read it (`AllNotificationsByAddress`) -/

/-- cutting a list into consecutive windows of `limit` and gluing them back gives the list -/
theorem windows_cover {α : Type} (limit : Nat) (hl : 0 < limit) :
    ∀ (n : Nat) (all : List α), all.length ≤ n * limit →
      (List.range n).flatMap (fun k => (all.drop (k * limit)).take limit) = all := by
  intro n
  induction n with
  | zero => intro all h; simp at h; simp [h]
  | succ n ih =>
    intro all h
    rw [List.range_succ_eq_map, List.flatMap_cons, List.flatMap_map]
    simp only [Nat.zero_mul, List.drop_zero]
    have hrest : (List.range n).flatMap (fun k => (all.drop ((k + 1) * limit)).take limit) = all.drop limit := by
      have := ih (all.drop limit) (by simp only [List.length_drop]; rw [Nat.succ_mul] at h; omega)
      rw [← this]
      congr 1
      funext k
      rw [List.drop_drop, Nat.succ_mul, Nat.add_comm]
    simp only [Function.comp, Nat.succ_eq_add_one]
    rw [hrest, List.take_append_drop]

/-- **One page of the inbox query**: with a positive limit and an offset that is a multiple of it,
`AllNotificationsByAddress` returns that window of the inbox (the notification-shaped entries
under `to/`, in key order), counts what it returns and hands out no `NextKey`. -/
theorem C18_inbox_query_page (s : State) (to : String) (k limit : Nat) (hl : 0 < limit)
    (hk : k * limit ≤ (Query.inboxRaw s to).length) :
    Query.run s (.byAddress to (some { offset := k * limit, limit := limit })) =
      .notifs (((Query.inboxRaw s to).drop (k * limit)).take limit) none
        (((Query.inboxRaw s to).drop (k * limit)).take limit).length := by
  have hne : ¬ limit = 0 := by omega
  simp only [Query.run, hne, if_false, Nat.mul_div_cancel _ hl]
  have : ¬ k * limit > (Query.inboxRaw s to).length := by omega
  simp [this]

/-- **Paging through the inbox query returns the whole inbox, each entry once**: the pages with
offsets 0, limit, 2·limit, … glued together are exactly the inbox listing. -/
theorem C18_inbox_query_pages_cover_the_inbox (s : State) (to : String) (limit n : Nat) (hl : 0 < limit)
    (hn : (Query.inboxRaw s to).length ≤ n * limit) :
    (List.range n).flatMap (fun k => ((Query.inboxRaw s to).drop (k * limit)).take limit) = Query.inboxRaw s to :=
  windows_cover limit hl n _ hn

end Canine.Notif
