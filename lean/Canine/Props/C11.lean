/-
C11 — Every message is authenticated as its creator and touches only its own resources.

Part 1 (regenerated facts): obligations over `Canine.Generated.msgFacts`, the table of every
registered message type of the custom modules extracted from the running app on every check.
Part 2: frame theorems over the module models — provider records, oracle feeds, inboxes and block
lists, primary names, storage-file deletion, and the wasm binding's guard.
-/
import Canine.Generated.MsgFacts
import Canine.Storage.Wasm
import Canine.Oracle.Model
import Canine.Notif.Model
import Canine.Rns.Model
namespace Canine

open Generated in
/-- every registered message has exactly one signer, the account in its `Creator` field -/
theorem C11_signers_are_creator :
    msgFacts.all (fun m => m.nSigners == 1 && m.signerFields == ["Creator"]) = true := by decide

open Generated in
/-- every registered message routes to a handler -/
theorem C11_registered_and_routable : msgFacts.all (fun m => m.routable) = true := by decide

open Generated in
/-- the table is not empty and has no duplicate type URLs (one row per message type) -/
theorem C11_table_nonempty_nodup :
    (0 < msgFacts.length ∧ (msgFacts.map (·.url)).Nodup) := by decide

namespace Storage

/-- the seven provider-management messages -/
def Op.isProviderOp : Op → Bool
  | .initProvider .. | .shutdownProvider .. | .setProviderIP .. | .setProviderKeybase ..
  | .setProviderTotalSpace .. | .addClaimer .. | .removeClaimer .. => true
  | _ => false

/-- Provider-management messages touch no provider record but the creator's. -/
theorem C11_provider_ops_touch_only_creator_record (s s' : State) (h now : Int) (op : Op)
    (hop : op.isProviderOp = true) (hstep : step s h now op = some s') (a : String)
    (ha : a ≠ op.creator) : AMap.get s'.providers a = AMap.get s.providers a := by
  have hne : op.creator ≠ a := fun e => ha e.symm
  cases op <;> simp only [Op.isProviderOp] at hop <;> try (exact absurd hop (by decide))
  case initProvider c ip kb ts iv =>
    simp only [step, initProvider, bind, Option.bind_eq_some_iff, req_eq_some] at hstep
    obtain ⟨_, _, _, _, _, _, coins, _, b1, _, hs⟩ := hstep
    simp only [Option.some.injEq] at hs; subst hs
    exact AMap.get_set_other _ _ _ _ hne
  case shutdownProvider c =>
    simp only [step, shutdownProvider, bind, Option.bind_eq_some_iff, req_eq_some] at hstep
    obtain ⟨_, _, hs⟩ := hstep
    split at hs
    · simp only [bind, Option.bind_eq_some_iff, req_eq_some] at hs
      obtain ⟨_, _, coins, _, b1, _, hs⟩ := hs
      simp only [Option.some.injEq] at hs; subst hs
      exact AMap.get_erase_other _ _ _ hne
    · simp only [Option.some.injEq] at hs; subst hs
      exact AMap.get_erase_other _ _ _ hne
  case setProviderIP c ip iv =>
    simp only [step] at hstep
    split at hstep
    · simp only [updProvider, bind, Option.bind_eq_some_iff] at hstep
      obtain ⟨p, _, p', _, hs⟩ := hstep
      simp only [Option.some.injEq] at hs; subst hs
      exact AMap.get_set_other _ _ _ _ hne
    · simp at hstep
  case setProviderKeybase c kb =>
    simp only [step, updProvider, bind, Option.bind_eq_some_iff] at hstep
    obtain ⟨p, _, p', _, hs⟩ := hstep
    simp only [Option.some.injEq] at hs; subst hs
    exact AMap.get_set_other _ _ _ _ hne
  case setProviderTotalSpace c sp =>
    simp only [step, updProvider, bind, Option.bind_eq_some_iff] at hstep
    obtain ⟨p, _, p', _, hs⟩ := hstep
    simp only [Option.some.injEq] at hs; subst hs
    exact AMap.get_set_other _ _ _ _ hne
  case addClaimer c cl =>
    simp only [step, updProvider, bind, Option.bind_eq_some_iff] at hstep
    obtain ⟨p, _, p', _, hs⟩ := hstep
    simp only [Option.some.injEq] at hs; subst hs
    exact AMap.get_set_other _ _ _ _ hne
  case removeClaimer c cl =>
    simp only [step, updProvider, bind, Option.bind_eq_some_iff] at hstep
    obtain ⟨p, _, p', _, hs⟩ := hstep
    simp only [Option.some.injEq] at hs; subst hs
    exact AMap.get_set_other _ _ _ _ hne

/-- The setters need the creator to be a registered provider: nobody else's record is consulted. -/
theorem C11_setters_require_own_record (s s' : State) (h now : Int) (op : Op)
    (hop : op.isProviderOp = true) (hnot : ∀ c ip kb ts iv, op ≠ .initProvider c ip kb ts iv)
    (hstep : step s h now op = some s') : (AMap.get s.providers op.creator).isSome := by
  cases op <;> simp only [Op.isProviderOp] at hop <;> try (exact absurd hop (by decide))
  case initProvider c ip kb ts iv => exact absurd rfl (hnot c ip kb ts iv)
  case shutdownProvider c =>
    simp only [step, shutdownProvider, bind, Option.bind_eq_some_iff, req_eq_some] at hstep
    obtain ⟨_, hc, _⟩ := hstep
    simpa [AMap.contains, Op.creator] using hc
  case setProviderIP c ip iv =>
    simp only [step] at hstep
    split at hstep
    · simp only [updProvider, bind, Option.bind_eq_some_iff] at hstep
      obtain ⟨p, hp, _⟩ := hstep
      simp [Op.creator, hp]
    · simp at hstep
  all_goals
    simp only [step, updProvider, bind, Option.bind_eq_some_iff] at hstep
    obtain ⟨p, hp, _⟩ := hstep
    simp [Op.creator, hp]

/-- Deleting a storage file removes only files whose owner field is the signer: the key that
`deleteFile` removes has the creator as its owner component. -/
theorem C11_storage_delete_only_own_files (s : State) (c m : String) (st : Int) (k : FKey)
    (hk : k.2.1 ≠ c) :
    AMap.get (deleteFile s c m st).files k = AMap.get s.files k ∧
    AMap.get (deleteFile s c m st).files2 k = AMap.get s.files2 k := by
  have hne : (m, c, st) ≠ k := by
    intro e; apply hk; rw [← e]
  unfold deleteFile removeFile
  split
  · exact ⟨rfl, rfl⟩
  · exact ⟨AMap.get_erase_other _ _ _ hne, AMap.get_erase_other _ _ _ hne⟩

/-- A contract can post storage files only in its own name. -/
theorem C11_wasm_post_requires_creator_eq_contract (s s' : State) (h now : Int) (contract : String)
    (op : Op) (hstep : wasmPostFile s h now contract op = some s') :
    op.creator = contract ∧ step s h now op = some s' ∧ ∃ m fs mp ex pt n nv jp gi ga,
      op = .postFile contract m fs mp ex pt n nv jp gi ga := by
  unfold wasmPostFile at hstep
  split at hstep
  · rename_i c m fs mp ex pt n nv jp gi ga
    split at hstep
    · rename_i hc
      subst hc
      exact ⟨rfl, hstep, m, fs, mp, ex, pt, n, nv, jp, gi, ga, rfl⟩
    · simp at hstep
  · simp at hstep

end Storage

namespace Oracle

/-- Only the account recorded as a feed's owner (its creator) can change it; an update touches
that one feed; a creation never overwrites an existing feed and records the signer as owner. -/
theorem C11_update_feed_requires_feed_owner (s s' : State) (now : Int) (c n d : String)
    (hstep : step s now (.updateFeed c n d) = some s') :
    ∃ f, AMap.get s.feeds n = some f ∧ f.owner = c ∧
      AMap.get s'.feeds n = some { f with data := d, lastUpdate := now } ∧
      (∀ k, k ≠ n → AMap.get s'.feeds k = AMap.get s.feeds k) ∧ s'.bank = s.bank := by
  simp only [step, bind, Option.bind_eq_some_iff, req_eq_some] at hstep
  obtain ⟨f, hf, _, ho, hs⟩ := hstep
  simp only [Option.some.injEq] at hs; subst hs
  exact ⟨f, hf, ho, by simp, fun k hk => AMap.get_set_other _ _ _ _ (fun e => hk e.symm), rfl⟩

theorem C11_create_feed_never_overwrites (s s' : State) (now : Int) (c n : String)
    (hstep : step s now (.createFeed c n) = some s') :
    AMap.get s.feeds n = none ∧ (∃ f, AMap.get s'.feeds n = some f ∧ f.owner = c) ∧
      ∀ k, k ≠ n → AMap.get s'.feeds k = AMap.get s.feeds k := by
  simp only [step, bind, Option.bind_eq_some_iff, req_eq_some] at hstep
  obtain ⟨_, hnew, b1, _, dep, _, _, _, b2, _, hs⟩ := hstep
  simp only [Option.some.injEq] at hs; subst hs
  refine ⟨?_, ⟨_, AMap.get_set_self _ _ _, rfl⟩, fun k hk => AMap.get_set_other _ _ _ _ (fun e => hk e.symm)⟩
  simp only [AMap.contains] at hnew
  cases hg : AMap.get s.feeds n with
  | none => rfl
  | some x => simp [hg] at hnew

/-- hence along any history a feed's owner never changes once created -/
theorem C11_feed_owner_is_stable (s s' : State) (now : Int) (op : Op) (n : String) (f : Feed)
    (hf : AMap.get s.feeds n = some f) (hstep : step s now op = some s') :
    ∃ f', AMap.get s'.feeds n = some f' ∧ f'.owner = f.owner := by
  cases op with
  | createFeed c n2 =>
    obtain ⟨hnone, _, hother⟩ := C11_create_feed_never_overwrites s s' now c n2 hstep
    have : n ≠ n2 := by intro e; subst e; rw [hnone] at hf; cases hf
    exact ⟨f, by rw [hother n this]; exact hf, rfl⟩
  | updateFeed c n2 d =>
    obtain ⟨f2, hf2, _, hnew, hother, _⟩ := C11_update_feed_requires_feed_owner s s' now c n2 d hstep
    by_cases e : n = n2
    · subst e; rw [hf] at hf2; cases hf2
      exact ⟨_, hnew, rfl⟩
    · exact ⟨f, by rw [hother n e]; exact hf, rfl⟩

end Oracle

namespace Notif

/-- Deleting a notification removes only a key that starts with the signer's own address;
blocking writes only keys that start with the signer's own address. -/
theorem C11_delete_only_own_inbox (s : State) (c : String) (segs : List String) (t : Int) (k : Key)
    (hk : k.head? ≠ some (.s c)) :
    AMap.get (delete s c segs t).store k = AMap.get s.store k := by
  unfold delete
  apply AMap.get_erase_other
  intro e
  apply hk
  rw [← e]; simp

theorem C11_block_only_own_list (c : String) : ∀ (ts : List (String × Option String)) (s s' : State),
    blockAll s c ts = some s' → ∀ k : Key, k.head? ≠ some (.s c) →
      AMap.get s'.store k = AMap.get s.store k
  | [], s, s', h, k, _ => by simp [blockAll] at h; subst h; rfl
  | (_, none) :: _, s, s', h, _, _ => by simp [blockAll] at h
  | (_, some addr) :: rest, s, s', h, k, hk => by
    simp only [blockAll] at h
    rw [C11_block_only_own_list c rest _ s' h k hk]
    apply AMap.get_set_other
    intro e; apply hk; rw [← e]; simp [blockKey]

end Notif

namespace Rns

/-- MakePrimary sets only the signer's own primary-name record. -/
theorem C11_make_primary_only_own (s s' : State) (h : Int) (c raw n : String)
    (hstep : step s h (.makePrimary c raw n) = some s') (a : String) (ha : a ≠ c) :
    AMap.get s'.primary a = AMap.get s.primary a ∧ s'.names = s.names ∧ s'.bank = s.bank := by
  unfold step at hstep
  split at hstep
  case isFalse => cases hstep
  simp only [Option.bind_eq_some_iff] at hstep
  obtain ⟨cc, -, hstep⟩ := hstep
  simp only [handle, makePrimary, bind, Option.bind_eq_some_iff] at hstep
  obtain ⟨⟨nm, tld⟩, -, hs⟩ := hstep
  simp only [Option.some.injEq] at hs; subst hs
  exact ⟨AMap.get_set_other _ _ _ _ (fun e => ha e.symm), rfl, rfl⟩

end Rns
end Canine
