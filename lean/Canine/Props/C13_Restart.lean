/-
C13 — Block emission is non-increasing … : **across a restart of the network from its exported genesis.**

`Props/C13.lean` proves that consecutive emissions of one application are non-increasing.  A restart
from the exported genesis starts a fresh application whose only memory of the emission is the record
the genesis carries (repaired defect: the pinned commit carried none, and the first block after a
restart restarted the emission from `TokensPerBlock`).  Here, on the concrete jklmint store model of
`Canine/Genesis/Modules.lean`: the block after export → import emits exactly what the block after
no restart would have emitted, hence at most the last emission before the restart and never a negative
amount.  Supplementary module (it needs the genesis proof family next to C13's own lemmas).
-/
import Canine.Props.C13
import Canine.Proofs.GenesisModules
namespace Canine.Genesis
open Canine.Mint

/-- **C13 across a restart.**  For every emission-record store satisfying its invariant and every
balances state: the first `BlockMint` of the application initialised from the exported genesis mints
exactly what the next `BlockMint` of the original application mints, to the same accounts. -/
theorem C13_restart_emits_what_no_restart_emits (c : Mint.Store) (h : Mint.Inv c) (bal : Canine.Mint.State) :
    (Mint.beginBlock (Mint.initGenesis (Mint.blank c) (Mint.exportGenesis c)) bal).2 = (Mint.beginBlock c bal).2 := by
  simp only [Mint.beginBlock, Mint.height_roundtrip c, Mint.params_roundtrip c, Mint.lastOf_roundtrip c h]

/-- the amount minted by the next block over a store -/
def nextEmission (c : Mint.Store) : Int := nextMint ((Mint.lastOf c (c.height + 1)).getD c.params.tokensPerBlock) c.params.mintDecrease

/-- **C13 across a restart (non-increasing, non-negative).**  When the last block recorded an emission
`m ≥ 0` and the decrease parameter is non-negative, the block after the restart emits at most `m`
and at least `0`. -/
theorem C13_emission_across_restart_nonincreasing (c : Mint.Store) (h : Mint.Inv c) (m : Int)
    (hlast : Mint.lastOf c (c.height + 1) = some m) (hm : 0 ≤ m) (hd : 0 ≤ c.params.mintDecrease) :
    let c' := Mint.initGenesis (Mint.blank c) (Mint.exportGenesis c)
    nextEmission c' = nextEmission c ∧ 0 ≤ nextEmission c' ∧ nextEmission c' ≤ m := by
  have e1 : (Mint.initGenesis (Mint.blank c) (Mint.exportGenesis c)).height = c.height := Mint.height_roundtrip c
  have e2 : (Mint.initGenesis (Mint.blank c) (Mint.exportGenesis c)).params = c.params := Mint.params_roundtrip c
  have e3 := Mint.lastOf_roundtrip c h
  have heq : nextEmission (Mint.initGenesis (Mint.blank c) (Mint.exportGenesis c)) = nextEmission c := by
    unfold nextEmission
    rw [e1, e2, e3]
  refine ⟨heq, ?_, ?_⟩
  · rw [heq]; exact C13_next_nonneg _ _
  · rw [heq]; unfold nextEmission; rw [hlast]; exact C13_next_le_prev m _ hm hd

/-- non-vacuity: a store holding the records of heights 8 and 9 at height 9 -/
def exStore : Mint.Store :=
  { params := { tokensPerBlock := 4200000, mintDecrease := 6, stakerRatio := 80, devGrantsRatio := 8, providerRatio := 12 },
    minted := [(Mint.mintedKey 8, { height := 8, minted := 4199990, denom := "ujkl" }),
               (Mint.mintedKey 9, { height := 9, minted := 4199989, denom := "ujkl" })],
    height := 9 }

example : Mint.lastOf exStore (exStore.height + 1) = some 4199989 ∧ (0 : Int) ≤ 4199989 ∧ 0 ≤ exStore.params.mintDecrease := by
  decide

end Canine.Genesis
