/-
C19 — Exporting and re-importing genesis preserves every custom module's state.
Four record kinds that the pinned commit did not carry (storage FileProof, rns PrimaryName,
notifications Block, the jklmint emission record) were repaired in /repo and are carried now; the
one remaining exception is the *history* of jklmint's per-height emission records, of which the
genesis carries the newest only (recorded finding).  Proved here: the round trip of every kind a
genesis carries, for any store; the exact fate of a latest-only kind.
-/
import Canine.Genesis.Model
namespace Canine.Genesis

variable {V : Type}

/-- setting a fresh key appends -/
theorem set_fresh (m : AMap String V) (k : String) (v : V) (h : k ∉ AMap.keys m) :
    AMap.set m k v = m ++ [(k, v)] := by
  induction m with
  | nil => rfl
  | cons p t ih =>
    obtain ⟨k', v'⟩ := p
    simp only [AMap.keys, List.map_cons, List.mem_cons, not_or] at h
    have hne : ¬ k' = k := fun e => h.1 e.symm
    simp only [AMap.set, hne, if_false, List.cons_append]
    rw [ih (by simpa [AMap.keys] using h.2)]

theorem foldl_set_fresh (keyOf : V → String) :
    ∀ (l acc : AMap String V), (∀ k v, (k, v) ∈ l → keyOf v = k) →
      (AMap.keys (acc ++ l)).Nodup →
      (AMap.vals l).foldl (fun a v => AMap.set a (keyOf v) v) acc = acc ++ l
  | [], acc, _, _ => by simp [AMap.vals]
  | (k, v) :: t, acc, hk, hnd => by
    have hkv : keyOf v = k := hk k v (by simp)
    simp only [AMap.vals, List.map_cons, List.foldl_cons, hkv]
    have hfresh : k ∉ AMap.keys acc := by
      simp only [AMap.keys, List.map_append, List.map_cons] at hnd
      rw [List.nodup_append] at hnd
      intro hin
      exact hnd.2.2 k hin k (by simp) rfl
    rw [set_fresh acc k v hfresh]
    have := foldl_set_fresh keyOf t (acc ++ [(k, v)]) (fun k' v' h => hk k' v' (List.mem_cons_of_mem _ h))
      (by simpa [List.append_assoc] using hnd)
    simpa [AMap.vals, List.append_assoc] using this

/-- **Round trip of one record kind.**  For every store of a kind whose entries sit under the key
built from their own fields (the invariant every `Set…` maintains) and whose keys are distinct,
exporting the values and importing them into an empty store gives back the identical store —
same keys, same values, same order. -/
theorem C19_roundtrip_kind (keyOf : V → String) (m : AMap String V) (hwf : AMap.WF m)
    (hkey : ∀ k v, (k, v) ∈ m → keyOf v = k) :
    importKind keyOf (exportKind m) = m := by
  have := foldl_set_fresh keyOf m [] hkey (by simpa [AMap.WF] using hwf)
  simpa [importKind, exportKind] using this

/-- **Exporting again yields the same genesis** for every carried kind. -/
theorem C19_export_idempotent (keyOf : V → String) (m : AMap String V) (hwf : AMap.WF m)
    (hkey : ∀ k v, (k, v) ∈ m → keyOf v = k) :
    exportKind (importKind keyOf (exportKind m)) = exportKind m := by
  rw [C19_roundtrip_kind keyOf m hwf hkey]

/-- The exported list passes the duplicate-index validation of `GenesisState.Validate`. -/
theorem C19_validate_accepts_export (keyOf : V → String) (m : AMap String V) (hwf : AMap.WF m)
    (hkey : ∀ k v, (k, v) ∈ m → keyOf v = k) :
    ((exportKind m).map keyOf).Nodup := by
  have : (exportKind m).map keyOf = AMap.keys m := by
    simp only [exportKind, AMap.vals, AMap.keys, List.map_map]
    apply List.map_congr_left
    intro p hp
    exact hkey p.1 p.2 hp
  rw [this]; exact hwf

/-- A kind that no genesis carries is lost: the imported module has no record of it, whatever
the store held.  (This was the model of the four repaired findings; `omittedKinds` is empty now.) -/
theorem C19_omitted_kind_lost (keyOf : V → String) (m : AMap String V) (hne : m ≠ []) :
    importKind keyOf ([] : List V) ≠ m := by
  simp [importKind]; exact fun h => hne h

/-- the tables are consistent: no kind is both carried and omitted (a finite check over the table) -/
theorem C19_tables_disjoint :
    (exportedKinds.all (fun p => p.2.all (fun k => !(lookup omittedKinds p.1).contains k))) = true := by
  decide

/-- every record kind the custom modules write is accounted for: carried, latest-only or derived;
none is omitted any more -/
theorem C19_no_kind_omitted : omittedKinds = [] := rfl

/-- **Fate of a latest-only kind** (jklmint's per-height emission records): the import holds
exactly the record of the last height when the store had one — in particular the record the next
block reads survives — and nothing else. -/
theorem C19_latest_only_roundtrip (keyOf : V → String) (m : AMap String V) (lastKey : String) (v : V)
    (hget : AMap.get m lastKey = some v) (hkey : keyOf v = lastKey) :
    importKind keyOf (exportLatest m lastKey) = [(lastKey, v)] := by
  simp [importKind, exportLatest, hget, AMap.set, hkey]

theorem C19_latest_only_empty (keyOf : V → String) (m : AMap String V) (lastKey : String)
    (hget : AMap.get m lastKey = none) :
    importKind keyOf (exportLatest m lastKey) = [] := by
  simp [importKind, exportLatest, hget]

/-- the record the next block reads (that of the last height) is readable after the import with
the same value -/
theorem C19_latest_record_survives (keyOf : V → String) (m : AMap String V) (lastKey : String) (v : V)
    (hget : AMap.get m lastKey = some v) (hkey : keyOf v = lastKey) :
    AMap.get (importKind keyOf (exportLatest m lastKey)) lastKey = some v := by
  rw [C19_latest_only_roundtrip keyOf m lastKey v hget hkey]; simp [AMap.get]

/-- older records of a latest-only kind are lost (the remaining recorded finding) -/
theorem C19_latest_only_loses_history (keyOf : V → String) (m : AMap String V) (lastKey k : String) (v : V)
    (hget : AMap.get m lastKey = some v) (hkey : keyOf v = lastKey) (hk : k ≠ lastKey) :
    AMap.get (importKind keyOf (exportLatest m lastKey)) k = none := by
  rw [C19_latest_only_roundtrip keyOf m lastKey v hget hkey]
  simp [AMap.get]; exact fun h => hk h.symm

/-- non-vacuity: a two-record store of names keyed by "name.tld" round-trips -/
example : importKind (fun (v : String × Nat) => v.1 ++ ".jkl") (exportKind [("a.jkl", ("a", 1)), ("b.jkl", ("b", 2))])
    = [("a.jkl", ("a", 1)), ("b.jkl", ("b", 2))] := by decide

end Canine.Genesis
