/-
C19 — Exporting and re-importing genesis preserves every custom module's state.
Four record kinds that the pinned commit did not carry (storage FileProof, rns PrimaryName,
notifications Block, the jklmint emission record) were repaired in /repo and are carried now; the
one remaining exception is the *history* of jklmint's per-height emission records, of which the
genesis carries the newest only (recorded finding).  Proved here: the round trip of every kind a
genesis carries, for any store; the exact fate of a latest-only kind.
-/
import Canine.Genesis.Model
import Canine.Proofs.GenesisModules
import Canine.Proofs.GenesisStorageInv
namespace Canine.Genesis

variable {V : Type}

/-- setting a fresh key appends -/
theorem set_fresh (m : AMap String V) (k : String) (v : V) (h : k ∉ AMap.keys m) :
    AMap.set m k v = m ++ [(k, v)] := by
  induction m with
  | nil => rfl
  | cons p t ih =>
    obtain ⟨k', v'⟩ := p
    simp only [AMap.keys, List.map_cons, List.mem_cons, not_or] at h
    have hne : ¬ k' = k := fun e => h.1 e.symm
    simp only [AMap.set, hne, if_false, List.cons_append]
    rw [ih (by simpa [AMap.keys] using h.2)]

theorem foldl_set_fresh (keyOf : V → String) :
    ∀ (l acc : AMap String V), (∀ k v, (k, v) ∈ l → keyOf v = k) →
      (AMap.keys (acc ++ l)).Nodup →
      (AMap.vals l).foldl (fun a v => AMap.set a (keyOf v) v) acc = acc ++ l
  | [], acc, _, _ => by simp [AMap.vals]
  | (k, v) :: t, acc, hk, hnd => by
    have hkv : keyOf v = k := hk k v (by simp)
    simp only [AMap.vals, List.map_cons, List.foldl_cons, hkv]
    have hfresh : k ∉ AMap.keys acc := by
      simp only [AMap.keys, List.map_append, List.map_cons] at hnd
      rw [List.nodup_append] at hnd
      intro hin
      exact hnd.2.2 k hin k (by simp) rfl
    rw [set_fresh acc k v hfresh]
    have := foldl_set_fresh keyOf t (acc ++ [(k, v)]) (fun k' v' h => hk k' v' (List.mem_cons_of_mem _ h))
      (by simpa [List.append_assoc] using hnd)
    simpa [AMap.vals, List.append_assoc] using this

/-- **Round trip of one record kind.**  For every store of a kind whose entries sit under the key
built from their own fields (the invariant every `Set…` maintains) and whose keys are distinct,
exporting the values and importing them into an empty store gives back the identical store —
same keys, same values, same order. -/
theorem C19_roundtrip_kind (keyOf : V → String) (m : AMap String V) (hwf : AMap.WF m)
    (hkey : ∀ k v, (k, v) ∈ m → keyOf v = k) :
    importKind keyOf (exportKind m) = m := by
  have := foldl_set_fresh keyOf m [] hkey (by simpa [AMap.WF] using hwf)
  simpa [importKind, exportKind] using this

/-- **Exporting again yields the same genesis** for every carried kind. -/
theorem C19_export_idempotent (keyOf : V → String) (m : AMap String V) (hwf : AMap.WF m)
    (hkey : ∀ k v, (k, v) ∈ m → keyOf v = k) :
    exportKind (importKind keyOf (exportKind m)) = exportKind m := by
  rw [C19_roundtrip_kind keyOf m hwf hkey]

/-- The exported list passes the duplicate-index validation of `GenesisState.Validate`. -/
theorem C19_validate_accepts_export (keyOf : V → String) (m : AMap String V) (hwf : AMap.WF m)
    (hkey : ∀ k v, (k, v) ∈ m → keyOf v = k) :
    ((exportKind m).map keyOf).Nodup := by
  have : (exportKind m).map keyOf = AMap.keys m := by
    simp only [exportKind, AMap.vals, AMap.keys, List.map_map]
    apply List.map_congr_left
    intro p hp
    exact hkey p.1 p.2 hp
  rw [this]; exact hwf

/-- A kind that no genesis carries is lost: the imported module has no record of it, whatever
the store held.  (This was the model of the four repaired findings; `omittedKinds` is empty now.) -/
theorem C19_omitted_kind_lost (keyOf : V → String) (m : AMap String V) (hne : m ≠ []) :
    importKind keyOf ([] : List V) ≠ m := by
  simp [importKind]; exact fun h => hne h

/-- the tables are consistent: no kind is both carried and omitted (a finite check over the table) -/
theorem C19_tables_disjoint :
    (exportedKinds.all (fun p => p.2.all (fun k => !(lookup omittedKinds p.1).contains k))) = true := by
  decide

/-- every record kind the custom modules write is accounted for: carried, latest-only or derived;
none is omitted any more -/
theorem C19_no_kind_omitted : omittedKinds = [] := rfl

/-- **Fate of a latest-only kind** (jklmint's per-height emission records): the import holds
exactly the record of the last height when the store had one — in particular the record the next
block reads survives — and nothing else. -/
theorem C19_latest_only_roundtrip (keyOf : V → String) (m : AMap String V) (lastKey : String) (v : V)
    (hget : AMap.get m lastKey = some v) (hkey : keyOf v = lastKey) :
    importKind keyOf (exportLatest m lastKey) = [(lastKey, v)] := by
  simp [importKind, exportLatest, hget, AMap.set, hkey]

theorem C19_latest_only_empty (keyOf : V → String) (m : AMap String V) (lastKey : String)
    (hget : AMap.get m lastKey = none) :
    importKind keyOf (exportLatest m lastKey) = [] := by
  simp [importKind, exportLatest, hget]

/-- the record the next block reads (that of the last height) is readable after the import with
the same value -/
theorem C19_latest_record_survives (keyOf : V → String) (m : AMap String V) (lastKey : String) (v : V)
    (hget : AMap.get m lastKey = some v) (hkey : keyOf v = lastKey) :
    AMap.get (importKind keyOf (exportLatest m lastKey)) lastKey = some v := by
  rw [C19_latest_only_roundtrip keyOf m lastKey v hget hkey]; simp [AMap.get]

/-- older records of a latest-only kind are lost (the remaining recorded finding) -/
theorem C19_latest_only_loses_history (keyOf : V → String) (m : AMap String V) (lastKey k : String) (v : V)
    (hget : AMap.get m lastKey = some v) (hkey : keyOf v = lastKey) (hk : k ≠ lastKey) :
    AMap.get (importKind keyOf (exportLatest m lastKey)) k = none := by
  rw [C19_latest_only_roundtrip keyOf m lastKey v hget hkey]
  simp [AMap.get]; exact fun h => hk h.symm

/-- non-vacuity: a two-record store of names keyed by "name.tld" round-trips -/
example : importKind (fun (v : String × Nat) => v.1 ++ ".jkl") (exportKind [("a.jkl", ("a", 1)), ("b.jkl", ("b", 2))])
    = [("a.jkl", ("a", 1)), ("b.jkl", ("b", 2))] := by decide


/-!
# C19 on the concrete module models

`Canine/Genesis/Modules.lean` models `ExportGenesis`, `Validate` and `InitGenesis` of each custom module
over the module's own executable state; the theorems below are about those functions.

What "the same module state" means.  A store of the chain is a set of (raw key ↦ value) pairs; the
models keep it as an association list whose *order of bindings* is an artefact (no handler or query
depends on it: lookups go by key, listings sort by raw key).  `ExportGenesis` lists a store in
iterator order, so the imported state holds the same bindings in iterator order:

* `C19_M_roundtrip`         `initGenesis (blank s) (exportGenesis s) = storeOrdered s` — an explicit state:
                            `s` with every store listed in iterator order (`inStoreOrder`), everything else equal;
* `C19_M_roundtrip_records` spelled out: every store answers every key as before (`AMap.get … k`, extensional
                            equality), is a permutation of the old one, and all other fields are equal;
* `C19_M_export_idempotent` the second export is *equal* (as lists, in order) to the first;
* `C19_M_validate_accepts_export`, `C19_M_queries_preserved` (every query of Canine/Query/M.lean).

Hypotheses: `M.Inv s` — keys distinct and every record under the key built from its own fields (what
every `Set…` maintains) — and, for the stores whose key has several '/'-separated fields,
`M.RawInv s`: distinct decoded keys have distinct raw keys (the model keeps decoded keys; two
records with one raw key would be one record on the chain).
-/

/-! ## x/oracle -/

theorem C19_oracle_roundtrip (s : Canine.Oracle.State) (h : Oracle.Inv s) :
    Oracle.initGenesis (Oracle.blank s) (Oracle.exportGenesis s) = Oracle.storeOrdered s :=
  Oracle.roundtrip_eq s h

theorem C19_oracle_roundtrip_records (s : Canine.Oracle.State) (h : Oracle.Inv s) :
    let s' := Oracle.initGenesis (Oracle.blank s) (Oracle.exportGenesis s)
    (∀ n, AMap.get s'.feeds n = AMap.get s.feeds n) ∧ s'.feeds.Perm s.feeds ∧
      s'.bank = s.bank ∧ s'.moduleAcc = s.moduleAcc ∧ s'.deposit = s.deposit ∧ s'.blocked = s.blocked := by
  intro s'
  have e : s' = Oracle.storeOrdered s := C19_oracle_roundtrip s h
  rw [e]; unfold Oracle.storeOrdered
  exact ⟨get_inStoreOrder _ h.1, inStoreOrder_perm _ _, rfl, rfl, rfl, rfl⟩

/-- a state whose store is already listed in iterator order comes back identical -/
theorem C19_oracle_roundtrip_of_ordered (s : Canine.Oracle.State) (h : Oracle.Inv s)
    (ho : inStoreOrder Oracle.feedRaw s.feeds = s.feeds) :
    Oracle.initGenesis (Oracle.blank s) (Oracle.exportGenesis s) = s := by
  rw [C19_oracle_roundtrip s h, Oracle.storeOrdered, ho]

theorem C19_oracle_export_idempotent (s : Canine.Oracle.State) (h : Oracle.Inv s) :
    Oracle.exportGenesis (Oracle.initGenesis (Oracle.blank s) (Oracle.exportGenesis s)) = Oracle.exportGenesis s := by
  rw [C19_oracle_roundtrip s h, Oracle.export_storeOrdered s h]

theorem C19_oracle_validate_accepts_export (s : Canine.Oracle.State) (h : Oracle.Inv s) :
    Oracle.validate (Oracle.exportGenesis s) = true := Oracle.validate_export s h

theorem C19_oracle_queries_preserved (s : Canine.Oracle.State) (h : Oracle.Inv s) (q : Canine.Oracle.Query.Q) :
    Canine.Oracle.Query.run (Oracle.initGenesis (Oracle.blank s) (Oracle.exportGenesis s)) q =
      Canine.Oracle.Query.run s q := by
  rw [C19_oracle_roundtrip s h, Oracle.run_storeOrdered s h q]

/-- a history of oracle messages (failed messages leave the state as it was) -/
def Oracle.runOps (s : Canine.Oracle.State) : List (Int × Canine.Oracle.Op) → Canine.Oracle.State
  | [] => s
  | (now, op) :: rest => Oracle.runOps ((Canine.Oracle.step s now op).getD s) rest

/-- the oracle invariant holds along every history from a state where it holds (e.g. no feeds) -/
theorem C19_oracle_inv_along_histories (ops : List (Int × Canine.Oracle.Op)) :
    ∀ s, Oracle.Inv s → Oracle.Inv (Oracle.runOps s ops) := by
  induction ops with
  | nil => intro s h; exact h
  | cons x t ih =>
    intro s h
    obtain ⟨now, op⟩ := x
    apply ih
    cases hs : Canine.Oracle.step s now op with
    | none => exact h
    | some s' => exact Oracle.inv_step s s' now op h hs

/-! ## x/filetree -/

theorem C19_filetree_roundtrip (s : Canine.Filetree.State) (h : Filetree.Inv s) :
    Filetree.initGenesis (Filetree.blank s) (Filetree.exportGenesis s) = Filetree.storeOrdered s :=
  Filetree.roundtrip_eq s h

theorem C19_filetree_roundtrip_records (s : Canine.Filetree.State) (h : Filetree.Inv s) :
    let s' := Filetree.initGenesis (Filetree.blank s) (Filetree.exportGenesis s)
    (∀ k, AMap.get s'.files k = AMap.get s.files k) ∧ s'.files.Perm s.files ∧
      (∀ a, AMap.get s'.pubkeys a = AMap.get s.pubkeys a) ∧ s'.pubkeys.Perm s.pubkeys := by
  intro s'
  have e : s' = Filetree.storeOrdered s := C19_filetree_roundtrip s h
  rw [e]; unfold Filetree.storeOrdered
  exact ⟨get_inStoreOrder _ h.1, inStoreOrder_perm _ _, get_inStoreOrder _ h.2.2, inStoreOrder_perm _ _⟩

theorem C19_filetree_export_idempotent (s : Canine.Filetree.State) (h : Filetree.Inv s) (hr : Filetree.RawInv s) :
    Filetree.exportGenesis (Filetree.initGenesis (Filetree.blank s) (Filetree.exportGenesis s)) =
      Filetree.exportGenesis s := by
  rw [C19_filetree_roundtrip s h, Filetree.export_storeOrdered s h hr]

theorem C19_filetree_validate_accepts_export (s : Canine.Filetree.State) (h : Filetree.Inv s) (hr : Filetree.RawInv s) :
    Filetree.validate (Filetree.exportGenesis s) = true := Filetree.validate_export s h hr

theorem C19_filetree_queries_preserved (s : Canine.Filetree.State) (h : Filetree.Inv s) (hr : Filetree.RawInv s)
    (q : Canine.Filetree.Query.Q) :
    Canine.Filetree.Query.run (Filetree.initGenesis (Filetree.blank s) (Filetree.exportGenesis s)) q =
      Canine.Filetree.Query.run s q := by
  rw [C19_filetree_roundtrip s h, Filetree.run_storeOrdered s h hr q]

/-- the filetree invariant holds along every history of messages from the empty tree (the `Keyed`
half is C10's `C10_storeInv_along_histories`; key distinctness is new here) -/
theorem C19_filetree_inv_along_histories (H : String → String) (ops : List Canine.Filetree.Op) :
    Filetree.Inv (Filetree.runOps H { files := [], pubkeys := [] } ops) :=
  Filetree.inv_run H ops _ Filetree.inv_empty

/-! ## x/notifications -/

theorem C19_notifications_roundtrip (s : Canine.Notif.State) (h : Notif.Inv s) :
    Notif.initGenesis (Notif.blank s) (Notif.exportGenesis s) = Notif.storeOrdered s :=
  Notif.roundtrip_eq s h

/-- the one store holds the same records: every key answers as before (notification keys and
block-list keys alike) -/
theorem C19_notifications_roundtrip_records (s : Canine.Notif.State) (h : Notif.Inv s) :
    let s' := Notif.initGenesis (Notif.blank s) (Notif.exportGenesis s)
    (∀ k, AMap.get s'.store k = AMap.get s.store k) ∧ s'.store.Perm s.store := by
  intro s'
  have e : s' = Notif.storeOrdered s := C19_notifications_roundtrip s h
  rw [e]
  exact ⟨fun k => (get_eq_of_perm (Notif.storeOrdered_perm s).symm h.1 k).symm, Notif.storeOrdered_perm s⟩

theorem C19_notifications_export_idempotent (s : Canine.Notif.State) (h : Notif.Inv s) (hr : Notif.RawInv s) :
    Notif.exportGenesis (Notif.initGenesis (Notif.blank s) (Notif.exportGenesis s)) = Notif.exportGenesis s := by
  rw [C19_notifications_roundtrip s h, Notif.export_storeOrdered s hr]

theorem C19_notifications_validate_accepts_export (s : Canine.Notif.State) (h : Notif.Inv s) (hr : Notif.RawInv s) :
    Notif.validate (Notif.exportGenesis s) = true := Notif.validate_export s h hr

theorem C19_notifications_queries_preserved (s : Canine.Notif.State) (h : Notif.Inv s) (hr : Notif.RawInv s)
    (q : Canine.Notif.Query.Q) :
    Canine.Notif.Query.run (Notif.initGenesis (Notif.blank s) (Notif.exportGenesis s)) q =
      Canine.Notif.Query.run s q := by
  rw [C19_notifications_roundtrip s h]
  exact Notif.run_congr s _ (Notif.entries_storeOrdered s hr) q

/-- in particular the block list survives: a blocked sender is still blocked -/
theorem C19_notifications_blocklist_preserved (s : Canine.Notif.State) (h : Notif.Inv s) (owner sender : String) :
    Canine.Notif.isBlocked (Notif.initGenesis (Notif.blank s) (Notif.exportGenesis s)) owner sender =
      Canine.Notif.isBlocked s owner sender := by
  simp only [Canine.Notif.isBlocked, AMap.contains, (C19_notifications_roundtrip_records s h).1]

/-- a history of notification messages (failed messages leave the state as it was) -/
def Notif.runOps (s : Canine.Notif.State) : List (Int × Canine.Notif.Op) → Canine.Notif.State
  | [] => s
  | (now, op) :: rest => Notif.runOps (Canine.Notif.stepT s now op) rest

/-- the notifications invariant holds along every history (as C18 proves for its own copy) -/
theorem C19_notifications_inv_along_histories (ops : List (Int × Canine.Notif.Op)) :
    ∀ s, Notif.Inv s → Notif.Inv (Notif.runOps s ops) := by
  induction ops with
  | nil => intro s h; exact h
  | cons x t ih =>
    intro s h
    obtain ⟨now, op⟩ := x
    apply ih
    unfold Canine.Notif.stepT
    cases hs : Canine.Notif.step s now op with
    | none => exact h
    | some s' => exact Notif.inv_step s s' now op h hs

/-! ## x/rns -/

theorem C19_rns_roundtrip (s : Canine.Rns.State) (h : Rns.Inv s) :
    Rns.initGenesis (Rns.blank s) (Rns.exportGenesis s) = Rns.storeOrdered s :=
  Rns.roundtrip_eq s h

theorem C19_rns_roundtrip_records (s : Canine.Rns.State) (h : Rns.Inv s) :
    let s' := Rns.initGenesis (Rns.blank s) (Rns.exportGenesis s)
    (∀ k, AMap.get s'.names k = AMap.get s.names k) ∧ (∀ k, AMap.get s'.bids k = AMap.get s.bids k) ∧
    (∀ k, AMap.get s'.forsale k = AMap.get s.forsale k) ∧ (∀ k, AMap.get s'.inits k = AMap.get s.inits k) ∧
    (∀ k, AMap.get s'.primary k = AMap.get s.primary k) ∧
    s'.names.Perm s.names ∧ s'.bids.Perm s.bids ∧ s'.forsale.Perm s.forsale ∧ s'.inits.Perm s.inits ∧
    s'.primary.Perm s.primary ∧
    s'.bank = s.bank ∧ s'.blocked = s.blocked ∧ s'.moduleAcc = s.moduleAcc ∧ s'.polAcc = s.polAcc ∧ s'.canon = s.canon := by
  intro s'
  have e : s' = Rns.storeOrdered s := C19_rns_roundtrip s h
  rw [e]; unfold Rns.storeOrdered
  exact ⟨get_inStoreOrder _ h.wfNames, get_inStoreOrder _ h.wfBids, get_inStoreOrder _ h.wfSale,
    get_inStoreOrder _ h.wfInits, get_inStoreOrder _ h.wfPrimary, inStoreOrder_perm _ _, inStoreOrder_perm _ _,
    inStoreOrder_perm _ _, inStoreOrder_perm _ _, inStoreOrder_perm _ _, rfl, rfl, rfl, rfl, rfl⟩

theorem C19_rns_export_idempotent (s : Canine.Rns.State) (h : Rns.Inv s) :
    Rns.exportGenesis (Rns.initGenesis (Rns.blank s) (Rns.exportGenesis s)) = Rns.exportGenesis s := by
  rw [C19_rns_roundtrip s h, Rns.export_storeOrdered s h]

theorem C19_rns_validate_accepts_export (s : Canine.Rns.State) (h : Rns.Inv s) :
    Rns.validate (Rns.exportGenesis s) = true := Rns.validate_export s h

theorem C19_rns_queries_preserved (s : Canine.Rns.State) (h : Rns.Inv s) (q : Canine.Rns.Query.Q) :
    Canine.Rns.Query.run (Rns.initGenesis (Rns.blank s) (Rns.exportGenesis s)) q = Canine.Rns.Query.run s q := by
  rw [C19_rns_roundtrip s h, Rns.run_storeOrdered s h q]

/-- the rns invariant holds along every history of messages (`Canine.Rns.run`) from a state where it
holds — in particular from any state whose five rns stores are empty -/
theorem C19_rns_inv_along_histories (ops : List (Int × Canine.Rns.Op)) (s : Canine.Rns.State) (h : Rns.Inv s) :
    Rns.Inv (Canine.Rns.run s ops) := Rns.inv_run ops s h

theorem C19_rns_inv_blank (s : Canine.Rns.State) : Rns.Inv (Rns.blank s) :=
  ⟨wf_nil', wf_nil', wf_nil', wf_nil', wf_nil', Keyed.nil, Keyed.nil, Keyed.nil⟩

/-! ## x/jklmint — the honest statement: the last record survives, older ones do not -/

/-- the concrete model meets the generic latest-only kind of Canine/Genesis/Model.lean: the imported
emission-record store is `importKind … (exportLatest …)` of the old one at the key of the last height -/
theorem C19_jklmint_is_latest_only (c : Mint.Store) (h : Mint.Inv c) :
    (Mint.initGenesis (Mint.blank c) (Mint.exportGenesis c)).minted =
      importKind (fun b : Mint.MintedBlock => Mint.mintedKey b.height)
        (exportLatest c.minted (Mint.mintedKey c.height)) ∧
    (Mint.initGenesis (Mint.blank c) (Mint.exportGenesis c)).params = c.params ∧
    (Mint.initGenesis (Mint.blank c) (Mint.exportGenesis c)).height = c.height :=
  ⟨Mint.minted_roundtrip c h, Mint.params_roundtrip c, Mint.height_roundtrip c⟩

/-- the record of the last height is readable afterwards with the same value (and absent iff it was) -/
theorem C19_jklmint_last_record_survives (c : Mint.Store) (h : Mint.Inv c) :
    AMap.get (Mint.initGenesis (Mint.blank c) (Mint.exportGenesis c)).minted (Mint.mintedKey c.height) =
      AMap.get c.minted (Mint.mintedKey c.height) := Mint.get_last c h

/-- … through the generic theorem `C19_latest_record_survives` -/
theorem C19_jklmint_last_record_survives' (c : Mint.Store) (h : Mint.Inv c) (b : Mint.MintedBlock)
    (hg : AMap.get c.minted (Mint.mintedKey c.height) = some b) :
    AMap.get (Mint.initGenesis (Mint.blank c) (Mint.exportGenesis c)).minted (Mint.mintedKey c.height) = some b := by
  rw [(C19_jklmint_is_latest_only c h).1]
  exact C19_latest_record_survives _ c.minted _ b hg (Mint.last_key h hg)

/-- every other record is gone: the emission history is not carried (recorded finding) — through
the generic theorems `C19_latest_only_loses_history` / `C19_latest_only_empty` -/
theorem C19_jklmint_history_lost (c : Mint.Store) (h : Mint.Inv c) (k : String) (hk : k ≠ Mint.mintedKey c.height) :
    AMap.get (Mint.initGenesis (Mint.blank c) (Mint.exportGenesis c)).minted k = none := by
  rw [(C19_jklmint_is_latest_only c h).1]
  cases hg : AMap.get c.minted (Mint.mintedKey c.height) with
  | none => rw [C19_latest_only_empty _ c.minted _ hg]; rfl
  | some b => exact C19_latest_only_loses_history _ c.minted _ k b hg (Mint.last_key h hg) hk

/-- so the round trip is the identity exactly on the stores that hold nothing but the last record -/
theorem C19_jklmint_roundtrip (c : Mint.Store) (h : Mint.Inv c)
    (hl : c.minted = [] ∨ ∃ b, c.minted = [(Mint.mintedKey c.height, b)]) :
    Mint.initGenesis (Mint.blank c) (Mint.exportGenesis c) = c := by
  obtain ⟨e1, e2, e3⟩ := C19_jklmint_is_latest_only c h
  have e1' : (Mint.initGenesis (Mint.blank c) (Mint.exportGenesis c)).minted = c.minted := by
    rw [e1]
    rcases hl with hl | ⟨b, hl⟩
    · simp [hl, exportLatest, importKind]
    · have hg : AMap.get c.minted (Mint.mintedKey c.height) = some b := by rw [hl]; simp [AMap.get]
      rw [C19_latest_only_roundtrip _ c.minted _ b hg (Mint.last_key h hg), hl]
  cases hc : Mint.initGenesis (Mint.blank c) (Mint.exportGenesis c) with
  | mk p m ht =>
    rw [hc] at e1' e2 e3
    cases c
    simp only at e1' e2 e3
    subst e1' e2 e3; rfl

theorem C19_jklmint_export_idempotent (c : Mint.Store) (h : Mint.Inv c) :
    Mint.exportGenesis (Mint.initGenesis (Mint.blank c) (Mint.exportGenesis c)) = Mint.exportGenesis c :=
  Mint.export_idem c h

theorem C19_jklmint_validate_accepts_export (c : Mint.Store) (hp : Canine.Mint.validParams c.params) :
    Mint.validate (Mint.exportGenesis c) = true := by
  obtain ⟨h1, h2, h3, h4, h5, _⟩ := hp
  simp [Mint.validate, Mint.exportGenesis, h1, h2, h3, h4, h5]

/-- what the module's only reader of the records sees: the next block (`BlockMint` at height + 1)
reads the same previous emission, so it mints the same amounts to the same accounts, from the
imported store as from the original -/
theorem C19_jklmint_next_block_preserved (c : Mint.Store) (h : Mint.Inv c) (bal : Canine.Mint.State) :
    (Mint.beginBlock (Mint.initGenesis (Mint.blank c) (Mint.exportGenesis c)) bal).2 = (Mint.beginBlock c bal).2 := by
  simp only [Mint.beginBlock, Mint.height_roundtrip c, Mint.params_roundtrip c, Mint.lastOf_roundtrip c h]

/-- the carried record is keyed by the ABSOLUTE height it was minted at: a chain that restarts at any
other height `h'` (an export `--for-zero-height` restarts at 0: the next block, height 1, reads
"minted_at_0") does not find it — `BlockMint` then falls back to `params.TokensPerBlock`, i.e. the
emission decay restarts -/
theorem C19_jklmint_restart_at_other_height_forgets (c : Mint.Store) (h : Mint.Inv c) (h' : Int)
    (hk : Mint.mintedKey h' ≠ Mint.mintedKey c.height) :
    Mint.lastOf { Mint.initGenesis (Mint.blank c) (Mint.exportGenesis c) with height := h' } (h' + 1) = none := by
  simp only [Mint.lastOf, Int.add_sub_cancel, Mint.get_other c h _ hk, Option.map_none]

/-- the invariant is kept by every block (from a non-negative height) -/
theorem C19_jklmint_inv_next_block (c : Mint.Store) (h : Mint.Inv c) (h0 : 0 ≤ c.height) (bal : Canine.Mint.State) :
    Mint.Inv (Mint.beginBlock c bal).1 := by
  simp only [Mint.beginBlock]
  split
  · refine ⟨AMap.wf_set _ _ h.wf, h.keyed.set _ _ rfl, ?_⟩
    intro kv hm
    rcases mem_set_cases _ _ _ kv hm with e | hm'
    · rw [e]; show 0 < c.height + 1; omega
    · exact h.pos kv hm'
  · exact ⟨h.wf, h.keyed, h.pos⟩

/-! ## x/storage -/

theorem C19_storage_roundtrip (s : Canine.Storage.State) (h : Storage.Inv s) :
    Storage.initGenesis (Storage.blank s) (Storage.exportGenesis s) = Storage.storeOrdered s :=
  Storage.roundtrip_eq s h

theorem C19_storage_roundtrip_records (s : Canine.Storage.State) (h : Storage.Inv s) :
    let s' := Storage.initGenesis (Storage.blank s) (Storage.exportGenesis s)
    (∀ k, AMap.get s'.files k = AMap.get s.files k) ∧ (∀ k, AMap.get s'.files2 k = AMap.get s.files2 k) ∧
    (∀ k, AMap.get s'.proofs k = AMap.get s.proofs k) ∧ (∀ k, AMap.get s'.providers k = AMap.get s.providers k) ∧
    (∀ k, AMap.get s'.payinfo k = AMap.get s.payinfo k) ∧ (∀ k, AMap.get s'.collateral k = AMap.get s.collateral k) ∧
    (∀ k, AMap.get s'.gauges k = AMap.get s.gauges k) ∧ (∀ k, AMap.get s'.attests k = AMap.get s.attests k) ∧
    (∀ k, AMap.get s'.reports k = AMap.get s.reports k) ∧
    s'.files.Perm s.files ∧ s'.files2.Perm s.files2 ∧ s'.proofs.Perm s.proofs ∧ s'.providers.Perm s.providers ∧
    s'.payinfo.Perm s.payinfo ∧ s'.collateral.Perm s.collateral ∧ s'.gauges.Perm s.gauges ∧
    s'.attests.Perm s.attests ∧ s'.reports.Perm s.reports ∧
    s'.params = s.params ∧ s'.bank = s.bank ∧ s'.moduleAcc = s.moduleAcc ∧ s'.collateralAcc = s.collateralAcc ∧
    s'.polAcc = s.polAcc ∧ s'.feeAcc = s.feeAcc ∧ s'.blocked = s.blocked ∧ s'.canon = s.canon := by
  intro s'
  have e : s' = Storage.storeOrdered s := C19_storage_roundtrip s h
  rw [e]; unfold Storage.storeOrdered
  refine ⟨get_inStoreOrder _ h.idx.wfFiles, ?_, get_inStoreOrder _ h.idx.wfProofs, get_inStoreOrder _ h.wfProviders,
    get_inStoreOrder _ h.wfPayinfo, get_inStoreOrder _ h.wfCollateral, get_inStoreOrder _ h.wfGauges,
    get_inStoreOrder _ h.wfAttests, get_inStoreOrder _ h.wfReports, inStoreOrder_perm _ _, Storage.files2_perm s h,
    inStoreOrder_perm _ _, inStoreOrder_perm _ _, inStoreOrder_perm _ _, inStoreOrder_perm _ _, inStoreOrder_perm _ _,
    inStoreOrder_perm _ _, inStoreOrder_perm _ _, rfl, rfl, rfl, rfl, rfl, rfl, rfl, rfl⟩
  intro k
  rw [get_inStoreOrder _ h.idx.wfFiles, h.idx.same]

theorem C19_storage_export_idempotent (s : Canine.Storage.State) (h : Storage.Inv s) (hr : Storage.RawInv s) :
    Storage.exportGenesis (Storage.initGenesis (Storage.blank s) (Storage.exportGenesis s)) = Storage.exportGenesis s := by
  rw [C19_storage_roundtrip s h, Storage.export_storeOrdered s h hr]

theorem C19_storage_validate_accepts_export (s : Canine.Storage.State) (h : Storage.Inv s) (hr : Storage.RawInv s)
    (hp : 0 ≤ s.params.polRatio ∧ 0 ≤ s.params.referralCommission) :
    Storage.validate (Storage.exportGenesis s) = true :=
  Storage.validate_export s h hr (by simp [Storage.paramsValid, hp.1, hp.2])

theorem C19_storage_queries_preserved (s : Canine.Storage.State) (h : Storage.Inv s) (hr : Storage.RawInv s)
    (now : Int) (q : Canine.Storage.Query.Q) :
    Canine.Storage.Query.run (Storage.initGenesis (Storage.blank s) (Storage.exportGenesis s)) now q =
      Canine.Storage.Query.run s now q := by
  rw [C19_storage_roundtrip s h, Storage.run_storeOrdered s h hr now q]

/-- the C17 index invariant itself survives the round trip (both indexes rebuilt by the same `SetFile`) -/
theorem C19_storage_index_invariant_preserved (s : Canine.Storage.State) (h : Storage.Inv s) :
    Canine.Storage.IndexInv (Storage.initGenesis (Storage.blank s) (Storage.exportGenesis s)) := by
  obtain ⟨g1, g2, g3, _, _, _, _, _, _, p1, p2, p3, _⟩ := C19_storage_roundtrip_records s h
  refine ⟨wf_of_perm p1.symm h.idx.wfFiles, wf_of_perm p2.symm h.idx.wfFiles2, wf_of_perm p3.symm h.idx.wfProofs, ?_, ?_⟩
  · intro k; rw [g1, g2]; exact h.idx.same k
  · intro k f hf
    rw [g1] at hf
    exact (h.idx.ok k f hf).congr (fun pk _ _ => g3 pk)


/-! ### the storage invariants hold on every reachable state

Histories: `SI.HEv` (Proofs/GenesisStorageInv.lean) = the events of `C17_along_histories`
(`Canine.Storage.Ev`: a delivered message — a failed one commits nothing — or a block boundary, applied by
`Canine.Storage.applyEv`) plus `setParams p` (the state with only `params` replaced); `SI.runH` folds
`SI.applyH` over the list. -/

/-- **every storage message preserves `Storage.Inv`** — no side condition on the op or its oracle inputs:
each handler builds the record and its key from the same values (`newGauge'` stores the gauge with
`id := gid` under `gid`; a form is stored under `(prover, f.key)` for the file `f` found under
`(merkle, owner, start)`, which is its own key by the index invariant; plan records are written under
their own `address` field) -/
theorem C19_storage_inv_preserved_by_messages (s s' : Canine.Storage.State) (h now : Int) (op : Canine.Storage.Op)
    (hstep : Canine.Storage.step s h now op = some s') (hinv : Storage.Inv s) : Storage.Inv s' :=
  SI.inv_step s s' h now op hstep hinv

/-- … delivered or failed (`stepT`) -/
theorem C19_storage_inv_preserved_by_stepT (s : Canine.Storage.State) (h now : Int) (op : Canine.Storage.Op)
    (hinv : Storage.Inv s) : Storage.Inv (Canine.Storage.stepT s h now op) :=
  SI.inv_stepT s h now op hinv

/-- **the reward block preserves `Storage.Inv`** -/
theorem C19_storage_inv_preserved_by_reward_block (s s' : Canine.Storage.State) (h now : Int)
    (hblock : Canine.Storage.beginBlock s h now = .ok s') (hinv : Storage.Inv s) : Storage.Inv s' :=
  SI.inv_beginBlock hblock hinv

/-- **a parameter change preserves `Storage.Inv`** -/
theorem C19_storage_inv_preserved_by_param_change (s : Canine.Storage.State) (p : Canine.Storage.Params)
    (hinv : Storage.Inv s) : Storage.Inv { s with params := p } :=
  SI.inv_params p hinv

/-- **`Storage.Inv` holds for the empty stores** (whatever bank, parameters, account names, blocked list) -/
theorem C19_storage_inv_empty (s : Canine.Storage.State) (h : SI.EmptyStores s) : Storage.Inv s := SI.inv_empty h

theorem C19_storage_inv_blank (s : Canine.Storage.State) : Storage.Inv (Storage.blank s) :=
  SI.inv_empty (SI.emptyStores_blank s)

/-- **`Storage.Inv` holds after every history** of messages (delivered or failed), blocks and parameter
changes from any state satisfying it -/
theorem C19_storage_inv_along_histories (evs : List SI.HEv) (s : Canine.Storage.State) (h : Storage.Inv s) :
    Storage.Inv (SI.runH s evs) := SI.inv_runH evs s h

/-- … in particular from the empty stores -/
theorem C19_storage_inv_along_histories_from_empty (evs : List SI.HEv) (s0 : Canine.Storage.State)
    (h0 : SI.EmptyStores s0) : Storage.Inv (SI.runH s0 evs) := SI.inv_runH evs s0 (SI.inv_empty h0)

/-- **`RawInv` from slash-freeness**: when the string components of the stored keys contain no '/', distinct
decoded keys have distinct raw keys -/
theorem C19_storage_rawInv_of_slashFree (s : Canine.Storage.State) (hsf : SI.SlashFree s) (h : Storage.Inv s) :
    Storage.RawInv s := SI.rawInv_of_slashFree hsf h

/-- **every message whose new key strings are slash-free preserves `SlashFree`** (`SI.OpSlashFree`: creator
and merkle of `MsgPostFile`, creator of `MsgPostProof`; no other message writes a key that is not a
key already) -/
theorem C19_storage_slashFree_preserved_by_messages (s s' : Canine.Storage.State) (h now : Int) (op : Canine.Storage.Op)
    (hstep : Canine.Storage.step s h now op = some s') (hop : SI.OpSlashFree op) (hinv : Storage.Inv s)
    (hsf : SI.SlashFree s) : SI.SlashFree s' :=
  SI.slashFree_step s s' h now op hstep hop hinv.idx hsf

theorem C19_storage_slashFree_preserved_by_reward_block (s s' : Canine.Storage.State) (h now : Int)
    (hblock : Canine.Storage.beginBlock s h now = .ok s') (hinv : Storage.Inv s) (hsf : SI.SlashFree s) : SI.SlashFree s' :=
  SI.slashFree_beginBlock hblock hinv.idx hsf

/-- along every history with slash-free ops, from any state satisfying both -/
theorem C19_storage_invs_along_histories (evs : List SI.HEv) (s : Canine.Storage.State)
    (hops : ∀ e ∈ evs, SI.HEvSlashFree e) (h : Storage.Inv s) (hsf : SI.SlashFree s) :
    Storage.Inv (SI.runH s evs) ∧ SI.SlashFree (SI.runH s evs) ∧ Storage.RawInv (SI.runH s evs) := by
  obtain ⟨a, b⟩ := SI.both_runH evs s hops ⟨h, hsf⟩
  exact ⟨a, b, SI.rawInv_of_slashFree b a⟩

/-- **both hypotheses of the C19 storage theorems hold on every reachable state**: after every history
of messages, blocks and parameter changes from the empty stores whose ops are slash-free -/
theorem C19_storage_reachable (evs : List SI.HEv) (s0 : Canine.Storage.State) (h0 : SI.EmptyStores s0)
    (hops : ∀ e ∈ evs, SI.HEvSlashFree e) :
    Storage.Inv (SI.runH s0 evs) ∧ Storage.RawInv (SI.runH s0 evs) := by
  obtain ⟨a, _, c⟩ := C19_storage_invs_along_histories evs s0 hops (SI.inv_empty h0) (SI.slashFree_empty h0)
  exact ⟨a, c⟩

theorem C19_storage_roundtrip_reachable (evs : List SI.HEv) (s0 : Canine.Storage.State) (h0 : SI.EmptyStores s0) :
    Storage.initGenesis (Storage.blank (SI.runH s0 evs)) (Storage.exportGenesis (SI.runH s0 evs)) =
      Storage.storeOrdered (SI.runH s0 evs) :=
  C19_storage_roundtrip _ (C19_storage_inv_along_histories_from_empty evs s0 h0)

theorem C19_storage_export_idempotent_reachable (evs : List SI.HEv) (s0 : Canine.Storage.State) (h0 : SI.EmptyStores s0)
    (hops : ∀ e ∈ evs, SI.HEvSlashFree e) :
    Storage.exportGenesis (Storage.initGenesis (Storage.blank (SI.runH s0 evs)) (Storage.exportGenesis (SI.runH s0 evs))) =
      Storage.exportGenesis (SI.runH s0 evs) :=
  C19_storage_export_idempotent _ (C19_storage_reachable evs s0 h0 hops).1 (C19_storage_reachable evs s0 h0 hops).2

theorem C19_storage_validate_accepts_export_reachable (evs : List SI.HEv) (s0 : Canine.Storage.State)
    (h0 : SI.EmptyStores s0) (hops : ∀ e ∈ evs, SI.HEvSlashFree e)
    (hp : 0 ≤ (SI.runH s0 evs).params.polRatio ∧ 0 ≤ (SI.runH s0 evs).params.referralCommission) :
    Storage.validate (Storage.exportGenesis (SI.runH s0 evs)) = true :=
  C19_storage_validate_accepts_export _ (C19_storage_reachable evs s0 h0 hops).1 (C19_storage_reachable evs s0 h0 hops).2 hp

theorem C19_storage_queries_preserved_reachable (evs : List SI.HEv) (s0 : Canine.Storage.State) (h0 : SI.EmptyStores s0)
    (hops : ∀ e ∈ evs, SI.HEvSlashFree e) (now : Int) (q : Canine.Storage.Query.Q) :
    Canine.Storage.Query.run
        (Storage.initGenesis (Storage.blank (SI.runH s0 evs)) (Storage.exportGenesis (SI.runH s0 evs))) now q =
      Canine.Storage.Query.run (SI.runH s0 evs) now q :=
  C19_storage_queries_preserved _ (C19_storage_reachable evs s0 h0 hops).1 (C19_storage_reachable evs s0 h0 hops).2 now q

theorem C19_storage_index_invariant_preserved_reachable (evs : List SI.HEv) (s0 : Canine.Storage.State)
    (h0 : SI.EmptyStores s0) :
    Canine.Storage.IndexInv
      (Storage.initGenesis (Storage.blank (SI.runH s0 evs)) (Storage.exportGenesis (SI.runH s0 evs))) :=
  C19_storage_index_invariant_preserved _ (C19_storage_inv_along_histories_from_empty evs s0 h0)

/-! ## Non-vacuity: the hypotheses hold on concrete states with two or more records per kind
(none of them listed in iterator order, so `storeOrdered` really reorders) -/
namespace C19Ex

def oracleSt : Canine.Oracle.State :=
  { feeds := [("jklprice", { owner := "jkl1a", data := "{\"price\":\"0.3\"}", lastUpdate := 5, name := "jklprice" }),
              ("atomprice", { owner := "jkl1b", data := "", lastUpdate := 7, name := "atomprice" })],
    bank := [], moduleAcc := "oracle", deposit := some "jkl1deposit", blocked := [] }

example : Oracle.Inv oracleSt := ⟨by unfold AMap.WF; decide, by unfold Keyed; decide⟩

def filetreeSt : Canine.Filetree.State :=
  { files := [(("ff01", "0a"), { address := "ff01", owner := "0a", contents := "c1", viewers := .map [("v1", "k1")],
                                  editors := .null, tracking := "t1" }),
              (("aa02", "0b"), { address := "aa02", owner := "0b", contents := "c2", viewers := .raw "x",
                                  editors := .map [], tracking := "t2" })],
    pubkeys := [("jkl1z", "pkz"), ("jkl1a", "pka")] }

example : Filetree.Inv filetreeSt := ⟨by unfold AMap.WF; decide, by unfold Keyed; decide, by unfold AMap.WF; decide⟩
example : Filetree.RawInv filetreeSt := by unfold Filetree.RawInv RawNodup; decide

def notifSt : Canine.Notif.State :=
  { store := [(Canine.Notif.notifKey "jkl1bob" "jkl1alice" 20,
                .notif { to := "jkl1bob", sender := "jkl1alice", time := 20, contents := "{}", priv := "" }),
              (Canine.Notif.blockKey "jkl1bob" "jkl1carol", .block "jkl1bob" "jkl1carol"),
              (Canine.Notif.notifKey "jkl1bob" "jkl1alice" 10,
                .notif { to := "jkl1bob", sender := "jkl1alice", time := 10, contents := "{\"a\":1}", priv := "p" }),
              (Canine.Notif.blockKey "jkl1alice" "jkl1dave", .block "jkl1alice" "jkl1dave")] }

example : Notif.Inv notifSt := by
  refine ⟨by unfold AMap.WF; decide, ?_⟩
  intro kv hm
  simp only [notifSt, List.mem_cons, List.not_mem_nil, or_false] at hm
  rcases hm with rfl | rfl | rfl | rfl
  · exact Or.inl ⟨_, rfl, rfl⟩
  · exact Or.inr ⟨_, _, rfl, rfl⟩
  · exact Or.inl ⟨_, rfl, rfl⟩
  · exact Or.inr ⟨_, _, rfl, rfl⟩

example : Notif.RawInv notifSt := by unfold Notif.RawInv RawNodup; decide

def rnsSt : Canine.Rns.State :=
  { names := [("zed.jkl", { name := "zed", tld := "jkl", expires := 900, value := "jkl1a", data := "{}", locked := 0,
                             subs := [{ name := "www", value := "jkl1b", data := "", tld := "jkl", expires := 900 }] }),
              ("alice.ibc", { name := "alice", tld := "ibc", expires := 800, value := "jkl1b", data := "{}", locked := 5, subs := [] })],
    forsale := [("zed.jkl", { name := "zed.jkl", owner := "jkl1a", priceRaw := "5ujkl", price := some ("ujkl", 5) }),
                ("alice.ibc", { name := "alice.ibc", owner := "jkl1b", priceRaw := "x", price := none })],
    bids := [("jkl1bzed.jkl", { index := "jkl1bzed.jkl", name := "zed.jkl", bidder := "jkl1b", priceRaw := "3ujkl", price := some [("ujkl", 3)] }),
             ("jkl1aalice.ibc", { index := "jkl1aalice.ibc", name := "alice.ibc", bidder := "jkl1a", priceRaw := "4ujkl", price := some [("ujkl", 4)] })],
    inits := [("jkl1b", true), ("jkl1a", true)],
    primary := [("jkl1b", "alice.ibc"), ("jkl1a", "zed.jkl")],
    bank := [], blocked := [], moduleAcc := "rns", polAcc := "pol", canon := [("jkl1a", "jkl1a"), ("JKL1A", "jkl1a")] }

example : Rns.Inv rnsSt :=
  ⟨by unfold AMap.WF; decide, by unfold AMap.WF; decide, by unfold AMap.WF; decide, by unfold AMap.WF; decide,
   by unfold AMap.WF; decide, by unfold Keyed; decide, by unfold Keyed; decide, by unfold Keyed; decide⟩

def mintSt : Mint.Store :=
  { params := { tokensPerBlock := 4200000, mintDecrease := 6, stakerRatio := 80, devGrantsRatio := 8, providerRatio := 12 },
    minted := [(Mint.mintedKey 9, { height := 9, minted := 4199999, denom := "ujkl" }),
               (Mint.mintedKey 10, { height := 10, minted := 4199998, denom := "ujkl" })],
    height := 10 }

theorem mintSt_inv : Mint.Inv mintSt := ⟨by unfold AMap.WF; decide, by unfold Keyed; decide, by decide⟩
example : Canine.Mint.validParams mintSt.params := by unfold Canine.Mint.validParams; decide

/-- the finding on a concrete store: the record of height 10 survives, the record of height 9 is gone -/
example : AMap.get (Mint.initGenesis (Mint.blank mintSt) (Mint.exportGenesis mintSt)).minted (Mint.mintedKey 10)
    = some { height := 10, minted := 4199998, denom := "ujkl" } :=
  C19_jklmint_last_record_survives' mintSt mintSt_inv _ (by decide)
example : AMap.get mintSt.minted (Mint.mintedKey 9) = some { height := 9, minted := 4199999, denom := "ujkl" } := by decide
example : AMap.get (Mint.initGenesis (Mint.blank mintSt) (Mint.exportGenesis mintSt)).minted (Mint.mintedKey 9) = none :=
  C19_jklmint_history_lost mintSt mintSt_inv _ (by decide)
/-- restarted at height 0 (`--for-zero-height`), block 1 finds no previous emission -/
example : Mint.lastOf { Mint.initGenesis (Mint.blank mintSt) (Mint.exportGenesis mintSt) with height := 0 } 1 = none :=
  C19_jklmint_restart_at_other_height_forgets mintSt mintSt_inv 0 (by decide)
/-- so on this store the round trip is NOT the identity -/
example : Mint.initGenesis (Mint.blank mintSt) (Mint.exportGenesis mintSt) ≠ mintSt := by
  intro e
  have h := C19_jklmint_history_lost mintSt mintSt_inv (Mint.mintedKey 9) (by decide)
  rw [e] at h
  exact absurd h (by decide)

open Canine.Storage in
def k1 : FKey := ("bb", "jkl1owner", 7)
open Canine.Storage in
def k2 : FKey := ("aa", "jkl1other", 3)
open Canine.Storage in
def file1 : File :=
  { merkle := "bb", owner := "jkl1owner", start := 7, expires := 0, fileSize := 100, proofInterval := 50,
    proofType := 0, proofs := [("jkl1p1", k1), ("jkl1p2", k1)], maxProofs := 3, note := "{}" }
open Canine.Storage in
def file2 : File :=
  { merkle := "aa", owner := "jkl1other", start := 3, expires := 900, fileSize := 5, proofInterval := 50,
    proofType := 0, proofs := [("jkl1p1", k2)], maxProofs := 3, note := "" }
open Canine.Storage in
def rec' (prover : String) (k : FKey) : Proof :=
  { prover := prover, merkle := k.1, owner := k.2.1, start := k.2.2, lastProven := 8, chunkToProve := 0 }
open Canine.Storage in
def form (prover : String) (k : FKey) : Form :=
  { prover := prover, merkle := k.1, owner := k.2.1, start := k.2.2, attestations := [("jkl1p2", false), ("jkl1p3", true)] }
open Canine.Storage in
def prov (a : String) : Provider :=
  { address := a, ip := "https://" ++ a, totalspace := "1000", burned := some 0, creator := a, keybase := "", claimers := [] }

open Canine.Storage in
def storageSt : State :=
  { files := [(k1, file1), (k2, file2)], files2 := [(k1, file1), (k2, file2)],
    proofs := [(("jkl1p1", k1), rec' "jkl1p1" k1), (("jkl1p2", k1), rec' "jkl1p2" k1), (("jkl1p1", k2), rec' "jkl1p1" k2)],
    providers := [("jkl1p2", prov "jkl1p2"), ("jkl1p1", prov "jkl1p1"), ("jkl1p3", prov "jkl1p3")],
    payinfo := [("jkl1owner", { startT := 0, endT := 100, spaceAvailable := 1000, spaceUsed := 300, address := "jkl1owner" }),
                ("jkl1other", { startT := 0, endT := 50, spaceAvailable := 10, spaceUsed := 0, address := "jkl1other" })],
    collateral := [("jkl1p2", 1000), ("jkl1p1", 1000)],
    gauges := [("ff", { id := "ff", startT := 0, endT := 10, coins := [("ujkl", 5)], account := "g-ff" }),
               ("0a", { id := "0a", startT := 0, endT := 20, coins := [("ujkl", 7)], account := "g-0a" })],
    attests := [(("jkl1p1", k1), form "jkl1p1" k1), (("jkl1p1", k2), form "jkl1p1" k2)],
    reports := [(("jkl1p2", k1), form "jkl1p2" k1), (("jkl1p1", k2), form "jkl1p1" k2)],
    bank := [],
    params := { proofWindow := 50, checkWindow := 100, chunkSize := 1024, pricePerTbPerMonth := 8, collateralPrice := 1000, attestFormSize := 3, attestMinToPass := 2, referralCommission := 25, polRatio := 40 },
    moduleAcc := "storage", collateralAcc := "collateral", polAcc := "pol", feeAcc := "fee", blocked := [] }

open Canine.Storage in
theorem storageSt_index : IndexInv storageSt := by
  refine ⟨by unfold AMap.WF; decide, by unfold AMap.WF; decide, by unfold AMap.WF; decide, fun _ => rfl, ?_⟩
  intro k f hf
  have hm := AMap.mem_of_get hf
  simp only [storageSt, List.mem_cons, List.not_mem_nil, or_false, Prod.mk.injEq] at hm
  rcases hm with ⟨rfl, rfl⟩ | ⟨rfl, rfl⟩
  · refine ⟨rfl, by decide, by decide, ?_⟩
    intro pk hpk
    simp only [file1, List.mem_cons, List.not_mem_nil, or_false] at hpk
    rcases hpk with rfl | rfl
    · exact ⟨rfl, rec' "jkl1p1" k1, by decide, rfl, rfl⟩
    · exact ⟨rfl, rec' "jkl1p2" k1, by decide, rfl, rfl⟩
  · refine ⟨rfl, by decide, by decide, ?_⟩
    intro pk hpk
    simp only [file2, List.mem_cons, List.not_mem_nil, or_false] at hpk
    rcases hpk with rfl
    exact ⟨rfl, rec' "jkl1p1" k2, by decide, rfl, rfl⟩

example : Storage.Inv storageSt :=
  ⟨storageSt_index, by unfold AMap.WF; decide, by unfold AMap.WF; decide, by unfold AMap.WF; decide,
   by unfold AMap.WF; decide, by unfold AMap.WF; decide, by unfold AMap.WF; decide,
   by unfold Keyed; decide, by unfold Keyed; decide, by unfold Keyed; decide, by unfold Keyed; decide,
   by unfold Keyed; decide, by unfold Keyed; decide⟩

example : Storage.RawInv storageSt :=
  ⟨by unfold RawNodup; decide, by unfold RawNodup; decide, by unfold RawNodup; decide, by unfold RawNodup; decide,
   by unfold RawNodup; decide⟩

example : 0 ≤ storageSt.params.polRatio ∧ 0 ≤ storageSt.params.referralCommission := by
  simp only [storageSt]; decide

/-! ### a concrete history from the empty stores: a provider, a plan with its gauge, a file with a
prover, an attestation form, a parameter change, block boundaries -/

open Canine.Storage in
def hParams : Params :=
  { proofWindow := 50, checkWindow := 100, chunkSize := 1024, pricePerTbPerMonth := 8, collateralPrice := 1000,
    attestFormSize := 3, attestMinToPass := 2, referralCommission := 25, polRatio := 40 }

open Canine.Storage in
def h0 : State :=
  { files := [], files2 := [], proofs := [], providers := [], payinfo := [], collateral := [], gauges := [],
    attests := [], reports := [],
    bank := [(("jkl1owner", "ujkl"), 1000000000000), (("jkl1p1", "ujkl"), 5000)],
    params := hParams, moduleAcc := "storage", collateralAcc := "collateral", polAcc := "pol", feeAcc := "fee",
    blocked := [] }

/-- p1 registers; the owner buys a 3 GB / 30 day plan (a gauge is created and funded), posts a file on
the plan; p1 proves it and asks for an attestation form; the parameters change; a block boundary that is
not a reward block -/
def hist : List SI.HEv :=
  [ .ev (.msg 5 1000 (.initProvider "jkl1p1" "https://p1.example" "" 1000000 true)),
    .ev (.msg 6 2000 (.buyStorage "jkl1owner" "jkl1owner" 30 3000000000 "ujkl" none 200000000000000000 "6761" "jkl1gauge1")),
    .ev (.msg 7 3000 (.postFile "jkl1owner" "aa" 100 3 0 0 "{}" true 200000000000000000 "" "")),
    .ev (.msg 8 4000 (.postProof "jkl1p1" "aa" "jkl1owner" 7 0 true 5)),
    .ev (.msg 9 5000 (.requestAttest "jkl1p1" "aa" "jkl1owner" 7 3 ["jkl1p2", "jkl1p3", "jkl1p4"])),
    .setParams { hParams with attestMinToPass := 3 },
    .ev (.block 99 5500) ]

/-- the hypotheses of `C19_storage_reachable` -/
example : SI.EmptyStores h0 := ⟨rfl, rfl, rfl, rfl, rfl, rfl, rfl, rfl, rfl⟩
example : ∀ e ∈ hist, SI.HEvSlashFree e := by decide
example : ∀ e ∈ hist ++ [.ev (.block 100 2592000000000000)], SI.HEvSlashFree e := by decide

/-- every message of the history succeeds; the final state holds a provider (with collateral), a plan, a
gauge, a file with a prover and its proof record, and a form -/
example :
    let s := SI.runH h0 hist
    s.providers.map (·.1) = ["jkl1p1"] ∧ s.collateral = [("jkl1p1", 1000)] ∧ s.payinfo.map (·.1) = ["jkl1owner"] ∧
    s.gauges.map (·.1) = ["6761"] ∧
    s.files.map (fun kv => (kv.1, kv.2.proofs)) = [(("aa", "jkl1owner", 7), [("jkl1p1", "aa", "jkl1owner", 7)])] ∧
    s.files2 = s.files ∧ s.proofs.map (·.1) = [("jkl1p1", "aa", "jkl1owner", 7)] ∧
    s.attests.map (·.1) = [("jkl1p1", "aa", "jkl1owner", 7)] ∧ s.params.attestMinToPass = 3 := by
  set_option maxRecDepth 8000 in decide

/-- so `Inv` and `RawInv` hold there, and the C19 storage theorems apply -/
example : Storage.Inv (SI.runH h0 hist) ∧ Storage.RawInv (SI.runH h0 hist) :=
  C19_storage_reachable hist h0 ⟨rfl, rfl, rfl, rfl, rfl, rfl, rfl, rfl, rfl⟩ (by decide)

example : Storage.validate (Storage.exportGenesis (SI.runH h0 hist)) = true :=
  C19_storage_validate_accepts_export_reachable hist h0 ⟨rfl, rfl, rfl, rfl, rfl, rfl, rfl, rfl, rfl⟩ (by decide)
    (by set_option maxRecDepth 8000 in decide)

/-- with a real reward block at the end (height 100 = the check window; `manageRewards` sorts the provers
with `mergeSort`, which `decide` cannot unfold: evaluated by the kernel, no axiom involved): the block
runs 30 days after the purchase, releases the gauge's tokens, pays them to the prover and keeps the prover -/
example :
    let s := SI.runH h0 (hist ++ [.ev (.block 100 2592000000000000)])
    Canine.Bank.bal (SI.runH h0 hist).bank "jkl1gauge1" "ujkl" = 13999 ∧ Canine.Bank.bal (SI.runH h0 hist).bank "jkl1p1" "ujkl" = 4000 ∧
    Canine.Bank.bal s.bank "jkl1gauge1" "ujkl" = 1 ∧ Canine.Bank.bal s.bank "jkl1p1" "ujkl" = 17998 ∧
    s.files.map (fun kv => kv.2.proofs.map (·.1)) = [["jkl1p1"]] ∧ s.gauges.map (·.1) = ["6761"] := by
  decide +kernel

example : Storage.Inv (SI.runH h0 (hist ++ [.ev (.block 100 2592000000000000)])) ∧ Storage.RawInv (SI.runH h0 (hist ++ [.ev (.block 100 2592000000000000)])) :=
  C19_storage_reachable _ h0 ⟨rfl, rfl, rfl, rfl, rfl, rfl, rfl, rfl, rfl⟩ (by decide)

/-- `SlashFree` is not vacuous: a file whose owner text contains the separator breaks it — and `RawInv`
with it: ("a/b", "c") and ("a", "b/c") are two decoded keys with the one raw key "a/b/c/7/" -/
example : ¬ SI.SlashFree { h0 with files := [(("aa", "x/y", 7), file1)] } := by
  intro h
  exact absurd (h.files ("aa", "x/y", 7) file1 (by decide)).2 (by decide)

example : ¬ Storage.RawInv { h0 with files := [(("a/b", "c", 7), file1), (("a", "b/c", 7), file1)] } := by
  intro h
  exact absurd h.files (by unfold RawNodup; decide)

end C19Ex

end Canine.Genesis
