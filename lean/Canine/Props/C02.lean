/-
C02 — Honest provers can always prove and are never dropped or burned.

1. `C02_initial_challenge_exists`, `C02_challenge_designates_chunk`   the challenge is a chunk index.
2. `C02_honest_proof_verifies`   (Merkle completeness wrapper).
3. `C02_window_iff`, `C02_window_lemma`, `C02_young_file_grace`.
4. `C02_manageProof_keeps_recent_prover`.
5. `C02_never_dropped_nor_burned`, `C02_once_per_window_suffices`, `C02_honest_schedule_kept`;
   `C02_manageFile_all_honest_unchanged`, `C02_empty_old_file_is_dropped`,
   `C02_manageFile_keeps_recent_provers` (honest prover among dishonest ones);
   the whole block: `C02_honest_prover_survives_block`, `C02_honest_provider_not_burned_by_block`,
   `C02_block_all_honest_unchanged`.
6. Along whole executions (helper lemmas in `Canine/Proofs/HonestRun.lean`):
   `C02_schedule_gives_window_test` (schedule of accepted proofs ⇒ `isYoung ∨ ProvenLastBlock`),
   `C02_honest_prover_never_dropped_along_histories` (one file: listed with its record in every
   state of any run of messages / begin-blockers / parameter changes, the only per-block premise
   being the schedule of accepted proofs), `C02_honest_prover_not_burned_on_account_of_file`,
   `C02_honest_prover_never_dropped_whole_run_schedule` (schedule read off the whole run),
   `C02_honest_provider_never_burned_along_histories` (all files of the prover: no reward block
   touches its provider record; burn counter at the end = at the start); non-vacuity:
   `C02_honest_run_example`, `C02_honest_run_example_burn`.
The scope is the reward block: a quorum of `report` messages can still remove any prover (that is
C03/C04 territory), which is why "never dropped" is stated for `manageProof`/`manageFile`/
`manageRewards`.
(Section 6 lifts this to whole executions and excludes those other removals explicitly:
`removesOtherwise`.)
-/
import Canine.Proofs.StorageA
import Canine.Proofs.HonestRun
import Canine.Proofs.Merkle
import Canine.Generated.PureFns
namespace Canine.Storage

/-! ## 1. The challenge always designates an existing chunk -/

theorem C02_initial_challenge_exists (size chunk : Int) (hs : 1 ≤ size) (hc : 1 ≤ chunk) :
    0 < chunkCount size chunk := by
  unfold chunkCount
  rw [Int.tdiv_eq_ediv_of_nonneg (by omega), Int.tmod_eq_emod_of_nonneg (by omega)]
  have hq : 0 ≤ size / chunk := Int.ediv_nonneg (by omega) (by omega)
  have hd := Int.emod_add_mul_ediv size chunk
  split
  · rename_i hm
    rw [hm] at hd
    have : size / chunk ≠ 0 := by
      intro e; rw [e] at hd; simp at hd; omega
    omega
  · omega

theorem C02_challenge_designates_chunk (size chunk r : Int) (hs : 1 ≤ size) (hc : 1 ≤ chunk)
    (hr : 0 < pieces size chunk → 0 ≤ r ∧ r < pieces size chunk) :
    0 ≤ nextChunk size chunk r ∧ nextChunk size chunk r < chunkCount size chunk := by
  have h0 := C02_initial_challenge_exists size chunk hs hc
  unfold nextChunk
  split
  · rename_i hp
    have hp' : 0 < pieces size chunk := hp
    obtain ⟨h1, h2⟩ := hr hp'
    refine ⟨h1, ?_⟩
    unfold pieces at h2
    unfold chunkCount
    dsimp only at h2
    split at h2 <;> split <;> omega
  · exact ⟨by omega, h0⟩

/-! ## 2. An honest proof verifies -/

/-- wrapper of `Merkle.honest_proof_accepted`: for any hash functions, any chunk list and any
challenged index inside the file, the provider's generated proof of the stored chunk is accepted
by the chain's (fixed) verifier against the file's Merkle root -/
theorem C02_honest_proof_verifies (H S : Merkle.Bytes → Merkle.Bytes) (hashLen : Nat)
    (chunks : List Merkle.Bytes) (i : Nat) (hi : i < chunks.length) :
    Merkle.verifyProof H S (Merkle.fileRoot H S hashLen chunks) i (chunks.getD i []) i
      (Merkle.genProof H hashLen (chunks.mapIdx (fun j c => Merkle.leafData S j c)) i) = true :=
  Merkle.honest_proof_accepted H S hashLen chunks i hi

/-! ## 3. The window arithmetic -/

/-- for a reward height at or after the file's start, `roundedWindow` is the start of the proof
window containing `h` -/
theorem roundedWindow_eq (h start W : Int) (hh : start ≤ h) :
    roundedWindow h start W = start + (h - start) / W * W := by
  unfold roundedWindow
  dsimp only
  rw [Int.tmod_eq_emod_of_nonneg (by omega)]
  have := Int.emod_add_mul_ediv (h - start) W
  rw [Int.mul_comm] at this
  omega

/-- `ProvenLastBlock` ⇔ the last accepted proof is not older than the start of the previous window
(true for every `W`, so `1 ≤ W` is not even needed) -/
theorem C02_window_iff (h start W lp : Int) (hh : start ≤ h) :
    provenLastBlock h start W lp = true ↔ lp ≥ start + ((h - start) / W - 1) * W := by
  unfold provenLastBlock
  rw [roundedWindow_eq h start W hh, Int.sub_mul]
  simp only [decide_eq_true_eq]
  omega

theorem C02_window_lemma (h start W lp : Int) (hh : start ≤ h) (_hW : 1 ≤ W)
    (hlp : lp ≥ start + ((h - start) / W - 1) * W) : provenLastBlock h start W lp = true :=
  (C02_window_iff h start W lp hh).mpr hlp

theorem C02_young_file_grace (h start W : Int) (hh : h ≤ start + W) : isYoung h start W = true := by
  unfold isYoung; simp only [decide_eq_true_eq]; omega

/-! ## 4. The reward block keeps a prover that proved recently -/

theorem C02_manageProof_keeps_recent_prover (s : State) (h : Int) (t : Tracker) (file : File)
    (pk : PKey) (p : Proof) (hp : AMap.get s.proofs pk = some p)
    (hok : isYoung h file.start file.proofInterval = true ∨
      provenLastBlock h file.start file.proofInterval p.lastProven = true) :
    manageProof s h t file pk = (s, credit t p.prover file.fileSize, file) := by
  unfold manageProof
  simp only [hp]
  rcases hok with hy | hpr
  · simp [hy]
  · simp [hpr]

/-! ## 5. An honest schedule is never dropped nor burned -/

/-- The schedule statement at one reward block: a prover whose last accepted proof is not older than
the start of the window before the one containing the reward height `h` is kept by `manageProof`:
the state — the file's prover list, every record, every provider's burn counter — is untouched, and
the prover is credited the file's size. -/
theorem C02_never_dropped_nor_burned (s : State) (h : Int) (t : Tracker) (file : File) (pk : PKey)
    (p : Proof) (hp : AMap.get s.proofs pk = some p) (hh : file.start ≤ h)
    (hW : 1 ≤ file.proofInterval)
    (hlp : p.lastProven ≥
      file.start + ((h - file.start) / file.proofInterval - 1) * file.proofInterval) :
    manageProof s h t file pk = (s, credit t p.prover file.fileSize, file) :=
  C02_manageProof_keeps_recent_prover s h t file pk p hp
    (Or.inr (C02_window_lemma h file.start file.proofInterval p.lastProven hh hW hlp))

/-- "At least one accepted proof in every proof window" gives the bound of
`C02_never_dropped_nor_burned` at *every* reward height `h`.

`accepted x` = a proof of the prover was accepted at height `x`; the prover joined at `join`
(its first accepted proof, which sets `lastProven := join`); `lp`, the `lastProven` seen by the
reward block at height `h`, is at least every accepted height before `h` (each acceptance sets
`lastProven` to the current height, and attestations only raise it).  The only windows the prover is
asked about are the *complete* ones (`start + (j+1)·W ≤ h`) that begin at or after it joined. -/
theorem C02_once_per_window_suffices (accepted : Int → Prop) (start W h join lp : Int)
    (hW : 1 ≤ W) (hstart : start ≤ join) (hjoin : accepted join) (hjoinlt : join < h)
    (hlp : ∀ x, accepted x → x < h → x ≤ lp)
    (hevery : ∀ j : Int, 0 ≤ j → join ≤ start + j * W → start + (j + 1) * W ≤ h →
      ∃ x, accepted x ∧ start + j * W ≤ x ∧ x < start + (j + 1) * W) :
    lp ≥ start + ((h - start) / W - 1) * W := by
  have hj := hlp join hjoin hjoinlt
  have hd := Int.emod_add_mul_ediv (h - start) W
  have hm0 := Int.emod_nonneg (h - start) (by omega : W ≠ 0)
  have hm1 := Int.emod_lt_of_pos (h - start) (by omega : 0 < W)
  have hq0 : 0 ≤ (h - start) / W := Int.ediv_nonneg (by omega) (by omega)
  generalize (h - start) / W = q at *
  have e1 : (q - 1) * W = q * W - W := by rw [Int.sub_mul, Int.one_mul]
  rw [e1]
  rw [Int.mul_comm W q] at hd
  by_cases hq : q = 0
  · subst hq; simp only [Int.zero_mul] at *; omega
  · by_cases hjw : join ≤ start + (q - 1) * W
    · have e2 : (q - 1 + 1) * W = q * W := by rw [Int.sub_add_cancel]
      obtain ⟨x, hx, hx1, hx2⟩ := hevery (q - 1) (by omega) hjw (by rw [e2]; omega)
      rw [e2] at hx2; rw [e1] at hx1
      have := hlp x hx (by omega)
      omega
    · rw [e1] at hjw; omega

/-- the two previous statements combined: an honest schedule is kept at every reward block -/
theorem C02_honest_schedule_kept (s : State) (h : Int) (t : Tracker) (file : File) (pk : PKey)
    (p : Proof) (accepted : Int → Prop) (join : Int)
    (hp : AMap.get s.proofs pk = some p) (hW : 1 ≤ file.proofInterval)
    (hstart : file.start ≤ join) (hjoin : accepted join) (hjoinlt : join < h)
    (hlp : ∀ x, accepted x → x < h → x ≤ p.lastProven)
    (hevery : ∀ j : Int, 0 ≤ j → join ≤ file.start + j * file.proofInterval →
      file.start + (j + 1) * file.proofInterval ≤ h →
      ∃ x, accepted x ∧ file.start + j * file.proofInterval ≤ x ∧
        x < file.start + (j + 1) * file.proofInterval) :
    manageProof s h t file pk = (s, credit t p.prover file.fileSize, file) :=
  C02_never_dropped_nor_burned s h t file pk p hp (by omega) hW
    (C02_once_per_window_suffices accepted file.start file.proofInterval h join p.lastProven hW
      hstart hjoin hjoinlt hlp hevery)

/-- Lift to `manageFile`: if every listed proof key has a recent record, the file's management
leaves the whole state unchanged (in particular `files`, `files2`, `proofs`, `providers`) —
provided the file has a prover or is young; see `C02_empty_old_file_is_dropped` for the other case. -/
theorem C02_manageFile_all_honest_unchanged (s : State) (h : Int) (t : Tracker) (file : File)
    (hall : ∀ pk ∈ file.proofs, Recent s h file pk)
    (hne : file.proofs ≠ [] ∨ isYoung h file.start file.proofInterval = true) :
    (manageFile s h t file).1 = s := by
  rcases manageFile_cases s h t file with ⟨hnil, hy, _⟩ | ⟨_, e⟩
  · rcases hne with hne | hne
    · exact absurd hnil hne
    · rw [hne] at hy; cases hy
  · rw [e]
    obtain ⟨t', ht'⟩ := mfLoop_all_recent h file file.proofs s t hall
    unfold mfLoop; rw [ht']

/-- a file with no prover that is no longer young is removed by the reward block -/
theorem C02_empty_old_file_is_dropped (s : State) (h : Int) (t : Tracker) (file : File)
    (hnil : file.proofs = []) (hold : isYoung h file.start file.proofInterval = false) :
    manageFile s h t file = (removeFile s file.key, t) := by
  rcases manageFile_cases s h t file with ⟨_, _, e⟩ | ⟨hne, _⟩
  · exact e
  · rcases hne with hne | hne
    · exact absurd hnil hne
    · rw [hne] at hold; cases hold

/-- `manageFile` among dishonest co-provers: whatever happens to the other proof keys of the file,
a recent prover stays listed in the stored file and its record is untouched; and a provider none of
whose keys in this file is stale is not burned.  (`hget`: the file is the stored one, as in
`C01_manageFile_never_adds_provers`.) -/
theorem C02_manageFile_keeps_recent_provers (s : State) (h : Int) (t : Tracker) (file : File)
    (hget : AMap.get s.files file.key = some file) :
    (∀ pk ∈ file.proofs, Recent s h file pk →
      AMap.get (manageFile s h t file).1.proofs pk = AMap.get s.proofs pk ∧
      ∃ f', AMap.get (manageFile s h t file).1.files file.key = some f' ∧ pk ∈ f'.proofs) ∧
    (∀ x, (∀ pk ∈ file.proofs, pk.1 = x → Recent s h file pk) →
      AMap.get (manageFile s h t file).1.providers x = AMap.get s.providers x) :=
  manageFile_keeps_recent s h t file hget

/-- The whole reward block on a consistent state, among arbitrary other files and provers: a prover
with a recent record is still listed in its file afterwards, with its record untouched. -/
theorem C02_honest_prover_survives_block (s s' : State) (h now : Int) (hc : Consistent s)
    (hs : manageRewards s h now = .ok s') (k : FKey) (f : File) (pk : PKey)
    (hf : AMap.get s.files k = some f) (hpk : pk ∈ f.proofs) (hr : Recent s h f pk) :
    AMap.get s'.proofs pk = AMap.get s.proofs pk ∧
    ∃ f', AMap.get s'.files k = some f' ∧ pk ∈ f'.proofs := by
  obtain ⟨_, rel, _⟩ := manageRewards_out hc hs
  obtain ⟨e, f', hf', hin⟩ := (filesLoop_keep s h hc).provers k f pk hf hpk hr
  exact ⟨by rw [rel.proofs]; exact e, f', by rw [rel.files]; exact hf', hin⟩

/-- ... and a provider all of whose listed proof keys (in every file) are recent is not burned -/
theorem C02_honest_provider_not_burned_by_block (s s' : State) (h now : Int) (hc : Consistent s)
    (hs : manageRewards s h now = .ok s') (x : String)
    (hx : ∀ k f, AMap.get s.files k = some f → ∀ pk ∈ f.proofs, pk.1 = x → Recent s h f pk) :
    AMap.get s'.providers x = AMap.get s.providers x := by
  obtain ⟨_, rel, _⟩ := manageRewards_out hc hs
  rw [rel.providers]
  exact (filesLoop_keep s h hc).providers x hx

/-- if all provers of all files are recent and no file is empty and old, the reward block changes
neither files, nor proof records, nor providers -/
theorem C02_block_all_honest_unchanged (s s' : State) (h now : Int) (hc : Consistent s)
    (hs : manageRewards s h now = .ok s')
    (hall : ∀ k f, AMap.get s.files k = some f →
      (∀ pk ∈ f.proofs, Recent s h f pk) ∧
      (f.proofs ≠ [] ∨ isYoung h f.start f.proofInterval = true)) :
    s'.files = s.files ∧ s'.files2 = s.files2 ∧ s'.proofs = s.proofs ∧ s'.providers = s.providers := by
  obtain ⟨_, rel, _⟩ := manageRewards_out hc hs
  have hloop : (filesLoop h s.files (s, [])).1 = s := by
    apply filesLoop_induct s h hc (fun a => a.1 = s)
    · intro a kv hkv _ _ ha
      have hs' : AMap.get s.files kv.1 = some kv.2 :=
        AMap.get_of_mem_wf hc.wf (by cases kv; exact hkv)
      obtain ⟨h1, h2⟩ := hall _ _ hs'
      show (manageFile a.1 h a.2 kv.2).1 = s
      rw [ha]
      exact C02_manageFile_all_honest_unchanged s h a.2 kv.2 h1 h2
    · rfl
  rw [hloop] at rel
  exact ⟨rel.files, rel.files2, rel.proofs, rel.providers⟩

/-! ## Non-vacuity: window 50, reward every 11 blocks, one proof in the last block of each window -/

/-- file started at height 10 with window 50: windows [10,60), [60,110), [110,160), …; bob proves at
the last block of each window: 59, 109, 159, … -/
def schedAccepted (x : Int) : Prop := 59 ≤ x ∧ x % 50 = 9

-- the schedule has a proof in every window (hypothesis `hevery` of `C02_once_per_window_suffices`)
example : ∀ j : Int, 0 ≤ j → (59 : Int) ≤ 10 + j * 50 → 10 + (j + 1) * 50 ≤ 154 →
    ∃ x, schedAccepted x ∧ 10 + j * 50 ≤ x ∧ x < 10 + (j + 1) * 50 := by
  intro j _ _ _
  exact ⟨10 + (j + 1) * 50 - 1, ⟨by omega, by omega⟩, by omega, by omega⟩

-- reward heights are the multiples of 11; at each of them the last accepted proof satisfies the bound
example : (66 : Int) % 11 = 0 ∧ (59 : Int) ≥ 10 + ((66 - 10) / 50 - 1) * 50 := by decide
example : (110 : Int) % 11 = 0 ∧ (109 : Int) ≥ 10 + ((110 - 10) / 50 - 1) * 50 := by decide
-- the worst case: the reward block just before the proof of the current window
example : (154 : Int) % 11 = 0 ∧ (109 : Int) ≥ 10 + ((154 - 10) / 50 - 1) * 50 := by decide
example : provenLastBlock 154 10 50 109 = true := by decide
example : provenLastBlock 165 10 50 159 = true := by decide
-- a prover that skipped the window [60,110) is stale at 121
example : provenLastBlock 121 10 50 59 = false := by decide

def schedParams : Params :=
  { proofWindow := 50, checkWindow := 11, chunkSize := 1024, pricePerTbPerMonth := 8,
    collateralPrice := 1000, attestFormSize := 5, attestMinToPass := 3, referralCommission := 25,
    polRatio := 40 }

def schedKey : FKey := ("aa", "alice", 10)

/-- two provers: bob (honest, last proof at 109) and carol (last proof at 59) -/
def schedFile : File :=
  { merkle := "aa", owner := "alice", start := 10, expires := 0, fileSize := 2500,
    proofInterval := 50, proofType := 0, proofs := [("bob", schedKey), ("carol", schedKey)],
    maxProofs := 3, note := "{}" }

def schedProvider (a : String) : Provider :=
  { address := a, ip := "http://x", totalspace := "1000000", burned := some 0, creator := a,
    keybase := "", claimers := [] }

def schedRecord (a : String) (lastProven challenge : Int) : Proof :=
  { prover := a, merkle := "aa", owner := "alice", start := 10, lastProven := lastProven,
    chunkToProve := challenge }

def schedState : State :=
  { files := [(schedKey, schedFile)], files2 := [(schedKey, schedFile)],
    proofs := [(("bob", schedKey), schedRecord "bob" 109 1), (("carol", schedKey), schedRecord "carol" 59 2)],
    providers := [("bob", schedProvider "bob"), ("carol", schedProvider "carol")],
    payinfo := [], collateral := [], gauges := [], attests := [], reports := [], bank := [],
    params := schedParams, moduleAcc := "storage", collateralAcc := "collateral", polAcc := "pol",
    feeAcc := "fee", blocked := [] }

-- the hypotheses of `C02_never_dropped_nor_burned` hold for bob at the reward heights 121 and 154 …
example : AMap.get schedState.proofs ("bob", schedKey) = some (schedRecord "bob" 109 1) ∧
    schedFile.start ≤ 154 ∧ 1 ≤ schedFile.proofInterval ∧
    (109 : Int) ≥ schedFile.start + ((154 - schedFile.start) / schedFile.proofInterval - 1)
      * schedFile.proofInterval := by decide
-- … so he is kept and credited, while carol (who skipped a window) is dropped and burned
example : manageProof schedState 154 [] schedFile ("bob", schedKey)
    = (schedState, [("bob", 2500)], schedFile) := by decide
example : (AMap.get (manageFile schedState 154 [] schedFile).1.files schedKey).map (·.proofs)
    = some [("bob", schedKey)] := by decide
example : AMap.get (manageFile schedState 154 [] schedFile).1.proofs ("bob", schedKey)
    = AMap.get schedState.proofs ("bob", schedKey) := by decide
example : (AMap.get (manageFile schedState 154 [] schedFile).1.providers "bob").map (·.burned)
    = some (some 0) := by decide
example : (AMap.get (manageFile schedState 154 [] schedFile).1.providers "carol").map (·.burned)
    = some (some 1) := by decide
example : (manageFile schedState 154 [] schedFile).2 = [("bob", 2500)] := by decide
-- with only honest provers listed the whole state is untouched
example : (manageFile { schedState with files := [(schedKey, { schedFile with proofs := [("bob", schedKey)] })] }
    154 [] { schedFile with proofs := [("bob", schedKey)] }).1
    = { schedState with files := [(schedKey, { schedFile with proofs := [("bob", schedKey)] })] } := by
  decide

/-- `schedState` after the reward block at height 154: carol dropped and burned -/
def schedState' : State := (manageFile schedState 154 [] schedFile).1

/-- the block at height 154 (a multiple of the reward interval 11) runs without panic -/
theorem sched_block : manageRewards schedState 154 0 = .ok schedState' := by
  have h1 : schedState.files.foldl (fun (acc : State × Tracker) kv => manageFile acc.1 154 acc.2 kv.2)
      (schedState, []) = (schedState', [("bob", 2500)]) := by decide
  have h2 : pullGauges schedState' 0 = .ok (schedState', []) := rfl
  have h3 : sortedProvers [("bob", 2500)] = [("bob", 2500)] := by simp [sortedProvers]
  unfold manageRewards
  simp only [h1, bind, Except.bind, h2, h3, List.foldlM_cons, List.foldlM_nil]
  rfl

theorem schedState_consistent : Consistent schedState := by
  refine ⟨by unfold AMap.WF; decide, ?_, ?_, ?_, ?_⟩
  · intro k f hf
    simp only [schedState, AMap.get] at hf
    split at hf
    · rename_i e; cases hf; exact e
    · cases hf
  · intro k f hf
    simp only [schedState, AMap.get] at hf
    split at hf
    · rename_i e; cases hf; intro pk hpk
      simp only [schedFile, List.mem_cons, List.not_mem_nil, or_false] at hpk
      rcases hpk with rfl | rfl <;> exact e
    · cases hf
  · intro pk p hp
    simp only [schedState, AMap.get] at hp
    split at hp
    · rename_i e; cases hp; rw [← e]; rfl
    · split at hp
      · rename_i e; cases hp; rw [← e]; rfl
      · cases hp
  · intro pk fm hfm; simp [schedState] at hfm

theorem sched_bob_recent : Recent schedState 154 schedFile ("bob", schedKey) :=
  ⟨schedRecord "bob" 109 1, by decide, Or.inr (by decide)⟩

-- all hypotheses of `C02_honest_prover_survives_block` hold for bob; its conclusion, instantiated:
example : AMap.get schedState'.proofs ("bob", schedKey) = AMap.get schedState.proofs ("bob", schedKey) ∧
    ∃ f', AMap.get schedState'.files schedKey = some f' ∧ ("bob", schedKey) ∈ f'.proofs :=
  C02_honest_prover_survives_block schedState schedState' 154 0 schedState_consistent sched_block
    schedKey schedFile ("bob", schedKey) (by decide) (by decide) sched_bob_recent

/-! ## The window arithmetic as it stands in the source (regenerated tie) -/

/-- `getRoundedWindow`, `ProvenLastBlock`, `ProvenThisBlock` and `IsYoung`, translated from
x/storage/types/file.go on every run (Generated/PureFns.lean), are the window functions all the
theorems above are about — and they still read exactly the receiver fields `Start` and
`ProofInterval`. -/
theorem C02_generated_window_functions_are_the_model (h start window lp : Int) :
    Generated.Pure.getRoundedWindow h start window = roundedWindow h start window ∧
    Generated.Pure.ProvenLastBlock start window h lp = provenLastBlock h start window lp ∧
    Generated.Pure.ProvenThisBlock start window h lp = provenThisBlock h start window lp ∧
    Generated.Pure.IsYoung start window h = isYoung h start window ∧
    Generated.Pure.getRoundedWindow_inputs = [] ∧
    Generated.Pure.ProvenLastBlock_inputs = ["f.Start", "f.ProofInterval"] ∧
    Generated.Pure.ProvenThisBlock_inputs = ["f.Start", "f.ProofInterval"] ∧
    Generated.Pure.IsYoung_inputs = ["f.Start", "f.ProofInterval"] :=
  ⟨rfl, rfl, rfl, rfl, rfl, rfl, rfl, rfl⟩

/-! ## 6. Along whole executions: the schedule of accepted proofs is the only per-block premise -/

/-- **From the schedule to the chain's window test.**  `A` = the heights at which proofs of the
prover were accepted so far (`join ∈ A`: the first of them, the joining height); `lp`, the stored
`lastProven`, is at least each of them.  If every complete proof window `[st + j·W, st + (j+1)·W)`
that begins at or after `join` and ends at or before the reward height `h` contains a height of `A`,
then at `h` the file is still in its first window (`isYoung`, not judged) or the record passes
`ProvenLastBlock`. -/
theorem C02_schedule_gives_window_test (st W h lp join : Int) (A : List Int) (hW : 1 ≤ W)
    (hjoin : join ∈ A) (hlp : ∀ x ∈ A, x ≤ lp)
    (hevery : ∀ j : Int, 0 ≤ j → join ≤ st + j * W → st + (j + 1) * W ≤ h →
      ∃ x ∈ A, st + j * W ≤ x ∧ x < st + (j + 1) * W) :
    isYoung h st W = true ∨ provenLastBlock h st W lp = true := by
  by_cases hy : h ≤ st + W
  · exact Or.inl (C02_young_file_grace h st W hy)
  · right
    rw [C02_window_iff h st W lp (by omega)]
    have hj := hlp join hjoin
    have hd := Int.emod_add_mul_ediv (h - st) W
    have hm0 := Int.emod_nonneg (h - st) (by omega : W ≠ 0)
    have hm1 := Int.emod_lt_of_pos (h - st) (by omega : 0 < W)
    have hq0 : 0 ≤ (h - st) / W := Int.ediv_nonneg (by omega) (by omega)
    generalize (h - st) / W = q at *
    have e1 : (q - 1) * W = q * W - W := by rw [Int.sub_mul, Int.one_mul]
    rw [Int.mul_comm W q] at hd
    by_cases hq : q = 0
    · subst hq; simp only [Int.zero_mul] at *; omega
    · by_cases hjw : join ≤ st + (q - 1) * W
      · have e2 : (q - 1 + 1) * W = q * W := by rw [Int.sub_add_cancel]
        obtain ⟨x, hx, hx1, _⟩ := hevery (q - 1) (by omega) hjw (by rw [e2]; omega)
        have := hlp x hx
        omega
      · omega

/-- **C02 along whole executions, one file.**

Setting.  `s0` is any consistent state (every reachable state is one: `consistent_run`) in which
prover `c` is listed on the file `f0` stored at key `k = (merkle, owner, start)` and has a proof
record `p0`; `W = f0.proofInterval ≥ 1` is the file's own proof window, fixed when it was posted.
`evs` is any sequence of delivered messages, begin-blockers and governance parameter changes
(`setParams`: `ProofWindow`, `CheckWindow`, … may all move during the run) that goes through.

Hypotheses about the history only:
* `hmono`  heights do not decrease along the run and are at least `p0.lastProven` (the record is
  not from the future);
* `hno`    no event of `removesOtherwise` (the owner's `deleteFile` of `k`; the owner's re-`postFile`
  of the same Merkle root in the file's start block; a `report` against `(c, k)` completing its
  quorum) — none of them is a reward block, `step_local` proves there is no other message that
  unlists `(c, k)` or deletes its record;
* `hsched` the schedule: for every begin-blocker of the run that runs the reward block (height `h`,
  `h % CheckWindow` not positive with the `CheckWindow` in force at that moment) and every complete
  proof window `[start + j·W, start + (j+1)·W)`, `j ≥ 0`, that begins at or after the joining height
  `p0.lastProven` and ends at or before `h`: one of the heights `p0.lastProven`, or a height at which
  a `postProof` of `c` for `k` was accepted earlier in the run, lies in that window.

Conclusions.
1. (derived, not assumed) at every reward block of the run the file is still in its first window
   (`isYoung`: the chain does not judge it) or the prover's record passes the chain's test
   `ProvenLastBlock` — i.e. `Recent`, the premise of `C02_honest_prover_survives_block`;
2. in every state of the run (before each event, and at the end) `c` is still listed on the file
   stored at `k`, that file still has proof window `W`, and the proof record of `(c, k)` exists. -/
theorem C02_honest_prover_never_dropped_along_histories
    (c : String) (k : FKey) (evs : List Event) (s0 s' : State) (f0 : File) (p0 : Proof)
    (hc : Consistent s0)
    (hf0 : AMap.get s0.files k = some f0) (hl0 : (c, k) ∈ f0.proofs)
    (hp0 : AMap.get s0.proofs (c, k) = some p0)
    (hW : 1 ≤ f0.proofInterval)
    (hrun : evs.foldlM applyEvent s0 = some s')
    (hmono : (p0.lastProven :: evs.filterMap Event.height).Pairwise (· ≤ ·))
    (hno : ∀ se ∈ runTrace s0 evs, ¬ removesOtherwise c k se.1 se.2)
    (hsched : ∀ pre s h now post, runTrace s0 evs = pre ++ (s, Event.block h now) :: post →
      rewardHeight s h →
      ∀ j : Int, 0 ≤ j → p0.lastProven ≤ k.2.2 + j * f0.proofInterval →
        k.2.2 + (j + 1) * f0.proofInterval ≤ h →
        ∃ x ∈ p0.lastProven :: acceptedIn c k pre,
          k.2.2 + j * f0.proofInterval ≤ x ∧ x < k.2.2 + (j + 1) * f0.proofInterval) :
    (∀ pre s h now post, runTrace s0 evs = pre ++ (s, Event.block h now) :: post → rewardHeight s h →
      ∃ f, AMap.get s.files k = some f ∧ (c, k) ∈ f.proofs ∧ Recent s h f (c, k)) ∧
    (∀ s ∈ runStates s0 evs s', ∃ f p, AMap.get s.files k = some f ∧ (c, k) ∈ f.proofs ∧
      f.proofInterval = f0.proofInterval ∧ AMap.get s.proofs (c, k) = some p) := by
  rw [List.pairwise_cons] at hmono
  obtain ⟨hA0, hmono⟩ := hmono
  -- the schedule gives the window test for every `lastProven` dominating the accepted heights
  have hwin : ∀ pre s h now post, runTrace s0 evs = pre ++ (s, Event.block h now) :: post →
      rewardHeight s h → Consistent s → ∀ f, AMap.get s.files k = some f →
        f.proofInterval = f0.proofInterval →
        ∀ lp, (∀ x ∈ [p0.lastProven] ++ acceptedIn c k pre, x ≤ lp) → WindowOK h f lp := by
    intro pre s h now post hsplit hrh hcs f hf hWf lp hlp
    have hst : f.start = k.2.2 := by rw [← hcs.key k f hf]; rfl
    unfold WindowOK
    rw [hst, hWf]
    exact C02_schedule_gives_window_test k.2.2 f0.proofInterval h lp p0.lastProven
      (p0.lastProven :: acceptedIn c k pre) hW List.mem_cons_self hlp
      (hsched pre s h now post hsplit hrh)
  have h0 : Held c k f0.proofInterval s0 [p0.lastProven] :=
    ⟨f0, p0, hf0, hl0, rfl, hp0, fun x hx => by rw [List.mem_singleton.mp hx]; exact Int.le_refl _⟩
  obtain ⟨⟨_, hend⟩, hall⟩ := held_run c k f0.proofInterval evs s0 s' [p0.lastProven] hc h0
    (by simp) hrun hmono
    (fun x hx h hh => by rw [List.mem_singleton.mp hx]; exact hA0 h hh) hno hwin
  constructor
  · intro pre s h now post hsplit hrh
    obtain ⟨hcs, f, p, hf, hl, hWf, hp, hb⟩ := hall pre s _ post hsplit
    exact ⟨f, hf, hl, p, hp, hwin pre s h now post hsplit hrh hcs f hf hWf p.lastProven hb⟩
  · intro s hs
    rcases runStates_cases hs with e | ⟨pre, e, post, hsplit⟩
    · subst e
      obtain ⟨f, p, hf, hl, hWf, hp, _⟩ := hend
      exact ⟨f, p, hf, hl, hWf, hp⟩
    · obtain ⟨_, f, p, hf, hl, hWf, hp, _⟩ := hall pre s e post hsplit
      exact ⟨f, p, hf, hl, hWf, hp⟩

/-- **… and no reward block of the run burns the prover's provider on account of that file.**
Under the hypotheses of `C02_honest_prover_never_dropped_along_histories`: a begin-blocker of the
run leaves `c`'s provider record (burn counter included) untouched whenever `c`'s proof keys on the
*other* files pass the window test at that block — so any increase of the counter is attributable to
another file.  (`C02_honest_provider_never_burned_along_histories` below removes the premise about
the other files by asking the schedule of all of them.) -/
theorem C02_honest_prover_not_burned_on_account_of_file
    (c : String) (k : FKey) (evs : List Event) (s0 s' : State) (f0 : File) (p0 : Proof)
    (hc : Consistent s0)
    (hf0 : AMap.get s0.files k = some f0) (hl0 : (c, k) ∈ f0.proofs)
    (hp0 : AMap.get s0.proofs (c, k) = some p0)
    (hW : 1 ≤ f0.proofInterval)
    (hrun : evs.foldlM applyEvent s0 = some s')
    (hmono : (p0.lastProven :: evs.filterMap Event.height).Pairwise (· ≤ ·))
    (hno : ∀ se ∈ runTrace s0 evs, ¬ removesOtherwise c k se.1 se.2)
    (hsched : ∀ pre s h now post, runTrace s0 evs = pre ++ (s, Event.block h now) :: post →
      rewardHeight s h →
      ∀ j : Int, 0 ≤ j → p0.lastProven ≤ k.2.2 + j * f0.proofInterval →
        k.2.2 + (j + 1) * f0.proofInterval ≤ h →
        ∃ x ∈ p0.lastProven :: acceptedIn c k pre,
          k.2.2 + j * f0.proofInterval ≤ x ∧ x < k.2.2 + (j + 1) * f0.proofInterval) :
    ∀ pre s h now post sa, runTrace s0 evs = pre ++ (s, Event.block h now) :: post →
      applyEvent s (.block h now) = some sa →
      (∀ k' f', k' ≠ k → AMap.get s.files k' = some f' → (c, k') ∈ f'.proofs →
        Recent s h f' (c, k')) →
      AMap.get sa.providers c = AMap.get s.providers c := by
  obtain ⟨hrec, _⟩ := C02_honest_prover_never_dropped_along_histories c k evs s0 s' f0 p0 hc hf0 hl0
    hp0 hW hrun hmono hno hsched
  intro pre s h now post sa hsplit hs hothers
  have hcs : Consistent s := consistent_of_split hc hrun hsplit
  apply block_keeps_provider hcs (applyEvent_block hs) c
  intro hrh k' f' hf' pk hpk hpc
  have hk : pk.2 = k' := hcs.listed k' f' hf' pk hpk
  have e : pk = (c, k') := by
    obtain ⟨a, b⟩ := pk
    simp only at hpc hk
    rw [hpc, hk]
  subst e
  by_cases hkk : k' = k
  · subst hkk
    obtain ⟨f, hf, _, hr⟩ := hrec pre s h now post hsplit hrh
    rw [hf'] at hf; cases hf
    exact hr
  · exact hothers k' f' hkk hf' hpk

/-- **The same with the schedule read off the whole run.**  Because heights do not decrease, the
schedule hypothesis may be stated with *all* the accepted heights of the run, wherever they occur:
"the heights at which a `postProof` of `c` for `k` was accepted in the run, plus the joining height,
contain one height in every complete proof window of the file that ends at or before a reward
block" (an accepted height below the end of such a window is below the block's height, hence
occurred before the block). -/
theorem C02_honest_prover_never_dropped_whole_run_schedule
    (c : String) (k : FKey) (evs : List Event) (s0 s' : State) (f0 : File) (p0 : Proof)
    (hc : Consistent s0)
    (hf0 : AMap.get s0.files k = some f0) (hl0 : (c, k) ∈ f0.proofs)
    (hp0 : AMap.get s0.proofs (c, k) = some p0)
    (hW : 1 ≤ f0.proofInterval)
    (hrun : evs.foldlM applyEvent s0 = some s')
    (hmono : (p0.lastProven :: evs.filterMap Event.height).Pairwise (· ≤ ·))
    (hno : ∀ se ∈ runTrace s0 evs, ¬ removesOtherwise c k se.1 se.2)
    (hsched : ∀ s h now, (s, Event.block h now) ∈ runTrace s0 evs → rewardHeight s h →
      ∀ j : Int, 0 ≤ j → p0.lastProven ≤ k.2.2 + j * f0.proofInterval →
        k.2.2 + (j + 1) * f0.proofInterval ≤ h →
        ∃ x ∈ p0.lastProven :: acceptedIn c k (runTrace s0 evs),
          k.2.2 + j * f0.proofInterval ≤ x ∧ x < k.2.2 + (j + 1) * f0.proofInterval) :
    (∀ pre s h now post, runTrace s0 evs = pre ++ (s, Event.block h now) :: post → rewardHeight s h →
      ∃ f, AMap.get s.files k = some f ∧ (c, k) ∈ f.proofs ∧ Recent s h f (c, k)) ∧
    (∀ s ∈ runStates s0 evs s', ∃ f p, AMap.get s.files k = some f ∧ (c, k) ∈ f.proofs ∧
      f.proofInterval = f0.proofInterval ∧ AMap.get s.proofs (c, k) = some p) := by
  apply C02_honest_prover_never_dropped_along_histories c k evs s0 s' f0 p0 hc hf0 hl0 hp0 hW hrun
    hmono hno
  intro pre s h now post hsplit hrh j hj hjoin hjw
  have hmem : (s, Event.block h now) ∈ runTrace s0 evs := by rw [hsplit]; simp
  obtain ⟨x, hx, hx1, hx2⟩ := hsched s h now hmem hrh j hj hjoin hjw
  refine ⟨x, ?_, hx1, hx2⟩
  rcases List.mem_cons.mp hx with hx | hx
  · rw [hx]; exact List.mem_cons_self
  · apply List.mem_cons_of_mem
    rw [hsplit, acceptedIn_append] at hx
    rcases List.mem_append.mp hx with hx | hx
    · exact hx
    · have := accepted_ge_of_split hrun (List.pairwise_cons.mp hmono).2 hsplit c k h rfl x hx
      omega

/-! ### Non-vacuity of `C02_honest_prover_never_dropped_along_histories`

A file started at height 10 with proof window 4 (windows [10,14), [14,18), [18,22)); bob joined at 10
and gets one proof accepted per window (12, 15, 19); the begin-blocker runs the reward block at 15
(check window 5) and, after governance moved `ProofWindow` to 7 and `CheckWindow` to 10, at 20. -/

def runParams : Params := { schedParams with proofWindow := 4, checkWindow := 5 }
def runParams' : Params := { schedParams with proofWindow := 7, checkWindow := 10 }

def runFile : File :=
  { merkle := "aa", owner := "alice", start := 10, expires := 0, fileSize := 2500,
    proofInterval := 4, proofType := 0, proofs := [("bob", schedKey)], maxProofs := 3, note := "{}" }

/-- bob listed on the file, last accepted proof at `lp`, module parameters `ps` -/
def runState (lp : Int) (ps : Params) : State :=
  { files := [(schedKey, runFile)], files2 := [(schedKey, runFile)],
    proofs := [(("bob", schedKey), schedRecord "bob" lp 0)],
    providers := [("bob", schedProvider "bob")],
    payinfo := [], collateral := [], gauges := [], attests := [], reports := [], bank := [],
    params := ps, moduleAcc := "storage", collateralAcc := "collateral", polAcc := "pol",
    feeAcc := "fee", blocked := [] }

def runProof (h : Int) : Event := .msg h 0 (.postProof "bob" "aa" "alice" 10 0 true 0)

def runEvents : List Event :=
  [runProof 12, .block 15 0, runProof 15, .setParams runParams', runProof 19, .block 20 0]

theorem runState_consistent (lp : Int) (ps : Params) : Consistent (runState lp ps) := by
  refine ⟨by simp [AMap.WF, AMap.keys, runState], ?_, ?_, ?_, ?_⟩
  · intro k f hf
    simp only [runState, AMap.get] at hf
    split at hf
    · rename_i e; cases hf; exact e
    · cases hf
  · intro k f hf
    simp only [runState, AMap.get] at hf
    split at hf
    · rename_i e; cases hf; intro pk hpk
      simp only [runFile, List.mem_cons, List.not_mem_nil, or_false] at hpk
      rw [hpk]; exact e
    · cases hf
  · intro pk p hp
    simp only [runState, AMap.get] at hp
    split at hp
    · rename_i e; cases hp; rw [← e]; rfl
    · cases hp
  · intro pk fm hfm; simp [runState] at hfm

/-- a reward block on a state with bob alone and recent: nothing changes -/
theorem run_block (lp : Int) (ps : Params) (h : Int)
    (h1 : (runState lp ps).files.foldl
      (fun (acc : State × Tracker) kv => manageFile acc.1 h acc.2 kv.2) (runState lp ps, [])
        = (runState lp ps, [("bob", 2500)])) :
    manageRewards (runState lp ps) h 0 = .ok (runState lp ps) := by
  have h2 : pullGauges (runState lp ps) 0 = .ok (runState lp ps, []) := rfl
  have h3 : sortedProvers [("bob", 2500)] = [("bob", 2500)] := by simp [sortedProvers]
  unfold manageRewards
  simp only [h1, bind, Except.bind, h2, h3, List.foldlM_cons, List.foldlM_nil]
  rfl

theorem run_step1 : applyEvent (runState 10 runParams) (runProof 12) = some (runState 12 runParams) := by decide
theorem run_step2 : applyEvent (runState 12 runParams) (.block 15 0) = some (runState 12 runParams) := by
  have := run_block 12 runParams 15 (by decide)
  simp only [applyEvent, beginBlock]
  rw [if_neg (by decide), if_neg (by decide), this]
theorem run_step3 : applyEvent (runState 12 runParams) (runProof 15) = some (runState 15 runParams) := by decide
theorem run_step4 : applyEvent (runState 15 runParams) (.setParams runParams') = some (runState 15 runParams') := rfl
theorem run_step5 : applyEvent (runState 15 runParams') (runProof 19) = some (runState 19 runParams') := by decide
theorem run_step6 : applyEvent (runState 19 runParams') (.block 20 0) = some (runState 19 runParams') := by
  have := run_block 19 runParams' 20 (by decide)
  simp only [applyEvent, beginBlock]
  rw [if_neg (by decide), if_neg (by decide), this]

theorem run_goes_through : runEvents.foldlM applyEvent (runState 10 runParams) = some (runState 19 runParams') := by
  simp only [runEvents, List.foldlM_cons, List.foldlM_nil, bind, Option.bind, run_step1, run_step2,
    run_step3, run_step4, run_step5, run_step6, pure]

theorem run_trace : runTrace (runState 10 runParams) runEvents =
    [(runState 10 runParams, runProof 12), (runState 12 runParams, .block 15 0),
     (runState 12 runParams, runProof 15), (runState 15 runParams, .setParams runParams'),
     (runState 15 runParams', runProof 19), (runState 19 runParams', .block 20 0)] := by
  simp only [runEvents, runTrace, run_step1, run_step2, run_step3, run_step4, run_step5, run_step6]

/-- the schedule hypothesis at one position of the example's trace -/
def runSchedAt (pre : List (State × Event)) (x : State × Event) : Prop :=
  ∀ s h now, x = (s, Event.block h now) → rewardHeight s h →
    ∀ j : Int, 0 ≤ j → (10 : Int) ≤ 10 + j * 4 → 10 + (j + 1) * 4 ≤ h →
      ∃ y ∈ (10 : Int) :: acceptedIn "bob" schedKey pre, 10 + j * 4 ≤ y ∧ y < 10 + (j + 1) * 4

theorem run_accepted1 :
    acceptedIn "bob" schedKey [(runState 10 runParams, runProof 12)] = [12] := by decide

theorem run_accepted2 :
    acceptedIn "bob" schedKey
      [(runState 10 runParams, runProof 12), (runState 12 runParams, .block 15 0),
       (runState 12 runParams, runProof 15), (runState 15 runParams, .setParams runParams'),
       (runState 15 runParams', runProof 19)] = [12, 15, 19] := by decide

/-- **All hypotheses of `C02_honest_prover_never_dropped_along_histories` hold for this run** (a
file of window 4, one accepted proof in each of three windows, two reward blocks, a parameter change
in between), so its conclusion does: bob passes the chain's test at both reward blocks and is listed
with his record in all seven states. -/
theorem C02_honest_run_example :
    (∀ pre s h now post,
      runTrace (runState 10 runParams) runEvents = pre ++ (s, Event.block h now) :: post →
      rewardHeight s h →
      ∃ f, AMap.get s.files schedKey = some f ∧ ("bob", schedKey) ∈ f.proofs ∧
        Recent s h f ("bob", schedKey)) ∧
    (∀ s ∈ runStates (runState 10 runParams) runEvents (runState 19 runParams'),
      ∃ f p, AMap.get s.files schedKey = some f ∧ ("bob", schedKey) ∈ f.proofs ∧
        f.proofInterval = runFile.proofInterval ∧ AMap.get s.proofs ("bob", schedKey) = some p) := by
  apply C02_honest_prover_never_dropped_along_histories "bob" schedKey runEvents
    (runState 10 runParams) (runState 19 runParams') runFile (schedRecord "bob" 10 0)
    (runState_consistent 10 runParams) (by decide) (by decide) (by decide) (by decide)
    run_goes_through
  · -- heights: 10 ≤ 12 ≤ 15 ≤ 15 ≤ 19 ≤ 20
    have e : (schedRecord "bob" 10 0).lastProven :: runEvents.filterMap Event.height
        = [10, 12, 15, 15, 19, 20] := rfl
    rw [e]; decide
  · -- no deleteFile / postFile / report in the run
    rw [run_trace]
    intro se hse
    simp only [List.mem_cons, List.not_mem_nil, or_false] at hse
    rcases hse with rfl | rfl | rfl | rfl | rfl | rfl <;> simp [removesOtherwise, runProof]
  · -- the schedule
    intro pre s h now post hsplit
    rw [run_trace] at hsplit
    have key : ForallSplits runSchedAt [] _ → _ := fun hfs =>
      forallSplits_imp runSchedAt _ [] hfs pre (s, Event.block h now) post hsplit
    rw [List.nil_append] at key
    refine key ?_ s h now rfl
    simp only [ForallSplits, List.nil_append, List.cons_append, and_true]
    refine ⟨?_, ?_, ?_, ?_, ?_, ?_⟩
    · intro s h now e; simp [runProof] at e
    · intro s h now e _ j hj0 _ hj2
      simp only [Prod.mk.injEq, Event.block.injEq] at e
      obtain ⟨-, rfl, -⟩ := e
      rw [run_accepted1]
      have : j = 0 := by omega
      subst this
      exact ⟨10, by simp, by decide, by decide⟩
    · intro s h now e; simp [runProof] at e
    · intro s h now e; simp at e
    · intro s h now e; simp [runProof] at e
    · intro s h now e _ j hj0 _ hj2
      simp only [Prod.mk.injEq, Event.block.injEq] at e
      obtain ⟨-, rfl, -⟩ := e
      rw [run_accepted2]
      have : j = 0 ∨ j = 1 := by omega
      rcases this with rfl | rfl
      · exact ⟨12, by simp, by decide, by decide⟩
      · exact ⟨15, by simp, by decide, by decide⟩

-- the run has two begin-blockers that do run the reward block, at heights 15 and 20 …
example : rewardHeight (runState 12 runParams) 15 ∧ rewardHeight (runState 19 runParams') 20 := by
  constructor <;> (unfold rewardHeight; decide)
-- … at which the file is no longer young, so the prover *is* judged on its record
example : isYoung 15 10 4 = false ∧ isYoung 20 10 4 = false := by decide
-- a prover that skipped window [14,18) would be dropped at 20
example : provenLastBlock 20 10 4 12 = false := by decide

/-! ### The burn counter: a prover that keeps the schedule on every file it is listed on -/

/-- what is known at the start about prover `c` and file key `k`: the `lastProven` of its record, if
it is listed there (its joining height for this run) -/
def initialHeights (c : String) (s0 : State) (k : FKey) : List Int :=
  match AMap.get s0.files k, AMap.get s0.proofs (c, k) with
  | some f, some p => if (c, k) ∈ f.proofs then [p.lastProven] else []
  | _, _ => []

/-- **C02 along whole executions, the burn counter.**

`s0` is any consistent state in which every file `c` is listed on has a proof record of `c`
(`hrec0`); `evs` any run that goes through, with non-decreasing heights (`hmono`) that are not below
the `lastProven` of `c`'s initial records (`hpast`).  *No* message is excluded: `c` may join further
files during the run (from then on it is judged on them too), files may be deleted, `c` may be
reported off a file (then it is no longer judged on it), parameters may change.

`hsched`, the schedule, for **every** file `c` is listed on when a begin-blocker runs the reward block
at height `h`: with `W` that file's own proof window (`≥ 1`) and `A` the heights of `c`'s accepted
proofs for it so far (the initial `lastProven` included), every complete window
`[start + j·W, start + (j+1)·W)`, `j ≥ 0`, that ends at or before `h` and begins at or after some
height of `A` (i.e. after `c` joined) contains a height of `A`.

Then
1. every begin-blocker of the run leaves `c`'s provider record — burn counter included — untouched;
2. if moreover `c` neither shuts down nor (re-)initialises its provider record during the run
   (`initProvider` starts a counter at 0), the burn counter at the end equals the one at the start. -/
theorem C02_honest_provider_never_burned_along_histories
    (c : String) (evs : List Event) (s0 s' : State)
    (hc : Consistent s0)
    (hrec0 : ∀ k f, AMap.get s0.files k = some f → (c, k) ∈ f.proofs →
      ∃ p, AMap.get s0.proofs (c, k) = some p)
    (hrun : evs.foldlM applyEvent s0 = some s')
    (hmono : (evs.filterMap Event.height).Pairwise (· ≤ ·))
    (hpast : ∀ k, ∀ x ∈ initialHeights c s0 k, ∀ h ∈ evs.filterMap Event.height, x ≤ h)
    (hsched : ∀ pre s h now post, runTrace s0 evs = pre ++ (s, Event.block h now) :: post →
      rewardHeight s h →
      ∀ k f, AMap.get s.files k = some f → (c, k) ∈ f.proofs →
        1 ≤ f.proofInterval ∧
        ∀ j : Int, 0 ≤ j →
          (∃ x ∈ initialHeights c s0 k ++ acceptedIn c k pre, x ≤ k.2.2 + j * f.proofInterval) →
          k.2.2 + (j + 1) * f.proofInterval ≤ h →
          ∃ x ∈ initialHeights c s0 k ++ acceptedIn c k pre,
            k.2.2 + j * f.proofInterval ≤ x ∧ x < k.2.2 + (j + 1) * f.proofInterval) :
    (∀ pre s h now post sa, runTrace s0 evs = pre ++ (s, Event.block h now) :: post →
      applyEvent s (.block h now) = some sa →
      AMap.get sa.providers c = AMap.get s.providers c) ∧
    ((∀ e ∈ evs, ¬ touchesProviderRecord c e) →
      (AMap.get s'.providers c).map (·.burned) = (AMap.get s0.providers c).map (·.burned)) := by
  have h0 : ∀ k, CondHeld c k s0 (initialHeights c s0 k) := by
    intro k f hf hl
    obtain ⟨p, hp⟩ := hrec0 k f hf hl
    have e : initialHeights c s0 k = [p.lastProven] := by
      simp only [initialHeights, hf, hp, hl, if_true]
    rw [e]
    exact ⟨by simp, p, hp, fun x hx => by rw [List.mem_singleton.mp hx]; exact Int.le_refl _⟩
  have hwin : ∀ pre s h now post, runTrace s0 evs = pre ++ (s, Event.block h now) :: post →
      rewardHeight s h → Consistent s → ∀ k f, AMap.get s.files k = some f → (c, k) ∈ f.proofs →
        ∀ lp, initialHeights c s0 k ++ acceptedIn c k pre ≠ [] →
          (∀ x ∈ initialHeights c s0 k ++ acceptedIn c k pre, x ≤ lp) → WindowOK h f lp := by
    intro pre s h now post hsplit hrh hcs k f hf hl lp hne hlp
    have hst : f.start = k.2.2 := by rw [← hcs.key k f hf]; rfl
    obtain ⟨hW, hev⟩ := hsched pre s h now post hsplit hrh k f hf hl
    obtain ⟨x0, hx0⟩ := List.exists_mem_of_ne_nil _ hne
    unfold WindowOK
    rw [hst]
    exact C02_schedule_gives_window_test k.2.2 f.proofInterval h lp x0 _ hW hx0 hlp
      (fun j hj hx hjw => hev j hj ⟨x0, hx0, hx⟩ hjw)
  obtain ⟨_, hall⟩ := condHeld_run c evs s0 s' (initialHeights c s0) hc h0 hrun hmono hpast hwin
  have part1 : ∀ pre s h now post sa, runTrace s0 evs = pre ++ (s, Event.block h now) :: post →
      applyEvent s (.block h now) = some sa →
      AMap.get sa.providers c = AMap.get s.providers c := by
    intro pre s h now post sa hsplit hs
    obtain ⟨hcs, hinv⟩ := hall pre s _ post hsplit
    apply block_keeps_provider hcs (applyEvent_block hs) c
    intro hrh
    exact honestProvider_of_condHeld hcs c h _ hinv
      (fun k f hf hl lp hne hlp => hwin pre s h now post hsplit hrh hcs k f hf hl lp hne hlp)
  refine ⟨part1, ?_⟩
  intro hprov
  have := (trace_induct evs
    (fun s _ => Consistent s ∧
      (AMap.get s.providers c).map (·.burned) = (AMap.get s0.providers c).map (·.burned))
    s0 s' hrun ⟨hc, rfl⟩ ?_).1
  · exact this.2
  · intro pre s e post s1 hsplit hs ⟨hcs, hq⟩
    refine ⟨consistent_event hcs hs, ?_⟩
    rw [← hq]
    cases e with
    | msg h now op =>
      exact step_burned hcs hs c (hprov _ (event_mem_of_split hrun hsplit))
    | block h now =>
      rw [part1 pre s h now post s1 hsplit hs]
    | setParams q =>
      simp only [applyEvent, Option.some.injEq] at hs
      subst hs; rfl

/-! ### Non-vacuity of `C02_honest_provider_never_burned_along_histories` (same run) -/

theorem run_files_get {lp : Int} {ps : Params} {k : FKey} {f : File}
    (h : AMap.get (runState lp ps).files k = some f) : k = schedKey ∧ f = runFile := by
  simp only [runState, AMap.get] at h
  split at h
  · rename_i e; cases h; exact ⟨e.symm, rfl⟩
  · cases h

theorem run_initialHeights (k : FKey) :
    initialHeights "bob" (runState 10 runParams) k = if k = schedKey then [10] else [] := by
  by_cases hk : k = schedKey
  · subst hk; rw [if_pos rfl]; decide
  · rw [if_neg hk]
    have : AMap.get (runState 10 runParams).files k = none := by
      simp only [runState, AMap.get]
      rw [if_neg (fun e => hk e.symm)]
    simp only [initialHeights, this]

/-- the schedule hypothesis of the burn-counter theorem at one position of the example's trace -/
def runSchedAt2 (pre : List (State × Event)) (x : State × Event) : Prop :=
  ∀ s h now, x = (s, Event.block h now) → rewardHeight s h →
    ∀ k f, AMap.get s.files k = some f → ("bob", k) ∈ f.proofs →
      1 ≤ f.proofInterval ∧
      ∀ j : Int, 0 ≤ j →
        (∃ x ∈ initialHeights "bob" (runState 10 runParams) k ++ acceptedIn "bob" k pre,
          x ≤ k.2.2 + j * f.proofInterval) →
        k.2.2 + (j + 1) * f.proofInterval ≤ h →
        ∃ x ∈ initialHeights "bob" (runState 10 runParams) k ++ acceptedIn "bob" k pre,
          k.2.2 + j * f.proofInterval ≤ x ∧ x < k.2.2 + (j + 1) * f.proofInterval

/-- all hypotheses of `C02_honest_provider_never_burned_along_histories` hold for the example run -/
theorem C02_honest_run_example_burn :
    (∀ pre s h now post sa,
      runTrace (runState 10 runParams) runEvents = pre ++ (s, Event.block h now) :: post →
      applyEvent s (.block h now) = some sa →
      AMap.get sa.providers "bob" = AMap.get s.providers "bob") ∧
    ((∀ e ∈ runEvents, ¬ touchesProviderRecord "bob" e) →
      (AMap.get (runState 19 runParams').providers "bob").map (·.burned) =
        (AMap.get (runState 10 runParams).providers "bob").map (·.burned)) := by
  apply C02_honest_provider_never_burned_along_histories "bob" runEvents
    (runState 10 runParams) (runState 19 runParams') (runState_consistent 10 runParams)
  · intro k f hf _
    obtain ⟨rfl, rfl⟩ := run_files_get hf
    exact ⟨_, rfl⟩
  · exact run_goes_through
  · have e : runEvents.filterMap Event.height = [12, 15, 15, 19, 20] := rfl
    rw [e]; decide
  · intro k x hx h hh
    rw [run_initialHeights] at hx
    split at hx
    · have e : runEvents.filterMap Event.height = [12, 15, 15, 19, 20] := rfl
      rw [e] at hh
      simp only [List.mem_cons, List.not_mem_nil, or_false] at hx hh
      omega
    · cases hx
  · intro pre s h now post hsplit
    rw [run_trace] at hsplit
    have key : ForallSplits runSchedAt2 [] _ → _ := fun hfs =>
      forallSplits_imp runSchedAt2 _ [] hfs pre (s, Event.block h now) post hsplit
    rw [List.nil_append] at key
    refine key ?_ s h now rfl
    simp only [ForallSplits, List.nil_append, List.cons_append, and_true]
    refine ⟨?_, ?_, ?_, ?_, ?_, ?_⟩
    · intro s h now e; simp [runProof] at e
    · intro s h now e _ k f hf _
      simp only [Prod.mk.injEq, Event.block.injEq] at e
      obtain ⟨rfl, rfl, -⟩ := e
      obtain ⟨rfl, rfl⟩ := run_files_get hf
      rw [run_initialHeights, if_pos rfl, run_accepted1]
      refine ⟨by decide, ?_⟩
      intro j hj0 _ hj2
      have hj2' : (10 : Int) + (j + 1) * 4 ≤ 15 := hj2
      have : j = 0 := by omega
      subst this
      exact ⟨10, by simp, by decide, by decide⟩
    · intro s h now e; simp [runProof] at e
    · intro s h now e; simp at e
    · intro s h now e; simp [runProof] at e
    · intro s h now e _ k f hf _
      simp only [Prod.mk.injEq, Event.block.injEq] at e
      obtain ⟨rfl, rfl, -⟩ := e
      obtain ⟨rfl, rfl⟩ := run_files_get hf
      rw [run_initialHeights, if_pos rfl, run_accepted2]
      refine ⟨by decide, ?_⟩
      intro j hj0 _ hj2
      have hj2' : (10 : Int) + (j + 1) * 4 ≤ 20 := hj2
      have : j = 0 ∨ j = 1 := by omega
      rcases this with rfl | rfl
      · exact ⟨12, by simp, by decide, by decide⟩
      · exact ⟨15, by simp, by decide, by decide⟩

-- no `initProvider` / `shutdownProvider` of bob in the run
example : ∀ e ∈ runEvents, ¬ touchesProviderRecord "bob" e := by
  intro e he
  simp only [runEvents, List.mem_cons, List.not_mem_nil, or_false] at he
  rcases he with rfl | rfl | rfl | rfl | rfl | rfl <;> simp [touchesProviderRecord, runProof]

end Canine.Storage
