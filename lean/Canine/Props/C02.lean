/-
C02 — Honest provers can always prove and are never dropped or burned.

1. `C02_initial_challenge_exists`, `C02_challenge_designates_chunk`   the challenge is a chunk index.
2. `C02_honest_proof_verifies`   (Merkle completeness wrapper).
3. `C02_window_iff`, `C02_window_lemma`, `C02_young_file_grace`.
4. `C02_manageProof_keeps_recent_prover`.
5. `C02_never_dropped_nor_burned`, `C02_once_per_window_suffices`, `C02_honest_schedule_kept`;
   `C02_manageFile_all_honest_unchanged`, `C02_empty_old_file_is_dropped`,
   `C02_manageFile_keeps_recent_provers` (honest prover among dishonest ones);
   the whole block: `C02_honest_prover_survives_block`, `C02_honest_provider_not_burned_by_block`,
   `C02_block_all_honest_unchanged`.
The scope is the reward block: a quorum of `report` messages can still remove any prover (that is
C03/C04 territory), which is why "never dropped" is stated for `manageProof`/`manageFile`/
`manageRewards`.
-/
import Canine.Proofs.StorageA
import Canine.Proofs.Merkle
import Canine.Generated.PureFns
namespace Canine.Storage

/-! ## 1. The challenge always designates an existing chunk -/

theorem C02_initial_challenge_exists (size chunk : Int) (hs : 1 ≤ size) (hc : 1 ≤ chunk) :
    0 < chunkCount size chunk := by
  unfold chunkCount
  rw [Int.tdiv_eq_ediv_of_nonneg (by omega), Int.tmod_eq_emod_of_nonneg (by omega)]
  have hq : 0 ≤ size / chunk := Int.ediv_nonneg (by omega) (by omega)
  have hd := Int.emod_add_mul_ediv size chunk
  split
  · rename_i hm
    rw [hm] at hd
    have : size / chunk ≠ 0 := by
      intro e; rw [e] at hd; simp at hd; omega
    omega
  · omega

theorem C02_challenge_designates_chunk (size chunk r : Int) (hs : 1 ≤ size) (hc : 1 ≤ chunk)
    (hr : 0 < pieces size chunk → 0 ≤ r ∧ r < pieces size chunk) :
    0 ≤ nextChunk size chunk r ∧ nextChunk size chunk r < chunkCount size chunk := by
  have h0 := C02_initial_challenge_exists size chunk hs hc
  unfold nextChunk
  split
  · rename_i hp
    have hp' : 0 < pieces size chunk := hp
    obtain ⟨h1, h2⟩ := hr hp'
    refine ⟨h1, ?_⟩
    unfold pieces at h2
    unfold chunkCount
    dsimp only at h2
    split at h2 <;> split <;> omega
  · exact ⟨by omega, h0⟩

/-! ## 2. An honest proof verifies -/

/-- wrapper of `Merkle.honest_proof_accepted`: for any hash functions, any chunk list and any
challenged index inside the file, the provider's generated proof of the stored chunk is accepted
by the chain's (fixed) verifier against the file's Merkle root -/
theorem C02_honest_proof_verifies (H S : Merkle.Bytes → Merkle.Bytes) (hashLen : Nat)
    (chunks : List Merkle.Bytes) (i : Nat) (hi : i < chunks.length) :
    Merkle.verifyProof H S (Merkle.fileRoot H S hashLen chunks) i (chunks.getD i []) i
      (Merkle.genProof H hashLen (chunks.mapIdx (fun j c => Merkle.leafData S j c)) i) = true :=
  Merkle.honest_proof_accepted H S hashLen chunks i hi

/-! ## 3. The window arithmetic -/

/-- for a reward height at or after the file's start, `roundedWindow` is the start of the proof
window containing `h` -/
theorem roundedWindow_eq (h start W : Int) (hh : start ≤ h) :
    roundedWindow h start W = start + (h - start) / W * W := by
  unfold roundedWindow
  dsimp only
  rw [Int.tmod_eq_emod_of_nonneg (by omega)]
  have := Int.emod_add_mul_ediv (h - start) W
  rw [Int.mul_comm] at this
  omega

/-- `ProvenLastBlock` ⇔ the last accepted proof is not older than the start of the previous window
(true for every `W`, so `1 ≤ W` is not even needed) -/
theorem C02_window_iff (h start W lp : Int) (hh : start ≤ h) :
    provenLastBlock h start W lp = true ↔ lp ≥ start + ((h - start) / W - 1) * W := by
  unfold provenLastBlock
  rw [roundedWindow_eq h start W hh, Int.sub_mul]
  simp only [decide_eq_true_eq]
  omega

theorem C02_window_lemma (h start W lp : Int) (hh : start ≤ h) (_hW : 1 ≤ W)
    (hlp : lp ≥ start + ((h - start) / W - 1) * W) : provenLastBlock h start W lp = true :=
  (C02_window_iff h start W lp hh).mpr hlp

theorem C02_young_file_grace (h start W : Int) (hh : h ≤ start + W) : isYoung h start W = true := by
  unfold isYoung; simp only [decide_eq_true_eq]; omega

/-! ## 4. The reward block keeps a prover that proved recently -/

theorem C02_manageProof_keeps_recent_prover (s : State) (h : Int) (t : Tracker) (file : File)
    (pk : PKey) (p : Proof) (hp : AMap.get s.proofs pk = some p)
    (hok : isYoung h file.start file.proofInterval = true ∨
      provenLastBlock h file.start file.proofInterval p.lastProven = true) :
    manageProof s h t file pk = (s, credit t p.prover file.fileSize, file) := by
  unfold manageProof
  simp only [hp]
  rcases hok with hy | hpr
  · simp [hy]
  · simp [hpr]

/-! ## 5. An honest schedule is never dropped nor burned -/

/-- The schedule statement at one reward block: a prover whose last accepted proof is not older than
the start of the window before the one containing the reward height `h` is kept by `manageProof`:
the state — the file's prover list, every record, every provider's burn counter — is untouched, and
the prover is credited the file's size. -/
theorem C02_never_dropped_nor_burned (s : State) (h : Int) (t : Tracker) (file : File) (pk : PKey)
    (p : Proof) (hp : AMap.get s.proofs pk = some p) (hh : file.start ≤ h)
    (hW : 1 ≤ file.proofInterval)
    (hlp : p.lastProven ≥
      file.start + ((h - file.start) / file.proofInterval - 1) * file.proofInterval) :
    manageProof s h t file pk = (s, credit t p.prover file.fileSize, file) :=
  C02_manageProof_keeps_recent_prover s h t file pk p hp
    (Or.inr (C02_window_lemma h file.start file.proofInterval p.lastProven hh hW hlp))

/-- "At least one accepted proof in every proof window" gives the bound of
`C02_never_dropped_nor_burned` at *every* reward height `h`.

`accepted x` = a proof of the prover was accepted at height `x`; the prover joined at `join`
(its first accepted proof, which sets `lastProven := join`); `lp`, the `lastProven` seen by the
reward block at height `h`, is at least every accepted height before `h` (each acceptance sets
`lastProven` to the current height, and attestations only raise it).  The only windows the prover is
asked about are the *complete* ones (`start + (j+1)·W ≤ h`) that begin at or after it joined. -/
theorem C02_once_per_window_suffices (accepted : Int → Prop) (start W h join lp : Int)
    (hW : 1 ≤ W) (hstart : start ≤ join) (hjoin : accepted join) (hjoinlt : join < h)
    (hlp : ∀ x, accepted x → x < h → x ≤ lp)
    (hevery : ∀ j : Int, 0 ≤ j → join ≤ start + j * W → start + (j + 1) * W ≤ h →
      ∃ x, accepted x ∧ start + j * W ≤ x ∧ x < start + (j + 1) * W) :
    lp ≥ start + ((h - start) / W - 1) * W := by
  have hj := hlp join hjoin hjoinlt
  have hd := Int.emod_add_mul_ediv (h - start) W
  have hm0 := Int.emod_nonneg (h - start) (by omega : W ≠ 0)
  have hm1 := Int.emod_lt_of_pos (h - start) (by omega : 0 < W)
  have hq0 : 0 ≤ (h - start) / W := Int.ediv_nonneg (by omega) (by omega)
  generalize (h - start) / W = q at *
  have e1 : (q - 1) * W = q * W - W := by rw [Int.sub_mul, Int.one_mul]
  rw [e1]
  rw [Int.mul_comm W q] at hd
  by_cases hq : q = 0
  · subst hq; simp only [Int.zero_mul] at *; omega
  · by_cases hjw : join ≤ start + (q - 1) * W
    · have e2 : (q - 1 + 1) * W = q * W := by rw [Int.sub_add_cancel]
      obtain ⟨x, hx, hx1, hx2⟩ := hevery (q - 1) (by omega) hjw (by rw [e2]; omega)
      rw [e2] at hx2; rw [e1] at hx1
      have := hlp x hx (by omega)
      omega
    · rw [e1] at hjw; omega

/-- the two previous statements combined: an honest schedule is kept at every reward block -/
theorem C02_honest_schedule_kept (s : State) (h : Int) (t : Tracker) (file : File) (pk : PKey)
    (p : Proof) (accepted : Int → Prop) (join : Int)
    (hp : AMap.get s.proofs pk = some p) (hW : 1 ≤ file.proofInterval)
    (hstart : file.start ≤ join) (hjoin : accepted join) (hjoinlt : join < h)
    (hlp : ∀ x, accepted x → x < h → x ≤ p.lastProven)
    (hevery : ∀ j : Int, 0 ≤ j → join ≤ file.start + j * file.proofInterval →
      file.start + (j + 1) * file.proofInterval ≤ h →
      ∃ x, accepted x ∧ file.start + j * file.proofInterval ≤ x ∧
        x < file.start + (j + 1) * file.proofInterval) :
    manageProof s h t file pk = (s, credit t p.prover file.fileSize, file) :=
  C02_never_dropped_nor_burned s h t file pk p hp (by omega) hW
    (C02_once_per_window_suffices accepted file.start file.proofInterval h join p.lastProven hW
      hstart hjoin hjoinlt hlp hevery)

/-- Lift to `manageFile`: if every listed proof key has a recent record, the file's management
leaves the whole state unchanged (in particular `files`, `files2`, `proofs`, `providers`) —
provided the file has a prover or is young; see `C02_empty_old_file_is_dropped` for the other case. -/
theorem C02_manageFile_all_honest_unchanged (s : State) (h : Int) (t : Tracker) (file : File)
    (hall : ∀ pk ∈ file.proofs, Recent s h file pk)
    (hne : file.proofs ≠ [] ∨ isYoung h file.start file.proofInterval = true) :
    (manageFile s h t file).1 = s := by
  rcases manageFile_cases s h t file with ⟨hnil, hy, _⟩ | ⟨_, e⟩
  · rcases hne with hne | hne
    · exact absurd hnil hne
    · rw [hne] at hy; cases hy
  · rw [e]
    obtain ⟨t', ht'⟩ := mfLoop_all_recent h file file.proofs s t hall
    unfold mfLoop; rw [ht']

/-- a file with no prover that is no longer young is removed by the reward block -/
theorem C02_empty_old_file_is_dropped (s : State) (h : Int) (t : Tracker) (file : File)
    (hnil : file.proofs = []) (hold : isYoung h file.start file.proofInterval = false) :
    manageFile s h t file = (removeFile s file.key, t) := by
  rcases manageFile_cases s h t file with ⟨_, _, e⟩ | ⟨hne, _⟩
  · exact e
  · rcases hne with hne | hne
    · exact absurd hnil hne
    · rw [hne] at hold; cases hold

/-- `manageFile` among dishonest co-provers: whatever happens to the other proof keys of the file,
a recent prover stays listed in the stored file and its record is untouched; and a provider none of
whose keys in this file is stale is not burned.  (`hget`: the file is the stored one, as in
`C01_manageFile_never_adds_provers`.) -/
theorem C02_manageFile_keeps_recent_provers (s : State) (h : Int) (t : Tracker) (file : File)
    (hget : AMap.get s.files file.key = some file) :
    (∀ pk ∈ file.proofs, Recent s h file pk →
      AMap.get (manageFile s h t file).1.proofs pk = AMap.get s.proofs pk ∧
      ∃ f', AMap.get (manageFile s h t file).1.files file.key = some f' ∧ pk ∈ f'.proofs) ∧
    (∀ x, (∀ pk ∈ file.proofs, pk.1 = x → Recent s h file pk) →
      AMap.get (manageFile s h t file).1.providers x = AMap.get s.providers x) :=
  manageFile_keeps_recent s h t file hget

/-- The whole reward block on a consistent state, among arbitrary other files and provers: a prover
with a recent record is still listed in its file afterwards, with its record untouched. -/
theorem C02_honest_prover_survives_block (s s' : State) (h now : Int) (hc : Consistent s)
    (hs : manageRewards s h now = .ok s') (k : FKey) (f : File) (pk : PKey)
    (hf : AMap.get s.files k = some f) (hpk : pk ∈ f.proofs) (hr : Recent s h f pk) :
    AMap.get s'.proofs pk = AMap.get s.proofs pk ∧
    ∃ f', AMap.get s'.files k = some f' ∧ pk ∈ f'.proofs := by
  obtain ⟨_, rel, _⟩ := manageRewards_out hc hs
  obtain ⟨e, f', hf', hin⟩ := (filesLoop_keep s h hc).provers k f pk hf hpk hr
  exact ⟨by rw [rel.proofs]; exact e, f', by rw [rel.files]; exact hf', hin⟩

/-- ... and a provider all of whose listed proof keys (in every file) are recent is not burned -/
theorem C02_honest_provider_not_burned_by_block (s s' : State) (h now : Int) (hc : Consistent s)
    (hs : manageRewards s h now = .ok s') (x : String)
    (hx : ∀ k f, AMap.get s.files k = some f → ∀ pk ∈ f.proofs, pk.1 = x → Recent s h f pk) :
    AMap.get s'.providers x = AMap.get s.providers x := by
  obtain ⟨_, rel, _⟩ := manageRewards_out hc hs
  rw [rel.providers]
  exact (filesLoop_keep s h hc).providers x hx

/-- if all provers of all files are recent and no file is empty and old, the reward block changes
neither files, nor proof records, nor providers -/
theorem C02_block_all_honest_unchanged (s s' : State) (h now : Int) (hc : Consistent s)
    (hs : manageRewards s h now = .ok s')
    (hall : ∀ k f, AMap.get s.files k = some f →
      (∀ pk ∈ f.proofs, Recent s h f pk) ∧
      (f.proofs ≠ [] ∨ isYoung h f.start f.proofInterval = true)) :
    s'.files = s.files ∧ s'.files2 = s.files2 ∧ s'.proofs = s.proofs ∧ s'.providers = s.providers := by
  obtain ⟨_, rel, _⟩ := manageRewards_out hc hs
  have hloop : (filesLoop h s.files (s, [])).1 = s := by
    apply filesLoop_induct s h hc (fun a => a.1 = s)
    · intro a kv hkv _ _ ha
      have hs' : AMap.get s.files kv.1 = some kv.2 :=
        AMap.get_of_mem_wf hc.wf (by cases kv; exact hkv)
      obtain ⟨h1, h2⟩ := hall _ _ hs'
      show (manageFile a.1 h a.2 kv.2).1 = s
      rw [ha]
      exact C02_manageFile_all_honest_unchanged s h a.2 kv.2 h1 h2
    · rfl
  rw [hloop] at rel
  exact ⟨rel.files, rel.files2, rel.proofs, rel.providers⟩

/-! ## Non-vacuity: window 50, reward every 11 blocks, one proof in the last block of each window -/

/-- file started at height 10 with window 50: windows [10,60), [60,110), [110,160), …; bob proves at
the last block of each window: 59, 109, 159, … -/
def schedAccepted (x : Int) : Prop := 59 ≤ x ∧ x % 50 = 9

-- the schedule has a proof in every window (hypothesis `hevery` of `C02_once_per_window_suffices`)
example : ∀ j : Int, 0 ≤ j → (59 : Int) ≤ 10 + j * 50 → 10 + (j + 1) * 50 ≤ 154 →
    ∃ x, schedAccepted x ∧ 10 + j * 50 ≤ x ∧ x < 10 + (j + 1) * 50 := by
  intro j _ _ _
  exact ⟨10 + (j + 1) * 50 - 1, ⟨by omega, by omega⟩, by omega, by omega⟩

-- reward heights are the multiples of 11; at each of them the last accepted proof satisfies the bound
example : (66 : Int) % 11 = 0 ∧ (59 : Int) ≥ 10 + ((66 - 10) / 50 - 1) * 50 := by decide
example : (110 : Int) % 11 = 0 ∧ (109 : Int) ≥ 10 + ((110 - 10) / 50 - 1) * 50 := by decide
-- the worst case: the reward block just before the proof of the current window
example : (154 : Int) % 11 = 0 ∧ (109 : Int) ≥ 10 + ((154 - 10) / 50 - 1) * 50 := by decide
example : provenLastBlock 154 10 50 109 = true := by decide
example : provenLastBlock 165 10 50 159 = true := by decide
-- a prover that skipped the window [60,110) is stale at 121
example : provenLastBlock 121 10 50 59 = false := by decide

def schedParams : Params :=
  { proofWindow := 50, checkWindow := 11, chunkSize := 1024, pricePerTbPerMonth := 8,
    collateralPrice := 1000, attestFormSize := 5, attestMinToPass := 3, referralCommission := 25,
    polRatio := 40 }

def schedKey : FKey := ("aa", "alice", 10)

/-- two provers: bob (honest, last proof at 109) and carol (last proof at 59) -/
def schedFile : File :=
  { merkle := "aa", owner := "alice", start := 10, expires := 0, fileSize := 2500,
    proofInterval := 50, proofType := 0, proofs := [("bob", schedKey), ("carol", schedKey)],
    maxProofs := 3, note := "{}" }

def schedProvider (a : String) : Provider :=
  { address := a, ip := "http://x", totalspace := "1000000", burned := some 0, creator := a,
    keybase := "", claimers := [] }

def schedRecord (a : String) (lastProven challenge : Int) : Proof :=
  { prover := a, merkle := "aa", owner := "alice", start := 10, lastProven := lastProven,
    chunkToProve := challenge }

def schedState : State :=
  { files := [(schedKey, schedFile)], files2 := [(schedKey, schedFile)],
    proofs := [(("bob", schedKey), schedRecord "bob" 109 1), (("carol", schedKey), schedRecord "carol" 59 2)],
    providers := [("bob", schedProvider "bob"), ("carol", schedProvider "carol")],
    payinfo := [], collateral := [], gauges := [], attests := [], reports := [], bank := [],
    params := schedParams, moduleAcc := "storage", collateralAcc := "collateral", polAcc := "pol",
    feeAcc := "fee", blocked := [] }

-- the hypotheses of `C02_never_dropped_nor_burned` hold for bob at the reward heights 121 and 154 …
example : AMap.get schedState.proofs ("bob", schedKey) = some (schedRecord "bob" 109 1) ∧
    schedFile.start ≤ 154 ∧ 1 ≤ schedFile.proofInterval ∧
    (109 : Int) ≥ schedFile.start + ((154 - schedFile.start) / schedFile.proofInterval - 1)
      * schedFile.proofInterval := by decide
-- … so he is kept and credited, while carol (who skipped a window) is dropped and burned
example : manageProof schedState 154 [] schedFile ("bob", schedKey)
    = (schedState, [("bob", 2500)], schedFile) := by decide
example : (AMap.get (manageFile schedState 154 [] schedFile).1.files schedKey).map (·.proofs)
    = some [("bob", schedKey)] := by decide
example : AMap.get (manageFile schedState 154 [] schedFile).1.proofs ("bob", schedKey)
    = AMap.get schedState.proofs ("bob", schedKey) := by decide
example : (AMap.get (manageFile schedState 154 [] schedFile).1.providers "bob").map (·.burned)
    = some (some 0) := by decide
example : (AMap.get (manageFile schedState 154 [] schedFile).1.providers "carol").map (·.burned)
    = some (some 1) := by decide
example : (manageFile schedState 154 [] schedFile).2 = [("bob", 2500)] := by decide
-- with only honest provers listed the whole state is untouched
example : (manageFile { schedState with files := [(schedKey, { schedFile with proofs := [("bob", schedKey)] })] }
    154 [] { schedFile with proofs := [("bob", schedKey)] }).1
    = { schedState with files := [(schedKey, { schedFile with proofs := [("bob", schedKey)] })] } := by
  decide

/-- `schedState` after the reward block at height 154: carol dropped and burned -/
def schedState' : State := (manageFile schedState 154 [] schedFile).1

/-- the block at height 154 (a multiple of the reward interval 11) runs without panic -/
theorem sched_block : manageRewards schedState 154 0 = .ok schedState' := by
  have h1 : schedState.files.foldl (fun (acc : State × Tracker) kv => manageFile acc.1 154 acc.2 kv.2)
      (schedState, []) = (schedState', [("bob", 2500)]) := by decide
  have h2 : pullGauges schedState' 0 = .ok (schedState', []) := rfl
  have h3 : sortedProvers [("bob", 2500)] = [("bob", 2500)] := by simp [sortedProvers]
  unfold manageRewards
  simp only [h1, bind, Except.bind, h2, h3, List.foldlM_cons, List.foldlM_nil]
  rfl

theorem schedState_consistent : Consistent schedState := by
  refine ⟨by unfold AMap.WF; decide, ?_, ?_, ?_, ?_⟩
  · intro k f hf
    simp only [schedState, AMap.get] at hf
    split at hf
    · rename_i e; cases hf; exact e
    · cases hf
  · intro k f hf
    simp only [schedState, AMap.get] at hf
    split at hf
    · rename_i e; cases hf; intro pk hpk
      simp only [schedFile, List.mem_cons, List.not_mem_nil, or_false] at hpk
      rcases hpk with rfl | rfl <;> exact e
    · cases hf
  · intro pk p hp
    simp only [schedState, AMap.get] at hp
    split at hp
    · rename_i e; cases hp; rw [← e]; rfl
    · split at hp
      · rename_i e; cases hp; rw [← e]; rfl
      · cases hp
  · intro pk fm hfm; simp [schedState] at hfm

theorem sched_bob_recent : Recent schedState 154 schedFile ("bob", schedKey) :=
  ⟨schedRecord "bob" 109 1, by decide, Or.inr (by decide)⟩

-- all hypotheses of `C02_honest_prover_survives_block` hold for bob; its conclusion, instantiated:
example : AMap.get schedState'.proofs ("bob", schedKey) = AMap.get schedState.proofs ("bob", schedKey) ∧
    ∃ f', AMap.get schedState'.files schedKey = some f' ∧ ("bob", schedKey) ∈ f'.proofs :=
  C02_honest_prover_survives_block schedState schedState' 154 0 schedState_consistent sched_block
    schedKey schedFile ("bob", schedKey) (by decide) (by decide) sched_bob_recent

/-! ## The window arithmetic as it stands in the source (regenerated tie) -/

/-- `getRoundedWindow`, `ProvenLastBlock`, `ProvenThisBlock` and `IsYoung`, translated from
x/storage/types/file.go on every run (Generated/PureFns.lean), are the window functions all the
theorems above are about — and they still read exactly the receiver fields `Start` and
`ProofInterval`. -/
theorem C02_generated_window_functions_are_the_model (h start window lp : Int) :
    Generated.Pure.getRoundedWindow h start window = roundedWindow h start window ∧
    Generated.Pure.ProvenLastBlock start window h lp = provenLastBlock h start window lp ∧
    Generated.Pure.ProvenThisBlock start window h lp = provenThisBlock h start window lp ∧
    Generated.Pure.IsYoung start window h = isYoung h start window ∧
    Generated.Pure.getRoundedWindow_inputs = [] ∧
    Generated.Pure.ProvenLastBlock_inputs = ["f.Start", "f.ProofInterval"] ∧
    Generated.Pure.ProvenThisBlock_inputs = ["f.Start", "f.ProofInterval"] ∧
    Generated.Pure.IsYoung_inputs = ["f.Start", "f.ProofInterval"] :=
  ⟨rfl, rfl, rfl, rfl, rfl, rfl, rfl, rfl⟩

end Canine.Storage
