/-
C13 — Block emission is non-increasing, non-negative and fully distributed.
-/
import Canine.Mint.Model
import Canine.Generated.PureFns
import Canine.Generated.KeyFacts
namespace Canine.Mint

theorem chopRoundNat_nonneg (x : Int) (h : 0 ≤ x) : 0 ≤ chopRoundNat x := by
  unfold chopRoundNat precision fivePrecision
  simp only
  split
  · omega
  · split
    · omega
    · split
      · omega
      · split <;> omega

theorem chopRound_nonneg (x : Int) (h : 0 ≤ x) : 0 ≤ chopRound x := by
  unfold chopRound
  split
  · omega
  · exact chopRoundNat_nonneg x h

/-- the per-block decrease `decrease / blocksPerYear` is a non-negative decimal -/
theorem eps_nonneg (dec : Int) (h : 0 ≤ dec) :
    0 ≤ ((Dec.quo? (Dec.ofInt dec) (Dec.ofInt blocksPerYear)).getD Dec.zero).raw := by
  unfold Dec.quo? Dec.ofInt blocksPerYear precision
  simp only
  split
  · simp [Dec.zero]
  · simp only [Option.getD_some]
    apply chopRound_nonneg
    unfold tdiv
    have : (0:Int) ≤ dec * 1000000000000000000 * 1000000000000000000 * 1000000000000000000 := by omega
    simp only [this, if_true]
    split
    · apply Int.ediv_nonneg this; omega
    · omega

/-- The emission is never negative. -/
theorem C13_next_nonneg (prev dec : Int) : 0 ≤ nextMint prev dec := by
  unfold nextMint
  simp only
  split <;> omega

theorem trunc_sub_le (prev : Int) (d : Dec) (hd : 0 ≤ d.raw) :
    Dec.trunc (Dec.sub (Dec.ofInt prev) d) ≤ prev := by
  obtain ⟨e⟩ := d
  simp only at hd
  unfold Dec.trunc chopTrunc Dec.sub Dec.ofInt tdiv precision
  simp only
  split
  · simp only [show (0:Int) ≤ 1000000000000000000 by omega, if_true]
    omega
  · simp only [show (0:Int) ≤ 1000000000000000000 by omega, if_true]
    omega

/-- The emission never exceeds the previous block's. -/
theorem C13_next_le_prev (prev dec : Int) (hp : 0 ≤ prev) (hd : 0 ≤ dec) : nextMint prev dec ≤ prev := by
  have he := eps_nonneg dec hd
  have := trunc_sub_le prev _ he
  unfold nextMint
  simp only
  split <;> omega

/-- With no decrease configured the emission stays what it was. -/
theorem C13_next_eq_prev_of_zero_decrease (prev : Int) (hp : 0 ≤ prev) : nextMint prev 0 = prev := by
  unfold nextMint Dec.quo? Dec.ofInt blocksPerYear Dec.trunc chopTrunc Dec.sub tdiv precision chopRound chopRoundNat
  simp
  omega

/-- Each recipient's share is the configured percentage rounded down. -/
theorem C13_share_is_floor (ratio m : Int) (hr : 0 ≤ ratio) (hm : 0 ≤ m) : share ratio m = ratio * m / 100 := by
  unfold share Dec.trunc chopTrunc Dec.mulInt Dec.quoInt Dec.ofInt tdiv precision
  simp only
  have h1 : (0:Int) ≤ ratio * 1000000000000000000 := by omega
  simp only [h1, show (0:Int) ≤ 100 by omega, show (0:Int) ≤ 1000000000000000000 by omega, if_true]
  have h2 : ratio * 1000000000000000000 / 100 = ratio * 10000000000000000 := by omega
  rw [h2]
  have h3 : (0:Int) ≤ ratio * 10000000000000000 * m := by
    apply Int.mul_nonneg _ hm; omega
  simp only [h3, if_true]
  have h4 : ratio * 10000000000000000 * m = (ratio * m) * 10000000000000000 := by
    rw [Int.mul_assoc, Int.mul_comm 10000000000000000 m, ← Int.mul_assoc]
  rw [h4]
  generalize ratio * m = x
  omega

/-- the three floors never exceed the emission when the ratios sum to at most 100 -/
theorem shares_le (r1 r2 r3 m : Int) (h1 : 0 ≤ r1) (h2 : 0 ≤ r2) (h3 : 0 ≤ r3) (hs : r1 + r2 + r3 ≤ 100)
    (hm : 0 ≤ m) :
    0 ≤ r1 * m / 100 ∧ 0 ≤ r2 * m / 100 ∧ 0 ≤ r3 * m / 100 ∧
    r1 * m / 100 + r2 * m / 100 + r3 * m / 100 ≤ m ∧
    -- what stays behind exceeds the unallocated percentage (rounded down) by at most 3 units
    m - (r1 * m / 100 + r2 * m / 100 + r3 * m / 100) - (100 - (r1 + r2 + r3)) * m / 100 ≤ 3 ∧
    0 ≤ m - (r1 * m / 100 + r2 * m / 100 + r3 * m / 100) - (100 - (r1 + r2 + r3)) * m / 100 ∧
    (r1 + r2 + r3 = 100 → m - (r1 * m / 100 + r2 * m / 100 + r3 * m / 100) < 3) := by
  have e1 : 0 ≤ r1 * m := Int.mul_nonneg h1 hm
  have e2 : 0 ≤ r2 * m := Int.mul_nonneg h2 hm
  have e3 : 0 ≤ r3 * m := Int.mul_nonneg h3 hm
  have e4 : (100 - (r1 + r2 + r3)) * m = 100 * m - r1 * m - r2 * m - r3 * m := by
    rw [Int.sub_mul, Int.add_mul, Int.add_mul]; omega
  have e5 : 0 ≤ (100 - (r1 + r2 + r3)) * m := Int.mul_nonneg (by omega) hm
  rw [e4] at e5 ⊢
  generalize r1 * m = x1 at *
  generalize r2 * m = x2 at *
  generalize r3 * m = x3 at *
  refine ⟨by omega, by omega, by omega, by omega, by omega, by omega, ?_⟩
  intro h100
  have : 100 * m - x1 - x2 - x3 = 0 := by
    have h : (100 - (r1 + r2 + r3)) * m = 0 := by rw [h100]; simp
    omega
  omega

/-- What one block does, for every valid parameter set (ratios summing to at most 100) and every
state whose recorded previous emission is non-negative: supply grows by exactly the emission;
stakers, developer grants and stipend receive their percentages rounded down; the module keeps
the rest; the emission is recorded for the next block; nothing else exists to be credited. -/
theorem C13_blockMint_spec (p : Params) (s : State) (hp : validParams p) (hb : 0 ≤ s.modBal)
    (hl : ∀ x, s.last = some x → 0 ≤ x) :
    let prev := s.last.getD p.tokensPerBlock
    let m := nextMint prev p.mintDecrease
    let r := blockMint p s
    r.2 = m ∧ 0 ≤ m ∧ m ≤ prev ∧
    r.1.supply = s.supply + m ∧
    r.1.stakers = s.stakers + p.stakerRatio * m / 100 ∧
    r.1.dev = s.dev + p.devGrantsRatio * m / 100 ∧
    r.1.stipend = s.stipend + p.providerRatio * m / 100 ∧
    r.1.modBal = s.modBal + (m - (p.stakerRatio * m / 100 + p.devGrantsRatio * m / 100 + p.providerRatio * m / 100)) ∧
    r.1.last = some m := by
  obtain ⟨h0, h1, h2, h3, h4, h5⟩ := hp
  intro prev m r
  have hprev : 0 ≤ prev := by
    show 0 ≤ s.last.getD p.tokensPerBlock
    cases hs : s.last with
    | none => simpa using h0
    | some x => simpa using hl x hs
  have hm : 0 ≤ m := C13_next_nonneg _ _
  have hle : m ≤ prev := C13_next_le_prev _ _ hprev h1
  have ha := C13_share_is_floor p.stakerRatio m h2 hm
  have hbb := C13_share_is_floor p.devGrantsRatio m h3 hm
  have hc := C13_share_is_floor p.providerRatio m h4 hm
  obtain ⟨q1, q2, q3, q4, -, -, -⟩ := shares_le _ _ _ m h2 h3 h4 h5 hm
  have hr : r = blockMint p s := rfl
  unfold blockMint at hr
  simp only at hr
  rw [show nextMint (s.last.getD p.tokensPerBlock) p.mintDecrease = m from rfl] at hr
  rw [ha, hbb, hc] at hr
  have c1 : ¬ (p.stakerRatio * m / 100 < 0 ∨ s.modBal + m < p.stakerRatio * m / 100) := by omega
  have c2 : ¬ (p.devGrantsRatio * m / 100 < 0 ∨ s.modBal + m - p.stakerRatio * m / 100 < p.devGrantsRatio * m / 100) := by omega
  have c3 : ¬ (p.providerRatio * m / 100 < 0 ∨ s.modBal + m - p.stakerRatio * m / 100 - p.devGrantsRatio * m / 100 < p.providerRatio * m / 100) := by omega
  simp only [c1, c2, c3, if_false] at hr
  rw [hr]
  refine ⟨rfl, hm, hle, rfl, rfl, rfl, rfl, ?_, rfl⟩
  simp only; omega

/-- The module keeps only the rounding remainder: fewer than three base units per block when the
ratios sum to 100, and in general at most three units above the unallocated percentage. -/
theorem C13_retained_bound (p : Params) (m : Int) (hp : validParams p) (hm : 0 ≤ m) :
    let kept := m - (p.stakerRatio * m / 100 + p.devGrantsRatio * m / 100 + p.providerRatio * m / 100)
    let unalloc := (100 - (p.stakerRatio + p.devGrantsRatio + p.providerRatio)) * m / 100
    0 ≤ kept - unalloc ∧ kept - unalloc ≤ 3 ∧
    (p.stakerRatio + p.devGrantsRatio + p.providerRatio = 100 → 0 ≤ kept ∧ kept < 3) := by
  obtain ⟨h0, h1, h2, h3, h4, h5⟩ := hp
  obtain ⟨q1, q2, q3, q4, q5, q6, q7⟩ := shares_le _ _ _ m h2 h3 h4 h5 hm
  intro kept unalloc
  refine ⟨q6, q5, fun h => ⟨by show 0 ≤ m - _; omega, q7 h⟩⟩

/-- State invariant carried along a run of blocks. -/
def Good (s : State) : Prop := 0 ≤ s.modBal ∧ ∀ x, s.last = some x → 0 ≤ x

theorem blockMint_good (p : Params) (s : State) (hp : validParams p) (hg : Good s) :
    Good (blockMint p s).1 := by
  obtain ⟨hb, hl⟩ := hg
  have h := C13_blockMint_spec p s hp hb hl
  simp only at h
  obtain ⟨_, hm, _, _, _, _, _, hmod, hlast⟩ := h
  obtain ⟨h0, h1, h2, h3, h4, h5⟩ := hp
  obtain ⟨_, _, _, q4, _, _, _⟩ := shares_le _ _ _ _ h2 h3 h4 h5 hm
  refine ⟨by rw [hmod]; omega, ?_⟩
  intro x hx
  rw [hlast] at hx; cases hx; exact hm

/-- emissions of a run: each is non-negative and at most `bound`, and they never increase -/
def NonIncreasingFrom : Int → List Int → Prop
  | _, [] => True
  | bound, m :: rest => 0 ≤ m ∧ m ≤ bound ∧ NonIncreasingFrom m rest

/-- Every run of consecutive blocks under a valid parameter set: each emission is non-negative
and no larger than the previous block's (the first one no larger than the recorded previous
emission, or `TokensPerBlock` when there is none). -/
theorem C13_emissions_nonincreasing (p : Params) (hp : validParams p) :
    ∀ (n : Nat) (s : State), Good s →
      NonIncreasingFrom (s.last.getD p.tokensPerBlock) (runBlocks p n s).2
  | 0, s, _ => by simp [runBlocks, NonIncreasingFrom]
  | n + 1, s, hg => by
    obtain ⟨hb, hl⟩ := hg
    have h := C13_blockMint_spec p s hp hb hl
    simp only at h
    obtain ⟨h1, hm, hle, _, _, _, _, _, hlast⟩ := h
    have hg' := blockMint_good p s hp ⟨hb, hl⟩
    have ih := C13_emissions_nonincreasing p hp n (blockMint p s).1 hg'
    simp only [runBlocks, NonIncreasingFrom]
    rw [hlast] at ih
    simp only [Option.getD_some] at ih
    rw [h1]
    exact ⟨hm, hle, ih⟩

/-- The same when governance changes the (valid) parameters between blocks: after the first
block every emission is bounded by the one before it, whatever the new parameters say. -/
theorem C13_emissions_nonincreasing_param_changes :
    ∀ (ps : List Params) (s : State), (∀ p ∈ ps, validParams p) → Good s →
      match ps with
      | [] => True
      | p :: _ => NonIncreasingFrom (s.last.getD p.tokensPerBlock) (runBlocksP ps s).2
  | [], _, _, _ => trivial
  | p :: ps, s, hv, hg => by
    obtain ⟨hb, hl⟩ := hg
    have hp := hv p (by simp)
    have h := C13_blockMint_spec p s hp hb hl
    simp only at h
    obtain ⟨h1, hm, hle, _, _, _, _, _, hlast⟩ := h
    have hg' := blockMint_good p s hp ⟨hb, hl⟩
    have ih := C13_emissions_nonincreasing_param_changes ps (blockMint p s).1
      (fun q hq => hv q (List.mem_cons_of_mem _ hq)) hg'
    simp only [runBlocksP, NonIncreasingFrom]
    rw [h1]
    refine ⟨hm, hle, ?_⟩
    cases ps with
    | nil => simp [runBlocksP, NonIncreasingFrom]
    | cons q qs =>
      simp only at ih
      rw [hlast] at ih
      simpa using ih

/-- Supply grows by exactly the sum of the emissions over any run. -/
theorem C13_supply_grows_by_emissions (p : Params) (hp : validParams p) :
    ∀ (n : Nat) (s : State), Good s →
      (runBlocks p n s).1.supply = s.supply + (runBlocks p n s).2.sum
  | 0, s, _ => by simp [runBlocks]
  | n + 1, s, hg => by
    obtain ⟨hb, hl⟩ := hg
    have h := C13_blockMint_spec p s hp hb hl
    simp only at h
    obtain ⟨h1, _, _, hsup, _⟩ := h
    have hg' := blockMint_good p s hp ⟨hb, hl⟩
    have ih := C13_supply_grows_by_emissions p hp n (blockMint p s).1 hg'
    simp only [runBlocks, List.sum_cons]
    rw [ih, hsup, h1]; omega

/-- Regression witness: the unclamped emission goes negative for a yearly decrease of ten
tokens per block (a parameter value the validator accepts). -/
def nextMintUnfixed (prev dec : Int) : Int :=
  Dec.trunc (Dec.sub (Dec.ofInt prev) ((Dec.quo? (Dec.ofInt dec) (Dec.ofInt blocksPerYear)).getD Dec.zero))
example : nextMintUnfixed 5 52560000 = -5 := by decide
example : nextMint 5 52560000 = 0 := by decide
/-- non-vacuity: the default parameters are valid and one block from an empty ledger mints -/
def defaultParams : Params := { tokensPerBlock := 4200000, mintDecrease := 6, stakerRatio := 80, devGrantsRatio := 8, providerRatio := 12 }
example : validParams defaultParams := by simp [validParams, defaultParams]
example : (blockMint defaultParams { last := none, supply := 0, stakers := 0, dev := 0, stipend := 0, modBal := 0 })
    = ({ last := some 4199999, supply := 4199999, stakers := 3359999, dev := 335999, stipend := 503999, modBal := 2 }, 4199999) := by decide

/-! ## The emission step as it stands in the source (regenerated tie) -/

/-- `utils.GetMintForBlock`, translated from x/jklmint/utils/mint.go on every run, is the model's
`nextMint` (with the chain's blocks-per-year constant the division never fails). -/
theorem C13_generated_emission_step_is_the_model (prev dec : Int) :
    Generated.Pure.GetMintForBlock prev blocksPerYear dec = some (nextMint prev dec) ∧
    Generated.Pure.GetMintForBlock_inputs = [] ∧
    -- … and `BlockMint` still passes it the same blocks-per-year constant, (365·24·60·60)/6
    Generated.Pure.BlockMint_bpy = blocksPerYear := by
  refine ⟨?_, rfl, by decide⟩
  unfold Generated.Pure.GetMintForBlock nextMint
  have hq : ∃ q, Dec.quo? (Dec.ofInt dec) (Dec.ofInt blocksPerYear) = some q := by
    unfold Dec.quo?
    have : (Dec.ofInt blocksPerYear).raw ≠ 0 := by decide
    simp [this]
  obtain ⟨q, hq⟩ := hq
  simp only [hq, bind, Option.bind, Option.getD]
  by_cases h : Dec.trunc (Dec.sub (Dec.ofInt prev) q) < 0 <;> simp [h]

/-- The three share computations at the head of `mintStaker`, `mintDevGrants` and
`mintStorageProviderStipend`, translated from x/jklmint/keeper/mint.go on every run, are the model's
`share` of the respective ratio parameter — `NewDec(ratio).QuoInt64(100).MulInt64(m).TruncateInt64()`,
exact decimal arithmetic, no `int64` product that could wrap. -/
theorem C13_generated_shares_are_the_model (ratio m : Int) (denom : String) :
    Generated.Pure.mintStaker ratio m denom = share ratio m ∧
    Generated.Pure.mintDevGrants ratio m denom = share ratio m ∧
    Generated.Pure.mintStorageProviderStipend ratio m denom = share ratio m ∧
    Generated.Pure.mintStaker_inputs = ["params.StakerRatio"] ∧
    Generated.Pure.mintDevGrants_inputs = ["params.DevGrantsRatio"] ∧
    Generated.Pure.mintStorageProviderStipend_inputs = ["params.StorageProviderRatio"] :=
  ⟨rfl, rfl, rfl, rfl, rfl, rfl⟩

/-! ## The parameter table as it stands in the source (regenerated fact) -/

/-- Which store key of the `jklmint` parameter subspace is bound to which field: the configured
percentages of C13 are the ones governance sets by key. -/
def C13_expectedParamPairs : List (String × String × String) := [
  ("KeyMintDenom", "&p.MintDenom", "validateMintDenom"),
  ("KeyTokensPerBlock", "&p.TokensPerBlock", "validateInt64"),
  ("KeyDevGrants", "&p.DevGrantsRatio", "validateInt64"),
  ("KeyMintIncrease", "&p.MintDecrease", "validateInt64"),
  ("KeyStakerRatio", "&p.StakerRatio", "validateInt64"),
  ("KeyStorageStipend", "&p.StorageStipendAddress", "validateStipend"),
  ("KeyProviderRatio", "&p.StorageProviderRatio", "validateInt64")]

theorem C13_param_keys_as_modelled : Generated.paramPairs_jklmint = C13_expectedParamPairs := by decide

end Canine.Mint
