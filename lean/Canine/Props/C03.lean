/-
C03 — Reward blocks pay each proven prover its proportional share exactly once.

Part A (loop): `manageFile` handles every listed prover of a file exactly once: the ones that met
their obligation stay listed and are credited the file size once, the ones that missed it are
removed, their record erased and their provider's burn counter raised by one; nothing else moves.
The pre-fix loop (ranging over the slice that the removal shrinks in place) skipped one prover and
counted another twice: `C03_aliased_loop_skips_and_double_counts`.

Part B (payout): the amount paid is `⌊share · R⌋` with `share = w / T` rounded at the 18th decimal;
it is within one base unit of `⌊w·R/T⌋`, the payouts never exceed what was released, and accounts
that were not counted receive nothing.
-/
import Canine.Proofs.StorageB
import Canine.Generated.PureFns
namespace Canine.Storage

/-! ## Part A: the per-file loop -/

theorem manageFile_eq (s : State) (h : Int) (t : Tracker) (file : File) :
    manageFile s h t file =
      let s1 := if file.proofs.isEmpty && !(isYoung h file.start file.proofInterval) then removeFile s file.key else s
      ((runProofs h file.proofs s1 t file).1, (runProofs h file.proofs s1 t file).2.1) := rfl

/-- A file with no provers that is past its first window is dropped, and nothing else happens. -/
theorem C03_empty_old_file_dropped (s : State) (h : Int) (t : Tracker) (file : File)
    (he : file.proofs = []) (ho : isYoung h file.start file.proofInterval = false) :
    manageFile s h t file = (removeFile s file.key, t) := by
  rw [manageFile_eq]
  simp [he, ho, runProofs]

/-- **Every listed prover is handled exactly once.**  For a file stored under its key whose prover
list has no duplicates (and that is not the "empty and old" case above), after `manageFile`:
* the stored file lists exactly the provers that met their obligation, in the same order;
* the tracker credit of every address rose by `fileSize` times the number of passing keys credited
  to that address;
* every provider's burn counter rose by the number of failing keys (with a proof record) listed
  under its address, and no other provider field changed;
* exactly the failing keys lost their proof record;
* no other file and no other part of the state changed. -/
theorem C03_each_prover_handled_once (s : State) (h : Int) (t : Tracker) (file : File)
    (hnd : file.proofs.Nodup)
    (hf : AMap.get s.files file.key = some file) (hf2 : AMap.get s.files2 file.key = some file)
    (hne : ¬ (file.proofs = [] ∧ isYoung h file.start file.proofInterval = false)) :
    let s' := (manageFile s h t file).1
    let t' := (manageFile s h t file).2
    let kept : File := { file with proofs := file.proofs.filter (passes s h file) }
    AMap.get s'.files file.key = some kept ∧ AMap.get s'.files2 file.key = some kept ∧
    (∀ k, k ≠ file.key → AMap.get s'.files k = AMap.get s.files k ∧ AMap.get s'.files2 k = AMap.get s.files2 k) ∧
    (∀ a, (AMap.get t' a).getD 0 = (AMap.get t a).getD 0 +
        file.fileSize * (file.proofs.countP (fun pk => passes s h file pk && decide (creditName s pk = a)) : Nat)) ∧
    (∀ x, AMap.get s'.providers x = (AMap.get s.providers x).map (fun p =>
        { p with burned := p.burned.map (· + ((file.proofs.countP (fun pk =>
            !passes s h file pk && (AMap.get s.proofs pk).isSome && decide (pk.1 = x)) : Nat) : Int)) })) ∧
    (∀ q, AMap.get s'.proofs q = if q ∈ file.proofs ∧ passes s h file q = false then none else AMap.get s.proofs q) ∧
    SameRest s' s := by
  intro s' t' kept
  have hs1 : (if file.proofs.isEmpty && !(isYoung h file.start file.proofInterval) then removeFile s file.key else s) = s := by
    cases hy : isYoung h file.start file.proofInterval
    · have : file.proofs ≠ [] := fun e => hne ⟨e, hy⟩
      simp [this]
    · simp
  have hs' : s' = (runProofs h file.proofs s t file).1 := by
    show (manageFile s h t file).1 = _; rw [manageFile_eq]; simp only [hs1]
  have ht' : t' = (runProofs h file.proofs s t file).2.1 := by
    show (manageFile s h t file).2 = _; rw [manageFile_eq]; simp only [hs1]
  obtain ⟨i1, i2, i3, i4, i5, i6, i7⟩ := runProofs_spec h file.proofs s t file hnd (fun _ hq => hq) hf hf2
  rw [← hs'] at i2 i3 i4 i5 i7
  rw [← ht'] at i6
  have hk : (runProofs h file.proofs s t file).2.2 = kept := by
    rw [i1]
    show _ = ({ file with proofs := file.proofs.filter (passes s h file) } : File)
    congr 1
    apply List.filter_congr
    intro q hq; simp [hq]
  rw [hk] at i2 i3
  refine ⟨by rw [i2]; simp, by rw [i3]; simp, ?_, i6, i5, i4, i7⟩
  intro k hkk
  rw [i2, i3]; simp [hkk]

theorem countP_eq_one_of_unique {α : Type} [DecidableEq α] (p : α → Bool) :
    ∀ (l : List α) (a : α), l.Nodup → a ∈ l → p a = true → (∀ q ∈ l, p q = true → q = a) → l.countP p = 1
  | [], a, _, hm, _, _ => by simp at hm
  | b :: l, a, hnd, hm, hpa, hu => by
    rw [List.countP_cons]
    obtain ⟨hb, hnd'⟩ := List.nodup_cons.mp hnd
    by_cases hab : a = b
    · subst hab
      have : l.countP p = 0 := by
        rw [List.countP_eq_zero]
        intro q hq hpq
        have := hu q (List.mem_cons_of_mem _ hq) (by simpa using hpq)
        subst this; exact hb hq
      simp [this, hpa]
    · have hm' : a ∈ l := by
        rcases List.mem_cons.mp hm with e | e
        · exact absurd e hab
        · exact e
      have hpb : p b = false := by
        cases hpb : p b
        · rfl
        · exact absurd (hu b (by simp) hpb).symm hab
      rw [countP_eq_one_of_unique p l a hnd' hm' hpa (fun q hq => hu q (List.mem_cons_of_mem _ hq))]
      simp [hpb]

/-- A listed prover that met its obligation is still listed afterwards, and (when no other passing
key of the file is credited to the same address) its address was credited the file size exactly once. -/
theorem C03_pass_counted_once (s : State) (h : Int) (t : Tracker) (file : File) (pk : PKey)
    (hnd : file.proofs.Nodup)
    (hf : AMap.get s.files file.key = some file) (hf2 : AMap.get s.files2 file.key = some file)
    (hm : pk ∈ file.proofs) (hp : passes s h file pk = true)
    (hu : ∀ q ∈ file.proofs, passes s h file q = true → creditName s q = creditName s pk → q = pk) :
    (∃ f', AMap.get (manageFile s h t file).1.files file.key = some f' ∧ pk ∈ f'.proofs) ∧
    AMap.get (manageFile s h t file).1.proofs pk = AMap.get s.proofs pk ∧
    (AMap.get (manageFile s h t file).2 (creditName s pk)).getD 0
      = (AMap.get t (creditName s pk)).getD 0 + file.fileSize := by
  have hne : ¬ (file.proofs = [] ∧ isYoung h file.start file.proofInterval = false) := by
    intro ⟨e, _⟩; rw [e] at hm; simp at hm
  obtain ⟨c1, _, _, c4, _, c6, _⟩ := C03_each_prover_handled_once s h t file hnd hf hf2 hne
  refine ⟨⟨_, c1, by simp [hm, hp]⟩, by rw [c6]; simp [hp], ?_⟩
  rw [c4]
  have : file.proofs.countP (fun q => passes s h file q && decide (creditName s q = creditName s pk)) = 1 :=
    countP_eq_one_of_unique _ file.proofs pk hnd hm (by simp [hp])
      (fun q hq hpq => by simp at hpq; exact hu q hq hpq.1 hpq.2)
  rw [this]; simp

/-- A listed prover (with a proof record) that missed its obligation is no longer listed, its record
is gone, it is credited nothing, and (when no other failing key of the file sits under the same
provider address) its provider's burn counter rose by exactly one, nothing else in the provider
record changing. -/
theorem C03_fail_removed_and_burned_once (s : State) (h : Int) (t : Tracker) (file : File) (pk : PKey)
    (pr : Proof) (p : Provider) (b : Int)
    (hnd : file.proofs.Nodup)
    (hf : AMap.get s.files file.key = some file) (hf2 : AMap.get s.files2 file.key = some file)
    (hm : pk ∈ file.proofs) (hp : passes s h file pk = false)
    (hrec : AMap.get s.proofs pk = some pr)
    (hprov : AMap.get s.providers pk.1 = some p) (hb : p.burned = some b)
    (hu : ∀ q ∈ file.proofs, passes s h file q = false → (AMap.get s.proofs q).isSome → q.1 = pk.1 → q = pk) :
    (∃ f', AMap.get (manageFile s h t file).1.files file.key = some f' ∧ pk ∉ f'.proofs) ∧
    AMap.get (manageFile s h t file).1.proofs pk = none ∧
    AMap.get (manageFile s h t file).1.providers pk.1 = some { p with burned := some (b + 1) } := by
  have hne : ¬ (file.proofs = [] ∧ isYoung h file.start file.proofInterval = false) := by
    intro ⟨e, _⟩; rw [e] at hm; simp at hm
  obtain ⟨c1, _, _, _, c5, c6, _⟩ := C03_each_prover_handled_once s h t file hnd hf hf2 hne
  refine ⟨⟨_, c1, by simp [hp]⟩, by rw [c6]; simp [hm, hp], ?_⟩
  rw [c5, hprov]
  have : file.proofs.countP (fun q => !passes s h file q && (AMap.get s.proofs q).isSome && decide (q.1 = pk.1)) = 1 :=
    countP_eq_one_of_unique _ file.proofs pk hnd hm (by simp [hp, hrec])
      (fun q hq hpq => by simp at hpq; exact hu q hq hpq.1.1 hpq.1.2 hpq.2)
  rw [this]; simp [hb]


/-- The PRE-FIX loop: Go's `for _, proof := range file.Proofs` evaluates the slice header once and
then reads positions `0 .. n-1` of its *backing array*, while `RemoveProverWithKey` shrinks the same
array in place with `append(front, back...)`: after removing an element of the current list (a
prefix of the array) the elements to its right move one slot left and the last slot of the old
prefix keeps its old value.  `backing` is that array; the current list is `f.proofs`. -/
def manageFileAliased (s : State) (h : Int) (t : Tracker) (file : File) : State × Tracker :=
  let s1 :=
    if file.proofs.isEmpty && !(isYoung h file.start file.proofInterval) then removeFile s file.key else s
  let r := (List.range file.proofs.length).foldl
    (fun (acc : State × Tracker × File × List PKey) i =>
      match acc.2.2.2[i]? with
      | none => acc
      | some pk =>
        let r := manageProof acc.1 h acc.2.1 acc.2.2.1 pk
        (r.1, r.2.1, r.2.2, r.2.2.proofs ++ acc.2.2.2.drop r.2.2.proofs.length))
    (s1, t, file, file.proofs)
  (r.1, r.2.1)

def wFile : File :=
  { merkle := "m", owner := "o", start := 0, expires := 0, fileSize := 10, proofInterval := 5, proofType := 0,
    proofs := [("fail", ("m", "o", 0)), ("ok1", ("m", "o", 0)), ("ok2", ("m", "o", 0))], maxProofs := 3, note := "" }

def wProof (who : String) (last : Int) : Proof :=
  { prover := who, merkle := "m", owner := "o", start := 0, lastProven := last, chunkToProve := 0 }

def wProvider (who : String) : Provider :=
  { address := who, ip := "", totalspace := "0", burned := some 0, creator := who, keybase := "", claimers := [] }

/-- three provers of an old file at height 100 (window 5): `fail` last proved at 10, the others at 97 -/
def wState : State :=
  { files := [(wFile.key, wFile)], files2 := [(wFile.key, wFile)],
    proofs := [(("fail", wFile.key), wProof "fail" 10), (("ok1", wFile.key), wProof "ok1" 97), (("ok2", wFile.key), wProof "ok2" 97)],
    providers := [("fail", wProvider "fail"), ("ok1", wProvider "ok1"), ("ok2", wProvider "ok2")],
    payinfo := [], collateral := [], gauges := [], attests := [], reports := [], bank := [],
    params := { proofWindow := 5, checkWindow := 5, chunkSize := 1024, pricePerTbPerMonth := 8, collateralPrice := 0,
                attestFormSize := 5, attestMinToPass := 3, referralCommission := 25, polRatio := 40 },
    moduleAcc := "storage", collateralAcc := "coll", polAcc := "pol", feeAcc := "fee", blocked := [] }


/-- **Regression witness.**  On `[fail, ok1, ok2]` the aliased loop never visits `ok1` (credited
nothing) and visits `ok2` twice (credited twice the file size); the fixed loop credits both once. -/
theorem C03_aliased_loop_skips_and_double_counts :
    wFile.proofs.map (passes wState 100 wFile) = [false, true, true] ∧
    (manageFileAliased wState 100 [] wFile).2 = [("ok2", 20)] ∧
    (manageFile wState 100 [] wFile).2 = [("ok1", 10), ("ok2", 10)] ∧
    -- both loops remove the failing prover and burn its provider once
    (AMap.get (manageFileAliased wState 100 [] wFile).1.files wFile.key).map (·.proofs) = some [("ok1", ("m", "o", 0)), ("ok2", ("m", "o", 0))] ∧
    (AMap.get (manageFile wState 100 [] wFile).1.files wFile.key).map (·.proofs) = some [("ok1", ("m", "o", 0)), ("ok2", ("m", "o", 0))] := by
  decide



/-! ## Part B: the payout -/

/-- **The payout is the proportional share up to one base unit.**  For a prover credited `w` out
of a total `T` and a released amount `R ≤ 10^18` base units of one denomination, the share
`w/T` exists, and the amount paid `⌊share · R⌋` differs from `⌊w·R/T⌋` by at most one unit in
either direction.  (`w ≤ T` is not needed.  Side condition `R ≤ 10^18`: the share is rounded at the
18th decimal, i.e. by at most `0.5·10^-18`, which times `R` stays below one unit.)  Both bounds
are attained, see the examples below. -/
theorem C03_payout_close_to_share (w T R : Int) (hw : 0 ≤ w) (hT : 0 < T) (hR0 : 0 ≤ R)
    (hR : R ≤ 1000000000000000000) :
    ∃ share, Dec.quo? (Dec.ofInt w) (Dec.ofInt T) = some share ∧
      Dec.trunc (Dec.mul share (Dec.ofInt R)) ≤ w * R / T + 1 ∧
      w * R / T - 1 ≤ Dec.trunc (Dec.mul share (Dec.ofInt R)) ∧
      0 ≤ Dec.trunc (Dec.mul share (Dec.ofInt R)) := by
  refine ⟨⟨rawShare T w⟩, quo_ofInt_eq w T hw hT, ?_⟩
  have h := payout_close T R w hw hT hR0 (by unfold precision; exact hR)
  have h0 := payout_nonneg T R w hw hT hR0
  unfold payout at h h0
  rw [quo_ofInt_eq w T hw hT] at h h0
  exact ⟨h.1, h.2, h0⟩

/-- the upper bound is attained (share 1.5·10^-18 rounds half-to-even up to 2·10^-18) … -/
example : payout 2000000000000000000 1000000000000000000 3 = 3 * 1000000000000000000 / 2000000000000000000 + 1 := by decide
/-- … and so is the lower one (1/3 rounds down) -/
example : payout 3 3 1 = 1 * 3 / 3 - 1 := by decide

/-- **The payouts never exceed what was released.**  Weights `ws` (non-negative) summing to at most
the total `T`, released amount `R`; side condition `ws.length · R < 2·10^18` (each share may be
rounded *up* by half a unit of 10^-18; `n` such roundings times `R` must stay below one coin unit). -/
theorem C03_payout_sum_le_released (T R : Int) (ws : List Int) (hT : 0 < T) (hR : 0 ≤ R)
    (hws : ∀ w ∈ ws, 0 ≤ w) (hsum : ws.sum ≤ T)
    (hside : (ws.length : Int) * R < 2 * 1000000000000000000) :
    (ws.map (fun w => Dec.trunc (Dec.mul ((Dec.quo? (Dec.ofInt w) (Dec.ofInt T)).getD Dec.zero) (Dec.ofInt R)))).sum ≤ R :=
  payout_sum_le T R ws hT hR hws hsum (by unfold precision; exact hside)

/-- the side condition as requested (`n·R ≤ 10^18`) is a special case -/
theorem C03_payout_sum_le_released' (T R : Int) (ws : List Int) (hT : 0 < T) (hR : 0 ≤ R)
    (hws : ∀ w ∈ ws, 0 ≤ w) (hsum : ws.sum ≤ T) (hside : (ws.length : Int) * R ≤ 1000000000000000000) :
    (ws.map (payout T R)).sum ≤ R :=
  C03_payout_sum_le_released T R ws hT hR hws hsum (by omega)

/-- Some side condition is necessary: six equal provers and `R = 3·10^18` — each share
`0.166666666666666667` is rounded up and each prover is paid `5·10^17 + 1`, six units more than
was released in total (the bank send of the last ones would fail or eat into other funds). -/
theorem C03_payout_sum_can_exceed_released :
    ([1, 1, 1, 1, 1, 1].map (payout 6 3000000000000000000)).sum = 3000000000000000000 + 6 := by decide

/-- **Accounts that were not counted receive nothing** (one prover's payment): only the paid
prover's balances can grow; in particular the module account never gains. -/
theorem C03_uncounted_receive_nothing (s s' : State) (total : Int) (coins : Coins) (prover : String) (worth : Int)
    (h : payProver s total coins prover worth = .ok s') :
    (∀ a d, a ≠ prover → Bank.bal s'.bank a d ≤ Bank.bal s.bank a d) ∧
    (∀ d, Bank.bal s'.bank s.moduleAcc d ≤ Bank.bal s.bank s.moduleAcc d) := by
  obtain ⟨_, _, h3, h4⟩ := payProver_paidOnly s s' total coins prover worth h
  exact ⟨h3, h4⟩

/-- … and over the whole payout loop of `manageRewards`: an address that is not a key of the
tracker gains nothing, and neither does the module account (even if it is a key). -/
theorem C03_uncounted_receive_nothing_fold (s s' : State) (total : Int) (coins : Coins) (tracker : Tracker)
    (h : (sortedProvers tracker).foldlM (fun st pw => payProver st total coins pw.1 pw.2) s = .ok s') :
    (∀ a d, a ∉ AMap.keys tracker → Bank.bal s'.bank a d ≤ Bank.bal s.bank a d) ∧
    (∀ d, Bank.bal s'.bank s.moduleAcc d ≤ Bank.bal s.bank s.moduleAcc d) := by
  have key := foldlM_except_rel (fun st (pw : String × Int) => payProver st total coins pw.1 pw.2)
    (fun a b => b.moduleAcc = a.moduleAcc ∧
      (∀ x d, x ∉ AMap.keys tracker → Bank.bal b.bank x d ≤ Bank.bal a.bank x d) ∧
      (∀ d, Bank.bal b.bank a.moduleAcc d ≤ Bank.bal a.bank a.moduleAcc d))
    (fun a => ⟨rfl, fun _ _ _ => Int.le_refl _, fun _ => Int.le_refl _⟩)
    (by
      intro a b c ⟨h1, h2, h3⟩ ⟨g1, g2, g3⟩
      refine ⟨g1.trans h1, fun x d hx => Int.le_trans (g2 x d hx) (h2 x d hx), fun d => ?_⟩
      have := g3 d; rw [h1] at this
      exact Int.le_trans this (h3 d))
    (sortedProvers tracker) s s'
    (by
      intro pw hpw a b hab
      obtain ⟨p1, _, p3, p4⟩ := payProver_paidOnly a b total coins pw.1 pw.2 hab
      refine ⟨p1, fun x d hx => p3 x d ?_, p4⟩
      intro e
      apply hx
      have : pw ∈ tracker := List.mem_mergeSort.mp hpw
      rw [e]
      exact List.mem_map_of_mem (f := (·.1)) this)
    h
  exact ⟨key.2.1, key.2.2⟩



/-! ## Non-vacuity -/

/-- the hypotheses of `C03_each_prover_handled_once` hold on the three-prover witness state … -/
example : wFile.proofs.Nodup ∧ AMap.get wState.files wFile.key = some wFile ∧
    AMap.get wState.files2 wFile.key = some wFile ∧
    ¬ (wFile.proofs = [] ∧ isYoung 100 wFile.start wFile.proofInterval = false) := by decide

/-- … those of the two single-prover corollaries too (`ok1` passes, `fail` fails with a record and a provider) … -/
example : ("ok1", wFile.key) ∈ wFile.proofs ∧ passes wState 100 wFile ("ok1", wFile.key) = true ∧
    (∀ q ∈ wFile.proofs, passes wState 100 wFile q = true →
      creditName wState q = creditName wState ("ok1", wFile.key) → q = ("ok1", wFile.key)) := by decide
example : ("fail", wFile.key) ∈ wFile.proofs ∧ passes wState 100 wFile ("fail", wFile.key) = false ∧
    AMap.get wState.proofs ("fail", wFile.key) = some (wProof "fail" 10) ∧
    AMap.get wState.providers "fail" = some (wProvider "fail") ∧ (wProvider "fail").burned = some 0 ∧
    (∀ q ∈ wFile.proofs, passes wState 100 wFile q = false → (AMap.get wState.proofs q).isSome →
      q.1 = "fail" → q = ("fail", wFile.key)) := by decide

/-- … and the outcome is the one the theorem describes: `fail` removed, its record erased and its
provider burned once, the other two credited the file size once. -/
example :
    (AMap.get (manageFile wState 100 [] wFile).1.files wFile.key).map (·.proofs)
      = some [("ok1", wFile.key), ("ok2", wFile.key)] ∧
    (manageFile wState 100 [] wFile).2 = [("ok1", 10), ("ok2", 10)] ∧
    AMap.get (manageFile wState 100 [] wFile).1.proofs ("fail", wFile.key) = none ∧
    (AMap.get (manageFile wState 100 [] wFile).1.providers "fail").map (·.burned) = some (some 1) ∧
    (AMap.get (manageFile wState 100 [] wFile).1.providers "ok1").map (·.burned) = some (some 0) := by decide

/-- the payout loop on the tracker of the witness (released: 7 ujkl; total weight 30 as computed at
block start, the removed prover's third stays in the module account) -/
def wPayState : State := { (manageFile wState 100 [] wFile).1 with bank := [(("storage", "ujkl"), 7)] }

theorem wSorted : sortedProvers (manageFile wState 100 [] wFile).2 = [("ok1", 10), ("ok2", 10)] := by
  rw [show (manageFile wState 100 [] wFile).2 = [("ok1", 10), ("ok2", 10)] by decide]
  simp [sortedProvers, List.mergeSort, List.MergeSort.Internal.splitInTwo]

example :
    ((sortedProvers (manageFile wState 100 [] wFile).2).foldlM
        (fun st pw => payProver st 30 [("ujkl", 7)] pw.1 pw.2) wPayState).toOption.map
      (fun s => (Bank.bal s.bank "ok1" "ujkl", Bank.bal s.bank "ok2" "ujkl", Bank.bal s.bank "fail" "ujkl",
                 Bank.bal s.bank "storage" "ujkl")) = some (2, 2, 0, 3) := by
  rw [wSorted]; decide


/-! ## The share computation as it stands in the source (regenerated tie) -/

/-- The amount `tokensValueOwed` that `rewardAllProviders` pays a prover for one released coin —
sliced out of x/storage/keeper/rewards.go and translated on every run, as a function of the size
credited to the prover, the network total and the released amount — is the expression the model's
`payProver` evaluates and `C03_payout_close_to_share` bounds: the share `worth/total` rounded at
the 18th decimal, times the amount, *truncated*. -/
theorem C03_generated_payout_is_the_model (w T R : Int) :
    Generated.Pure.rewardAllProviders_tokensValueOwed w T R =
      (Dec.quo? (Dec.ofInt w) (Dec.ofInt T)).map (fun share => Dec.trunc (Dec.mul share (Dec.ofInt R))) ∧
    Generated.Pure.rewardAllProviders_tokensValueOwed_inputs =
      ["(*sizeTracker)[prover]", "totalSize", "coin.Amount"] := by
  refine ⟨?_, rfl⟩
  unfold Generated.Pure.rewardAllProviders_tokensValueOwed
  simp only [bind, Option.bind]
  cases Dec.quo? (Dec.ofInt w) (Dec.ofInt T) <;> rfl

end Canine.Storage
