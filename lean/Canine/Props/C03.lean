/-
C03 — Reward blocks pay each proven prover its proportional share exactly once.

Part A (loop): `manageFile` handles every listed prover of a file exactly once: the ones that met
their obligation stay listed and are credited the file size once, the ones that missed it are
removed, their record erased and their provider's burn counter raised by one; nothing else moves.
The pre-fix loop (ranging over the slice that the removal shrinks in place) skipped one prover and
counted another twice: `C03_aliased_loop_skips_and_double_counts`.

Part B (payout): the amount paid is `⌊share · R⌋` with `share = w / T` rounded at the 18th decimal;
it is within one base unit of `⌊w·R/T⌋`, the payouts never exceed what was released, and accounts
that were not counted receive nothing.

Part C (whole block): the composition on the `State` model — the tracker `manageRewards` builds over all
files, the state after the file pass, the payout loop as a log of the sends that went through, the exact
payout when the module account is funded, conservation, the bound of the sum paid by the amount released,
and `C03_reward_block_end_to_end`.
-/
import Canine.Proofs.StorageB
import Canine.Proofs.RewardBlock
import Canine.Generated.PureFns
namespace Canine.Storage

/-! ## Part A: the per-file loop -/

theorem manageFile_eq (s : State) (h : Int) (t : Tracker) (file : File) :
    manageFile s h t file =
      let s1 := if file.proofs.isEmpty && !(isYoung h file.start file.proofInterval) then removeFile s file.key else s
      ((runProofs h file.proofs s1 t file).1, (runProofs h file.proofs s1 t file).2.1) := rfl

/-- A file with no provers that is past its first window is dropped, and nothing else happens. -/
theorem C03_empty_old_file_dropped (s : State) (h : Int) (t : Tracker) (file : File)
    (he : file.proofs = []) (ho : isYoung h file.start file.proofInterval = false) :
    manageFile s h t file = (removeFile s file.key, t) := by
  rw [manageFile_eq]
  simp [he, ho, runProofs]

/-- **Every listed prover is handled exactly once.**  For a file stored under its key whose prover
list has no duplicates (and that is not the "empty and old" case above), after `manageFile`:
* the stored file lists exactly the provers that met their obligation, in the same order;
* the tracker credit of every address rose by `fileSize` times the number of passing keys credited
  to that address;
* every provider's burn counter rose by the number of failing keys (with a proof record) listed
  under its address, and no other provider field changed;
* exactly the failing keys lost their proof record;
* no other file and no other part of the state changed. -/
theorem C03_each_prover_handled_once (s : State) (h : Int) (t : Tracker) (file : File)
    (hnd : file.proofs.Nodup)
    (hf : AMap.get s.files file.key = some file) (hf2 : AMap.get s.files2 file.key = some file)
    (hne : ¬ (file.proofs = [] ∧ isYoung h file.start file.proofInterval = false)) :
    let s' := (manageFile s h t file).1
    let t' := (manageFile s h t file).2
    let kept : File := { file with proofs := file.proofs.filter (passes s h file) }
    AMap.get s'.files file.key = some kept ∧ AMap.get s'.files2 file.key = some kept ∧
    (∀ k, k ≠ file.key → AMap.get s'.files k = AMap.get s.files k ∧ AMap.get s'.files2 k = AMap.get s.files2 k) ∧
    (∀ a, (AMap.get t' a).getD 0 = (AMap.get t a).getD 0 +
        file.fileSize * (file.proofs.countP (fun pk => passes s h file pk && decide (creditName s pk = a)) : Nat)) ∧
    (∀ x, AMap.get s'.providers x = (AMap.get s.providers x).map (fun p =>
        { p with burned := p.burned.map (· + ((file.proofs.countP (fun pk =>
            !passes s h file pk && (AMap.get s.proofs pk).isSome && decide (pk.1 = x)) : Nat) : Int)) })) ∧
    (∀ q, AMap.get s'.proofs q = if q ∈ file.proofs ∧ passes s h file q = false then none else AMap.get s.proofs q) ∧
    SameRest s' s := by
  intro s' t' kept
  have hs1 : (if file.proofs.isEmpty && !(isYoung h file.start file.proofInterval) then removeFile s file.key else s) = s := by
    cases hy : isYoung h file.start file.proofInterval
    · have : file.proofs ≠ [] := fun e => hne ⟨e, hy⟩
      simp [this]
    · simp
  have hs' : s' = (runProofs h file.proofs s t file).1 := by
    show (manageFile s h t file).1 = _; rw [manageFile_eq]; simp only [hs1]
  have ht' : t' = (runProofs h file.proofs s t file).2.1 := by
    show (manageFile s h t file).2 = _; rw [manageFile_eq]; simp only [hs1]
  obtain ⟨i1, i2, i3, i4, i5, i6, i7⟩ := runProofs_spec h file.proofs s t file hnd (fun _ hq => hq) hf hf2
  rw [← hs'] at i2 i3 i4 i5 i7
  rw [← ht'] at i6
  have hk : (runProofs h file.proofs s t file).2.2 = kept := by
    rw [i1]
    show _ = ({ file with proofs := file.proofs.filter (passes s h file) } : File)
    congr 1
    apply List.filter_congr
    intro q hq; simp [hq]
  rw [hk] at i2 i3
  refine ⟨by rw [i2]; simp, by rw [i3]; simp, ?_, i6, i5, i4, i7⟩
  intro k hkk
  rw [i2, i3]; simp [hkk]

theorem countP_eq_one_of_unique {α : Type} [DecidableEq α] (p : α → Bool) :
    ∀ (l : List α) (a : α), l.Nodup → a ∈ l → p a = true → (∀ q ∈ l, p q = true → q = a) → l.countP p = 1
  | [], a, _, hm, _, _ => by simp at hm
  | b :: l, a, hnd, hm, hpa, hu => by
    rw [List.countP_cons]
    obtain ⟨hb, hnd'⟩ := List.nodup_cons.mp hnd
    by_cases hab : a = b
    · subst hab
      have : l.countP p = 0 := by
        rw [List.countP_eq_zero]
        intro q hq hpq
        have := hu q (List.mem_cons_of_mem _ hq) (by simpa using hpq)
        subst this; exact hb hq
      simp [this, hpa]
    · have hm' : a ∈ l := by
        rcases List.mem_cons.mp hm with e | e
        · exact absurd e hab
        · exact e
      have hpb : p b = false := by
        cases hpb : p b
        · rfl
        · exact absurd (hu b (by simp) hpb).symm hab
      rw [countP_eq_one_of_unique p l a hnd' hm' hpa (fun q hq => hu q (List.mem_cons_of_mem _ hq))]
      simp [hpb]

/-- A listed prover that met its obligation is still listed afterwards, and (when no other passing
key of the file is credited to the same address) its address was credited the file size exactly once. -/
theorem C03_pass_counted_once (s : State) (h : Int) (t : Tracker) (file : File) (pk : PKey)
    (hnd : file.proofs.Nodup)
    (hf : AMap.get s.files file.key = some file) (hf2 : AMap.get s.files2 file.key = some file)
    (hm : pk ∈ file.proofs) (hp : passes s h file pk = true)
    (hu : ∀ q ∈ file.proofs, passes s h file q = true → creditName s q = creditName s pk → q = pk) :
    (∃ f', AMap.get (manageFile s h t file).1.files file.key = some f' ∧ pk ∈ f'.proofs) ∧
    AMap.get (manageFile s h t file).1.proofs pk = AMap.get s.proofs pk ∧
    (AMap.get (manageFile s h t file).2 (creditName s pk)).getD 0
      = (AMap.get t (creditName s pk)).getD 0 + file.fileSize := by
  have hne : ¬ (file.proofs = [] ∧ isYoung h file.start file.proofInterval = false) := by
    intro ⟨e, _⟩; rw [e] at hm; simp at hm
  obtain ⟨c1, _, _, c4, _, c6, _⟩ := C03_each_prover_handled_once s h t file hnd hf hf2 hne
  refine ⟨⟨_, c1, by simp [hm, hp]⟩, by rw [c6]; simp [hp], ?_⟩
  rw [c4]
  have : file.proofs.countP (fun q => passes s h file q && decide (creditName s q = creditName s pk)) = 1 :=
    countP_eq_one_of_unique _ file.proofs pk hnd hm (by simp [hp])
      (fun q hq hpq => by simp at hpq; exact hu q hq hpq.1 hpq.2)
  rw [this]; simp

/-- A listed prover (with a proof record) that missed its obligation is no longer listed, its record
is gone, it is credited nothing, and (when no other failing key of the file sits under the same
provider address) its provider's burn counter rose by exactly one, nothing else in the provider
record changing. -/
theorem C03_fail_removed_and_burned_once (s : State) (h : Int) (t : Tracker) (file : File) (pk : PKey)
    (pr : Proof) (p : Provider) (b : Int)
    (hnd : file.proofs.Nodup)
    (hf : AMap.get s.files file.key = some file) (hf2 : AMap.get s.files2 file.key = some file)
    (hm : pk ∈ file.proofs) (hp : passes s h file pk = false)
    (hrec : AMap.get s.proofs pk = some pr)
    (hprov : AMap.get s.providers pk.1 = some p) (hb : p.burned = some b)
    (hu : ∀ q ∈ file.proofs, passes s h file q = false → (AMap.get s.proofs q).isSome → q.1 = pk.1 → q = pk) :
    (∃ f', AMap.get (manageFile s h t file).1.files file.key = some f' ∧ pk ∉ f'.proofs) ∧
    AMap.get (manageFile s h t file).1.proofs pk = none ∧
    AMap.get (manageFile s h t file).1.providers pk.1 = some { p with burned := some (b + 1) } := by
  have hne : ¬ (file.proofs = [] ∧ isYoung h file.start file.proofInterval = false) := by
    intro ⟨e, _⟩; rw [e] at hm; simp at hm
  obtain ⟨c1, _, _, _, c5, c6, _⟩ := C03_each_prover_handled_once s h t file hnd hf hf2 hne
  refine ⟨⟨_, c1, by simp [hp]⟩, by rw [c6]; simp [hm, hp], ?_⟩
  rw [c5, hprov]
  have : file.proofs.countP (fun q => !passes s h file q && (AMap.get s.proofs q).isSome && decide (q.1 = pk.1)) = 1 :=
    countP_eq_one_of_unique _ file.proofs pk hnd hm (by simp [hp, hrec])
      (fun q hq hpq => by simp at hpq; exact hu q hq hpq.1.1 hpq.1.2 hpq.2)
  rw [this]; simp [hb]


/-- The PRE-FIX loop: Go's `for _, proof := range file.Proofs` evaluates the slice header once and
then reads positions `0 .. n-1` of its *backing array*, while `RemoveProverWithKey` shrinks the same
array in place with `append(front, back...)`: after removing an element of the current list (a
prefix of the array) the elements to its right move one slot left and the last slot of the old
prefix keeps its old value.  `backing` is that array; the current list is `f.proofs`. -/
def manageFileAliased (s : State) (h : Int) (t : Tracker) (file : File) : State × Tracker :=
  let s1 :=
    if file.proofs.isEmpty && !(isYoung h file.start file.proofInterval) then removeFile s file.key else s
  let r := (List.range file.proofs.length).foldl
    (fun (acc : State × Tracker × File × List PKey) i =>
      match acc.2.2.2[i]? with
      | none => acc
      | some pk =>
        let r := manageProof acc.1 h acc.2.1 acc.2.2.1 pk
        (r.1, r.2.1, r.2.2, r.2.2.proofs ++ acc.2.2.2.drop r.2.2.proofs.length))
    (s1, t, file, file.proofs)
  (r.1, r.2.1)

def wFile : File :=
  { merkle := "m", owner := "o", start := 0, expires := 0, fileSize := 10, proofInterval := 5, proofType := 0,
    proofs := [("fail", ("m", "o", 0)), ("ok1", ("m", "o", 0)), ("ok2", ("m", "o", 0))], maxProofs := 3, note := "" }

def wProof (who : String) (last : Int) : Proof :=
  { prover := who, merkle := "m", owner := "o", start := 0, lastProven := last, chunkToProve := 0 }

def wProvider (who : String) : Provider :=
  { address := who, ip := "", totalspace := "0", burned := some 0, creator := who, keybase := "", claimers := [] }

/-- three provers of an old file at height 100 (window 5): `fail` last proved at 10, the others at 97 -/
def wState : State :=
  { files := [(wFile.key, wFile)], files2 := [(wFile.key, wFile)],
    proofs := [(("fail", wFile.key), wProof "fail" 10), (("ok1", wFile.key), wProof "ok1" 97), (("ok2", wFile.key), wProof "ok2" 97)],
    providers := [("fail", wProvider "fail"), ("ok1", wProvider "ok1"), ("ok2", wProvider "ok2")],
    payinfo := [], collateral := [], gauges := [], attests := [], reports := [], bank := [],
    params := { proofWindow := 5, checkWindow := 5, chunkSize := 1024, pricePerTbPerMonth := 8, collateralPrice := 0,
                attestFormSize := 5, attestMinToPass := 3, referralCommission := 25, polRatio := 40 },
    moduleAcc := "storage", collateralAcc := "coll", polAcc := "pol", feeAcc := "fee", blocked := [] }


/-- **Regression witness.**  On `[fail, ok1, ok2]` the aliased loop never visits `ok1` (credited
nothing) and visits `ok2` twice (credited twice the file size); the fixed loop credits both once. -/
theorem C03_aliased_loop_skips_and_double_counts :
    wFile.proofs.map (passes wState 100 wFile) = [false, true, true] ∧
    (manageFileAliased wState 100 [] wFile).2 = [("ok2", 20)] ∧
    (manageFile wState 100 [] wFile).2 = [("ok1", 10), ("ok2", 10)] ∧
    -- both loops remove the failing prover and burn its provider once
    (AMap.get (manageFileAliased wState 100 [] wFile).1.files wFile.key).map (·.proofs) = some [("ok1", ("m", "o", 0)), ("ok2", ("m", "o", 0))] ∧
    (AMap.get (manageFile wState 100 [] wFile).1.files wFile.key).map (·.proofs) = some [("ok1", ("m", "o", 0)), ("ok2", ("m", "o", 0))] := by
  decide



/-! ## Part B: the payout -/

/-- **The payout is the proportional share up to one base unit.**  For a prover credited `w` out
of a total `T` and a released amount `R ≤ 10^18` base units of one denomination, the share
`w/T` exists, and the amount paid `⌊share · R⌋` differs from `⌊w·R/T⌋` by at most one unit in
either direction.  (`w ≤ T` is not needed.  Side condition `R ≤ 10^18`: the share is rounded at the
18th decimal, i.e. by at most `0.5·10^-18`, which times `R` stays below one unit.)  Both bounds
are attained, see the examples below. -/
theorem C03_payout_close_to_share (w T R : Int) (hw : 0 ≤ w) (hT : 0 < T) (hR0 : 0 ≤ R)
    (hR : R ≤ 1000000000000000000) :
    ∃ share, Dec.quo? (Dec.ofInt w) (Dec.ofInt T) = some share ∧
      Dec.trunc (Dec.mul share (Dec.ofInt R)) ≤ w * R / T + 1 ∧
      w * R / T - 1 ≤ Dec.trunc (Dec.mul share (Dec.ofInt R)) ∧
      0 ≤ Dec.trunc (Dec.mul share (Dec.ofInt R)) := by
  refine ⟨⟨rawShare T w⟩, quo_ofInt_eq w T hw hT, ?_⟩
  have h := payout_close T R w hw hT hR0 (by unfold precision; exact hR)
  have h0 := payout_nonneg T R w hw hT hR0
  unfold payout at h h0
  rw [quo_ofInt_eq w T hw hT] at h h0
  exact ⟨h.1, h.2, h0⟩

/-- the upper bound is attained (share 1.5·10^-18 rounds half-to-even up to 2·10^-18) … -/
example : payout 2000000000000000000 1000000000000000000 3 = 3 * 1000000000000000000 / 2000000000000000000 + 1 := by decide
/-- … and so is the lower one (1/3 rounds down) -/
example : payout 3 3 1 = 1 * 3 / 3 - 1 := by decide

/-- **The payouts never exceed what was released.**  Weights `ws` (non-negative) summing to at most
the total `T`, released amount `R`; side condition `ws.length · R < 2·10^18` (each share may be
rounded *up* by half a unit of 10^-18; `n` such roundings times `R` must stay below one coin unit). -/
theorem C03_payout_sum_le_released (T R : Int) (ws : List Int) (hT : 0 < T) (hR : 0 ≤ R)
    (hws : ∀ w ∈ ws, 0 ≤ w) (hsum : ws.sum ≤ T)
    (hside : (ws.length : Int) * R < 2 * 1000000000000000000) :
    (ws.map (fun w => Dec.trunc (Dec.mul ((Dec.quo? (Dec.ofInt w) (Dec.ofInt T)).getD Dec.zero) (Dec.ofInt R)))).sum ≤ R :=
  payout_sum_le T R ws hT hR hws hsum (by unfold precision; exact hside)

/-- the side condition as requested (`n·R ≤ 10^18`) is a special case -/
theorem C03_payout_sum_le_released' (T R : Int) (ws : List Int) (hT : 0 < T) (hR : 0 ≤ R)
    (hws : ∀ w ∈ ws, 0 ≤ w) (hsum : ws.sum ≤ T) (hside : (ws.length : Int) * R ≤ 1000000000000000000) :
    (ws.map (payout T R)).sum ≤ R :=
  C03_payout_sum_le_released T R ws hT hR hws hsum (by omega)

/-- Some side condition is necessary: six equal provers and `R = 3·10^18` — each share
`0.166666666666666667` is rounded up and each prover is paid `5·10^17 + 1`, six units more than
was released in total (the bank send of the last ones would fail or eat into other funds). -/
theorem C03_payout_sum_can_exceed_released :
    ([1, 1, 1, 1, 1, 1].map (payout 6 3000000000000000000)).sum = 3000000000000000000 + 6 := by decide

/-- **Accounts that were not counted receive nothing** (one prover's payment): only the paid
prover's balances can grow; in particular the module account never gains. -/
theorem C03_uncounted_receive_nothing (s s' : State) (total : Int) (coins : Coins) (prover : String) (worth : Int)
    (h : payProver s total coins prover worth = .ok s') :
    (∀ a d, a ≠ prover → Bank.bal s'.bank a d ≤ Bank.bal s.bank a d) ∧
    (∀ d, Bank.bal s'.bank s.moduleAcc d ≤ Bank.bal s.bank s.moduleAcc d) := by
  obtain ⟨_, _, h3, h4⟩ := payProver_paidOnly s s' total coins prover worth h
  exact ⟨h3, h4⟩

/-- … and over the whole payout loop of `manageRewards`: an address that is not a key of the
tracker gains nothing, and neither does the module account (even if it is a key). -/
theorem C03_uncounted_receive_nothing_fold (s s' : State) (total : Int) (coins : Coins) (tracker : Tracker)
    (h : (sortedProvers tracker).foldlM (fun st pw => payProver st total coins pw.1 pw.2) s = .ok s') :
    (∀ a d, a ∉ AMap.keys tracker → Bank.bal s'.bank a d ≤ Bank.bal s.bank a d) ∧
    (∀ d, Bank.bal s'.bank s.moduleAcc d ≤ Bank.bal s.bank s.moduleAcc d) := by
  have key := foldlM_except_rel (fun st (pw : String × Int) => payProver st total coins pw.1 pw.2)
    (fun a b => b.moduleAcc = a.moduleAcc ∧
      (∀ x d, x ∉ AMap.keys tracker → Bank.bal b.bank x d ≤ Bank.bal a.bank x d) ∧
      (∀ d, Bank.bal b.bank a.moduleAcc d ≤ Bank.bal a.bank a.moduleAcc d))
    (fun a => ⟨rfl, fun _ _ _ => Int.le_refl _, fun _ => Int.le_refl _⟩)
    (by
      intro a b c ⟨h1, h2, h3⟩ ⟨g1, g2, g3⟩
      refine ⟨g1.trans h1, fun x d hx => Int.le_trans (g2 x d hx) (h2 x d hx), fun d => ?_⟩
      have := g3 d; rw [h1] at this
      exact Int.le_trans this (h3 d))
    (sortedProvers tracker) s s'
    (by
      intro pw hpw a b hab
      obtain ⟨p1, _, p3, p4⟩ := payProver_paidOnly a b total coins pw.1 pw.2 hab
      refine ⟨p1, fun x d hx => p3 x d ?_, p4⟩
      intro e
      apply hx
      have : pw ∈ tracker := List.mem_mergeSort.mp hpw
      rw [e]
      exact List.mem_map_of_mem (f := (·.1)) this)
    h
  exact ⟨key.2.1, key.2.2⟩



/-! ## Non-vacuity -/

/-- the hypotheses of `C03_each_prover_handled_once` hold on the three-prover witness state … -/
example : wFile.proofs.Nodup ∧ AMap.get wState.files wFile.key = some wFile ∧
    AMap.get wState.files2 wFile.key = some wFile ∧
    ¬ (wFile.proofs = [] ∧ isYoung 100 wFile.start wFile.proofInterval = false) := by decide

/-- … those of the two single-prover corollaries too (`ok1` passes, `fail` fails with a record and a provider) … -/
example : ("ok1", wFile.key) ∈ wFile.proofs ∧ passes wState 100 wFile ("ok1", wFile.key) = true ∧
    (∀ q ∈ wFile.proofs, passes wState 100 wFile q = true →
      creditName wState q = creditName wState ("ok1", wFile.key) → q = ("ok1", wFile.key)) := by decide
example : ("fail", wFile.key) ∈ wFile.proofs ∧ passes wState 100 wFile ("fail", wFile.key) = false ∧
    AMap.get wState.proofs ("fail", wFile.key) = some (wProof "fail" 10) ∧
    AMap.get wState.providers "fail" = some (wProvider "fail") ∧ (wProvider "fail").burned = some 0 ∧
    (∀ q ∈ wFile.proofs, passes wState 100 wFile q = false → (AMap.get wState.proofs q).isSome →
      q.1 = "fail" → q = ("fail", wFile.key)) := by decide

/-- … and the outcome is the one the theorem describes: `fail` removed, its record erased and its
provider burned once, the other two credited the file size once. -/
example :
    (AMap.get (manageFile wState 100 [] wFile).1.files wFile.key).map (·.proofs)
      = some [("ok1", wFile.key), ("ok2", wFile.key)] ∧
    (manageFile wState 100 [] wFile).2 = [("ok1", 10), ("ok2", 10)] ∧
    AMap.get (manageFile wState 100 [] wFile).1.proofs ("fail", wFile.key) = none ∧
    (AMap.get (manageFile wState 100 [] wFile).1.providers "fail").map (·.burned) = some (some 1) ∧
    (AMap.get (manageFile wState 100 [] wFile).1.providers "ok1").map (·.burned) = some (some 0) := by decide

/-- the payout loop on the tracker of the witness (released: 7 ujkl; total weight 30 as computed at
block start, the removed prover's third stays in the module account) -/
def wPayState : State := { (manageFile wState 100 [] wFile).1 with bank := [(("storage", "ujkl"), 7)] }

theorem wSorted : sortedProvers (manageFile wState 100 [] wFile).2 = [("ok1", 10), ("ok2", 10)] := by
  rw [show (manageFile wState 100 [] wFile).2 = [("ok1", 10), ("ok2", 10)] by decide]
  simp [sortedProvers, List.mergeSort, List.MergeSort.Internal.splitInTwo]

example :
    ((sortedProvers (manageFile wState 100 [] wFile).2).foldlM
        (fun st pw => payProver st 30 [("ujkl", 7)] pw.1 pw.2) wPayState).toOption.map
      (fun s => (Bank.bal s.bank "ok1" "ujkl", Bank.bal s.bank "ok2" "ujkl", Bank.bal s.bank "fail" "ujkl",
                 Bank.bal s.bank "storage" "ujkl")) = some (2, 2, 0, 3) := by
  rw [wSorted]; decide



/-! ## Part C: the whole reward block

`manageRewards s h now` = the file pass (`manageFile` folded over the files as they were at block
start, building the tracker), `pullGauges` (releases `coins`), then `payProver` for every entry of the
sorted tracker, with `total = Σ fileSize·|proofs|` taken at block start.  Helper lemmas:
`Canine/Proofs/RewardBlock.lean`. -/

open RewardBlock

/-- the store invariant the file pass relies on (the `wf`/`key`/`listed` clauses of `Consistent` in the
StorageA family and of `IndexInv` in StorageE, which are proved there to hold after every message and
every block; the per-file hypotheses of `C03_each_prover_handled_once` for every stored file):
distinct keys, every file under its own key in both indexes, duplicate-free prover lists, and every
listed proof key points at the file that lists it -/
structure BlockStoreInv (s : State) : Prop where
  wf : AMap.WF s.files
  ownKey : ∀ kv ∈ s.files, kv.2.key = kv.1
  index2 : ∀ kv ∈ s.files, AMap.get s.files2 kv.1 = some kv.2
  nodup : ∀ kv ∈ s.files, kv.2.proofs.Nodup
  listed : ∀ kv ∈ s.files, ∀ pk ∈ kv.2.proofs, pk.2 = kv.1

theorem BlockStoreInv.filesOK {s : State} (inv : BlockStoreInv s) : FilesOK s.files s :=
  ⟨inv.wf, inv.ownKey, fun _ hkv => AMap.get_of_mem_wf inv.wf hkv, inv.index2, inv.nodup, inv.listed⟩

/-- the state and the tracker after the file pass of `manageRewards` (verbatim the fold it runs) -/
def filePassOf (s : State) (h : Int) : State × Tracker :=
  s.files.foldl (fun (acc : State × Tracker) kv => manageFile acc.1 h acc.2 kv.2) (s, [])

/-- `total` as `manageRewards` computes it at block start -/
def totalOf (s : State) : Int := (s.files.map (fun kv => kv.2.fileSize * (kv.2.proofs.length : Int))).sum

theorem failsIn_iff (s : State) (h : Int) (fs : List (FKey × File)) (q : PKey) :
    failsIn s h fs q = true ↔ ∃ kv ∈ fs, q ∈ kv.2.proofs ∧ passes s h kv.2 q = false := by
  unfold failsIn
  simp only [List.any_eq_true, Bool.and_eq_true, decide_eq_true_eq, Bool.not_eq_true']

/-- **C03 for the file pass of the whole block.**  On a state satisfying the store invariant, after
`manageFile` has been folded over all files:

* the tracker is exactly the result of crediting, in store order, one entry `(credited name, fileSize)`
  per (file, listed proof key) pair that passes — each pair once, nothing else (`blockEntries`); hence
  it has distinct keys, the credit of every name `a` is `Σ fileSize · #(passing keys of that file
  credited to a)`, and its keys are exactly the names credited by some passing pair;
* every file is stored (in both indexes) with exactly its passing provers, in order — or is gone if
  it had no provers and was past its first window — and no other key appears;
* exactly the records of the failing (file, key) pairs are erased;
* the burn counter of every provider rose by the number of failing (file, key) pairs that had a record
  and sit under its address (`blockBurns`), no other provider field changing;
* ledger, gauges, parameters, forms, collateral, module/blocked accounts are untouched, and so are the
  payment plans unless an empty old file was dropped. -/
theorem C03_block_tracker_spec (s : State) (h : Int) (inv : BlockStoreInv s) :
    let s1 := (filePassOf s h).1
    let tracker := (filePassOf s h).2
    tracker = creditAll [] (blockEntries s h s.files) ∧
    AMap.WF tracker ∧
    (∀ a, (AMap.get tracker a).getD 0 = blockCredit s h s.files a) ∧
    (∀ a, a ∈ AMap.keys tracker ↔
      ∃ kv ∈ s.files, ∃ pk ∈ kv.2.proofs, passes s h kv.2 pk = true ∧ creditName s pk = a) ∧
    (∀ kv ∈ s.files, AMap.get s1.files kv.1 = outcome s h kv.2 ∧ AMap.get s1.files2 kv.1 = outcome s h kv.2) ∧
    (∀ k, k ∉ AMap.keys s.files → AMap.get s1.files k = none ∧ AMap.get s1.files2 k = AMap.get s.files2 k) ∧
    (∀ q, AMap.get s1.proofs q = if failsIn s h s.files q then none else AMap.get s.proofs q) ∧
    (∀ x, AMap.get s1.providers x = (AMap.get s.providers x).map (bump (blockBurns s h s.files x))) ∧
    SameRestB s1 s ∧ ((∀ kv ∈ s.files, emptyOld h kv.2 = false) → s1.payinfo = s.payinfo) := by
  intro s1 tracker
  obtain ⟨b1, b2, b3, b4, b5, b6, b7, b8, b9⟩ := filePass_spec h s.files s [] inv.filesOK
  have e1 : tracker = creditAll [] (blockEntries s h s.files) := b1
  have hwf : AMap.WF tracker := by rw [e1]; exact creditAll_wf _ _ (by simp [AMap.WF, AMap.keys])
  refine ⟨e1, hwf, ?_, ?_, fun kv hkv => ⟨b2 kv hkv, b4 kv hkv⟩, ?_, b6, b7, b8, b9⟩
  · intro a; rw [e1, creditAll_getD, wsum_blockEntries]; simp
  · intro a
    rw [e1, creditAll_keys]
    simp only [AMap.keys, List.map_nil, List.not_mem_nil, false_or, List.mem_map]
    constructor
    · rintro ⟨e, he, rfl⟩
      obtain ⟨kv, hkv, pk, hpk, hp, rfl⟩ := mem_blockEntries.mp he
      exact ⟨kv, hkv, pk, hpk, hp, rfl⟩
    · rintro ⟨kv, hkv, pk, hpk, hp, rfl⟩
      exact ⟨_, mem_blockEntries.mpr ⟨kv, hkv, pk, hpk, hp, rfl⟩, rfl⟩
  · intro k hk
    exact ⟨by rw [show AMap.get s1.files k = _ from b3 k hk]; exact AMap.get_none_of_not_mem hk, b5 k hk⟩

/-- **Where `Σ weights ≤ total` comes from.**  `total` is `Σ fileSize·|proofs|` over the files at block
start and every credited pair is a listed pair, so (file sizes being non-negative — `postFile` demands
`1 ≤ fileSize`) the weights of the tracker are non-negative and add up to at most `total`. -/
theorem C03_block_weights_le_total (s : State) (h : Int) (inv : BlockStoreInv s)
    (hsz : ∀ kv ∈ s.files, 0 ≤ kv.2.fileSize) :
    let tracker := (filePassOf s h).2
    AMap.sumBy id tracker = ((blockEntries s h s.files).map (·.2)).sum ∧
    AMap.sumBy id tracker ≤ totalOf s ∧
    ((sortedProvers tracker).map (·.2)).sum ≤ totalOf s ∧
    (∀ pw ∈ tracker, 0 ≤ pw.2) ∧ (∀ pw ∈ sortedProvers tracker, 0 ≤ pw.2) := by
  intro tracker
  obtain ⟨e1, _, _⟩ := C03_block_tracker_spec s h inv
  have e1 : tracker = creditAll [] (blockEntries s h s.files) := e1
  have hs : AMap.sumBy id tracker = ((blockEntries s h s.files).map (·.2)).sum := by
    rw [e1, creditAll_sumBy _ _ (by simp [AMap.WF, AMap.keys])]; simp [AMap.sumBy]
  have hle : AMap.sumBy id tracker ≤ totalOf s := by
    rw [hs]; exact sum_blockEntries_le s h s.files hsz
  have hnn : ∀ pw ∈ tracker, 0 ≤ pw.2 := by
    intro pw hpw
    obtain ⟨p, w⟩ := pw
    rw [e1] at hpw
    rw [creditAll_entry _ p w hpw]
    exact wsum_nonneg p _ (blockEntries_nonneg s h s.files hsz)
  refine ⟨hs, hle, by rw [sortedProvers_sum]; exact hle, hnn, ?_⟩
  intro pw hpw
  exact hnn pw ((sortedProvers_perm tracker).mem_iff.mp hpw)

/-- **C03 for the payout phase of the whole block** (no hypothesis on the state).  If the block
succeeds, with `(s1, tracker)` the result of the file pass and `(s2, coins)` that of `pullGauges s1 now`,
there is a list `paid` of the sends that went through such that
* `paid` is a sublist of the candidate sends `blockPays total coins (sortedProvers tracker)` — for every
  tracker entry `(p, w)` in sorted order, the empty name skipped, and every released coin `(d, R)` in
  order, the send of `⌊share(w,total)·R⌋` units of `d` to `p` (a send that fails for lack of funds or
  to a blocked recipient, and a zero amount, is not in `paid`, and the loop goes on);
* every send in `paid` has a positive amount and a recipient that is not blocked;
* nothing but the ledger changes, and for *every* address `a` and denomination `d`
  `bal s' a d = bal s2 a d + (sent to a in paid) − (all of paid, if a is the module account)`. -/
theorem C03_block_payout_spec (s s' s2 : State) (h now : Int) (coins : Coins)
    (hok : manageRewards s h now = .ok s')
    (hg : pullGauges (filePassOf s h).1 now = .ok (s2, coins)) :
    ∃ paid : List Pay,
      paid.Sublist (blockPays (totalOf s) coins (sortedProvers (filePassOf s h).2)) ∧
      (∀ e ∈ paid, 0 < e.2.2 ∧ s2.blocked.contains e.1 = false) ∧
      s' = { s2 with bank := s'.bank } ∧
      ∀ a d, Bank.bal s'.bank a d =
        Bank.bal s2.bank a d + paidTo paid a d - (if a = s2.moduleAcc then paidOut paid d else 0) := by
  have hloop : (sortedProvers (filePassOf s h).2).foldlM
      (fun st pw => payProver st (totalOf s) coins pw.1 pw.2) s2 = .ok s' := manageRewards_split hok hg
  obtain ⟨lg, hsub, ⟨hb1, hb2⟩, hpos⟩ := payLoop_log _ _ _ _ _ hloop
  exact ⟨lg, hsub, hpos, hb1, hb2⟩

/-- **Accounts that were not counted are unchanged by the payout phase** (lifting
`C03_uncounted_receive_nothing_fold` to the block, with equality): an address other than the module
account that is not a key of the tracker, or is the empty string, or is blocked, holds after the block
exactly what it held after the gauge pass; and the gauge pass itself touches only the gauge store and
the ledger. -/
theorem C03_block_uncounted_unchanged (s s' s2 : State) (h now : Int) (coins : Coins)
    (hok : manageRewards s h now = .ok s')
    (hg : pullGauges (filePassOf s h).1 now = .ok (s2, coins)) :
    (∀ a d, a ≠ s2.moduleAcc →
      (a ∉ AMap.keys (filePassOf s h).2 ∨ a = "" ∨ s2.blocked.contains a = true) →
      Bank.bal s'.bank a d = Bank.bal s2.bank a d) ∧
    s2 = { (filePassOf s h).1 with gauges := s2.gauges, bank := s2.bank } := by
  obtain ⟨paid, hsub, hpos, _, hbal⟩ := C03_block_payout_spec s s' s2 h now coins hok hg
  refine ⟨?_, (pullGauges_frame _ _ _ _ hg).1⟩
  intro a d ha hcase
  rw [hbal a d, if_neg ha]
  have : paidTo paid a d = 0 := by
    apply paidTo_eq_zero
    intro e he ea
    obtain ⟨hne, hmem⟩ := blockPays_recipient (hsub.subset he)
    rcases hcase with hc | hc | hc
    · apply hc
      rw [← ea]
      have : AMap.keys (sortedProvers (filePassOf s h).2) = (sortedProvers (filePassOf s h).2).map (·.1) := rfl
      obtain ⟨pw, hpw, hpe⟩ := List.mem_map.mp hmem
      rw [← hpe]
      exact List.mem_map_of_mem (f := (·.1)) ((sortedProvers_perm _).mem_iff.mp hpw)
    · exact hne (ea.trans hc)
    · have := (hpos e he).2
      rw [ea, hc] at this; cases this
  omega

/-- the closed form of what the address `a` is owed of denomination `d`: for the tracker entry of `a`
(if any, and `a` is not the empty string) one truncated share `⌊share(w,total)·R⌋` per released coin
`(d, R)` -/
def owedTo (total : Int) (coins : Coins) (tracker : Tracker) (a d : String) : Int :=
  if a = "" then 0 else ((AMap.get tracker a).map (fun w => coinPay total d w coins)).getD 0

/-- **Exact payout when the module account is funded.**  On a state with the store invariant and
non-negative file sizes, if no tracker key is blocked and the module account holds, after the gauge
pass, at least the sum of all candidate sends of every denomination, then every send goes through:
every address receives exactly `owedTo` — the size-weighted share of its tracker entry, truncated,
of every released coin — and the module account pays exactly the sum. -/
theorem C03_block_payout_exact (s s' s2 : State) (h now : Int) (coins : Coins)
    (inv : BlockStoreInv s) (hsz : ∀ kv ∈ s.files, 0 ≤ kv.2.fileSize)
    (hok : manageRewards s h now = .ok s')
    (hg : pullGauges (filePassOf s h).1 now = .ok (s2, coins))
    (hnb : ∀ a ∈ AMap.keys (filePassOf s h).2, s2.blocked.contains a = false)
    (hfund : ∀ d, paidOut (blockPays (totalOf s) coins (sortedProvers (filePassOf s h).2)) d
      ≤ Bank.bal s2.bank s2.moduleAcc d) :
    s' = { s2 with bank := s'.bank } ∧
    ∀ a d, Bank.bal s'.bank a d =
      Bank.bal s2.bank a d + owedTo (totalOf s) coins (filePassOf s h).2 a d
        - (if a = s2.moduleAcc then
            paidOut (blockPays (totalOf s) coins (sortedProvers (filePassOf s h).2)) d else 0) := by
  have hloop : (sortedProvers (filePassOf s h).2).foldlM
      (fun st pw => payProver st (totalOf s) coins pw.1 pw.2) s2 = .ok s' := manageRewards_split hok hg
  obtain ⟨_, hwf, _⟩ := C03_block_tracker_spec s h inv
  obtain ⟨_, _, hsum, _, hnn⟩ := C03_block_weights_le_total s h inv hsz
  have hpaid : ∀ a d, paidTo (blockPays (totalOf s) coins (sortedProvers (filePassOf s h).2)) a d
      = owedTo (totalOf s) coins (filePassOf s h).2 a d := by
    intro a d
    rw [paidTo_blockPays _ _ _ _ _ (sortedProvers_wf _ hwf), sortedProvers_get _ hwf]; rfl
  by_cases hemp : sortedProvers (filePassOf s h).2 = []
  · -- nobody was counted: nothing happens
    rw [hemp] at hloop
    simp only [List.foldlM_nil, pure, Except.pure] at hloop
    cases hloop
    refine ⟨rfl, fun a d => ?_⟩
    rw [← hpaid, hemp]
    simp [blockPays, paidTo, paidOut]
  · have hT : 0 < totalOf s := by
      have h1 : totalOf s ≠ 0 := payLoop_ok_total_ne hloop hemp
      have h2 : 0 ≤ ((sortedProvers (filePassOf s h).2).map (·.2)).sum := by
        have : ∀ (l : List (String × Int)), (∀ pw ∈ l, 0 ≤ pw.2) → 0 ≤ (l.map (·.2)).sum := by
          intro l; induction l with
          | nil => intro _; simp
          | cons x l ih =>
            intro hl
            have := ih (fun y hy => hl y (List.mem_cons_of_mem _ hy))
            have := hl x (by simp)
            simp only [List.map_cons, List.sum_cons]; omega
        exact this _ hnn
      omega
    obtain ⟨st', hst, hlog⟩ := payLoop_funded (totalOf s) coins hT
      (fun c hc => Int.le_of_lt ((pullGauges_frame _ _ _ _ hg).2.1 c hc))
      (sortedProvers (filePassOf s h).2) s2
      (fun pw hpw => ⟨hnn pw hpw, hnb pw.1 (List.mem_map_of_mem (f := (·.1)) ((sortedProvers_perm _).mem_iff.mp hpw))⟩)
      hfund
    have : s' = st' := by
      have := hloop.symm.trans hst
      cases this; rfl
    subst this
    refine ⟨hlog.1, fun a d => ?_⟩
    rw [hlog.2 a d, hpaid]

/-- **Conservation and the bound on the sum paid.**  With `paid` the sends of
`C03_block_payout_spec`:
1. the payout phase only moves coins out of the module account: for any duplicate-free list of
   addresses not containing the module account but containing every other tracker key, what the module
   account lost is exactly what those addresses gained (so the sum over all accounts is unchanged);
2. under the side condition of `C03_payout_sum_le_released` on the released coins — `n·R < 2·10¹⁸` for
   every released coin, `n` the number of tracker entries; the bound `Σ weights ≤ total` is *proved*
   (`C03_block_weights_le_total`) — the sum paid of every denomination is at most the amount released,
   so the module account ends the payout holding at least its balance after the gauge pass minus the
   amount released, and never more than that balance. -/
theorem C03_block_conservation (s s' s2 : State) (h now : Int) (coins : Coins)
    (inv : BlockStoreInv s) (hsz : ∀ kv ∈ s.files, 0 ≤ kv.2.fileSize)
    (hok : manageRewards s h now = .ok s')
    (hg : pullGauges (filePassOf s h).1 now = .ok (s2, coins)) :
    (∀ (accts : List String) (d : String), accts.Nodup → s2.moduleAcc ∉ accts →
      (∀ a ∈ AMap.keys (filePassOf s h).2, a = s2.moduleAcc ∨ a ∈ accts) →
      Bank.bal s'.bank s2.moduleAcc d + Bank.total s'.bank accts d
        = Bank.bal s2.bank s2.moduleAcc d + Bank.total s2.bank accts d) ∧
    ((∀ c ∈ coins, ((filePassOf s h).2.length : Int) * c.2 < 2 * 1000000000000000000) →
      ∀ d, Bank.bal s2.bank s2.moduleAcc d - Bank.amt d coins ≤ Bank.bal s'.bank s2.moduleAcc d ∧
           Bank.bal s'.bank s2.moduleAcc d ≤ Bank.bal s2.bank s2.moduleAcc d) := by
  obtain ⟨paid, hsub, hpos, _, hbal⟩ := C03_block_payout_spec s s' s2 h now coins hok hg
  have hloop : (sortedProvers (filePassOf s h).2).foldlM
      (fun st pw => payProver st (totalOf s) coins pw.1 pw.2) s2 = .ok s' := manageRewards_split hok hg
  obtain ⟨_, _, hsum, _, hnn⟩ := C03_block_weights_le_total s h inv hsz
  have hcoins := (pullGauges_frame _ _ _ _ hg).2.1
  have hpaidnn : ∀ e ∈ paid, 0 ≤ e.2.2 := fun e he => Int.le_of_lt (hpos e he).1
  constructor
  · intro accts d hnd hM hcov
    -- every recipient is the module account or in `accts`
    have hrec : ∀ e ∈ paid, e.1 ∈ s2.moduleAcc :: accts := by
      intro e he
      obtain ⟨_, hmem⟩ := blockPays_recipient (hsub.subset he)
      obtain ⟨pw, hpw, hpe⟩ := List.mem_map.mp hmem
      have hk : pw.1 ∈ AMap.keys (filePassOf s h).2 :=
        List.mem_map_of_mem (f := (·.1)) ((sortedProvers_perm _).mem_iff.mp hpw)
      rcases hcov pw.1 hk with e1 | e1
      · rw [← hpe, e1]; simp
      · rw [← hpe]; exact List.mem_cons_of_mem _ e1
    have hall := sum_paidTo_accts d (s2.moduleAcc :: accts) (List.nodup_cons.mpr ⟨hM, hnd⟩) paid hrec
    simp only [List.map_cons, List.sum_cons] at hall
    have hothers : Bank.total s'.bank accts d = Bank.total s2.bank accts d + (accts.map (fun a => paidTo paid a d)).sum := by
      unfold Bank.total
      rw [← sum_map_add]
      congr 1
      apply List.map_congr_left
      intro a ha
      have : a ≠ s2.moduleAcc := fun e => hM (e ▸ ha)
      rw [hbal a d, if_neg this]; omega
    rw [hothers, hbal s2.moduleAcc d]
    simp only [if_true]
    omega
  · intro hside d
    have hmod := hbal s2.moduleAcc d
    simp only [if_true] at hmod
    have h1 : paidTo paid s2.moduleAcc d ≤ paidOut paid d := paidTo_le_paidOut _ _ _ hpaidnn
    have h0 : 0 ≤ paidTo paid s2.moduleAcc d := paidTo_nonneg _ _ _ hpaidnn
    have hbound : paidOut paid d ≤ Bank.amt d coins := by
      by_cases hemp : sortedProvers (filePassOf s h).2 = []
      · rw [hemp] at hsub
        have : paid = [] := by simpa [blockPays] using hsub
        rw [this]
        simp only [paidOut]
        exact amt_nonneg d coins (fun c hc => Int.le_of_lt (hcoins c hc))
      · have hT : 0 < totalOf s := by
          have h1 : totalOf s ≠ 0 := payLoop_ok_total_ne hloop hemp
          have h2 : 0 ≤ ((sortedProvers (filePassOf s h).2).map (·.2)).sum := by
            have : ∀ (l : List (String × Int)), (∀ pw ∈ l, 0 ≤ pw.2) → 0 ≤ (l.map (·.2)).sum := by
              intro l; induction l with
              | nil => intro _; simp
              | cons x l ih =>
                intro hl
                have := ih (fun y hy => hl y (List.mem_cons_of_mem _ hy))
                have := hl x (by simp)
                simp only [List.map_cons, List.sum_cons]; omega
            exact this _ hnn
          omega
        have hc0 : ∀ c ∈ coins, 0 ≤ c.2 := fun c hc => Int.le_of_lt (hcoins c hc)
        have s1 := paidOut_sublist d hsub (blockPays_nonneg _ _ _ hT hc0 hnn)
        have s2' := paidOut_blockPays_le (totalOf s) coins d hT hc0 _ hnn
        have s3 := sum_coinPay_le (totalOf s) d _ hT hnn hsum coins hc0
          (by rw [(sortedProvers_perm _).length_eq]; exact hside)
        omega
    omega

/-- **All candidate sends together never exceed what was released** (per denomination), under the
side condition `n·R < 2·10¹⁸` on the released coins: so a module account that holds the released
coins can make every send. -/
theorem C03_block_candidates_le_released (s s' s2 : State) (h now : Int) (coins : Coins)
    (inv : BlockStoreInv s) (hsz : ∀ kv ∈ s.files, 0 ≤ kv.2.fileSize)
    (hok : manageRewards s h now = .ok s')
    (hg : pullGauges (filePassOf s h).1 now = .ok (s2, coins))
    (hside : ∀ c ∈ coins, ((filePassOf s h).2.length : Int) * c.2 < 2 * 1000000000000000000) :
    ∀ d, paidOut (blockPays (totalOf s) coins (sortedProvers (filePassOf s h).2)) d ≤ Bank.amt d coins := by
  intro d
  obtain ⟨paid, hsub, hpos, _, _⟩ := C03_block_payout_spec s s' s2 h now coins hok hg
  have hloop : (sortedProvers (filePassOf s h).2).foldlM
      (fun st pw => payProver st (totalOf s) coins pw.1 pw.2) s2 = .ok s' := manageRewards_split hok hg
  obtain ⟨_, _, hsum, _, hnn⟩ := C03_block_weights_le_total s h inv hsz
  have hc0 : ∀ c ∈ coins, 0 ≤ c.2 := fun c hc => Int.le_of_lt ((pullGauges_frame _ _ _ _ hg).2.1 c hc)
  by_cases hemp : sortedProvers (filePassOf s h).2 = []
  · rw [hemp]
    simp only [blockPays, List.flatMap_nil, paidOut]
    exact amt_nonneg d coins hc0
  · have hT : 0 < totalOf s := by
      have h1 : totalOf s ≠ 0 := payLoop_ok_total_ne hloop hemp
      have h2 : 0 ≤ ((sortedProvers (filePassOf s h).2).map (·.2)).sum := by
        have : ∀ (l : List (String × Int)), (∀ pw ∈ l, 0 ≤ pw.2) → 0 ≤ (l.map (·.2)).sum := by
          intro l; induction l with
          | nil => intro _; simp
          | cons x l ih =>
            intro hl
            have := ih (fun y hy => hl y (List.mem_cons_of_mem _ hy))
            have := hl x (by simp)
            simp only [List.map_cons, List.sum_cons]; omega
        exact this _ hnn
      omega
    have s2' := paidOut_blockPays_le (totalOf s) coins d hT hc0 _ hnn
    have s3 := sum_coinPay_le (totalOf s) d _ hT hnn hsum coins hc0
      (by rw [(sortedProvers_perm _).length_eq]; exact hside)
    omega

/-- **Every counted prover receives its size-weighted share, within one base unit, of each
denomination** — the block-level statement.  Store invariant, non-negative sizes, no tracker key
blocked, the side condition on the released coins, and a module account that holds the released coins
after the gauge pass.  Then for every tracker entry `a ↦ w` (`w = Σ fileSize` over the passing pairs
credited to `a`, by `C03_block_tracker_spec`) with `a` a non-empty name other than the module account,
and every released coin `(d, R)` with `R ≤ 10¹⁸`: `a` gains exactly `⌊share(w,total)·R⌋` units of `d`,
which is within one unit of `⌊w·R/total⌋`; addresses that are no tracker key gain nothing. -/
theorem C03_block_share_within_one_unit (s s' s2 : State) (h now : Int) (coins : Coins)
    (inv : BlockStoreInv s) (hsz : ∀ kv ∈ s.files, 0 ≤ kv.2.fileSize)
    (hok : manageRewards s h now = .ok s')
    (hg : pullGauges (filePassOf s h).1 now = .ok (s2, coins))
    (hnb : ∀ a ∈ AMap.keys (filePassOf s h).2, s2.blocked.contains a = false)
    (hside : ∀ c ∈ coins, ((filePassOf s h).2.length : Int) * c.2 < 2 * 1000000000000000000)
    (hheld : ∀ d, Bank.amt d coins ≤ Bank.bal s2.bank s2.moduleAcc d) :
    (∀ a w d R, AMap.get (filePassOf s h).2 a = some w → a ≠ "" → a ≠ s2.moduleAcc → (d, R) ∈ coins →
      R ≤ 1000000000000000000 →
      w = blockCredit s h s.files a ∧
      Bank.bal s'.bank a d = Bank.bal s2.bank a d + payout (totalOf s) R w ∧
      payout (totalOf s) R w ≤ w * R / totalOf s + 1 ∧ w * R / totalOf s - 1 ≤ payout (totalOf s) R w) ∧
    (∀ a d, a ∉ AMap.keys (filePassOf s h).2 → a ≠ s2.moduleAcc →
      Bank.bal s'.bank a d = Bank.bal s2.bank a d) := by
  have hcand := C03_block_candidates_le_released s s' s2 h now coins inv hsz hok hg hside
  obtain ⟨_, hex⟩ := C03_block_payout_exact s s' s2 h now coins inv hsz hok hg hnb
    (fun d => Int.le_trans (hcand d) (hheld d))
  refine ⟨?_, fun a d ha hm => (C03_block_uncounted_unchanged s s' s2 h now coins hok hg).1 a d hm (Or.inl ha)⟩
  intro a w d R hget hne hm hmem hR
  obtain ⟨_, _, hcred, _⟩ := C03_block_tracker_spec s h inv
  obtain ⟨_, _, _, hnn, _⟩ := C03_block_weights_le_total s h inv hsz
  have hw : w = blockCredit s h s.files a := by
    have := hcred a; rw [hget] at this; simpa using this
  have hw0 : 0 ≤ w := hnn (a, w) (AMap.mem_of_get hget)
  have hR0 : 0 ≤ R := Int.le_of_lt ((pullGauges_frame _ _ _ _ hg).2.1 (d, R) hmem)
  have hloop : (sortedProvers (filePassOf s h).2).foldlM
      (fun st pw => payProver st (totalOf s) coins pw.1 pw.2) s2 = .ok s' := manageRewards_split hok hg
  have hT : 0 < totalOf s := by
    have hne' : sortedProvers (filePassOf s h).2 ≠ [] := by
      intro e
      have := (sortedProvers_perm (filePassOf s h).2).mem_iff.mpr (AMap.mem_of_get hget)
      rw [e] at this; simp at this
    have h1 : totalOf s ≠ 0 := payLoop_ok_total_ne hloop hne'
    obtain ⟨_, hle, _, hnn', _⟩ := C03_block_weights_le_total s h inv hsz
    have h2 : 0 ≤ AMap.sumBy id (filePassOf s h).2 := by
      rw [sumBy_id_eq]
      have : ∀ (l : List (String × Int)), (∀ pw ∈ l, 0 ≤ pw.2) → 0 ≤ (l.map (·.2)).sum := by
        intro l; induction l with
        | nil => intro _; simp
        | cons x l ih =>
          intro hl
          have := ih (fun y hy => hl y (List.mem_cons_of_mem _ hy))
          have := hl x (by simp)
          simp only [List.map_cons, List.sum_cons]; omega
      exact this _ hnn'
    omega
  have hpay : owedTo (totalOf s) coins (filePassOf s h).2 a d = payout (totalOf s) R w := by
    unfold owedTo
    simp only [hne, if_false, hget, Option.map_some, Option.getD_some]
    exact coinPay_of_nodup _ _ _ _ _ (pullGauges_frame _ _ _ _ hg).2.2 hmem
  have hcl := payout_close (totalOf s) R w hw0 hT hR0 (by unfold precision; exact hR)
  refine ⟨hw, ?_, hcl.1, hcl.2⟩
  rw [hex a d, hpay, if_neg hm]; omega

/-- … **hence the module account ends the block holding at least what it held before the release**,
provided the coins counted as released did arrive in the module account (`pullGauge` adds a coin to
`coins` *before* the send from the escrow account and keeps it there if that send fails, as
`pullTokensFromGauges` does).  `harr` is proved from "no escrow account is the module account, recorded
amounts are non-negative" in `RewardBlock.pullGauges_arrive` and discharged that way in
`C03_reward_block_end_to_end`. -/
theorem C03_block_module_keeps_prior_funds (s s' s2 : State) (h now : Int) (coins : Coins)
    (inv : BlockStoreInv s) (hsz : ∀ kv ∈ s.files, 0 ≤ kv.2.fileSize)
    (hok : manageRewards s h now = .ok s')
    (hg : pullGauges (filePassOf s h).1 now = .ok (s2, coins))
    (hside : ∀ c ∈ coins, ((filePassOf s h).2.length : Int) * c.2 < 2 * 1000000000000000000)
    (harr : ∀ d, Bank.bal s.bank s.moduleAcc d + Bank.amt d coins ≤ Bank.bal s2.bank s2.moduleAcc d) :
    s'.moduleAcc = s.moduleAcc ∧ ∀ d, Bank.bal s.bank s.moduleAcc d ≤ Bank.bal s'.bank s'.moduleAcc d := by
  obtain ⟨_, hc⟩ := C03_block_conservation s s' s2 h now coins inv hsz hok hg
  obtain ⟨_, _, _, hs', _⟩ := C03_block_payout_spec s s' s2 h now coins hok hg
  have hm : s'.moduleAcc = s2.moduleAcc := by rw [hs']
  have hm2 : s2.moduleAcc = s.moduleAcc := by
    obtain ⟨_, _, _, _, _, _, _, _, hr, _⟩ := C03_block_tracker_spec s h inv
    have e := (pullGauges_frame _ _ _ _ hg).1
    rw [e]
    exact hr.2.2.2.2.2.2.1
  refine ⟨hm.trans hm2, fun d => ?_⟩
  have := (hc hside d).1
  have := harr d
  rw [hm]; omega

/-- **C03 for the whole block, end to end.**  Store invariant, non-negative file sizes, gauges whose
escrow accounts are not the module account and whose recorded amounts are non-negative, a module
account without negative balances.  If the block succeeds then the gauge pass succeeded with some
`(s2, coins)`, *every released coin arrived in the module account* (no send of the gauge pass can
fail), and — when no tracker key is blocked and `n·R < 2·10¹⁸` for every released coin —
* every tracker entry `a ↦ w` (`a` non-empty, not the module account; `w = Σ fileSize` over the passing
  pairs credited to `a`) gains exactly `⌊share(w,total)·R⌋` of every released coin `(d, R)` with
  `R ≤ 10¹⁸`, within one unit of `⌊w·R/total⌋`;
* every other address except the module account is unchanged by the payout;
* the module account ends the block with at least what it held before the block. -/
theorem C03_reward_block_end_to_end (s s' : State) (h now : Int)
    (inv : BlockStoreInv s) (hsz : ∀ kv ∈ s.files, 0 ≤ kv.2.fileSize)
    (hgacc : ∀ kv ∈ s.gauges, kv.2.account ≠ s.moduleAcc)
    (hgamt : ∀ kv ∈ s.gauges, ∀ c ∈ kv.2.coins, 0 ≤ c.2)
    (hM0 : ∀ d, 0 ≤ Bank.bal s.bank s.moduleAcc d)
    (hok : manageRewards s h now = .ok s') :
    ∃ s2 coins, pullGauges (filePassOf s h).1 now = .ok (s2, coins) ∧
      s2.moduleAcc = s.moduleAcc ∧ s'.moduleAcc = s.moduleAcc ∧
      (∀ d, Bank.bal s2.bank s.moduleAcc d = Bank.bal s.bank s.moduleAcc d + Bank.amt d coins) ∧
      ((∀ a ∈ AMap.keys (filePassOf s h).2, s.blocked.contains a = false) →
       (∀ c ∈ coins, ((filePassOf s h).2.length : Int) * c.2 < 2 * 1000000000000000000) →
        (∀ a w d R, AMap.get (filePassOf s h).2 a = some w → a ≠ "" → a ≠ s.moduleAcc → (d, R) ∈ coins →
          R ≤ 1000000000000000000 →
          w = blockCredit s h s.files a ∧
          Bank.bal s'.bank a d = Bank.bal s2.bank a d + payout (totalOf s) R w ∧
          payout (totalOf s) R w ≤ w * R / totalOf s + 1 ∧ w * R / totalOf s - 1 ≤ payout (totalOf s) R w) ∧
        (∀ a d, a ∉ AMap.keys (filePassOf s h).2 → a ≠ s.moduleAcc →
          Bank.bal s'.bank a d = Bank.bal s2.bank a d) ∧
        (∀ d, Bank.bal s.bank s.moduleAcc d ≤ Bank.bal s'.bank s.moduleAcc d)) := by
  obtain ⟨s2, coins, hg⟩ := manageRewards_ok_gauges hok
  have hg : pullGauges (filePassOf s h).1 now = .ok (s2, coins) := hg
  obtain ⟨_, _, _, _, _, _, _, _, hr, _⟩ := C03_block_tracker_spec s h inv
  obtain ⟨r1, r2, r3, r4, r5, r6, r7, r8, r9, r10, r11⟩ := hr
  have hfr := (pullGauges_frame _ _ _ _ hg).1
  have hm2 : s2.moduleAcc = s.moduleAcc := by rw [hfr]; exact r7
  have hb2 : s2.blocked = s.blocked := by rw [hfr]; exact r11
  have harr := pullGauges_arrive (filePassOf s h).1 s2 now coins
    (by rw [r2, r7]; exact hgacc) (by rw [r2]; exact hgamt) hg
  rw [r5, r7, hm2] at harr
  obtain ⟨_, _, _, hs', _⟩ := C03_block_payout_spec s s' s2 h now coins hok hg
  have hm' : s'.moduleAcc = s.moduleAcc := by rw [hs']; exact hm2
  refine ⟨s2, coins, hg, hm2, hm', harr, ?_⟩
  intro hnb hside
  have hheld : ∀ d, Bank.amt d coins ≤ Bank.bal s2.bank s2.moduleAcc d := by
    intro d; rw [hm2, harr d]; have := hM0 d; omega
  obtain ⟨t1, t2⟩ := C03_block_share_within_one_unit s s' s2 h now coins inv hsz hok hg
    (by rw [hb2]; exact hnb) hside hheld
  rw [hm2] at t1 t2
  refine ⟨t1, t2, ?_⟩
  have := (C03_block_module_keeps_prior_funds s s' s2 h now coins inv hsz hok hg hside
    (by intro d; rw [hm2, harr d]; omega)).2
  intro d
  have := this d
  rw [hm'] at this
  exact this

/-- the storage BeginBlocker as a whole: off the check window nothing happens, on it the block is
`manageRewards` (to which the four theorems above apply) -/
theorem C03_beginBlock_cases (s s' : State) (h now : Int) (hok : beginBlock s h now = .ok s') :
    s.params.checkWindow ≠ 0 ∧
    ((0 < Int.tmod h s.params.checkWindow ∧ s' = s) ∨
     (¬ 0 < Int.tmod h s.params.checkWindow ∧ manageRewards s h now = .ok s')) := by
  unfold beginBlock at hok
  split at hok
  · cases hok
  · rename_i hcw
    refine ⟨hcw, ?_⟩
    split at hok
    · rename_i hm; cases hok; exact Or.inl ⟨hm, rfl⟩
    · rename_i hm; exact Or.inr ⟨hm, hok⟩

/-! ### Non-vacuity of Part C: two files, three provers, one of which fails

`wFile` (size 10: `fail`, `ok1`, `ok2`) and `wFileB` (size 20: `ok1`), height 100; one live gauge of
1000 ujkl half-way through its life, so 500 ujkl are released; `total = 10·3 + 20·1 = 50`. -/

def wFileB : File :=
  { merkle := "n", owner := "o", start := 0, expires := 0, fileSize := 20, proofInterval := 5, proofType := 0,
    proofs := [("ok1", ("n", "o", 0))], maxProofs := 3, note := "" }

def wGauge : Gauge := { id := "g1", startT := 0, endT := 10000000, coins := [("ujkl", 1000)], account := "gauge1" }

def wState2 : State :=
  { wState with
    files := [(wFile.key, wFile), (wFileB.key, wFileB)], files2 := [(wFile.key, wFile), (wFileB.key, wFileB)],
    proofs := wState.proofs ++ [(("ok1", wFileB.key), { wProof "ok1" 97 with merkle := "n" })],
    gauges := [("g1", wGauge)],
    bank := [(("gauge1", "ujkl"), 1000)] }

theorem ok_of_toOption {ε α : Type} {r : Except ε α} {x : α} (h : r.toOption = some x) : r = .ok x := by
  cases r with
  | error e => simp [Except.toOption] at h
  | ok a => simp [Except.toOption] at h; rw [h]

/-- the state after the gauge pass: 500 ujkl moved from the escrow account to the module account -/
def w2S2 : State :=
  { (filePassOf wState2 100).1 with bank := [(("gauge1", "ujkl"), 500), (("storage", "ujkl"), 500)] }

/-- the state after the block -/
def w2Final : State :=
  { w2S2 with bank := [(("gauge1", "ujkl"), 500), (("storage", "ujkl"), 100), (("ok1", "ujkl"), 300), (("ok2", "ujkl"), 100)] }

theorem w2_inv : BlockStoreInv wState2 :=
  ⟨by unfold AMap.WF AMap.keys; decide, by decide, by decide, by decide, by decide⟩
theorem w2_sizes : ∀ kv ∈ wState2.files, 0 ≤ kv.2.fileSize := by decide
theorem w2_tracker : (filePassOf wState2 100).2 = [("ok1", 30), ("ok2", 10)] := by decide
theorem w2_gauges : pullGauges (filePassOf wState2 100).1 5000000 = .ok (w2S2, [("ujkl", 500)]) :=
  ok_of_toOption (by decide)
theorem w2_sorted : sortedProvers [("ok1", (30 : Int)), ("ok2", 10)] = [("ok1", 30), ("ok2", 10)] := by
  simp [sortedProvers, List.mergeSort, List.MergeSort.Internal.splitInTwo]

/-- the block succeeds on the witness, with this final state (`mergeSort` is rewritten, the rest is evaluated) -/
theorem w2_block : manageRewards wState2 100 5000000 = .ok w2Final := by
  have hg : pullGauges (filePass 100 wState2.files wState2 []).1 5000000 = .ok (w2S2, [("ujkl", 500)]) := w2_gauges
  have ht : (filePass 100 wState2.files wState2 []).2 = [("ok1", 30), ("ok2", 10)] := w2_tracker
  rw [manageRewards_eq, hg, ht]
  simp only
  rw [w2_sorted]
  exact ok_of_toOption (by decide)

theorem w2_notBlocked : ∀ a ∈ AMap.keys (filePassOf wState2 100).2, w2S2.blocked.contains a = false := by
  rw [w2_tracker]; decide
theorem w2_side : ∀ c ∈ [("ujkl", (500 : Int))],
    ((filePassOf wState2 100).2.length : Int) * c.2 < 2 * 1000000000000000000 := by
  rw [w2_tracker]; decide
theorem w2_held : ∀ d, Bank.amt d [("ujkl", 500)] ≤ Bank.bal w2S2.bank w2S2.moduleAcc d := by
  intro d
  have hm : w2S2.moduleAcc = "storage" := by decide
  have hb : w2S2.bank = [(("gauge1", "ujkl"), 500), (("storage", "ujkl"), 500)] := rfl
  rw [hm, hb]
  by_cases hd : d = "ujkl"
  · subst hd; decide
  · simp [Bank.amt, Ne.symm hd]
    unfold Bank.bal; simp [AMap.get, Ne.symm hd]

/-- every hypothesis of the Part C theorems holds on the witness (the block is on the check window,
so `beginBlock` runs it) … -/
example : BlockStoreInv wState2 ∧ (∀ kv ∈ wState2.files, 0 ≤ kv.2.fileSize) ∧
    beginBlock wState2 100 5000000 = .ok w2Final ∧ manageRewards wState2 100 5000000 = .ok w2Final ∧
    pullGauges (filePassOf wState2 100).1 5000000 = .ok (w2S2, [("ujkl", 500)]) ∧
    (∀ a ∈ AMap.keys (filePassOf wState2 100).2, w2S2.blocked.contains a = false) ∧
    (∀ c ∈ [("ujkl", (500 : Int))], ((filePassOf wState2 100).2.length : Int) * c.2 < 2 * 1000000000000000000) ∧
    (∀ d, Bank.amt d [("ujkl", 500)] ≤ Bank.bal w2S2.bank w2S2.moduleAcc d) ∧
    (∀ d, Bank.bal wState2.bank wState2.moduleAcc d + Bank.amt d [("ujkl", 500)] ≤ Bank.bal w2S2.bank w2S2.moduleAcc d) :=
  ⟨w2_inv, w2_sizes, by rw [← w2_block]; rfl, w2_block, w2_gauges, w2_notBlocked, w2_side, w2_held,
   fun d => by
    have : Bank.bal wState2.bank wState2.moduleAcc d = 0 := by
      unfold Bank.bal; simp [wState2, wState, AMap.get]
    rw [this]; have := w2_held d; omega⟩

/-- … the file pass does what `C03_block_tracker_spec` says: `ok1` is credited both files (30), `ok2`
one (10), `fail` nothing; `fail` is removed from `wFile` only, its record erased and its provider burned
once; `wFileB` keeps its prover … -/
example :
    (filePassOf wState2 100).2 = [("ok1", 30), ("ok2", 10)] ∧
    blockEntries wState2 100 wState2.files = [("ok1", 10), ("ok2", 10), ("ok1", 20)] ∧
    blockCredit wState2 100 wState2.files "ok1" = 30 ∧ blockCredit wState2 100 wState2.files "fail" = 0 ∧
    totalOf wState2 = 50 ∧
    (outcome wState2 100 wFile).map (·.proofs) = some [("ok1", wFile.key), ("ok2", wFile.key)] ∧
    (outcome wState2 100 wFileB).map (·.proofs) = some [("ok1", wFileB.key)] ∧
    failsIn wState2 100 wState2.files ("fail", wFile.key) = true ∧
    failsIn wState2 100 wState2.files ("ok1", wFileB.key) = false ∧
    blockBurns wState2 100 wState2.files "fail" = 1 ∧ blockBurns wState2 100 wState2.files "ok1" = 0 ∧
    AMap.get (filePassOf wState2 100).1.proofs ("fail", wFile.key) = none ∧
    (AMap.get (filePassOf wState2 100).1.providers "fail").map (·.burned) = some (some 1) := by decide

/-- … and the payout is the one the theorems give: of the 500 ujkl released, `ok1` gets
`⌊30/50·500⌋ = 300`, `ok2` `⌊10/50·500⌋ = 100`, `fail` nothing; the failed prover's 100 stay in the
module account, which pays out exactly 400. -/
example :
    Bank.bal w2Final.bank "ok1" "ujkl" = 300 ∧ Bank.bal w2Final.bank "ok2" "ujkl" = 100 ∧
    Bank.bal w2Final.bank "fail" "ujkl" = 0 ∧ Bank.bal w2Final.bank "storage" "ujkl" = 100 ∧
    Bank.bal w2S2.bank "storage" "ujkl" = 500 ∧
    payout (totalOf wState2) 500 30 = 300 ∧ payout (totalOf wState2) 500 10 = 100 := by decide

/-- `C03_block_share_within_one_unit` instantiated on the witness -/
example : Bank.bal w2Final.bank "ok1" "ujkl" = Bank.bal w2S2.bank "ok1" "ujkl" + payout (totalOf wState2) 500 30 :=
  ((C03_block_share_within_one_unit wState2 w2Final w2S2 100 5000000 [("ujkl", 500)] w2_inv w2_sizes w2_block
      w2_gauges w2_notBlocked w2_side w2_held).1 "ok1" 30 "ujkl" 500
    (by rw [w2_tracker]; decide) (by decide) (by decide) (by simp) (by decide)).2.1

/-- the hypotheses of `C03_reward_block_end_to_end` hold on the witness too (escrow account `gauge1`
is not the module account, the recorded amount is non-negative, the module account starts empty) -/
example : True := by
  have hM0 : ∀ d, 0 ≤ Bank.bal wState2.bank wState2.moduleAcc d := by
    intro d
    have : Bank.bal wState2.bank wState2.moduleAcc d = 0 := by
      unfold Bank.bal; simp [wState2, wState, AMap.get]
    omega
  have := C03_reward_block_end_to_end wState2 w2Final 100 5000000 w2_inv w2_sizes (by decide) (by decide) hM0 w2_block
  trivial

/-! ## The share computation as it stands in the source (regenerated tie) -/

/-- The amount `tokensValueOwed` that `rewardAllProviders` pays a prover for one released coin —
sliced out of x/storage/keeper/rewards.go and translated on every run, as a function of the size
credited to the prover, the network total and the released amount — is the expression the model's
`payProver` evaluates and `C03_payout_close_to_share` bounds: the share `worth/total` rounded at
the 18th decimal, times the amount, *truncated*. -/
theorem C03_generated_payout_is_the_model (w T R : Int) :
    Generated.Pure.rewardAllProviders_tokensValueOwed w T R =
      (Dec.quo? (Dec.ofInt w) (Dec.ofInt T)).map (fun share => Dec.trunc (Dec.mul share (Dec.ofInt R))) ∧
    Generated.Pure.rewardAllProviders_tokensValueOwed_inputs =
      ["(*sizeTracker)[prover]", "totalSize", "coin.Amount"] := by
  refine ⟨?_, rfl⟩
  unfold Generated.Pure.rewardAllProviders_tokensValueOwed
  simp only [bind, Option.bind]
  cases Dec.quo? (Dec.ofInt w) (Dec.ofInt T) <;> rfl

end Canine.Storage
