/-
C07 — Plan space accounting matches the files actually held.

For every address with a storage plan, `spaceUsed` equals the sum of `fileSize * maxProofs` over
the plan-paid files (`Expires ≤ 0`) that address owns, and never exceeds `spaceAvailable`.
The invariant (`SpaceInv`, defined in `Canine/Proofs/StorageD.lean`) holds in the empty state and
is preserved by every message and by the reward block, hence along every history.
-/
import Canine.Proofs.StorageD
import Canine.Proofs.QueryStorage
namespace Canine.Storage

/-- `SpaceInv` spelled out on the state -/
theorem SpaceInv_iff (s : State) :
    SpaceInv s ↔
      AMap.WF s.files ∧ AMap.WF s.payinfo ∧
      (∀ k f, AMap.get s.files k = some f → k = f.key ∧ 1 ≤ f.fileSize ∧ 1 ≤ f.maxProofs) ∧
      (∀ a pi, AMap.get s.payinfo a = some pi →
        pi.address = a ∧ pi.spaceUsed = usedBy s a ∧ 0 ≤ pi.spaceUsed ∧ pi.spaceUsed ≤ pi.spaceAvailable) ∧
      (∀ k f, AMap.get s.files k = some f → f.expires ≤ 0 → (AMap.get s.payinfo f.owner).isSome = true) :=
  ⟨fun ⟨a, b, c, d, e⟩ => ⟨a, b, c, d, e⟩, fun ⟨a, b, c, d, e⟩ => ⟨a, b, c, d, e⟩⟩

theorem SpaceInv.congr {s s' : State} (hF : s'.files = s.files) (hP : s'.payinfo = s.payinfo)
    (h : SpaceInv s) : SpaceInv s' := by
  unfold SpaceInv at *; rw [hF, hP]; exact h

/-- the invariant holds of every state with no files and no plans (genesis) -/
theorem C07_space_invariant_init (s : State) (hF : s.files = []) (hP : s.payinfo = []) : SpaceInv s := by
  unfold SpaceInv; rw [hF, hP]
  refine ⟨by simp [AMap.WF, AMap.keys], by simp [AMap.WF, AMap.keys], ?_, ?_, ?_⟩ <;> intro _ _ h <;> simp at h

theorem setFile_rewrite_inv {s : State} (hinv : SpaceInv s) {k : FKey} {f f' : File}
    (hg : AMap.get s.files k = some f) (ha : acct f' = acct f) : SpaceInv (setFile s f') := by
  have hk : k = f.key := (hinv.fileOk k f hg).1
  subst hk
  obtain ⟨a1, a2, a3, a4, a5⟩ := acct_eq ha
  exact hinv.rewrite hg a1 a2 a3 a4 a5

theorem postFile_inv {s s' : State} {h now : Int} {c m : String} {fs mp ex pt : Int} {note : String}
    {nv : Bool} {jp : Dec} {gid gacc : String} (hinv : SpaceInv s)
    (hs : postFile s h now c m fs mp ex pt note nv jp gid gacc = some s') : SpaceInv s' := by
  obtain ⟨_, h1, h2, hF, hP⟩ := postFile_shape hs
  have hr := removeFile_inv hinv (m, c, h)
  have hnone : AMap.get (removeFile s (m, c, h)).files (postedFile s h c m fs mp ex pt note).key = none := by
    show AMap.get (removeFile s (m, c, h)).files (m, c, h) = none
    cases hg : AMap.get s.files (m, c, h) with
    | none => rw [removeFile_none hg]; exact hg
    | some f => rw [(removeFile_eq_of_inv hinv hg).1]; simp
  unfold SpaceInv
  rw [hF]
  rcases hP with ⟨hpos, hP⟩ | ⟨hle, pi, hpi, _, hfit, hP⟩
  · rw [hP]
    exact SpaceInvFP.add_payonce hr hnone h1 h2 hpos
  · rw [hP]
    have haddr : pi.address = c := (hr.planOk c pi hpi).1
    obtain ⟨p1, p2, p3, p4, p5⟩ := pi
    simp only at haddr; subst haddr
    exact SpaceInvFP.add_plan (f := postedFile s h p5 m fs mp ex pt note) hr hnone h1 h2 hle hpi hfit

theorem buyStorage_inv {s s' : State} {now : Int} {c fa : String} {dd bytes : Int} {dn : String}
    {ref : Option String} {jp : Dec} {gid gacc : String} (hinv : SpaceInv s)
    (hs : buyStorage s now c fa dd bytes dn ref jp gid gacc = some s') : SpaceInv s' := by
  obtain ⟨hb, hle, _, hF, hP⟩ := buyStorage_shape hs
  unfold SpaceInv
  rw [hF, hP]
  apply SpaceInvFP.buy hinv fa _ rfl rfl
  show ((AMap.get s.payinfo fa).map (·.spaceUsed)).getD 0 ≤ bytes
  cases hg : AMap.get s.payinfo fa with
  | none => simp; omega
  | some pi => simpa using hle pi hg

theorem removeProver_inv {s : State} (hinv : SpaceInv s) {k : FKey} {f : File} (pk : PKey)
    (hg : AMap.get s.files k = some f) : SpaceInv (removeProver s f pk).1 := by
  unfold removeProver
  split
  · exact SpaceInv.congr rfl rfl (setFile_rewrite_inv hinv hg rfl)
  · exact hinv

theorem postProof_inv {s : State} (hinv : SpaceInv s) (h : Int) (c m o : String) (st tp : Int) (v : Bool)
    (nc : Int) : SpaceInv (postProof s h c m o st tp v nc).state := by
  generalize hr : postProof s h c m o st tp v nc = r
  unfold postProof at hr
  split at hr
  · subst hr; exact hinv
  · rename_i f hg
    simp only at hr
    repeat' split at hr
    all_goals
      subst hr
      first
      | exact hinv
      | exact SpaceInv.congr rfl rfl hinv
      | exact SpaceInv.congr rfl rfl (setFile_rewrite_inv hinv hg rfl)

theorem attest_inv {s : State} (hinv : SpaceInv s) (h : Int) (c p m o : String) (st : Int) :
    SpaceInv (attest s h c p m o st) := by
  unfold attest
  simp only
  repeat' split
  all_goals first | exact hinv | exact SpaceInv.congr rfl rfl hinv

theorem report_inv {s s' : State} (hinv : SpaceInv s) {c p m o : String} {st : Int}
    (hs : report s c p m o st = some s') : SpaceInv s' := by
  simp only [report, bind, Option.bind_eq_some_iff, req_eq_some] at hs
  obtain ⟨form, _, _, _, hs⟩ := hs
  split at hs
  · simp only [Option.some.injEq] at hs; subst hs; exact SpaceInv.congr rfl rfl hinv
  · simp only [Option.bind_eq_some_iff] at hs
    obtain ⟨f, hf, hs⟩ := hs
    simp only [Option.some.injEq] at hs; subst hs
    exact removeProver_inv (s := { s with reports := AMap.erase s.reports (p, (m, o, st)) })
      (SpaceInv.congr rfl rfl hinv) _ hf

theorem updProvider_inv {s s' : State} (hinv : SpaceInv s) {c : String} {f : Provider → Option Provider}
    (hs : updProvider s c f = some s') : SpaceInv s' := by
  simp only [updProvider, bind, Option.bind_eq_some_iff] at hs
  obtain ⟨_, _, _, _, hs⟩ := hs
  simp only [Option.some.injEq] at hs; subst hs
  exact SpaceInv.congr rfl rfl hinv

/-- **C07 (1), messages.**  Every message preserves the space invariant. -/
theorem C07_step_preserves (s s' : State) (h now : Int) (op : Op)
    (hinv : SpaceInv s) (hstep : step s h now op = some s') : SpaceInv s' := by
  cases op with
  | postFile c m fs mp ex pt note nv jp gid gacc => exact postFile_inv hinv hstep
  | deleteFile c m st =>
    simp only [step, Option.some.injEq] at hstep; subst hstep
    exact removeFile_inv hinv _
  | buyStorage c fa dd b dn ref jp gid gacc => exact buyStorage_inv hinv hstep
  | initProvider c ip kb ts iv =>
    simp only [step, initProvider, bind, Option.bind_eq_some_iff, req_eq_some] at hstep
    obtain ⟨_, _, _, _, _, _, _, _, _, _, hs⟩ := hstep
    simp only [Option.some.injEq] at hs; subst hs
    exact SpaceInv.congr rfl rfl hinv
  | shutdownProvider c =>
    simp only [step, shutdownProvider, bind, Option.bind_eq_some_iff, req_eq_some] at hstep
    obtain ⟨_, _, hs⟩ := hstep
    split at hs
    · simp only [Option.bind_eq_some_iff, req_eq_some] at hs
      obtain ⟨_, _, _, _, _, _, hs⟩ := hs
      simp only [Option.some.injEq] at hs; subst hs
      exact SpaceInv.congr rfl rfl hinv
    · simp only [Option.some.injEq] at hs; subst hs
      exact SpaceInv.congr rfl rfl hinv
  | setProviderIP c ip iv =>
    simp only [step] at hstep
    split at hstep
    · exact updProvider_inv hinv hstep
    · simp at hstep
  | setProviderKeybase c kb => exact updProvider_inv hinv hstep
  | setProviderTotalSpace c sp => exact updProvider_inv hinv hstep
  | addClaimer c cl => exact updProvider_inv hinv hstep
  | removeClaimer c cl => exact updProvider_inv hinv hstep
  | postProof c m o st tp v nc =>
    simp only [step, Option.some.injEq] at hstep; subst hstep
    exact postProof_inv hinv _ _ _ _ _ _ _ _
  | requestAttest c m o st ec ch =>
    simp only [step, Option.some.injEq] at hstep; subst hstep
    split
    · exact SpaceInv.congr rfl rfl hinv
    · exact hinv
  | attest c p m o st =>
    simp only [step, Option.some.injEq] at hstep; subst hstep
    exact attest_inv hinv _ _ _ _ _ _
  | requestReport c p m o st ec ch =>
    simp only [step, Option.some.injEq] at hstep; subst hstep
    split
    · exact SpaceInv.congr rfl rfl hinv
    · exact hinv
  | report c p m o st => exact report_inv hinv hstep

theorem SpaceInvFP.rewrites {F F' : AMap FKey File} {P} {file g0 : File} (hinv : SpaceInvFP F P)
    (hg : AMap.get F file.key = some g0) (ha : acct g0 = acct file) (hr : Rewrites file F F') :
    SpaceInvFP F' P ∧ (∃ g, AMap.get F' file.key = some g ∧ acct g = acct file) ∧
      ∀ k, k ≠ file.key → AMap.get F' k = AMap.get F k := by
  induction hr with
  | refl => exact ⟨hinv, ⟨g0, hg, ha⟩, fun _ _ => rfl⟩
  | step g _ hga ih =>
    obtain ⟨i1, ⟨g1, hg1, ha1⟩, i3⟩ := ih
    have hk1 : g1.key = file.key := (acct_eq ha1).1
    have hkg : g.key = file.key := (acct_eq hga).1
    obtain ⟨a1, a2, a3, a4, a5⟩ := acct_eq (hga.trans ha1.symm)
    rw [← hk1] at hg1
    have := i1.rewrite hg1 a1 a2 a3 a4 a5
    rw [hkg] at this
    refine ⟨this, ⟨g, by simp, hga⟩, ?_⟩
    intro k hk
    rw [AMap.get_set_other _ _ _ _ (Ne.symm hk)]
    exact i3 k hk

/-- one file of the reward block preserves the invariant and touches no other file's entry -/
theorem manageFile_inv {s : State} (h : Int) (t : Tracker) {file : File} (hinv : SpaceInv s)
    (hg : AMap.get s.files file.key = some file) :
    SpaceInv (manageFile s h t file).1 ∧
      ∀ k, k ≠ file.key → AMap.get (manageFile s h t file).1.files k = AMap.get s.files k := by
  rcases manageFile_shape s h t file with ⟨_, _, e⟩ | ⟨e1, _, e3, _, _⟩
  · rw [e]
    refine ⟨removeFile_inv hinv _, ?_⟩
    intro k hk
    simp only
    rw [(removeFile_eq_of_inv hinv hg).1, AMap.get_erase_other _ _ _ (Ne.symm hk)]
  · obtain ⟨i1, _, i3⟩ := SpaceInvFP.rewrites hinv hg rfl e3
    refine ⟨?_, i3⟩
    unfold SpaceInv; rw [e1]; exact i1

theorem manageFiles_inv (h : Int) : ∀ (l : AMap FKey File) (s : State) (t : Tracker),
    SpaceInv s → AMap.WF l → (∀ kv ∈ l, AMap.get s.files kv.1 = some kv.2) →
    SpaceInv (l.foldl (fun (acc : State × Tracker) kv => manageFile acc.1 h acc.2 kv.2) (s, t)).1
  | [], s, t, hinv, _, _ => hinv
  | (k, f) :: l, s, t, hinv, hwf, hall => by
    simp only [List.foldl_cons]
    have hg := hall (k, f) (by simp)
    simp only at hg
    have hk : k = f.key := (hinv.fileOk k f hg).1
    subst hk
    obtain ⟨i1, i2⟩ := manageFile_inv h t hinv hg
    simp only [AMap.WF, AMap.keys, List.map_cons, List.nodup_cons] at hwf
    apply manageFiles_inv h l _ _ i1 hwf.2
    intro kv hkv
    have hne : kv.1 ≠ f.key := by
      intro e
      apply hwf.1
      rw [← e]
      exact List.mem_map_of_mem hkv
    rw [i2 kv.1 hne]
    exact hall kv (List.mem_cons_of_mem _ hkv)

/-- **C07 (1), reward block.**  `beginBlock` preserves the space invariant. -/
theorem C07_block_preserves (s s' : State) (h now : Int)
    (hinv : SpaceInv s) (hb : beginBlock s h now = .ok s') : SpaceInv s' := by
  unfold beginBlock at hb
  split at hb
  · simp at hb
  split at hb
  · simp only [Except.ok.injEq] at hb; subst hb; exact hinv
  unfold manageRewards at hb
  simp only [bind, Except.bind] at hb
  have h1 := manageFiles_inv h s.files s [] hinv hinv.wfF
    (fun kv hkv => AMap.get_of_mem_wf hinv.wfF hkv)
  generalize (s.files.foldl (fun (acc : State × Tracker) kv => manageFile acc.1 h acc.2 kv.2) (s, [])) = r at h1 hb
  obtain ⟨s1, tr⟩ := r
  simp only at hb h1
  split at hb
  · simp at hb
  rename_i v hpg
  obtain ⟨s2, coins⟩ := v
  simp only at hb
  obtain ⟨f1, f2, -⟩ := pullGauges_stores hpg
  have h2 : SpaceInv s2 := SpaceInv.congr f1 f2 h1
  have := foldlM_except_inv (fun st : State => sameStores s2 st) _
    (fun b a b' hb hstep => payProver_stores hb hstep) _ s2 s' ⟨rfl, rfl, rfl, rfl, rfl⟩ hb
  exact SpaceInv.congr this.1 this.2.1 h2

/-! ### histories -/

/-- an event of a history: a delivered message (a failing one commits nothing) or the
BeginBlocker of the storage module -/
inductive Ev where
  | msg (op : Op)
  | block
  deriving Repr

def applyEv (s : State) (h now : Int) : Ev → Option State
  | .msg op => some (stepT s h now op)
  | .block => match beginBlock s h now with
    | .ok s' => some s'
    | .error _ => none          -- a panic in BeginBlock halts the chain

/-- run a history of (height, block time, event) -/
def run (s : State) : List (Int × Int × Ev) → Option State
  | [] => some s
  | (h, now, ev) :: rest => (applyEv s h now ev).bind (fun s' => run s' rest)

theorem applyEv_inv {s s' : State} {h now : Int} {ev : Ev} (hinv : SpaceInv s)
    (ha : applyEv s h now ev = some s') : SpaceInv s' := by
  cases ev with
  | msg op =>
    simp only [applyEv, stepT, Option.some.injEq] at ha
    subst ha
    cases hs : step s h now op with
    | none => simpa using hinv
    | some s1 => simpa using C07_step_preserves s s1 h now op hinv hs
  | block =>
    simp only [applyEv] at ha
    split at ha
    · rename_i s1 hb
      simp only [Option.some.injEq] at ha; subst ha
      exact C07_block_preserves s s1 h now hinv hb
    · simp at ha

theorem run_inv : ∀ (hist : List (Int × Int × Ev)) (s s' : State), SpaceInv s → run s hist = some s' → SpaceInv s'
  | [], s, s', hinv, hr => by simp only [run, Option.some.injEq] at hr; subst hr; exact hinv
  | (h, now, ev) :: rest, s, s', hinv, hr => by
    simp only [run, Option.bind_eq_some_iff] at hr
    obtain ⟨s1, h1, h2⟩ := hr
    exact run_inv rest s1 s' (applyEv_inv hinv h1) h2

/-- **C07 (1).**  Along every history of messages and reward blocks from a genesis state with no
files and no plans, every plan's `spaceUsed` is exactly the total footprint of the plan-paid files
its address holds, within `spaceAvailable`, and every plan-paid file has a plan record. -/
theorem C07_space_invariant (s0 s : State) (hist : List (Int × Int × Ev))
    (hF : s0.files = []) (hP : s0.payinfo = []) (hrun : run s0 hist = some s) : SpaceInv s :=
  run_inv hist s0 s (C07_space_invariant_init s0 hF hP) hrun

/-- read off the invariant: the headline statement -/
theorem C07_space_used_eq (s : State) (hinv : SpaceInv s) (a : String) (pi : PayInfo)
    (hpi : AMap.get s.payinfo a = some pi) :
    pi.spaceUsed = usedBy s a ∧ pi.spaceUsed ≤ pi.spaceAvailable :=
  ⟨(hinv.planOk a pi hpi).2.1, (hinv.planOk a pi hpi).2.2.2⟩

/-- **The space the chain reports as used** (gRPC query server): on every state satisfying the
invariant (all reachable states), `StoragePaymentInfo` returns the plan record, whose `SpaceUsed`
is the total footprint of the account's live plan-paid files, and `GetClientFreeSpace` reports the
purchased space minus exactly that footprint, never a negative number.  (`hav`: the purchased
space is an int64 field.) -/
theorem C07_reported_usage_is_the_footprint (s : State) (hinv : SpaceInv s) (now : Int) (a : String)
    (pi : PayInfo) (hpi : AMap.get s.payinfo a = some pi) (hav : pi.spaceAvailable ≤ I64.maxV) :
    Query.run s now (.payInfo a) = .payInfo pi ∧ pi.spaceUsed = usedBy s a ∧
    Query.run s now (.clientFreeSpace a) = .num (pi.spaceAvailable - usedBy s a) ∧
    0 ≤ pi.spaceAvailable - usedBy s a := by
  obtain ⟨_, h2, h3, h4⟩ := hinv.planOk a pi hpi
  obtain ⟨q1, q2, _⟩ := Query.run_payInfo s now a pi hpi
  have hw : I64.wrap (pi.spaceAvailable - pi.spaceUsed) = pi.spaceAvailable - pi.spaceUsed :=
    I64.wrap_id (by unfold I64.minV; omega) (by omega)
  have hu : pi.spaceUsed = usedBy s a := h2
  refine ⟨q1, hu, ?_, ?_⟩
  · rw [q2, hw, hu]
  · rw [← hu]; omega

/-- an account without a plan is reported no space at all -/
theorem C07_no_plan_reports_nothing (s : State) (now : Int) (a : String) (h : AMap.get s.payinfo a = none) :
    Query.run s now (.payInfo a) = .err ∧ Query.run s now (.clientFreeSpace a) = .num 0 ∧
    Query.run s now (.payData a) = .payData (-1) 0 := by
  simp [Query.run, h]

/-! ### (2) posting without a plan, with an expired plan, or without room fails -/

/-- what a re-post gives back first: the footprint of the plan-paid file stored under the key -/
def returned (s : State) (k : FKey) : Int :=
  match AMap.get s.files k with
  | some f => if f.expires ≤ 0 then footprint f else 0
  | none => 0

theorem removeFile_plan_of_inv {s : State} (hinv : SpaceInv s) (m c : String) (h : Int) :
    AMap.get (removeFile s (m, c, h)).payinfo c =
      (AMap.get s.payinfo c).map (fun pi => { pi with spaceUsed := pi.spaceUsed - returned s (m, c, h) }) := by
  unfold returned
  cases hg : AMap.get s.files (m, c, h) with
  | none =>
    rw [removeFile_none hg]
    cases AMap.get s.payinfo c <;> simp
  | some f =>
    obtain ⟨_, e2, e3⟩ := removeFile_eq_of_inv hinv hg
    have hk := (hinv.fileOk _ f hg).1
    have ho : f.owner = c := by
      simp only [File.key, Prod.mk.injEq] at hk; exact hk.2.1.symm
    by_cases hle : f.expires ≤ 0
    · obtain ⟨pi, hpi, e⟩ := e3 hle
      rw [ho] at hpi e
      rw [e, hpi]; simp [hle]
    · rw [e2 (by omega)]
      simp only [hle, if_false]
      cases AMap.get s.payinfo c <;> simp

theorem C07_post_without_plan_or_space_fails (s : State) (h now : Int) (c m : String)
    (fs mp ex pt : Int) (note : String) (nv : Bool) (jp : Int) (gid gacc : String)
    (hinv : SpaceInv s) (hex : ex ≤ 0)
    (hbad : AMap.get s.payinfo c = none ∨
      ∃ pi, AMap.get s.payinfo c = some pi ∧
        (pi.endT < now ∨ pi.spaceUsed - returned s (m, c, h) + fs * mp > pi.spaceAvailable)) :
    step s h now (.postFile c m fs mp ex pt note nv jp gid gacc) = none ∧
    stepT s h now (.postFile c m fs mp ex pt note nv jp gid gacc) = s := by
  have key : step s h now (.postFile c m fs mp ex pt note nv jp gid gacc) = none := by
    cases hs : step s h now (.postFile c m fs mp ex pt note nv jp gid gacc) with
    | none => rfl
    | some s' =>
      exfalso
      simp only [step] at hs
      obtain ⟨_, _, _, _, hP⟩ := postFile_shape hs
      rcases hP with ⟨hpos, _⟩ | ⟨_, pi', hpi', hend, hfit, _⟩
      · omega
      · rw [removeFile_plan_of_inv hinv] at hpi'
        rcases hbad with hn | ⟨pi, hpi, hb⟩
        · rw [hn] at hpi'; simp at hpi'
        · rw [hpi] at hpi'
          simp only [Option.map_some, Option.some.injEq] at hpi'
          subst hpi'
          simp only at hend hfit
          omega
  exact ⟨key, by simp [stepT, key]⟩

/-! ### (2b) a posting is classed by the sign of `Expires`, once -/

theorem mul_le_of_le_tdiv {a k c : Int} (hk : 0 < k) (hc : 0 < c) (h : c ≤ Int.tdiv a k) : c * k ≤ a := by
  rw [← Canine.tdiv_eq] at h; unfold Canine.tdiv at h
  simp only [show (0:Int) ≤ k by omega, if_true] at h
  split at h
  · exact (Int.le_ediv_iff_mul_le hk).1 h
  · have : 0 ≤ (-a) / k := Int.ediv_nonneg (by omega) (by omega)
    omega

/-- **A pay-once posting pays for at least a whole day.**  An accepted `MsgPostFile` with a
positive `Expires` has `Expires ≥ height + 14 400` (a day of six-second blocks), provided the
block count times six stays inside int64 — as it does for every height and `Expires` a chain can
see.  So the sign of `Expires` classes a posting once and for all: what `postFile` charges to the
plan (`Expires ≤ 0`, `postFile_shape`) is exactly what `removeFile` later gives back. -/
theorem C07_payonce_post_pays_for_a_day {s s' : State} {h now : Int} {c m : String} {fs mp ex pt : Int}
    {note : String} {nv : Bool} {jp : Dec} {gid gacc : String}
    (hs : postFile s h now c m fs mp ex pt note nv jp gid gacc = some s') (hex : 0 < ex)
    (hnw : I64.minV ≤ (ex - h) * 6 ∧ (ex - h) * 6 ≤ I64.maxV) : h + 14400 ≤ ex := by
  simp only [postFile, bind, Option.bind_eq_some_iff, req_eq_some] at hs
  obtain ⟨_, _, _, _, hrest⟩ := hs
  rw [if_pos hex] at hrest
  simp only [Option.bind_eq_some_iff, req_eq_some] at hrest
  obtain ⟨_, ⟨hd, _⟩, _⟩ := hrest
  rw [I64.mul, I64.wrap_id hnw.1 hnw.2] at hd
  have h1 : 1 * 24 ≤ Int.tdiv (Int.tdiv ((ex - h) * 6) 60) 60 :=
    mul_le_of_le_tdiv (by omega) (by omega) (by omega)
  have h2 : 24 * 60 ≤ Int.tdiv ((ex - h) * 6) 60 :=
    mul_le_of_le_tdiv (by omega) (by omega) (by omega)
  have h3 : 24 * 60 * 60 ≤ (ex - h) * 6 :=
    mul_le_of_le_tdiv (by omega) (by omega) (by omega)
  omega

/-- … and a positive `Expires` that is not a day ahead is refused: the message changes nothing
(neither a file nor any plan's usage). -/
theorem C07_nonfuture_payonce_post_refused (s : State) (h now : Int) (c m : String) (fs mp ex pt : Int)
    (note : String) (nv : Bool) (jp : Dec) (gid gacc : String)
    (hex : 0 < ex) (hnear : ex < h + 14400) (hh : 0 ≤ h ∧ h ≤ 1000000000000000000) :
    postFile s h now c m fs mp ex pt note nv jp gid gacc = none := by
  cases hs : postFile s h now c m fs mp ex pt note nv jp gid gacc with
  | none => rfl
  | some s' =>
    have := C07_payonce_post_pays_for_a_day hs hex (by unfold I64.minV I64.maxV; omega)
    omega

/-! ### (3) deleting returns exactly the footprint -/

/-- the accounting effect of `removeFile` on a stored file, under the invariant -/
theorem removeFile_effect {s : State} (hinv : SpaceInv s) {k : FKey} {f : File}
    (hg : AMap.get s.files k = some f) :
    AMap.get (removeFile s k).files k = none ∧
    (∀ k2, k2 ≠ k → AMap.get (removeFile s k).files k2 = AMap.get s.files k2) ∧
    (∀ a, a ≠ f.owner → AMap.get (removeFile s k).payinfo a = AMap.get s.payinfo a) ∧
    (0 < f.expires → (removeFile s k).payinfo = s.payinfo) ∧
    (f.expires ≤ 0 → ∃ pi, AMap.get s.payinfo f.owner = some pi ∧ footprint f ≤ pi.spaceUsed ∧
        AMap.get (removeFile s k).payinfo f.owner =
          some { pi with spaceUsed := pi.spaceUsed - footprint f } ∧
        usedBy (removeFile s k) f.owner = usedBy s f.owner - footprint f) := by
  obtain ⟨e1, e2, e3⟩ := removeFile_eq_of_inv hinv hg
  refine ⟨by rw [e1]; simp, fun k2 hk => by rw [e1, AMap.get_erase_other _ _ _ (Ne.symm hk)], ?_, e2, ?_⟩
  · intro a ha
    by_cases hle : f.expires ≤ 0
    · obtain ⟨pi, _, e⟩ := e3 hle
      rw [e, AMap.get_set_other _ _ _ _ (Ne.symm ha)]
    · rw [e2 (by omega)]
  · intro hle
    obtain ⟨pi, hpi, e⟩ := e3 hle
    obtain ⟨pi', hpi', _, hge, _⟩ := (hinv.remove hg).2 hle
    rw [hpi] at hpi'; cases hpi'
    refine ⟨pi, hpi, hge, by rw [e]; simp, ?_⟩
    unfold usedBy
    rw [e1, usedIn_erase hinv.wfF k f hg]
    simp [planFoot, hle]

theorem C07_delete_returns_footprint (s : State) (c m : String) (st : Int) (f : File)
    (hinv : SpaceInv s) (hg : AMap.get s.files (m, c, st) = some f) (hplan : f.expires ≤ 0) :
    let s' := deleteFile s c m st
    f.owner = c ∧
    AMap.get s'.files (m, c, st) = none ∧
    (∃ pi, AMap.get s.payinfo c = some pi ∧ footprint f ≤ pi.spaceUsed ∧
      AMap.get s'.payinfo c = some { pi with spaceUsed := pi.spaceUsed - footprint f }) ∧
    usedBy s' c = usedBy s c - footprint f ∧
    (∀ a, a ≠ c → AMap.get s'.payinfo a = AMap.get s.payinfo a) ∧
    (∀ k, k ≠ (m, c, st) → AMap.get s'.files k = AMap.get s.files k) := by
  have hk := (hinv.fileOk _ f hg).1
  have ho : f.owner = c := by
    simp only [File.key, Prod.mk.injEq] at hk; exact hk.2.1.symm
  obtain ⟨e1, e2, e3, _, e5⟩ := removeFile_effect hinv hg
  obtain ⟨pi, hpi, hge, hnew, hused⟩ := e5 hplan
  rw [ho] at hpi hnew hused e3
  exact ⟨ho, e1, ⟨pi, hpi, hge, hnew⟩, hused, e3, e2⟩

/-- deleting a pay-once file removes it and leaves every plan as it was -/
theorem C07_delete_payonce_keeps_plans (s : State) (c m : String) (st : Int) (f : File)
    (hinv : SpaceInv s) (hg : AMap.get s.files (m, c, st) = some f) (hpo : 0 < f.expires) :
    AMap.get (deleteFile s c m st).files (m, c, st) = none ∧ (deleteFile s c m st).payinfo = s.payinfo := by
  obtain ⟨e1, _, _, e4, _⟩ := removeFile_effect hinv hg
  exact ⟨e1, e4 hpo⟩

/-- deleting a file that is not there changes nothing; and since the key carries the signer as
owner, a signer can never reach a file owned by somebody else: such files and their owners' plans
are untouched -/
theorem C07_delete_missing_or_foreign (s : State) (c m : String) (st : Int) (hinv : SpaceInv s) :
    (AMap.get s.files (m, c, st) = none → deleteFile s c m st = s) ∧
    (∀ k f, AMap.get s.files k = some f → f.owner ≠ c →
      AMap.get (deleteFile s c m st).files k = some f ∧
      AMap.get (deleteFile s c m st).payinfo f.owner = AMap.get s.payinfo f.owner) := by
  refine ⟨fun hn => removeFile_none hn, ?_⟩
  intro k f hg hne
  have hk := (hinv.fileOk k f hg).1
  have hkne : k ≠ (m, c, st) := by
    intro e; rw [hk] at e
    simp only [File.key, Prod.mk.injEq] at e; exact hne e.2.1
  unfold deleteFile
  cases hd : AMap.get s.files (m, c, st) with
  | none => rw [removeFile_none hd]; exact ⟨hg, rfl⟩
  | some d =>
    obtain ⟨_, e2, e3, _, _⟩ := removeFile_effect hinv hd
    have hdo : d.owner = c := by
      have := (hinv.fileOk _ d hd).1
      simp only [File.key, Prod.mk.injEq] at this; exact this.2.1.symm
    exact ⟨by rw [e2 k hkne]; exact hg, e3 f.owner (by rw [hdo]; exact hne)⟩

/-! ### (4) the reward block drops an abandoned file with the same accounting -/

theorem C07_drop_returns_footprint (s : State) (h : Int) (t : Tracker) (file : File)
    (hinv : SpaceInv s) (hg : AMap.get s.files file.key = some file)
    (hnone : file.proofs = []) (hold : isYoung h file.start file.proofInterval = false) :
    let s' := (manageFile s h t file).1
    s' = removeFile s file.key ∧ (manageFile s h t file).2 = t ∧
    AMap.get s'.files file.key = none ∧
    (file.expires ≤ 0 → ∃ pi, AMap.get s.payinfo file.owner = some pi ∧
        AMap.get s'.payinfo file.owner = some { pi with spaceUsed := pi.spaceUsed - footprint file } ∧
        usedBy s' file.owner = usedBy s file.owner - footprint file) ∧
    (0 < file.expires → s'.payinfo = s.payinfo) := by
  have e : manageFile s h t file = (removeFile s file.key, t) := by
    unfold manageFile; simp [hnone, hold]
  obtain ⟨e1, _, _, e4, e5⟩ := removeFile_effect hinv hg
  simp only [e]
  refine ⟨trivial, trivial, e1, ?_, e4⟩
  intro hle
  obtain ⟨pi, hpi, _, hnew, hused⟩ := e5 hle
  exact ⟨pi, hpi, hnew, hused⟩

/-! ### (5) buying or renewing a plan carries the usage over -/

theorem C07_buy_carries_usage (s s' : State) (h now : Int) (c fa : String) (dd bytes : Int) (dn : String)
    (ref : Option String) (jp : Int) (gid gacc : String)
    (hstep : step s h now (.buyStorage c fa dd bytes dn ref jp gid gacc) = some s') :
    ∃ spi, AMap.get s'.payinfo fa = some spi ∧
      spi.spaceUsed = ((AMap.get s.payinfo fa).map (·.spaceUsed)).getD 0 ∧
      spi.spaceAvailable = bytes ∧ spi.spaceUsed ≤ bytes ∧ spi.address = fa ∧
      s'.files = s.files ∧ (∀ a, a ≠ fa → AMap.get s'.payinfo a = AMap.get s.payinfo a) := by
  simp only [step] at hstep
  obtain ⟨hb, hle, _, hF, hP⟩ := buyStorage_shape hstep
  refine ⟨PayInfo.mk now (now + I64.mul dd dayNs) bytes (((AMap.get s.payinfo fa).map (·.spaceUsed)).getD 0) fa,
    by rw [hP]; simp, rfl, rfl, ?_, rfl, hF, ?_⟩
  · show ((AMap.get s.payinfo fa).map (·.spaceUsed)).getD 0 ≤ bytes
    cases hg : AMap.get s.payinfo fa with
    | none => simp; omega
    | some pi => simpa using hle pi hg
  · intro a ha; rw [hP, AMap.get_set_other _ _ _ _ (Ne.symm ha)]

/-- a plan smaller than what is already stored is refused -/
theorem C07_buy_below_usage_fails (s : State) (h now : Int) (c fa : String) (dd bytes : Int) (dn : String)
    (ref : Option String) (jp : Int) (gid gacc : String) (pi : PayInfo)
    (hpi : AMap.get s.payinfo fa = some pi) (hlt : bytes < pi.spaceUsed) :
    step s h now (.buyStorage c fa dd bytes dn ref jp gid gacc) = none := by
  cases hs : step s h now (.buyStorage c fa dd bytes dn ref jp gid gacc) with
  | none => rfl
  | some s' =>
    simp only [step] at hs
    have := (buyStorage_shape hs).2.1 pi hpi
    omega

/-! ### (6) regression witness and non-vacuity -/

/-- `RemoveFile` as it was before the repair: the footprint is not given back -/
def removeFileUnfixed (s : State) (k : FKey) : State :=
  match AMap.get s.files k with
  | none => s
  | some f =>
    { s with proofs := f.proofs.foldl (fun m pk => AMap.erase m pk) s.proofs,
             files := AMap.erase s.files k, files2 := AMap.erase s.files2 k }

/-- a state whose only content is a 10 000-byte plan of "alice" that runs until t = 1000 -/
def wState : State :=
  { (default : State) with
    params := { (default : Params) with checkWindow := 3, proofWindow := 100 }
    payinfo := [("alice", { startT := 0, endT := 1000, spaceAvailable := 10000, spaceUsed := 0, address := "alice" })] }

/-- alice posts a plan-paid file of 1000 bytes × 3 proofs at height 5, time 10 -/
def wPosted : Option State :=
  step wState 5 10 (.postFile "alice" "aa" 1000 3 0 0 "" true 1 "" "")

def wFile : File :=
  { merkle := "aa", owner := "alice", start := 5, expires := 0, fileSize := 1000, proofInterval := 100,
    proofType := 0, proofs := [], maxProofs := 3, note := "" }

def wAfterPost : State :=
  { wState with
    files := [(("aa", "alice", 5), wFile)], files2 := [(("aa", "alice", 5), wFile)],
    payinfo := [("alice", { startT := 0, endT := 1000, spaceAvailable := 10000, spaceUsed := 3000, address := "alice" })] }

example : wPosted = some wAfterPost := by decide

/-- Regression witness: with the unrepaired `RemoveFile`, post → delete leaves 3000 bytes charged
to a plan that holds no file at all (the leak grows with every post/delete round). -/
theorem C07_unfixed_delete_leaks :
    (removeFileUnfixed wAfterPost ("aa", "alice", 5)).files = [] ∧
    ((AMap.get (removeFileUnfixed wAfterPost ("aa", "alice", 5)).payinfo "alice").map (·.spaceUsed)) = some 3000 ∧
    usedBy (removeFileUnfixed wAfterPost ("aa", "alice", 5)) "alice" = 0 ∧
    ¬ SpaceInv (removeFileUnfixed wAfterPost ("aa", "alice", 5)) := by
  refine ⟨by decide, by decide, by decide, ?_⟩
  intro hinv
  have := (hinv.planOk "alice" _ (by decide : AMap.get (removeFileUnfixed wAfterPost ("aa", "alice", 5)).payinfo "alice"
    = some { startT := 0, endT := 1000, spaceAvailable := 10000, spaceUsed := 3000, address := "alice" })).2.1
  revert this; decide

/-- the repaired code gives the 3000 bytes back -/
example : ((AMap.get (deleteFile wAfterPost "alice" "aa" 5).payinfo "alice").map (·.spaceUsed)) = some 0 ∧
    (deleteFile wAfterPost "alice" "aa" 5).files = [] := by decide

/-- re-posting under the same key (same height) first returns the old footprint: usage stays 3000
instead of doubling (the second repaired defect) -/
example : ((step wAfterPost 5 10 (.postFile "alice" "aa" 1000 3 0 0 "" true 1 "" "")).bind
    (fun s => (AMap.get s.payinfo "alice").map (·.spaceUsed))) = some 3000 := by decide

/-- a negative `Expires` is plan-paid on posting and on removal alike -/
example : ((step wState 5 10 (.postFile "alice" "aa" 1000 3 (-7) 0 "" true 1 "" "")).map
    (fun s => ((AMap.get s.payinfo "alice").map (·.spaceUsed),
               (AMap.get (deleteFile s "alice" "aa" 5).payinfo "alice").map (·.spaceUsed))))
    = some (some 3000, some 0) := by decide

/-- posting 8000 more bytes does not fit the 10 000-byte plan; posting after the plan ended fails -/
example : step wAfterPost 6 10 (.postFile "alice" "bb" 4000 2 0 0 "" true 1 "" "") = none := by decide
example : step wAfterPost 6 1001 (.postFile "alice" "bb" 10 1 0 0 "" true 1 "" "") = none := by decide
example : step wAfterPost 6 10 (.postFile "bob" "bb" 10 1 0 0 "" true 1 "" "") = none := by decide

/-- **Non-vacuity.**  The state after the post — one plan, one plan-paid file — satisfies the
invariant (proved directly from the definition, not through the preservation theorem), and it is
the state the model reaches. -/
example : SpaceInv wAfterPost ∧ wPosted = some wAfterPost ∧ usedBy wAfterPost "alice" = 3000 := by
  refine ⟨(SpaceInv_iff _).2 ⟨by unfold AMap.WF; decide, by unfold AMap.WF; decide, ?_, ?_, ?_⟩, by decide, by decide⟩
  · intro k f hg
    simp only [wAfterPost, AMap.get] at hg
    split at hg
    · rename_i hk
      simp only [Option.some.injEq] at hg
      subst hg; subst hk; decide
    · simp at hg
  · intro a pi hg
    simp only [wAfterPost, AMap.get] at hg
    split at hg
    · rename_i hk
      simp only [Option.some.injEq] at hg
      subst hg; subst hk; decide
    · simp at hg
  · intro k f hg _
    simp only [wAfterPost, AMap.get] at hg
    split at hg
    · simp only [Option.some.injEq] at hg
      subst hg; decide
    · simp at hg

/-- the reward block at height 6 (a multiple of the check window) runs `manageRewards` on that
state and succeeds, keeping the young file -/
theorem wBlock : beginBlock wAfterPost 6 20 = .ok wAfterPost := by
  have e : (wAfterPost.files.foldl (fun (acc : State × Tracker) kv => manageFile acc.1 6 acc.2 kv.2) (wAfterPost, []))
      = (wAfterPost, []) := by decide
  have e2 : pullGauges wAfterPost 20 = .ok (wAfterPost, []) := rfl
  have e3 : wAfterPost.params.checkWindow ≠ 0 := by decide
  have e4 : ¬ Int.tmod 6 wAfterPost.params.checkWindow > 0 := by decide
  unfold beginBlock manageRewards sortedProvers
  simp only [e3, e4, if_false, e, bind, Except.bind, e2, List.mergeSort_nil, List.foldlM_nil, pure, Except.pure]

/-- a non-trivial history (post, reward block, delete) runs and ends with no file and no usage -/
example : (run wState [(5, 10, .msg (.postFile "alice" "aa" 1000 3 0 0 "" true 1 "" "")), (6, 20, .block),
    (7, 30, .msg (.deleteFile "alice" "aa" 5))]).map
      (fun s => (s.files, (AMap.get s.payinfo "alice").map (·.spaceUsed))) = some ([], some 0) := by
  have e1 : stepT wState 5 10 (.postFile "alice" "aa" 1000 3 0 0 "" true 1 "" "") = wAfterPost := by decide
  simp only [run, applyEv, e1, wBlock, Option.bind_some]
  decide

end Canine.Storage
