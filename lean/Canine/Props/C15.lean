/-
C15 — Provider collateral is fully backed and returned exactly once.

`initProvider` moves the collateral price of the moment from the registrant to the escrow account
and records it; `shutdownProvider` returns the *recorded* amount — whatever the price parameter
says by then — and deletes record and provider, so nothing can be claimed twice or by anybody else.
The escrow account always holds exactly the sum of the recorded collaterals (`CollInv`, defined in
`Canine/Proofs/StorageColl.lean` together with the configuration facts it rests on), along every
history of messages, reward blocks and parameter changes.
-/
import Canine.Proofs.StorageColl
namespace Canine.Storage
open Bank

/-! ## 1. the escrow invariant -/

/-- One message (any of the 15, signed by anyone but the keyless escrow account) keeps the escrow
account's balance equal to the sum of the collateral records. -/
theorem C15_escrow_invariant_step (s s' : State) (h now : Int) (op : Op) (hinv : CollInv s)
    (hc : op.creator ≠ s.collateralAcc) (hca : acctOf s op.creator ≠ s.collateralAcc)
    (hstep : step s h now op = some s') : CollInv s' :=
  (collInv_step hinv hc hca hstep).1

/-- **Frame.** Only registration and shutdown touch the escrow: any other successful message
leaves the collateral records and every balance of the escrow account as they were. -/
theorem C15_other_messages_leave_escrow_alone (s s' : State) (h now : Int) (op : Op) (hinv : CollInv s)
    (hc : op.creator ≠ s.collateralAcc) (hop : op.touchesCollateral = false)
    (hstep : step s h now op = some s') :
    s'.collateral = s.collateral ∧ s'.collateralAcc = s.collateralAcc ∧
    ∀ d, bal s'.bank s.collateralAcc d = bal s.bank s.collateralAcc d :=
  have f := step_frame hinv hc hop hstep
  ⟨f.cfg.coll, f.cfg.cacc, f.esc⟩

/-- The reward block keeps it: provers are paid by the module account, gauges pay the module
account, and the escrow account is a blocked recipient that is neither. -/
theorem C15_escrow_invariant_block (s s' : State) (h now : Int) (hinv : CollInv s)
    (hb : beginBlock s h now = .ok s') : CollInv s' :=
  hinv.frame (beginBlock_frame hinv hb)

/-- A parameter change (in particular a new collateral price) keeps it: the invariant does not
mention the parameters. -/
theorem C15_escrow_invariant_params (s : State) (p : Params) (hinv : CollInv s) :
    CollInv { s with params := p } :=
  ⟨hinv.wf, hinv.escBlocked, hinv.modNe, hinv.feeNe, hinv.gaugeNe, hinv.provided, hinv.nonneg, hinv.backed⟩

/-- what can happen to the module's state: a delivered message (failed ones commit nothing), a
block boundary (a panicking BeginBlocker halts the chain: no new state), a governance parameter
change -/
inductive Event where
  | msg (h now : Int) (op : Op)
  | block (h now : Int)
  | setParams (p : Params)

def applyEvent (s : State) : Event → State
  | .msg h now op => stepT s h now op
  | .block h now => match beginBlock s h now with
    | .ok s' => s'
    | .error _ => s
  | .setParams p => { s with params := p }

def run (s : State) (es : List Event) : State := es.foldl applyEvent s

/-- the message is not signed by the escrow account (a module account, which has no key) — under
no spelling of its address -/
def Event.signedOk (s : State) : Event → Prop
  | .msg _ _ op => op.creator ≠ s.collateralAcc ∧ acctOf s op.creator ≠ s.collateralAcc
  | _ => True

/-- … and so for every message of a history, each judged in the state it is delivered to -/
def signedAlong : State → List Event → Prop
  | _, [] => True
  | s, e :: es => e.signedOk s ∧ signedAlong (applyEvent s e) es

theorem applyEvent_inv (s : State) (e : Event) (hinv : CollInv s) (hc : e.signedOk s) :
    CollInv (applyEvent s e) ∧ (applyEvent s e).collateralAcc = s.collateralAcc := by
  cases e with
  | msg h now op =>
    simp only [applyEvent, stepT]
    cases hs : step s h now op with
    | none => exact ⟨hinv, rfl⟩
    | some s' => exact collInv_step hinv hc.1 hc.2 hs
  | block h now =>
    simp only [applyEvent]
    split
    · rename_i s' hb
      have f := beginBlock_frame hinv hb
      exact ⟨hinv.frame f, f.cfg.cacc⟩
    · exact ⟨hinv, rfl⟩
  | setParams p => exact ⟨C15_escrow_invariant_params s p hinv, rfl⟩

/-- **Every history.** From any state satisfying the invariant, after any sequence of messages,
reward blocks and parameter changes, the escrow account still holds exactly the sum of the recorded
collaterals (and every record is non-negative and belongs to a registered provider). -/
theorem C15_escrow_invariant (es : List Event) :
    ∀ (s : State), CollInv s → signedAlong s es → CollInv (run s es) := by
  induction es with
  | nil => intro s hinv _; exact hinv
  | cons e rest ih =>
    intro s hinv hc
    have h1 := applyEvent_inv s e hinv hc.1
    simp only [run, List.foldl_cons]
    exact ih _ h1.1 hc.2

/-- spelled out: the balance equation along every history -/
theorem C15_escrow_backed_along_histories (es : List Event) (s : State) (hinv : CollInv s)
    (hc : signedAlong s es) :
    bal (run s es).bank (run s es).collateralAcc "ujkl" = AMap.sumBy id (run s es).collateral :=
  (C15_escrow_invariant es s hinv hc).backed

/-- genesis: no records, empty escrow -/
theorem C15_genesis (s : State) (hc : s.collateral = []) (hb : s.collateralAcc ∈ s.blocked)
    (hm : s.moduleAcc ≠ s.collateralAcc) (hf : s.feeAcc ≠ s.collateralAcc)
    (hg : ∀ kv ∈ s.gauges, kv.2.account ≠ s.collateralAcc)
    (h0 : bal s.bank s.collateralAcc "ujkl" = 0) : CollInv s :=
  ⟨by rw [hc]; simp [AMap.WF, AMap.keys], hb, hm, hf, hg, by rw [hc]; simp, by rw [hc]; simp,
   by rw [h0, hc]; simp [AMap.sumBy]⟩

/-! ## 2. registration locks the price of the moment -/

/-- A successful registration: there was no provider under that address, the registrant is debited
exactly the current `collateralPrice`, the escrow account credited the same, the record is that
amount, the provider exists, and no other balance or record changes. -/
theorem C15_init_locks_current_price (s s' : State) (c ip kb : String) (ts : Int) (iv : Bool)
    (hc : acctOf s c ≠ s.collateralAcc) (h : initProvider s c ip kb ts iv = some s') :
    AMap.get s.providers c = none ∧ 0 ≤ s.params.collateralPrice ∧
    AMap.get s'.collateral c = some s.params.collateralPrice ∧
    (AMap.get s'.providers c).isSome ∧
    bal s'.bank (acctOf s c) "ujkl" = bal s.bank (acctOf s c) "ujkl" - s.params.collateralPrice ∧
    bal s'.bank s.collateralAcc "ujkl" = bal s.bank s.collateralAcc "ujkl" + s.params.collateralPrice ∧
    (∀ a d, (a ≠ acctOf s c ∧ a ≠ s.collateralAcc) ∨ d ≠ "ujkl" → bal s'.bank a d = bal s.bank a d) ∧
    (∀ k, k ≠ c → AMap.get s'.collateral k = AMap.get s.collateral k) := by
  obtain ⟨hnone, hp, hsend, hs⟩ := initProvider_spec h
  have hb := fun a d => bal_send hsend a d
  simp only [amt_coinsOf] at hb
  refine ⟨hnone, hp, by rw [hs]; simp, by rw [hs]; simp, ?_, ?_, ?_, ?_⟩
  · rw [hb]; simp [Ne.symm hc]
  · rw [hb]; simp [hc]
  · intro a d hor
    rw [hb]
    rcases hor with ⟨h1, h2⟩ | h1
    · simp [Ne.symm h1, Ne.symm h2]
    · simp [Ne.symm h1]
  · intro k hk
    rw [hs]; exact AMap.get_set_other _ _ _ _ (Ne.symm hk)

/-! ## 3. shutdown returns the recorded amount -/

/-- A successful shutdown of a provider with a record `amt`: the provider (the signer) is credited
exactly `amt`, the escrow account debited the same, and record and provider are gone.  The
statement does not mention `params.collateralPrice`: later price changes are irrelevant. -/
theorem C15_shutdown_returns_recorded_amount (s s' : State) (c : String) (amt : Int)
    (hc : acctOf s c ≠ s.collateralAcc) (hrec : AMap.get s.collateral c = some amt)
    (h : shutdownProvider s c = some s') :
    0 ≤ amt ∧ acctOf s c ∉ s.blocked ∧
    bal s'.bank (acctOf s c) "ujkl" = bal s.bank (acctOf s c) "ujkl" + amt ∧
    bal s'.bank s.collateralAcc "ujkl" = bal s.bank s.collateralAcc "ujkl" - amt ∧
    AMap.get s'.collateral c = none ∧ AMap.get s'.providers c = none := by
  obtain ⟨_, hcase⟩ := shutdownProvider_spec h
  rcases hcase with ⟨amt', hrec', h0, hnb, hsend, hs⟩ | ⟨hrec', _⟩
  · rw [hrec] at hrec'; cases hrec'
    have hb := fun a d => bal_send hsend a d
    simp only [amt_coinsOf] at hb
    refine ⟨h0, hnb, ?_, ?_, by rw [hs]; simp, by rw [hs]; simp⟩
    · rw [hb]; simp [Ne.symm hc]
    · rw [hb]; simp [hc]
  · rw [hrec] at hrec'; cases hrec'

/-- the same transaction under any other parameter set returns the same tokens -/
theorem C15_shutdown_ignores_price_changes (s : State) (p : Params) (c : String) :
    (shutdownProvider { s with params := p } c).map (·.bank) = (shutdownProvider s c).map (·.bank) ∧
    (shutdownProvider { s with params := p } c).map (·.collateral) = (shutdownProvider s c).map (·.collateral) := by
  simp only [shutdownProvider, sendFromModule, bind, acctOf]
  cases req (AMap.contains s.providers c = true) with
  | none => simp
  | some _ =>
    simp only [Option.bind_some]
    cases AMap.get s.collateral c with
    | none => simp
    | some amt =>
      simp only
      cases req (0 ≤ amt) with
      | none => simp
      | some _ =>
        simp only [Option.bind_some]
        cases newCoins "ujkl" amt with
        | none => simp
        | some coins =>
          simp only [Option.bind_some]
          by_cases hmem : (AMap.get s.canon c).getD c ∈ s.blocked
          · simp [hmem]
          · simp only [List.contains_iff_mem, hmem, if_false]
            cases send s.bank s.collateralAcc ((AMap.get s.canon c).getD c) coins <;> simp

/-! ## 4. nothing is claimed twice, nothing by anybody else -/

/-- After a successful shutdown the provider is gone, so a second shutdown by the same account
fails (until it registers — and pays — again). -/
theorem C15_no_second_claim (s s' : State) (c : String) (h : shutdownProvider s c = some s') :
    shutdownProvider s' c = none ∧ AMap.get s'.providers c = none ∧ AMap.get s'.collateral c = none := by
  obtain ⟨_, hcase⟩ := shutdownProvider_spec h
  have hp : AMap.get s'.providers c = none := by
    rcases hcase with ⟨_, _, _, _, _, hs⟩ | ⟨_, hs⟩ <;> rw [hs] <;> simp
  have hcoll : AMap.get s'.collateral c = none := by
    rcases hcase with ⟨_, _, _, _, _, hs⟩ | ⟨hn, hs⟩
    · rw [hs]; simp
    · rw [hs]; exact hn
  refine ⟨?_, hp, hcoll⟩
  simp [shutdownProvider, AMap.contains, hp, req, bind]

/-- more generally: without a provider entry nothing can be withdrawn -/
theorem C15_no_claim_without_provider (s : State) (c : String) (h : AMap.get s.providers c = none) :
    shutdownProvider s c = none := by
  simp [shutdownProvider, AMap.contains, h, req, bind]

/-- A shutdown signed by `c` changes no balance other than `c`'s and the escrow's, and removes no
record and no provider other than `c`'s. -/
theorem C15_no_foreign_claim (s s' : State) (c : String) (h : shutdownProvider s c = some s') :
    (∀ a d, a ≠ acctOf s c → a ≠ s.collateralAcc → bal s'.bank a d = bal s.bank a d) ∧
    (∀ a d, d ≠ "ujkl" → bal s'.bank a d = bal s.bank a d) ∧
    (∀ k, k ≠ c → AMap.get s'.collateral k = AMap.get s.collateral k ∧
                  AMap.get s'.providers k = AMap.get s.providers k) := by
  obtain ⟨_, hcase⟩ := shutdownProvider_spec h
  rcases hcase with ⟨amt, hrec, h0, hnb, hsend, hs⟩ | ⟨hrec, hs⟩
  · have hb := fun a d => bal_send hsend a d
    simp only [amt_coinsOf] at hb
    refine ⟨fun a d h1 h2 => by rw [hb]; simp [Ne.symm h1, Ne.symm h2],
      fun a d h1 => by rw [hb]; simp [Ne.symm h1], fun k hk => ?_⟩
    rw [hs]
    exact ⟨AMap.get_erase_other _ _ _ (Ne.symm hk), AMap.get_erase_other _ _ _ (Ne.symm hk)⟩
  · rw [hs]
    exact ⟨fun _ _ _ _ => rfl, fun _ _ _ => rfl, fun k hk => ⟨rfl, AMap.get_erase_other _ _ _ (Ne.symm hk)⟩⟩


/-! ## non-vacuity -/

def exParams15 : Params :=
  { proofWindow := 50, checkWindow := 100, chunkSize := 1024, pricePerTbPerMonth := 8,
    collateralPrice := 10000000000, attestFormSize := 5, attestMinToPass := 3,
    referralCommission := 25, polRatio := 40 }

def exProv (a : String) : Provider :=
  { address := a, ip := "https://" ++ a, totalspace := "1000", burned := some 0, creator := a,
    keybase := "", claimers := [] }

/-- two providers registered under different prices (10 000 JKL, then 2 500 JKL), escrow = the sum -/
def exColl : State :=
  { files := [], files2 := [], proofs := [],
    providers := [("p1", exProv "p1"), ("p2", exProv "p2")], payinfo := [],
    collateral := [("p1", 10000000000), ("p2", 2500000000)],
    gauges := [("g1", { id := "g1", startT := 0, endT := 1000000000, coins := [("ujkl", 7)], account := "gauge1" })],
    attests := [], reports := [],
    bank := [(("coll", "ujkl"), 12500000000), (("p3", "ujkl"), 20000000000), (("gauge1", "ujkl"), 7)],
    params := exParams15, moduleAcc := "storage", collateralAcc := "coll", polAcc := "pol", feeAcc := "fees",
    blocked := ["coll", "fees", "storage"] }

theorem exColl_inv : CollInv exColl := by
  refine ⟨by simp [AMap.WF, AMap.keys, exColl], by decide, by decide, by decide, ?_, ?_, ?_, by decide⟩
  · intro kv hkv
    simp only [exColl, List.mem_singleton] at hkv
    subst hkv; decide
  · intro a v hv
    simp only [exColl, AMap.get] at hv ⊢
    split at hv
    · rename_i e; subst e; rfl
    · split at hv
      · rename_i e; subst e; rfl
      · cases hv
  · intro a v hv
    simp only [exColl, AMap.get] at hv
    split at hv
    · simp only [Option.some.injEq] at hv; omega
    · split at hv
      · simp only [Option.some.injEq] at hv; omega
      · cases hv

/-- p3 registers at price 10 000 JKL, governance then lowers the price to 7, p3 shuts down: it gets
back the 10 000 JKL it locked, the escrow again holds exactly the two remaining records, and a
second shutdown fails. -/
def exAfterInit : Option State := initProvider exColl "p3" "https://p3" "" 1000 true
def exAfterShutdown : Option State :=
  exAfterInit.bind (fun s1 => shutdownProvider { s1 with params := { s1.params with collateralPrice := 7 } } "p3")

example : exAfterInit.map (fun s => (bal s.bank "p3" "ujkl", bal s.bank "coll" "ujkl", AMap.get s.collateral "p3"))
    = some (10000000000, 22500000000, some 10000000000) := by decide
example : exAfterShutdown.map (fun s => (bal s.bank "p3" "ujkl", bal s.bank "coll" "ujkl", s.collateral, s.params.collateralPrice))
    = some (20000000000, 12500000000, [("p1", 10000000000), ("p2", 2500000000)], 7) := by decide
example : exAfterShutdown.bind (fun s => shutdownProvider s "p3") = none := by decide
/-- a non-provider cannot withdraw anything -/
example : shutdownProvider exColl "mallory" = none := by decide


/-- a history with all three kinds of events: registration, a reward block that releases from the
gauge, a price change, shutdown -/
def exHistory : List Event :=
  [.msg 99 400000000 (.initProvider "p3" "https://p3" "" 1000 true),
   .block 100 500000000,
   .setParams { exParams15 with collateralPrice := 7 },
   .msg 101 600000000 (.shutdownProvider "p3")]

/-- no event of it is signed by the escrow account (the block's successor state is not evaluated:
`signedOk` of a non-message event is `True`, and the last message is judged below on `exHistory'`) -/
example : (Event.msg 99 400000000 (.initProvider "p3" "https://p3" "" 1000 true)).signedOk exColl := by
  simp only [Event.signedOk, Op.creator]; decide

/-- the same history without the block (whose prover sort is defined by well-founded recursion and
does not reduce in the kernel), evaluated -/
def exHistory' : List Event :=
  [.msg 99 400000000 (.initProvider "p3" "https://p3" "" 1000 true),
   .setParams { exParams15 with collateralPrice := 7 },
   .msg 101 600000000 (.shutdownProvider "p3")]

/-- its messages are not signed by the escrow account, so the history theorem applies to it -/
theorem exHistory'_signed : signedAlong exColl exHistory' := by
  simp only [signedAlong, exHistory', Event.signedOk, Op.creator]
  refine ⟨by decide, trivial, by decide, trivial⟩

example : CollInv (run exColl exHistory') :=
  C15_escrow_invariant exHistory' exColl exColl_inv exHistory'_signed

example : (bal (run exColl exHistory').bank "coll" "ujkl", bal (run exColl exHistory').bank "p3" "ujkl",
    (run exColl exHistory').collateral)
    = (12500000000, 20000000000, [("p1", 10000000000), ("p2", 2500000000)]) := by decide

end Canine.Storage
