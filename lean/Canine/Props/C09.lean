/-
C09 — Bid escrow is conserved: the name-service module account always holds exactly the sum of
all open bids; cancelling refunds exactly what was escrowed, accepting pays the owner exactly that
amount and removes the bid; registrations and purchases leave no residue.
-/
import Canine.Proofs.Rns
import Canine.Proofs.QueryStorage
import Canine.Query.Rns
import Canine.Generated.KeyFacts
namespace Canine.Rns
open Bank

/-- The invariant of C09 (with the configuration facts it rests on: the module account is a
blocked recipient — `app.BlockedAddrs` — and is not the protocol-liquidity account). -/
structure EscrowInv (s : State) : Prop where
  wf : AMap.WF s.bids
  modBlocked : s.moduleAcc ∈ s.blocked
  polNe : s.polAcc ≠ s.moduleAcc
  escrow : ∀ d, bal s.bank s.moduleAcc d = escrowed d s

/-- One step: every message of the module (signed by anyone but the module account itself, which
has no key) preserves "module balance = Σ open bids", for every denomination. -/
theorem C09_step_preserves_escrow (s s' : State) (h : Int) (op : Op)
    (hinv : EscrowInv s) (hc : acct s op.creator ≠ some s.moduleAcc) (hstep : step s h op = some s') :
    EscrowInv s' := by
  obtain ⟨wf, mb, pn, esc⟩ := hinv
  obtain ⟨cc, -, hcc, hstep⟩ := step_some hstep
  have hcm : cc ≠ s.moduleAcc := by
    intro e; apply hc; rw [hcc, e]
  cases op with
  | register c raw n dta y p =>
    simp only [handle, register, bind, Option.bind_eq_some_iff, req_eq_some] at hstep
    obtain ⟨⟨nm, tld⟩, -, cost, -, _, -, ex, -, b1, hb1, b2, hb2, hs⟩ := hstep
    simp only [Option.some.injEq] at hs
    have hcfg : s'.bids = s.bids ∧ s'.moduleAcc = s.moduleAcc ∧ s'.blocked = s.blocked ∧
        s'.polAcc = s.polAcc ∧ s'.bank = b2 := by
      subst hs; unfold setPrimaryIf; split <;> simp
    obtain ⟨e1, e2, e3, e4, e5⟩ := hcfg
    refine ⟨by rw [e1]; exact wf, by rw [e2, e3]; exact mb, by rw [e2, e4]; exact pn, ?_⟩
    intro d
    rw [e5, e2]
    have h2 := sendFromModule_bal hb2 s.moduleAcc d
    have h1 := bal_send hb1 s.moduleAcc d
    simp only [pn, hcm, if_false, if_true] at h1 h2
    simp only [escrowed, e1]
    rw [h2, h1, esc d]; simp [escrowed]
  | list c raw n pr p =>
    simp only [handle, list, bind, Option.bind_eq_some_iff, req_eq_some] at hstep
    obtain ⟨_, -, ⟨nm, tld⟩, -, w, -, _, -, _, -, _, -, hs⟩ := hstep
    simp only [Option.some.injEq] at hs; subst hs
    exact ⟨wf, mb, pn, esc⟩
  | delist c raw n =>
    simp only [handle, delist, bind, Option.bind_eq_some_iff, req_eq_some] at hstep
    obtain ⟨sale, -, ⟨nm, tld⟩, -, w, -, _, -, _, -, hs⟩ := hstep
    simp only [Option.some.injEq] at hs; subst hs
    exact ⟨wf, mb, pn, esc⟩
  | buy c raw n =>
    simp only [handle, buy, bind, Option.bind_eq_some_iff, req_eq_some] at hstep
    obtain ⟨sale, -, ⟨nm, tld⟩, -, w, -, _, -, _, -, _, -, seller, hseller, pr, -, coins, -, b1, hb1, b2, hb2, hs⟩ := hstep
    simp only [Option.some.injEq] at hs; subst hs
    refine ⟨wf, mb, pn, ?_⟩
    intro d
    have h2 := sendFromModule_bal hb2 s.moduleAcc d
    have hne := sendFromModule_ne hb2 mb
    have h1 := bal_send hb1 s.moduleAcc d
    simp only [hne, hcm, if_false, if_true] at h1 h2
    show bal b2 s.moduleAcc d = escrowed d s
    rw [h2, h1, esc d]; omega
  | bid c raw n pr p =>
    simp only [handle, bid, bind, Option.bind_eq_some_iff] at hstep
    obtain ⟨coins, hp, b0, hb0, b1, hb1, hs⟩ := hstep
    simp only [Option.some.injEq] at hs; subst hs
    refine ⟨AMap.wf_set _ _ wf, mb, pn, ?_⟩
    intro d
    have h1 := bal_send hb1 s.moduleAcc d
    simp only [hcm, if_false, if_true] at h1
    show bal b1 s.moduleAcc d = AMap.sumBy (bidAmt d) (AMap.set s.bids (cc ++ n) _)
    rw [AMap.sumBy_set _ _ _ wf, h1]
    unfold refundOld at hb0
    cases hg : AMap.get s.bids (cc ++ n) with
    | none =>
      simp only [hg, Option.some.injEq] at hb0; subst hb0
      simp [bidAmt, hp, esc d, escrowed]
    | some old =>
      simp only [hg, Option.bind_eq_some_iff] at hb0
      obtain ⟨ob, hob, oc, hoc, hsend⟩ := hb0
      have h0 := sendFromModule_bal hsend s.moduleAcc d
      have hne := sendFromModule_ne hsend mb
      simp only [hne, if_false, if_true] at h0
      rw [h0, esc d]
      simp [bidAmt, hp, hoc, escrowed]
  | cancelBid c raw n =>
    simp only [handle, cancelBid, bind, Option.bind_eq_some_iff] at hstep
    obtain ⟨b, hb, coins, hcoins, b1, hb1, hs⟩ := hstep
    simp only [Option.some.injEq] at hs; subst hs
    refine ⟨AMap.wf_erase _ wf, mb, pn, ?_⟩
    intro d
    have h1 := sendFromModule_bal hb1 s.moduleAcc d
    have hne := sendFromModule_ne hb1 mb
    simp only [hne, if_false, if_true] at h1
    show bal b1 s.moduleAcc d = AMap.sumBy (bidAmt d) (AMap.erase s.bids (c ++ n))
    rw [AMap.sumBy_erase _ _ wf, h1, esc d, hb]
    simp [bidAmt, hcoins, escrowed]
  | acceptBid c raw n bidder =>
    simp only [handle, acceptBid, bind, Option.bind_eq_some_iff, req_eq_some] at hstep
    obtain ⟨⟨nm, tld⟩, -, w, -, _, -, _, -, _, -, b, hb, coins, hcoins, b1, hb1, hs⟩ := hstep
    simp only [Option.some.injEq] at hs; subst hs
    refine ⟨AMap.wf_erase _ wf, mb, pn, ?_⟩
    intro d
    have h1 := sendFromModule_bal hb1 s.moduleAcc d
    have hne := sendFromModule_ne hb1 mb
    simp only [hne, if_false, if_true] at h1
    show bal b1 s.moduleAcc d = AMap.sumBy (bidAmt d) (AMap.erase s.bids (bidder ++ n))
    rw [AMap.sumBy_erase _ _ wf, h1, esc d, hb]
    simp [bidAmt, hcoins, escrowed]
  | transfer c raw n r =>
    simp only [handle, transfer, bind, Option.bind_eq_some_iff, req_eq_some] at hstep
    obtain ⟨⟨nm, tld⟩, -, w, -, _, -, _, -, _, -, hs⟩ := hstep
    simp only [Option.some.injEq] at hs; subst hs
    exact ⟨wf, mb, pn, esc⟩
  | update c raw n dta =>
    simp only [handle, update, bind, Option.bind_eq_some_iff, req_eq_some] at hstep
    obtain ⟨⟨nm, tld⟩, -, w, -, _, -, _, -, hs⟩ := hstep
    simp only [Option.some.injEq] at hs; subst hs
    exact ⟨wf, mb, pn, esc⟩
  | addRecord c raw n r rl v dta =>
    simp only [handle, addRecord, bind, Option.bind_eq_some_iff, req_eq_some] at hstep
    obtain ⟨⟨nm, tld⟩, -, w, -, _, -, _, -, _, -, _, -, hs⟩ := hstep
    simp only [Option.some.injEq] at hs; subst hs
    exact ⟨wf, mb, pn, esc⟩
  | delRecord c raw n =>
    simp only [handle, delRecord, bind, Option.bind_eq_some_iff, req_eq_some] at hstep
    obtain ⟨⟨nm, tld⟩, -, ⟨sub, n2⟩, -, w, -, _, -, _, -, _, -, hs⟩ := hstep
    simp only [Option.some.injEq] at hs; subst hs
    exact ⟨wf, mb, pn, esc⟩
  | init c g =>
    simp only [handle, init, bind, Option.bind_eq_some_iff, req_eq_some] at hstep
    obtain ⟨_, -, _, -, _, -, _, -, hs⟩ := hstep
    simp only [Option.some.injEq] at hs; subst hs
    exact ⟨wf, mb, pn, esc⟩
  | makePrimary c raw n =>
    simp only [handle, makePrimary, bind, Option.bind_eq_some_iff] at hstep
    obtain ⟨⟨nm, tld⟩, -, hs⟩ := hstep
    simp only [Option.some.injEq] at hs; subst hs
    exact ⟨wf, mb, pn, esc⟩

end Canine.Rns

namespace Canine.Rns
open Bank

/-- Every history: from any state satisfying the invariant, after any sequence of messages
(failed ones change nothing), the module account still holds exactly the open bids.  The module
account itself never signs (it has no key). -/
theorem C09_escrow_conserved_along_histories (ops : List (Int × Op)) :
    ∀ (s : State), EscrowInv s → (∀ p ∈ ops, acct s p.2.creator ≠ some s.moduleAcc) →
      EscrowInv (run s ops) := by
  induction ops with
  | nil => intro s hinv _; exact hinv
  | cons p rest ih =>
    intro s hinv hc
    obtain ⟨h, op⟩ := p
    simp only [run]
    have hcfg := stepT_cfg s h op
    apply ih
    · unfold stepT
      cases hs : step s h op with
      | none => simpa using hinv
      | some s' =>
        simp only [Option.getD_some]
        exact C09_step_preserves_escrow s s' h op hinv (hc (h, op) (by simp)) hs
    · intro p hp
      unfold acct
      rw [hcfg.1, hcfg.2.2.2]
      exact hc p (List.mem_cons_of_mem _ hp)

/-- The empty module state (genesis without bids, module account empty) satisfies the invariant. -/
theorem C09_genesis (s : State) (hb : s.bids = []) (hm : s.moduleAcc ∈ s.blocked)
    (hp : s.polAcc ≠ s.moduleAcc) (h0 : ∀ d, bal s.bank s.moduleAcc d = 0) : EscrowInv s :=
  ⟨by rw [hb]; simp [AMap.WF, AMap.keys], hm, hp, by intro d; rw [h0 d]; simp [escrowed, hb, AMap.sumBy]⟩

/-- Cancelling returns to the signer's account exactly what the bid (stored under the signer's
address string as sent) holds, and removes the bid. -/
theorem C09_cancel_refunds_exactly (s s' : State) (h : Int) (c raw n : String)
    (hm : s.moduleAcc ∈ s.blocked) (hstep : step s h (.cancelBid c raw n) = some s') :
    ∃ cc b, acct s c = some cc ∧ AMap.get s.bids (c ++ n) = some b ∧ AMap.get s'.bids (c ++ n) = none ∧
      ∀ d, bal s'.bank cc d = bal s.bank cc d + bidAmt d b := by
  obtain ⟨cc, -, hcc, hstep⟩ := step_some hstep
  simp only [handle, cancelBid, bind, Option.bind_eq_some_iff] at hstep
  obtain ⟨b, hb, coins, hcoins, b1, hb1, hs⟩ := hstep
  simp only [Option.some.injEq] at hs; subst hs
  refine ⟨cc, b, hcc, hb, by simp, ?_⟩
  intro d
  have h1 := sendFromModule_bal hb1 cc d
  have hne := sendFromModule_ne hb1 hm
  have hne' : ¬ s.moduleAcc = cc := fun e => hne e.symm
  simp only [hne', if_false, if_true] at h1
  show bal b1 cc d = _
  rw [h1]; simp [bidAmt, hcoins]

/-- Accepting pays the (signing) owner's account exactly what the bid holds and removes the bid. -/
theorem C09_accept_pays_owner_exactly (s s' : State) (h : Int) (c raw n bidder : String)
    (hm : s.moduleAcc ∈ s.blocked) (hstep : step s h (.acceptBid c raw n bidder) = some s') :
    ∃ cc b, acct s c = some cc ∧ AMap.get s.bids (bidder ++ n) = some b ∧
      AMap.get s'.bids (bidder ++ n) = none ∧
      ∀ d, bal s'.bank cc d = bal s.bank cc d + bidAmt d b := by
  obtain ⟨cc, -, hcc, hstep⟩ := step_some hstep
  simp only [handle, acceptBid, bind, Option.bind_eq_some_iff, req_eq_some] at hstep
  obtain ⟨⟨nm, tld⟩, -, w, -, _, -, _, -, _, -, b, hb, coins, hcoins, b1, hb1, hs⟩ := hstep
  simp only [Option.some.injEq] at hs; subst hs
  refine ⟨cc, b, hcc, hb, by simp, ?_⟩
  intro d
  have h1 := sendFromModule_bal hb1 cc d
  have hne := sendFromModule_ne hb1 hm
  have hne' : ¬ s.moduleAcc = cc := fun e => hne e.symm
  simp only [hne', if_false, if_true] at h1
  show bal b1 cc d = _
  rw [h1]; simp [bidAmt, hcoins]

/-- A repeated bid by the same account on the same name: the bidder's balance moves by exactly
(old escrow − new escrow), i.e. the replaced bid is refunded in full. -/
theorem C09_rebid_refunds_previous (s s' : State) (h : Int) (c raw n pr : String) (p : Option Coins)
    (cc : String) (hcc : acct s c = some cc)
    (old : BidRec) (hold : AMap.get s.bids (cc ++ n) = some old) (hob : acct s old.bidder = some cc)
    (hm : s.moduleAcc ∈ s.blocked) (hstep : step s h (.bid c raw n pr p) = some s') :
    ∀ d, bal s'.bank cc d = bal s.bank cc d + bidAmt d old - amt d (p.getD []) := by
  obtain ⟨cc', -, hcc', hstep⟩ := step_some hstep
  simp only [Op.creator] at hcc'
  rw [hcc] at hcc'; cases hcc'
  simp only [handle, bid, bind, Option.bind_eq_some_iff] at hstep
  obtain ⟨coins, hp, b0, hb0, b1, hb1, hs⟩ := hstep
  simp only [Option.some.injEq] at hs; subst hs
  intro d
  unfold refundOld at hb0
  simp only [hold, hob, Option.bind_some, Option.bind_eq_some_iff] at hb0
  obtain ⟨oc, hoc, hsend⟩ := hb0
  have h0 := sendFromModule_bal hsend cc d
  have hne := sendFromModule_ne hsend hm
  have hne' : ¬ s.moduleAcc = cc := fun e => hne e.symm
  have h1 := bal_send hb1 cc d
  simp only [hne', if_false, if_true] at h0 h1
  show bal b1 cc d = _
  rw [h1, h0]; simp [bidAmt, hoc, hp]

/-- Registration and purchase move tokens through the module account without leaving anything
in it (special case of the invariant, stated on its own as the property does). -/
theorem C09_register_and_buy_leave_no_residue (s s' : State) (h : Int) (op : Op)
    (hinv : EscrowInv s) (hc : acct s op.creator ≠ some s.moduleAcc) (hstep : step s h op = some s')
    (hop : (∃ c r n d y p, op = .register c r n d y p) ∨ (∃ c r n, op = .buy c r n)) :
    ∀ d, bal s'.bank s'.moduleAcc d = bal s.bank s.moduleAcc d := by
  intro d
  have hinv' := C09_step_preserves_escrow s s' h op hinv hc hstep
  rw [hinv'.escrow d, hinv.escrow d]
  have hb : s'.bids = s.bids := by
    obtain ⟨cc, -, hcc, hstep⟩ := step_some hstep
    rcases hop with ⟨c, r, n, dd, y, p, rfl⟩ | ⟨c, r, n, rfl⟩
    · simp only [handle, register, bind, Option.bind_eq_some_iff, req_eq_some] at hstep
      obtain ⟨⟨nm, tld⟩, -, cost, -, _, -, ex, -, b1, hb1, b2, hb2, hs⟩ := hstep
      simp only [Option.some.injEq] at hs
      subst hs; unfold setPrimaryIf; split <;> simp
    · simp only [handle, buy, bind, Option.bind_eq_some_iff, req_eq_some] at hstep
      obtain ⟨sale, -, ⟨nm, tld⟩, -, w, -, _, -, _, -, _, -, seller, hseller, pr, -, coins, -, b1, hb1, b2, hb2, hs⟩ := hstep
      simp only [Option.some.injEq] at hs; subst hs; simp
  simp [escrowed, hb]

/-- Non-vacuity: a concrete state with one open bid of 500 ujkl meets the invariant, and a second
bid of 300 by the same account on the same name succeeds and keeps it. -/
def exState : State :=
  { names := [], forsale := [], inits := [], primary := [],
    bids := [("alice" ++ "foo.jkl", { index := "alicefoo.jkl", name := "foo.jkl", bidder := "alice", priceRaw := "500ujkl", price := some [("ujkl", 500)] })],
    bank := [(("alice", "ujkl"), 1000), (("rnsmod", "ujkl"), 500)],
    blocked := ["rnsmod"], moduleAcc := "rnsmod", polAcc := "pol",
    canon := [("alice", "alice"), ("ALICE", "alice")] }

example : EscrowInv exState := by
  refine ⟨by simp [AMap.WF, AMap.keys, exState], by decide, by decide, ?_⟩
  intro d
  by_cases hd : d = "ujkl"
  · subst hd; decide
  · have h1 : bal exState.bank exState.moduleAcc d = 0 := by
      simp [exState, bal, AMap.get, Ne.symm hd]
    rw [h1]; simp [escrowed, exState, AMap.sumBy, bidAmt, amt]
    intro e; exact absurd e.symm hd

example : (step exState 5 (.bid "alice" "foo.jkl" "foo.jkl" "300ujkl" (some [("ujkl", 300)]))).isSome = true := by
  decide

/-! ## The store keys as they stand in the source (regenerated fact) -/

/-- A bid is identified by bidder ‖ name, a name by its `name.tld` key: the escrow invariant sums over exactly these records.  Fingerprints of the key constructors of x/rns/types/key*.go as the
model was written against them; `Generated.keyFns_rns` is recomputed from the source on every
run (the declarations are listed in Generated/KeyFacts.lean). -/
def C09_expectedKeys : List (String × String) := [
  ("x/rns/types/key_bids.go:var _…", "9f4fce2c5ae85adc"),
  ("x/rns/types/key_bids.go:const BidsKeyPrefix…", "8c36bfcf1d342151"),
  ("x/rns/types/key_bids.go:BidsKey", "8556ba2a0ddcce45"),
  ("x/rns/types/key_forsale.go:var _…", "9f4fce2c5ae85adc"),
  ("x/rns/types/key_forsale.go:const ForsaleKeyPrefix…", "a0cae409589f805c"),
  ("x/rns/types/key_forsale.go:ForsaleKey", "430c9e1c73d46ffe"),
  ("x/rns/types/key_init.go:var _…", "9f4fce2c5ae85adc"),
  ("x/rns/types/key_init.go:const InitKeyPrefix…", "a31cbd45e6f99593"),
  ("x/rns/types/key_init.go:InitKey", "8a3409ef2feaf0ec"),
  ("x/rns/types/key_names.go:var _…", "9f4fce2c5ae85adc"),
  ("x/rns/types/key_names.go:const NamesKeyPrefix…", "96761d5542885872"),
  ("x/rns/types/key_names.go:NamesKey", "2d192e90e18debfc"),
  ("x/rns/types/key_names.go:PrimaryNameKey", "39d23d3a6c18050c"),
  ("x/rns/types/key_whois.go:var _…", "9f4fce2c5ae85adc"),
  ("x/rns/types/key_whois.go:const WhoisKeyPrefix…", "1e0c8b1ecefa40f7"),
  ("x/rns/types/key_whois.go:WhoisKey", "0811970c20d7f2b4"),
  ("x/rns/types/keys.go:const ModuleName…", "816ef172ef11ae9e"),
  ("x/rns/types/keys.go:KeyPrefix", "caccc65e7667915d")]

theorem C09_store_keys_as_modelled : Generated.keyFns_rns = C09_expectedKeys := by decide

/-- **The open bids as clients read them** (`AllBids` through `query.Paginate`): whatever the page
size, following `NextKey` returns every open bid exactly once — the records whose prices the
module account holds (`EscrowInv.escrow`). -/
theorem C09_allBids_lists_every_open_bid (s : State) (limit fuel : Nat)
    (hraw : (s.bids.map (fun kv => Query.rawKey kv.1)).Nodup) (hf : s.bids.length + 1 ≤ fuel) :
    ∃ l, Canine.Query.walk (Query.bidEntries s) limit false fuel none [] = some l ∧ l.Perm (s.bids.map (·.2)) :=
  Canine.Query.walk_entries_perm s.bids Query.rawKey limit fuel hraw hf

/-- the `Bid` query reads the record the handlers maintain -/
theorem C09_bid_query_reads_the_store (s : State) (index : String) :
    Query.run s (.bid index) = (match AMap.get s.bids index with | some b => .bid b | none => .err) := rfl

end Canine.Rns
