/-
C08 — A live name changes owner only with its current owner's consent, who is paid.
Live = registered ∧ height ≤ Expires.  Names are identified as the chain does (store key "name.tld").
-/
import Canine.Proofs.Rns
import Canine.Proofs.RnsRuns
namespace Canine.Rns
open Bank

/-- the canonicalisation table is idempotent: a canonical spelling is its own canonical spelling -/
def CanonOK (s : State) : Prop := ∀ x y, acct s x = some y → acct s y = some y

/-- two address strings denote the same account -/
def SameAcct (s : State) (a b : String) : Prop := ∃ cc, acct s a = some cc ∧ acct s b = some cc

/-- Messages signed by anyone but the owner's account (whatever spelling of an address is used)
leave a live name's record (owner, data, sub-records, expiry) exactly as it was — with the
single exception of a purchase through a listing whose recorded lister is the current owner;
then only owner and data change. -/
theorem C08_non_owner_messages_frame (s s' : State) (h : Int) (op : Op) (key : String) (w : NameRec)
    (hw : AMap.get s.names key = some w) (hlive : h ≤ w.expires) (hcan : CanonOK s)
    (hsig : ¬ SameAcct s op.creator w.value) (hstep : step s h op = some s') :
    AMap.get s'.names key = some w ∨
    (∃ raw n sale, op = .buy op.creator raw n ∧ AMap.get s.forsale n = some sale ∧
        sale.owner = w.value ∧
        AMap.get s'.names key = some { w with value := op.creator, data := "{}" }) := by
  obtain ⟨cc, -, hcc, hstep⟩ := step_some hstep
  -- neither the signer string as sent nor its canonical spelling is the recorded owner string
  have hne : op.creator ≠ w.value := fun e => hsig ⟨cc, hcc, by rw [← e]; exact hcc⟩
  have hne2 : w.value ≠ cc := fun e => hsig ⟨cc, hcc, by rw [e]; exact hcan _ _ hcc⟩
  cases op with
  | register c raw n dta y p =>
    simp only [handle, register, bind, Option.bind_eq_some_iff, req_eq_some] at hstep
    obtain ⟨⟨nm, tld⟩, -, cost, -, _, -, ex, hex, b1, hb1, b2, hb2, hs⟩ := hstep
    simp only [Option.some.injEq] at hs
    left
    have hn : ∃ r, s'.names = AMap.set s.names (nameKey nm tld) r := by
      subst hs; unfold setPrimaryIf; split <;> exact ⟨_, rfl⟩
    obtain ⟨r, hn⟩ := hn
    rw [hn, AMap.get_set]
    split
    · rename_i hk
      rw [hk] at hex
      simp only [regExpiry, hw, hlive, if_true] at hex
      simp [hne2] at hex
    · exact hw
  | list c raw n pr p =>
    simp only [handle, list, bind, Option.bind_eq_some_iff, req_eq_some] at hstep
    obtain ⟨_, -, ⟨nm, tld⟩, -, w2, -, _, -, _, -, _, -, hs⟩ := hstep
    simp only [Option.some.injEq] at hs; subst hs
    left; exact hw
  | delist c raw n =>
    simp only [handle, delist, bind, Option.bind_eq_some_iff, req_eq_some] at hstep
    obtain ⟨sale, -, ⟨nm, tld⟩, -, w2, -, _, -, _, -, hs⟩ := hstep
    simp only [Option.some.injEq] at hs; subst hs
    left; exact hw
  | buy c raw n =>
    simp only [handle, buy, bind, Option.bind_eq_some_iff, req_eq_some] at hstep
    obtain ⟨sale, hsale, ⟨nm, tld⟩, -, w2, hw2, _, -, _, -, _, hown, seller, hseller, pr, -, coins, -, b1, hb1, b2, hb2, hs⟩ := hstep
    simp only [Option.some.injEq] at hs; subst hs
    simp only
    by_cases hk : nameKey nm tld = key
    · right
      rw [hk] at hw2
      rw [hw] at hw2; cases hw2
      refine ⟨raw, n, sale, rfl, hsale, hown.symm, ?_⟩
      simp [hk, Op.creator]
    · left
      rw [AMap.get_set_other _ _ _ _ hk]; exact hw
  | bid c raw n pr p =>
    simp only [handle, bid, bind, Option.bind_eq_some_iff] at hstep
    obtain ⟨coins, hp, b0, hb0, b1, hb1, hs⟩ := hstep
    simp only [Option.some.injEq] at hs; subst hs
    left; exact hw
  | cancelBid c raw n =>
    simp only [handle, cancelBid, bind, Option.bind_eq_some_iff] at hstep
    obtain ⟨b, hb, coins, hcoins, b1, hb1, hs⟩ := hstep
    simp only [Option.some.injEq] at hs; subst hs
    left; exact hw
  | acceptBid c raw n bidder =>
    simp only [handle, acceptBid, bind, Option.bind_eq_some_iff, req_eq_some] at hstep
    obtain ⟨⟨nm, tld⟩, -, w2, hw2, _, -, _, hown, _, -, b, hb, coins, hcoins, b1, hb1, hs⟩ := hstep
    simp only [Option.some.injEq] at hs; subst hs
    left
    simp only
    by_cases hk : nameKey nm tld = key
    · rw [hk, hw] at hw2; cases hw2
      exact absurd hown hne2
    · rw [AMap.get_set_other _ _ _ _ hk]; exact hw
  | transfer c raw n r =>
    simp only [handle, transfer, bind, Option.bind_eq_some_iff, req_eq_some] at hstep
    obtain ⟨⟨nm, tld⟩, -, w2, hw2, _, -, _, hown, _, -, hs⟩ := hstep
    simp only [Option.some.injEq] at hs; subst hs
    left
    simp only
    by_cases hk : nameKey nm tld = key
    · rw [hk, hw] at hw2; cases hw2
      exact absurd hown hne2
    · rw [AMap.get_set_other _ _ _ _ hk]; exact hw
  | update c raw n dta =>
    simp only [handle, update, bind, Option.bind_eq_some_iff, req_eq_some] at hstep
    obtain ⟨⟨nm, tld⟩, -, w2, hw2, _, hown, _, -, hs⟩ := hstep
    simp only [Option.some.injEq] at hs; subst hs
    left
    simp only
    by_cases hk : nameKey nm tld = key
    · rw [hk, hw] at hw2; cases hw2
      exact absurd hown hne2
    · rw [AMap.get_set_other _ _ _ _ hk]; exact hw
  | addRecord c raw n r rl v dta =>
    simp only [handle, addRecord, bind, Option.bind_eq_some_iff, req_eq_some] at hstep
    obtain ⟨⟨nm, tld⟩, -, w2, hw2, _, -, _, hown, _, -, _, -, hs⟩ := hstep
    simp only [Option.some.injEq] at hs; subst hs
    left
    simp only
    by_cases hk : nameKey nm tld = key
    · rw [hk, hw] at hw2; cases hw2
      exact absurd hown hne
    · rw [AMap.get_set_other _ _ _ _ hk]; exact hw
  | delRecord c raw n =>
    simp only [handle, delRecord, bind, Option.bind_eq_some_iff, req_eq_some] at hstep
    obtain ⟨⟨nm, tld⟩, -, ⟨sub, n2⟩, -, w2, hw2, _, -, _, hown, _, -, hs⟩ := hstep
    simp only [Option.some.injEq] at hs; subst hs
    left
    simp only
    by_cases hk : nameKey n2 tld = key
    · rw [hk, hw] at hw2; cases hw2
      exact absurd hown hne
    · rw [AMap.get_set_other _ _ _ _ hk]; exact hw
  | init c g =>
    simp only [handle, init, bind, Option.bind_eq_some_iff, req_eq_some] at hstep
    obtain ⟨_, -, _, -, _, -, _, hnl, hs⟩ := hstep
    simp only [Option.some.injEq] at hs; subst hs
    left
    simp only
    by_cases hk : nameKey g "jkl" = key
    · rw [hk] at hnl
      simp [isLive, hw, hlive] at hnl
    · rw [AMap.get_set_other _ _ _ _ hk]; exact hw
  | makePrimary c raw n =>
    simp only [handle, makePrimary, bind, Option.bind_eq_some_iff] at hstep
    obtain ⟨⟨nm, tld⟩, -, hs⟩ := hstep
    simp only [Option.some.injEq] at hs; subst hs
    left; exact hw

end Canine.Rns

namespace Canine.Rns
open Bank

/-- Whenever the owner string of a live name changes, the message was a transfer or a bid
acceptance signed by the owner's account, or a purchase through a listing recorded in the owner's
name. -/
theorem C08_owner_change_characterisation (s s' : State) (h : Int) (op : Op) (key : String)
    (w w' : NameRec) (hw : AMap.get s.names key = some w) (hlive : h ≤ w.expires) (hcan : CanonOK s)
    (hstep : step s h op = some s') (hw' : AMap.get s'.names key = some w')
    (hchg : w'.value ≠ w.value) :
    (∃ c raw n r, op = .transfer c raw n r ∧ SameAcct s c w.value) ∨
    (∃ c raw n b, op = .acceptBid c raw n b ∧ SameAcct s c w.value) ∨
    (∃ c raw n sale, op = .buy c raw n ∧ c ≠ w.value ∧ AMap.get s.forsale n = some sale ∧
        sale.owner = w.value) := by
  by_cases hc : SameAcct s op.creator w.value
  · -- signed by the owner's account: only transfer / acceptBid / a self-purchase can change the field
    obtain ⟨cc, -, hcc, hstep⟩ := step_some hstep
    cases op with
    | transfer c raw n r => left; exact ⟨c, raw, n, r, rfl, hc⟩
    | acceptBid c raw n b => right; left; exact ⟨c, raw, n, b, rfl, hc⟩
    | register c raw n dta y p =>
      exfalso
      simp only [handle, register, bind, Option.bind_eq_some_iff, req_eq_some] at hstep
      obtain ⟨⟨nm, tld⟩, -, cost, -, _, -, ex, hex, b1, hb1, b2, hb2, hs⟩ := hstep
      simp only [Option.some.injEq] at hs
      have hn : s'.names = AMap.set s.names (nameKey nm tld)
          { name := nm, tld := tld, expires := ex, value := cc, data := dta, locked := 0, subs := [] } := by
        subst hs; unfold setPrimaryIf; split <;> rfl
      rw [hn, AMap.get_set] at hw'
      split at hw'
      · rename_i hk
        simp only [Option.some.injEq] at hw'; subst hw'
        rw [hk] at hex
        simp only [regExpiry, hw, hlive, if_true] at hex
        by_cases e : w.value = cc
        · exact hchg e.symm
        · simp [e] at hex
      · rw [hw] at hw'; cases hw'; exact hchg rfl
    | list c raw n pr p =>
      exfalso
      simp only [handle, list, bind, Option.bind_eq_some_iff, req_eq_some] at hstep
      obtain ⟨_, -, ⟨nm, tld⟩, -, w2, -, _, -, _, -, _, -, hs⟩ := hstep
      simp only [Option.some.injEq] at hs; subst hs
      rw [hw] at hw'; cases hw'; exact hchg rfl
    | delist c raw n =>
      exfalso
      simp only [handle, delist, bind, Option.bind_eq_some_iff, req_eq_some] at hstep
      obtain ⟨sale, -, ⟨nm, tld⟩, -, w2, -, _, -, _, -, hs⟩ := hstep
      simp only [Option.some.injEq] at hs; subst hs
      rw [hw] at hw'; cases hw'; exact hchg rfl
    | buy c raw n =>
      simp only [handle, buy, bind, Option.bind_eq_some_iff, req_eq_some] at hstep
      obtain ⟨sale, hsale, ⟨nm, tld⟩, -, w2, hw2, _, -, _, hnotown, _, hown, seller, hseller, pr, -, coins, -, b1, hb1, b2, hb2, hs⟩ := hstep
      simp only [Option.some.injEq] at hs; subst hs
      simp only at hw'
      by_cases hk : nameKey nm tld = key
      · rw [hk, hw] at hw2; cases hw2
        right; right
        exact ⟨c, raw, n, sale, rfl, fun e => hnotown e.symm, hsale, hown.symm⟩
      · rw [AMap.get_set_other _ _ _ _ hk, hw] at hw'; cases hw'; exact absurd rfl hchg
    | bid c raw n pr p =>
      exfalso
      simp only [handle, bid, bind, Option.bind_eq_some_iff] at hstep
      obtain ⟨coins, hp, b0, hb0, b1, hb1, hs⟩ := hstep
      simp only [Option.some.injEq] at hs; subst hs
      rw [hw] at hw'; cases hw'; exact hchg rfl
    | cancelBid c raw n =>
      exfalso
      simp only [handle, cancelBid, bind, Option.bind_eq_some_iff] at hstep
      obtain ⟨b, hb, coins, hcoins, b1, hb1, hs⟩ := hstep
      simp only [Option.some.injEq] at hs; subst hs
      rw [hw] at hw'; cases hw'; exact hchg rfl
    | update c raw n dta =>
      exfalso
      simp only [handle, update, bind, Option.bind_eq_some_iff, req_eq_some] at hstep
      obtain ⟨⟨nm, tld⟩, -, w2, hw2, _, hown, _, -, hs⟩ := hstep
      simp only [Option.some.injEq] at hs; subst hs
      simp only at hw'
      by_cases hk : nameKey nm tld = key
      · rw [hk, hw] at hw2; cases hw2
        rw [hk, AMap.get_set_self] at hw'
        simp only [Option.some.injEq] at hw'; subst hw'; exact hchg rfl
      · rw [AMap.get_set_other _ _ _ _ hk, hw] at hw'; cases hw'; exact hchg rfl
    | addRecord c raw n r rl v dta =>
      exfalso
      simp only [handle, addRecord, bind, Option.bind_eq_some_iff, req_eq_some] at hstep
      obtain ⟨⟨nm, tld⟩, -, w2, hw2, _, -, _, hown, _, -, _, -, hs⟩ := hstep
      simp only [Option.some.injEq] at hs; subst hs
      simp only at hw'
      by_cases hk : nameKey nm tld = key
      · rw [hk, hw] at hw2; cases hw2
        rw [hk, AMap.get_set_self] at hw'
        simp only [Option.some.injEq] at hw'; subst hw'; exact hchg rfl
      · rw [AMap.get_set_other _ _ _ _ hk, hw] at hw'; cases hw'; exact hchg rfl
    | delRecord c raw n =>
      exfalso
      simp only [handle, delRecord, bind, Option.bind_eq_some_iff, req_eq_some] at hstep
      obtain ⟨⟨nm, tld⟩, -, ⟨sub, n2⟩, -, w2, hw2, _, -, _, hown, _, -, hs⟩ := hstep
      simp only [Option.some.injEq] at hs; subst hs
      simp only at hw'
      by_cases hk : nameKey n2 tld = key
      · rw [hk, hw] at hw2; cases hw2
        rw [hk, AMap.get_set_self] at hw'
        simp only [Option.some.injEq] at hw'; subst hw'; exact hchg rfl
      · rw [AMap.get_set_other _ _ _ _ hk, hw] at hw'; cases hw'; exact hchg rfl
    | init c g =>
      exfalso
      simp only [handle, init, bind, Option.bind_eq_some_iff, req_eq_some] at hstep
      obtain ⟨_, -, _, -, _, -, _, hnl, hs⟩ := hstep
      simp only [Option.some.injEq] at hs; subst hs
      simp only at hw'
      by_cases hk : nameKey g "jkl" = key
      · rw [hk] at hnl; simp [isLive, hw, hlive] at hnl
      · rw [AMap.get_set_other _ _ _ _ hk, hw] at hw'; cases hw'; exact hchg rfl
    | makePrimary c raw n =>
      exfalso
      simp only [handle, makePrimary, bind, Option.bind_eq_some_iff] at hstep
      obtain ⟨⟨nm, tld⟩, -, hs⟩ := hstep
      simp only [Option.some.injEq] at hs; subst hs
      rw [hw] at hw'; cases hw'; exact hchg rfl
  · -- signed by another account: only a purchase through the owner's listing
    have hne : op.creator ≠ w.value := by
      obtain ⟨cc, -, hcc, -⟩ := step_some hstep
      exact fun e => hc ⟨cc, hcc, by rw [← e]; exact hcc⟩
    rcases C08_non_owner_messages_frame s s' h op key w hw hlive hcan hc hstep with hsame | ⟨raw, n, sale, hop, hsale, hown, -⟩
    · rw [hsame] at hw'; cases hw'; exact absurd rfl hchg
    · right; right; exact ⟨op.creator, raw, n, sale, hop, hne, hsale, hown⟩

/-- A purchase pays the full listed price to the account that owned the name immediately before
(the account `seller` that the recorded owner string denotes), and debits the buyer's account
`cc` by the same amount; the new record carries the signer string as sent. -/
theorem C08_buy_pays_previous_owner (s s' : State) (h : Int) (c raw n : String)
    (hm : s.moduleAcc ∈ s.blocked)
    (hstep : step s h (.buy c raw n) = some s') :
    ∃ cc seller sale nm tld w dn a coins, acct s c = some cc ∧ acct s w.value = some seller ∧
      AMap.get s.forsale n = some sale ∧ nameAndTLD n = some (nm, tld) ∧
      AMap.get s.names (nameKey nm tld) = some w ∧ h ≤ w.expires ∧ sale.owner = w.value ∧ w.value ≠ c ∧
      sale.price = some (dn, a) ∧ newCoins dn a = some coins ∧
      AMap.get s'.names (nameKey nm tld) = some { w with value := c, data := "{}" } ∧
      (seller ≠ cc → cc ≠ s.moduleAcc →
        (∀ d, bal s'.bank seller d = bal s.bank seller d + amt d coins) ∧
        (∀ d, bal s'.bank cc d = bal s.bank cc d - amt d coins)) := by
  obtain ⟨cc, -, hcc, hstep⟩ := step_some hstep
  simp only [Op.creator] at hcc
  simp only [handle, buy, bind, Option.bind_eq_some_iff, req_eq_some] at hstep
  obtain ⟨sale, hsale, ⟨nm, tld⟩, hnt, w, hw, _, hlive, _, hnotown, _, hown, seller, hseller, ⟨dn, a⟩, hpr, coins, hcoins, b1, hb1, b2, hb2, hs⟩ := hstep
  simp only [Option.some.injEq] at hs; subst hs
  refine ⟨cc, seller, sale, nm, tld, w, dn, a, coins, hcc, by rw [hown]; exact hseller, hsale, hnt, hw,
    hlive, hown.symm, hnotown, hpr, hcoins, by simp, ?_⟩
  intro hsc hcm
  have hne := sendFromModule_ne hb2 hm
  refine ⟨?_, ?_⟩
  · intro d
    have h2 := sendFromModule_bal hb2 seller d
    have h1 := bal_send hb1 seller d
    have e1 : ¬ s.moduleAcc = seller := fun e => hne e.symm
    have e2 : ¬ cc = seller := fun e => hsc e.symm
    simp only [e1, e2, if_false, if_true] at h1 h2
    show bal b2 seller d = _
    rw [h2, h1]; omega
  · intro d
    have h2 := sendFromModule_bal hb2 cc d
    have h1 := bal_send hb1 cc d
    have e1 : ¬ s.moduleAcc = cc := fun e => hcm e.symm
    have e2 : ¬ seller = cc := hsc
    simp only [e1, e2, if_false, if_true] at h1 h2
    show bal b2 cc d = _
    rw [h2, h1]; omega

/-- Listings are only ever written by `List`, in the name of its signer: if a listing is present
after a step and was not there (identically) before, the step was `List` signed by the listing's
recorded owner, who at that moment owned the live name. -/
theorem C08_listing_created_only_by_its_owner (s s' : State) (h : Int) (op : Op) (k : String)
    (l : Listing) (hl : AMap.get s'.forsale k = some l) (hnew : AMap.get s.forsale k ≠ some l)
    (hstep : step s h op = some s') :
    ∃ raw pr p nm tld w, op = .list l.owner raw k pr p ∧ nameAndTLD k = some (nm, tld) ∧
      AMap.get s.names (nameKey nm tld) = some w ∧ w.value = l.owner ∧ h ≤ w.expires := by
  obtain ⟨cc, -, hcc, hstep⟩ := step_some hstep
  cases op with
  | list c raw n pr p =>
    simp only [handle, list, bind, Option.bind_eq_some_iff, req_eq_some] at hstep
    obtain ⟨_, -, ⟨nm, tld⟩, hnt, w2, hw2, _, hown, _, -, _, hlive, hs⟩ := hstep
    simp only [Option.some.injEq] at hs; subst hs
    simp only at hl
    by_cases hk : n = k
    · subst hk
      rw [AMap.get_set_self] at hl
      simp only [Option.some.injEq] at hl; subst hl
      exact ⟨raw, pr, p, nm, tld, w2, rfl, hnt, hw2, hown, hlive⟩
    · rw [AMap.get_set_other _ _ _ _ hk] at hl; exact absurd hl hnew
  | register c raw n dta y p =>
    exfalso
    simp only [handle, register, bind, Option.bind_eq_some_iff, req_eq_some] at hstep
    obtain ⟨⟨nm, tld⟩, -, cost, -, _, -, ex, hex, b1, hb1, b2, hb2, hs⟩ := hstep
    simp only [Option.some.injEq] at hs
    have : s'.forsale = s.forsale := by subst hs; unfold setPrimaryIf; split <;> rfl
    rw [this] at hl; exact hnew hl
  | delist c raw n =>
    exfalso
    simp only [handle, delist, bind, Option.bind_eq_some_iff, req_eq_some] at hstep
    obtain ⟨sale, -, ⟨nm, tld⟩, -, w2, -, _, -, _, -, hs⟩ := hstep
    simp only [Option.some.injEq] at hs; subst hs
    simp only at hl
    rw [AMap.get_erase] at hl
    split at hl
    · simp at hl
    · exact hnew hl
  | buy c raw n =>
    exfalso
    simp only [handle, buy, bind, Option.bind_eq_some_iff, req_eq_some] at hstep
    obtain ⟨sale, hsale, ⟨nm, tld⟩, -, w2, hw2, _, -, _, -, _, -, seller, hseller, pr, -, coins, -, b1, hb1, b2, hb2, hs⟩ := hstep
    simp only [Option.some.injEq] at hs; subst hs
    simp only at hl
    rw [AMap.get_erase] at hl
    split at hl
    · simp at hl
    · exact hnew hl
  | bid c raw n pr p =>
    exfalso
    simp only [handle, bid, bind, Option.bind_eq_some_iff] at hstep
    obtain ⟨coins, hp, b0, hb0, b1, hb1, hs⟩ := hstep
    simp only [Option.some.injEq] at hs; subst hs; exact hnew hl
  | cancelBid c raw n =>
    exfalso
    simp only [handle, cancelBid, bind, Option.bind_eq_some_iff] at hstep
    obtain ⟨b, hb, coins, hcoins, b1, hb1, hs⟩ := hstep
    simp only [Option.some.injEq] at hs; subst hs; exact hnew hl
  | acceptBid c raw n bidder =>
    exfalso
    simp only [handle, acceptBid, bind, Option.bind_eq_some_iff, req_eq_some] at hstep
    obtain ⟨⟨nm, tld⟩, -, w2, hw2, _, -, _, hown, _, -, b, hb, coins, hcoins, b1, hb1, hs⟩ := hstep
    simp only [Option.some.injEq] at hs; subst hs; exact hnew hl
  | transfer c raw n r =>
    exfalso
    simp only [handle, transfer, bind, Option.bind_eq_some_iff, req_eq_some] at hstep
    obtain ⟨⟨nm, tld⟩, -, w2, hw2, _, -, _, hown, _, -, hs⟩ := hstep
    simp only [Option.some.injEq] at hs; subst hs; exact hnew hl
  | update c raw n dta =>
    exfalso
    simp only [handle, update, bind, Option.bind_eq_some_iff, req_eq_some] at hstep
    obtain ⟨⟨nm, tld⟩, -, w2, hw2, _, hown, _, -, hs⟩ := hstep
    simp only [Option.some.injEq] at hs; subst hs; exact hnew hl
  | addRecord c raw n r rl v dta =>
    exfalso
    simp only [handle, addRecord, bind, Option.bind_eq_some_iff, req_eq_some] at hstep
    obtain ⟨⟨nm, tld⟩, -, w2, hw2, _, -, _, hown, _, -, _, -, hs⟩ := hstep
    simp only [Option.some.injEq] at hs; subst hs; exact hnew hl
  | delRecord c raw n =>
    exfalso
    simp only [handle, delRecord, bind, Option.bind_eq_some_iff, req_eq_some] at hstep
    obtain ⟨⟨nm, tld⟩, -, ⟨sub, n2⟩, -, w2, hw2, _, -, _, hown, _, -, hs⟩ := hstep
    simp only [Option.some.injEq] at hs; subst hs; exact hnew hl
  | init c g =>
    exfalso
    simp only [handle, init, bind, Option.bind_eq_some_iff, req_eq_some] at hstep
    obtain ⟨_, -, _, -, _, -, _, hnl, hs⟩ := hstep
    simp only [Option.some.injEq] at hs; subst hs; exact hnew hl
  | makePrimary c raw n =>
    exfalso
    simp only [handle, makePrimary, bind, Option.bind_eq_some_iff] at hstep
    obtain ⟨⟨nm, tld⟩, -, hs⟩ := hstep
    simp only [Option.some.injEq] at hs; subst hs; exact hnew hl

/-- The pre-fix handler, kept as the regression witness: without the `sale.owner = owner` check a
listing left behind by a transfer lets a buyer take the name while the stale lister is paid. -/
def buyUnfixed (s : State) (h : Int) (creator lname : String) : Option State := do
  let sale ← AMap.get s.forsale lname
  let (n, tld) ← nameAndTLD lname
  let w ← AMap.get s.names (nameKey n tld)
  req (h ≤ w.expires)
  req (w.value ≠ creator)
  let (d, amt) ← sale.price
  let coins ← Bank.newCoins d amt
  let b1 ← Bank.send s.bank creator s.moduleAcc coins
  let b2 ← sendFromModule { s with bank := b1 } sale.owner coins
  some { s with bank := b2, forsale := AMap.erase s.forsale sale.name,
                names := AMap.set s.names (nameKey n tld) { w with value := creator, data := "{}" } }

def staleState : State :=
  { names := [("foo.jkl", { name := "foo", tld := "jkl", expires := 100, value := "bob", data := "{}", locked := 0, subs := [] })],
    forsale := [("foo.jkl", { name := "foo.jkl", owner := "alice", priceRaw := "777ujkl", price := some ("ujkl", 777) })],
    bids := [], inits := [], primary := [],
    bank := [(("carol", "ujkl"), 1000)], blocked := ["rnsmod"], moduleAcc := "rnsmod", polAcc := "pol",
    canon := [("alice", "alice"), ("bob", "bob"), ("carol", "carol"), ("dave", "dave"), ("BOB", "bob")] }

/-- witness: the unfixed handler pays alice (stale lister) and bob (owner) gets nothing -/
example : ((buyUnfixed staleState 5 "carol" "foo.jkl").map
    (fun s => (bal s.bank "alice" "ujkl", bal s.bank "bob" "ujkl"))) = some (777, 0) := by decide
/-- the fixed handler refuses -/
example : step staleState 5 (.buy "carol" "foo.jkl" "foo.jkl") = none := by decide

/-- Non-vacuity of the frame/characterisation hypotheses: a live name, a non-owner message that
succeeds (a bid) and an owner message that moves the name (transfer). -/
example : (step staleState 5 (.bid "carol" "foo.jkl" "foo.jkl" "5ujkl" (some [("ujkl", 5)]))).isSome = true := by decide
example : ((step staleState 5 (.transfer "bob" "foo.jkl" "foo.jkl" "dave")).bind
    (fun s => (AMap.get s.names "foo.jkl").map (·.value))) = some "dave" := by decide

/-- the example state's address table is idempotent, and a differently spelled owner address
(`"BOB"` denotes the account `"bob"`) still counts as the owner: the transfer goes through -/
example : CanonOK staleState := by
  intro x y h
  simp only [acct, staleState, AMap.get] at h ⊢
  repeat' split at h
  all_goals first | (simp at h; subst h; decide) | (simp at h)
example : ((step staleState 5 (.transfer "BOB" "foo.jkl" "foo.jkl" "dave")).bind
    (fun s => (AMap.get s.names "foo.jkl").map (·.value))) = some "dave" := by decide
example : SameAcct staleState "BOB" "bob" := ⟨"bob", by decide, by decide⟩

end Canine.Rns

/-! ## C08 over whole executions

Runs, the ghost (`ListingOrigin`, `ghostStep`, `ghostRun`) and the listing invariant
(`ListingInv`, `CreatedByOwner`) are in `Proofs/RnsRuns.lean`.  A position in a run is a split
`evs = pre ++ (h, op) :: post`: `run s₀ pre` is the state immediately before the event,
`ghostRun s₀ g₀ pre` the ghost at that moment.  None of the statements of this section needs the
heights of the run to be ordered; they hold for every list of events, in particular for every run
(`Mono evs`).  The address table is the same in every state of a run (`acct_run`), so "the account
a string denotes" is written with the initial state `s₀`. -/
namespace Canine.Rns
open Bank

/-- `CanonOK` is the idempotence the run helpers are stated with -/
theorem CanonOK_iff_CanonIdem (s : State) : CanonOK s ↔ CanonIdem s := Iff.rfl

/-- **The listing invariant along runs**: from a state where every stored listing has a recorded
origin that created it as owner of the then live name (e.g. a state without listings,
`listingInv_of_no_listings`), every stored listing of every later state has one.  (Only `List`
writes a listing — `step_forsale_frame`, the run form of `C08_listing_created_only_by_its_owner` —
and it writes the signer string, which it has just compared with the name's owner.) -/
theorem C08_listing_invariant_along_runs (s0 : State) (g0 : Ghost) (hinv : ListingInv s0 g0)
    (evs : List (Int × Op)) : ListingInv (run s0 evs) (ghostRun s0 g0 evs) :=
  listingInv_run hinv evs

/-- **No message but `List` writes a listing** (let alone its `owner` field), at any position of
any run: a listing stored under `k` immediately after an event was stored there, identical,
immediately before — or the event is a successful `List` for `k` signed by the string the listing
names as owner, which was at that moment the owner string of the live name the key refers to. -/
theorem C08_only_list_writes_a_listing_along_runs
    (s0 : State) (pre : List (Int × Op)) (h : Int) (op : Op) (k : String) (l : Listing)
    (hl : AMap.get (run s0 (pre ++ [(h, op)])).forsale k = some l) :
    AMap.get (run s0 pre).forsale k = some l ∨
    (∃ c raw pr p key w, op = .list c raw k pr p ∧ (step (run s0 pre) h op).isSome ∧
        AMap.get (run s0 pre).forsale k = none ∧ l.owner = c ∧
        keyOf k = some key ∧ AMap.get (run s0 pre).names key = some w ∧ w.value = c ∧ h ≤ w.expires) := by
  rw [run_snoc] at hl
  unfold stepT at hl
  cases hs : step (run s0 pre) h op with
  | none => left; simpa [hs] using hl
  | some s' =>
    rw [hs] at hl
    rcases step_forsale_frame hs hl with hold | ⟨c, raw, pr, p, key, w, hop, hnone, hlis, hkey, hw, hown, hlive⟩
    · left; exact hold
    · right; exact ⟨c, raw, pr, p, key, w, hop, by simp, hnone, by rw [hlis], hkey, hw, hown, hlive⟩

/-- the listed price left the account `buyer` and all of it reached the account `seller`
(`seller ≠ buyer`: the owner account really changes; the module account has no key and never buys) -/
def PaidInFull (s s' : State) (sale : Listing) (seller buyer : String) : Prop :=
  ∃ dn a coins, sale.price = some (dn, a) ∧ newCoins dn a = some coins ∧
    (seller ≠ buyer → buyer ≠ s.moduleAcc →
      (∀ d, bal s'.bank seller d = bal s.bank seller d + amt d coins) ∧
      (∀ d, bal s'.bank buyer d = bal s.bank buyer d - amt d coins))

/-- A purchase of the name `key` (record `w` immediately before) by the signer string `c` through
the listing stored under `n`: the listing carries the owner's string, its recorded origin says it was
created by the account `seller`, which is the account owning the name immediately before the
purchase (and owned it, live, when it listed it); the new record carries the buyer string, data
reset, nothing else touched; `seller` is paid the full price by the buyer's account `buyer`. -/
def PurchasedFromOwner (s : State) (g : Ghost) (s' : State) (c n key : String) (w : NameRec)
    (seller buyer : String) : Prop :=
  ∃ sale o, AMap.get s.forsale n = some sale ∧ sale.owner = w.value ∧
    AMap.get g n = some o ∧ CreatedByOwner s sale o ∧ o.account = some seller ∧
    acct s w.value = some seller ∧ acct s c = some buyer ∧
    AMap.get s'.names key = some { w with value := c, data := "{}" } ∧
    PaidInFull s s' sale seller buyer

/-- one purchase, in a state satisfying the listing invariant -/
theorem purchase_from_owner {s s' : State} {g : Ghost} {h : Int} {c raw n : String}
    (hinv : ListingInv s g) (hm : s.moduleAcc ∈ s.blocked)
    (hbuy : step s h (.buy c raw n) = some s') :
    ∃ key w seller buyer, keyOf n = some key ∧ AMap.get s.names key = some w ∧ h ≤ w.expires ∧
      PurchasedFromOwner s g s' c n key w seller buyer := by
  obtain ⟨cc, seller, sale, nm, tld, w, dn, a, coins, hcc, hseller, hsale, hnt, hw, hlive, hso, -, hpr, hcoins,
    hw', hpay⟩ := C08_buy_pays_previous_owner s s' h c raw n hm hbuy
  obtain ⟨o, ho, hcr⟩ := hinv n sale hsale
  refine ⟨nameKey nm tld, w, seller, cc, keyOf_of hnt rfl, hw, hlive, sale, o, hsale, hso, ho, hcr, ?_,
    hseller, hcc, hw', dn, a, coins, hpr, hcoins, hpay⟩
  obtain ⟨-, ⟨a', ha1, ha2⟩, -⟩ := hcr
  rw [hso, hseller] at ha2
  rw [ha1, ha2]

/-- **C08 along runs — the listing clause.**  In every run from a state satisfying the listing
invariant (e.g. one without listings), every successful `buy` — at any position of the run — is
the purchase of a live name through a stored listing that was created by the account owning the
name immediately before the purchase (`PurchasedFromOwner`: the recorded origin of the listing is
that account, which owned the live name when it listed it), and whenever the owner account changes
(`seller ≠ buyer`) that account receives the full price.  So ownership never moves through a
listing created by anybody else, in particular not through a listing left behind by a previous
owner (`C08_stale_listing_never_sells_along_runs`). -/
theorem C08_purchase_only_through_owner_created_listing_along_runs
    (s0 : State) (g0 : Ghost) (evs pre post : List (Int × Op)) (h : Int) (c raw n : String) (s' : State)
    (hsplit : evs = pre ++ (h, .buy c raw n) :: post)
    (hinv : ListingInv s0 g0) (hm : s0.moduleAcc ∈ s0.blocked)
    (hbuy : step (run s0 pre) h (.buy c raw n) = some s') :
    run s0 evs = run s' post ∧
    ∃ key w seller buyer, keyOf n = some key ∧
      AMap.get (run s0 pre).names key = some w ∧ h ≤ w.expires ∧
      PurchasedFromOwner (run s0 pre) (ghostRun s0 g0 pre) s' c n key w seller buyer := by
  refine ⟨?_, ?_⟩
  · rw [hsplit, run_append]; simp [run, stepT, hbuy]
  · have hm' : (run s0 pre).moduleAcc ∈ (run s0 pre).blocked := by
      rw [(run_cfg s0 pre).1, (run_cfg s0 pre).2.2.1]; exact hm
    exact purchase_from_owner (listingInv_run hinv pre) hm' hbuy

/-- **A stale listing never sells the name**: at any position of a run, if the account that created
the stored listing `n` (its recorded origin) is not the account that owns the name now, `buy`
through that listing fails — whoever signs it, whatever the height. -/
theorem C08_stale_listing_never_sells_along_runs
    (s0 : State) (g0 : Ghost) (pre : List (Int × Op)) (h : Int) (c raw n : String)
    (hinv : ListingInv s0 g0) (o : ListingOrigin) (key : String) (w : NameRec)
    (ho : AMap.get (ghostRun s0 g0 pre) n = some o)
    (hkey : keyOf n = some key) (hw : AMap.get (run s0 pre).names key = some w)
    (hstale : o.account ≠ acct s0 w.value) :
    step (run s0 pre) h (.buy c raw n) = none := by
  cases hs : step (run s0 pre) h (.buy c raw n) with
  | none => rfl
  | some s' =>
    exfalso
    obtain ⟨cc, -, -, hh⟩ := step_some hs
    simp only [handle, buy, bind, Option.bind_eq_some_iff, req_eq_some] at hh
    obtain ⟨sale, hsale, ⟨nm, tld⟩, hnt, w2, hw2, _, -, _, -, _, hown, -⟩ := hh
    have hk := keyOf_of hnt rfl
    rw [hkey] at hk; cases hk
    rw [hw] at hw2; cases hw2
    obtain ⟨o', ho', -, ⟨a, ha1, ha2⟩, -⟩ := listingInv_run hinv pre n sale hsale
    rw [ho] at ho'; cases ho'
    apply hstale
    rw [ha1, ← ha2, ← hown, acct_run]

/-- **C08 along runs — the frame clause.**  Take any run, any position in it (`evs = pre ++ (h, op)
:: post`) and any name `key` that is live immediately before the event (record `w`,
`h ≤ w.expires`).  Immediately after the event the name is still registered (record `w'`, expiry
not smaller), and

* if its owner *account* differs, the event is a `transfer` or an `acceptBid` of that name signed
  by a spelling of the owner's account, or a `buy` of that name through a listing created by the
  owner's account, which is paid the full price (`PurchasedFromOwner`, with `seller ≠ buyer`);
* if anything at all in the record differs (owner string, data, sub-records, expiry, lock), the
  event is signed by a spelling of the owner's account — or it is such a purchase, which changes
  the owner string and resets the data and touches nothing else.

Messages signed by anyone else — previous owners, holders of stale listings — leave the record
exactly as it was.  The model's one quirk, as in the Go handler (`name.Value == sender` compares
strings): the owner can "buy" its own listing signing with another spelling of its address; the
owner string changes, the owner account does not, the price goes from the account to itself (see
the `example` below). -/
theorem C08_owner_changes_only_by_consent_along_runs
    (s0 : State) (g0 : Ghost) (evs pre post : List (Int × Op)) (h : Int) (op : Op)
    (hsplit : evs = pre ++ (h, op) :: post)
    (hcan : CanonOK s0) (hinv : ListingInv s0 g0) (hm : s0.moduleAcc ∈ s0.blocked)
    (key : String) (w : NameRec)
    (hw : AMap.get (run s0 pre).names key = some w) (hlive : h ≤ w.expires) :
    run s0 evs = run (run s0 (pre ++ [(h, op)])) post ∧
    ∃ w', AMap.get (run s0 (pre ++ [(h, op)])).names key = some w' ∧ w.expires ≤ w'.expires ∧
      (acct s0 w'.value ≠ acct s0 w.value →
        (∃ c raw n r, op = .transfer c raw n r ∧ keyOf n = some key ∧ SameAcct s0 c w.value) ∨
        (∃ c raw n b, op = .acceptBid c raw n b ∧ keyOf n = some key ∧ SameAcct s0 c w.value) ∨
        (∃ c raw n seller buyer, op = .buy c raw n ∧ keyOf n = some key ∧ seller ≠ buyer ∧
          PurchasedFromOwner (run s0 pre) (ghostRun s0 g0 pre) (run s0 (pre ++ [(h, op)])) c n key w
            seller buyer)) ∧
      (w' ≠ w →
        SameAcct s0 op.creator w.value ∨
        (∃ c raw n seller buyer, op = .buy c raw n ∧ keyOf n = some key ∧
          w' = { w with value := c, data := "{}" } ∧
          PurchasedFromOwner (run s0 pre) (ghostRun s0 g0 pre) (run s0 (pre ++ [(h, op)])) c n key w
            seller buyer)) := by
  refine ⟨by rw [hsplit, ← run_append]; simp, ?_⟩
  rw [run_snoc]
  have hcan' : CanonOK (run s0 pre) := canonIdem_run hcan pre
  have hacct : ∀ x, acct (run s0 pre) x = acct s0 x := acct_run s0 pre
  have hinv' := listingInv_run hinv pre
  have hm' : (run s0 pre).moduleAcc ∈ (run s0 pre).blocked := by
    rw [(run_cfg s0 pre).1, (run_cfg s0 pre).2.2.1]; exact hm
  generalize run s0 pre = s at *
  generalize ghostRun s0 g0 pre = g at *
  -- a signer whose canonical address is the recorded owner string is a spelling of the owner's account
  have hsame : ∀ c, acct s c = some w.value → SameAcct s0 c w.value := by
    intro c hc
    exact ⟨w.value, by rw [← hacct]; exact hc, by rw [← hacct]; exact hcan' _ _ hc⟩
  unfold stepT
  cases hs : step s h op with
  | none =>
    simp only [Option.getD_none]
    exact ⟨w, hw, Int.le_refl _, fun hne => absurd rfl hne, fun hne => absurd rfl hne⟩
  | some s' =>
    simp only [Option.getD_some]
    rcases step_live_name hw hlive hs with h1 | ⟨c, raw, n, sale, hop, hkey, hsale, hso, hcne, h2⟩ |
        ⟨c, raw, n, r, hop, hkey, hc, h3⟩ | ⟨c, raw, n, b, bd, hop, hkey, hc, -, h4⟩ | ⟨w', h5, hv, hle, hsig⟩
    · exact ⟨w, h1, Int.le_refl _, fun hne => absurd rfl hne, fun hne => absurd rfl hne⟩
    · subst hop
      obtain ⟨key', w2, seller, buyer, hkey', hw2, -, hp⟩ := purchase_from_owner hinv' hm' hs
      rw [hkey] at hkey'; cases hkey'
      rw [hw] at hw2; cases hw2
      refine ⟨_, h2, Int.le_refl _, ?_, ?_⟩
      · intro hne
        right; right
        refine ⟨c, raw, n, seller, buyer, rfl, hkey, ?_, hp⟩
        obtain ⟨_, _, -, -, -, -, -, hsl, hby, -⟩ := hp
        intro e
        apply hne
        show acct s0 c = acct s0 w.value
        rw [← hacct c, ← hacct w.value, hsl, hby, e]
      · intro _
        right
        exact ⟨c, raw, n, seller, buyer, rfl, hkey, rfl, hp⟩
    · subst hop
      refine ⟨_, h3, Int.le_refl _, fun _ => Or.inl ⟨c, raw, n, r, rfl, hkey, hsame c hc⟩,
        fun _ => Or.inl (hsame c hc)⟩
    · subst hop
      refine ⟨_, h4, Int.le_refl _, fun _ => Or.inr (Or.inl ⟨c, raw, n, b, rfl, hkey, hsame c hc⟩),
        fun _ => Or.inl (hsame c hc)⟩
    · refine ⟨w', h5, hle, fun hne => absurd (by rw [hv]) hne, fun _ => Or.inl ?_⟩
      rcases hsig with hc | hc
      · exact hsame _ hc
      · obtain ⟨cc, -, hcc, -⟩ := step_some hs
        exact ⟨cc, by rw [← hacct]; exact hcc, by rw [← hacct, ← hc]; exact hcc⟩

end Canine.Rns

/-! ### Non-vacuity on a concrete run -/
namespace Canine.Rns
open Bank

/-- alice owns the live name foo.jkl; nothing is listed -/
def runState : State :=
  { names := [("foo.jkl", { name := "foo", tld := "jkl", expires := 100, value := "alice", data := "{}", locked := 0, subs := [] })],
    forsale := [], bids := [], inits := [], primary := [],
    bank := [(("carol", "ujkl"), 1000)], blocked := ["rnsmod"], moduleAcc := "rnsmod", polAcc := "pol",
    canon := [("alice", "alice"), ("bob", "bob"), ("carol", "carol"), ("BOB", "bob")] }

/-- alice lists, transfers to bob; carol tries the stale listing; bob lists (under the only key left
to him — `GetNameAndTLD` never looks at the separator character, and the key "foo.jkl" is still
occupied by alice's listing, which nobody can remove any more); carol buys from bob. -/
def staleRun : List (Int × Op) :=
  [(1, .list "alice" "foo.jkl" "foo.jkl" "777ujkl" (some ("ujkl", 777))),
   (2, .transfer "alice" "foo.jkl" "foo.jkl" "bob"),
   (3, .buy "carol" "foo.jkl" "foo.jkl"),
   (4, .list "bob" "foo-jkl" "foo-jkl" "500ujkl" (some ("ujkl", 500))),
   (5, .buy "carol" "foo-jkl" "foo-jkl")]

example : Mono staleRun := by decide
example : ListingInv runState [] := listingInv_of_no_listings _ _ rfl
example : runState.moduleAcc ∈ runState.blocked := by decide

/-- after the transfer alice's listing is stale: created by account alice, name owned by bob … -/
example : ((AMap.get (ghostRun runState [] (staleRun.take 2)) "foo.jkl").map (·.account),
           (AMap.get (run runState (staleRun.take 2)).names "foo.jkl").map (·.value))
    = (some (some "alice"), some "bob") := by decide
/-- … and carol's purchase through it fails (as `C08_stale_listing_never_sells_along_runs` says): nobody is paid, bob keeps the name -/
example : step (run runState (staleRun.take 2)) 3 (.buy "carol" "foo.jkl" "foo.jkl") = none := by decide
example : step (run runState (staleRun.take 2)) 3 (.buy "carol" "foo.jkl" "foo.jkl") = none :=
  C08_stale_listing_never_sells_along_runs runState [] (staleRun.take 2) 3 "carol" "foo.jkl" "foo.jkl"
    (listingInv_of_no_listings _ _ rfl)
    { signer := "alice", account := some "alice", height := 1,
      nameThen := some { name := "foo", tld := "jkl", expires := 100, value := "alice", data := "{}", locked := 0, subs := [] } }
    "foo.jkl" { name := "foo", tld := "jkl", expires := 100, value := "bob", data := "{}", locked := 0, subs := [] }
    (by decide) (by decide) (by decide) (by decide)
/-- the purchase through bob's own listing goes through: the hypotheses of
`C08_purchase_only_through_owner_created_listing_along_runs` are met at position 5 of the run … -/
example : (step (run runState (staleRun.take 4)) 5 (.buy "carol" "foo-jkl" "foo-jkl")).isSome = true := by decide
/-- … and at the end carol owns the name, bob (the owner immediately before) has the full 500, alice nothing -/
example : ((AMap.get (run runState staleRun).names "foo.jkl").map (·.value),
           bal (run runState staleRun).bank "bob" "ujkl", bal (run runState staleRun).bank "alice" "ujkl",
           bal (run runState staleRun).bank "carol" "ujkl", bal (run runState staleRun).bank "rnsmod" "ujkl")
    = (some "carol", 500, 0, 500, 0) := by decide
/-- the run theorem instantiated at that position -/
example : ∃ key w seller buyer, keyOf "foo-jkl" = some key ∧
    AMap.get (run runState (staleRun.take 4)).names key = some w ∧ (5 : Int) ≤ w.expires ∧
    PurchasedFromOwner (run runState (staleRun.take 4)) (ghostRun runState [] (staleRun.take 4))
      (run runState staleRun) "carol" "foo-jkl" key w seller buyer :=
  (C08_purchase_only_through_owner_created_listing_along_runs runState [] staleRun (staleRun.take 4) [] 5
    "carol" "foo-jkl" "foo-jkl" (run runState staleRun) rfl (listingInv_of_no_listings _ _ rfl) (by decide)
    (by decide)).2

/-- the hypotheses of `C08_owner_changes_only_by_consent_along_runs` are met at that position too
(name live, table idempotent, no listings at the start): the owner account changes from bob's to
carol's, so the theorem yields the purchase clause -/
theorem runState_canonOK : CanonOK runState := by
  intro x y h
  simp only [acct, runState, AMap.get] at h ⊢
  repeat' split at h
  all_goals first | (simp at h; subst h; decide) | (simp at h)
example : ∃ w', AMap.get (run runState (staleRun.take 4 ++ [(5, .buy "carol" "foo-jkl" "foo-jkl")])).names "foo.jkl" = some w' ∧
    (100 : Int) ≤ w'.expires ∧ w'.value = "carol" := by
  obtain ⟨w', hw', hle, -, -⟩ := (C08_owner_changes_only_by_consent_along_runs runState [] staleRun (staleRun.take 4) [] 5
    (.buy "carol" "foo-jkl" "foo-jkl") rfl runState_canonOK (listingInv_of_no_listings _ _ rfl) (by decide)
    "foo.jkl" { name := "foo", tld := "jkl", expires := 100, value := "bob", data := "{}", locked := 0, subs := [] }
    (by decide) (by decide)).2
  refine ⟨w', hw', hle, ?_⟩
  have : AMap.get (run runState (staleRun.take 4 ++ [(5, .buy "carol" "foo-jkl" "foo-jkl")])).names "foo.jkl"
      = some { name := "foo", tld := "jkl", expires := 100, value := "carol", data := "{}", locked := 0, subs := [] } := by decide
  rw [this] at hw'; cases hw'; rfl

/-- Observation (not part of C08, which is a safety property): the stale listing can never be
removed — alice's `delist` fails ("This listing has expired": she no longer owns the name), bob's
`delist` fails ("You do not own this listing"), and bob cannot list the name under its own key
("Name already listed") — until the name returns to alice. -/
example : step (run runState (staleRun.take 2)) 3 (.delist "alice" "foo.jkl" "foo.jkl") = none ∧
    step (run runState (staleRun.take 2)) 3 (.delist "bob" "foo.jkl" "foo.jkl") = none ∧
    step (run runState (staleRun.take 2)) 3 (.list "bob" "foo.jkl" "foo.jkl" "5ujkl" (some ("ujkl", 5))) = none := by
  decide

/-- The quirk of `Buy` (string comparison `name.Value == sender`): bob, owner and lister, "buys" his
own listing signing as "BOB"; the owner string becomes "BOB", the owner account stays bob's, and
the price goes from bob's account to bob's account. -/
example :
    let s0 : State := { runState with bank := [(("bob", "ujkl"), 1000)] }
    let s1 := run s0 [(2, .transfer "alice" "foo.jkl" "foo.jkl" "bob"),
                      (4, .list "bob" "foo-jkl" "foo-jkl" "500ujkl" (some ("ujkl", 500))),
                      (5, .buy "BOB" "foo-jkl" "foo-jkl")]
    ((AMap.get s1.names "foo.jkl").map (·.value), ((AMap.get s1.names "foo.jkl").bind (fun w => acct s1 w.value)),
      bal s1.bank "bob" "ujkl", s1.forsale) = (some "BOB", some "bob", 1000, []) := by decide

end Canine.Rns
