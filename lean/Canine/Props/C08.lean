/-
C08 — A live name changes owner only with its current owner's consent, who is paid.
Live = registered ∧ height ≤ Expires.  Names are identified as the chain does (store key "name.tld").
-/
import Canine.Proofs.Rns
namespace Canine.Rns
open Bank

/-- the canonicalisation table is idempotent: a canonical spelling is its own canonical spelling -/
def CanonOK (s : State) : Prop := ∀ x y, acct s x = some y → acct s y = some y

/-- two address strings denote the same account -/
def SameAcct (s : State) (a b : String) : Prop := ∃ cc, acct s a = some cc ∧ acct s b = some cc

/-- Messages signed by anyone but the owner's account (whatever spelling of an address is used)
leave a live name's record (owner, data, sub-records, expiry) exactly as it was — with the
single exception of a purchase through a listing whose recorded lister is the current owner;
then only owner and data change. -/
theorem C08_non_owner_messages_frame (s s' : State) (h : Int) (op : Op) (key : String) (w : NameRec)
    (hw : AMap.get s.names key = some w) (hlive : h ≤ w.expires) (hcan : CanonOK s)
    (hsig : ¬ SameAcct s op.creator w.value) (hstep : step s h op = some s') :
    AMap.get s'.names key = some w ∨
    (∃ raw n sale, op = .buy op.creator raw n ∧ AMap.get s.forsale n = some sale ∧
        sale.owner = w.value ∧
        AMap.get s'.names key = some { w with value := op.creator, data := "{}" }) := by
  obtain ⟨cc, -, hcc, hstep⟩ := step_some hstep
  -- neither the signer string as sent nor its canonical spelling is the recorded owner string
  have hne : op.creator ≠ w.value := fun e => hsig ⟨cc, hcc, by rw [← e]; exact hcc⟩
  have hne2 : w.value ≠ cc := fun e => hsig ⟨cc, hcc, by rw [e]; exact hcan _ _ hcc⟩
  cases op with
  | register c raw n dta y p =>
    simp only [handle, register, bind, Option.bind_eq_some_iff, req_eq_some] at hstep
    obtain ⟨⟨nm, tld⟩, -, cost, -, _, -, ex, hex, b1, hb1, b2, hb2, hs⟩ := hstep
    simp only [Option.some.injEq] at hs
    left
    have hn : ∃ r, s'.names = AMap.set s.names (nameKey nm tld) r := by
      subst hs; unfold setPrimaryIf; split <;> exact ⟨_, rfl⟩
    obtain ⟨r, hn⟩ := hn
    rw [hn, AMap.get_set]
    split
    · rename_i hk
      rw [hk] at hex
      simp only [regExpiry, hw, hlive, if_true] at hex
      simp [hne2] at hex
    · exact hw
  | list c raw n pr p =>
    simp only [handle, list, bind, Option.bind_eq_some_iff, req_eq_some] at hstep
    obtain ⟨_, -, ⟨nm, tld⟩, -, w2, -, _, -, _, -, _, -, hs⟩ := hstep
    simp only [Option.some.injEq] at hs; subst hs
    left; exact hw
  | delist c raw n =>
    simp only [handle, delist, bind, Option.bind_eq_some_iff, req_eq_some] at hstep
    obtain ⟨sale, -, ⟨nm, tld⟩, -, w2, -, _, -, _, -, hs⟩ := hstep
    simp only [Option.some.injEq] at hs; subst hs
    left; exact hw
  | buy c raw n =>
    simp only [handle, buy, bind, Option.bind_eq_some_iff, req_eq_some] at hstep
    obtain ⟨sale, hsale, ⟨nm, tld⟩, -, w2, hw2, _, -, _, -, _, hown, seller, hseller, pr, -, coins, -, b1, hb1, b2, hb2, hs⟩ := hstep
    simp only [Option.some.injEq] at hs; subst hs
    simp only
    by_cases hk : nameKey nm tld = key
    · right
      rw [hk] at hw2
      rw [hw] at hw2; cases hw2
      refine ⟨raw, n, sale, rfl, hsale, hown.symm, ?_⟩
      simp [hk, Op.creator]
    · left
      rw [AMap.get_set_other _ _ _ _ hk]; exact hw
  | bid c raw n pr p =>
    simp only [handle, bid, bind, Option.bind_eq_some_iff] at hstep
    obtain ⟨coins, hp, b0, hb0, b1, hb1, hs⟩ := hstep
    simp only [Option.some.injEq] at hs; subst hs
    left; exact hw
  | cancelBid c raw n =>
    simp only [handle, cancelBid, bind, Option.bind_eq_some_iff] at hstep
    obtain ⟨b, hb, coins, hcoins, b1, hb1, hs⟩ := hstep
    simp only [Option.some.injEq] at hs; subst hs
    left; exact hw
  | acceptBid c raw n bidder =>
    simp only [handle, acceptBid, bind, Option.bind_eq_some_iff, req_eq_some] at hstep
    obtain ⟨⟨nm, tld⟩, -, w2, hw2, _, -, _, hown, _, -, b, hb, coins, hcoins, b1, hb1, hs⟩ := hstep
    simp only [Option.some.injEq] at hs; subst hs
    left
    simp only
    by_cases hk : nameKey nm tld = key
    · rw [hk, hw] at hw2; cases hw2
      exact absurd hown hne2
    · rw [AMap.get_set_other _ _ _ _ hk]; exact hw
  | transfer c raw n r =>
    simp only [handle, transfer, bind, Option.bind_eq_some_iff, req_eq_some] at hstep
    obtain ⟨⟨nm, tld⟩, -, w2, hw2, _, -, _, hown, _, -, hs⟩ := hstep
    simp only [Option.some.injEq] at hs; subst hs
    left
    simp only
    by_cases hk : nameKey nm tld = key
    · rw [hk, hw] at hw2; cases hw2
      exact absurd hown hne2
    · rw [AMap.get_set_other _ _ _ _ hk]; exact hw
  | update c raw n dta =>
    simp only [handle, update, bind, Option.bind_eq_some_iff, req_eq_some] at hstep
    obtain ⟨⟨nm, tld⟩, -, w2, hw2, _, hown, _, -, hs⟩ := hstep
    simp only [Option.some.injEq] at hs; subst hs
    left
    simp only
    by_cases hk : nameKey nm tld = key
    · rw [hk, hw] at hw2; cases hw2
      exact absurd hown hne2
    · rw [AMap.get_set_other _ _ _ _ hk]; exact hw
  | addRecord c raw n r rl v dta =>
    simp only [handle, addRecord, bind, Option.bind_eq_some_iff, req_eq_some] at hstep
    obtain ⟨⟨nm, tld⟩, -, w2, hw2, _, -, _, hown, _, -, _, -, hs⟩ := hstep
    simp only [Option.some.injEq] at hs; subst hs
    left
    simp only
    by_cases hk : nameKey nm tld = key
    · rw [hk, hw] at hw2; cases hw2
      exact absurd hown hne
    · rw [AMap.get_set_other _ _ _ _ hk]; exact hw
  | delRecord c raw n =>
    simp only [handle, delRecord, bind, Option.bind_eq_some_iff, req_eq_some] at hstep
    obtain ⟨⟨nm, tld⟩, -, ⟨sub, n2⟩, -, w2, hw2, _, -, _, hown, _, -, hs⟩ := hstep
    simp only [Option.some.injEq] at hs; subst hs
    left
    simp only
    by_cases hk : nameKey n2 tld = key
    · rw [hk, hw] at hw2; cases hw2
      exact absurd hown hne
    · rw [AMap.get_set_other _ _ _ _ hk]; exact hw
  | init c g =>
    simp only [handle, init, bind, Option.bind_eq_some_iff, req_eq_some] at hstep
    obtain ⟨_, -, _, -, _, -, _, hnl, hs⟩ := hstep
    simp only [Option.some.injEq] at hs; subst hs
    left
    simp only
    by_cases hk : nameKey g "jkl" = key
    · rw [hk] at hnl
      simp [isLive, hw, hlive] at hnl
    · rw [AMap.get_set_other _ _ _ _ hk]; exact hw
  | makePrimary c raw n =>
    simp only [handle, makePrimary, bind, Option.bind_eq_some_iff] at hstep
    obtain ⟨⟨nm, tld⟩, -, hs⟩ := hstep
    simp only [Option.some.injEq] at hs; subst hs
    left; exact hw

end Canine.Rns

namespace Canine.Rns
open Bank

/-- Whenever the owner string of a live name changes, the message was a transfer or a bid
acceptance signed by the owner's account, or a purchase through a listing recorded in the owner's
name. -/
theorem C08_owner_change_characterisation (s s' : State) (h : Int) (op : Op) (key : String)
    (w w' : NameRec) (hw : AMap.get s.names key = some w) (hlive : h ≤ w.expires) (hcan : CanonOK s)
    (hstep : step s h op = some s') (hw' : AMap.get s'.names key = some w')
    (hchg : w'.value ≠ w.value) :
    (∃ c raw n r, op = .transfer c raw n r ∧ SameAcct s c w.value) ∨
    (∃ c raw n b, op = .acceptBid c raw n b ∧ SameAcct s c w.value) ∨
    (∃ c raw n sale, op = .buy c raw n ∧ c ≠ w.value ∧ AMap.get s.forsale n = some sale ∧
        sale.owner = w.value) := by
  by_cases hc : SameAcct s op.creator w.value
  · -- signed by the owner's account: only transfer / acceptBid / a self-purchase can change the field
    obtain ⟨cc, -, hcc, hstep⟩ := step_some hstep
    cases op with
    | transfer c raw n r => left; exact ⟨c, raw, n, r, rfl, hc⟩
    | acceptBid c raw n b => right; left; exact ⟨c, raw, n, b, rfl, hc⟩
    | register c raw n dta y p =>
      exfalso
      simp only [handle, register, bind, Option.bind_eq_some_iff, req_eq_some] at hstep
      obtain ⟨⟨nm, tld⟩, -, cost, -, _, -, ex, hex, b1, hb1, b2, hb2, hs⟩ := hstep
      simp only [Option.some.injEq] at hs
      have hn : s'.names = AMap.set s.names (nameKey nm tld)
          { name := nm, tld := tld, expires := ex, value := cc, data := dta, locked := 0, subs := [] } := by
        subst hs; unfold setPrimaryIf; split <;> rfl
      rw [hn, AMap.get_set] at hw'
      split at hw'
      · rename_i hk
        simp only [Option.some.injEq] at hw'; subst hw'
        rw [hk] at hex
        simp only [regExpiry, hw, hlive, if_true] at hex
        by_cases e : w.value = cc
        · exact hchg e.symm
        · simp [e] at hex
      · rw [hw] at hw'; cases hw'; exact hchg rfl
    | list c raw n pr p =>
      exfalso
      simp only [handle, list, bind, Option.bind_eq_some_iff, req_eq_some] at hstep
      obtain ⟨_, -, ⟨nm, tld⟩, -, w2, -, _, -, _, -, _, -, hs⟩ := hstep
      simp only [Option.some.injEq] at hs; subst hs
      rw [hw] at hw'; cases hw'; exact hchg rfl
    | delist c raw n =>
      exfalso
      simp only [handle, delist, bind, Option.bind_eq_some_iff, req_eq_some] at hstep
      obtain ⟨sale, -, ⟨nm, tld⟩, -, w2, -, _, -, _, -, hs⟩ := hstep
      simp only [Option.some.injEq] at hs; subst hs
      rw [hw] at hw'; cases hw'; exact hchg rfl
    | buy c raw n =>
      simp only [handle, buy, bind, Option.bind_eq_some_iff, req_eq_some] at hstep
      obtain ⟨sale, hsale, ⟨nm, tld⟩, -, w2, hw2, _, -, _, hnotown, _, hown, seller, hseller, pr, -, coins, -, b1, hb1, b2, hb2, hs⟩ := hstep
      simp only [Option.some.injEq] at hs; subst hs
      simp only at hw'
      by_cases hk : nameKey nm tld = key
      · rw [hk, hw] at hw2; cases hw2
        right; right
        exact ⟨c, raw, n, sale, rfl, fun e => hnotown e.symm, hsale, hown.symm⟩
      · rw [AMap.get_set_other _ _ _ _ hk, hw] at hw'; cases hw'; exact absurd rfl hchg
    | bid c raw n pr p =>
      exfalso
      simp only [handle, bid, bind, Option.bind_eq_some_iff] at hstep
      obtain ⟨coins, hp, b0, hb0, b1, hb1, hs⟩ := hstep
      simp only [Option.some.injEq] at hs; subst hs
      rw [hw] at hw'; cases hw'; exact hchg rfl
    | cancelBid c raw n =>
      exfalso
      simp only [handle, cancelBid, bind, Option.bind_eq_some_iff] at hstep
      obtain ⟨b, hb, coins, hcoins, b1, hb1, hs⟩ := hstep
      simp only [Option.some.injEq] at hs; subst hs
      rw [hw] at hw'; cases hw'; exact hchg rfl
    | update c raw n dta =>
      exfalso
      simp only [handle, update, bind, Option.bind_eq_some_iff, req_eq_some] at hstep
      obtain ⟨⟨nm, tld⟩, -, w2, hw2, _, hown, _, -, hs⟩ := hstep
      simp only [Option.some.injEq] at hs; subst hs
      simp only at hw'
      by_cases hk : nameKey nm tld = key
      · rw [hk, hw] at hw2; cases hw2
        rw [hk, AMap.get_set_self] at hw'
        simp only [Option.some.injEq] at hw'; subst hw'; exact hchg rfl
      · rw [AMap.get_set_other _ _ _ _ hk, hw] at hw'; cases hw'; exact hchg rfl
    | addRecord c raw n r rl v dta =>
      exfalso
      simp only [handle, addRecord, bind, Option.bind_eq_some_iff, req_eq_some] at hstep
      obtain ⟨⟨nm, tld⟩, -, w2, hw2, _, -, _, hown, _, -, _, -, hs⟩ := hstep
      simp only [Option.some.injEq] at hs; subst hs
      simp only at hw'
      by_cases hk : nameKey nm tld = key
      · rw [hk, hw] at hw2; cases hw2
        rw [hk, AMap.get_set_self] at hw'
        simp only [Option.some.injEq] at hw'; subst hw'; exact hchg rfl
      · rw [AMap.get_set_other _ _ _ _ hk, hw] at hw'; cases hw'; exact hchg rfl
    | delRecord c raw n =>
      exfalso
      simp only [handle, delRecord, bind, Option.bind_eq_some_iff, req_eq_some] at hstep
      obtain ⟨⟨nm, tld⟩, -, ⟨sub, n2⟩, -, w2, hw2, _, -, _, hown, _, -, hs⟩ := hstep
      simp only [Option.some.injEq] at hs; subst hs
      simp only at hw'
      by_cases hk : nameKey n2 tld = key
      · rw [hk, hw] at hw2; cases hw2
        rw [hk, AMap.get_set_self] at hw'
        simp only [Option.some.injEq] at hw'; subst hw'; exact hchg rfl
      · rw [AMap.get_set_other _ _ _ _ hk, hw] at hw'; cases hw'; exact hchg rfl
    | init c g =>
      exfalso
      simp only [handle, init, bind, Option.bind_eq_some_iff, req_eq_some] at hstep
      obtain ⟨_, -, _, -, _, -, _, hnl, hs⟩ := hstep
      simp only [Option.some.injEq] at hs; subst hs
      simp only at hw'
      by_cases hk : nameKey g "jkl" = key
      · rw [hk] at hnl; simp [isLive, hw, hlive] at hnl
      · rw [AMap.get_set_other _ _ _ _ hk, hw] at hw'; cases hw'; exact hchg rfl
    | makePrimary c raw n =>
      exfalso
      simp only [handle, makePrimary, bind, Option.bind_eq_some_iff] at hstep
      obtain ⟨⟨nm, tld⟩, -, hs⟩ := hstep
      simp only [Option.some.injEq] at hs; subst hs
      rw [hw] at hw'; cases hw'; exact hchg rfl
  · -- signed by another account: only a purchase through the owner's listing
    have hne : op.creator ≠ w.value := by
      obtain ⟨cc, -, hcc, -⟩ := step_some hstep
      exact fun e => hc ⟨cc, hcc, by rw [← e]; exact hcc⟩
    rcases C08_non_owner_messages_frame s s' h op key w hw hlive hcan hc hstep with hsame | ⟨raw, n, sale, hop, hsale, hown, -⟩
    · rw [hsame] at hw'; cases hw'; exact absurd rfl hchg
    · right; right; exact ⟨op.creator, raw, n, sale, hop, hne, hsale, hown⟩

/-- A purchase pays the full listed price to the account that owned the name immediately before
(the account `seller` that the recorded owner string denotes), and debits the buyer's account
`cc` by the same amount; the new record carries the signer string as sent. -/
theorem C08_buy_pays_previous_owner (s s' : State) (h : Int) (c raw n : String)
    (hm : s.moduleAcc ∈ s.blocked)
    (hstep : step s h (.buy c raw n) = some s') :
    ∃ cc seller sale nm tld w dn a coins, acct s c = some cc ∧ acct s w.value = some seller ∧
      AMap.get s.forsale n = some sale ∧ nameAndTLD n = some (nm, tld) ∧
      AMap.get s.names (nameKey nm tld) = some w ∧ h ≤ w.expires ∧ sale.owner = w.value ∧ w.value ≠ c ∧
      sale.price = some (dn, a) ∧ newCoins dn a = some coins ∧
      AMap.get s'.names (nameKey nm tld) = some { w with value := c, data := "{}" } ∧
      (seller ≠ cc → cc ≠ s.moduleAcc →
        (∀ d, bal s'.bank seller d = bal s.bank seller d + amt d coins) ∧
        (∀ d, bal s'.bank cc d = bal s.bank cc d - amt d coins)) := by
  obtain ⟨cc, -, hcc, hstep⟩ := step_some hstep
  simp only [Op.creator] at hcc
  simp only [handle, buy, bind, Option.bind_eq_some_iff, req_eq_some] at hstep
  obtain ⟨sale, hsale, ⟨nm, tld⟩, hnt, w, hw, _, hlive, _, hnotown, _, hown, seller, hseller, ⟨dn, a⟩, hpr, coins, hcoins, b1, hb1, b2, hb2, hs⟩ := hstep
  simp only [Option.some.injEq] at hs; subst hs
  refine ⟨cc, seller, sale, nm, tld, w, dn, a, coins, hcc, by rw [hown]; exact hseller, hsale, hnt, hw,
    hlive, hown.symm, hnotown, hpr, hcoins, by simp, ?_⟩
  intro hsc hcm
  have hne := sendFromModule_ne hb2 hm
  refine ⟨?_, ?_⟩
  · intro d
    have h2 := sendFromModule_bal hb2 seller d
    have h1 := bal_send hb1 seller d
    have e1 : ¬ s.moduleAcc = seller := fun e => hne e.symm
    have e2 : ¬ cc = seller := fun e => hsc e.symm
    simp only [e1, e2, if_false, if_true] at h1 h2
    show bal b2 seller d = _
    rw [h2, h1]; omega
  · intro d
    have h2 := sendFromModule_bal hb2 cc d
    have h1 := bal_send hb1 cc d
    have e1 : ¬ s.moduleAcc = cc := fun e => hcm e.symm
    have e2 : ¬ seller = cc := hsc
    simp only [e1, e2, if_false, if_true] at h1 h2
    show bal b2 cc d = _
    rw [h2, h1]; omega

/-- Listings are only ever written by `List`, in the name of its signer: if a listing is present
after a step and was not there (identically) before, the step was `List` signed by the listing's
recorded owner, who at that moment owned the live name. -/
theorem C08_listing_created_only_by_its_owner (s s' : State) (h : Int) (op : Op) (k : String)
    (l : Listing) (hl : AMap.get s'.forsale k = some l) (hnew : AMap.get s.forsale k ≠ some l)
    (hstep : step s h op = some s') :
    ∃ raw pr p nm tld w, op = .list l.owner raw k pr p ∧ nameAndTLD k = some (nm, tld) ∧
      AMap.get s.names (nameKey nm tld) = some w ∧ w.value = l.owner ∧ h ≤ w.expires := by
  obtain ⟨cc, -, hcc, hstep⟩ := step_some hstep
  cases op with
  | list c raw n pr p =>
    simp only [handle, list, bind, Option.bind_eq_some_iff, req_eq_some] at hstep
    obtain ⟨_, -, ⟨nm, tld⟩, hnt, w2, hw2, _, hown, _, -, _, hlive, hs⟩ := hstep
    simp only [Option.some.injEq] at hs; subst hs
    simp only at hl
    by_cases hk : n = k
    · subst hk
      rw [AMap.get_set_self] at hl
      simp only [Option.some.injEq] at hl; subst hl
      exact ⟨raw, pr, p, nm, tld, w2, rfl, hnt, hw2, hown, hlive⟩
    · rw [AMap.get_set_other _ _ _ _ hk] at hl; exact absurd hl hnew
  | register c raw n dta y p =>
    exfalso
    simp only [handle, register, bind, Option.bind_eq_some_iff, req_eq_some] at hstep
    obtain ⟨⟨nm, tld⟩, -, cost, -, _, -, ex, hex, b1, hb1, b2, hb2, hs⟩ := hstep
    simp only [Option.some.injEq] at hs
    have : s'.forsale = s.forsale := by subst hs; unfold setPrimaryIf; split <;> rfl
    rw [this] at hl; exact hnew hl
  | delist c raw n =>
    exfalso
    simp only [handle, delist, bind, Option.bind_eq_some_iff, req_eq_some] at hstep
    obtain ⟨sale, -, ⟨nm, tld⟩, -, w2, -, _, -, _, -, hs⟩ := hstep
    simp only [Option.some.injEq] at hs; subst hs
    simp only at hl
    rw [AMap.get_erase] at hl
    split at hl
    · simp at hl
    · exact hnew hl
  | buy c raw n =>
    exfalso
    simp only [handle, buy, bind, Option.bind_eq_some_iff, req_eq_some] at hstep
    obtain ⟨sale, hsale, ⟨nm, tld⟩, -, w2, hw2, _, -, _, -, _, -, seller, hseller, pr, -, coins, -, b1, hb1, b2, hb2, hs⟩ := hstep
    simp only [Option.some.injEq] at hs; subst hs
    simp only at hl
    rw [AMap.get_erase] at hl
    split at hl
    · simp at hl
    · exact hnew hl
  | bid c raw n pr p =>
    exfalso
    simp only [handle, bid, bind, Option.bind_eq_some_iff] at hstep
    obtain ⟨coins, hp, b0, hb0, b1, hb1, hs⟩ := hstep
    simp only [Option.some.injEq] at hs; subst hs; exact hnew hl
  | cancelBid c raw n =>
    exfalso
    simp only [handle, cancelBid, bind, Option.bind_eq_some_iff] at hstep
    obtain ⟨b, hb, coins, hcoins, b1, hb1, hs⟩ := hstep
    simp only [Option.some.injEq] at hs; subst hs; exact hnew hl
  | acceptBid c raw n bidder =>
    exfalso
    simp only [handle, acceptBid, bind, Option.bind_eq_some_iff, req_eq_some] at hstep
    obtain ⟨⟨nm, tld⟩, -, w2, hw2, _, -, _, hown, _, -, b, hb, coins, hcoins, b1, hb1, hs⟩ := hstep
    simp only [Option.some.injEq] at hs; subst hs; exact hnew hl
  | transfer c raw n r =>
    exfalso
    simp only [handle, transfer, bind, Option.bind_eq_some_iff, req_eq_some] at hstep
    obtain ⟨⟨nm, tld⟩, -, w2, hw2, _, -, _, hown, _, -, hs⟩ := hstep
    simp only [Option.some.injEq] at hs; subst hs; exact hnew hl
  | update c raw n dta =>
    exfalso
    simp only [handle, update, bind, Option.bind_eq_some_iff, req_eq_some] at hstep
    obtain ⟨⟨nm, tld⟩, -, w2, hw2, _, hown, _, -, hs⟩ := hstep
    simp only [Option.some.injEq] at hs; subst hs; exact hnew hl
  | addRecord c raw n r rl v dta =>
    exfalso
    simp only [handle, addRecord, bind, Option.bind_eq_some_iff, req_eq_some] at hstep
    obtain ⟨⟨nm, tld⟩, -, w2, hw2, _, -, _, hown, _, -, _, -, hs⟩ := hstep
    simp only [Option.some.injEq] at hs; subst hs; exact hnew hl
  | delRecord c raw n =>
    exfalso
    simp only [handle, delRecord, bind, Option.bind_eq_some_iff, req_eq_some] at hstep
    obtain ⟨⟨nm, tld⟩, -, ⟨sub, n2⟩, -, w2, hw2, _, -, _, hown, _, -, hs⟩ := hstep
    simp only [Option.some.injEq] at hs; subst hs; exact hnew hl
  | init c g =>
    exfalso
    simp only [handle, init, bind, Option.bind_eq_some_iff, req_eq_some] at hstep
    obtain ⟨_, -, _, -, _, -, _, hnl, hs⟩ := hstep
    simp only [Option.some.injEq] at hs; subst hs; exact hnew hl
  | makePrimary c raw n =>
    exfalso
    simp only [handle, makePrimary, bind, Option.bind_eq_some_iff] at hstep
    obtain ⟨⟨nm, tld⟩, -, hs⟩ := hstep
    simp only [Option.some.injEq] at hs; subst hs; exact hnew hl

/-- The pre-fix handler, kept as the regression witness: without the `sale.owner = owner` check a
listing left behind by a transfer lets a buyer take the name while the stale lister is paid. -/
def buyUnfixed (s : State) (h : Int) (creator lname : String) : Option State := do
  let sale ← AMap.get s.forsale lname
  let (n, tld) ← nameAndTLD lname
  let w ← AMap.get s.names (nameKey n tld)
  req (h ≤ w.expires)
  req (w.value ≠ creator)
  let (d, amt) ← sale.price
  let coins ← Bank.newCoins d amt
  let b1 ← Bank.send s.bank creator s.moduleAcc coins
  let b2 ← sendFromModule { s with bank := b1 } sale.owner coins
  some { s with bank := b2, forsale := AMap.erase s.forsale sale.name,
                names := AMap.set s.names (nameKey n tld) { w with value := creator, data := "{}" } }

def staleState : State :=
  { names := [("foo.jkl", { name := "foo", tld := "jkl", expires := 100, value := "bob", data := "{}", locked := 0, subs := [] })],
    forsale := [("foo.jkl", { name := "foo.jkl", owner := "alice", priceRaw := "777ujkl", price := some ("ujkl", 777) })],
    bids := [], inits := [], primary := [],
    bank := [(("carol", "ujkl"), 1000)], blocked := ["rnsmod"], moduleAcc := "rnsmod", polAcc := "pol",
    canon := [("alice", "alice"), ("bob", "bob"), ("carol", "carol"), ("dave", "dave"), ("BOB", "bob")] }

/-- witness: the unfixed handler pays alice (stale lister) and bob (owner) gets nothing -/
example : ((buyUnfixed staleState 5 "carol" "foo.jkl").map
    (fun s => (bal s.bank "alice" "ujkl", bal s.bank "bob" "ujkl"))) = some (777, 0) := by decide
/-- the fixed handler refuses -/
example : step staleState 5 (.buy "carol" "foo.jkl" "foo.jkl") = none := by decide

/-- Non-vacuity of the frame/characterisation hypotheses: a live name, a non-owner message that
succeeds (a bid) and an owner message that moves the name (transfer). -/
example : (step staleState 5 (.bid "carol" "foo.jkl" "foo.jkl" "5ujkl" (some [("ujkl", 5)]))).isSome = true := by decide
example : ((step staleState 5 (.transfer "bob" "foo.jkl" "foo.jkl" "dave")).bind
    (fun s => (AMap.get s.names "foo.jkl").map (·.value))) = some "dave" := by decide

/-- the example state's address table is idempotent, and a differently spelled owner address
(`"BOB"` denotes the account `"bob"`) still counts as the owner: the transfer goes through -/
example : CanonOK staleState := by
  intro x y h
  simp only [acct, staleState, AMap.get] at h ⊢
  repeat' split at h
  all_goals first | (simp at h; subst h; decide) | (simp at h)
example : ((step staleState 5 (.transfer "BOB" "foo.jkl" "foo.jkl" "dave")).bind
    (fun s => (AMap.get s.names "foo.jkl").map (·.value))) = some "dave" := by decide
example : SameAcct staleState "BOB" "bob" := ⟨"bob", by decide, by decide⟩

end Canine.Rns
