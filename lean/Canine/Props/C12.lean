/-
C12 — Payment gauges stream linearly and never release more than the pro-rata deposit.

`pullGauge` releases, for a recorded amount `A` of which `W` has already left the gauge account,
`trunc(ratio·A − W)` where `ratio = 1 − left/total` (whole microseconds, 18-decimal `sdk.Dec`).
For a single-coin gauge during its life (`InLife`: non-negative Unix times, `startT ≤ now ≤ endT`,
start and end in different whole microseconds; gauges of ANY length):

* the cumulative withdrawal after a step is exactly `cumulative now = trunc(ratio(now)·A)`,
  whatever the earlier reward blocks were (`C12_release_formula`);
* `cumulative` is within one base unit of the linear schedule `⌊elapsed·A/total⌋` when
  `A ≤ 10^18` (`C12_cumulative_is_linear`), is monotone in `now` (`C12_monotone`), lies in `[0, A]`
  and the released amount never exceeds the account balance (`C12_le_deposit`);
* outside the interval nothing is released, and whatever is released moves from the gauge account
  to the module account only (`C12_nothing_outside_interval`, `C12_released_goes_to_module_only`);
* deposits into the same gauge id are added to the recorded amount (`C12_same_id_deposits_merge`);
  the pre-fix overwrite made the first release jump (`C12_unfixed_overwrite_releases_early`);
* the pre-fix duration arithmetic (`time.Time.Sub`, saturating at 2^63−1 ns) made very long
  gauges lag (`C12_long_gauge_lags`).
-/
import Canine.Proofs.StorageB
import Canine.Generated.PureFns
namespace Canine.Storage

theorem send_single {b : Bank} {src dst d : String} {x : Int} (h0 : 0 < x) (h1 : x ≤ Bank.bal b src d) :
    ∃ b', Bank.send b src dst [(d, x)] = some b' := by
  unfold Bank.send Bank.sendCoin
  simp only [show ¬ x ≤ 0 by omega, show ¬ Bank.bal b src d < x by omega, if_false, Option.bind_some, Bank.send]
  exact ⟨_, rfl⟩

/-- **Release formula.**  A live single-coin gauge of recorded amount `A` whose account still holds
`A − W` (`0 ≤ W < A` withdrawn so far, `W` not ahead of the schedule): the step computes
`amt = trunc(ratio·A − W)`, which equals `cumulative − W`; it succeeds, moves exactly `amt` from the
gauge account to the module account, and afterwards the cumulative withdrawal `W + amt` is exactly
`cumulative now` — independent of how many reward blocks ran before.
(`A ≤ MaxInt64` is the `Int64()` range check; `g.account ≠ s.moduleAcc` for the ledger statement.) -/
theorem C12_release_formula (s : State) (now : Int) (released : Coins) (g : Gauge) (d : String) (A W : Int)
    (hc : g.coins = [(d, A)]) (hA : 0 ≤ A) (hA64 : A ≤ I64.maxV)
    (hl : InLife g.startT g.endT now)
    (hbal : Bank.bal s.bank g.account d = A - W) (hW0 : 0 ≤ W) (hWA : W < A)
    (hW : W ≤ cumulative g.startT g.endT now A)
    (hacc : g.account ≠ s.moduleAcc) :
    let amt := Dec.trunc (Dec.sub (Dec.mul (ratioAt g.startT g.endT now) (Dec.ofInt A)) (Dec.ofInt W))
    W + amt = cumulative g.startT g.endT now A ∧ 0 ≤ amt ∧ amt ≤ A - W ∧
    ∃ s', pullGauge s now released g
        = .ok (s', if amt = 0 then released else pullGauge.addCoinTo released d amt) ∧
      s' = { s with bank := s'.bank } ∧
      Bank.bal s'.bank g.account d = A - cumulative g.startT g.endT now A ∧
      Bank.bal s'.bank s.moduleAcc d = Bank.bal s.bank s.moduleAcc d + amt := by
  intro amt
  have hamt : amt = cumulative g.startT g.endT now A - W := release_amount A W hA hl hW0 hW
  obtain ⟨c0, c1⟩ := cumulative_range A hA hl
  have hne : accountNonEmpty s g := accountNonEmpty_of_bal s g d (by rw [hbal]; omega)
  have hlive := pullGauge_live s now released g d A hc hl hne
  rw [hbal, show A - (A - W) = W by omega] at hlive
  simp only at hlive
  rw [show Dec.trunc (Dec.sub (Dec.mul (ratioAt g.startT g.endT now) (Dec.ofInt A)) (Dec.ofInt W)) = amt from rfl] at hlive
  clear_value amt
  have hr : I64.inRange amt = true := by
    have h64 : A ≤ 9223372036854775807 := hA64
    unfold I64.inRange I64.minV I64.maxV
    simp only [Bool.and_eq_true, decide_eq_true_eq]; omega
  refine ⟨by omega, by omega, by omega, ?_⟩
  by_cases h0 : amt = 0
  · refine ⟨s, ?_, rfl, by rw [hbal]; omega, by omega⟩
    rw [hlive, if_neg (by rw [hr]; simp), if_pos h0, if_pos h0]
  · obtain ⟨b', hb'⟩ := send_single (b := s.bank) (src := g.account) (dst := s.moduleAcc) (d := d) (x := amt)
      (by omega) (by rw [hbal]; omega)
    refine ⟨{ s with bank := b' }, ?_, rfl, ?_, ?_⟩
    · rw [hlive, if_neg (by rw [hr]; simp), if_neg h0, if_neg (show ¬ amt < 0 by omega), if_neg h0, hb']
    · have := Bank.bal_send hb' g.account d
      simp only [Bank.amt, if_true, hacc.symm, if_false] at this
      rw [this, hbal]; omega
    · have := Bank.bal_send hb' s.moduleAcc d
      simp only [Bank.amt, if_true, hacc, if_false] at this
      rw [this]; omega

/-- the lemma behind it: a whole number commutes with truncation (non-negative results) -/
theorem C12_trunc_sub_whole (x : Dec) (W : Int) (hW : 0 ≤ W) (h : (Dec.ofInt W).raw ≤ x.raw) :
    Dec.trunc (Dec.sub x (Dec.ofInt W)) = Dec.trunc x - W :=
  Dec.trunc_sub_ofInt x W hW h

/-- **Linearity.**  With `e` the elapsed and `T` the total whole microseconds, the cumulative
release is within one base unit of `⌊e·A/T⌋`, for every recorded amount `0 ≤ A ≤ 10^18`.
(Side condition: `ratio` is rounded at the 18th decimal — by at most `0.5·10^-18` plus a sliver
from the inner truncated division — and that error times `A` must stay below one unit.) -/
theorem C12_cumulative_is_linear (startT endT now A : Int) (hA : 0 ≤ A) (hA' : A ≤ 1000000000000000000)
    (h : InLife startT endT now) :
    let e := now / 1000 - startT / 1000
    let T := endT / 1000 - startT / 1000
    cumulative startT endT now A ≤ e * A / T + 1 ∧ e * A / T - 1 ≤ cumulative startT endT now A :=
  cumulative_linear A hA (by unfold precision; exact hA') h

/-- `e` and `T` above are what `pullGauge` calls `total − left` and `total` -/
theorem C12_elapsed_total (startT endT now : Int) (h : InLife startT endT now) :
    totalUs startT endT = endT / 1000 - startT / 1000 ∧
    totalUs startT endT - leftUs endT now = now / 1000 - startT / 1000 :=
  ⟨(totalUs_eq h).1, (leftUs_eq h).2.2.2⟩

/-- **A gauge that is on schedule stays safe at every later reward block** (the step C05 leaves as
its explicit hypothesis `GaugesSafe`, per gauge).  Take a gauge of `A` units whose escrow account
holds what is left after a release at `now1` — `A − cumulative now1`, the balance
`C12_release_formula` proves for the state right after that release — and let nothing but the
gauge's own releases have touched the account since.  Then at any later instant `now2` of the
gauge's life the release computation of `pullTokensFromGauges` does not divide by zero, and the
amount it computes is exactly `cumulative now2 − cumulative now1`: non-negative (no
"negative coin amount" panic) and within int64 (no `Int64()` panic). -/
theorem C12_on_schedule_gauge_is_safe_later (startT endT now1 now2 A bal : Int)
    (hA : 0 ≤ A) (hA64 : A ≤ I64.maxV)
    (h1 : InLife startT endT now1) (h2 : InLife startT endT now2) (hle : now1 ≤ now2)
    (hbal : bal = A - cumulative startT endT now1 A) :
    ∃ q, Dec.quo? (Dec.ofInt (Int.tdiv endT 1000 - Int.tdiv now2 1000))
            (Dec.ofInt (Int.tdiv endT 1000 - Int.tdiv startT 1000)) = some q ∧
      Dec.trunc (Dec.sub (Dec.mul (Dec.sub Dec.one q) (Dec.ofInt A)) (Dec.ofInt (A - bal)))
        = cumulative startT endT now2 A - cumulative startT endT now1 A ∧
      0 ≤ cumulative startT endT now2 A - cumulative startT endT now1 A ∧
      I64.inRange (cumulative startT endT now2 A - cumulative startT endT now1 A) = true := by
  have hT := (totalUs_eq h2).2
  have hne : (Dec.ofInt (Int.tdiv endT 1000 - Int.tdiv startT 1000)).raw ≠ 0 := by
    have : (Dec.ofInt (totalUs startT endT)).raw = totalUs startT endT * precision := rfl
    unfold totalUs at this hT
    rw [this]
    have hp := precision_pos
    intro h0
    have := Int.mul_eq_zero.mp h0
    omega
  obtain ⟨r0, r1⟩ := cumulative_range A hA h1
  obtain ⟨s0, s1⟩ := cumulative_range A hA h2
  have hmono := cumulative_mono A hA h1 h2 hle
  cases hq : Dec.quo? (Dec.ofInt (Int.tdiv endT 1000 - Int.tdiv now2 1000))
      (Dec.ofInt (Int.tdiv endT 1000 - Int.tdiv startT 1000)) with
  | none =>
    unfold Dec.quo? at hq
    rw [if_neg hne] at hq
    cases hq
  | some q =>
    have hr : ratioAt startT endT now2 = Dec.sub Dec.one q := by
      unfold ratioAt leftUs totalUs
      rw [hq]; rfl
    refine ⟨q, rfl, ?_, by omega, ?_⟩
    · rw [← hr]
      have hW : A - bal = cumulative startT endT now1 A := by omega
      rw [hW]
      exact release_amount A _ hA h2 r0 hmono
    · unfold I64.inRange I64.minV
      unfold I64.maxV at hA64
      simp only [Bool.and_eq_true, decide_eq_true_eq]
      unfold I64.maxV
      omega

/-- **Monotonicity**: later reward blocks never see a smaller cumulative amount (any `A ≥ 0`). -/
theorem C12_monotone (startT endT now1 now2 A : Int) (hA : 0 ≤ A)
    (h1 : InLife startT endT now1) (h2 : InLife startT endT now2) (hle : now1 ≤ now2) :
    cumulative startT endT now1 A ≤ cumulative startT endT now2 A :=
  cumulative_mono A hA h1 h2 hle

/-- the rounding primitives are monotone on non-negatives (used for `C12_monotone`) -/
theorem C12_chopRound_mono (x y : Int) (hx : 0 ≤ x) (h : x ≤ y) : chopRound x ≤ chopRound y :=
  chopRound_mono_nonneg x y hx h

/-- **Never more than the deposit**: `0 ≤ ratio ≤ 1`, so `0 ≤ cumulative ≤ A`; nothing at the
start, everything at the end; and the amount released when `W ≤ cumulative` was withdrawn before is
at most the balance `A − W` left in the account: the send cannot fail for lack of funds and the
account never goes negative. -/
theorem C12_le_deposit (startT endT now A : Int) (hA : 0 ≤ A) (h : InLife startT endT now) :
    0 ≤ (ratioAt startT endT now).raw ∧ (ratioAt startT endT now).raw ≤ 1000000000000000000 ∧
    0 ≤ cumulative startT endT now A ∧ cumulative startT endT now A ≤ A ∧
    (∀ W, 0 ≤ W → W ≤ cumulative startT endT now A →
      0 ≤ Dec.trunc (Dec.sub (Dec.mul (ratioAt startT endT now) (Dec.ofInt A)) (Dec.ofInt W)) ∧
      Dec.trunc (Dec.sub (Dec.mul (ratioAt startT endT now) (Dec.ofInt A)) (Dec.ofInt W)) ≤ A - W) := by
  obtain ⟨r0, r1⟩ := ratioAt_range h
  obtain ⟨c0, c1⟩ := cumulative_range A hA h
  refine ⟨r0, r1, c0, c1, ?_⟩
  intro W hW0 hW
  rw [release_amount A W hA h hW0 hW]; omega

theorem C12_start_and_end (startT endT A : Int) (hA : 0 ≤ A) (h0 : 0 ≤ startT) (hl : startT / 1000 < endT / 1000) :
    cumulative startT endT startT A = 0 ∧ cumulative startT endT endT A = A := by
  have hle : startT ≤ endT := by omega
  exact ⟨cumulative_at_start A hA ⟨h0, Int.le_refl _, hle, hl⟩, cumulative_at_end A hA ⟨h0, hle, Int.le_refl _, hl⟩⟩

/-- **Nothing outside the interval**: once `now` is past the end (or the gauge is degenerate, or
its account is empty) the gauge is deleted, nothing is released and the ledger is untouched. -/
theorem C12_nothing_outside_interval (s : State) (now : Int) (released : Coins) (g : Gauge)
    (h : g.endT < now ∨ g.endT ≤ g.startT ∨ ¬ accountNonEmpty s g) :
    pullGauge s now released g = .ok ({ s with gauges := AMap.erase s.gauges g.id }, released) :=
  pullGauge_dead s now released g h

/-- **Released coins go to the module account only** (any gauge, any number of denominations):
a successful step changes nothing but the ledger (and possibly deletes this gauge); balances of
accounts other than the gauge account and the module account are unchanged; the gauge account
only decreases and the module account receives exactly what left it. -/
theorem C12_released_goes_to_module_only (s s' : State) (now : Int) (released rel' : Coins) (g : Gauge)
    (h : pullGauge s now released g = .ok (s', rel')) :
    s' = { s with bank := s'.bank, gauges := s'.gauges } ∧
    (s'.gauges = s.gauges ∨ s'.gauges = AMap.erase s.gauges g.id) ∧
    (∀ x d, x ≠ g.account → x ≠ s.moduleAcc → Bank.bal s'.bank x d = Bank.bal s.bank x d) ∧
    (g.account ≠ s.moduleAcc → ∀ d, Bank.bal s'.bank g.account d ≤ Bank.bal s.bank g.account d ∧
      Bank.bal s'.bank g.account d + Bank.bal s'.bank s.moduleAcc d
        = Bank.bal s.bank g.account d + Bank.bal s.bank s.moduleAcc d) := by
  obtain ⟨⟨e, f, k⟩, hg⟩ := pullGauge_frame s s' now released rel' g h
  exact ⟨e, hg, f, k⟩

/-! ### deposits into the same gauge id -/

theorem addCoins_same (d : String) (x y : Int) : addCoins [(d, x)] [(d, y)] = [(d, x + y)] := by
  simp [addCoins]

/-- **Same-id deposits merge.**  A deposit into an existing gauge id adds to the recorded amount
(single-denomination coins of the same denom) and keeps the id and the escrow account the chain
derives from it; nothing else in the state changes.  Two equal purchases in one block are therefore
ONE gauge of the summed amount, to which the theorems above apply. -/
theorem C12_same_id_deposits_merge (s : State) (now endT : Int) (id acc d : String) (x y : Int) (g0 : Gauge)
    (hg : AMap.get s.gauges id = some g0) (hcoins : g0.coins = [(d, x)]) :
    AMap.get (newGauge' s now id acc [(d, y)] endT).gauges id
      = some { id := id, startT := now, endT := endT, coins := [(d, x + y)], account := acc } ∧
    (∀ id', id' ≠ id → AMap.get (newGauge' s now id acc [(d, y)] endT).gauges id' = AMap.get s.gauges id') ∧
    newGauge' s now id acc [(d, y)] endT = { s with gauges := (newGauge' s now id acc [(d, y)] endT).gauges } := by
  unfold newGauge'
  simp only [hg, hcoins, addCoins_same]
  refine ⟨by simp, fun id' hne => by rw [AMap.get_set_other _ _ _ _ (Ne.symm hne)], trivial⟩

/-- a first deposit records exactly the coins -/
theorem C12_fresh_gauge (s : State) (now endT : Int) (id acc : String) (coins : Coins)
    (hg : AMap.get s.gauges id = none) :
    AMap.get (newGauge' s now id acc coins endT).gauges id
      = some { id := id, startT := now, endT := endT, coins := coins, account := acc } := by
  unfold newGauge'; simp [hg]

/-- how the chain names a gauge: a function of the block height, the end and the coins of the
deposit (`sha256("height--end--coins")`), assumed collision-free -/
structure IdScheme where
  idf : Int → Int → Coins → String
  inj : ∀ h e c h' e' c', idf h e c = idf h' e' c' → h = h' ∧ e = e' ∧ c = c'

/-- every gauge sits under the id of a deposit made at some height until the gauge's own end, and
starts at that height's block time -/
def IdInv (I : IdScheme) (timeOf : Int → Int) (s : State) : Prop :=
  ∀ k g, AMap.get s.gauges k = some g → ∃ h c, k = I.idf h g.endT c ∧ g.startT = timeOf h

/-- **A deposit never moves the interval of a gauge.**  Under any collision-free naming of gauges by
(height, end, coins) — what `NewGauge` assumes of SHA-256; the assumption is a hypothesis here, not
proved — a deposit leaves the start and the end of *every* existing gauge as they were, the one it
merges into included (same id ⇒ same height ⇒ same block time, and same end), and the naming
invariant is kept.  So what was deposited for a gauge is streamed over its own duration whatever is
deposited later.  (A naming that forgets the end — the seeded change C12e — is not collision-free
in this sense: two same-block purchases of equal price and different terms then share an id, and
the later one overwrites the earlier one's end.) -/
theorem C12_deposit_keeps_every_interval (I : IdScheme) (timeOf : Int → Int) (s : State)
    (hinv : IdInv I timeOf s) (h e : Int) (c : Coins) (acc : String) :
    IdInv I timeOf (newGauge' s (timeOf h) (I.idf h e c) acc c e) ∧
    ∀ k g, AMap.get s.gauges k = some g →
      ∃ g', AMap.get (newGauge' s (timeOf h) (I.idf h e c) acc c e).gauges k = some g' ∧
        g'.startT = g.startT ∧ g'.endT = g.endT := by
  constructor
  · intro k g hk
    unfold newGauge' at hk
    by_cases hkid : k = I.idf h e c
    · subst hkid
      simp only [AMap.get_set_self, Option.some.injEq] at hk
      subst hk
      exact ⟨h, c, rfl, rfl⟩
    · rw [AMap.get_set_other _ _ _ _ (fun e' => hkid e'.symm)] at hk
      exact hinv k g hk
  · intro k g hk
    unfold newGauge'
    by_cases hkid : k = I.idf h e c
    · subst hkid
      obtain ⟨h0, c0, hid, hst⟩ := hinv _ g hk
      obtain ⟨hh, he, _⟩ := I.inj _ _ _ _ _ _ hid
      refine ⟨_, AMap.get_set_self _ _ _, ?_, ?_⟩
      · simp only; rw [hst, hh]
      · simp only; exact he
    · rw [AMap.get_set_other _ _ _ _ (fun e' => hkid e'.symm)]
      exact ⟨g, hk, rfl, rfl⟩

/-- the naming invariant holds where there are no gauges (genesis) -/
theorem C12_idInv_init (I : IdScheme) (timeOf : Int → Int) (s : State) (h : s.gauges = []) :
    IdInv I timeOf s := by
  intro k g hk; rw [h] at hk; simp [AMap.get] at hk

/-- PRE-FIX `NewGauge`: the record of an existing id is overwritten with the new coins while the
escrow account keeps the coins of both deposits. -/
def newGaugeUnfixed (s : State) (now : Int) (id acc : String) (coins : Coins) (endT : Int) : State :=
  { s with gauges := AMap.set s.gauges id { id := id, startT := now, endT := endT, coins := coins, account := acc } }

/-! ### concrete gauge: 1000 ujkl over 30 days -/

def t0 : Int := 1700000000000000000
def g30 : Gauge := { id := "g", startT := t0, endT := t0 + 30 * dayNs, coins := [("ujkl", 1000)], account := "gacc" }

def gState (gs : AMap String Gauge) (bank : Bank) : State :=
  { files := [], files2 := [], proofs := [], providers := [], payinfo := [], collateral := [], gauges := gs,
    attests := [], reports := [], bank := bank,
    params := { proofWindow := 5, checkWindow := 5, chunkSize := 1024, pricePerTbPerMonth := 8, collateralPrice := 0,
                attestFormSize := 5, attestMinToPass := 3, referralCommission := 25, polRatio := 40 },
    moduleAcc := "storage", collateralAcc := "coll", polAcc := "pol", feeAcc := "fee", blocked := [] }

/-- what a release step leaves in (gauge account, module account) and what it reports as released -/
def outcome (r : Except String (State × Coins)) : Option (Int × Int × Coins) :=
  match r with
  | .ok (s, c) => some (Bank.bal s.bank "gacc" "ujkl", Bank.bal s.bank "storage" "ujkl", c)
  | .error _ => none

/-- after the first purchase of 1000 and the second transfer of 1000 into the escrow account -/
def deposited : State := gState [("g", g30)] [(("gacc", "ujkl"), 2000)]
/-- second `NewGauge` of the same id, pre-fix and fixed -/
def sU : State := newGaugeUnfixed deposited t0 "g" "gacc" [("ujkl", 1000)] (t0 + 30 * dayNs)
def sF : State := newGauge' deposited t0 "g" "gacc" [("ujkl", 1000)] (t0 + 30 * dayNs)

/-- **Regression witness for the overwrite.**  Two purchases of 1000 in one block under the same id:
the fixed handler records 2000; the pre-fix one records 1000 while the account holds 2000, so six
seconds into a 30-day gauge the release formula (with `W = −1000`) hands out 1000 — the linear
schedule says 0 — whereas the merged gauge releases nothing yet. -/
theorem C12_unfixed_overwrite_releases_early :
    (AMap.get sU.gauges "g").map (·.coins) = some [("ujkl", 1000)] ∧
    (AMap.get sF.gauges "g").map (·.coins) = some [("ujkl", 2000)] ∧
    ((AMap.get sU.gauges "g").map (fun g => outcome (pullGauge sU (t0 + 6000000000) [] g)))
      = some (some (1000, 1000, [("ujkl", 1000)])) ∧
    ((AMap.get sF.gauges "g").map (fun g => outcome (pullGauge sF (t0 + 6000000000) [] g)))
      = some (some (2000, 0, [])) ∧
    cumulative t0 (t0 + 30 * dayNs) (t0 + 6000000000) 2000 = 0 := by
  refine ⟨?_, ?_, ?_, ?_, ?_⟩ <;> decide

/-! ### the pre-fix duration arithmetic -/

/-- PRE-FIX cumulative amount: the microsecond counts were taken from `time.Time.Sub`, which
saturates at ±(2^63−1) ns -/
def cumulativeOld (startT endT now A : Int) : Int :=
  Dec.trunc (Dec.mul (Dec.sub Dec.one
    ((Dec.quo? (Dec.ofInt (Int.tdiv (timeSub endT now) 1000)) (Dec.ofInt (Int.tdiv (timeSub endT startT) 1000))).getD Dec.zero))
    (Dec.ofInt A))

/-- **Regression witness**: a gauge of 1.2·10^19 ns (≈ 380 years, beyond 2^63−1 ns) at mid-life.
The old formula has released 349 of 1000 (at 2^64 ns even 0), the repaired one 500. -/
theorem C12_long_gauge_lags :
    cumulativeOld 0 12000000000000000000 6000000000000000000 1000 = 349 ∧
    cumulative 0 12000000000000000000 6000000000000000000 1000 = 500 ∧
    cumulativeOld 0 18446744073709551616 9223372036854775808 1000 = 0 := by decide

/-! ### non-vacuity -/

/-- the 30-day gauge is live at day 1, 15 and 30 … -/
example : InLife g30.startT g30.endT (t0 + dayNs) ∧ InLife g30.startT g30.endT (t0 + 15 * dayNs) ∧
    InLife g30.startT g30.endT (t0 + 30 * dayNs) := by
  refine ⟨⟨?_, ?_, ?_, ?_⟩, ⟨?_, ?_, ?_, ?_⟩, ⟨?_, ?_, ?_, ?_⟩⟩ <;> decide

/-- … its cumulative amounts there (and at day 10 and 29) follow the linear schedule … -/
example : [1, 10, 15, 29, 30].map (fun k => cumulative g30.startT g30.endT (t0 + k * dayNs) 1000)
    = [33, 333, 500, 966, 1000] := by decide

/-- … and three reward blocks (days 1, 15, 30) release 33, 467 and 500: after each the account
holds `1000 − cumulative`, whatever happened before (hypotheses of `C12_release_formula` with
`W = 0, 33, 500`). -/
example :
    outcome (pullGauge (gState [("g", g30)] [(("gacc", "ujkl"), 1000)]) (t0 + dayNs) [] g30)
      = some (967, 33, [("ujkl", 33)]) ∧
    outcome (pullGauge (gState [("g", g30)] [(("gacc", "ujkl"), 967), (("storage", "ujkl"), 33)]) (t0 + 15 * dayNs) [] g30)
      = some (500, 500, [("ujkl", 467)]) ∧
    outcome (pullGauge (gState [("g", g30)] [(("gacc", "ujkl"), 500), (("storage", "ujkl"), 500)]) (t0 + 30 * dayNs) [] g30)
      = some (0, 1000, [("ujkl", 500)]) ∧
    -- skipping the middle block changes nothing at the end
    outcome (pullGauge (gState [("g", g30)] [(("gacc", "ujkl"), 967), (("storage", "ujkl"), 33)]) (t0 + 30 * dayNs) [] g30)
      = some (0, 1000, [("ujkl", 967)]) ∧
    -- one nanosecond after the end the gauge is deleted and nothing moves
    (pullGauge (gState [("g", g30)] [(("gacc", "ujkl"), 5)]) (t0 + 30 * dayNs + 1) [] g30).toOption.map
      (fun r => (r.1.gauges.length, Bank.bal r.1.bank "gacc" "ujkl", Bank.bal r.1.bank "storage" "ujkl", r.2))
      = some (0, 5, 0, []) := by
  refine ⟨?_, ?_, ?_, ?_, ?_⟩ <;> decide

example : g30.coins = [("ujkl", 1000)] ∧ (0:Int) ≤ 1000 ∧ (1000:Int) ≤ I64.maxV ∧
    Bank.bal (gState [("g", g30)] [(("gacc", "ujkl"), 967)]).bank g30.account "ujkl" = 1000 - 33 ∧
    (33:Int) ≤ cumulative g30.startT g30.endT (t0 + 15 * dayNs) 1000 ∧
    g30.account ≠ (gState [("g", g30)] [(("gacc", "ujkl"), 967)]).moduleAcc := by decide

/-! ## The release formula as it stands in the source (regenerated tie) -/

/-- The amount `amt64` that `pullTokensFromGauges` moves out of a gauge — sliced out of
x/storage/keeper/rewards.go and translated on every run, as a function of the gauge's start and
end and the block time in whole microseconds, the recorded amount and the gauge account's
balance — is the expression the model's `pullGauge` evaluates (and `C12_release_formula`,
`C12_cumulative_is_linear` are about): `trunc((1 − left/total)·A − (A − balance))`, with the
same inputs and nothing else. -/
theorem C12_generated_release_amount_is_the_model (startT endT now A bal : Int) :
    Generated.Pure.pullTokensFromGauges_amt64 (Int.tdiv endT 1000) (Int.tdiv now 1000) (Int.tdiv startT 1000) A bal =
      (Dec.quo? (Dec.ofInt (leftUs endT now)) (Dec.ofInt (totalUs startT endT))).map
        (fun q => Dec.trunc (Dec.sub (Dec.mul (Dec.sub Dec.one q) (Dec.ofInt A)) (Dec.ofInt (A - bal)))) ∧
    Generated.Pure.pullTokensFromGauges_amt64_inputs =
      ["pg.End.UnixMicro()", "currentTime.UnixMicro()", "pg.Start.UnixMicro()", "coin.Amount",
       "gaugeBalance.AmountOf(coin.Denom)"] := by
  refine ⟨?_, rfl⟩
  unfold Generated.Pure.pullTokensFromGauges_amt64 leftUs totalUs
  simp only [bind, Option.bind]
  cases Dec.quo? (Dec.ofInt (Int.tdiv endT 1000 - Int.tdiv now 1000))
    (Dec.ofInt (Int.tdiv endT 1000 - Int.tdiv startT 1000)) <;> rfl

end Canine.Storage
