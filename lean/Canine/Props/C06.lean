/-
C06 — State transitions are deterministic across nodes.

The models are functions, so determinism of the modelled transitions is by construction; what
needs an argument are the places where the Go code touches an unordered or process-local source.
Part 1 (regenerated facts): every such site found in the consensus packages by the scanner is on
the reviewed allow-list below, each with the reason it cannot influence state.
Part 2: the one map drained on a consensus path (`sizeTracker`) is drained through a sort, and the
sorted sequence of payouts is the same for every iteration order of the map.
-/
import Canine.Generated.NondetFacts
import Canine.Storage.Reward
namespace Canine

open Generated

/-- reviewed sites: (file, function, kind, expression) and why each is harmless -/
def nondetAllow : List (NondetSite × String) := [
  (⟨"x/jklmint/abci.go", "BeginBlocker", "wallclock", "time.Now"⟩, "telemetry only (ModuleMeasureSince); the value never reaches state"),
  (⟨"x/storage/abci.go", "BeginBlocker", "wallclock", "time.Now"⟩, "telemetry only (ModuleMeasureSince); the value never reaches state"),
  (⟨"x/storage/keeper/grpc_query_pay_info.go", "Keeper.PaymentInfo", "hostzone", "time.UnixMicro"⟩, "query path only (the placeholder returned for an account without a plan): an instant, no calendar arithmetic on it, never written to state"),
  (⟨"x/storage/keeper/msg_server_attest.go", "Keeper.RequestAttestation", "rand", "github.com/tendermint/tendermint/libs/rand.Seed"⟩, "seeds the global generator with the block height; the form members come from GetActiveProviders' own generator"),
  (⟨"x/storage/keeper/providers.go", "Keeper.GetActiveProviders", "rand", "github.com/tendermint/tendermint/libs/rand.NewRand"⟩, "fresh generator re-seeded with the block height before use: same draws on every node"),
  (⟨"x/storage/keeper/providers.go", "Keeper.GetRandomizedProviders", "rand", "github.com/tendermint/tendermint/libs/rand.NewRand"⟩, "fresh generator re-seeded with the block height before use (query path)"),
  (⟨"x/storage/keeper/rewards.go", "providerList", "range-map", "*sizeTracker ; ordered by slices.Sort"⟩, "keys are collected and sorted by their natural (total, antisymmetric) order before any payment (C06_payout_order_independent); any other ordering call, e.g. a SortFunc on a key that can tie, changes this fact"),
  (⟨"x/storage/types/file_deal.go", "*UnifiedFile.ResetChunkWithProof", "rand", "github.com/tendermint/tendermint/libs/rand.NewRand"⟩, "fresh generator re-seeded with block gas + height before the draw"),
  (⟨"x/storage/types/file_deal.go", "*UnifiedFile.ResetChunk", "rand", "github.com/tendermint/tendermint/libs/rand.NewRand"⟩, "fresh generator re-seeded with block gas + height before the draw")]

/-- every nondeterminism site the scanner found in the working tree is on the reviewed list -/
theorem C06_nondet_sites_allowlisted :
    nondetSites.all (fun s => (nondetAllow.map (·.1)).contains s) = true := by decide

namespace Storage

theorem le_trans_key (a b c : String × Int) : decide (a.1 ≤ b.1) = true → decide (b.1 ≤ c.1) = true →
    decide (a.1 ≤ c.1) = true := by
  simp only [decide_eq_true_eq]; exact String.le_trans

theorem le_total_key (a b : String × Int) : (decide (a.1 ≤ b.1) || decide (b.1 ≤ a.1)) = true := by
  simp only [Bool.or_eq_true, decide_eq_true_eq]; exact String.le_total _ _

/-- **Sorted drain.** Whatever order Go's map iteration hands over the credited provers (any
permutation of the same entries, one entry per prover), `providerList`'s sort produces the same
sequence — so the payments are made in the same order with the same amounts on every node. -/
theorem C06_payout_order_independent (t1 t2 : Tracker) (hperm : List.Perm t1 t2)
    (hnd : (AMap.keys t1).Nodup) : sortedProvers t1 = sortedProvers t2 := by
  unfold sortedProvers
  apply List.Perm.eq_of_pairwise (le := fun a b => decide (a.1 ≤ b.1))
  · intro a b ha hb hab hba
    simp only [decide_eq_true_eq] at hab hba
    have hk : a.1 = b.1 := String.le_antisymm hab hba
    have ha' : a ∈ t1 := (List.mem_mergeSort).mp ha
    have hb' : b ∈ t1 := hperm.symm.subset ((List.mem_mergeSort).mp hb)
    -- two entries of a duplicate-free map with the same key are the same entry
    have h1 := AMap.get_of_mem_wf (m := t1) (k := a.1) (v := a.2) hnd (by simpa using ha')
    have h2 := AMap.get_of_mem_wf (m := t1) (k := b.1) (v := b.2) hnd (by simpa using hb')
    rw [hk] at h1
    rw [h1] at h2
    simp only [Option.some.injEq] at h2
    exact Prod.ext hk h2
  · exact List.pairwise_mergeSort le_trans_key le_total_key t1
  · exact List.pairwise_mergeSort le_trans_key le_total_key t2
  · exact ((List.mergeSort_perm t1 _).trans hperm).trans (List.mergeSort_perm t2 _).symm

/-- hence the whole payout fold gives the same result for both iteration orders -/
theorem C06_payout_fold_order_independent (t1 t2 : Tracker) (hperm : List.Perm t1 t2)
    (hnd : (AMap.keys t1).Nodup) (s : State) (total : Int) (coins : Coins) :
    (sortedProvers t1).foldlM (fun st pw => payProver st total coins pw.1 pw.2) s =
    (sortedProvers t2).foldlM (fun st pw => payProver st total coins pw.1 pw.2) s := by
  rw [C06_payout_order_independent t1 t2 hperm hnd]

/-- non-vacuity: two orders of the same two entries drain identically -/
example : sortedProvers [("b", 2), ("a", 1)] = sortedProvers [("a", 1), ("b", 2)] :=
  C06_payout_order_independent _ _ (List.Perm.swap _ _ _) (by decide)

end Storage
end Canine
