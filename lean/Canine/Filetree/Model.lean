/-
Executable model of the x/filetree message handlers.  The hash (hex of SHA-256) is a parameter
`H`; stored entries are keyed by the pair (address, owner) — the raw key is
`address ‖ "/" ‖ owner ‖ "/"`, whose injectivity on stored entries is a separate theorem
(Props/C10, `filesKey_injective`) and is exercised with crafted strings by the correspondence.
Access lists are JSON objects in the chain; here they are the decoded map (or the raw string
when it does not decode to map[string]string — then every handler that needs it fails).
Core Lean only.
-/
import Canine.Basic.Map
namespace Canine.Filetree

inductive Acl where
  | map (m : AMap String String)
  /-- the JSON text `null`: `json.Unmarshal` succeeds and leaves a nil map (reads work, assignment panics) -/
  | null
  | raw (s : String)
  deriving DecidableEq, Repr, Inhabited

structure Entry where
  address : String
  owner : String
  contents : String
  viewers : Acl
  editors : Acl
  tracking : String
  deriving DecidableEq, Repr, Inhabited

structure State where
  files : AMap (String × String) Entry
  pubkeys : AMap String String
  deriving DecidableEq, Repr, Inhabited

inductive Op where
  | postFile (creator account hashParent hashChild contents : String) (viewers editors : Acl)
      (viewersRaw editorsRaw tracking : String)
  | deleteFile (creator hashPath account : String)
  | changeOwner (creator address fileOwner newOwner : String)
  | addViewers (creator address fileOwner : String) (ids keys : List String)
  | removeViewers (creator address fileOwner : String) (ids : List String)
  | resetViewers (creator address fileOwner : String)
  | addEditors (creator address fileOwner : String) (ids keys : List String)
  | removeEditors (creator address fileOwner : String) (ids : List String)
  | resetEditors (creator address fileOwner : String)
  | provision (creator : String) (viewers editors : Acl) (viewersRaw editorsRaw tracking : String)
  | postKey (creator key : String)
  deriving DecidableEq, Repr, Inhabited

section
variable (H : String → String)

def makeOwnerAddress (merklePath user : String) : String := H ("o" ++ merklePath ++ user)
def makeViewerAddress (tracking user : String) : String := H ("v" ++ tracking ++ user)
def makeEditorAddress (tracking user : String) : String := H ("e" ++ tracking ++ user)
def addToMerkleS (path app : String) : String := H (path ++ app)

/-- `IsOwner`: H("o" ‖ entry.address ‖ H(user)) = entry.owner -/
def isOwner (e : Entry) (user : String) : Bool := makeOwnerAddress H e.address (H user) = e.owner

/-- `HasEditAccess`: fails (error) when the editor list does not decode -/
def hasEditAccess (e : Entry) (user : String) : Option Bool :=
  match e.editors with
  | .map m => some (AMap.contains m (makeEditorAddress H e.tracking user))
  | .null => some false
  | .raw _ => none

/-- `jvacc[v] = keys[i]` for each id, in order; `none` = index out of range (panic → failed tx) -/
def addIds (m : AMap String String) : List String → List String → Option (AMap String String)
  | [], _ => some m
  | _ :: _, [] => none
  | i :: is, k :: ks => addIds (AMap.set m i k) is ks

def removeIds (m : AMap String String) : List String → AMap String String
  | [] => m
  | i :: is => removeIds (AMap.erase m i) is

/-- the root address `MerklePath("s")` = H(H("s")) -/
def rootAddress : String := H ("" ++ H "s")

def postFile (s : State) (creator account hashParent hashChild contents : String)
    (viewers editors : Acl) (tracking : String) : Option State := do
  let parent ← AMap.get s.files (hashParent, makeOwnerAddress H hashParent account)
  let ok ← hasEditAccess H parent creator
  req (ok = true)
  let full := addToMerkleS H hashParent hashChild
  let owner := makeOwnerAddress H full account
  let e : Entry :=
    { address := full, owner := owner, contents := contents, viewers := viewers, editors := editors, tracking := tracking }
  some { s with files := AMap.set s.files (full, owner) e }

def deleteFile (s : State) (creator hashPath account : String) : Option State := do
  let owner := makeOwnerAddress H hashPath account
  let f ← AMap.get s.files (hashPath, owner)
  req (isOwner H f creator = true)
  some { s with files := AMap.erase s.files (hashPath, owner) }

def changeOwner (s : State) (creator address fileOwner newOwner : String) : Option State := do
  let cur := makeOwnerAddress H address fileOwner
  let f ← AMap.get s.files (address, cur)
  req (isOwner H f creator = true)
  let new := makeOwnerAddress H address newOwner
  req (AMap.contains s.files (address, new) = false)
  some { s with files := AMap.erase (AMap.set s.files (f.address, new) { f with owner := new }) (address, cur) }

def aclMap : Acl → Option (AMap String String)
  | .map m => some m
  | .null => some []
  | .raw _ => none

/-- reading one id out of an access list (nothing when the list does not decode) -/
def aclGet (a : Acl) (id : String) : Option String := (aclMap a).bind (fun m => AMap.get m id)

/-- `delete(jvacc, v)` for each id followed by `json.Marshal`: a nil map stays `null` -/
def aclRemove (a : Acl) (m : AMap String String) (ids : List String) : Acl :=
  if a = .null then .null else .map (removeIds m ids)

def addViewers (s : State) (creator address fileOwner : String) (ids keys : List String) : Option State := do
  let f ← AMap.get s.files (address, fileOwner)
  req (isOwner H f creator = true)
  let m ← aclMap f.viewers
  req (f.viewers ≠ .null ∨ ids = [])   -- assignment to an entry of a nil map panics
  let m' ← addIds m ids keys
  some { s with files := AMap.set s.files (f.address, f.owner) { f with viewers := .map m' } }

def removeViewers (s : State) (creator address fileOwner : String) (ids : List String) : Option State := do
  let f ← AMap.get s.files (address, fileOwner)
  req (isOwner H f creator = true)
  let m ← aclMap f.viewers
  some { s with files := AMap.set s.files (f.address, f.owner) { f with viewers := aclRemove f.viewers m ids } }

def resetViewers (s : State) (creator address fileOwner : String) : Option State := do
  let f ← AMap.get s.files (address, fileOwner)
  req (isOwner H f creator = true)
  let m ← aclMap f.viewers
  let id := makeViewerAddress H f.tracking creator
  let e : Entry := { f with viewers := .map [(id, (AMap.get m id).getD "")] }
  some { s with files := AMap.set s.files (f.address, f.owner) e }

def addEditors (s : State) (creator address fileOwner : String) (ids keys : List String) : Option State := do
  let f ← AMap.get s.files (address, fileOwner)
  req (isOwner H f creator = true)
  let m ← aclMap f.editors
  req (f.editors ≠ .null ∨ ids = [])   -- assignment to an entry of a nil map panics
  let m' ← addIds m ids keys
  some { s with files := AMap.set s.files (f.address, f.owner) { f with editors := .map m' } }

def removeEditors (s : State) (creator address fileOwner : String) (ids : List String) : Option State := do
  let f ← AMap.get s.files (address, fileOwner)
  req (isOwner H f creator = true)
  let m ← aclMap f.editors
  some { s with files := AMap.set s.files (f.address, f.owner) { f with editors := aclRemove f.editors m ids } }

def resetEditors (s : State) (creator address fileOwner : String) : Option State := do
  let f ← AMap.get s.files (address, fileOwner)
  req (isOwner H f creator = true)
  let m ← aclMap f.editors
  let id := makeEditorAddress H f.tracking creator
  let e : Entry := { f with editors := .map [(id, (AMap.get m id).getD "")] }
  some { s with files := AMap.set s.files (f.address, f.owner) e }

def provision (s : State) (creator : String) (viewers editors : Acl) (tracking : String) : State :=
  let addr := rootAddress H
  let owner := makeOwnerAddress H addr (H creator)
  let e : Entry :=
    { address := addr, owner := owner, contents := "", viewers := viewers, editors := editors, tracking := tracking }
  { s with files := AMap.set s.files (addr, owner) e }

/-- `ValidateBasic`: the non-emptiness checks (addresses are sent well-formed by the harness) -/
def validateBasic : Op → Bool
  | .postFile _ account hp hc _ _ _ vr er tr => account != "" && hp != "" && hc != "" && vr != "" && er != "" && tr != ""
  | .deleteFile _ hp acc => hp != "" && acc != ""
  | .changeOwner _ a fo no => no != "" && fo != "" && a != ""
  | .addViewers _ a fo ids keys => a != "" && fo != "" && ids != [""] && keys != [""]
  | .removeViewers _ a fo ids => a != "" && fo != "" && ids != [""]
  | .resetViewers _ a fo => a != "" && fo != ""
  | .addEditors _ a fo ids keys => a != "" && fo != "" && ids != [""] && keys != [""]
  | .removeEditors _ a fo ids => a != "" && fo != "" && ids != [""]
  | .resetEditors _ a fo => a != "" && fo != ""
  | .provision _ _ _ vr er tr => vr != "" && er != "" && tr != ""
  | .postKey _ k => k != ""

def handle (s : State) : Op → Option State
  | .postFile c acc hp hc ct v e _ _ tr => postFile H s c acc hp hc ct v e tr
  | .deleteFile c hp acc => deleteFile H s c hp acc
  | .changeOwner c a fo no => changeOwner H s c a fo no
  | .addViewers c a fo ids keys => addViewers H s c a fo ids keys
  | .removeViewers c a fo ids => removeViewers H s c a fo ids
  | .resetViewers c a fo => resetViewers H s c a fo
  | .addEditors c a fo ids keys => addEditors H s c a fo ids keys
  | .removeEditors c a fo ids => removeEditors H s c a fo ids
  | .resetEditors c a fo => resetEditors H s c a fo
  | .provision c v e _ _ tr => some (provision H s c v e tr)
  | .postKey c k => some { s with pubkeys := AMap.set s.pubkeys c k }

def step (s : State) (op : Op) : Option State := if validateBasic op then handle H s op else none
def stepT (s : State) (op : Op) : State := (step H s op).getD s

end
end Canine.Filetree
