/-
x/filetree/types/merkle-paths.go as functions on character lists: `strings.TrimSuffix(path, "/")`,
`strings.Split(path, "/")`, and the fold `total = H(total ‖ H(chunk))`.  The hash (hex of
SHA-256 in the chain) is a parameter.  Core Lean only.
-/
namespace Canine.Filetree

abbrev Str := List Char

/-- `strings.Split(s, "/")` -/
def splitOnSlash : Str → List Str
  | [] => [[]]
  | c :: cs =>
    if c = '/' then [] :: splitOnSlash cs
    else match splitOnSlash cs with
      | [] => [[c]]
      | h :: t => (c :: h) :: t

/-- `strings.Join(segs, "/")` -/
def joinSlash : List Str → Str
  | [] => []
  | [s] => s
  | s :: rest => s ++ '/' :: joinSlash rest

/-- `strings.TrimSuffix(s, "/")`: at most one trailing '/' is removed -/
def trimSlash (s : Str) : Str := if s.getLast? = some '/' then s.dropLast else s

/-- `AddToMerkle(path, append) = hex(sha256(path ‖ append))` -/
def addToMerkle (H : Str → Str) (path app : Str) : Str := H (path ++ app)

/-- the fold of `MerklePath` over the chunks -/
def foldSegs (H : Str → Str) (segs : List Str) : Str :=
  segs.foldl (fun total chunk => H (total ++ H chunk)) []

/-- `MerklePath(path)` -/
def merklePath (H : Str → Str) (path : Str) : Str := foldSegs H (splitOnSlash (trimSlash path))

/-- `MerkleHelper(path)` — the client-side derivation (x/filetree/types/test_helpers.go: compiled
into the binary, used by `CreateMsgPostFile`, the CLI twin and the simulation): the parent address
and the child hash from which a post message for the plain path is built -/
def merkleHelper (H : Str → Str) (path : Str) : Str × Str :=
  let chunks := splitOnSlash (trimSlash path)
  (merklePath H (joinSlash chunks.dropLast), H (chunks.getLastD []))

end Canine.Filetree
