/-
x/oracle feeds: CreateFeed (100 JKL fee forwarded to the deposit account; never overwrites) and
UpdateFeed (only the account recorded as the feed's owner).  Core Lean only.
-/
import Canine.Basic.Bank
namespace Canine.Oracle

structure Feed where
  owner : String
  data : String
  lastUpdate : Int
  name : String
  deriving DecidableEq, Repr, Inhabited

structure State where
  feeds : AMap String Feed
  bank : Bank
  moduleAcc : String
  deposit : Option String     -- params.Deposit when it is a valid address
  blocked : List String
  deriving DecidableEq, Repr, Inhabited

inductive Op where
  | createFeed (creator name : String)
  | updateFeed (creator name data : String)
  deriving DecidableEq, Repr, Inhabited

def feeCoins : Coins := [("ujkl", 100000000)]

def step (s : State) (now : Int) : Op → Option State
  | .createFeed c n => do
    req (AMap.contains s.feeds n = false)
    let b1 ← Bank.send s.bank c s.moduleAcc feeCoins
    let dep ← s.deposit
    req (s.blocked.contains dep = false)
    let b2 ← Bank.send b1 s.moduleAcc dep feeCoins
    some { s with bank := b2, feeds := AMap.set s.feeds n { owner := c, data := "", lastUpdate := now, name := n } }
  | .updateFeed c n d => do
    let f ← AMap.get s.feeds n
    req (f.owner = c)
    some { s with feeds := AMap.set s.feeds n { f with data := d, lastUpdate := now } }

end Canine.Oracle
