/-
The gRPC query server of x/filetree over the `State` of the message model: `File(address,
ownerAddress)` reads the entry under "address/owner/", `AllFiles` pages over the whole tree,
`PubKey(address)` reads the key record.  Core Lean only.
-/
import Canine.Filetree.Model
import Canine.Query.Page
namespace Canine.Filetree.Query
open Canine.Query

def rawKey (k : String × String) : String := k.1 ++ "/" ++ k.2 ++ "/"

def fileEntries (s : State) : List (String × Entry) := sortByKey (s.files.map (fun kv => (rawKey kv.1, kv.2)))

/-- the key records in store order (raw key address ‖ "/"), each as (address, key) -/
def pubkeyEntries (s : State) : List (String × (String × String)) := sortByKey (s.pubkeys.map (fun kv => (kv.1 ++ "/", (kv.1, kv.2))))

inductive Q where
  | file (address owner : String)
  | allFiles (page : PageReq)
  | pubKey (address : String)
  | allPubKeys (page : PageReq)
  deriving Repr, Inhabited

inductive Resp where
  | err
  | file (f : Entry)
  | files (items : List Entry) (nextKey : Option String) (total : Nat)
  | key (k : String)
  | keys (items : List (String × String)) (nextKey : Option String) (total : Nat)
  deriving DecidableEq, Repr, Inhabited

def run (s : State) : Q → Resp
  | .file a o =>
    -- the store is read under the raw key the two strings make: strings containing '/' can name
    -- another entry's key ("a/b" ++ "/" ++ "c" = "a" ++ "/" ++ "b/c")
    match (fileEntries s).find? (fun e => e.1 = rawKey (a, o)) with
    | some e => .file e.2
    | none => .err
  | .allFiles p =>
    match paginate (fileEntries s) p with
    | .error _ => .err
    | .ok res => .files res.items res.nextKey res.total
  | .pubKey a => match AMap.get s.pubkeys a with | some k => .key k | none => .err
  | .allPubKeys p =>
    match paginate (pubkeyEntries s) p with
    | .error _ => .err
    | .ok res => .keys res.items res.nextKey res.total

end Canine.Filetree.Query
