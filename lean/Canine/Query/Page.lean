/-
`query.Paginate` of the cosmos-sdk fork (types/query/pagination.go) over a prefix store, as every
listing query of the custom modules uses it.  `entries` is the content of the prefix store in
ascending raw-key order (prefix stripped) — exactly what the store iterator yields.

    offset > 0 ∧ key ≠ nil            → error
    limit = 0                          → limit := 100, countTotal := true
    key given                          → iterate from `key` (inclusive; forward: ascending,
                                         reverse: descending starting at `key`), hand out `limit`
                                         values, NextKey := the key that follows, Total := 0
    otherwise                          → skip `offset`, hand out `limit`, NextKey := the key that
                                         follows; Total := number of entries iff countTotal

`getIterator(reverse)` finds its upper bound by stepping a forward iterator once past `key` and
reading `Key()`: when `key` is the last key of the store that read is on an exhausted iterator,
which panics — modelled as `.error`.  uint64 wrap-around of `offset + limit` is outside the model
(the numbers are ℕ).  Core Lean only.
-/
namespace Canine.Query

structure PageReq where
  /-- `none` = nil / empty key -/
  key : Option String := none
  offset : Nat := 0
  limit : Nat := 0
  countTotal : Bool := false
  reverse : Bool := false
  deriving DecidableEq, Repr, Inhabited

structure PageRes (V : Type) where
  items : List V
  nextKey : Option String
  total : Nat
  deriving Repr

instance {V : Type} [DecidableEq V] : DecidableEq (PageRes V) := fun a b => by
  cases a; cases b; simp only [PageRes.mk.injEq]; exact inferInstance

def defaultLimit : Nat := 100

/-- the entries a key-positioned iterator yields; `none` = the panic described above -/
def iterFrom {V : Type} (entries : List (String × V)) (k : String) (reverse : Bool) : Option (List (String × V)) :=
  let ge := entries.dropWhile (fun e => e.1 < k)
  if !reverse then some ge
  else
    match ge with
    | [] => some entries.reverse
    | [_] => none
    | _ :: nxt :: _ => some (entries.takeWhile (fun e => e.1 < nxt.1)).reverse

def paginate {V : Type} (entries : List (String × V)) (r : PageReq) : Except String (PageRes V) :=
  if r.offset > 0 ∧ r.key.isSome then .error "invalid request, either offset or key is expected, got both"
  else
    let limit := if r.limit = 0 then defaultLimit else r.limit
    let countTotal := r.countTotal || r.limit = 0
    match r.key with
    | some k =>
      match iterFrom entries k r.reverse with
      | none => .error "panic: iterator invalid, cannot call Key()"
      | some it =>
        .ok { items := (it.take limit).map (·.2), nextKey := (it.drop limit).head?.map (·.1), total := 0 }
    | none =>
      let it := if r.reverse then entries.reverse else entries
      .ok { items := ((it.drop r.offset).take limit).map (·.2),
            nextKey := (it.drop (r.offset + limit)).head?.map (·.1),
            total := if countTotal then it.length else 0 }

/-- `bytes.HasPrefix` -/
def hasPrefix (p k : String) : Bool := p.toList.isPrefixOf k.toList

/-- the content of `prefix.NewStore(store, p)`: the entries whose raw key starts with `p` (with
their full keys: the prefix store strips `p` only when it hands keys out) -/
def underPrefix {V : Type} (entries : List (String × V)) (p : String) : List (String × V) :=
  entries.filter (fun e => hasPrefix p e.1)

/-- `query.Paginate` on a prefix store: keys on the wire (`PageRequest.Key`, `NextKey`) are relative
to the prefix, the iteration itself compares full keys -/
def paginateUnder {V : Type} (entries : List (String × V)) (p : String) (r : PageReq) : Except String (PageRes V) :=
  match paginate (underPrefix entries p) { r with key := r.key.map (fun k => p ++ k) } with
  | .error e => .error e
  | .ok res => .ok { res with nextKey := res.nextKey.map (fun k => (k.drop p.length).toString) }

/-- ascending raw-key order -/
def sortByKey {V : Type} (entries : List (String × V)) : List (String × V) :=
  entries.mergeSort (fun a b => decide (a.1 ≤ b.1))

/-- a client walking a listing page by page through `NextKey` (the way `--page-key` is used);
`fuel` bounds the number of requests -/
def walk {V : Type} (entries : List (String × V)) (limit : Nat) (reverse : Bool) :
    Nat → Option String → List V → Option (List V)
  | 0, _, _ => none
  | fuel + 1, key, acc =>
    match paginate entries { key := key, limit := limit, reverse := reverse } with
    | .error _ => none
    | .ok res =>
      match res.nextKey with
      | none => some (acc ++ res.items)
      | some k => walk entries limit reverse fuel (some k) (acc ++ res.items)

end Canine.Query
