/-
The gRPC query server of x/jklmint (keeper/grpc_query_inflation.go, grpc_query_minted.go, keeper.go
`GetInflation`) over the state the emission model uses.  Core Lean only.
-/
import Canine.Mint.Model
import Canine.Basic.Int64
namespace Canine.Mint.Query

/-- `GetInflation` asked inside block `h`: the emission recorded for `h − 1` (the parameter
`TokensPerBlock` when there is no such record) times the blocks of a year — an `int64` product —
over the current supply of the mint denomination, as an `sdk.Dec` (`Quo`: half-even at the 18th
decimal); zero when the supply is zero. -/
def inflation (p : Params) (lastRecorded : Option Int) (supply : Int) : Dec :=
  if supply = 0 then Dec.zero
  else
    let perYear := I64.mul 5256000 (lastRecorded.getD p.tokensPerBlock)
    (Dec.quo? (Dec.ofInt perYear) (Dec.ofInt supply)).getD Dec.zero

/-- `MintedTokens(height)`: the `Minted` field of the record of that height, the zero value when
there is none -/
def mintedTokens (recorded : Option Int) : Int := recorded.getD 0

end Canine.Mint.Query
