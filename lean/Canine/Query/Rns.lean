/-
The gRPC query server of x/rns (x/rns/keeper/grpc_query_*.go) over the `State` of the message
model.  Raw keys: every rns store keys its records by `index ++ "/"` (names: "name.tld/").

`Name` parses the requested string like the messages do (`GetNameAndTLD`, then `GetSubdomain` on
the label: text before the first '.' is a record name), looks the name up lower-cased and returns
the record of that name when the parent has one (compared as sent), the parent otherwise.
`ListOwnedNames` walks the whole name store and hands out the names whose owner string equals the
address, stopping once more than `limit` were found (so up to `limit + 1`; 100 without a
pagination request); it returns no `NextKey`.  Core Lean only.
-/
import Canine.Rns.Model
import Canine.Query.Page
namespace Canine.Rns.Query
open Canine.Query

def rawKey (k : String) : String := k ++ "/"

def nameEntries (s : State) : List (String × NameRec) := sortByKey (s.names.map (fun kv => (rawKey kv.1, kv.2)))
def bidEntries (s : State) : List (String × BidRec) := sortByKey (s.bids.map (fun kv => (rawKey kv.1, kv.2)))
def saleEntries (s : State) : List (String × Listing) := sortByKey (s.forsale.map (fun kv => (rawKey kv.1, kv.2)))
def initEntries (s : State) : List (String × Bool) := sortByKey (s.inits.map (fun kv => (rawKey kv.1, kv.2)))

inductive Q where
  /-- `lname` = `strings.ToLower name` (applied by the harness with Go's own function) -/
  | name (name lname : String)
  | primaryName (owner : String)
  | listOwnedNames (address : String) (page : Option PageReq)
  | allNames (page : PageReq)
  | bid (index : String)
  | allBids (page : PageReq)
  | forSale (name : String)
  | allForSale (page : PageReq)
  | init (address : String)
  | allInits (page : PageReq)
  /-- `Keeper.Resolve` — what the other modules use to turn a recipient / referrer string into an
  account; `lname` = `strings.ToLower name` -/
  | resolve (name lname : String)
  deriving Repr, Inhabited

inductive Resp where
  | err
  | name (n : NameRec)
  | names (items : List NameRec) (nextKey : Option String) (total : Nat)
  | bid (b : BidRec)
  | bids (items : List BidRec) (nextKey : Option String) (total : Nat)
  | listing (l : Listing)
  | listings (items : List Listing) (nextKey : Option String) (total : Nat)
  | flag (b : Bool)
  | flags (items : List Bool) (nextKey : Option String) (total : Nat)
  | addr (a : String)
  deriving DecidableEq, Repr, Inhabited

def paged {V : Type} (mk : List V → Option String → Nat → Resp) (entries : List (String × V)) (r : PageReq) : Resp :=
  match paginate entries r with
  | .error _ => .err
  | .ok res => mk res.items res.nextKey res.total

/-- `GetSubdomain`: (record, label, has a record part) — the text before the first '.' and the
text between the first and the second '.' -/
def getSubdomain (n : String) : String × String × Bool :=
  match n.splitOn "." with
  | [_] => ("", n, false)
  | a :: b :: _ => (a, b, true)
  | [] => ("", n, false)

/-- a stored record of a name, as the `Names` message the query returns -/
def subAsName (r : SubRec) : NameRec :=
  { name := r.name, tld := r.tld, expires := r.expires, value := r.value, data := r.data, locked := 0, subs := [] }

def nameQuery (s : State) (raw lname : String) : Resp :=
  match nameAndTLD raw, nameAndTLD lname with
  | some (n, tld), some (ln, _) =>
    let (sub, _, hasSub) := getSubdomain n
    let (_, lparent, _) := getSubdomain ln
    let label := if hasSub then lparent else ln
    match AMap.get s.names (nameKey label tld) with
    | none => .err
    | some w =>
      if hasSub then
        match w.subs.find? (fun r => r.name = sub) with
        | some r => .name (subAsName r)
        | none => .name w
      else .name w
  | _, _ => .err

/-- `GetPrimaryName`: the stored "name.tld" split on '.', looked up as a name -/
def primaryQuery (s : State) (owner : String) : Resp :=
  match AMap.get s.primary owner with
  | none => .err
  | some n =>
    match n.splitOn "." with
    | a :: b :: _ =>
      match AMap.get s.names (nameKey a.toLower b.toLower) with
      | some w => .name w
      | none => .err
    | _ => .err

/-- `Keeper.Resolve`: a string that is an address resolves to itself; otherwise it is parsed as a
name (the *whole* text before the TLD is the name — a dotted label is a name of its own, not a
record of its parent), looked up lower-cased, and the owner recorded there is the answer when it
is an address -/
def resolve (s : State) (raw lname : String) : Option String :=
  match acct s raw with
  | some a => some a
  | none =>
    if raw.length = 0 then none
    else
      match nameAndTLD raw, nameAndTLD lname with
      | some (_, tld), some (ln, _) =>
        match AMap.get s.names (nameKey ln tld) with
        | some w => acct s w.value
        | none => none
      | _, _ => none

def listOwned (s : State) (address : String) (page : Option PageReq) : Resp :=
  let reverse := match page with | some p => p.reverse | none => false
  let limit := match page with | some p => p.limit | none => 100
  let it := if reverse then (nameEntries s).reverse else nameEntries s
  let mine := (it.map (·.2)).filter (fun w => w.value = address)
  let got := mine.take (limit + 1)
  .names got none got.length

def run (s : State) : Q → Resp
  | .name raw lname => nameQuery s raw lname
  | .primaryName o => primaryQuery s o
  | .listOwnedNames a p => listOwned s a p
  | .allNames p => paged .names (nameEntries s) p
  | .bid i => match AMap.get s.bids i with | some b => .bid b | none => .err
  | .allBids p => paged .bids (bidEntries s) p
  | .forSale n => match AMap.get s.forsale n with | some l => .listing l | none => .err
  | .allForSale p => paged .listings (saleEntries s) p
  | .init a => .flag (AMap.contains s.inits a)
  | .allInits p => paged .flags (initEntries s) p
  | .resolve raw lname => match resolve s raw lname with | some a => .addr a | none => .err

end Canine.Rns.Query
