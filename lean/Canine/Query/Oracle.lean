/-
The gRPC query server of x/oracle over the `State` of the feed model: `Feed(name)` reads the
record under "name/", `AllFeeds` pages over the feed store.  Core Lean only.
-/
import Canine.Oracle.Model
import Canine.Query.Page
namespace Canine.Oracle.Query
open Canine.Query

def feedEntries (s : State) : List (String × Feed) := sortByKey (s.feeds.map (fun kv => (kv.1 ++ "/", kv.2)))

inductive Q where
  | feed (name : String)
  | allFeeds (page : PageReq)
  deriving Repr, Inhabited

inductive Resp where
  | err
  | feed (f : Feed)
  | feeds (items : List Feed) (nextKey : Option String) (total : Nat)
  deriving DecidableEq, Repr, Inhabited

def run (s : State) : Q → Resp
  | .feed n => match AMap.get s.feeds n with | some f => .feed f | none => .err
  | .allFeeds p =>
    match paginate (feedEntries s) p with
    | .error _ => .err
    | .ok res => .feeds res.items res.nextKey res.total

end Canine.Oracle.Query
