/-
The gRPC query server of x/notifications over the `State` of the message model.  A raw key is
the '/'-joined rendering of its segments; notifications ("to/from/time") and block entries
("owner/blocked") share one store.

`AllNotifications` pages over *all* keys of that store and skips block entries only when handing
values out: a page of `limit` keys can hold fewer notifications, and `Total` counts block entries
too.  `AllNotificationsByAddress` reads the whole inbox (`GetAllNotificationsByAddress`: prefix scan
`to/`, notification-shaped keys only) and cuts a window out of it: `limit` (100 when 0), offset
rounded *down* to a multiple of the limit (`ParsePagination` turns it into a page number), `Total`
= the number returned, no `NextKey`; a page key is ignored.  Core Lean only.
-/
import Canine.Notif.Model
import Canine.Query.Page
namespace Canine.Notif.Query
open Canine.Query

def segStr : Seg → String
  | .s v => v
  | .n v => toString v

def rawKey (k : Key) : String := "/".intercalate (k.map segStr)

def entries (s : State) : List (String × (Key × Entry)) := sortByKey (s.store.map (fun kv => (rawKey kv.1, (kv.1, kv.2))))

inductive Q where
  | notification (to sender : String) (time : Int)
  | allNotifications (page : PageReq)
  | byAddress (to : String) (page : Option PageReq)
  deriving Repr, Inhabited

inductive Resp where
  | err
  | notif (n : Notif)
  | notifs (items : List Notif) (nextKey : Option String) (total : Nat)
  deriving DecidableEq, Repr, Inhabited

/-- `strings.Count(key, "/") >= 2` on the raw key -/
def isNotifRaw (raw : String) : Bool := decide (3 ≤ (raw.splitOn "/").length)

def inboxRaw (s : State) (to : String) : List Notif :=
  ((underPrefix (entries s) (to ++ "/")).filter (fun e => isNotifRaw e.1)).map (fun e => asNotif e.2.2)

def run (s : State) : Q → Resp
  | .notification to sender time =>
    match (entries s).find? (fun e => e.1 = to ++ "/" ++ sender ++ "/" ++ toString time) with
    | some e => .notif (asNotif e.2.2)
    | none => .err
  | .allNotifications p =>
    match paginate (entries s) p with
    | .error _ => .err
    | .ok res => .notifs ((res.items.filter (fun ke => isNotifRaw (rawKey ke.1))).map (fun ke => asNotif ke.2)) res.nextKey res.total
  | .byAddress to page =>
    let offset := match page with | some p => p.offset | none => 0
    let limit0 := match page with | some p => p.limit | none => 0
    let limit := if limit0 = 0 then 100 else limit0
    let off := (offset / limit) * limit
    let all := inboxRaw s to
    if off > all.length then .notifs [] none 0
    else
      let got := (all.drop off).take limit
      .notifs got none got.length

end Canine.Notif.Query
