/-
The gRPC query server of x/storage (x/storage/keeper/grpc_query_*.go) over the same `State` the
message model uses.  A listing is `query.Paginate` (Canine/Query/Page.lean) over the prefix store
in raw-key order, so the raw keys are rebuilt here from the decoded keys with the chain's own
formats (x/storage/types/key_*.go; fingerprinted in Generated/KeyFacts.lean):

    FilesByMerkle/value/  "%x/%s/%d/"     merkle, owner, start
    FilesByOwner/value/   "%s/%x/%d/"     owner, merkle, start
    FileProof/value/      "%s/%s/%x/%d/"  prover, owner, merkle, start
    Providers/value/, StoragePaymentInfo/value/   address ++ "/"
    PaymentGauge/value/   id ++ "/"  (binary: handled in lower-case hex, which orders like the bytes)
    Attestation/value/, Report/value/  "%s/%x/%s/%d"  prover, merkle, owner, start

`AllFilesByMerkle`, `AllFilesByOwner` and `ProofsByAddress` scan a prefix *without* terminator
(the merkle / owner / prover string itself): a longer merkle that starts with the requested one
is listed too — reproduced here.  Core Lean only.
-/
import Canine.Storage.Model
import Canine.Query.Page
namespace Canine.Storage.Query
open Canine.Query

def fileKeyStr (k : FKey) : String := k.1 ++ "/" ++ k.2.1 ++ "/" ++ toString k.2.2 ++ "/"
def fileKey2Str (k : FKey) : String := k.2.1 ++ "/" ++ k.1 ++ "/" ++ toString k.2.2 ++ "/"
def proofKeyStr (pk : PKey) : String := pk.1 ++ "/" ++ pk.2.2.1 ++ "/" ++ pk.2.1 ++ "/" ++ toString pk.2.2.2 ++ "/"
def formKeyStr (pk : PKey) : String := pk.1 ++ "/" ++ pk.2.1 ++ "/" ++ pk.2.2.1 ++ "/" ++ toString pk.2.2.2
def addrKeyStr (a : String) : String := a ++ "/"
/-- hex of the id followed by hex of "/" -/
def gaugeKeyStr (idHex : String) : String := idHex ++ "2f"

def primaryEntries (s : State) : List (String × File) := sortByKey (s.files.map (fun kv => (fileKeyStr kv.1, kv.2)))
def secondaryEntries (s : State) : List (String × File) := sortByKey (s.files2.map (fun kv => (fileKey2Str kv.1, kv.2)))
def proofEntries (s : State) : List (String × Proof) := sortByKey (s.proofs.map (fun kv => (proofKeyStr kv.1, kv.2)))
def providerEntries (s : State) : List (String × Provider) := sortByKey (s.providers.map (fun kv => (addrKeyStr kv.1, kv.2)))
def payInfoEntries (s : State) : List (String × PayInfo) := sortByKey (s.payinfo.map (fun kv => (addrKeyStr kv.1, kv.2)))
def gaugeEntries (s : State) : List (String × Gauge) := sortByKey (s.gauges.map (fun kv => (gaugeKeyStr kv.1, kv.2)))
def attestEntries (s : State) : List (String × Form) := sortByKey (s.attests.map (fun kv => (formKeyStr kv.1, kv.2)))
def reportEntries (s : State) : List (String × Form) := sortByKey (s.reports.map (fun kv => (formKeyStr kv.1, kv.2)))

inductive Q where
  | file (merkle owner : String) (start : Int)
  | allFiles (page : PageReq)
  | allFilesByMerkle (merkle : String) (page : PageReq)
  | allFilesByOwner (owner : String) (page : PageReq)
  | openFiles (provider : String) (page : Option PageReq)
  | proof (prover merkle owner : String) (start : Int)
  | allProofs (page : PageReq)
  | proofsByAddress (prover : String) (page : PageReq)
  | payInfo (address : String)
  | allPayInfo (page : PageReq)
  | payData (address : String)
  | clientFreeSpace (address : String)
  | fileUploadCheck (address : String) (bytes : Int)
  | provider (address : String)
  | allProviders (page : PageReq)
  | gauges (page : PageReq)
  | findFile (merkle : String)
  | attestation (prover merkle owner : String) (start : Int)
  | allAttestations (page : PageReq)
  | report (prover merkle owner : String) (start : Int)
  | allReports (page : PageReq)
  deriving Repr, Inhabited

inductive Resp where
  | err
  | file (f : File)
  | files (items : List File) (nextKey : Option String) (total : Nat)
  | proof (p : Proof)
  | proofs (items : List Proof) (nextKey : Option String) (total : Nat)
  | payInfo (p : PayInfo)
  | payInfos (items : List PayInfo) (nextKey : Option String) (total : Nat)
  | payData (timeRemaining bytes : Int)
  | num (v : Int)
  | flag (b : Bool)
  | provider (p : Provider)
  | providers (items : List Provider) (nextKey : Option String) (total : Nat)
  | gauges (items : List Gauge) (nextKey : Option String) (total : Nat)
  | strs (l : List String)
  | form (f : Form)
  | forms (items : List Form) (nextKey : Option String) (total : Nat)
  deriving DecidableEq, Repr, Inhabited

def paged {V : Type} (mk : List V → Option String → Nat → Resp) (entries : List (String × V)) (r : PageReq) : Resp :=
  match paginate entries r with
  | .error _ => .err
  | .ok res => mk res.items res.nextKey res.total

def pagedUnder {V : Type} (mk : List V → Option String → Nat → Resp) (entries : List (String × V)) (p : String) (r : PageReq) : Resp :=
  match paginateUnder entries p r with
  | .error _ => .err
  | .ok res => mk res.items res.nextKey res.total

/-- `UnifiedFile.ContainsProver`: the proof key built from the address and the file's own key is listed -/
def containsProver (f : File) (prover : String) : Bool := f.proofs.contains (prover, f.key)

/-- `OpenFiles`: files the provider does not hold and that still have room, in (reverse) primary
order; no `NextKey`; `Total` counts all of them, `limit` of them are returned (100 without a
pagination request; a request with limit 0 returns none) -/
def openFiles (s : State) (provider : String) (page : Option PageReq) : Resp :=
  let reverse := match page with | some p => p.reverse | none => false
  let limit := match page with | some p => p.limit | none => 100
  let it := if reverse then (primaryEntries s).reverse else primaryEntries s
  let open_ := (it.map (·.2)).filter (fun f => !containsProver f provider && decide ((f.proofs.length : Int) < f.maxProofs))
  .files (open_.take limit) none open_.length

/-- `FindFile`: the ip of every listed prover (with a proof record and a provider record) of every
file under the merkle prefix, in store order -/
def findFile (s : State) (merkle : String) : List String :=
  ((underPrefix (primaryEntries s) merkle).map (·.2)).flatMap (fun f =>
    f.proofs.filterMap (fun pk =>
      match AMap.get s.proofs pk with
      | none => none
      | some p => (AMap.get s.providers p.prover).map (·.ip)))

/-- floor seconds of a Unix-nanosecond instant (`time.Time.Unix`) -/
def unixSec (ns : Int) : Int := ns / 1000000000

def run (s : State) (now : Int) : Q → Resp
  | .file m o st => match AMap.get s.files (m, o, st) with | some f => .file f | none => .err
  | .allFiles p => paged .files (primaryEntries s) p
  | .allFilesByMerkle m p => pagedUnder .files (primaryEntries s) m p
  | .allFilesByOwner o p => pagedUnder .files (secondaryEntries s) o p
  | .openFiles pr p => openFiles s pr p
  | .proof pr m o st => match AMap.get s.proofs (pr, m, o, st) with | some p => .proof p | none => .err
  | .allProofs p => paged .proofs (proofEntries s) p
  | .proofsByAddress pr p => pagedUnder .proofs (proofEntries s) pr p
  | .payInfo a => match AMap.get s.payinfo a with | some p => .payInfo p | none => .err
  | .allPayInfo p => paged .payInfos (payInfoEntries s) p
  | .payData a =>
    match AMap.get s.payinfo a with
    | none => .payData (-1) 0
    | some p => .payData (unixSec p.endT - unixSec now) p.spaceAvailable
  | .clientFreeSpace a =>
    match AMap.get s.payinfo a with
    | none => .num 0
    | some p => .num (I64.wrap (p.spaceAvailable - p.spaceUsed))
  | .fileUploadCheck a b =>
    match AMap.get s.payinfo a with
    | none => .err
    | some p => if b < 0 then .err else .flag (decide (I64.wrap (p.spaceAvailable - p.spaceUsed) < b))
  | .provider a => match AMap.get s.providers a with | some p => .provider p | none => .err
  | .allProviders p => paged .providers (providerEntries s) p
  | .gauges p => paged .gauges (gaugeEntries s) p
  | .findFile m => .strs (findFile s m)
  | .attestation pr m o st => match AMap.get s.attests (pr, m, o, st) with | some f => .form f | none => .err
  | .allAttestations p => paged .forms (attestEntries s) p
  | .report pr m o st => match AMap.get s.reports (pr, m, o, st) with | some f => .form f | none => .err
  | .allReports p => paged .forms (reportEntries s) p

end Canine.Storage.Query
