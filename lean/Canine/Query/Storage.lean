/-
The gRPC query server of x/storage (x/storage/keeper/grpc_query_*.go) over the same `State` the
message model uses.  A listing is `query.Paginate` (Canine/Query/Page.lean) over the prefix store
in raw-key order, so the raw keys are rebuilt here from the decoded keys with the chain's own
formats (x/storage/types/key_*.go; fingerprinted in Generated/KeyFacts.lean):

    FilesByMerkle/value/  "%x/%s/%d/"     merkle, owner, start
    FilesByOwner/value/   "%s/%x/%d/"     owner, merkle, start
    FileProof/value/      "%s/%s/%x/%d/"  prover, owner, merkle, start
    Providers/value/, StoragePaymentInfo/value/   address ++ "/"
    PaymentGauge/value/   id ++ "/"  (binary: handled in lower-case hex, which orders like the bytes)
    Attestation/value/, Report/value/  "%s/%x/%s/%d"  prover, merkle, owner, start

`AllFilesByMerkle`, `AllFilesByOwner` and `ProofsByAddress` scan a prefix *without* terminator
(the merkle / owner / prover string itself): a longer merkle that starts with the requested one
is listed too — reproduced here.  Core Lean only.
-/
import Canine.Storage.Model
import Canine.Query.Page
namespace Canine.Storage.Query
open Canine.Query

def fileKeyStr (k : FKey) : String := k.1 ++ "/" ++ k.2.1 ++ "/" ++ toString k.2.2 ++ "/"
def fileKey2Str (k : FKey) : String := k.2.1 ++ "/" ++ k.1 ++ "/" ++ toString k.2.2 ++ "/"
def proofKeyStr (pk : PKey) : String := pk.1 ++ "/" ++ pk.2.2.1 ++ "/" ++ pk.2.1 ++ "/" ++ toString pk.2.2.2 ++ "/"
def formKeyStr (pk : PKey) : String := pk.1 ++ "/" ++ pk.2.1 ++ "/" ++ pk.2.2.1 ++ "/" ++ toString pk.2.2.2
def addrKeyStr (a : String) : String := a ++ "/"
/-- hex of the id followed by hex of "/" -/
def gaugeKeyStr (idHex : String) : String := idHex ++ "2f"

def primaryEntries (s : State) : List (String × File) := sortByKey (s.files.map (fun kv => (fileKeyStr kv.1, kv.2)))
def secondaryEntries (s : State) : List (String × File) := sortByKey (s.files2.map (fun kv => (fileKey2Str kv.1, kv.2)))
def proofEntries (s : State) : List (String × Proof) := sortByKey (s.proofs.map (fun kv => (proofKeyStr kv.1, kv.2)))
def providerEntries (s : State) : List (String × Provider) := sortByKey (s.providers.map (fun kv => (addrKeyStr kv.1, kv.2)))
def payInfoEntries (s : State) : List (String × PayInfo) := sortByKey (s.payinfo.map (fun kv => (addrKeyStr kv.1, kv.2)))
def gaugeEntries (s : State) : List (String × Gauge) := sortByKey (s.gauges.map (fun kv => (gaugeKeyStr kv.1, kv.2)))
def attestEntries (s : State) : List (String × Form) := sortByKey (s.attests.map (fun kv => (formKeyStr kv.1, kv.2)))
def reportEntries (s : State) : List (String × Form) := sortByKey (s.reports.map (fun kv => (formKeyStr kv.1, kv.2)))

inductive Q where
  | file (merkle owner : String) (start : Int)
  | allFiles (page : PageReq)
  | allFilesByMerkle (merkle : String) (page : PageReq)
  | allFilesByOwner (owner : String) (page : PageReq)
  | openFiles (provider : String) (page : Option PageReq)
  | proof (prover merkle owner : String) (start : Int)
  | allProofs (page : PageReq)
  | proofsByAddress (prover : String) (page : PageReq)
  | payInfo (address : String)
  | allPayInfo (page : PageReq)
  | payData (address : String)
  | clientFreeSpace (address : String)
  | fileUploadCheck (address : String) (bytes : Int)
  | provider (address : String)
  | allProviders (page : PageReq)
  | gauges (page : PageReq)
  | findFile (merkle : String)
  | attestation (prover merkle owner : String) (start : Int)
  | allAttestations (page : PageReq)
  | report (prover merkle owner : String) (start : Int)
  | allReports (page : PageReq)
  | freeSpace (address : String)
  | storeCount (address : String)
  | priceCheck (duration bytes jklPrice : Int)          -- jklPrice: the raw `sdk.Dec` the chain reads (oracle input)
  | activeProviders
  | networkSize
  | availableSpace
  | storageStats
  deriving Repr, Inhabited

inductive Resp where
  | err
  | file (f : File)
  | files (items : List File) (nextKey : Option String) (total : Nat)
  | proof (p : Proof)
  | proofs (items : List Proof) (nextKey : Option String) (total : Nat)
  | payInfo (p : PayInfo)
  | payInfos (items : List PayInfo) (nextKey : Option String) (total : Nat)
  | payData (timeRemaining bytes : Int)
  | num (v : Int)
  | flag (b : Bool)
  | provider (p : Provider)
  | providers (items : List Provider) (nextKey : Option String) (total : Nat)
  | gauges (items : List Gauge) (nextKey : Option String) (total : Nat)
  | strs (l : List String)
  | form (f : Form)
  | forms (items : List Form) (nextKey : Option String) (total : Nat)
  | stats (purchased used usedRatio : Int) (activeUsers uniqueUsers : Nat) (usersByPlan : List (Int × Int))
  deriving DecidableEq, Repr, Inhabited

def paged {V : Type} (mk : List V → Option String → Nat → Resp) (entries : List (String × V)) (r : PageReq) : Resp :=
  match paginate entries r with
  | .error _ => .err
  | .ok res => mk res.items res.nextKey res.total

def pagedUnder {V : Type} (mk : List V → Option String → Nat → Resp) (entries : List (String × V)) (p : String) (r : PageReq) : Resp :=
  match paginateUnder entries p r with
  | .error _ => .err
  | .ok res => mk res.items res.nextKey res.total

/-- `UnifiedFile.ContainsProver`: the proof key built from the address and the file's own key is listed -/
def containsProver (f : File) (prover : String) : Bool := f.proofs.contains (prover, f.key)

/-- `OpenFiles`: files the provider does not hold and that still have room, in (reverse) primary
order; no `NextKey`; `Total` counts all of them, `limit` of them are returned (100 without a
pagination request; a request with limit 0 returns none) -/
def openFiles (s : State) (provider : String) (page : Option PageReq) : Resp :=
  let reverse := match page with | some p => p.reverse | none => false
  let limit := match page with | some p => p.limit | none => 100
  let it := if reverse then (primaryEntries s).reverse else primaryEntries s
  let open_ := (it.map (·.2)).filter (fun f => !containsProver f provider && decide ((f.proofs.length : Int) < f.maxProofs))
  .files (open_.take limit) none open_.length

/-- `FindFile`: the ip of every listed prover (with a proof record and a provider record) of every
file under the merkle prefix, in store order -/
def findFile (s : State) (merkle : String) : List String :=
  ((underPrefix (primaryEntries s) merkle).map (·.2)).flatMap (fun f =>
    f.proofs.filterMap (fun pk =>
      match AMap.get s.proofs pk with
      | none => none
      | some p => (AMap.get s.providers p.prover).map (·.ip)))


/-! ### the statistics and helper queries (grpc_query_storage_stats.go, _freespace.go, _price_check.go, _providers.go) -/

/-- `strconv.ParseInt(s, 10, 64)` / `sdk.NewIntFromString(s)` followed by `Int64()`: an optional
sign, then decimal digits only, the value within int64 (otherwise an error, resp. a panic) -/
def parseInt64 (s : String) : Option Int :=
  let cs := s.toList
  let (neg, ds) : Bool × List Char :=
    match cs with
    | '+' :: r => (false, r)
    | '-' :: r => (true, r)
    | r => (false, r)
  if ds.isEmpty || !ds.all Char.isDigit then none
  else
    let n : Int := ds.foldl (fun (a : Int) c => a * 10 + ((c.toNat - 48 : Nat) : Int)) 0
    let v : Int := if neg then -n else n
    if I64.inRange v then some v else none

/-- `uint64(x)` of an int64 -/
def u64 (x : Int) : Int := x % 18446744073709551616

/-- `GetAllProofsForProver`: the proof records under the prover prefix (no terminator) in store order -/
def proofsOf (s : State) (prover : String) : List Proof := (underPrefix (proofEntries s) prover).map (·.2)

/-- `GetProviderUsing`: the sizes of the files the prover's records point to (int64 sum) -/
def providerUsing (s : State) (prover : String) : Int :=
  (proofsOf s prover).foldl (fun acc p =>
    match AMap.get s.files (p.merkle, p.owner, p.start) with
    | some f => I64.add acc f.fileSize
    | none => acc) 0

/-- `GetAllActiveProviders`: the provider records, in store order, that hold at least one proof record -/
def activeProviders (s : State) : List String :=
  (providerEntries s).filterMap (fun e => if (proofsOf s e.2.address).isEmpty then none else some e.2.address)

/-- `NetworkSize`: Σ uint64(FileSize·MaxProofs) over the primary index, in uint64 -/
def networkSize (s : State) : Int :=
  (primaryEntries s).foldl (fun acc e => u64 (acc + u64 (I64.mul e.2.fileSize e.2.maxProofs))) 0

/-- `AvailableSpace`: Σ uint64(total space) of the active providers whose total space parses -/
def availableSpace (s : State) : Int :=
  (activeProviders s).foldl (fun acc a =>
    match AMap.get s.providers a with
    | none => acc
    | some p =>
      match parseInt64 p.totalspace with
      | none => acc
      | some v => u64 (acc + u64 v)) 0

/-- `PriceCheck` -/
def priceCheck (s : State) (duration bytes : Int) (jklPrice : Dec) : Resp :=
  let dur := I64.mul (I64.mul duration 3600000000000) 24
  let month : Int := 3600000000000 * 24 * 30
  if dur - Int.tmod dur month ≤ 0 then .err
  else
    let mbs0 := Int.tdiv bytes 1000000
    let mbs := if mbs0 ≤ 0 then 1 else mbs0
    let hours := Dec.trunc ((Dec.quo? (Dec.ofInt (Int.tdiv dur 1000000)) (Dec.ofInt 3600000)).getD Dec.zero)
    match storageCostKbs s.params.pricePerTbPerMonth (I64.mul mbs 1000) hours jklPrice with
    | none => .err
    | some c => if I64.inRange c then .num c else .err

/-- insertion sort of the plan table by plan size (the Go map is compared as a sorted list) -/
def insertPlan (k : Int) : List (Int × Int) → List (Int × Int)
  | [] => [(k, 1)]
  | (k', n) :: t => if k = k' then (k', I64.add n 1) :: t else if k < k' then (k, 1) :: (k', n) :: t else (k', n) :: insertPlan k t

def addUser (l : List String) (a : String) : List String := if l.contains a then l else a :: l

/-- `StorageStats` at block time `now` -/
def storageStats (s : State) (now : Int) : Resp :=
  let (purchased0, active0, all0, plans) :=
    (payInfoEntries s).foldl (fun (acc : Int × List String × List String × List (Int × Int)) e =>
      let (pu, ac, al, pl) := acc
      let al' := addUser al e.2.address
      if e.2.endT < now then (pu, ac, al', pl)
      else (I64.add pu e.2.spaceAvailable, addUser ac e.2.address, al', insertPlan e.2.spaceAvailable pl)) (0, [], [], [])
  let (purchased, used, active, all) :=
    (primaryEntries s).foldl (fun (acc : Int × Int × List String × List String) e =>
      let (pu, us, ac, al) := acc
      let m := I64.mul e.2.fileSize e.2.maxProofs
      let pu' : Int := if (0 : Int) < e.2.expires then I64.add pu m else pu
      (pu', I64.add us m, addUser ac e.2.owner, addUser al e.2.owner))
      (purchased0, 0, active0, all0)
  match Dec.quo? (Dec.ofInt used) (Dec.ofInt purchased) with
  | none => .err                                         -- `Quo` by zero panics; the gRPC layer recovers
  | some q => .stats (u64 purchased) (u64 used) (Dec.mulInt q 100).raw active.length all.length plans

/-- floor seconds of a Unix-nanosecond instant (`time.Time.Unix`) -/
def unixSec (ns : Int) : Int := ns / 1000000000

def run (s : State) (now : Int) : Q → Resp
  | .file m o st => match AMap.get s.files (m, o, st) with | some f => .file f | none => .err
  | .allFiles p => paged .files (primaryEntries s) p
  | .allFilesByMerkle m p => pagedUnder .files (primaryEntries s) m p
  | .allFilesByOwner o p => pagedUnder .files (secondaryEntries s) o p
  | .openFiles pr p => openFiles s pr p
  | .proof pr m o st => match AMap.get s.proofs (pr, m, o, st) with | some p => .proof p | none => .err
  | .allProofs p => paged .proofs (proofEntries s) p
  | .proofsByAddress pr p => pagedUnder .proofs (proofEntries s) pr p
  | .payInfo a => match AMap.get s.payinfo a with | some p => .payInfo p | none => .err
  | .allPayInfo p => paged .payInfos (payInfoEntries s) p
  | .payData a =>
    match AMap.get s.payinfo a with
    | none => .payData (-1) 0
    | some p => .payData (unixSec p.endT - unixSec now) p.spaceAvailable
  | .clientFreeSpace a =>
    match AMap.get s.payinfo a with
    | none => .num 0
    | some p => .num (I64.wrap (p.spaceAvailable - p.spaceUsed))
  | .fileUploadCheck a b =>
    match AMap.get s.payinfo a with
    | none => .err
    | some p => if b < 0 then .err else .flag (decide (I64.wrap (p.spaceAvailable - p.spaceUsed) < b))
  | .provider a => match AMap.get s.providers a with | some p => .provider p | none => .err
  | .allProviders p => paged .providers (providerEntries s) p
  | .gauges p => paged .gauges (gaugeEntries s) p
  | .findFile m => .strs (findFile s m)
  | .attestation pr m o st => match AMap.get s.attests (pr, m, o, st) with | some f => .form f | none => .err
  | .allAttestations p => paged .forms (attestEntries s) p
  | .report pr m o st => match AMap.get s.reports (pr, m, o, st) with | some f => .form f | none => .err
  | .allReports p => paged .forms (reportEntries s) p
  | .freeSpace a =>
    match AMap.get s.providers a with
    | none => .err
    | some p =>
      match parseInt64 p.totalspace with
      | none => .err
      | some v => .num (I64.sub v (providerUsing s a))
  | .storeCount a => .num (proofsOf s a).length
  | .priceCheck d b jp => priceCheck s d b ⟨jp⟩
  | .activeProviders => .strs (activeProviders s)
  | .networkSize => .num (networkSize s)
  | .availableSpace => .num (availableSpace s)
  | .storageStats => storageStats s now

end Canine.Storage.Query
