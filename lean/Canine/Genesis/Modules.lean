/-
Genesis export / validation / import of the six custom modules over the *concrete* module models
(x/<module>/genesis.go, x/<module>/types/genesis.go and the keepers' `GetAll…` / `Set…`).

Conventions shared by all six modules:

* A prefix store of the chain is an `AMap K V` of the module model, `K` the *decoded* key.  The
  store iterator (`sdk.KVStorePrefixIterator(store, []byte{})`) yields the records in ascending
  raw-key order — `inStoreOrder raw m`, with `raw` the chain's own key format (the same functions
  the query servers in Canine/Query/*.lean use; the order in which the association list happens to
  hold its bindings is *not* observable on the chain and is not used).
* `GetAll…` = the values in that order (`getAll`).
* a loop `for _, elem := range list { k.Set…(ctx, elem) }` = `setAll keyOf list store`: each value is
  written under the key the setter builds from the value's own fields.
* the duplicate-index loops of `GenesisState.Validate` = `noDup` over the raw keys of a list.
* `initGenesis s0 g` runs the Go `InitGenesis` on the state `s0`; a fresh chain is `blank s`: every
  store the module owns is empty, everything the module does not own (bank, address tables,
  module-account names …) is as in `s`.

Core Lean only.
-/
import Canine.Genesis.Model
import Canine.Query.Oracle
import Canine.Query.Filetree
import Canine.Query.Notif
import Canine.Query.Rns
import Canine.Query.Storage
import Canine.Mint.Model
namespace Canine.Genesis
open Canine.Query (sortByKey)

section Generic
variable {K V : Type}

/-- the records of one prefix store in iterator order: ascending raw key -/
def inStoreOrder (raw : K → String) (m : AMap K V) : AMap K V :=
  (sortByKey (m.map (fun kv => (raw kv.1, kv)))).map (·.2)

/-- `GetAll…`: the record the iterator decodes at each position (`mk` rebuilds the stored message
from the decoded key and the part of the value the model keeps) -/
def getAllWith {R : Type} (raw : K → String) (mk : K × V → R) (m : AMap K V) : List R := (inStoreOrder raw m).map mk

/-- `GetAll…` for a store whose model value is the whole stored message -/
def getAll (raw : K → String) (m : AMap K V) : List V := getAllWith raw (·.2) m

/-- `for _, elem := range l { k.Set…(ctx, elem) }`: every record under the key built from its own
fields (`valOf`: the part of the message the model keeps as the value) -/
def setAllWith {R : Type} [DecidableEq K] (keyOf : R → K) (valOf : R → V) (l : List R) (store : AMap K V) : AMap K V :=
  l.foldl (fun a r => AMap.set a (keyOf r) (valOf r)) store

def setAll [DecidableEq K] (keyOf : V → K) (l : List V) (store : AMap K V) : AMap K V :=
  setAllWith keyOf id l store

/-- the duplicate-index loop of `Validate`: no raw key occurs twice (`indexMap[index]` already set → error) -/
def noDup : List String → Bool
  | [] => true
  | k :: t => !t.contains k && noDup t

end Generic

/-! ## x/oracle -/
namespace Oracle
open Canine.Oracle

/-- x/oracle `Params{Deposit}`.  The feed model keeps of it what the handlers use: the deposit
account when the string is a valid address (`State.deposit`). -/
structure Params where
  deposit : Option String
  deriving DecidableEq, Repr, Inhabited

/-- x/oracle/types/genesis.pb.go `GenesisState{Params, FeedList}` -/
structure GenesisState where
  params : Params
  feedList : List Feed
  deriving DecidableEq, Repr, Inhabited

/-- `types.FeedKey(name)` = name ‖ "/" (x/oracle/types/key_feed.go) -/
def feedRaw (name : String) : String := name ++ "/"

/-- x/oracle/genesis.go:21-27 `ExportGenesis`: `GetParams`, `GetAllFeeds` (keeper/feeds.go:47-61,
the prefix iterator over "Feed/value/") -/
def exportGenesis (s : State) : GenesisState :=
  { params := { deposit := s.deposit }, feedList := getAll feedRaw s.feeds }

/-- x/oracle/types/params.go:58-61 `Params.Validate`: the deposit string is not blank.  The model
does not keep the string; every parameter change (genesis, governance) goes through this same
check, so it holds of the parameters of every reachable state. -/
def paramsValid (_ : Params) : Bool := true

/-- x/oracle/types/genesis.go:19-31 `Validate`: no two feeds with the same `FeedKey(elem.Name)`, then the params -/
def validate (g : GenesisState) : Bool :=
  noDup (g.feedList.map (fun f => feedRaw f.name)) && paramsValid g.params

/-- x/oracle/genesis.go:11-18 `InitGenesis`: `SetParams`, then `SetFeed` for every element
(keeper/feeds.go:10-14: under `FeedKey(feed.Name)`) -/
def initGenesis (s0 : State) (g : GenesisState) : State :=
  let s1 := { s0 with deposit := g.params.deposit }
  { s1 with feeds := setAll (fun f => f.name) g.feedList s1.feeds }

/-- a fresh chain: the feed store empty, no parameters yet; bank, module account, blocked list as in `s` -/
def blank (s : State) : State := { s with feeds := [], deposit := none }

end Oracle

/-! ## x/filetree -/
namespace Filetree
open Canine.Filetree

/-- x/filetree `Pubkey{Address, Key}`; the model store keeps `address ↦ key` -/
structure PubkeyRec where
  address : String
  key : String
  deriving DecidableEq, Repr, Inhabited

/-- x/filetree/types/genesis.pb.go `GenesisState{Params, FilesList, PubKeyList}`; `Params` is the
empty message -/
structure GenesisState where
  filesList : List Entry
  pubKeyList : List PubkeyRec
  deriving DecidableEq, Repr, Inhabited

/-- `types.PubkeyKey(address)` = address ‖ "/" -/
def pubkeyRaw (a : String) : String := a ++ "/"

/-- x/filetree/genesis.go:24-34 `ExportGenesis`: `GetAllFiles` (keeper/files.go:75-89, iterator over
"Files/value/", raw key `FilesKey(address, owner)` = address/owner/ — `Query.rawKey`),
`GetAllPubkey` (keeper/pubkey.go:57-71) -/
def exportGenesis (s : State) : GenesisState :=
  { filesList := getAll Query.rawKey s.files,
    pubKeyList := getAllWith pubkeyRaw (fun kv => { address := kv.1, key := kv.2 }) s.pubkeys }

/-- x/filetree/types/genesis.go:22-46 `Validate`: duplicate `FilesKey(elem.Address, elem.Owner)`,
duplicate `PubkeyKey(elem.Address)`; `Params.Validate` returns nil -/
def validate (g : GenesisState) : Bool :=
  noDup (g.filesList.map (fun e => Query.rawKey (e.address, e.owner))) &&
  noDup (g.pubKeyList.map (fun p => pubkeyRaw p.address))

/-- x/filetree/genesis.go:11-21 `InitGenesis`: `SetFiles` for every element (keeper/files.go:10-19:
under `FilesKey(files.Address, files.Owner)`), then `SetPubkey` (keeper/pubkey.go:10-16: under
`PubkeyKey(pubkey.Address)`), then the (empty) params -/
def initGenesis (s0 : State) (g : GenesisState) : State :=
  let s1 := { s0 with files := setAll (fun e => (e.address, e.owner)) g.filesList s0.files }
  { s1 with pubkeys := setAllWith PubkeyRec.address PubkeyRec.key g.pubKeyList s1.pubkeys }

/-- a fresh chain: the module owns everything in the model state -/
def blank (_ : State) : State := { files := [], pubkeys := [] }

end Filetree

/-! ## x/notifications -/
namespace Notif
open Canine.Notif

/-- x/notifications `Block{Address, BlockedAddress}` -/
structure BlockRec where
  address : String
  blockedAddress : String
  deriving DecidableEq, Repr, Inhabited

/-- x/notifications/types/genesis.pb.go `GenesisState{Params, Notifications, Blocks}`; `Params` is
the empty message -/
structure GenesisState where
  notifications : List Notif
  blocks : List BlockRec
  deriving DecidableEq, Repr, Inhabited

/-- what the chain decodes a stored value to when it reads it as a `Block` (a notification has the
same field numbers 1, 2 for to / from) -/
def asBlock : Entry → BlockRec
  | .block o b => { address := o, blockedAddress := b }
  | .notif n => { address := n.to, blockedAddress := n.sender }
  | .other _ => default

/-- the one store ("Notification/") in iterator order; raw key = the '/'-joined segments -/
def storeOrder (s : State) : AMap Key Entry := inStoreOrder Query.rawKey s.store

/-- x/notifications/genesis.go:23-32 `ExportGenesis`: `GetAllNotifications` (keeper/notifications.go:
75-90: the iterator over the shared prefix, skipping keys that are not `IsNotificationKey`) and
`GetAllBlocks` (keeper/blocks.go:56-71: the same iterator, skipping the keys that are) -/
def exportGenesis (s : State) : GenesisState :=
  { notifications := ((storeOrder s).filter (fun kv => isNotificationKey kv.1)).map (fun kv => asNotif kv.2),
    blocks := ((storeOrder s).filter (fun kv => !isNotificationKey kv.1)).map (fun kv => asBlock kv.2) }

def notifRaw (n : Notif) : String := Query.rawKey (notifKey n.to n.sender n.time)
def blockRaw (b : BlockRec) : String := Query.rawKey (blockKey b.address b.blockedAddress)

/-- x/notifications/types/genesis.go:18-40 `Validate`: duplicate `NotificationsKey(to, from, time)`,
duplicate `BlockKey(address, blockedAddress)`; `Params.Validate` returns nil -/
def validate (g : GenesisState) : Bool :=
  noDup (g.notifications.map notifRaw) && noDup (g.blocks.map blockRaw)

/-- x/notifications/genesis.go:11-21 `InitGenesis`: `SetNotification` for every notification
(keeper/notifications.go:11-19: under `NotificationsKey(To, From, Time)`), then `SetBlock` for every
block entry (keeper/blocks.go:10-17: under `BlockKey(Address, BlockedAddress)`) — into the same store -/
def initGenesis (s0 : State) (g : GenesisState) : State :=
  let s1 : State := { store := setAllWith (fun (n : Notif) => notifKey n.to n.sender n.time) Entry.notif g.notifications s0.store }
  { store := setAllWith (fun (b : BlockRec) => blockKey b.address b.blockedAddress)
      (fun b => Entry.block b.address b.blockedAddress) g.blocks s1.store }

def blank (_ : State) : State := { store := [] }

end Notif

/-! ## x/rns -/
namespace Rns
open Canine.Rns

/-- x/rns `Whois{Index, Name, Value, Data}`: a store no message writes and nothing reads (only
`InitGenesis` calls `SetWhois`); the message model has no such store -/
structure Whois where
  index : String
  name : String
  value : String
  data : String
  deriving DecidableEq, Repr, Inhabited

/-- x/rns `Init{Address, Complete}`; the model store keeps `address ↦ complete` -/
structure InitRec where
  address : String
  complete : Bool
  deriving DecidableEq, Repr, Inhabited

/-- x/rns `PrimaryName{Owner, Name}` (genesis only); the store keeps `owner/ ↦ "name.tld"` -/
structure PrimaryName where
  owner : String
  name : String
  deriving DecidableEq, Repr, Inhabited

/-- x/rns/types/genesis.pb.go `GenesisState{Params, WhoIsList, NamesList, BidsList, ForSaleList,
InitList, PrimaryNameList}`; the message model has no rns parameters -/
structure GenesisState where
  whoIsList : List Whois
  namesList : List NameRec
  bidsList : List BidRec
  forSaleList : List Listing
  initList : List InitRec
  primaryNameList : List PrimaryName
  deriving DecidableEq, Repr, Inhabited

/-- x/rns/genesis.go:39-52 `ExportGenesis`: `GetAllWhois` (empty, see `Whois`), `GetAllNames`,
`GetAllBids`, `GetAllForsale`, `GetAllInit` (prefix iterators, raw key index ‖ "/" = `Query.rawKey`),
`GetAllPrimaryNames` (keeper/names.go:57-70: `Owner` = the key without its trailing "/", `Name` =
the stored bytes) -/
def exportGenesis (s : State) : GenesisState :=
  { whoIsList := [],
    namesList := getAll Query.rawKey s.names,
    bidsList := getAll Query.rawKey s.bids,
    forSaleList := getAll Query.rawKey s.forsale,
    initList := getAllWith Query.rawKey (fun kv => { address := kv.1, complete := kv.2 }) s.inits,
    primaryNameList := getAllWith Query.rawKey (fun kv => { owner := kv.1, name := kv.2 }) s.primary }

/-- x/rns/types/genesis.go:26-78 `Validate`: duplicate `WhoisKey(Index)`, `NamesKey(Name, Tld)`,
`BidsKey(Index)`, `ForsaleKey(Name)`, `InitKey(Address)` — the primary-name list is *not* checked -/
def validate (g : GenesisState) : Bool :=
  noDup (g.whoIsList.map (fun w => Query.rawKey w.index)) &&
  noDup (g.namesList.map (fun n => Query.rawKey (nameKey n.name n.tld))) &&
  noDup (g.bidsList.map (fun b => Query.rawKey b.index)) &&
  noDup (g.forSaleList.map (fun l => Query.rawKey l.name)) &&
  noDup (g.initList.map (fun i => Query.rawKey i.address))

/-- x/rns/genesis.go:11-37 `InitGenesis`, in its order: `SetWhois` (no store in the model),
`SetNames` (keeper/names.go:73-80: under `NamesKey(Name, Tld)` = "name.tld/"), `SetBids` (under
`BidsKey(Index)`), `SetForsale` (under `ForsaleKey(Name)`), `SetInit` (under `InitKey(Address)`),
`ImportPrimaryName` (keeper/names.go:49-55: `Name` under `PrimaryNameKey(Owner)`) -/
def initGenesis (s0 : State) (g : GenesisState) : State :=
  let s1 := { s0 with names := setAll (fun n => nameKey n.name n.tld) g.namesList s0.names }
  let s2 := { s1 with bids := setAll (fun b => b.index) g.bidsList s1.bids }
  let s3 := { s2 with forsale := setAll (fun l => l.name) g.forSaleList s2.forsale }
  let s4 := { s3 with inits := setAllWith InitRec.address InitRec.complete g.initList s3.inits }
  { s4 with primary := setAllWith PrimaryName.owner PrimaryName.name g.primaryNameList s4.primary }

/-- a fresh chain: the five rns stores empty; bank, blocked list, account names and the address
canonicalisation table as in `s` -/
def blank (s : State) : State := { s with names := [], forsale := [], bids := [], inits := [], primary := [] }

end Rns

/-! ## x/jklmint -/
namespace Mint
open Canine.Mint

/-- x/jklmint `MintedBlock{Height, Minted, Denom}` -/
structure MintedBlock where
  height : Int
  minted : Int
  denom : String
  deriving DecidableEq, Repr, Inhabited

/-- `types.MintedBlockKey(height)` = "minted_at_<height>" (x/jklmint/types/keys.go:36-38) -/
def mintedKey (h : Int) : String := "minted_at_" ++ toString h

/-- what x/jklmint owns on the chain: the parameters and the per-height emission records
("last_block_minted" prefix), together with the height of the last committed block
(`ctx.BlockHeight()`, which the module does not own).  `Canine.Mint.State.last` is the view of this
store that `BlockMint` takes: the record of the previous height. -/
structure Store where
  params : Params
  minted : AMap String MintedBlock
  height : Int
  deriving DecidableEq, Repr, Inhabited

/-- x/jklmint/types/genesis.pb.go `GenesisState{Params, MintedBlocks}`: ONE record (the zero
message when there is none), not a list -/
structure GenesisState where
  params : Params
  mintedBlocks : MintedBlock
  deriving DecidableEq, Repr, Inhabited

/-- the zero `MintedBlock` of `DefaultGenesis` -/
def noRecord : MintedBlock := { height := 0, minted := 0, denom := "" }

/-- x/jklmint/genesis.go:19-28 `ExportGenesis`: `GetParams`; `GetMintedBlock(ctx, ctx.BlockHeight())`
when found — the record of the LAST height only -/
def exportGenesis (c : Store) : GenesisState :=
  { params := c.params, mintedBlocks := (AMap.get c.minted (mintedKey c.height)).getD noRecord }

/-- x/jklmint/types/genesis.go:15-17 `Validate` = `Params.Validate` (types/params.go:86-122): the five
numeric parameters the model keeps are non-negative (mint denom and stipend address are not modelled) -/
def validate (g : GenesisState) : Bool :=
  decide (0 ≤ g.params.providerRatio) && decide (0 ≤ g.params.tokensPerBlock) && decide (0 ≤ g.params.devGrantsRatio) &&
  decide (0 ≤ g.params.mintDecrease) && decide (0 ≤ g.params.stakerRatio)

/-- x/jklmint/genesis.go:11-17 `InitGenesis`: `SetParams`; `SetMintedBlock(genState.MintedBlocks)`
(keeper/minted_block.go:9-15: under `MintedBlockKey(block.Height)`) when its height is positive -/
def initGenesis (c0 : Store) (g : GenesisState) : Store :=
  let c1 := { c0 with params := g.params }
  { c1 with minted :=
      if 0 < g.mintedBlocks.height then AMap.set c1.minted (mintedKey g.mintedBlocks.height) g.mintedBlocks
      else c1.minted }

/-- a fresh chain that continues at the exported height: no emission record, no parameters yet -/
def blank (c : Store) : Store := { c with minted := [], params := default }

/-- what `BlockMint` at height `h` reads: `GetMintedBlock(ctx, h-1)` (x/jklmint/keeper/mint.go:97-101) -/
def lastOf (c : Store) (h : Int) : Option Int := (AMap.get c.minted (mintedKey (h - 1))).map (·.minted)

/-- `BeginBlock` of the next height over the store: `BlockMint` (the balances model
`Canine.Mint.blockMint`) reading the previous height's record and, when all three ratio sends went
through, `SetMintedBlock{Height: h, Minted: m, Denom: "ujkl"}` (keeper/mint.go:139-143) -/
def beginBlock (c : Store) (bal : State) : Store × State :=
  let h := c.height + 1
  let r := blockMint c.params { bal with last := lastOf c h }
  let minted' := match r.1.last with
    | some m => AMap.set c.minted (mintedKey h) { height := h, minted := m, denom := "ujkl" }
    | none => c.minted
  ({ c with height := h, minted := minted' }, r.1)

end Mint

/-! ## x/storage -/
namespace Storage
open Canine.Storage

/-- x/storage `Collateral{Address, Amount}`; the model store keeps `address ↦ amount` -/
structure CollateralRec where
  address : String
  amount : Int
  deriving DecidableEq, Repr, Inhabited

/-- x/storage/types/genesis.pb.go `GenesisState`, fields in proto order (1 … 10) -/
structure GenesisState where
  params : Params
  fileList : List File
  providersList : List Provider
  paymentInfoList : List PayInfo
  collateralList : List CollateralRec
  /-- `ActiveProviders{Address}` -/
  activeProvidersList : List String
  reportForms : List Form
  attestForms : List Form
  paymentGauges : List Gauge
  proofList : List Proof
  deriving DecidableEq, Repr, Inhabited

def proofKeyOf (p : Proof) : PKey := (p.prover, (p.merkle, p.owner, p.start))
def formKeyOf (f : Form) : PKey := (f.prover, (f.merkle, f.owner, f.start))

/-- x/storage/genesis.go:59-74 `ExportGenesis`: `GetAllFileByMerkle` (the primary index only),
`GetAllProofs`, `GetAllProviders`, `GetAllStoragePaymentInfo`, `GetAllCollateral`,
`GetAllActiveProviders`, `GetAllReport`, `GetAllAttestation`, `GetAllPaymentGauges` — prefix iterators;
raw key formats as in Canine/Query/Storage.lean.  `GetAllActiveProviders` (keeper/providers.go:193-211)
does NOT read the "ActiveProviders/" store: it lists the provider records (in store order) whose
address, used as an unterminated prefix of the proof store (`GetAllProofsForProver`,
keeper/proofs.go:100-117), finds at least one proof record — the same keeper function the
`ActiveProviders` query answers with (`Query.activeProviders`) -/
def exportGenesis (s : State) : GenesisState :=
  { params := s.params,
    fileList := getAll Query.fileKeyStr s.files,
    proofList := getAll Query.proofKeyStr s.proofs,
    providersList := getAll Query.addrKeyStr s.providers,
    paymentInfoList := getAll Query.addrKeyStr s.payinfo,
    collateralList := getAllWith Query.addrKeyStr (fun kv => { address := kv.1, amount := kv.2 }) s.collateral,
    activeProvidersList := Query.activeProviders s,
    reportForms := getAll Query.formKeyStr s.reports,
    attestForms := getAll Query.formKeyStr s.attests,
    paymentGauges := getAll Query.gaugeKeyStr s.gauges }

/-- x/storage/types/params.go:246-258 `Params.Validate`: pol ratio and referral commission are non-negative -/
def paramsValid (p : Params) : Bool := decide (0 ≤ p.polRatio) && decide (0 ≤ p.referralCommission)

/-- x/storage/types/genesis.go:25-70 `Validate`: duplicate `FilesPrimaryKey(Merkle, Owner, Start)`,
`ProofKey(Prover, Merkle, Owner, Start)`, `ProvidersKey(Address)`, `StoragePaymentInfoKey(Address)`;
collateral, forms and gauges are *not* checked; then the params -/
def validate (g : GenesisState) : Bool :=
  noDup (g.fileList.map (fun f => Query.fileKeyStr f.key)) &&
  noDup (g.proofList.map (fun p => Query.proofKeyStr (proofKeyOf p))) &&
  noDup (g.providersList.map (fun p => Query.addrKeyStr p.address)) &&
  noDup (g.paymentInfoList.map (fun p => Query.addrKeyStr p.address)) &&
  paramsValid g.params

/-- x/storage/genesis.go:11-57 `InitGenesis`, in its order: `SetFile` (keeper/files.go:31-34: the
primary record under `FilesPrimaryKey` AND the by-owner record under `FilesSecondaryKey`, both built
from the file's own merkle/owner/start — `Storage.setFile`), `SetProof`, `SetProviders`,
`SetStoragePaymentInfo`, `SetCollateral`, `SetAttestationForm`, `SetReportForm`,
`SetActiveProviders` (the "ActiveProviders/" store: written here, read by nothing — not in the
model state), `SetPaymentGauge`, `SetParams` -/
def initGenesis (s0 : State) (g : GenesisState) : State :=
  let s1 := g.fileList.foldl setFile s0
  let s2 := { s1 with proofs := setAll proofKeyOf g.proofList s1.proofs }
  let s3 := { s2 with providers := setAll (fun p => p.address) g.providersList s2.providers }
  let s4 := { s3 with payinfo := setAll (fun p => p.address) g.paymentInfoList s3.payinfo }
  let s5 := { s4 with collateral := setAllWith CollateralRec.address CollateralRec.amount g.collateralList s4.collateral }
  let s6 := { s5 with attests := setAll formKeyOf g.attestForms s5.attests }
  let s7 := { s6 with reports := setAll formKeyOf g.reportForms s6.reports }
  let s8 := { s7 with gauges := setAll (fun gg => gg.id) g.paymentGauges s7.gauges }
  { s8 with params := g.params }

/-- a fresh chain: the nine storage stores empty, no parameters yet; bank, account names, blocked
list and the address canonicalisation table as in `s` -/
def blank (s : State) : State :=
  { s with files := [], files2 := [], proofs := [], providers := [], payinfo := [], collateral := [],
           gauges := [], attests := [], reports := [], params := default }

end Storage

end Canine.Genesis
