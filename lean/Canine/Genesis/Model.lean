/-
Genesis export / import of the custom modules, record kind by record kind.

Every module's `ExportGenesis` lists the values of some record kinds (`GetAll…`), and its
`InitGenesis` stores each listed value again under the key built from the value's own fields
(`Set…`).  A record kind is therefore a map together with the function `keyOf` that the setter
uses.  Kinds that `ExportGenesis` does not list are simply absent after the import.
`exportedKinds` is the table of what each module's genesis carries (read off x/*/genesis.go; the
kind "Params" is the module's parameter subspace, one record per key);
the correspondence check compares it with what a real export/import round trip preserves.
Core Lean only.
-/
import Canine.Basic.Map
namespace Canine.Genesis

/-- `GetAll…`: the values of one record kind in store order -/
def exportKind {V : Type} (m : AMap String V) : List V := AMap.vals m

/-- `InitGenesis` for one kind: `Set…` each listed value under its own key, on an empty store -/
def importKind {V : Type} (keyOf : V → String) (l : List V) : AMap String V :=
  l.foldl (fun acc v => AMap.set acc (keyOf v) v) []

/-- record kinds each module's genesis carries: (module, kinds exported and re-imported) -/
def exportedKinds : List (String × List String) :=
  [("storage", ["FilesByMerkle", "FilesByOwner", "FileProof", "Providers", "StoragePaymentInfo", "Collateral",
                "Attestation", "Report", "PaymentGauge", "Params"]),
   ("rns", ["Whois", "Names", "Bids", "Forsale", "Init", "PrimaryName", "Params"]),
   ("filetree", ["Files", "Pubkey", "Params"]),
   ("oracle", ["Feed", "Params"]),
   ("notification", ["Notification", "Block", "Params"]),
   ("jklmint", ["Params"])]

/-- kinds the keepers write that no genesis carries (each one would be a recorded finding; four
were repaired: storage FileProof, rns PrimaryName, notifications Block — now carried — and the
jklmint emission record, now carried for the last block) -/
def omittedKinds : List (String × List String) := []

/-- kinds of which the genesis carries the newest record only (one record per block height; the
export carries the record of the last block, which is the one the next block reads): the older
records are lost — a recorded finding -/
def latestOnlyKinds : List (String × List String) := [("jklmint", ["MintedBlock"])]

/-- `ExportGenesis` of a latest-only kind: the record of the last height, if there is one -/
def exportLatest {V : Type} (m : AMap String V) (lastKey : String) : List V :=
  match AMap.get m lastKey with
  | some v => [v]
  | none => []

/-- kinds written only by `InitGenesis` from a list that `ExportGenesis` recomputes (never read
back by the keepers): they may appear after an import without having been there before -/
def derivedKinds : List (String × List String) := [("storage", ["ActiveProviders"])]

def lookup (t : List (String × List String)) (m : String) : List String :=
  ((t.find? (·.1 == m)).map (·.2)).getD []

inductive Fate where
  | preserved      -- every record survives unchanged
  | lost           -- no record survives
  | latestOnly     -- exactly the newest record survives (when there is one)
  | derived        -- recomputed by the import: no prediction
  | unknown        -- a record kind the table does not know
  deriving DecidableEq, Repr

/-- what the model predicts for one (module, kind) after export → validate → import -/
def predict (module kind : String) : Fate :=
  if (lookup exportedKinds module).contains kind then .preserved
  else if (lookup omittedKinds module).contains kind then .lost
  else if (lookup latestOnlyKinds module).contains kind then .latestOnly
  else if (lookup derivedKinds module).contains kind then .derived
  else .unknown

end Canine.Genesis
