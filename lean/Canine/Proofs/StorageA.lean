/-
Auxiliary lemmas for C01 / C02 (x/storage: proofs, provers, the reward block).

* association-list facts (`mem_set`, `mem_erase`, `get_foldl_erase`), `Except`-fold invariants;
* `postProof` in decision-tree form (`postProofSpec`, `postProof_eq_spec`);
* frame lemmas: what each handler / each piece of the reward block does to `files`, `files2`,
  `proofs`, `providers`, `attests`;
* the store-consistency invariant `Consistent` and its preservation by `step`.
Core Lean only.
-/
import Canine.Storage.Model
import Canine.Proofs.Bank
namespace Canine

namespace AMap
variable {K V : Type} [DecidableEq K]

theorem mem_set {m : AMap K V} {k : K} {v : V} {x : K × V} (h : x ∈ set m k v) :
    x ∈ m ∨ x = (k, v) := by
  induction m with
  | nil => simp [set] at h; exact Or.inr h
  | cons p t ih =>
    obtain ⟨k', v'⟩ := p
    by_cases h1 : k' = k
    · simp only [set, h1, if_true, List.mem_cons] at h
      rcases h with h | h
      · exact Or.inr h
      · exact Or.inl (List.mem_cons_of_mem _ h)
    · simp only [set, h1, if_false, List.mem_cons] at h
      rcases h with h | h
      · exact Or.inl (by simp [h])
      · rcases ih h with h | h
        · exact Or.inl (List.mem_cons_of_mem _ h)
        · exact Or.inr h

theorem mem_erase {m : AMap K V} {k : K} {x : K × V} (h : x ∈ erase m k) : x ∈ m := by
  induction m with
  | nil => simp [erase] at h
  | cons p t ih =>
    obtain ⟨k', v'⟩ := p
    by_cases h1 : k' = k
    · simp only [erase, h1, if_true] at h
      exact List.mem_cons_of_mem _ (ih h)
    · simp only [erase, h1, if_false, List.mem_cons] at h
      rcases h with h | h
      · simp [h]
      · exact List.mem_cons_of_mem _ (ih h)

theorem get_foldl_erase (l : List K) (m : AMap K V) (k : K) :
    get (l.foldl (fun m x => erase m x) m) k = if k ∈ l then none else get m k := by
  induction l generalizing m with
  | nil => simp
  | cons a t ih =>
    simp only [List.foldl_cons, ih, List.mem_cons, get_erase]
    by_cases h1 : k ∈ t
    · simp [h1]
    · by_cases h2 : a = k
      · subst h2; simp [h1]
      · have h2' : ¬ k = a := fun e => h2 e.symm
        simp [h1, h2, h2']

theorem wf_foldl_erase (l : List K) (m : AMap K V) (h : WF m) :
    WF (l.foldl (fun m x => erase m x) m) := by
  induction l generalizing m with
  | nil => exact h
  | cons a t ih => exact ih _ (wf_erase a h)

theorem mem_keys_set {m : AMap K V} {k x : K} {v : V} (h : x ∈ keys (set m k v)) :
    x ∈ keys m ∨ x = k := by
  rw [keys_set] at h
  split at h
  · exact Or.inl h
  · simp only [List.mem_append, List.mem_singleton] at h; exact h

theorem mem_iff_get_of_wf {m : AMap K V} (hwf : WF m) (k : K) (v : V) :
    (k, v) ∈ m ↔ get m k = some v :=
  ⟨get_of_mem_wf hwf, mem_of_get⟩

end AMap

/-- invariants of a fold in the `Except` monad -/
theorem foldlM_except_inv {α β ε : Type} (P : β → Prop) (f : β → α → Except ε β)
    (hf : ∀ b a b', P b → f b a = .ok b' → P b') :
    ∀ (l : List α) (b b' : β), P b → l.foldlM f b = .ok b' → P b' := by
  intro l
  induction l with
  | nil =>
    intro b b' hb h
    simp only [List.foldlM_nil, pure, Except.pure, Except.ok.injEq] at h
    subst h; exact hb
  | cons a t ih =>
    intro b b' hb h
    simp only [List.foldlM_cons, bind, Except.bind] at h
    cases hfa : f b a with
    | error e => simp [hfa] at h
    | ok b1 =>
      simp only [hfa] at h
      exact ih b1 b' (hf b a b1 hb hfa) h

/-- invariants of a fold, with access to list membership -/
theorem foldlM_except_inv_mem {α β ε : Type} (P : β → Prop) (f : β → α → Except ε β)
    (l : List α) (hf : ∀ b a b', a ∈ l → P b → f b a = .ok b' → P b') :
    ∀ (b b' : β), P b → l.foldlM f b = .ok b' → P b' := by
  induction l with
  | nil =>
    intro b b' hb h
    simp only [List.foldlM_nil, pure, Except.pure, Except.ok.injEq] at h
    subst h; exact hb
  | cons a t ih =>
    intro b b' hb h
    simp only [List.foldlM_cons, bind, Except.bind] at h
    cases hfa : f b a with
    | error e => simp [hfa] at h
    | ok b1 =>
      simp only [hfa] at h
      exact ih (fun b a' b' ha => hf b a' b' (List.mem_cons_of_mem _ ha)) b1 b'
        (hf b a b1 (List.mem_cons_self) hb hfa) h

namespace Storage

/-! ### `postProof` as a decision tree -/

/-- the record written by an accepted proof of a listed prover -/
def renewed (s : State) (h nc : Int) (f : File) (p : Proof) : Proof :=
  { p with lastProven := h, chunkToProve := nextChunk f.fileSize s.params.chunkSize nc }

/-- the record written by the accepted first proof of a new prover -/
def freshProof (s : State) (h nc : Int) (c : String) (f : File) : Proof :=
  { prover := c, merkle := f.merkle, owner := f.owner, start := f.start, lastProven := h,
    chunkToProve := nextChunk f.fileSize s.params.chunkSize nc }

/-- `postProof` in decision-tree form -/
def postProofSpec (s : State) (h : Int) (c m o : String) (st tp : Int) (v : Bool) (nc : Int) : Reported :=
  match AMap.get s.files (m, o, st) with
  | none => ⟨s, false⟩
  | some f =>
    let pk : PKey := (c, f.key)
    if pk ∈ f.proofs then
      match AMap.get s.proofs pk with
      | none => ⟨s, false⟩
      | some p =>
        if tp = p.chunkToProve ∧ v = true then
          ⟨{ s with proofs := AMap.set s.proofs pk (renewed s h nc f p) }, true⟩
        else ⟨s, false⟩
    else
      if (f.proofs.length : Int) < f.maxProofs ∧ tp = 0 ∧ v = true then
        ⟨{ setFile s { f with proofs := f.proofs ++ [pk] } with
            proofs := AMap.set s.proofs pk (freshProof s h nc c f) }, true⟩
      else ⟨s, false⟩

theorem postProof_eq_spec (s : State) (h : Int) (c m o : String) (st tp : Int) (v : Bool) (nc : Int) :
    postProof s h c m o st tp v nc = postProofSpec s h c m o st tp v nc := by
  unfold postProof postProofSpec
  cases hf : AMap.get s.files (m, o, st) with
  | none => rfl
  | some f =>
    dsimp only
    by_cases hl : (c, f.key) ∈ f.proofs
    · have hl' : f.proofs.contains (c, f.key) = true := by simpa using hl
      simp only [hl', hl, if_true]
      cases hp : AMap.get s.proofs (c, f.key) with
      | none => simp
      | some p =>
        cases v <;> by_cases ht : tp = p.chunkToProve <;> simp [ht, renewed]
    · have hl' : f.proofs.contains (c, f.key) = false := by simpa using hl
      simp only [hl', hl, if_false]
      cases v <;> by_cases ht : tp = 0 <;>
        by_cases hlt : (f.proofs.length : Int) < f.maxProofs <;>
        by_cases he : (f.proofs.length : Int) = f.maxProofs <;> simp [ht, hlt, he, freshProof] <;> omega


/-! ### frame lemmas for the handlers -/

/-- the part of the state C01/C02 talk about is untouched -/
structure SameStore (s s' : State) : Prop where
  files : s'.files = s.files
  files2 : s'.files2 = s.files2
  proofs : s'.proofs = s.proofs
  attests : s'.attests = s.attests
  reports : s'.reports = s.reports

theorem removeFile_files_get (s : State) (k k' : FKey) :
    AMap.get (removeFile s k).files k' = if k = k' then none else AMap.get s.files k' := by
  unfold removeFile
  cases hf : AMap.get s.files k with
  | none =>
    dsimp only
    by_cases e : k = k'
    · subst e; simp [hf]
    · simp [e]
  | some f => dsimp only; exact AMap.get_erase _ _ _

theorem removeFile_wf (s : State) (k : FKey) (h : AMap.WF s.files) : AMap.WF (removeFile s k).files := by
  unfold removeFile
  split
  · exact h
  · exact AMap.wf_erase _ h

theorem removeFile_proofs_get (s : State) (k : FKey) (pk : PKey) (p : Proof)
    (h : AMap.get (removeFile s k).proofs pk = some p) : AMap.get s.proofs pk = some p := by
  unfold removeFile at h
  split at h
  · exact h
  · dsimp only at h
    rw [AMap.get_foldl_erase] at h
    split at h
    · cases h
    · exact h

theorem removeFile_frame (s : State) (k : FKey) :
    (removeFile s k).attests = s.attests ∧ (removeFile s k).reports = s.reports ∧
    (removeFile s k).providers = s.providers := by
  unfold removeFile; split <;> exact ⟨rfl, rfl, rfl⟩

/-- the file `postFile` stores -/
def newFile (s : State) (h : Int) (c m : String) (fs mp ex pt : Int) (note : String) : File :=
  { merkle := m, owner := c, start := h, expires := ex, fileSize := fs,
    proofInterval := s.params.proofWindow, proofType := pt, proofs := [], maxProofs := mp, note := note }

theorem postFile_frame {s s' : State} {h now : Int} {c m : String} {fs mp ex pt : Int} {note : String}
    {nv : Bool} {jp : Dec} {gid gacc : String}
    (hs : postFile s h now c m fs mp ex pt note nv jp gid gacc = some s') :
    s'.files = AMap.set (removeFile s (m, c, h)).files (m, c, h) (newFile s h c m fs mp ex pt note) ∧
    s'.files2 = AMap.set (removeFile s (m, c, h)).files2 (m, c, h) (newFile s h c m fs mp ex pt note) ∧
    s'.proofs = (removeFile s (m, c, h)).proofs ∧ s'.attests = s.attests ∧
    s'.reports = s.reports ∧ s'.providers = s.providers := by
  obtain ⟨e1, e2, e3⟩ := removeFile_frame s (m, c, h)
  simp only [postFile, bind, Option.bind_eq_some_iff, req_eq_some] at hs
  obtain ⟨_, -, _, -, hs⟩ := hs
  split at hs
  · simp only [Option.bind_eq_some_iff, req_eq_some] at hs
    obtain ⟨_, -, cost, -, _, -, spc, -, tp, -, b1, -, b2, -, hs⟩ := hs
    simp only [Option.some.injEq] at hs; subst hs
    exact ⟨rfl, rfl, rfl, e1, e2, e3⟩
  · simp only [Option.bind_eq_some_iff, req_eq_some] at hs
    obtain ⟨pi, -, _, -, _, -, hs⟩ := hs
    simp only [Option.some.injEq] at hs; subst hs
    exact ⟨rfl, rfl, rfl, e1, e2, e3⟩

local macro "bs_fin" : tactic => `(tactic|
  (intro hs
   try simp only [bind, Option.bind_eq_some_iff, req_eq_some] at hs
   obtain ⟨y, -, _, -, pc, -, b1, -, spc, -, b2, -, pol, -, b3, -, rt, -, b4, -, hs⟩ := hs
   simp only [Option.some.injEq] at hs; subst hs
   exact ⟨⟨rfl, rfl, rfl, rfl, rfl⟩, rfl⟩))

theorem buyStorage_frame {s s' : State} {now : Int} {c fa : String} {dd b : Int} {dn : String}
    {ref : Option String} {jp : Dec} {gid gacc : String}
    (hs : buyStorage s now c fa dd b dn ref jp gid gacc = some s') :
    SameStore s s' ∧ s'.providers = s.providers := by
  unfold buyStorage at hs
  have hcases : ref = none ∨ (∃ r, ref = some r ∧ r = c) ∨ (∃ r, ref = some r ∧ r ≠ c) := by
    cases ref with
    | none => exact Or.inl rfl
    | some r =>
      by_cases h : r = c
      · exact Or.inr (Or.inl ⟨r, rfl, h⟩)
      · exact Or.inr (Or.inr ⟨r, rfl, h⟩)
  rcases hcases with rfl | ⟨r, rfl, hr⟩ | ⟨r, rfl, hr⟩
  · simp only [bind, Option.bind_eq_some_iff, req_eq_some, Bool.false_eq_true, if_false] at hs
    obtain ⟨_, -, _, -, _, -, _, -, cost, -, _, -, hs⟩ := hs
    split at hs
    · split at hs
      · simp at hs
      · split at hs <;> (revert hs; bs_fin)
    · revert hs; bs_fin
  · simp only [hr, ne_eq, not_true, decide_false, bind, Option.bind_eq_some_iff, req_eq_some,
      Bool.false_eq_true, if_false] at hs
    obtain ⟨_, -, _, -, _, -, _, -, cost, -, _, -, hs⟩ := hs
    split at hs
    · split at hs
      · simp at hs
      · split at hs <;> (revert hs; bs_fin)
    · revert hs; bs_fin
  · simp only [hr, ne_eq, not_false_eq_true, decide_true, bind, Option.bind_eq_some_iff, req_eq_some,
      if_true] at hs
    obtain ⟨_, -, _, -, _, -, _, -, cost, -, _, -, hs⟩ := hs
    split at hs
    · split at hs
      · simp at hs
      · split at hs <;> (revert hs; bs_fin)
    · revert hs; bs_fin

theorem initProvider_frame {s s' : State} {c ip kb : String} {ts : Int} {iv : Bool}
    (hs : initProvider s c ip kb ts iv = some s') : SameStore s s' := by
  simp only [initProvider, bind, Option.bind_eq_some_iff, req_eq_some] at hs
  obtain ⟨_, -, _, -, _, -, coins, -, b1, -, hs⟩ := hs
  simp only [Option.some.injEq] at hs; subst hs
  exact ⟨rfl, rfl, rfl, rfl, rfl⟩

theorem shutdownProvider_frame {s s' : State} {c : String}
    (hs : shutdownProvider s c = some s') : SameStore s s' := by
  simp only [shutdownProvider, bind, Option.bind_eq_some_iff, req_eq_some] at hs
  obtain ⟨_, -, hs⟩ := hs
  split at hs
  · simp only [Option.bind_eq_some_iff, req_eq_some] at hs
    obtain ⟨_, -, coins, -, b1, -, hs⟩ := hs
    simp only [Option.some.injEq] at hs; subst hs
    exact ⟨rfl, rfl, rfl, rfl, rfl⟩
  · simp only [Option.some.injEq] at hs; subst hs
    exact ⟨rfl, rfl, rfl, rfl, rfl⟩

theorem updProvider_frame {s s' : State} {c : String} {f : Provider → Option Provider}
    (hs : updProvider s c f = some s') : SameStore s s' := by
  simp only [updProvider, bind, Option.bind_eq_some_iff] at hs
  obtain ⟨p, -, p', -, hs⟩ := hs
  simp only [Option.some.injEq] at hs; subst hs
  exact ⟨rfl, rfl, rfl, rfl, rfl⟩

/-- the messages that can write to the file / proof / form stores -/
def Op.isStoreOp : Op → Bool
  | .postFile .. | .deleteFile .. | .postProof .. | .requestAttest .. | .attest ..
  | .requestReport .. | .report .. => true
  | _ => false

theorem step_sameStore {s s' : State} {h now : Int} {op : Op} (hop : op.isStoreOp = false)
    (hs : step s h now op = some s') : SameStore s s' := by
  cases op <;> simp only [Op.isStoreOp, Bool.true_eq_false] at hop <;> simp only [step] at hs
  · exact (buyStorage_frame hs).1
  · exact initProvider_frame hs
  · exact shutdownProvider_frame hs
  · split at hs
    · exact updProvider_frame hs
    · cases hs
  · exact updProvider_frame hs
  · exact updProvider_frame hs
  · exact updProvider_frame hs
  · exact updProvider_frame hs

theorem requestForm_eq {forms forms' : AMap PKey Form} {s : State} {p m o : String} {st ec : Int}
    {ch : List String} (hs : requestForm forms s p m o st ec ch = some forms') :
    ∃ f, AMap.get s.files (m, o, st) = some f ∧ (p, f.key) ∈ f.proofs ∧
      (AMap.get s.proofs (p, f.key)).isSome = true ∧
      forms' = AMap.set forms (p, f.key)
        { prover := p, merkle := m, owner := o, start := st,
          attestations := ch.map (fun a => (a, false)) } := by
  simp only [requestForm, bind, Option.bind_eq_some_iff, req_eq_some] at hs
  obtain ⟨f, hf, _, ⟨hl, hp⟩, _, -, _, -, _, -, _, -, hs⟩ := hs
  simp only [Option.some.injEq] at hs
  exact ⟨f, hf, by simpa using hl, hp, hs.symm⟩


/-- what `attest` can do: nothing to files; either only the form changes, or (quorum reached) the
`lastProven` of the form's prover is set to `h` and the form is deleted -/
theorem attest_cases (s : State) (h : Int) (c p m o : String) (st : Int) :
    (attest s h c p m o st).files = s.files ∧ (attest s h c p m o st).files2 = s.files2 ∧
    (attest s h c p m o st).reports = s.reports ∧ (attest s h c p m o st).providers = s.providers ∧
    (((attest s h c p m o st).proofs = s.proofs ∧
        ((attest s h c p m o st).attests = s.attests ∨
          ∃ form atts, AMap.get s.attests (p, (m, o, st)) = some form ∧
            (attest s h c p m o st).attests =
              AMap.set s.attests (p, (m, o, st)) { form with attestations := atts })) ∨
     (∃ form f p0, AMap.get s.attests (p, (m, o, st)) = some form ∧
        AMap.get s.files (form.merkle, form.owner, form.start) = some f ∧
        (form.prover, f.key) ∈ f.proofs ∧ AMap.get s.proofs (form.prover, f.key) = some p0 ∧
        (attest s h c p m o st).proofs =
          AMap.set s.proofs (form.prover, f.key) { p0 with lastProven := h } ∧
        (attest s h c p m o st).attests = AMap.erase s.attests (p, (m, o, st)))) := by
  unfold attest
  dsimp only
  cases hfm : AMap.get s.attests (p, (m, o, st)) with
  | none => exact ⟨rfl, rfl, rfl, rfl, Or.inl ⟨rfl, Or.inl rfl⟩⟩
  | some form =>
    dsimp only
    split
    · exact ⟨rfl, rfl, rfl, rfl, Or.inl ⟨rfl, Or.inl rfl⟩⟩
    split
    · exact ⟨rfl, rfl, rfl, rfl, Or.inl ⟨rfl, Or.inr ⟨form, _, rfl, rfl⟩⟩⟩
    cases hf : AMap.get s.files (form.merkle, form.owner, form.start) with
    | none => exact ⟨rfl, rfl, rfl, rfl, Or.inl ⟨rfl, Or.inl rfl⟩⟩
    | some f =>
      dsimp only
      split
      · exact ⟨rfl, rfl, rfl, rfl, Or.inl ⟨rfl, Or.inl rfl⟩⟩
      rename_i hl
      cases hp : AMap.get s.proofs (form.prover, f.key) with
      | none => exact ⟨rfl, rfl, rfl, rfl, Or.inl ⟨rfl, Or.inl rfl⟩⟩
      | some p0 =>
        refine ⟨rfl, rfl, rfl, rfl, Or.inr ⟨form, f, p0, rfl, hf, ?_, hp, rfl, rfl⟩⟩
        simpa using hl

theorem removeProver_cases (s : State) (f : File) (pk : PKey) :
    (removeProver s f pk).1.attests = s.attests ∧ (removeProver s f pk).1.reports = s.reports ∧
    (removeProver s f pk).1.providers = s.providers ∧
    ((pk ∉ f.proofs ∧ removeProver s f pk = (s, f)) ∨
     (pk ∈ f.proofs ∧
      (removeProver s f pk).2 = { f with proofs := f.proofs.filter (· ≠ pk) } ∧
      (removeProver s f pk).1.files =
        AMap.set s.files f.key { f with proofs := f.proofs.filter (· ≠ pk) } ∧
      (removeProver s f pk).1.files2 =
        AMap.set s.files2 f.key { f with proofs := f.proofs.filter (· ≠ pk) } ∧
      (removeProver s f pk).1.proofs = AMap.erase s.proofs pk)) := by
  unfold removeProver
  by_cases hl : pk ∈ f.proofs
  · have hl' : f.proofs.contains pk = true := by simpa using hl
    rw [if_pos hl']
    exact ⟨rfl, rfl, rfl, Or.inr ⟨hl, rfl, rfl, rfl, rfl⟩⟩
  · have hl' : f.proofs.contains pk = false := by simpa using hl
    rw [if_neg (by simpa using hl)]
    exact ⟨rfl, rfl, rfl, Or.inl ⟨hl, rfl⟩⟩

/-- `report`: either only the report form changes, or (quorum) the reported prover is removed from
the file stored at `(m, o, st)` -/
theorem report_cases {s s' : State} {c p m o : String} {st : Int}
    (hs : report s c p m o st = some s') :
    (s'.files = s.files ∧ s'.files2 = s.files2 ∧ s'.proofs = s.proofs ∧ s'.attests = s.attests) ∨
    (∃ f, AMap.get s.files (m, o, st) = some f ∧
      s' = (removeProver { s with reports := AMap.erase s.reports (p, (m, o, st)) } f (p, f.key)).1) := by
  simp only [report, bind, Option.bind_eq_some_iff, req_eq_some] at hs
  obtain ⟨form, -, _, -, hs⟩ := hs
  split at hs
  · simp only [Option.some.injEq] at hs; subst hs
    exact Or.inl ⟨rfl, rfl, rfl, rfl⟩
  · simp only [Option.bind_eq_some_iff] at hs
    obtain ⟨f, hf, hs⟩ := hs
    simp only [Option.some.injEq] at hs
    exact Or.inr ⟨f, hf, hs.symm⟩

theorem step_requestAttest {s s' : State} {h now : Int} {c m o : String} {st ec : Int} {ch : List String}
    (hs : step s h now (.requestAttest c m o st ec ch) = some s') :
    s'.files = s.files ∧ s'.files2 = s.files2 ∧ s'.proofs = s.proofs ∧ s'.reports = s.reports ∧
    s'.providers = s.providers ∧
    (s'.attests = s.attests ∨
      ∃ forms, requestForm s.attests s c m o st ec ch = some forms ∧ s'.attests = forms) := by
  simp only [step, Option.some.injEq] at hs; subst hs
  cases hr : requestForm s.attests s c m o st ec ch with
  | none => exact ⟨rfl, rfl, rfl, rfl, rfl, Or.inl rfl⟩
  | some forms => exact ⟨rfl, rfl, rfl, rfl, rfl, Or.inr ⟨forms, rfl, rfl⟩⟩

theorem step_requestReport {s s' : State} {h now : Int} {c p m o : String} {st ec : Int} {ch : List String}
    (hs : step s h now (.requestReport c p m o st ec ch) = some s') :
    s'.files = s.files ∧ s'.files2 = s.files2 ∧ s'.proofs = s.proofs ∧ s'.attests = s.attests ∧
    s'.providers = s.providers := by
  simp only [step, Option.some.injEq] at hs; subst hs
  cases hr : requestForm s.reports s p m o st ec ch with
  | none => exact ⟨rfl, rfl, rfl, rfl, rfl⟩
  | some forms => exact ⟨rfl, rfl, rfl, rfl, rfl⟩

/-! ### store consistency -/

/-- Facts about how the stores refer to each other.  They hold in the empty state and are preserved
by every message (`consistent_step`) and by the reward block (`consistent_manageRewards`). -/
structure Consistent (s : State) : Prop where
  /-- the primary file index has no duplicate keys -/
  wf : AMap.WF s.files
  /-- a file is stored under its own key -/
  key : ∀ k f, AMap.get s.files k = some f → f.key = k
  /-- the proof keys listed in a file are keys of that file -/
  listed : ∀ k f, AMap.get s.files k = some f → ∀ pk ∈ f.proofs, pk.2 = k
  /-- a proof record names the prover of its key -/
  record : ∀ pk p, AMap.get s.proofs pk = some p → p.prover = pk.1
  /-- an attestation form is stored under the proof key it describes -/
  form : ∀ pk fm, AMap.get s.attests pk = some fm → (fm.prover, fm.merkle, fm.owner, fm.start) = pk

theorem Consistent.of_sameStore {s s' : State} (h : Consistent s) (e : SameStore s s') :
    Consistent s' := by
  obtain ⟨wf, key, listed, record, form⟩ := h
  obtain ⟨e1, _, e3, e4, _⟩ := e
  exact ⟨by rw [e1]; exact wf, by rw [e1]; exact key, by rw [e1]; exact listed,
    by rw [e3]; exact record, by rw [e4]; exact form⟩

theorem Consistent.removeFile {s : State} (h : Consistent s) (k : FKey) : Consistent (removeFile s k) := by
  obtain ⟨wf, key, listed, record, form⟩ := h
  refine ⟨removeFile_wf s k wf, ?_, ?_, ?_, ?_⟩
  · intro k' f hf
    rw [removeFile_files_get] at hf
    split at hf
    · cases hf
    · exact key k' f hf
  · intro k' f hf
    rw [removeFile_files_get] at hf
    split at hf
    · cases hf
    · exact listed k' f hf
  · intro pk p hp
    exact record pk p (removeFile_proofs_get s k pk p hp)
  · rw [(removeFile_frame s k).1]; exact form

theorem Consistent.removeProver {s : State} (h : Consistent s) (f : File) (pk : PKey)
    (hf : AMap.get s.files f.key = some f) : Consistent (removeProver s f pk).1 := by
  obtain ⟨wf, key, listed, record, form⟩ := h
  obtain ⟨ea, _, _, hc⟩ := removeProver_cases s f pk
  rcases hc with ⟨_, e⟩ | ⟨_, _, e1, _, e3⟩
  · rw [e]; exact ⟨wf, key, listed, record, form⟩
  · refine ⟨by rw [e1]; exact AMap.wf_set _ _ wf, ?_, ?_, ?_, by rw [ea]; exact form⟩
    · intro k' f' hf'
      rw [e1, AMap.get_set] at hf'
      split at hf'
      · rename_i e; cases hf'; exact e
      · exact key k' f' hf'
    · intro k' f' hf'
      rw [e1, AMap.get_set] at hf'
      split at hf'
      · rename_i e; cases hf'
        intro x hx
        have hx' : x ∈ f.proofs := (List.mem_filter.mp hx).1
        rw [← e]; exact listed f.key f hf x hx'
      · exact listed k' f' hf'
    · intro pk' p hp
      rw [e3, AMap.get_erase] at hp
      split at hp
      · cases hp
      · exact record pk' p hp

/-- every delivered message preserves store consistency -/
theorem consistent_step {s s' : State} {h now : Int} {op : Op} (hc : Consistent s)
    (hs : step s h now op = some s') : Consistent s' := by
  by_cases hop : op.isStoreOp = false
  · exact hc.of_sameStore (step_sameStore hop hs)
  cases op <;> simp only [Op.isStoreOp, not_true_eq_false] at hop <;>
    simp only [step] at hs
  case postFile c m fs mp ex pt note nv jp gid gacc =>
    obtain ⟨e1, _, e3, e4, _, _⟩ := postFile_frame hs
    obtain ⟨wf, key, listed, record, form⟩ := hc.removeFile (m, c, h)
    refine ⟨by rw [e1]; exact AMap.wf_set _ _ wf, ?_, ?_, by rw [e3]; exact record,
      by rw [e4, ← (removeFile_frame s (m, c, h)).1]; exact form⟩
    · intro k f hf
      rw [e1, AMap.get_set] at hf
      split at hf
      · rename_i e; cases hf; exact e
      · exact key k f hf
    · intro k f hf
      rw [e1, AMap.get_set] at hf
      split at hf
      · cases hf; intro x hx; simp [newFile] at hx
      · exact listed k f hf
  case deleteFile c m st =>
    simp only [Option.some.injEq] at hs; subst hs
    exact hc.removeFile _
  case postProof c m o st tp v nc =>
    simp only [Option.some.injEq] at hs; subst hs
    rw [postProof_eq_spec]; unfold postProofSpec
    obtain ⟨wf, key, listed, record, form⟩ := hc
    cases hf : AMap.get s.files (m, o, st) with
    | none => exact ⟨wf, key, listed, record, form⟩
    | some f =>
      dsimp only
      have hk := key _ _ hf
      split
      · cases hp : AMap.get s.proofs (c, f.key) with
        | none => exact ⟨wf, key, listed, record, form⟩
        | some p =>
          dsimp only
          split
          · refine ⟨wf, key, listed, ?_, form⟩
            intro pk' p' hp'
            change AMap.get (AMap.set s.proofs (c, f.key) (renewed s h nc f p)) pk' = some p' at hp'
            rw [AMap.get_set] at hp'
            split at hp'
            · rename_i e; cases hp'; rw [← e]; exact record _ p hp
            · exact record pk' p' hp'
          · exact ⟨wf, key, listed, record, form⟩
      · split
        · refine ⟨AMap.wf_set _ _ wf, ?_, ?_, ?_, form⟩
          · intro k' f' hf'
            change AMap.get (AMap.set s.files f.key { f with proofs := f.proofs ++ [(c, f.key)] }) k'
              = some f' at hf'
            rw [AMap.get_set] at hf'
            split at hf'
            · rename_i e; cases hf'; exact e
            · exact key k' f' hf'
          · intro k' f' hf'
            change AMap.get (AMap.set s.files f.key { f with proofs := f.proofs ++ [(c, f.key)] }) k'
              = some f' at hf'
            rw [AMap.get_set] at hf'
            split at hf'
            · rename_i e; cases hf'
              intro x hx
              simp only [List.mem_append, List.mem_singleton] at hx
              rcases hx with hx | hx
              · rw [← e, hk]; exact listed _ _ hf x hx
              · rw [hx]; exact e
            · exact listed k' f' hf'
          · intro pk' p' hp'
            change AMap.get (AMap.set s.proofs (c, f.key) (freshProof s h nc c f)) pk' = some p' at hp'
            rw [AMap.get_set] at hp'
            split at hp'
            · rename_i e; cases hp'; rw [← e]; rfl
            · exact record pk' p' hp'
        · exact ⟨wf, key, listed, record, form⟩
  case requestAttest c m o st ec ch =>
    simp only [Option.some.injEq] at hs; subst hs
    obtain ⟨wf, key, listed, record, form⟩ := hc
    cases hr : requestForm s.attests s c m o st ec ch with
    | none => exact ⟨wf, key, listed, record, form⟩
    | some forms =>
      obtain ⟨f, hf, _, _, e⟩ := requestForm_eq hr
      refine ⟨wf, key, listed, record, ?_⟩
      intro pk fm hfm
      change AMap.get forms pk = some fm at hfm
      rw [e, AMap.get_set] at hfm
      split at hfm
      · rename_i e'; cases hfm; rw [← e', key _ _ hf]
      · exact form pk fm hfm
  case attest c p m o st =>
    simp only [Option.some.injEq] at hs; subst hs
    obtain ⟨wf, key, listed, record, form⟩ := hc
    obtain ⟨e1, _, _, _, hcase⟩ := attest_cases s h c p m o st
    rcases hcase with ⟨e3, e4 | ⟨fm0, atts, hfm0, e4⟩⟩ | ⟨fm0, f, p0, hfm0, hf, hl, hp, e3, e4⟩
    · exact ⟨by rw [e1]; exact wf, by rw [e1]; exact key, by rw [e1]; exact listed,
        by rw [e3]; exact record, by rw [e4]; exact form⟩
    · refine ⟨by rw [e1]; exact wf, by rw [e1]; exact key, by rw [e1]; exact listed,
        by rw [e3]; exact record, ?_⟩
      intro pk fm hfm
      rw [e4, AMap.get_set] at hfm
      split at hfm
      · rename_i e; cases hfm; rw [← e]; exact form _ fm0 hfm0
      · exact form pk fm hfm
    · refine ⟨by rw [e1]; exact wf, by rw [e1]; exact key, by rw [e1]; exact listed, ?_, ?_⟩
      · intro pk' p' hp'
        rw [e3, AMap.get_set] at hp'
        split at hp'
        · rename_i e; cases hp'; rw [← e]; exact record _ p0 hp
        · exact record pk' p' hp'
      · intro pk fm hfm
        rw [e4, AMap.get_erase] at hfm
        split at hfm
        · cases hfm
        · exact form pk fm hfm
  case requestReport c p m o st ec ch =>
    simp only [Option.some.injEq] at hs; subst hs
    obtain ⟨wf, key, listed, record, form⟩ := hc
    cases hr : requestForm s.reports s p m o st ec ch with
    | none => exact ⟨wf, key, listed, record, form⟩
    | some forms => exact ⟨wf, key, listed, record, form⟩
  case report c p m o st =>
    rcases report_cases hs with ⟨e1, _, e3, e4⟩ | ⟨f, hf, e⟩
    · obtain ⟨wf, key, listed, record, form⟩ := hc
      exact ⟨by rw [e1]; exact wf, by rw [e1]; exact key, by rw [e1]; exact listed,
        by rw [e3]; exact record, by rw [e4]; exact form⟩
    · rw [e]
      have hc1 : Consistent { s with reports := AMap.erase s.reports (p, (m, o, st)) } :=
        ⟨hc.wf, hc.key, hc.listed, hc.record, hc.form⟩
      apply hc1.removeProver
      show AMap.get s.files f.key = some f
      rw [hc.key _ _ hf]; exact hf


/-! ### the reward block -/

theorem foldl_inv_mem {α β : Type} (P : β → Prop) (f : β → α → β) (l : List α)
    (hf : ∀ b a, a ∈ l → P b → P (f b a)) : ∀ b, P b → P (l.foldl f b) := by
  induction l with
  | nil => intro b hb; exact hb
  | cons a t ih =>
    intro b hb
    simp only [List.foldl_cons]
    exact ih (fun b a' ha => hf b a' (List.mem_cons_of_mem _ ha)) _ (hf b a List.mem_cons_self hb)

/-- everything the reward block's file management never writes (it writes `files`, `files2`,
`proofs`, `providers`, and `payinfo` when it drops an empty file) -/
structure SameRest (s s' : State) : Prop where
  attests : s'.attests = s.attests
  reports : s'.reports = s.reports
  collateral : s'.collateral = s.collateral
  gauges : s'.gauges = s.gauges
  bank : s'.bank = s.bank
  params : s'.params = s.params
  moduleAcc : s'.moduleAcc = s.moduleAcc
  collateralAcc : s'.collateralAcc = s.collateralAcc
  polAcc : s'.polAcc = s.polAcc
  feeAcc : s'.feeAcc = s.feeAcc
  blocked : s'.blocked = s.blocked

theorem SameRest.refl (s : State) : SameRest s s := ⟨rfl, rfl, rfl, rfl, rfl, rfl, rfl, rfl, rfl, rfl, rfl⟩

theorem SameRest.trans {a b c : State} (h1 : SameRest a b) (h2 : SameRest b c) : SameRest a c :=
  ⟨h2.attests.trans h1.attests, h2.reports.trans h1.reports, h2.collateral.trans h1.collateral,
   h2.gauges.trans h1.gauges, h2.bank.trans h1.bank, h2.params.trans h1.params,
   h2.moduleAcc.trans h1.moduleAcc, h2.collateralAcc.trans h1.collateralAcc,
   h2.polAcc.trans h1.polAcc, h2.feeAcc.trans h1.feeAcc, h2.blocked.trans h1.blocked⟩

theorem burnContract_frame (s : State) (a : String) :
    (burnContract s a).files = s.files ∧ (burnContract s a).files2 = s.files2 ∧
    (burnContract s a).proofs = s.proofs ∧ (burnContract s a).payinfo = s.payinfo ∧
    SameRest s (burnContract s a) ∧
    (∀ b, b ≠ a → AMap.get (burnContract s a).providers b = AMap.get s.providers b) := by
  unfold burnContract
  split
  · exact ⟨rfl, rfl, rfl, rfl, SameRest.refl s, fun _ _ => rfl⟩
  · split
    · exact ⟨rfl, rfl, rfl, rfl, SameRest.refl s, fun _ _ => rfl⟩
    · refine ⟨rfl, rfl, rfl, rfl, ⟨rfl, rfl, rfl, rfl, rfl, rfl, rfl, rfl, rfl, rfl, rfl⟩, ?_⟩
      intro b hb
      exact AMap.get_set_other _ _ _ _ (fun e => hb e.symm)

theorem removeProver_rest (s : State) (f : File) (pk : PKey) :
    SameRest s (removeProver s f pk).1 ∧ (removeProver s f pk).1.payinfo = s.payinfo ∧
    (removeProver s f pk).1.providers = s.providers := by
  unfold removeProver; split
  · exact ⟨⟨rfl, rfl, rfl, rfl, rfl, rfl, rfl, rfl, rfl, rfl, rfl⟩, rfl, rfl⟩
  · exact ⟨SameRest.refl s, rfl, rfl⟩

theorem removeFile_rest (s : State) (k : FKey) : SameRest s (removeFile s k) := by
  unfold removeFile; split
  · exact SameRest.refl s
  · exact ⟨rfl, rfl, rfl, rfl, rfl, rfl, rfl, rfl, rfl, rfl, rfl⟩

/-- the two outcomes of `manageProof`: keep-and-credit (state untouched), or remove (and burn when
a record exists) -/
theorem manageProof_cases (s : State) (h : Int) (t : Tracker) (file : File) (pk : PKey) :
    ((manageProof s h t file pk).1 = s ∧ (manageProof s h t file pk).2.2 = file ∧
      ∃ x, (manageProof s h t file pk).2.1 = credit t x file.fileSize ∧
        (x = "" ∨ ∃ p, AMap.get s.proofs pk = some p ∧ p.prover = x)) ∨
    (isYoung h file.start file.proofInterval = false ∧
      (∀ p, AMap.get s.proofs pk = some p →
        provenLastBlock h file.start file.proofInterval p.lastProven = false) ∧
      (manageProof s h t file pk).2.1 = t ∧
      (manageProof s h t file pk).2.2 = (removeProver s file pk).2 ∧
      ((manageProof s h t file pk).1 = (removeProver s file pk).1 ∨
       (manageProof s h t file pk).1 = burnContract (removeProver s file pk).1 pk.1)) := by
  cases hp : AMap.get s.proofs pk with
  | none =>
    cases hy : isYoung h file.start file.proofInterval with
    | true =>
      have e : manageProof s h t file pk = (s, credit t "" file.fileSize, file) := by
        simp [manageProof, hp, hy]
      rw [e]; exact Or.inl ⟨rfl, rfl, "", rfl, Or.inl rfl⟩
    | false =>
      have e : manageProof s h t file pk =
          ((removeProver s file pk).1, t, (removeProver s file pk).2) := by
        simp [manageProof, hp, hy]
      rw [e]; exact Or.inr ⟨rfl, (fun p hp' => by cases hp'), rfl, rfl, Or.inl rfl⟩
  | some p =>
    cases hy : isYoung h file.start file.proofInterval with
    | true =>
      have e : manageProof s h t file pk = (s, credit t p.prover file.fileSize, file) := by
        simp [manageProof, hp, hy]
      rw [e]; exact Or.inl ⟨rfl, rfl, p.prover, rfl, Or.inr ⟨p, rfl, rfl⟩⟩
    | false =>
      cases hpr : provenLastBlock h file.start file.proofInterval p.lastProven with
      | true =>
        have e : manageProof s h t file pk = (s, credit t p.prover file.fileSize, file) := by
          simp [manageProof, hp, hpr]
        rw [e]; exact Or.inl ⟨rfl, rfl, p.prover, rfl, Or.inr ⟨p, rfl, rfl⟩⟩
      | false =>
        have e : manageProof s h t file pk =
            (burnContract (removeProver s file pk).1 pk.1, t, (removeProver s file pk).2) := by
          simp [manageProof, hp, hy, hpr]
        rw [e]
        refine Or.inr ⟨rfl, ?_, rfl, rfl, Or.inr rfl⟩
        intro p' hp'; cases hp'; exact hpr

/-- `f'` is `f` with a sub-list of its provers -/
def File.ShrinkOf (f' f : File) : Prop :=
  f' = { f with proofs := f'.proofs } ∧ f'.proofs.Sublist f.proofs

theorem File.ShrinkOf.refl (f : File) : File.ShrinkOf f f := ⟨rfl, List.Sublist.refl _⟩

theorem File.ShrinkOf.trans {a b c : File} (h1 : File.ShrinkOf a b) (h2 : File.ShrinkOf b c) :
    File.ShrinkOf a c := by
  obtain ⟨e1, s1⟩ := h1
  obtain ⟨e2, s2⟩ := h2
  refine ⟨?_, s1.trans s2⟩
  rw [e1, e2]

theorem File.ShrinkOf.key {a b : File} (h : File.ShrinkOf a b) : a.key = b.key := by
  rw [h.1]; rfl

/-- the invariant of the loop of `manageFile` over the proof keys of `file` -/
structure MFInv (s : State) (t : Tracker) (file : File) (a : State × Tracker × File) : Prop where
  stored : AMap.get a.1.files file.key = some a.2.2
  shrink : File.ShrinkOf a.2.2 file
  others : ∀ k, k ≠ file.key → AMap.get a.1.files k = AMap.get s.files k
  wf : AMap.WF s.files → AMap.WF a.1.files
  proofs : ∀ pk p, AMap.get a.1.proofs pk = some p → AMap.get s.proofs pk = some p
  erased : ∀ pk, pk ∉ file.proofs → AMap.get a.1.proofs pk = AMap.get s.proofs pk
  rest : SameRest s a.1
  payinfo : a.1.payinfo = s.payinfo
  tracker : ∀ x ∈ AMap.keys a.2.1, x ∈ AMap.keys t ∨ x = "" ∨
    ∃ pk ∈ file.proofs, ∃ p, AMap.get s.proofs pk = some p ∧ p.prover = x

theorem keys_credit {t : Tracker} {x y : String} {n : Int} (h : y ∈ AMap.keys (credit t x n)) :
    y ∈ AMap.keys t ∨ y = x := AMap.mem_keys_set h

theorem MFInv.step {s : State} {t : Tracker} {file : File} {a : State × Tracker × File}
    (h : Int) (pk : PKey) (hpk : pk ∈ file.proofs) (inv : MFInv s t file a) :
    MFInv s t file (manageProof a.1 h a.2.1 a.2.2 pk) := by
  obtain ⟨sA, tA, fA⟩ := a
  obtain ⟨stored, shrink, others, wf, proofs, erased, rest, payinfo, tracker⟩ := inv
  dsimp only at *
  rcases manageProof_cases sA h tA fA pk with ⟨e1, e2, x, e3, hx⟩ | ⟨_, _, e3, e2, e1⟩
  · refine ⟨by rw [e1, e2]; exact stored, by rw [e2]; exact shrink, by rw [e1]; exact others,
      by rw [e1]; exact wf, by rw [e1]; exact proofs, by rw [e1]; exact erased,
      by rw [e1]; exact rest, by rw [e1]; exact payinfo, ?_⟩
    intro y hy
    rw [e3] at hy
    rcases keys_credit hy with hy | hy
    · exact tracker y hy
    · subst hy
      rcases hx with hx | ⟨p, hp, hx⟩
      · exact Or.inr (Or.inl hx)
      · exact Or.inr (Or.inr ⟨pk, hpk, p, proofs pk p hp, hx⟩)
  · have hkey : fA.key = file.key := shrink.key
    obtain ⟨_, _, _, hc⟩ := removeProver_cases sA fA pk
    obtain ⟨hr1, hr2, _⟩ := removeProver_rest sA fA pk
    -- the state after `removeProver`, before the optional burn
    have core : MFInv s t file ((removeProver sA fA pk).1, tA, (removeProver sA fA pk).2) := by
      rcases hc with ⟨_, e⟩ | ⟨_, f2, f1, _, f3⟩
      · rw [e]; exact ⟨stored, shrink, others, wf, proofs, erased, rest, payinfo, tracker⟩
      · refine ⟨?_, ?_, ?_, ?_, ?_, ?_, rest.trans hr1, hr2.trans payinfo, tracker⟩
        · show AMap.get (removeProver sA fA pk).1.files file.key = some (removeProver sA fA pk).2
          rw [f1, f2, hkey]; exact AMap.get_set_self _ _ _
        · show File.ShrinkOf (removeProver sA fA pk).2 file
          rw [f2]
          exact File.ShrinkOf.trans ⟨rfl, List.filter_sublist⟩ shrink
        · intro k hk
          show AMap.get (removeProver sA fA pk).1.files k = _
          rw [f1, hkey, AMap.get_set_other _ _ _ _ (fun e => hk e.symm)]
          exact others k hk
        · intro hwf
          show AMap.WF (removeProver sA fA pk).1.files
          rw [f1]; exact AMap.wf_set _ _ (wf hwf)
        · intro pk' p hp
          change AMap.get (removeProver sA fA pk).1.proofs pk' = some p at hp
          rw [f3, AMap.get_erase] at hp
          split at hp
          · cases hp
          · exact proofs pk' p hp
        · intro pk' hpk'
          show AMap.get (removeProver sA fA pk).1.proofs pk' = _
          rw [f3, AMap.get_erase_other _ _ _ (fun e => hpk' (by rw [← e]; exact hpk))]
          exact erased pk' hpk'
    obtain ⟨c1, c2, c3, c4, c5, c6, c7, c8, c9⟩ := core
    dsimp only at c1 c2 c3 c4 c5 c6 c7 c8 c9
    rcases e1 with e1 | e1
    · exact ⟨by rw [e1, e2]; exact c1, by rw [e2]; exact c2, by rw [e1]; exact c3,
        by rw [e1]; exact c4, by rw [e1]; exact c5, by rw [e1]; exact c6, by rw [e1]; exact c7,
        by rw [e1]; exact c8, by rw [e3]; exact tracker⟩
    · obtain ⟨b1, _, b3, b4, b5, _⟩ := burnContract_frame (removeProver sA fA pk).1 pk.1
      exact ⟨by rw [e1, e2, b1]; exact c1, by rw [e2]; exact c2, by rw [e1, b1]; exact c3,
        by rw [e1, b1]; exact c4, by rw [e1, b3]; exact c5, by rw [e1, b3]; exact c6,
        by rw [e1]; exact c7.trans b5, by rw [e1, b4]; exact c8, by rw [e3]; exact tracker⟩


/-- the loop of `manageFile` -/
def mfLoop (s : State) (h : Int) (t : Tracker) (file : File) : State × Tracker × File :=
  file.proofs.foldl
    (fun (acc : State × Tracker × File) pk => manageProof acc.1 h acc.2.1 acc.2.2 pk) (s, t, file)

theorem MFInv.init {s : State} {t : Tracker} {file : File}
    (hget : AMap.get s.files file.key = some file) : MFInv s t file (s, t, file) :=
  ⟨hget, File.ShrinkOf.refl _, fun _ _ => rfl, fun h => h, fun _ _ h => h, fun _ _ => rfl,
    SameRest.refl s, rfl, fun _ hx => Or.inl hx⟩

theorem mfLoop_inv (s : State) (h : Int) (t : Tracker) (file : File)
    (hget : AMap.get s.files file.key = some file) : MFInv s t file (mfLoop s h t file) := by
  unfold mfLoop
  exact foldl_inv_mem (MFInv s t file) _ file.proofs
    (fun b pk hpk inv => inv.step h pk hpk) _ (MFInv.init hget)

/-- `manageFile`: an empty old file is dropped; otherwise the loop runs from the given state -/
theorem manageFile_cases (s : State) (h : Int) (t : Tracker) (file : File) :
    (file.proofs = [] ∧ isYoung h file.start file.proofInterval = false ∧
      manageFile s h t file = (removeFile s file.key, t)) ∨
    ((file.proofs ≠ [] ∨ isYoung h file.start file.proofInterval = true) ∧
      manageFile s h t file = ((mfLoop s h t file).1, (mfLoop s h t file).2.1)) := by
  unfold manageFile mfLoop
  cases hy : isYoung h file.start file.proofInterval with
  | true =>
    refine Or.inr ⟨Or.inr rfl, ?_⟩
    simp
  | false =>
    cases hl : file.proofs with
    | nil => exact Or.inl ⟨rfl, rfl, by simp⟩
    | cons a l =>
      refine Or.inr ⟨Or.inl (by simp), ?_⟩
      simp


theorem removeFile_proofs_of_get (s : State) (k : FKey) (f : File) (hget : AMap.get s.files k = some f) :
    (removeFile s k).proofs = f.proofs.foldl (fun m pk => AMap.erase m pk) s.proofs := by
  unfold removeFile; rw [hget]

/-- what `manageFile` guarantees about its result, for a file read from the store -/
structure MFOut (s : State) (t : Tracker) (file : File) (r : State × Tracker) : Prop where
  atKey : ∀ f', AMap.get r.1.files file.key = some f' → File.ShrinkOf f' file
  others : ∀ k, k ≠ file.key → AMap.get r.1.files k = AMap.get s.files k
  wf : AMap.WF s.files → AMap.WF r.1.files
  proofs : ∀ pk p, AMap.get r.1.proofs pk = some p → AMap.get s.proofs pk = some p
  erased : ∀ pk, pk ∉ file.proofs → AMap.get r.1.proofs pk = AMap.get s.proofs pk
  rest : SameRest s r.1
  tracker : ∀ x ∈ AMap.keys r.2, x ∈ AMap.keys t ∨ x = "" ∨
    ∃ pk ∈ file.proofs, ∃ p, AMap.get s.proofs pk = some p ∧ p.prover = x

theorem manageFile_out (s : State) (h : Int) (t : Tracker) (file : File)
    (hget : AMap.get s.files file.key = some file) : MFOut s t file (manageFile s h t file) := by
  rcases manageFile_cases s h t file with ⟨hnil, _, e⟩ | ⟨_, e⟩
  · rw [e]
    refine ⟨?_, ?_, removeFile_wf s _, removeFile_proofs_get s _, ?_, removeFile_rest s _,
      fun x hx => Or.inl hx⟩
    · intro f' hf'
      rw [removeFile_files_get] at hf'; simp at hf'
    · intro k hk
      rw [removeFile_files_get, if_neg (fun e => hk e.symm)]
    · intro pk _
      show AMap.get (removeFile s file.key).proofs pk = _
      rw [removeFile_proofs_of_get s _ _ hget, hnil]; rfl
  · rw [e]
    obtain ⟨stored, shrink, others, wf, proofs, erased, rest, _, tracker⟩ := mfLoop_inv s h t file hget
    refine ⟨?_, others, wf, proofs, erased, rest, tracker⟩
    intro f' hf'
    rw [stored] at hf'; cases hf'; exact shrink

/-- the loop of `manageRewards` over the files -/
def filesLoop (h : Int) (l : List (FKey × File)) (a : State × Tracker) : State × Tracker :=
  l.foldl (fun (acc : State × Tracker) kv => manageFile acc.1 h acc.2 kv.2) a

/-- Induction principle for the file loop of the reward block on a consistent state: when the loop
reaches a file, that file is still stored exactly as it was read (managing one file never touches
the entry of another), so a property only has to be preserved by `manageFile` on stored files. -/
theorem filesLoop_induct (s : State) (h : Int) (hc : Consistent s) (P : State × Tracker → Prop)
    (hstep : ∀ a kv, kv ∈ s.files → AMap.get a.1.files kv.2.key = some kv.2 → kv.2.key = kv.1 →
      P a → P (manageFile a.1 h a.2 kv.2))
    (h0 : P (s, [])) : P (filesLoop h s.files (s, [])) := by
  have main : ∀ (l : List (FKey × File)) (a : State × Tracker),
      (∀ kv ∈ l, kv ∈ s.files) → (AMap.keys l).Nodup →
      (∀ kv ∈ l, AMap.get a.1.files kv.1 = some kv.2) → P a → P (filesLoop h l a) := by
    intro l
    induction l with
    | nil => intro a _ _ _ hp; exact hp
    | cons kv l ih =>
      intro a hsub hnd hpend hp
      have hkv : kv ∈ s.files := hsub kv List.mem_cons_self
      have hkey : kv.2.key = kv.1 :=
        hc.key _ _ (AMap.get_of_mem_wf hc.wf (by cases kv; exact hkv))
      have hget : AMap.get a.1.files kv.2.key = some kv.2 := by
        rw [hkey]; exact hpend kv List.mem_cons_self
      simp only [AMap.keys, List.map_cons, List.nodup_cons] at hnd
      unfold filesLoop
      simp only [List.foldl_cons]
      apply ih
      · exact fun x hx => hsub x (List.mem_cons_of_mem _ hx)
      · exact hnd.2
      · intro x hx
        have hne : x.1 ≠ kv.2.key := by
          rw [hkey]; intro e
          apply hnd.1; rw [← e]
          exact List.mem_map_of_mem hx
        rw [(manageFile_out a.1 h a.2 kv.2 hget).others _ hne]
        exact hpend x (List.mem_cons_of_mem _ hx)
      · exact hstep a kv hkv hget hkey hp
  apply main s.files (s, []) (fun _ h => h) hc.wf _ h0
  intro kv hkv
  exact AMap.get_of_mem_wf hc.wf (by cases kv; exact hkv)


/-! ### provers that proved recently survive the reward block -/

/-- the record of proof key `pk` exists and is recent enough for `file` at reward height `h`
(the file is young, or the last accepted proof is not older than the previous window) -/
def Recent (s : State) (h : Int) (file : File) (pk : PKey) : Prop :=
  ∃ p, AMap.get s.proofs pk = some p ∧
    (isYoung h file.start file.proofInterval = true ∨
     provenLastBlock h file.start file.proofInterval p.lastProven = true)

/-- invariant of the `manageFile` loop about the recent provers of `file` -/
structure KeepInv (s : State) (h : Int) (file : File) (a : State × Tracker × File) : Prop where
  start : a.2.2.start = file.start
  interval : a.2.2.proofInterval = file.proofInterval
  records : ∀ pk, Recent s h file pk → AMap.get a.1.proofs pk = AMap.get s.proofs pk
  listed : ∀ pk, Recent s h file pk → pk ∈ file.proofs → pk ∈ a.2.2.proofs
  providers : ∀ x, (∀ pk ∈ file.proofs, pk.1 = x → Recent s h file pk) →
    AMap.get a.1.providers x = AMap.get s.providers x

theorem KeepInv.step {s : State} {h : Int} {file : File} {a : State × Tracker × File}
    (pk' : PKey) (hpk' : pk' ∈ file.proofs) (inv : KeepInv s h file a) :
    KeepInv s h file (manageProof a.1 h a.2.1 a.2.2 pk') := by
  obtain ⟨sA, tA, fA⟩ := a
  obtain ⟨start, interval, records, listed, providers⟩ := inv
  dsimp only at *
  rcases manageProof_cases sA h tA fA pk' with ⟨e1, e2, _⟩ | ⟨hy, hnp, _, e2, e1⟩
  · exact ⟨by rw [e2]; exact start, by rw [e2]; exact interval, by rw [e1]; exact records,
      by rw [e2]; exact listed, by rw [e1]; exact providers⟩
  · -- `pk'` is being removed, so it is not one of the recent ones
    have hnot : ¬ Recent s h file pk' := by
      rintro ⟨p, hp, hok⟩
      have hp' : AMap.get sA.proofs pk' = some p := by
        rw [records pk' ⟨p, hp, hok⟩]; exact hp
      have := hnp p hp'
      rw [start, interval] at hy this
      rcases hok with hok | hok
      · rw [hok] at hy; cases hy
      · rw [hok] at this; cases this
    obtain ⟨_, _, hprov, hc⟩ := removeProver_cases sA fA pk'
    have core : KeepInv s h file ((removeProver sA fA pk').1, tA, (removeProver sA fA pk').2) := by
      rcases hc with ⟨_, e⟩ | ⟨_, f2, _, _, f3⟩
      · rw [e]; exact ⟨start, interval, records, listed, providers⟩
      · refine ⟨by show (removeProver sA fA pk').2.start = _; rw [f2]; exact start,
          by show (removeProver sA fA pk').2.proofInterval = _; rw [f2]; exact interval, ?_, ?_, ?_⟩
        · intro pk hr
          show AMap.get (removeProver sA fA pk').1.proofs pk = _
          have hne : pk' ≠ pk := fun e => hnot (by rw [e]; exact hr)
          rw [f3, AMap.get_erase_other _ _ _ hne]
          exact records pk hr
        · intro pk hr hin
          show pk ∈ (removeProver sA fA pk').2.proofs
          have hne : pk ≠ pk' := fun e => hnot (by rw [← e]; exact hr)
          rw [f2]
          exact List.mem_filter.mpr ⟨listed pk hr hin, by simpa using hne⟩
        · intro x hx
          show AMap.get (removeProver sA fA pk').1.providers x = _
          rw [hprov]; exact providers x hx
    obtain ⟨c1, c2, c3, c4, c5⟩ := core
    dsimp only at c1 c2 c3 c4 c5
    rcases e1 with e1 | e1
    · exact ⟨by rw [e2]; exact c1, by rw [e2]; exact c2, by rw [e1]; exact c3, by rw [e2]; exact c4,
        by rw [e1]; exact c5⟩
    · obtain ⟨_, _, b3, _, _, b6⟩ := burnContract_frame (removeProver sA fA pk').1 pk'.1
      refine ⟨by rw [e2]; exact c1, by rw [e2]; exact c2, by rw [e1, b3]; exact c3,
        by rw [e2]; exact c4, ?_⟩
      intro x hx
      have hne : x ≠ pk'.1 := fun e => hnot (hx pk' hpk' e.symm)
      rw [e1, b6 x hne]
      exact c5 x hx

theorem mfLoop_keep (s : State) (h : Int) (t : Tracker) (file : File) :
    KeepInv s h file (mfLoop s h t file) := by
  unfold mfLoop
  exact foldl_inv_mem (KeepInv s h file) _ file.proofs
    (fun b pk hpk inv => inv.step pk hpk) _
    ⟨rfl, rfl, fun _ _ => rfl, fun _ _ h => h, fun _ _ => rfl⟩

/-- `manageFile` on a stored file: every recent prover stays listed with its record untouched, and
a provider none of whose proof keys in this file is stale keeps its burn counter -/
theorem manageFile_keeps_recent (s : State) (h : Int) (t : Tracker) (file : File)
    (hget : AMap.get s.files file.key = some file) :
    (∀ pk ∈ file.proofs, Recent s h file pk →
      AMap.get (manageFile s h t file).1.proofs pk = AMap.get s.proofs pk ∧
      ∃ f', AMap.get (manageFile s h t file).1.files file.key = some f' ∧ pk ∈ f'.proofs) ∧
    (∀ x, (∀ pk ∈ file.proofs, pk.1 = x → Recent s h file pk) →
      AMap.get (manageFile s h t file).1.providers x = AMap.get s.providers x) := by
  rcases manageFile_cases s h t file with ⟨hnil, _, e⟩ | ⟨_, e⟩
  · rw [e]
    constructor
    · intro pk hpk; rw [hnil] at hpk; cases hpk
    · intro x _
      show AMap.get (removeFile s file.key).providers x = _
      rw [(removeFile_frame s file.key).2.2]
  · rw [e]
    have keep := mfLoop_keep s h t file
    have inv := mfLoop_inv s h t file hget
    constructor
    · intro pk hpk hr
      exact ⟨keep.records pk hr, _, inv.stored, keep.listed pk hr hpk⟩
    · exact keep.providers

/-- all listed provers recent: the loop changes nothing but the tracker -/
theorem mfLoop_all_recent (h : Int) (file : File) :
    ∀ (l : List PKey) (s : State) (t : Tracker), (∀ pk ∈ l, Recent s h file pk) →
      ∃ t', l.foldl (fun (acc : State × Tracker × File) pk =>
        manageProof acc.1 h acc.2.1 acc.2.2 pk) (s, t, file) = (s, t', file) := by
  intro l
  induction l with
  | nil => intro s t _; exact ⟨t, rfl⟩
  | cons pk l ih =>
    intro s t hall
    obtain ⟨p, hp, hok⟩ := hall pk List.mem_cons_self
    have e : manageProof s h t file pk = (s, credit t p.prover file.fileSize, file) := by
      unfold manageProof
      simp only [hp]
      rcases hok with hy | hpr
      · simp [hy]
      · simp [hpr]
    simp only [List.foldl_cons, e]
    exact ih s _ (fun x hx => hall x (List.mem_cons_of_mem _ hx))


/-! ### gauges and payouts -/
section pay
open Bank
/-- gauges release and payouts write only `gauges` and `bank` -/
structure PayRel (s s' : State) : Prop where
  files : s'.files = s.files
  files2 : s'.files2 = s.files2
  proofs : s'.proofs = s.proofs
  providers : s'.providers = s.providers
  payinfo : s'.payinfo = s.payinfo
  attests : s'.attests = s.attests
  reports : s'.reports = s.reports
  collateral : s'.collateral = s.collateral
  params : s'.params = s.params
  moduleAcc : s'.moduleAcc = s.moduleAcc
  collateralAcc : s'.collateralAcc = s.collateralAcc
  polAcc : s'.polAcc = s.polAcc
  feeAcc : s'.feeAcc = s.feeAcc
  blocked : s'.blocked = s.blocked

theorem PayRel.refl (s : State) : PayRel s s :=
  ⟨rfl, rfl, rfl, rfl, rfl, rfl, rfl, rfl, rfl, rfl, rfl, rfl, rfl, rfl⟩

theorem PayRel.trans {a b c : State} (h1 : PayRel a b) (h2 : PayRel b c) : PayRel a c :=
  ⟨h2.files.trans h1.files, h2.files2.trans h1.files2, h2.proofs.trans h1.proofs,
   h2.providers.trans h1.providers, h2.payinfo.trans h1.payinfo, h2.attests.trans h1.attests,
   h2.reports.trans h1.reports, h2.collateral.trans h1.collateral, h2.params.trans h1.params,
   h2.moduleAcc.trans h1.moduleAcc, h2.collateralAcc.trans h1.collateralAcc,
   h2.polAcc.trans h1.polAcc, h2.feeAcc.trans h1.feeAcc, h2.blocked.trans h1.blocked⟩

/-- a successful `send` can only raise the balance of the recipient -/
theorem bal_send_le {b b' : Bank} {src dst : String} {cs : Coins} (h : Bank.send b src dst cs = some b')
    (a d : String) (ha : a ≠ dst) : bal b' a d ≤ bal b a d := by
  have h1 := bal_send h a d
  have h2 := amt_nonneg_of_send h d
  rw [if_neg (fun e => ha e.symm)] at h1
  split at h1 <;> omega

theorem pullGauge_rel {s s' : State} {now : Int} {rel rel' : Coins} {g : Gauge}
    (h : pullGauge s now rel g = .ok (s', rel')) :
    PayRel s s' ∧ ∀ a d, a ≠ s.moduleAcc → bal s'.bank a d ≤ bal s.bank a d := by
  unfold pullGauge at h
  split at h
  · cases h; exact ⟨⟨rfl, rfl, rfl, rfl, rfl, rfl, rfl, rfl, rfl, rfl, rfl, rfl, rfl, rfl⟩, fun _ _ _ => Int.le_refl _⟩
  split at h
  · cases h; exact ⟨⟨rfl, rfl, rfl, rfl, rfl, rfl, rfl, rfl, rfl, rfl, rfl, rfl, rfl, rfl⟩, fun _ _ _ => Int.le_refl _⟩
  dsimp only at h
  split at h
  · cases h; exact ⟨⟨rfl, rfl, rfl, rfl, rfl, rfl, rfl, rfl, rfl, rfl, rfl, rfl, rfl, rfl⟩, fun _ _ _ => Int.le_refl _⟩
  split at h
  · cases h
  · have := foldlM_except_inv
      (fun (acc : State × Coins) => PayRel s acc.1 ∧ ∀ a d, a ≠ s.moduleAcc → bal acc.1.bank a d ≤ bal s.bank a d)
      _ ?_ _ _ _ ⟨PayRel.refl s, fun _ _ _ => Int.le_refl _⟩ h
    · exact this
    · intro acc coin acc' ⟨hr, hb⟩ hstep
      obtain ⟨st, rl⟩ := acc
      obtain ⟨denom, amount⟩ := coin
      dsimp only at hstep hr hb ⊢
      split at hstep
      · cases hstep
      split at hstep
      · cases hstep; exact ⟨hr, hb⟩
      split at hstep
      · cases hstep
      split at hstep
      · rename_i b hsend
        cases hstep
        refine ⟨hr.trans ⟨rfl, rfl, rfl, rfl, rfl, rfl, rfl, rfl, rfl, rfl, rfl, rfl, rfl, rfl⟩, ?_⟩
        intro a d ha
        have := bal_send_le hsend a d (by rw [hr.moduleAcc]; exact ha)
        exact Int.le_trans this (hb a d ha)
      · cases hstep; exact ⟨hr, hb⟩
theorem pullGauges_rel {s s' : State} {now : Int} {coins : Coins}
    (h : pullGauges s now = .ok (s', coins)) :
    PayRel s s' ∧ ∀ a d, a ≠ s.moduleAcc → bal s'.bank a d ≤ bal s.bank a d := by
  unfold pullGauges at h
  refine foldlM_except_inv
    (fun (acc : State × Coins) => PayRel s acc.1 ∧ ∀ a d, a ≠ s.moduleAcc → bal acc.1.bank a d ≤ bal s.bank a d)
    _ ?_ _ _ _ ⟨PayRel.refl s, fun _ _ _ => Int.le_refl _⟩ h
  intro acc kv acc' ⟨hr, hb⟩ hstep
  obtain ⟨st', rel'⟩ := acc'
  obtain ⟨hr', hb'⟩ := pullGauge_rel hstep
  refine ⟨hr.trans hr', ?_⟩
  intro a d ha
  exact Int.le_trans (hb' a d (by rw [hr.moduleAcc]; exact ha)) (hb a d ha)

theorem sendFromModule_le {s : State} {src dst : String} {c : Coins} {b : Bank}
    (h : sendFromModule s src dst c = some b) (a d : String) (ha : a ≠ dst) :
    bal b a d ≤ bal s.bank a d := by
  unfold sendFromModule at h
  split at h
  · cases h
  · exact bal_send_le h a d ha

theorem payProver_rel {s s' : State} {total : Int} {coins : Coins} {prover : String} {worth : Int}
    (h : payProver s total coins prover worth = .ok s') :
    PayRel s s' ∧ s'.gauges = s.gauges ∧ ∀ a d, a ≠ prover → bal s'.bank a d ≤ bal s.bank a d := by
  unfold payProver at h
  split at h
  · cases h
  split at h
  · cases h; exact ⟨PayRel.refl s, rfl, fun _ _ _ => Int.le_refl _⟩
  refine foldlM_except_inv
    (fun (st : State) => PayRel s st ∧ st.gauges = s.gauges ∧ ∀ a d, a ≠ prover → bal st.bank a d ≤ bal s.bank a d)
    _ ?_ _ _ _ ⟨PayRel.refl s, rfl, fun _ _ _ => Int.le_refl _⟩ h
  intro st coin st' ⟨hr, hg, hb⟩ hstep
  dsimp only at hstep
  split at hstep
  · cases hstep
  split at hstep
  · rename_i b hsend
    cases hstep
    refine ⟨hr.trans ⟨rfl, rfl, rfl, rfl, rfl, rfl, rfl, rfl, rfl, rfl, rfl, rfl, rfl, rfl⟩, hg, ?_⟩
    intro a d ha
    simp only [Option.bind_eq_some_iff] at hsend
    obtain ⟨c, _, hsend⟩ := hsend
    exact Int.le_trans (sendFromModule_le hsend a d ha) (hb a d ha)
  · cases hstep; exact ⟨hr, hg, hb⟩

/-- the total of `ManageRewards` -/
def totalSize (s : State) : Int :=
  (s.files.map (fun kv => kv.2.fileSize * (kv.2.proofs.length : Int))).sum

/-- `manageRewards` = file loop, then gauge release, then the payouts -/
theorem manageRewards_ok {s s' : State} {h now : Int} (hs : manageRewards s h now = .ok s') :
    ∃ s2 coins, pullGauges (filesLoop h s.files (s, [])).1 now = .ok (s2, coins) ∧
      (sortedProvers (filesLoop h s.files (s, [])).2).foldlM
        (fun st pw => payProver st (totalSize s) coins pw.1 pw.2) s2 = .ok s' := by
  unfold manageRewards at hs
  simp only [bind, Except.bind] at hs
  unfold filesLoop totalSize
  split at hs
  · cases hs
  · rename_i v hv
    exact ⟨v.1, v.2, hv, hs⟩
end pay


/-! ### the whole reward block -/

/-- `x` is the `prover` field of the record of a proof key listed in some stored file -/
def CreditedProver (s : State) (x : String) : Prop :=
  ∃ kv ∈ s.files, ∃ pk ∈ kv.2.proofs, ∃ p, AMap.get s.proofs pk = some p ∧ p.prover = x

/-- what the file loop of the reward block guarantees, relative to the state `s` it started from -/
structure BlockInv (s : State) (a : State × Tracker) : Prop where
  shrinks : ∀ k f', AMap.get a.1.files k = some f' →
    ∃ f, AMap.get s.files k = some f ∧ File.ShrinkOf f' f
  wf : AMap.WF a.1.files
  proofs : ∀ pk p, AMap.get a.1.proofs pk = some p → AMap.get s.proofs pk = some p
  rest : SameRest s a.1
  tracker : ∀ x ∈ AMap.keys a.2, x = "" ∨ CreditedProver s x

theorem filesLoop_blockInv (s : State) (h : Int) (hc : Consistent s) :
    BlockInv s (filesLoop h s.files (s, [])) := by
  apply filesLoop_induct s h hc (BlockInv s)
  · intro a kv hkv hget hkey ⟨shrinks, wf, proofs, rest, tracker⟩
    have out := manageFile_out a.1 h a.2 kv.2 hget
    refine ⟨?_, out.wf wf, fun pk p hp => proofs pk p (out.proofs pk p hp), rest.trans out.rest, ?_⟩
    · intro k f' hf'
      by_cases hk : k = kv.2.key
      · subst hk
        obtain ⟨f, hf, hsh⟩ := shrinks _ _ hget
        exact ⟨f, hf, (out.atKey f' hf').trans hsh⟩
      · rw [out.others k hk] at hf'
        exact shrinks k f' hf'
    · intro x hx
      rcases out.tracker x hx with hx | hx | ⟨pk, hpk, p, hp, hx⟩
      · exact tracker x hx
      · exact Or.inl hx
      · exact Or.inr ⟨kv, hkv, pk, hpk, p, proofs pk p hp, hx⟩
  · exact ⟨fun k f' hf' => ⟨f', hf', File.ShrinkOf.refl _⟩, hc.wf, fun _ _ h => h, SameRest.refl s,
      fun x hx => by simp [AMap.keys] at hx⟩

/-- every proof key of provider `x` listed in any stored file is recent at height `h` -/
def HonestProvider (s : State) (h : Int) (x : String) : Prop :=
  ∀ k f, AMap.get s.files k = some f → ∀ pk ∈ f.proofs, pk.1 = x → Recent s h f pk

theorem Recent.transfer {s s' : State} {h : Int} {f : File} {pk : PKey}
    (e : AMap.get s'.proofs pk = AMap.get s.proofs pk) (hr : Recent s h f pk) : Recent s' h f pk := by
  obtain ⟨p, hp, hok⟩ := hr
  exact ⟨p, by rw [e]; exact hp, hok⟩

structure KeepBlock (s : State) (h : Int) (a : State × Tracker) : Prop where
  provers : ∀ k f pk, AMap.get s.files k = some f → pk ∈ f.proofs → Recent s h f pk →
    AMap.get a.1.proofs pk = AMap.get s.proofs pk ∧
    ∃ fA, AMap.get a.1.files k = some fA ∧ pk ∈ fA.proofs
  providers : ∀ x, HonestProvider s h x → AMap.get a.1.providers x = AMap.get s.providers x

theorem filesLoop_keep (s : State) (h : Int) (hc : Consistent s) :
    KeepBlock s h (filesLoop h s.files (s, [])) := by
  apply filesLoop_induct s h hc (KeepBlock s h)
  · intro a kv hkv hget hkey ⟨provers, providers⟩
    have hs : AMap.get s.files kv.1 = some kv.2 :=
      AMap.get_of_mem_wf hc.wf (by cases kv; exact hkv)
    have out := manageFile_out a.1 h a.2 kv.2 hget
    obtain ⟨keep1, keep2⟩ := manageFile_keeps_recent a.1 h a.2 kv.2 hget
    constructor
    · intro k f pk hf hpk hr
      obtain ⟨e, fA, hfA, hin⟩ := provers k f pk hf hpk hr
      by_cases hk : k = kv.1
      · subst hk
        rw [hs] at hf; cases hf
        obtain ⟨e', f', hf', hin'⟩ := keep1 pk hpk (hr.transfer e)
        rw [hkey] at hf'
        exact ⟨e'.trans e, f', hf', hin'⟩
      · have hnot : pk ∉ kv.2.proofs := by
          intro hmem
          have h1 := hc.listed _ _ hs pk hmem
          have h2 := hc.listed _ _ hf pk hpk
          exact hk (h2.symm.trans h1)
        refine ⟨(out.erased pk hnot).trans e, fA, ?_, hin⟩
        rw [out.others k (by rw [hkey]; exact hk)]; exact hfA
    · intro x hx
      rw [keep2 x ?_]
      · exact providers x hx
      · intro pk hpk hpx
        have hr := hx _ _ hs pk hpk hpx
        exact hr.transfer (provers _ _ pk hs hpk hr).1
  · exact ⟨fun k f pk hf hpk _ => ⟨rfl, f, hf, hpk⟩, fun _ _ => rfl⟩


open Bank in
theorem payLoop_rel {s s2 s' : State} {tr : Tracker} {total : Int} {coins : Coins}
    (htr : ∀ x ∈ AMap.keys tr, x = "" ∨ CreditedProver s x)
    (hpay : (sortedProvers tr).foldlM (fun st pw => payProver st total coins pw.1 pw.2) s2 = .ok s') :
    PayRel s2 s' ∧ s'.gauges = s2.gauges ∧
      ∀ a d, ¬ CreditedProver s a → bal s'.bank a d ≤ bal s2.bank a d := by
  have hmem : ∀ pw ∈ sortedProvers tr, pw.1 = "" ∨ CreditedProver s pw.1 := by
    intro pw hpw
    unfold sortedProvers at hpw
    have hpw' : pw ∈ tr := List.mem_mergeSort.mp hpw
    exact htr _ (List.mem_map_of_mem hpw')
  generalize sortedProvers tr = l at hpay hmem
  have base : PayRel s2 s2 ∧ s2.gauges = s2.gauges ∧
      ∀ a d, ¬ CreditedProver s a → bal s2.bank a d ≤ bal s2.bank a d :=
    ⟨PayRel.refl s2, rfl, fun _ _ _ => Int.le_refl _⟩
  have key := foldlM_except_inv_mem
    (fun (st : State) => PayRel s2 st ∧ st.gauges = s2.gauges ∧
      ∀ a d, ¬ CreditedProver s a → bal st.bank a d ≤ bal s2.bank a d)
    (fun (st : State) (pw : String × Int) => payProver st total coins pw.1 pw.2) l
  refine key ?_ s2 s' base hpay
  intro st pw st' hpw ⟨hr, hg, hb⟩ hstep
  obtain ⟨hr', hg', hb'⟩ := payProver_rel hstep
  refine ⟨hr.trans hr', hg'.trans hg, ?_⟩
  intro a d hq
  rcases hmem pw hpw with he | hcp
  · have : st' = st := by
      unfold payProver at hstep
      split at hstep
      · cases hstep
      · rw [if_pos he] at hstep; cases hstep; rfl
    rw [this]; exact hb a d hq
  · have hne : a ≠ pw.1 := fun e => hq (e ▸ hcp)
    exact Int.le_trans (hb' a d hne) (hb a d hq)

open Bank in
/-- the three phases of the reward block put together -/
theorem manageRewards_out {s s' : State} {h now : Int} (hc : Consistent s)
    (hs : manageRewards s h now = .ok s') :
    BlockInv s (filesLoop h s.files (s, [])) ∧ PayRel (filesLoop h s.files (s, [])).1 s' ∧
      ∀ a d, a ≠ s.moduleAcc → ¬ CreditedProver s a → bal s'.bank a d ≤ bal s.bank a d := by
  obtain ⟨s2, coins, hpull, hpay⟩ := manageRewards_ok hs
  have inv := filesLoop_blockInv s h hc
  generalize filesLoop h s.files (s, []) = L at *
  obtain ⟨s1, tr⟩ := L
  obtain ⟨r1, b1⟩ := pullGauges_rel hpull
  dsimp only at hpull hpay r1 b1 ⊢
  obtain ⟨r2, _, b2⟩ := payLoop_rel inv.tracker hpay
  refine ⟨inv, r1.trans r2, ?_⟩
  intro a d ha hq
  have e1 : s1.bank = s.bank := inv.rest.bank
  have e2 : s1.moduleAcc = s.moduleAcc := inv.rest.moduleAcc
  have := b1 a d (by rw [e2]; exact ha)
  rw [e1] at this
  exact Int.le_trans (b2 a d hq) this


/-- the reward block preserves store consistency -/
theorem consistent_manageRewards {s s' : State} {h now : Int} (hc : Consistent s)
    (hs : manageRewards s h now = .ok s') : Consistent s' := by
  obtain ⟨inv, rel, _⟩ := manageRewards_out hc hs
  refine ⟨by rw [rel.files]; exact inv.wf, ?_, ?_, ?_, ?_⟩
  · intro k f' hf'
    rw [rel.files] at hf'
    obtain ⟨f, hf, hsh⟩ := inv.shrinks k f' hf'
    rw [hsh.key]; exact hc.key k f hf
  · intro k f' hf' pk hpk
    rw [rel.files] at hf'
    obtain ⟨f, hf, hsh⟩ := inv.shrinks k f' hf'
    exact hc.listed k f hf pk (hsh.2.subset hpk)
  · intro pk p hp
    rw [rel.proofs] at hp
    exact hc.record pk p (inv.proofs pk p hp)
  · rw [rel.attests, inv.rest.attests]; exact hc.form

theorem consistent_beginBlock {s s' : State} {h now : Int} (hc : Consistent s)
    (hs : beginBlock s h now = .ok s') : Consistent s' := by
  unfold beginBlock at hs
  split at hs
  · cases hs
  split at hs
  · cases hs; exact hc
  · exact consistent_manageRewards hc hs

/-- the state with nothing stored is consistent -/
theorem consistent_of_empty (s : State) (h1 : s.files = []) (h2 : s.proofs = []) (h3 : s.attests = []) :
    Consistent s := by
  refine ⟨by rw [h1]; exact List.nodup_nil, ?_, ?_, ?_, ?_⟩
  · intro k f hf; rw [h1] at hf; cases hf
  · intro k f hf; rw [h1] at hf; cases hf
  · intro pk p hp; rw [h2] at hp; cases hp
  · intro pk fm hfm; rw [h3] at hfm; cases hfm


/-! ### consistency along whole executions -/

/-- what happens on chain: a delivered message, the begin-blocker, or a governance change of the
module parameters -/
inductive Event where
  | msg (h now : Int) (op : Op)
  | block (h now : Int)
  | setParams (p : Params)

/-- `none` = the message returned an error (dropped) resp. the begin-blocker panicked -/
def applyEvent (s : State) : Event → Option State
  | .msg h now op => step s h now op
  | .block h now =>
    match beginBlock s h now with
    | .ok s' => some s'
    | .error _ => none
  | .setParams p => some { s with params := p }

/-- `Consistent` is an invariant of every execution -/
theorem consistent_run (evs : List Event) : ∀ (s s' : State), Consistent s →
    evs.foldlM applyEvent s = some s' → Consistent s' := by
  induction evs with
  | nil =>
    intro s s' hc h
    simp only [List.foldlM_nil, pure, Option.some.injEq] at h
    subst h; exact hc
  | cons e evs ih =>
    intro s s' hc h
    simp only [List.foldlM_cons, bind, Option.bind_eq_some_iff] at h
    obtain ⟨s1, h1, h2⟩ := h
    refine ih s1 s' ?_ h2
    cases e with
    | msg hh now op => exact consistent_step hc h1
    | block hh now =>
      simp only [applyEvent] at h1
      split at h1
      · rename_i s2 hb
        cases h1
        exact consistent_beginBlock hc hb
      · cases h1
    | setParams p =>
      simp only [applyEvent, Option.some.injEq] at h1
      subst h1
      exact ⟨hc.wf, hc.key, hc.listed, hc.record, hc.form⟩

end Storage
end Canine
