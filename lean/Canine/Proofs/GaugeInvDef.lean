/-
Gauge invariant for C05, part 3: the state invariant `GaugeInv`, that it implies the hypothesis
`GaugesSafe` of `C05_beginBlock_never_panics`, that it is monotone in time, and the frame lemma:
a step that keeps the gauge store and only moves coins out of accounts that are no gauge's escrow
account keeps the invariant.
-/
import Canine.Proofs.GaugeInvBank
namespace Canine.Storage
open Bank GI

/-- how the chain derives the escrow account of a gauge from its id (a hash): a fixed injective
function -/
structure EscrowScheme where
  accOf : String → String
  inj : ∀ a b, accOf a = accOf b → a = b

/-- the coins a gauge records: nothing, or one non-negative amount of ujkl (both gauge-creating
messages deposit `sdk.NewCoins(sdk.NewCoin("ujkl", x))`) -/
def CoinsOk (cs : Coins) : Prop := cs = [] ∨ ∃ x, 0 ≤ x ∧ cs = [("ujkl", x)]

/-- one gauge against ledger `b` at time `t`: it has started, lasts at least two microseconds,
records well-formed coins, and — while it has not ended — what has left its escrow account,
`A − bal`, is at most `ratio(t)·A` in the exact `sdk.Dec` arithmetic of `pullGauge` -/
structure GaugeOk (b : Bank) (t : Int) (g : Gauge) : Prop where
  started : g.startT ≤ t
  long : g.startT + 1999 ≤ g.endT
  coins : CoinsOk g.coins
  sched : t ≤ g.endT → ∀ c ∈ g.coins,
    (Dec.ofInt (c.2 - bal b g.account c.1)).raw ≤ (would g.startT g.endT t c.2).raw

/-- **The gauge invariant** at time `t` (the time of the last block or message). -/
structure GaugeInv (E : EscrowScheme) (s : State) (t : Int) : Prop where
  wf : AMap.WF s.gauges
  ids : ∀ kv ∈ s.gauges, kv.2.id = kv.1 ∧ kv.2.account = E.accOf kv.1
  accNe : ∀ kv ∈ s.gauges, kv.2.account ≠ s.moduleAcc ∧ kv.2.account ≠ s.collateralAcc
  ok : ∀ kv ∈ s.gauges, GaugeOk s.bank t kv.2
  bank : BankOk s.bank

theorem CoinsOk.nonneg {cs : Coins} (h : CoinsOk cs) : ∀ c ∈ cs, 0 ≤ c.2 := by
  intro c hc
  rcases h with e | ⟨x, hx, e⟩
  · subst e; simp at hc
  · subst e; simp only [List.mem_singleton] at hc; subst hc; exact hx

theorem CoinsOk.nodup {cs : Coins} (h : CoinsOk cs) : (cs.map (·.1)).Nodup := by
  rcases h with e | ⟨x, _, e⟩ <;> subst e <;> simp

theorem ofInt_raw (x : Int) : (Dec.ofInt x).raw = x * precision := rfl

/-- crediting the escrow account keeps a gauge on schedule -/
theorem GaugeOk.of_bal_ge {b b' : Bank} {t : Int} {g : Gauge} (h : GaugeOk b t g)
    (hb : ∀ d, bal b g.account d ≤ bal b' g.account d) : GaugeOk b' t g := by
  refine ⟨h.started, h.long, h.coins, fun ht c hc => ?_⟩
  have := h.sched ht c hc
  have hbd := hb c.1
  rw [ofInt_raw] at this ⊢
  unfold precision at *
  omega

/-- time passing keeps a gauge on schedule (`would` is monotone) -/
theorem GaugeOk.advance {b : Bank} {t t' : Int} {g : Gauge} (h : GaugeOk b t g) (htt : t ≤ t') :
    GaugeOk b t' g := by
  refine ⟨Int.le_trans h.started htt, h.long, h.coins, fun ht c hc => ?_⟩
  have h1 : Live g.startT g.endT t := ⟨h.started, by omega, h.long⟩
  have h2 : Live g.startT g.endT t' := ⟨Int.le_trans h.started htt, ht, h.long⟩
  exact Int.le_trans (h.sched (by omega) c hc) (would_mono h1 h2 htt (h.coins.nonneg c hc))

theorem GaugeInv.advance {E : EscrowScheme} {s : State} {t t' : Int} (h : GaugeInv E s t) (htt : t ≤ t') :
    GaugeInv E s t' :=
  ⟨h.wf, h.ids, h.accNe, fun kv hkv => (h.ok kv hkv).advance htt, h.bank⟩

/-- a gauge that is on schedule is safe in the sense of `GaugeSafe` -/
theorem GaugeOk.safe {b : Bank} {t : Int} {g : Gauge} (h : GaugeOk b t g) (hb : BankOk b) : GaugeSafe b t g := by
  intro _ hend _
  have hl : Live g.startT g.endT t := ⟨h.started, hend, h.long⟩
  obtain ⟨q, hq, hr⟩ := quo_ratioAt g.startT g.endT t (by have := hl.us.2.2; omega)
  refine ⟨q, hq, fun c hc => ?_⟩
  rw [hr]
  have hA := h.coins.nonneg c hc
  have hs := h.sched hend c hc
  rw [ofInt_raw] at hs
  obtain ⟨a0, a1, _⟩ := amt_on_schedule (would_range hl hA).2 hs
  unfold CoinSafe
  rw [gaugeAmt_eq]
  refine ⟨a0, ?_⟩
  have := hb.bal_le g.account c.1
  unfold I64.inRange I64.minV
  unfold I64.maxV at *
  simp only [Bool.and_eq_true, decide_eq_true_eq]
  omega

theorem wf_unique {K V : Type} [DecidableEq K] {m : AMap K V} (hwf : AMap.WF m) {p q : K × V}
    (hp : p ∈ m) (hq : q ∈ m) (hk : p.1 = q.1) : p = q := by
  obtain ⟨k, v⟩ := p
  obtain ⟨k', v'⟩ := q
  simp only at hk; subst hk
  have h1 := AMap.get_of_mem_wf hwf hp
  have h2 := AMap.get_of_mem_wf hwf hq
  rw [h1] at h2; cases h2; rfl

theorem pairwise_of_wf {K V : Type} [DecidableEq K] {R : K × V → K × V → Prop} :
    ∀ {m : AMap K V}, AMap.WF m → (∀ p ∈ m, ∀ q ∈ m, p.1 ≠ q.1 → R p q) → m.Pairwise R
  | [], _, _ => List.Pairwise.nil
  | p :: t, hwf, h => by
    simp only [AMap.WF, AMap.keys, List.map_cons, List.nodup_cons] at hwf
    refine List.Pairwise.cons ?_ (pairwise_of_wf (by simpa [AMap.WF, AMap.keys] using hwf.2)
      (fun a ha b hb => h a (List.mem_cons_of_mem _ ha) b (List.mem_cons_of_mem _ hb)))
    intro q hq
    refine h p (by simp) q (List.mem_cons_of_mem _ hq) ?_
    intro e
    apply hwf.1
    rw [e]
    exact List.mem_map_of_mem hq

/-- two stored gauges with the same escrow account are the same entry -/
theorem GaugeInv.same_acc {E : EscrowScheme} {s : State} {t : Int} (h : GaugeInv E s t)
    {p q : String × Gauge} (hp : p ∈ s.gauges) (hq : q ∈ s.gauges) (ha : p.2.account = q.2.account) : p = q := by
  apply wf_unique h.wf hp hq
  apply E.inj
  rw [← (h.ids p hp).2, ← (h.ids q hq).2, ha]

/-- **The invariant implies the gauge hypothesis of `C05_beginBlock_never_panics`.** -/
theorem GaugeInv.gaugesSafe {E : EscrowScheme} {s : State} {t : Int} (h : GaugeInv E s t) : GaugesSafe s t := by
  refine ⟨fun kv hkv => (h.ok kv hkv).safe h.bank, fun kv hkv => (h.accNe kv hkv).1, ?_,
    fun kv hkv => (h.ok kv hkv).coins.nodup⟩
  apply pairwise_of_wf h.wf
  intro p hp q hq hne ha
  exact hne (congrArg Prod.fst (h.same_acc hp hq ha))

/-- the invariant holds where there are no gauges (genesis), on a ledger that is in order -/
theorem GaugeInv.init (E : EscrowScheme) (s : State) (t : Int) (hg : s.gauges = []) (hb : BankOk s.bank) :
    GaugeInv E s t := by
  refine ⟨by rw [hg]; simp [AMap.WF, AMap.keys], ?_, ?_, ?_, hb⟩ <;>
  · intro kv hkv; rw [hg] at hkv; simp at hkv

/-- **Frame lemma.**  A step that keeps the gauge store and the two module accounts, and moves
coins only out of accounts that are no gauge's escrow account, keeps the invariant. -/
theorem GaugeInv.frame {E : EscrowScheme} {s s' : State} {t : Int} {P : String → Prop} (h : GaugeInv E s t)
    (hg : s'.gauges = s.gauges) (hm : s'.moduleAcc = s.moduleAcc) (hc : s'.collateralAcc = s.collateralAcc)
    (hb : Moves P s.bank s'.bank) (hP : ∀ kv ∈ s.gauges, ¬ P kv.2.account) : GaugeInv E s' t := by
  refine ⟨by rw [hg]; exact h.wf, by rw [hg]; exact h.ids, by rw [hg, hm, hc]; exact h.accNe, ?_, h.bank.moves hb⟩
  rw [hg]
  intro kv hkv
  exact (h.ok kv hkv).of_bal_ge (fun d => hb.bal_ge _ (hP kv hkv) d)

theorem mem_erase_of_ne {K V : Type} [DecidableEq K] {m : AMap K V} {k : K} {p : K × V}
    (hp : p ∈ m) (hk : p.1 ≠ k) : p ∈ AMap.erase m k := by
  induction m with
  | nil => simp at hp
  | cons q t ih =>
    obtain ⟨k', v'⟩ := q
    by_cases h1 : k' = k
    · simp only [AMap.erase, h1, if_true]
      rcases List.mem_cons.mp hp with e | hm
      · subst e; exact absurd h1 hk
      · exact ih hm
    · simp only [AMap.erase, h1, if_false, List.mem_cons]
      rcases List.mem_cons.mp hp with e | hm
      · exact Or.inl e
      · exact Or.inr (ih hm)

/-- deleting a gauge keeps the invariant -/
theorem GaugeInv.erase {E : EscrowScheme} {s : State} {t : Int} (h : GaugeInv E s t) (k : String) :
    GaugeInv E { s with gauges := AMap.erase s.gauges k } t :=
  ⟨AMap.wf_erase k h.wf, fun kv hkv => h.ids kv (AMap.mem_of_mem_erase hkv),
   fun kv hkv => h.accNe kv (AMap.mem_of_mem_erase hkv),
   fun kv hkv => h.ok kv (AMap.mem_of_mem_erase hkv), h.bank⟩

end Canine.Storage
