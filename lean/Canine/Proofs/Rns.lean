/- Helper lemmas for the name-service properties (C08, C09, C16). -/
import Canine.Rns.Model
import Canine.Proofs.Bank
namespace Canine.Rns
open Bank

theorem sendFromModule_spec {s : State} {dst : String} {c : Coins} {b' : Bank}
    (h : sendFromModule s dst c = some b') :
    s.blocked.contains dst = false ∧ Bank.send s.bank s.moduleAcc dst c = some b' := by
  unfold sendFromModule at h
  split at h
  · simp at h
  · rename_i hb; exact ⟨by simpa using hb, h⟩

theorem sendFromModule_bal {s : State} {dst : String} {c : Coins} {b' : Bank}
    (h : sendFromModule s dst c = some b') (a d : String) :
    bal b' a d = bal s.bank a d + (if dst = a then amt d c else 0)
      - (if s.moduleAcc = a then amt d c else 0) :=
  bal_send (sendFromModule_spec h).2 a d

theorem sendFromModule_ne {s : State} {dst : String} {c : Coins} {b' : Bank}
    (h : sendFromModule s dst c = some b') (hm : s.moduleAcc ∈ s.blocked) : dst ≠ s.moduleAcc := by
  intro e
  have := (sendFromModule_spec h).1
  rw [e] at this
  simp at this
  exact this hm

/-- amount of denomination `d` a bid holds in escrow -/
def bidAmt (d : String) (b : BidRec) : Int := amt d (b.price.getD [])

/-- total escrowed by the open bids -/
def escrowed (d : String) (s : State) : Int := AMap.sumBy (bidAmt d) s.bids

end Canine.Rns

namespace Canine.Rns
open Bank

/-- a successful step passed `ValidateBasic`, its signer parsed to the canonical address `cc`,
and the handler succeeded -/
theorem step_some {s s' : State} {h : Int} {op : Op} (hstep : step s h op = some s') :
    ∃ cc, validateBasic op = true ∧ acct s op.creator = some cc ∧ handle s h cc op = some s' := by
  unfold step at hstep
  split at hstep
  · rename_i hv
    simp only [Option.bind_eq_some_iff] at hstep
    obtain ⟨cc, hcc, hh⟩ := hstep
    simp only [Bool.and_eq_true] at hv
    exact ⟨cc, hv.1, hcc, hh⟩
  · simp at hstep

/-- No message changes the configuration part of the state. -/
theorem step_cfg {s s' : State} {h : Int} {op : Op} (hstep : step s h op = some s') :
    s'.moduleAcc = s.moduleAcc ∧ s'.polAcc = s.polAcc ∧ s'.blocked = s.blocked ∧ s'.canon = s.canon := by
  obtain ⟨cc, -, hcc, hstep⟩ := step_some hstep
  cases op with
  | register c raw n dta y p =>
    simp only [handle, register, bind, Option.bind_eq_some_iff, req_eq_some] at hstep
    obtain ⟨⟨nm, tld⟩, -, cost, -, _, -, ex, -, b1, hb1, b2, hb2, hs⟩ := hstep
    simp only [Option.some.injEq] at hs
    subst hs; unfold setPrimaryIf; split <;> simp
  | list c raw n pr p =>
    simp only [handle, list, bind, Option.bind_eq_some_iff, req_eq_some] at hstep
    obtain ⟨_, -, ⟨nm, tld⟩, -, w, -, _, -, _, -, _, -, hs⟩ := hstep
    simp only [Option.some.injEq] at hs; subst hs; simp
  | delist c raw n =>
    simp only [handle, delist, bind, Option.bind_eq_some_iff, req_eq_some] at hstep
    obtain ⟨sale, -, ⟨nm, tld⟩, -, w, -, _, -, _, -, hs⟩ := hstep
    simp only [Option.some.injEq] at hs; subst hs; simp
  | buy c raw n =>
    simp only [handle, buy, bind, Option.bind_eq_some_iff, req_eq_some] at hstep
    obtain ⟨sale, -, ⟨nm, tld⟩, -, w, -, _, -, _, -, _, -, seller, hseller, pr, -, coins, -, b1, hb1, b2, hb2, hs⟩ := hstep
    simp only [Option.some.injEq] at hs; subst hs; simp
  | bid c raw n pr p =>
    simp only [handle, bid, bind, Option.bind_eq_some_iff] at hstep
    obtain ⟨coins, hp, b0, hb0, b1, hb1, hs⟩ := hstep
    simp only [Option.some.injEq] at hs; subst hs; simp
  | cancelBid c raw n =>
    simp only [handle, cancelBid, bind, Option.bind_eq_some_iff] at hstep
    obtain ⟨b, hb, coins, hcoins, b1, hb1, hs⟩ := hstep
    simp only [Option.some.injEq] at hs; subst hs; simp
  | acceptBid c raw n bidder =>
    simp only [handle, acceptBid, bind, Option.bind_eq_some_iff, req_eq_some] at hstep
    obtain ⟨⟨nm, tld⟩, -, w, -, _, -, _, -, _, -, b, hb, coins, hcoins, b1, hb1, hs⟩ := hstep
    simp only [Option.some.injEq] at hs; subst hs; simp
  | transfer c raw n r =>
    simp only [handle, transfer, bind, Option.bind_eq_some_iff, req_eq_some] at hstep
    obtain ⟨⟨nm, tld⟩, -, w, -, _, -, _, -, _, -, hs⟩ := hstep
    simp only [Option.some.injEq] at hs; subst hs; simp
  | update c raw n dta =>
    simp only [handle, update, bind, Option.bind_eq_some_iff, req_eq_some] at hstep
    obtain ⟨⟨nm, tld⟩, -, w, -, _, -, _, -, hs⟩ := hstep
    simp only [Option.some.injEq] at hs; subst hs; simp
  | addRecord c raw n r rl v dta =>
    simp only [handle, addRecord, bind, Option.bind_eq_some_iff, req_eq_some] at hstep
    obtain ⟨⟨nm, tld⟩, -, w, -, _, -, _, -, _, -, _, -, hs⟩ := hstep
    simp only [Option.some.injEq] at hs; subst hs; simp
  | delRecord c raw n =>
    simp only [handle, delRecord, bind, Option.bind_eq_some_iff, req_eq_some] at hstep
    obtain ⟨⟨nm, tld⟩, -, ⟨sub, n2⟩, -, w, -, _, -, _, -, _, -, hs⟩ := hstep
    simp only [Option.some.injEq] at hs; subst hs; simp
  | init c g =>
    simp only [handle, init, bind, Option.bind_eq_some_iff, req_eq_some] at hstep
    obtain ⟨_, -, _, -, _, -, _, -, hs⟩ := hstep
    simp only [Option.some.injEq] at hs; subst hs; simp
  | makePrimary c raw n =>
    simp only [handle, makePrimary, bind, Option.bind_eq_some_iff] at hstep
    obtain ⟨⟨nm, tld⟩, -, hs⟩ := hstep
    simp only [Option.some.injEq] at hs; subst hs; simp

theorem stepT_cfg (s : State) (h : Int) (op : Op) :
    (stepT s h op).moduleAcc = s.moduleAcc ∧ (stepT s h op).polAcc = s.polAcc ∧
    (stepT s h op).blocked = s.blocked ∧ (stepT s h op).canon = s.canon := by
  unfold stepT
  cases hs : step s h op with
  | none => simp
  | some s' => simpa using step_cfg hs

end Canine.Rns
